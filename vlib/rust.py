"""Rust side: build harness binaries from /repo's current tree (hooks on), run them."""
import os, fcntl, time
from .core import ROOT, NCPU, sh

from .core import REPO
HARNESS = os.path.join(ROOT, "harness")
if REPO != "/repo":
    # Alternative repository root (used for seeded-change experiments while /repo is in use by
    # others): a copy of the harness crate with its path dependencies pointed at REPO and its own
    # target directory. Registered checks always run with REPO = /repo.
    import hashlib, shutil
    _alt = os.path.join(ROOT, "work", "harness_" + hashlib.sha256(REPO.encode()).hexdigest()[:8])
    os.makedirs(_alt, exist_ok=True)
    for _f in ("Cargo.toml", "Cargo.lock"):
        _t = open(os.path.join(HARNESS, _f)).read().replace('"/repo/', '"%s/' % REPO.rstrip("/"))
        if not os.path.exists(os.path.join(_alt, _f)) or open(os.path.join(_alt, _f)).read() != _t:
            open(os.path.join(_alt, _f), "w").write(_t)
    os.makedirs(os.path.join(_alt, ".cargo"), exist_ok=True)
    shutil.copy(os.path.join(HARNESS, ".cargo", "config.toml"), os.path.join(_alt, ".cargo", "config.toml"))
    if os.path.islink(os.path.join(_alt, "src")) or os.path.exists(os.path.join(_alt, "src")):
        pass
    else:
        os.symlink(os.path.join(HARNESS, "src"), os.path.join(_alt, "src"))
    HARNESS = _alt
ENV = {"CARGO_NET_OFFLINE": "true", "RUSTFLAGS": "--cfg fuellabs_sway_verif",
       "CARGO_TARGET_DIR": os.path.join(HARNESS, "target")}


def build(bin_name, timeout=7200):
    """cargo build one harness binary; serialised across concurrent checks by a file lock."""
    os.makedirs(os.path.join(HARNESS, "target"), exist_ok=True)
    lock = open(os.path.join(HARNESS, "target", ".verif.lock"), "w")
    fcntl.flock(lock, fcntl.LOCK_EX)
    try:
        lockfile = os.path.join(HARNESS, "Cargo.lock")
        if not os.path.exists(lockfile):
            sh("cp %s/Cargo.lock %s" % (REPO, lockfile))
        rc, out = sh("cargo build --offline --bin %s 2>&1 | tail -60" % bin_name, cwd=HARNESS, env=ENV, timeout=timeout)
        path = os.path.join(HARNESS, "target", "debug", bin_name)
        if rc != 0 or "error" in out and not os.path.exists(path):
            return None, out
        if "error: could not compile" in out or "error[" in out:
            return None, out
        return path, out
    finally:
        fcntl.flock(lock, fcntl.LOCK_UN)
        lock.close()


def run(path, args=(), input=None, timeout=1800, env=None, cwd=None):
    e = {"RUST_BACKTRACE": "0"}
    if env: e.update(env)
    return sh([path] + list(args), input=input, timeout=timeout, env=e, cwd=cwd)
