"""Build and run generated Sway packages through the real forc pipeline (harness bin `swayrun`)."""
import os, json, shutil, concurrent.futures as cf
from .core import NCPU, REPO
from . import rust

FORC_TOML = """[project]
authors = ["verif"]
entry = "%(entry)s"
license = "Apache-2.0"
name = "%(name)s"
%(extra)s
[dependencies]
std = { path = "%(repo)s/sway-lib-std" }
%(deps)s
"""

def write_pkg(base, name, sources, entry="lib.sw", deps="", extra=""):
    """sources: {relative file under src/: text}. Returns the package dir."""
    d = os.path.join(base, name)
    if os.path.exists(d):
        shutil.rmtree(d)
    os.makedirs(os.path.join(d, "src"))
    open(os.path.join(d, "Forc.toml"), "w").write(FORC_TOML % {"entry": entry, "name": name, "deps": deps, "extra": extra, "repo": REPO})
    for rel, text in sources.items():
        p = os.path.join(d, "src", rel)
        os.makedirs(os.path.dirname(p), exist_ok=True)
        open(p, "w", encoding="utf-8").write(text)
    return d

def run_pkgs(dirs, release=False, timeout=1800, jobs=None):
    """Returns {dir: result-json} ; a missing/garbled line is reported as status 'harness_error'."""
    binp, out = rust.build("swayrun")
    if binp is None:
        raise RuntimeError("swayrun does not build:\n" + out[-3000:])
    jobs = jobs or NCPU
    def one(d):
        rc, o = rust.run(binp, (["--release"] if release else []) + [d], timeout=timeout)
        for line in o.split("\n"):
            line = line.strip()
            if line.startswith("{"):
                try:
                    return d, json.loads(line)
                except Exception:
                    pass
        return d, {"pkg": d, "status": "harness_error", "error": "rc=%s out=%s" % (rc, o[-1500:])}
    with cf.ThreadPoolExecutor(max_workers=jobs) as ex:
        return dict(ex.map(one, dirs))
