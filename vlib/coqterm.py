"""Parser for the subset of Coq's term printing produced by our `Eval vm_compute` lines:
numbers (with optional %N/%Z/%nat), lists [a; b], tuples (a, b), constructor applications
(C a b), strings "..." and bare identifiers. Returns nested Python values:
 int | str | list | tuple | ("C", args...) as a tuple whose first item is the constructor name
 (wrapped in class App)."""
import re

class App(tuple):
    """Constructor application: App((name, arg1, ...))."""
    @property
    def head(self): return self[0]
    @property
    def args(self): return tuple(self[1:])
    def __repr__(self): return "App" + tuple.__repr__(self)

TOK = re.compile(r"""\s*(?:
    (?P<num>-?\d+)(?:%[A-Za-z_]+)? |
    (?P<str>"(?:[^"]|"")*") |
    (?P<id>[A-Za-z_][A-Za-z0-9_'.]*) |
    (?P<p>[\[\]();,]) )""", re.X)

def tokenize(s):
    pos, out = 0, []
    s = s.strip()
    while pos < len(s):
        m = TOK.match(s, pos)
        if not m:
            raise ValueError("coqterm: cannot tokenize at %r" % s[pos:pos + 40])
        pos = m.end()
        if m.group("num") is not None: out.append(("num", int(m.group("num"))))
        elif m.group("str") is not None: out.append(("str", m.group("str")[1:-1].replace('""', '"')))
        elif m.group("id") is not None: out.append(("id", m.group("id")))
        else: out.append(("p", m.group("p")))
    return out

class P:
    def __init__(self, toks): self.t, self.i = toks, 0
    def peek(self): return self.t[self.i] if self.i < len(self.t) else (None, None)
    def next(self): x = self.peek(); self.i += 1; return x
    def atom(self):
        k, v = self.next()
        if k == "num" or k == "str": return v
        if k == "id": return App((v,))
        if (k, v) == ("p", "["):
            items = []
            if self.peek() == ("p", "]"): self.next(); return items
            while True:
                items.append(self.term())
                k2, v2 = self.next()
                if (k2, v2) == ("p", "]"): return items
                if (k2, v2) != ("p", ";"): raise ValueError("coqterm: expected ; or ] got %r" % (v2,))
        if (k, v) == ("p", "("):
            items = [self.term()]
            while True:
                k2, v2 = self.next()
                if (k2, v2) == ("p", ")"): break
                if (k2, v2) != ("p", ","): raise ValueError("coqterm: expected , or ) got %r" % (v2,))
                items.append(self.term())
            return items[0] if len(items) == 1 else tuple(items)
        raise ValueError("coqterm: unexpected token %r" % (v,))
    def term(self):
        k, v = self.peek()
        if k == "id":
            self.next(); args = []
            while True:
                k2, v2 = self.peek()
                if k2 in ("num", "str", "id") or (k2, v2) in (("p", "["), ("p", "(")):
                    args.append(self.atom())
                else: break
            return App(tuple([v] + args))
        return self.atom()

def parse(s):
    p = P(tokenize(s)); r = p.term()
    if p.i != len(p.t): raise ValueError("coqterm: trailing tokens")
    return r

def parse_evals(out):
    """Split coqc output into the results of successive `Eval` commands.
    Each result looks like `     = TERM\n     : TYPE`."""
    res = []
    for m in re.finditer(r"^\s*= (.*?)^\s*: [^\n]*(?:\n(?=\s{7,})[^\n]*)*", out, re.S | re.M):
        res.append(parse(" ".join(m.group(1).split())))
    return res

def nlist(bs):
    """Python bytes/list of ints -> Coq list N literal."""
    return "[" + ";".join(str(int(b)) for b in bs) + "]%N" if len(bs) else "[]"
