"""Shared machinery for /verif checks: context, evidence, findings, violations."""
import json, os, sys, time, random, hashlib, subprocess, re

ROOT = os.path.dirname(os.path.dirname(os.path.abspath(__file__)))
REPO = os.environ.get("VERIF_REPO", "/repo")
WORK = os.path.join(ROOT, "work")
NCPU = os.cpu_count() or 4

LEVELS = ("exploration", "fault_enumeration", "model_checking", "proof",
          "translation_validation", "other")


def sh(cmd, timeout=None, cwd=None, env=None, input=None):
    """Run a command, return (rc, stdout+stderr). rc=124 on timeout."""
    e = dict(os.environ)
    if env:
        e.update(env)
    try:
        p = subprocess.run(cmd, shell=isinstance(cmd, str), cwd=cwd, env=e, input=input,
                           stdout=subprocess.PIPE, stderr=subprocess.STDOUT,
                           timeout=timeout, text=True, errors="replace")
        return p.returncode, p.stdout
    except subprocess.TimeoutExpired as ex:
        out = ex.stdout or ""
        if isinstance(out, bytes):
            out = out.decode("utf-8", "replace")
        return 124, out + "\n[timeout after %ss]" % timeout


class KnownFindings:
    """KNOWN_FINDINGS: one entry per line.
         finding: property=<id> key=<canonical key> <what fails>
         fixed: property=<id> <commit> <what failed>
       Only `finding:` lines suppress anything, and only for their exact key."""

    def __init__(self, path):
        self.findings = {}
        if os.path.exists(path):
            for line in open(path, encoding="utf-8"):
                line = line.strip()
                m = re.match(r"finding:\s+property=(\S+)\s+key=(\S+)\s*(.*)", line)
                if m:
                    self.findings.setdefault(m.group(1), {})[m.group(2)] = m.group(3)

    def lookup(self, pid, key):
        return self.findings.get(pid, {}).get(key)


class Ctx:
    def __init__(self, pid, tier, seed, replay=None):
        self.pid = pid
        self.tier = tier
        self.seed = seed
        self.replay = replay
        self.rng = random.Random((seed * 1000003) ^ int(hashlib.sha256(pid.encode()).hexdigest()[:8], 16))
        self.t0 = time.time()
        self.work = os.path.join(WORK, pid)
        os.makedirs(self.work, exist_ok=True)
        self.known = KnownFindings(os.path.join(ROOT, "KNOWN_FINDINGS"))
        self.violations = []          # (key, replay_path, note)
        self.known_hits = {}          # key -> text
        self.level = "other"
        self.coverage = {}
        self.assumptions = []
        self.obligations = []         # (name, ok, detail)
        self.notes = []
        self.quick = tier == "quick"

    # ---- logging
    def log(self, *a):
        print("[%s %6.1fs]" % (self.pid, time.time() - self.t0), *a, flush=True)

    # ---- violations
    def violation(self, key, replay, what, no_input=False):
        """Record a violation. `key` is the canonical identity of the failing input (used
        for the known-findings lookup); `replay` is a JSON-serialisable description."""
        k = self.known.lookup(self.pid, key)
        if k is not None and not no_input:
            if key not in self.known_hits:
                self.known_hits[key] = k
            return False
        d = os.path.join(ROOT, "replays", self.pid)
        os.makedirs(d, exist_ok=True)
        path = os.path.join(d, "%s_%d.json" % (re.sub(r"[^A-Za-z0-9_.-]", "_", key)[:60], len(self.violations)))
        with open(path, "w") as f:
            json.dump({"property": self.pid, "key": key, "what": what, "seed": self.seed,
                       "tier": self.tier, "no_failing_input_found": bool(no_input),
                       "replay": replay}, f, indent=1, default=str)
        self.violations.append((key, path, what, no_input))
        return True

    # ---- finish
    def finish(self):
        wall = time.time() - self.t0
        for key, text in sorted(self.known_hits.items()):
            print("KNOWN-FINDING: property=%s key=%s %s" % (self.pid, key, text), flush=True)
        cov = dict(self.coverage)
        if self.obligations:
            cov.setdefault("obligations", len(self.obligations))
            cov.setdefault("discharged", sum(1 for o in self.obligations if o[1]))
            cov.setdefault("theorems", [{"name": o[0], "ok": o[1], "assumptions": o[2]} for o in self.obligations])
        ev = {"property_id": self.pid, "tier": self.tier, "seed": self.seed, "level": self.level,
              "coverage": cov, "assumptions": self.assumptions, "wall_s": round(wall, 2),
              "violations": len(self.violations),
              "known_findings_hit": sorted(self.known_hits)}
        os.makedirs(os.path.join(ROOT, "evidence"), exist_ok=True)
        with open(os.path.join(ROOT, "evidence", self.pid + ".json"), "w") as f:
            json.dump(ev, f, indent=1, default=str)
        seen = set()
        for key, path, what, no_input in self.violations:
            if len(seen) >= 20:
                break
            seen.add(path)
            tail = " no-failing-input-found" if no_input else ""
            print("VIOLATION property=%s replay=%s%s" % (self.pid, path, tail), flush=True)
            self.log("  ->", what[:300])
        self.log("done: %d violation(s), %d known finding(s), %.1fs" % (len(self.violations), len(self.known_hits), wall))
        return 1 if self.violations else 0
