"""Coq side: project build, audit, Print Assumptions bookkeeping, running cases by vm_compute."""
import os, re, glob, concurrent.futures as cf
from .core import ROOT, WORK, NCPU, sh
from . import coqterm

COQ = os.path.join(ROOT, "coq")
ALLOWED_AXIOMS = {
    # standard-library axioms that libraries we use may bring in; each is named in DESIGN.md §6
    "functional_extensionality_dep", "FunctionalExtensionality.functional_extensionality_dep",
    "Eqdep.Eq_rect_eq.eq_rect_eq", "eq_rect_eq",
    "ProofIrrelevance.proof_irrelevance", "proof_irrelevance",
    "Classical_Prop.classic", "classic",
    "JMeq.JMeq_eq", "JMeq_eq",
}
FORBIDDEN = re.compile(r"\b(Admitted|admit|Axiom|Axioms|Parameter|Parameters|Conjecture|Conjectures|"
                       r"Admit Obligations|Unset Guard Checking|Unset Positivity Checking|"
                       r"Unset Universe Checking|bypass_check|Hypothesis|Hypotheses|Variable|Variables)\b")


def strip_comments(src):
    out, depth, i, n = [], 0, 0, len(src)
    in_str = False
    while i < n:
        c = src[i]
        if depth == 0 and c == '"':
            in_str = not in_str; out.append(c); i += 1; continue
        if not in_str and src.startswith("(*", i):
            depth += 1; i += 2; continue
        if not in_str and depth > 0 and src.startswith("*)", i):
            depth -= 1; i += 2; continue
        if depth == 0: out.append(c)
        i += 1
    return "".join(out)


def audit_sources(files):
    """Forbidden vernacular outside comments. Variable/Hypothesis are allowed only inside a Section."""
    problems = []
    for f in files:
        src = strip_comments(open(f, encoding="utf-8").read())
        depth = 0
        for ln, line in enumerate(src.split("\n"), 1):
            if re.match(r"\s*Section\b", line): depth += 1
            if re.match(r"\s*End\b", line) and depth > 0: depth -= 1
            for m in FORBIDDEN.finditer(line):
                w = m.group(1)
                if w in ("Variable", "Variables", "Hypothesis", "Hypotheses") and depth > 0:
                    continue
                problems.append("%s:%d: %s" % (os.path.relpath(f, COQ), ln, w))
    return problems


def ensure_makefile():
    vs = sorted(os.path.relpath(p, COQ) for p in glob.glob(os.path.join(COQ, "**", "*.v"), recursive=True))
    proj = "-Q . SwayV\n" + "\n".join(vs) + "\n"
    pp = os.path.join(COQ, "_CoqProject")
    if not os.path.exists(pp) or open(pp).read() != proj or not os.path.exists(os.path.join(COQ, "Makefile")):
        open(pp, "w").write(proj)
        rc, out = sh("coq_makefile -f _CoqProject -o Makefile", cwd=COQ, timeout=120)
        if rc != 0:
            raise RuntimeError("coq_makefile failed: " + out)


def write_if_changed(path, text):
    os.makedirs(os.path.dirname(path), exist_ok=True)
    if os.path.exists(path) and open(path, encoding="utf-8").read() == text:
        return False
    open(path, "w", encoding="utf-8").write(text)
    return True


def build(targets, timeout=1500, force=()):
    """make the given .vo targets (full .vo builds). `force` lists .v files to re-check even
    when up to date (so their Print Assumptions output is produced by this run).
    Serialised across concurrent checks by a file lock (make rewrites .Makefile.d)."""
    import fcntl
    lock = open(os.path.join(COQ, ".build.lock"), "w")
    fcntl.flock(lock, fcntl.LOCK_EX)
    try:
        ensure_makefile()
        for f in force:
            vo = os.path.join(COQ, f[:-2] + ".vo")
            if os.path.exists(vo):
                os.remove(vo)
        rc, out = sh("timeout %d make -j%d %s" % (timeout, NCPU, " ".join(targets)), cwd=COQ, timeout=timeout + 30)
        return rc, out
    finally:
        fcntl.flock(lock, fcntl.LOCK_UN)
        lock.close()


def props_report(out, props_file):
    """Parse the Print Assumptions blocks that follow each theorem of a Props.v file.
    Returns list of (theorem, ok, assumptions-text)."""
    src = strip_comments(open(os.path.join(COQ, props_file), encoding="utf-8").read())
    names = re.findall(r"Print Assumptions\s+([A-Za-z0-9_'.]+)\s*\.", src)
    # isolate the output belonging to this file: after "COQC <file>" up to the next COQC
    m = re.search(r"COQC %s\n(.*?)(?=^COQC |\Z)" % re.escape(props_file), out, re.S | re.M)
    body = m.group(1) if m else out
    blocks = re.findall(r"(Closed under the global context|Axioms:\n(?:.+\n?)*?(?=\n\S|\Z))", body)
    # more robust: walk lines
    blocks = []
    lines = body.split("\n")
    i = 0
    while i < len(lines):
        l = lines[i]
        if l.startswith("Closed under the global context"):
            blocks.append([]); i += 1; continue
        if l.startswith("Axioms:"):
            ax = []; i += 1
            while i < len(lines) and (lines[i].startswith(" ") or re.match(r"^[A-Za-z0-9_.']+\s*:", lines[i])):
                mm = re.match(r"^([A-Za-z0-9_.']+)\s*:", lines[i])
                if mm: ax.append(mm.group(1))
                i += 1
            blocks.append(ax); continue
        i += 1
    rep = []
    for k, nm in enumerate(names):
        if k < len(blocks):
            bad = [a for a in blocks[k] if a not in ALLOWED_AXIOMS]
            rep.append((nm, not bad, "closed" if not blocks[k] else "axioms: " + ", ".join(blocks[k])))
        else:
            rep.append((nm, False, "no Print Assumptions output (proof did not check)"))
    return rep


def check_props(ctx, pid_dir, extra_targets=(), timeout=1500):
    """Build <pid_dir>/Props.vo (always re-checking Props.v), audit the sources of the
    property's directory and of Base/, record obligations in ctx. Returns (ok, log)."""
    props = "%s/Props.v" % pid_dir
    files = glob.glob(os.path.join(COQ, pid_dir, "*.v")) + glob.glob(os.path.join(COQ, "Base", "*.v")) \
        + glob.glob(os.path.join(COQ, "Generated", "*.v"))
    problems = audit_sources(files)
    # two steps, so that nothing else is printed between "COQC Props.v" and its Print Assumptions
    # output (with -j another target's output could interleave): first the extra targets, then
    # Props.vo alone (everything else compiled in that invocation is one of its dependencies).
    out0 = ""
    if extra_targets:
        rc0, out0 = build(list(extra_targets), timeout=timeout)
    rc, out = build(["%s/Props.vo" % pid_dir], timeout=timeout, force=[props])
    if extra_targets and rc0 != 0:
        rc, out = rc0, out0 + "\n" + out
    rep = props_report(out, props) if rc == 0 else []
    if rc != 0:
        # find which theorem names exist, mark all undischarged
        src = strip_comments(open(os.path.join(COQ, props), encoding="utf-8").read())
        for nm in re.findall(r"Print Assumptions\s+([A-Za-z0-9_'.]+)\s*\.", src):
            rep.append((nm, False, "build failed"))
    for p in problems:
        rep.append(("audit:" + p, False, "forbidden vernacular"))
    ctx.obligations.extend(rep)
    ok = rc == 0 and not problems and all(r[1] for r in rep)
    return ok, out


def run_cases(ctx, name, header, shards, timeout=900):
    """Evaluate Coq text shards in parallel. Each shard is the body of a .v file (after `header`)
    that contains `Eval vm_compute in ...` commands. Returns list (per shard) of lists of parsed
    results, or raises RuntimeError with the coqc output on failure."""
    d = os.path.join(ctx.work, "cases")
    os.makedirs(d, exist_ok=True)
    for old in glob.glob(os.path.join(d, name + "_*.v")):
        os.remove(old)
    paths = []
    for k, body in enumerate(shards):
        p = os.path.join(d, "%s_%d.v" % (name, k))
        open(p, "w").write("Set Printing Depth 10000000.\nSet Printing Width 1000000.\n" + header + "\n" + body + "\n")
        paths.append(p)

    def one(p):
        rc, out = sh("timeout %d coqc -noglob -Q %s SwayV %s" % (timeout, COQ, p), timeout=timeout + 30, cwd=d)
        if rc != 0:
            raise RuntimeError("coqc failed on %s:\n%s" % (p, out[-3000:]))
        return coqterm.parse_evals(out)

    with cf.ThreadPoolExecutor(max_workers=NCPU) as ex:
        return list(ex.map(one, paths))
