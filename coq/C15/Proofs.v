From SwayV Require Import Base.Util C15.Model.
From Coq Require Import Sorting.Sorted.

Section Sort.
  Variable leb : N -> N -> bool.
  Hypothesis leb_total : forall x y, leb x y = true \/ leb y x = true.
  Hypothesis leb_trans : forall x y z, leb x y = true -> leb y z = true -> leb x z = true.
  Hypothesis leb_antisym : forall x y, leb x y = true -> leb y x = true -> x = y.

  Definition le x y := leb x y = true.

  Lemma insert_perm x l : Permutation (insert_sorted leb x l) (x :: l).
  Proof.
    induction l as [|y t IH]; cbn; [reflexivity|].
    destruct (leb x y); [reflexivity|].
    rewrite IH. apply perm_swap.
  Qed.

  Lemma isort_perm l : Permutation (isort leb l) l.
  Proof.
    induction l as [|x t IH]; cbn; [reflexivity|]. rewrite insert_perm. constructor. exact IH.
  Qed.

  Lemma insert_sorted_sorted x l : StronglySorted le l -> StronglySorted le (insert_sorted leb x l).
  Proof.
    induction l as [|y t IH]; intros Hs; cbn.
    - constructor; constructor.
    - inversion Hs as [|? ? Hst Hall]; subst.
      destruct (leb x y) eqn:E.
      + constructor; [exact Hs|]. constructor; [exact E|].
        rewrite Forall_forall in *. intros z Hz. eapply leb_trans; [exact E | apply Hall, Hz].
      + constructor; [apply IH, Hst|].
        assert (Hyx : leb y x = true) by (destruct (leb_total x y) as [H|H]; congruence).
        rewrite Forall_forall in *. intros z Hz.
        apply (Permutation_in _ (insert_perm x t)) in Hz. destruct Hz as [<-|Hz]; auto.
  Qed.

  Lemma isort_sorted l : StronglySorted le (isort leb l).
  Proof. induction l as [|x t IH]; cbn; [constructor | apply insert_sorted_sorted, IH]. Qed.

  Lemma sorted_perm_eq : forall l l', StronglySorted le l -> StronglySorted le l' ->
    Permutation l l' -> l = l'.
  Proof.
    induction l as [|x t IH]; intros l' Hs Hs' Hp.
    - apply Permutation_nil in Hp. subst. reflexivity.
    - destruct l' as [|y t']; [apply Permutation_sym, Permutation_nil in Hp; discriminate|].
      inversion Hs as [|? ? Hst Hall]; subst. inversion Hs' as [|? ? Hst' Hall']; subst.
      rewrite Forall_forall in Hall, Hall'.
      assert (Hxy : x = y).
      { assert (Hx : In x (y :: t')) by (apply (Permutation_in _ Hp); left; reflexivity).
        assert (Hy : In y (x :: t)) by (apply (Permutation_in _ (Permutation_sym Hp)); left; reflexivity).
        destruct Hx as [->|Hx]; [reflexivity|]. destruct Hy as [->|Hy]; [reflexivity|].
        apply leb_antisym; [apply Hall, Hy | apply Hall', Hx]. }
      subst y. f_equal. apply IH; auto. eapply Permutation_cons_inv, Hp.
  Qed.

  Theorem sort_perm_invariant l l' : Permutation l l' -> isort leb l = isort leb l'.
  Proof.
    intros Hp. apply sorted_perm_eq; try apply isort_sorted.
    rewrite !isort_perm. exact Hp.
  Qed.

  (* max_by with a total, antisymmetric order returns the unique maximum *)
  Lemma fold_max_spec : forall t x,
    let m := fold_left (fun m y => if leb m y then y else m) t x in
    In m (x :: t) /\ forall z, In z (x :: t) -> leb z m = true.
  Proof.
    induction t as [|y t IH]; intros x; cbn.
    - split; [left; reflexivity|]. intros z [<-|[]]. destruct (leb_total x x); assumption.
    - destruct (leb x y) eqn:E.
      + destruct (IH y) as [Hin Hmax]. split.
        * destruct Hin as [<-|Hin]; [right; left; reflexivity | right; right; exact Hin].
        * intros z [<-|[<-|Hz]].
          -- eapply leb_trans; [exact E | apply Hmax; left; reflexivity].
          -- apply Hmax. left. reflexivity.
          -- apply Hmax. right. exact Hz.
      + assert (Hyx : leb y x = true) by (destruct (leb_total x y) as [H|H]; congruence).
        destruct (IH x) as [Hin Hmax]. split.
        * destruct Hin as [<-|Hin]; [left; reflexivity | right; right; exact Hin].
        * intros z [<-|[<-|Hz]].
          -- apply Hmax. left. reflexivity.
          -- eapply leb_trans; [exact Hyx | apply Hmax; left; reflexivity].
          -- apply Hmax. right. exact Hz.
  Qed.

  Theorem max_by_perm_invariant l l' : Permutation l l' -> max_by leb l = max_by leb l'.
  Proof.
    intros Hp. destruct l as [|x t], l' as [|x' t'].
    - reflexivity.
    - apply Permutation_nil in Hp. discriminate.
    - apply Permutation_sym, Permutation_nil in Hp. discriminate.
    - cbn [max_by]. f_equal.
      destruct (fold_max_spec t x) as [Hin Hmax]. destruct (fold_max_spec t' x') as [Hin' Hmax'].
      apply leb_antisym.
      + apply Hmax'. apply (Permutation_in _ Hp). exact Hin.
      + apply Hmax. apply (Permutation_in _ (Permutation_sym Hp)). exact Hin'.
  Qed.
End Sort.

Lemma Nleb_total x y : N.leb x y = true \/ N.leb y x = true.
Proof. rewrite !N.leb_le. lia. Qed.
Lemma Nleb_trans x y z : N.leb x y = true -> N.leb y z = true -> N.leb x z = true.
Proof. rewrite !N.leb_le. lia. Qed.
Lemma Nleb_antisym x y : N.leb x y = true -> N.leb y x = true -> x = y.
Proof. rewrite !N.leb_le. lia. Qed.

Theorem spill_offsets_perm_invariant spills spills' locals :
  Permutation spills spills' -> spill_offsets spills locals = spill_offsets spills' locals.
Proof.
  intros Hp. unfold spill_offsets.
  rewrite (sort_perm_invariant N.leb Nleb_total Nleb_trans Nleb_antisym _ _ Hp). reflexivity.
Qed.

(* distinct spilled registers get distinct 8-byte slots at or beyond the locals *)
Lemma number_from_snd : forall l i x o, In (x, o) (number_from i l) -> (i <= o < i + N.of_nat (length l))%N.
Proof.
  induction l as [|y t IH]; intros i x o H; cbn in H; [contradiction|].
  destruct H as [H|H].
  - inversion H; subst. cbn [length]. lia.
  - apply IH in H. cbn [length]. lia.
Qed.

Lemma number_from_inj : forall l i x o y, NoDup l ->
  In (x, o) (number_from i l) -> In (y, o) (number_from i l) -> x = y.
Proof.
  induction l as [|z t IH]; intros i x o y Hnd Hx Hy; cbn in *; [contradiction|].
  inversion Hnd; subst.
  destruct Hx as [Hx|Hx], Hy as [Hy|Hy].
  - congruence.
  - inversion Hx; subst. apply number_from_snd in Hy. lia.
  - inversion Hy; subst. apply number_from_snd in Hx. lia.
  - eapply IH; eauto.
Qed.

Theorem spill_offsets_distinct spills locals x y o :
  NoDup spills -> In (x, o) (spill_offsets spills locals) -> In (y, o) (spill_offsets spills locals) -> x = y.
Proof.
  intros Hnd Hx Hy. unfold spill_offsets in *.
  apply in_map_iff in Hx. destruct Hx as [[x1 o1] [E1 H1]]. cbn in E1. inversion E1; subst.
  apply in_map_iff in Hy. destruct Hy as [[y1 o2] [E2 H2]]. cbn in E2. inversion E2; subst.
  assert (o1 = o2) by lia. subst o2.
  eapply number_from_inj; [|exact H1|exact H2].
  eapply Permutation_NoDup; [apply Permutation_sym, isort_perm | exact Hnd].
Qed.

(* retain/filter: the retained set does not depend on iteration order *)
Theorem retain_perm_invariant p l l' : Permutation l l' -> Permutation (retain p l) (retain p l').
Proof.
  unfold retain. induction 1 as [| x l l' _ IH | x y l | l l' l'' _ IH1 _ IH2]; cbn.
  - reflexivity.
  - destruct (p x); [constructor|]; exact IH.
  - destruct (p x), (p y); try reflexivity. apply perm_swap.
  - etransitivity; eassumption.
Qed.

(* inserting every element of a hash container into another set/map (commutative accumulation) *)
Theorem fold_comm_perm_invariant (A : Type) (f : A -> N -> A)
  (Hcomm : forall a x y, f (f a x) y = f (f a y) x) l l' :
  Permutation l l' -> forall a, fold_left f l a = fold_left f l' a.
Proof.
  induction 1 as [| x l l' _ IH | x y l | l l' l'' _ IH1 _ IH2]; intros a; cbn.
  - reflexivity.
  - apply IH.
  - rewrite Hcomm. reflexivity.
  - rewrite IH1. apply IH2.
Qed.
