(* C15 — property theorems only: the classified hash-iteration sites are order-insensitive. *)
From SwayV Require Import Base.Util C15.Model C15.Proofs.

(* class `sorted`: collecting a hash container and sorting it with a total antisymmetric order *)
Theorem C15_sort_perm_invariant : forall leb,
  (forall x y, leb x y = true \/ leb y x = true) ->
  (forall x y z, leb x y = true -> leb y z = true -> leb x z = true) ->
  (forall x y, leb x y = true -> leb y x = true -> x = y) ->
  forall l l', Permutation l l' -> isort leb l = isort leb l'.
Proof. exact sort_perm_invariant. Qed.
Print Assumptions C15_sort_perm_invariant.

(* class `max-total`: Iterator::max_by over a hash set with a total antisymmetric comparator *)
Theorem C15_max_by_perm_invariant : forall leb,
  (forall x y, leb x y = true \/ leb y x = true) ->
  (forall x y z, leb x y = true -> leb y z = true -> leb x z = true) ->
  (forall x y, leb x y = true -> leb y x = true -> x = y) ->
  forall l l', Permutation l l' -> max_by leb l = max_by leb l'.
Proof. exact max_by_perm_invariant. Qed.
Print Assumptions C15_max_by_perm_invariant.

(* register_allocator.rs spill_offsets *)
Theorem C15_spill_offsets_perm_invariant : forall spills spills' locals,
  Permutation spills spills' -> spill_offsets spills locals = spill_offsets spills' locals.
Proof. exact spill_offsets_perm_invariant. Qed.
Print Assumptions C15_spill_offsets_perm_invariant.

Theorem C15_spill_offsets_distinct : forall spills locals x y o,
  NoDup spills -> In (x, o) (spill_offsets spills locals) -> In (y, o) (spill_offsets spills locals) -> x = y.
Proof. exact spill_offsets_distinct. Qed.
Print Assumptions C15_spill_offsets_distinct.

(* class `set-level`: retain / filter, and commutative accumulation into another container *)
Theorem C15_retain_perm_invariant : forall p l l',
  Permutation l l' -> Permutation (retain p l) (retain p l').
Proof. exact retain_perm_invariant. Qed.
Print Assumptions C15_retain_perm_invariant.

Theorem C15_fold_comm_perm_invariant : forall (A : Type) (f : A -> N -> A),
  (forall a x y, f (f a x) y = f (f a y) x) ->
  forall l l', Permutation l l' -> forall a, fold_left f l a = fold_left f l' a.
Proof. exact fold_comm_perm_invariant. Qed.
Print Assumptions C15_fold_comm_perm_invariant.

Example C15_spill_example :
  spill_offsets [7; 3; 9]%N 16%N = [(3, 16); (7, 24); (9, 32)]%N /\
  spill_offsets [9; 7; 3]%N 16%N = spill_offsets [7; 3; 9]%N 16%N /\
  max_by N.leb [4; 9; 2]%N = max_by N.leb [2; 4; 9]%N.
Proof. vm_compute. repeat split. Qed.
