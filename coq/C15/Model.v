(* C15 — models of the order-sensitive-looking sites of the code generator that iterate over
   hash-ordered containers.  A hash container is modelled as a list in ARBITRARY order (any
   permutation of its contents); determinism = the site's result is invariant under permutation.
   No proofs in this file. *)
From SwayV Require Export Base.Util.
From Coq Require Export Permutation.

(* ---- collect + sort : register_allocator.rs spill_offsets, fuel_abi.rs concrete types ---- *)
Fixpoint insert_sorted (leb : N -> N -> bool) (x : N) (l : list N) : list N :=
  match l with
  | [] => [x]
  | y :: t => if leb x y then x :: y :: t else y :: insert_sorted leb x t
  end.

Fixpoint isort (leb : N -> N -> bool) (l : list N) : list N :=
  match l with [] => [] | x :: t => insert_sorted leb x (isort leb t) end.

(* spill_offsets: sort the spilled registers, slot i gets offset locals + 8*i *)
Fixpoint number_from (i : N) (l : list N) : list (N * N) :=
  match l with [] => [] | x :: t => (x, i) :: number_from (i + 1) t end.

Definition spill_offsets (spills : list N) (locals_size : N) : list (N * N) :=
  map (fun p => (fst p, snd p * 8 + locals_size)%N) (number_from 0 (isort N.leb spills)).

(* ---- Iterator::max_by over a hash set : spill candidate selection ---- *)
(* Rust's max_by returns the LAST of several maximal elements; cmp x y = true means x <= y *)
Definition max_by (le : N -> N -> bool) (l : list N) : option N :=
  match l with
  | [] => None
  | x :: t => Some (fold_left (fun m y => if le m y then y else m) t x)
  end.

(* ---- retain / filter on a map; insertion of every element into another set ---- *)
Definition retain (p : N -> bool) (l : list N) : list N := filter p l.
