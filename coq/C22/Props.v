(* C22 — property theorems only. *)
From SwayV Require Import Base.Util C22.Model C22.Spec C22.Proofs C22.Complete.

(* An order that planning returns lists every package exactly once, every
   dependency before all of its dependents (any fuel, so in particular the
   fuel the model uses). *)
Theorem C22_order_valid : forall g fuel o,
  wf_graph g -> toposort_fuel fuel g = TopoOk o -> valid_order g o.
Proof. exact toposort_ok_sound. Qed.
Print Assumptions C22_order_valid.

(* For every cyclic graph planning never produces an order. *)
Theorem C22_cyclic_rejected : forall g fuel o,
  wf_graph g -> cyclic g -> toposort_fuel fuel g <> TopoOk o.
Proof. exact cyclic_never_ok. Qed.
Print Assumptions C22_cyclic_rejected.

(* For every acyclic package graph planning produces an order, and that order lists every
   package exactly once with every dependency before all of its dependents. *)
Theorem C22_acyclic_gets_valid_order : forall g,
  wf_graph g -> ~ cyclic g -> exists o, compilation_order g = TopoOk o /\ valid_order g o.
Proof. exact acyclic_gets_valid_order. Qed.
Print Assumptions C22_acyclic_gets_valid_order.

(* For every cyclic graph planning fails with the cycle error (the model's default fuel always
   suffices, so the only remaining outcome is the error). *)
Theorem C22_cyclic_gets_error : forall g,
  wf_graph g -> cyclic g -> exists n, compilation_order g = TopoCycle n.
Proof. exact cyclic_gets_error. Qed.
Print Assumptions C22_cyclic_gets_error.

(* Oracles used on the implementation's outputs. *)
Theorem C22_order_oracle_sound : forall g o, valid_orderb g o = true -> valid_order g o.
Proof. exact valid_orderb_sound. Qed.
Print Assumptions C22_order_oracle_sound.

Theorem C22_cycle_certificate_sound : forall g c, is_cycle g c = true -> cyclic g.
Proof. exact is_cycle_sound. Qed.
Print Assumptions C22_cycle_certificate_sound.

(* Non-vacuity: a diamond with a contract edge gets an order; a 2-cycle is rejected. *)
Example C22_example_ok :
  compilation_order {| nnodes := 4; edges := [(0,1);(0,2);(1,3);(2,3)] |} = TopoOk [3;2;1;0].
Proof. vm_compute. reflexivity. Qed.
Example C22_example_cycle :
  exists n, compilation_order {| nnodes := 3; edges := [(0,1);(1,2);(2,1)] |} = TopoCycle n.
Proof. eexists. vm_compute. reflexivity. Qed.
