(* C22 — model of forc-pkg `compilation_order`:
     petgraph::algo::toposort(Reversed(&graph), None)
   following petgraph 0.6.5 src/algo/mod.rs `toposort` and src/visit/traversal.rs
   `Dfs::next`, on graphs given as a node count and the edge list in insertion
   order.  An edge (a, b) means "a depends on b" (forc adds edges dependent ->
   dependency).  No proofs in this file. *)
From SwayV Require Export Base.Util.

Record graph := { nnodes : nat; edges : list (nat * nat) }.

(* petgraph iterates a node's edge list newest-first.
   Neighbours of n in Reversed(graph): sources of the edges that point to n. *)
Definition rev_nbrs (g : graph) (n : nat) : list nat :=
  rev (map fst (filter (fun e => Nat.eqb (snd e) n) (edges g))).

(* Neighbours of n in Reversed(Reversed(graph)) = graph: targets of n's edges. *)
Definition fwd_nbrs (g : graph) (n : nat) : list nat :=
  rev (map snd (filter (fun e => Nat.eqb (fst e) n) (edges g))).

(* `for succ in nbrs { if !discovered(succ) { stack.push(succ) } }` : the last
   neighbour ends on top; the head of our list is the top of the stack. *)
Definition push_undiscovered (disc : list nat) (nbrs : list nat) (stack : list nat) : list nat :=
  rev (filter (fun s => negb (memn s disc)) nbrs) ++ stack.

Record p1state := { disc : list nat; fin : list nat; fstack : list nat }.

Inductive p1res := P1Ok (s : p1state) | P1Cycle (n : nat) | P1Fuel.

(* The `while let Some(&nx) = dfs.stack.last()` loop of phase 1. *)
Fixpoint phase1_inner (fuel : nat) (g : graph) (st : p1state) (stack : list nat) : p1res :=
  match stack with
  | [] => P1Ok st
  | nx :: rest =>
    match fuel with
    | O => P1Fuel
    | S fuel' =>
      if memn nx (disc st) then
        (* second visit: pop, finish once *)
        if memn nx (fin st) then phase1_inner fuel' g st rest
        else phase1_inner fuel' g
               {| disc := disc st; fin := nx :: fin st; fstack := nx :: fstack st |} rest
      else
        (* first visit: mark, push undiscovered neighbours, do not pop *)
        let nb := rev_nbrs g nx in
        if memn nx nb then P1Cycle nx
        else
          let d' := nx :: disc st in
          phase1_inner fuel' g
            {| disc := d'; fin := fin st; fstack := fstack st |}
            (push_undiscovered d' nb stack)
    end
  end.

(* `for i in g.node_identifiers()` *)
Fixpoint phase1_outer (fuel : nat) (g : graph) (ids : list nat) (st : p1state) : p1res :=
  match ids with
  | [] => P1Ok st
  | i :: ids' =>
    if memn i (disc st) then phase1_outer fuel g ids' st
    else match phase1_inner fuel g st [i] with
         | P1Ok st' => phase1_outer fuel g ids' st'
         | r => r
         end
  end.

(* Dfs::next over neighbour function nb. Returns (yielded node, discovered, stack). *)
Fixpoint dfs_next (nb : nat -> list nat) (d : list nat) (stack : list nat)
  : option nat * list nat * list nat :=
  match stack with
  | [] => (None, d, [])
  | n :: st =>
    if memn n d then dfs_next nb d st
    else let d' := n :: d in (Some n, d', push_undiscovered d' (nb n) st)
  end.

(* The second pass: `for &i in &finish_stack { dfs.move_to(i); ... }` *)
Fixpoint phase2 (g : graph) (order : list nat) (d : list nat) : option nat :=
  match order with
  | [] => None
  | i :: rest =>
    let '(r1, d1, s1) := dfs_next (fwd_nbrs g) d [i] in
    match r1 with
    | None => phase2 g rest d1
    | Some _ =>
      let '(r2, d2, _) := dfs_next (fwd_nbrs g) d1 s1 in
      match r2 with
      | Some j => Some j
      | None => phase2 g rest d2
      end
    end
  end.

Inductive topo_res := TopoOk (order : list nat) | TopoCycle (n : nat) | TopoFuel.

Definition toposort_fuel (fuel : nat) (g : graph) : topo_res :=
  match phase1_outer fuel g (seq 0 (nnodes g)) {| disc := []; fin := []; fstack := [] |} with
  | P1Cycle n => TopoCycle n
  | P1Fuel => TopoFuel
  | P1Ok st =>
    (* fstack has the last finished node at its head, i.e. it already is
       `finish_stack` after `finish_stack.reverse()` *)
    let order := fstack st in
    match phase2 g order [] with
    | Some j => TopoCycle j
    | None => TopoOk order
    end
  end.

(* Every inner step either discovers a node (at most nnodes times, pushing at most
   its in-degree) or pops: 2 * (nodes + edges) + 2 steps always suffice. *)
Definition default_fuel (g : graph) : nat := 2 * (nnodes g + length (edges g)) + 2.

Definition compilation_order (g : graph) : topo_res := toposort_fuel (default_fuel g) g.
