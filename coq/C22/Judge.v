(* C22 — per-case judgement used by the correspondence check (evaluated with vm_compute). *)
From SwayV Require Import Base.Util C22.Model C22.Spec.

Inductive impl_res := IOk (o : list nat) | IErr | IPanic.

Definition topo_eqb (m : topo_res) (o : list nat) : bool :=
  match m with TopoOk o' => if list_eq_dec Nat.eq_dec o o' then true else false | _ => false end.

(* 0 agree, property holds on this case
   1 implementation satisfies the property here but differs from the model (correspondence)
   2 VIOLATION: implementation returned an order that is not valid
   3 VIOLATION: implementation rejected a graph that has a valid order (hence is acyclic)
   4 implementation rejected, no cycle certificate, model has no order either (undecided)
   5 VIOLATION: implementation panicked
   6 model ran out of fuel *)
Definition judge (g : graph) (impl : impl_res) (cert : list nat) : N :=
  let m := compilation_order g in
  match m with TopoFuel => 6%N | _ =>
  match impl with
  | IPanic => 5%N
  | IOk o => if valid_orderb g o then (if topo_eqb m o then 0 else 1)%N else 2%N
  | IErr =>
    if is_cycle g cert then (match m with TopoCycle _ => 0 | _ => 1 end)%N
    else match m with
         | TopoOk o' => if valid_orderb g o' then 3%N else 4%N
         | _ => 4%N
         end
  end end.

Definition judge_all (cs : list (graph * impl_res * list nat)) : list N :=
  map (fun c => match c with (g, i, cert) => judge g i cert end) cs.
