(* C22 — completeness: on an acyclic graph the toposort model produces an order, and the model
   never runs out of its default fuel. *)
From SwayV Require Import Base.Util C22.Model C22.Spec C22.Proofs.

Ltac rsplit := repeat match goal with |- _ /\ _ => split end.

Section Complete.
Variable g : graph.
Hypothesis Hwf : wf_graph g.

Notation run := (fun f => phase1_inner f g).

(* ---------- fuel monotonicity and splitting of the work stack ---------- *)

Lemma fuel_mono : forall f st W st', phase1_inner f g st W = P1Ok st' -> phase1_inner (S f) g st W = P1Ok st'.
Proof.
  induction f as [|f IH]; intros st W st' H.
  - destruct W; cbn in H; [|discriminate]. cbn. exact H.
  - destruct W as [|nx rest]; [cbn in *; exact H|].
    cbn [phase1_inner] in H. cbn [phase1_inner].
    destruct (memn nx (disc st)).
    + destruct (memn nx (fin st)); apply IH, H.
    + destruct (memn nx (rev_nbrs g nx)); [discriminate|]. apply IH, H.
Qed.

Lemma split_run : forall f st A B st'',
  phase1_inner f g st (A ++ B) = P1Ok st'' ->
  exists st', phase1_inner f g st A = P1Ok st' /\ phase1_inner f g st' B = P1Ok st''.
Proof.
  induction f as [|f IH]; intros st A B st'' H.
  - destruct A as [|a A]; [|cbn in H; discriminate]. exists st. split; [reflexivity | exact H].
  - destruct A as [|nx A].
    + exists st. split; [reflexivity | exact H].
    + cbn [app phase1_inner] in H. cbn [phase1_inner].
      destruct (memn nx (disc st)).
      * destruct (memn nx (fin st)).
        -- destruct (IH _ _ _ _ H) as [st' [H1 H2]]. exists st'. split; [exact H1 | apply fuel_mono, H2].
        -- destruct (IH _ _ _ _ H) as [st' [H1 H2]]. exists st'. split; [exact H1 | apply fuel_mono, H2].
      * destruct (memn nx (rev_nbrs g nx)); [discriminate|].
        unfold push_undiscovered in *.
        change (nx :: A ++ B) with ((nx :: A) ++ B) in H. rewrite app_assoc in H.
        destruct (IH _ _ _ _ H) as [st' [H1 H2]]. exists st'. split; [exact H1 | apply fuel_mono, H2].
Qed.

(* ---------- the finishing order under acyclicity ---------- *)

Definition gray (st : p1state) (x : nat) : Prop := In x (disc st) /\ ~ In x (fin st).
Definition fsfin (st : p1state) : Prop := forall x, In x (fstack st) <-> In x (fin st).
Definition findisc (st : p1state) : Prop := forall x, In x (fin st) -> In x (disc st).
(* every node's g'-successors (its dependents) were finished before it *)
Definition ordered (st : p1state) : Prop :=
  forall l1 u l2, fstack st = l1 ++ u :: l2 -> forall v, In v (rev_nbrs g u) -> In v l2.

Lemma dpath_snoc a b c : dpath g a b -> In (b, c) (edges g) -> dpath g a c.
Proof.
  induction 1 as [a b Hab | a b d Hab Hbd IH]; intros Hc.
  - eapply dp_step; [exact Hab | apply dp_edge, Hc].
  - eapply dp_step; [exact Hab | apply IH, Hc].
Qed.

Hypothesis Hac : ~ cyclic g.

Lemma inner_complete : forall f st W st',
  phase1_inner f g st W = P1Ok st' ->
  fsfin st -> findisc st -> ordered st ->
  (forall s, In s W -> ~ gray st s) ->
  (forall s x, In s W -> gray st x -> dpath g s x) ->
  fsfin st' /\ findisc st' /\ ordered st' /\ (forall x, gray st' x <-> gray st x) /\
  (forall s, In s W -> In s (fin st')) /\ (forall x, In x (fin st) -> In x (fin st')) /\
  (forall x, In x (disc st) -> In x (disc st')).
Proof.
  induction f as [|f IH]; intros st W st' Hrun Hff Hfd Hord Hng Hreach.
  - destruct W; cbn in Hrun; [|discriminate]. inversion Hrun; subst.
    rsplit; auto; try tauto; try (intros s []).
  - destruct W as [|nx rest].
    { cbn in Hrun. inversion Hrun; subst. rsplit; auto; try tauto; try (intros s []). }
    cbn [phase1_inner] in Hrun.
    assert (Hng' : forall s, In s rest -> ~ gray st s) by (intros s Hs; apply Hng; right; exact Hs).
    assert (Hreach' : forall s x, In s rest -> gray st x -> dpath g s x)
      by (intros s x Hs; apply Hreach; right; exact Hs).
    destruct (memn nx (disc st)) eqn:Hd.
    + apply memn_In in Hd. destruct (memn nx (fin st)) eqn:Hf.
      * apply memn_In in Hf.
        destruct (IH _ _ _ Hrun Hff Hfd Hord Hng' Hreach') as (A & B & C & D & E & F & G).
        rsplit; auto; try apply D. intros s [<-|Hs]; auto.
      * apply memn_nIn in Hf. exfalso. apply (Hng nx (or_introl eq_refl)). split; assumption.
    + apply memn_nIn in Hd.
      destruct (memn nx (rev_nbrs g nx)) eqn:Hself; [discriminate|]. apply memn_nIn in Hself.
      set (st1 := {| disc := nx :: disc st; fin := fin st; fstack := fstack st |}) in *.
      unfold push_undiscovered in Hrun.
      set (pushed := rev (filter (fun s => negb (memn s (nx :: disc st))) (rev_nbrs g nx))) in *.
      destruct (split_run _ _ _ _ _ Hrun) as [sta [Hr1 Hr2]].
      assert (Hnxfin : ~ In nx (fin st)) by (intros H; apply Hd, Hfd, H).
      assert (Hg1 : forall x, gray st1 x <-> x = nx \/ gray st x).
      { intros x. unfold gray, st1; cbn. split.
        - intros [[<-|Hx] Hn]; [left; reflexivity | right; split; assumption].
        - intros [->|[Hx Hn]]; [split; [left; reflexivity | exact Hnxfin] | split; [right; exact Hx | exact Hn]]. }
      assert (Hpushed : forall s, In s pushed <-> In s (rev_nbrs g nx) /\ ~ In s (nx :: disc st)).
      { intros s. unfold pushed. rewrite <- in_rev, filter_In, negb_true_iff, memn_nIn. tauto. }
      assert (Hp1 : forall s, In s pushed -> ~ gray st1 s).
      { intros s Hs [Hsd _]. apply Hpushed in Hs. apply (proj2 Hs). exact Hsd. }
      assert (Hp2 : forall s x, In s pushed -> gray st1 x -> dpath g s x).
      { intros s x Hs Hx. apply Hpushed in Hs. destruct Hs as [Hs _]. apply rev_nbrs_In in Hs.
        apply Hg1 in Hx. destruct Hx as [->|Hx].
        - apply dp_edge, Hs.
        - eapply dp_step; [exact Hs|]. apply (Hreach nx x (or_introl eq_refl) Hx). }
      assert (Hfd1 : findisc st1) by (intros x Hx; right; apply Hfd, Hx).
      destruct (IH _ _ _ Hr1 Hff Hfd1 Hord Hp1 Hp2) as (A1 & B1 & C1 & D1 & E1 & F1 & G1).
      (* now nx is on top again, still gray *)
      destruct f as [|f']; [cbn in Hr2; discriminate|].
      cbn [phase1_inner] in Hr2.
      assert (Hnxd : In nx (disc sta)) by (apply G1; left; reflexivity).
      assert (Hnxg : gray sta nx) by (apply D1, Hg1; left; reflexivity).
      assert (Hm1 : memn nx (disc sta) = true) by (apply memn_In, Hnxd).
      assert (Hm2 : memn nx (fin sta) = false) by (apply memn_nIn, Hnxg).
      rewrite Hm1, Hm2 in Hr2.
      set (stb := {| disc := disc sta; fin := nx :: fin sta; fstack := nx :: fstack sta |}) in *.
      apply fuel_mono in Hr2.
      assert (Hffb : fsfin stb).
      { intros x. unfold stb; cbn. rewrite (A1 x). tauto. }
      assert (Hfdb : findisc stb).
      { intros x [<-|Hx]; [exact Hnxd | apply B1, Hx]. }
      assert (Hordb : ordered stb).
      { intros l1 u l2 Heq v Hv. unfold stb in Heq; cbn in Heq.
        destruct l1 as [|u0 l1'].
        - cbn in Heq. inversion Heq; subst u l2. apply A1.
          destruct (memn v (nx :: disc st)) eqn:Hvd.
          + apply memn_In in Hvd. destruct Hvd as [<-|Hvd]; [contradiction|].
            destruct (memn v (fin st)) eqn:Hvf.
            * apply memn_In in Hvf. apply F1. exact Hvf.
            * apply memn_nIn in Hvf. exfalso. apply Hac. exists nx.
              apply rev_nbrs_In in Hv.
              eapply dpath_snoc; [apply (Hreach nx v (or_introl eq_refl)); split; assumption | exact Hv].
          + apply memn_nIn in Hvd. apply E1. apply Hpushed. split; assumption.
        - cbn in Heq. inversion Heq; subst. eapply C1; eauto. }
      assert (Hgb : forall x, gray stb x <-> gray st x).
      { intros x. unfold gray at 1, stb; cbn. split.
        - intros [Hx Hn]. assert (Hgx : gray sta x) by (split; [exact Hx | intros H; apply Hn; right; exact H]).
          apply D1, Hg1 in Hgx. destruct Hgx as [->|Hgx]; [exfalso; apply Hn; left; reflexivity | exact Hgx].
        - intros Hx. assert (Hgx : gray sta x) by (apply D1, Hg1; right; exact Hx).
          destruct Hgx as [Hxd Hxf]. split; [exact Hxd|]. intros [<-|H]; [|contradiction].
          apply Hd. exact (proj1 Hx). }
      assert (Hngb : forall s, In s rest -> ~ gray stb s) by (intros s Hs Hgs; apply (Hng' s Hs), Hgb, Hgs).
      assert (Hreachb : forall s x, In s rest -> gray stb x -> dpath g s x)
        by (intros s x Hs Hx; apply Hreach'; [exact Hs | apply Hgb, Hx]).
      destruct (IH _ _ _ Hr2 Hffb Hfdb Hordb Hngb Hreachb) as (A2 & B2 & C2 & D2 & E2 & F2 & G2).
      rsplit; auto.
      * intros x. rewrite D2. apply Hgb.
      * intros s [<-|Hs]; [apply F2; left; reflexivity | apply E2, Hs].
      * intros x Hx. apply F2. right. apply F1. exact Hx.
      * intros x Hx. apply G2. unfold stb; cbn. apply G1. right. exact Hx.
Qed.

Lemma no_self_cycle : forall f st W n, phase1_inner f g st W = P1Cycle n -> In (n, n) (edges g).
Proof.
  induction f as [|f IH]; intros st W n H.
  - destruct W; cbn in H; discriminate.
  - destruct W as [|nx rest]; [cbn in H; discriminate|]. cbn [phase1_inner] in H.
    destruct (memn nx (disc st)).
    + destruct (memn nx (fin st)); eapply IH, H.
    + destruct (memn nx (rev_nbrs g nx)) eqn:Hs.
      * inversion H; subst. apply memn_In in Hs. apply rev_nbrs_In, Hs.
      * eapply IH, H.
Qed.

End Complete.

(* ---------- the default fuel always suffices ---------- *)

Section Fuel.
Variable g : graph.
Hypothesis Hwf : wf_graph g.

Definition deg (u : nat) : nat := length (rev_nbrs g u).
Definition wsum (L : list nat) (d : list nat) : nat :=
  list_sum (map (fun u => if memn u d then 0 else S (deg u)) L).

Lemma memn_cons a x d : memn a (x :: d) = Nat.eqb a x || memn a d.
Proof. reflexivity. Qed.

Lemma list_sum_cons a l : list_sum (a :: l) = a + list_sum l.
Proof. reflexivity. Qed.

Lemma wsum_discover : forall L d nx, NoDup L -> In nx L -> ~ In nx d ->
  wsum L d = wsum L (nx :: d) + S (deg nx).
Proof.
  induction L as [|u L IH]; intros d nx Hnd Hin Hnx; [contradiction|].
  inversion Hnd as [|? ? Hu HndL]; subst. unfold wsum in *. cbn [map]. rewrite !list_sum_cons.
  destruct Hin as [->|Hin].
  - assert (E1 : memn nx d = false) by (apply memn_nIn, Hnx).
    assert (E2 : memn nx (nx :: d) = true) by (apply memn_In; left; reflexivity).
    rewrite E1, E2.
    assert (Hrest : map (fun u => if memn u d then 0 else S (deg u)) L =
                    map (fun u => if memn u (nx :: d) then 0 else S (deg u)) L).
    { apply map_ext_in. intros a Ha. unfold memn at 2. cbn [existsb].
      destruct (Nat.eqb a nx) eqn:E; [apply Nat.eqb_eq in E; subst; contradiction|]. reflexivity. }
    rewrite Hrest. lia.
  - assert (Hune : u <> nx) by (intros ->; contradiction).
    apply Nat.eqb_neq in Hune.
    rewrite (memn_cons u nx d), Hune. cbn [orb].
    rewrite (IH d nx HndL Hin Hnx). lia.
Qed.

Lemma wsum_skip : forall L d nx, ~ In nx L -> wsum L (nx :: d) = wsum L d.
Proof.
  intros L d nx Hn. unfold wsum. f_equal. apply map_ext_in. intros a Ha.
  unfold memn at 1. cbn [existsb]. destruct (Nat.eqb a nx) eqn:E.
  - apply Nat.eqb_eq in E. subst. contradiction.
  - reflexivity.
Qed.

Let nodes := seq 0 (nnodes g).

Lemma filter_len (A : Type) (p : A -> bool) l : length (filter p l) <= length l.
Proof. induction l as [|x l IH]; cbn; [lia|]. destruct (p x); cbn; lia. Qed.

Lemma pushed_len d nb stack : length (push_undiscovered d nb stack) <= length nb + length stack.
Proof.
  unfold push_undiscovered. rewrite app_length, rev_length.
  pose proof (filter_len _ (fun s => negb (memn s d)) nb). lia.
Qed.

Lemma no_fuel : forall f st W,
  (forall x, In x W -> x < nnodes g) ->
  length W + wsum nodes (disc st) <= f -> phase1_inner f g st W <> P1Fuel.
Proof.
  induction f as [|f IH]; intros st W Hb Hle.
  - destruct W; [discriminate | cbn in Hle; lia].
  - destruct W as [|nx rest]; [discriminate|]. cbn [phase1_inner].
    assert (Hb' : forall x, In x rest -> x < nnodes g) by (intros x Hx; apply Hb; right; exact Hx).
    cbn [length] in Hle.
    destruct (memn nx (disc st)) eqn:Hd.
    + destruct (memn nx (fin st)); apply IH; cbn; auto; lia.
    + destruct (memn nx (rev_nbrs g nx)); [discriminate|].
      apply memn_nIn in Hd.
      assert (Hnx : In nx nodes) by (apply in_seq; specialize (Hb nx (or_introl eq_refl)); lia).
      pose proof (wsum_discover nodes (disc st) nx (seq_NoDup _ _) Hnx Hd) as Hw.
      apply IH.
      * intros x Hx. apply push_undiscovered_In in Hx. destruct Hx as [[Hx _]|Hx]; [|apply Hb, Hx].
        apply rev_nbrs_In in Hx. apply Hwf in Hx. tauto.
      * cbn [disc]. pose proof (pushed_len (nx :: disc st) (rev_nbrs g nx) (nx :: rest)) as Hl.
        cbn [length] in Hl. unfold deg in Hw. lia.
Qed.

(* sum of in-degrees is bounded by the number of edges *)
Lemma count_one (e : nat * nat) : forall L, NoDup L ->
  list_sum (map (fun u => if Nat.eqb (snd e) u then 1 else 0) L) <= 1.
Proof.
  induction L as [|u L IH]; intros Hnd; [cbn; lia|].
  inversion Hnd as [|? ? Hu HndL]; subst. cbn [map]. rewrite list_sum_cons.
  destruct (Nat.eqb (snd e) u) eqn:Eq.
  - apply Nat.eqb_eq in Eq. subst u.
    assert (Hz : list_sum (map (fun u => if Nat.eqb (snd e) u then 1 else 0) L) = 0).
    { clear IH HndL Hnd. induction L as [|a L IHL]; [reflexivity|]. cbn [map]. rewrite list_sum_cons.
      destruct (Nat.eqb (snd e) a) eqn:E2.
      - apply Nat.eqb_eq in E2. subst. exfalso. apply Hu. left. reflexivity.
      - rewrite IHL; [reflexivity|]. intros H. apply Hu. right. exact H. }
    lia.
  - specialize (IH HndL). lia.
Qed.

Lemma list_sum_add (f h : nat -> nat) L :
  list_sum (map (fun u => f u + h u) L) = list_sum (map f L) + list_sum (map h L).
Proof. induction L as [|u L IH]; [reflexivity|]. cbn [map]. rewrite !list_sum_cons, IH. lia. Qed.

Lemma count_sum : forall (E : list (nat * nat)) L, NoDup L ->
  list_sum (map (fun u => length (filter (fun e => Nat.eqb (snd e) u) E)) L) <= length E.
Proof.
  induction E as [|e E IH]; intros L Hnd.
  - cbn [filter length]. clear Hnd. induction L as [|u L IHL]; [cbn; lia|]. cbn [map]. rewrite list_sum_cons. lia.
  - specialize (IH L Hnd).
    assert (Heq : map (fun u => length (filter (fun e0 => Nat.eqb (snd e0) u) (e :: E))) L =
                  map (fun u => (if Nat.eqb (snd e) u then 1 else 0) + length (filter (fun e0 => Nat.eqb (snd e0) u) E)) L).
    { apply map_ext. intros u. cbn [filter]. destruct (Nat.eqb (snd e) u); reflexivity. }
    rewrite Heq, list_sum_add. pose proof (count_one e L Hnd). cbn [length]. lia.
Qed.

Lemma wsum_bound d : wsum nodes d <= nnodes g + length (edges g).
Proof.
  unfold wsum.
  assert (H : forall L, list_sum (map (fun u => if memn u d then 0 else S (deg u)) L)
                        <= length L + list_sum (map deg L)).
  { induction L as [|u L IH]; [cbn; lia|]. cbn [map length]. rewrite !list_sum_cons. destruct (memn u d); lia. }
  specialize (H nodes). unfold nodes in *. rewrite seq_length in H.
  assert (Hd : list_sum (map deg (seq 0 (nnodes g))) <= length (edges g)).
  { unfold deg, rev_nbrs.
    erewrite map_ext; [apply (count_sum (edges g) (seq 0 (nnodes g)) (seq_NoDup _ _))|].
    intros u. cbn. rewrite rev_length, map_length. reflexivity. }
  lia.
Qed.

Lemma outer_no_fuel : forall ids st,
  (forall i, In i ids -> i < nnodes g) ->
  phase1_outer (default_fuel g) g ids st <> P1Fuel.
Proof.
  induction ids as [|i ids IH]; intros st Hb; cbn [phase1_outer]; [discriminate|].
  assert (Hb' : forall j, In j ids -> j < nnodes g) by (intros j Hj; apply Hb; right; exact Hj).
  destruct (memn i (disc st)); [apply IH, Hb'|].
  destruct (phase1_inner (default_fuel g) g st [i]) eqn:Hin.
  - apply IH, Hb'.
  - discriminate.
  - exfalso. revert Hin. apply no_fuel.
    + intros x [<-|[]]. apply Hb. left. reflexivity.
    + cbn [length]. pose proof (wsum_bound (disc st)). unfold default_fuel. lia.
Qed.

End Fuel.

(* ---------- phase 2 accepts a dependency-respecting order ---------- *)

Lemma phase2_complete g : forall order d,
  (forall pre i post, order = pre ++ i :: post ->
     forall dep, In dep (fwd_nbrs g i) -> In dep d \/ In dep pre \/ dep = i) ->
  phase2 g order d = None.
Proof.
  induction order as [|i rest IH]; intros d H; [reflexivity|].
  cbn [phase2 dfs_next].
  destruct (memn i d) eqn:Hid.
  - apply memn_In in Hid. apply IH. intros pre j post Heq dep Hdep.
    destruct (H (i :: pre) j post (f_equal (cons i) Heq) dep Hdep) as [Hd|[[<-|Hp]|He]]; auto.
  - assert (Hs1 : push_undiscovered (i :: d) (fwd_nbrs g i) [] = []).
    { unfold push_undiscovered. rewrite app_nil_r.
      assert (Hf : forall l, (forall x, In x l -> In x (i :: d)) ->
                  filter (fun s => negb (memn s (i :: d))) l = []).
      { induction l as [|x l IHl]; intros Hl; [reflexivity|]. cbn [filter].
        assert (Hx : memn x (i :: d) = true) by (apply memn_In, Hl; left; reflexivity).
        rewrite Hx. cbn. apply IHl. intros y Hy. apply Hl. right. exact Hy. }
      rewrite (Hf (fwd_nbrs g i)); [reflexivity|].
      intros x Hx. destruct (H [] i rest eq_refl x Hx) as [Hd|[[]|He]]; [right; exact Hd | left; symmetry; exact He]. }
    rewrite Hs1. cbn [dfs_next]. apply IH. intros pre j post Heq dep Hdep.
    destruct (H (i :: pre) j post (f_equal (cons i) Heq) dep Hdep) as [Hd|[[<-|Hp]|He]]; auto.
    + left. right. exact Hd.
    + left. left. reflexivity.
Qed.

(* ---------- putting it together ---------- *)

Section Final.
Variable g : graph.
Hypothesis Hwf : wf_graph g.

Lemma outer_no_cycle : forall f ids st n, phase1_outer f g ids st = P1Cycle n -> In (n, n) (edges g).
Proof.
  induction ids as [|i ids IH]; intros st n H; cbn [phase1_outer] in H; [discriminate|].
  destruct (memn i (disc st)); [eapply IH, H|].
  destruct (phase1_inner f g st [i]) eqn:Hin.
  - eapply IH, H.
  - inversion H; subst. eapply no_self_cycle, Hin.
  - discriminate.
Qed.

Hypothesis Hac : ~ cyclic g.

Lemma outer_complete : forall f ids st st',
  phase1_outer f g ids st = P1Ok st' ->
  fsfin st -> findisc st -> ordered g st -> (forall x, ~ gray st x) ->
  fsfin st' /\ findisc st' /\ ordered g st' /\ (forall x, ~ gray st' x).
Proof.
  induction ids as [|i ids IH]; intros st st' H Hff Hfd Hord Hg; cbn [phase1_outer] in H.
  - inversion H; subst. auto.
  - destruct (memn i (disc st)); [eapply IH; eauto|].
    destruct (phase1_inner f g st [i]) as [st1| |] eqn:Hin; try discriminate.
    destruct (inner_complete g Hac f st [i] st1 Hin Hff Hfd Hord) as (A & B & C & D & _).
    + intros s _. apply Hg.
    + intros s x _ Hx. exfalso. exact (Hg x Hx).
    + eapply IH; eauto. intros x Hx. apply (Hg x), D, Hx.
Qed.

Lemma split_before (l : list nat) l1 a l2 pre i post :
  NoDup l -> l = l1 ++ a :: l2 -> l = pre ++ i :: post -> In i l2 -> In a pre.
Proof.
  intros Hnd E1 E2 Hi.
  destruct (in_split _ _ Hi) as [m1 [m2 Hm]]. subst l2.
  assert (Hb1 : before a i l) by (exists l1, m1, m2; exact E1).
  destruct (before_index l a i Hnd Hb1) as [ia [ii [Ha [Hii Hlt]]]].
  assert (Hain : In a l) by (rewrite E1; apply in_or_app; right; left; reflexivity).
  rewrite E2 in Hain. apply in_app_or in Hain. destruct Hain as [Hp|[He|Hp]]; [exact Hp | |].
  - subst a. rewrite Ha in Hii. inversion Hii. lia.
  - exfalso. destruct (in_split _ _ Hp) as [p1 [p2 Hp']]. subst post.
    assert (Hb2 : before i a l) by (exists pre, p1, p2; exact E2).
    destruct (before_index l i a Hnd Hb2) as [ii' [ia' [Hi' [Ha' Hlt']]]].
    rewrite Ha in Ha'. rewrite Hii in Hi'. inversion Ha'. inversion Hi'. lia.
Qed.

Theorem toposort_complete : exists o, compilation_order g = TopoOk o.
Proof.
  unfold compilation_order, toposort_fuel.
  assert (Hb : forall i, In i (seq 0 (nnodes g)) -> i < nnodes g) by (intros i Hi; apply in_seq in Hi; lia).
  destruct (phase1_outer (default_fuel g) g (seq 0 (nnodes g)) _) as [st|n|] eqn:Hp1.
  - destruct (outer_inv g Hwf _ _ _ _ Hb (inv_init g) Hp1) as [[Hnd Hff Hd Hbf Hbs Hns] [_ Hall]].
    destruct (outer_complete _ _ _ _ Hp1) as (A & B & C & D); cbn.
    + intros x. tauto.
    + intros x [].
    + intros l1 u l2 Heq. destruct l1; discriminate.
    + intros x [[] _].
    + rewrite (phase2_complete g (fstack st) []); [eauto|].
      intros pre i post Heq dep Hdep. right. left.
      apply fwd_nbrs_In in Hdep. destruct (Hwf _ _ Hdep) as [_ Hdn].
      assert (Hdf : In dep (fstack st)).
      { apply Hff. assert (Hx : In dep (seq 0 (nnodes g))) by (apply in_seq; lia).
        apply Hall in Hx. destruct (Hd dep Hx) as [[]|Hf]. exact Hf. }
      destruct (in_split _ _ Hdf) as [l1 [l2 Hl]].
      assert (Hi2 : In i l2) by (eapply C; [exact Hl | apply rev_nbrs_In; exact Hdep]).
      eapply split_before; [exact Hnd | exact Hl | exact Heq | exact Hi2].
  - exfalso. apply Hac. exists n. apply dp_edge. eapply outer_no_cycle, Hp1.
  - exfalso. revert Hp1. apply outer_no_fuel; assumption.
Qed.

End Final.

(* the model never exhausts its fuel, on any well-formed graph *)
Theorem compilation_order_total g : wf_graph g -> compilation_order g <> TopoFuel.
Proof.
  intros Hwf. unfold compilation_order, toposort_fuel.
  destruct (phase1_outer (default_fuel g) g (seq 0 (nnodes g)) _) eqn:Hp1.
  - destruct (phase2 g (fstack s) []); discriminate.
  - discriminate.
  - exfalso. revert Hp1. apply outer_no_fuel; [exact Hwf|]. intros i Hi. apply in_seq in Hi. lia.
Qed.

Lemma acyclic_gets_valid_order g :
  wf_graph g -> ~ cyclic g -> exists o, compilation_order g = TopoOk o /\ valid_order g o.
Proof.
  intros Hwf Hac. destruct (toposort_complete g Hwf Hac) as [o Ho].
  exists o. split; [exact Ho | exact (toposort_ok_sound g _ o Hwf Ho)].
Qed.

Lemma cyclic_gets_error g :
  wf_graph g -> cyclic g -> exists n, compilation_order g = TopoCycle n.
Proof.
  intros Hwf Hc. destruct (compilation_order g) as [o|n|] eqn:E.
  - exfalso. exact (cyclic_never_ok g _ o Hwf Hc E).
  - exists n. reflexivity.
  - exfalso. exact (compilation_order_total g Hwf E).
Qed.
