(* C22 — proofs about the toposort model. *)
From SwayV Require Import Base.Util C22.Model C22.Spec.

Lemma rev_nbrs_In g a b : In a (rev_nbrs g b) <-> In (a, b) (edges g).
Proof.
  unfold rev_nbrs. rewrite <- in_rev, in_map_iff. split.
  - intros [[x y] [Hx Hf]]. apply filter_In in Hf. destruct Hf as [Hin He].
    cbn in *. apply Nat.eqb_eq in He. subst. exact Hin.
  - intros H. exists (a, b). split; [reflexivity|]. apply filter_In. split; [exact H|].
    cbn. apply Nat.eqb_refl.
Qed.

Lemma fwd_nbrs_In g a b : In b (fwd_nbrs g a) <-> In (a, b) (edges g).
Proof.
  unfold fwd_nbrs. rewrite <- in_rev, in_map_iff. split.
  - intros [[x y] [Hx Hf]]. apply filter_In in Hf. destruct Hf as [Hin He].
    cbn in *. apply Nat.eqb_eq in He. subst. exact Hin.
  - intros H. exists (a, b). split; [reflexivity|]. apply filter_In. split; [exact H|].
    cbn. apply Nat.eqb_refl.
Qed.

Lemma push_undiscovered_In d nb st x :
  In x (push_undiscovered d nb st) <-> (In x nb /\ ~ In x d) \/ In x st.
Proof.
  unfold push_undiscovered. rewrite in_app_iff, <- in_rev, filter_In.
  rewrite negb_true_iff, memn_nIn. tauto.
Qed.

(* ---------- phase 2 is a checker ---------- *)

Lemma dfs_next_nonempty nb d s :
  s <> [] -> (forall x, In x s -> ~ In x d) ->
  exists j d' s', dfs_next nb d s = (Some j, d', s').
Proof.
  destruct s as [|n st]; [congruence|]. intros _ H. cbn [dfs_next].
  assert (Hn : memn n d = false) by (apply memn_nIn, H; left; reflexivity).
  rewrite Hn. eauto.
Qed.

Lemma phase2_ok g : forall order d,
  NoDup order -> (forall x, In x order -> ~ In x d) -> phase2 g order d = None ->
  forall pre i post, order = pre ++ i :: post ->
  forall b, In b (fwd_nbrs g i) -> In b d \/ In b pre \/ b = i.
Proof.
  induction order as [|i0 rest IH]; intros d Hnd Hdis Hp pre i post Heq b Hb.
  - destruct pre; discriminate.
  - cbn [phase2 dfs_next] in Hp.
    assert (Hi0 : memn i0 d = false) by (apply memn_nIn, Hdis; left; reflexivity).
    rewrite Hi0 in Hp.
    set (s1 := push_undiscovered (i0 :: d) (fwd_nbrs g i0) []) in *.
    inversion Hnd as [|? ? Hnotin Hnd']; subst.
    destruct s1 as [|h t] eqn:Hs1.
    + (* no undiscovered neighbour *)
      cbn [dfs_next] in Hp.
      assert (Hall : forall y, In y (fwd_nbrs g i0) -> In y (i0 :: d)).
      { intros y Hy. destruct (memn y (i0 :: d)) eqn:Hm; [apply memn_In; exact Hm|].
        exfalso. apply memn_nIn in Hm.
        assert (Hin : In y s1) by (unfold s1; apply push_undiscovered_In; left; split; assumption).
        rewrite Hs1 in Hin. exact Hin. }
      destruct pre as [|p pre'].
      * cbn in Heq. inversion Heq; subst. apply Hall in Hb. destruct Hb as [Hb|Hb]; auto.
      * cbn in Heq. inversion Heq; subst.
        assert (Hd' : forall x, In x (pre' ++ i :: post) -> ~ In x (p :: d)).
        { intros x Hx [Hxe|Hxd]; [subst; contradiction | exact (Hdis x (or_intror Hx) Hxd)]. }
        specialize (IH (p :: d) Hnd' Hd' Hp pre' i post eq_refl b Hb).
        destruct IH as [[Hbe|Hbd]|[Hbp|Hbi]]; subst; cbn; auto.
    + exfalso.
      assert (Hne : h :: t <> []) by discriminate.
      assert (Hfresh : forall x, In x (h :: t) -> ~ In x (i0 :: d)).
      { intros x Hx. rewrite <- Hs1 in Hx. unfold s1 in Hx.
        apply push_undiscovered_In in Hx. destruct Hx as [[_ Hx]|[]]. exact Hx. }
      destruct (dfs_next_nonempty (fwd_nbrs g) (i0 :: d) (h :: t) Hne Hfresh) as [j [d' [s' He]]].
      rewrite He in Hp. discriminate.
Qed.

(* ---------- phase 1 invariant ---------- *)

Record inv (g : graph) (st : p1state) (stack : list nat) : Prop := {
  i_nodup : NoDup (fstack st);
  i_fs_fin : forall x, In x (fstack st) <-> In x (fin st);
  i_disc : forall x, In x (disc st) -> In x stack \/ In x (fin st);
  i_bfin : forall x, In x (fin st) -> x < nnodes g;
  i_bstack : forall x, In x stack -> x < nnodes g;
  i_noself : forall x, In x (disc st) -> ~ In (x, x) (edges g)
}.

Lemma inner_inv g (Hwf : wf_graph g) : forall fuel st stack st',
  inv g st stack -> phase1_inner fuel g st stack = P1Ok st' ->
  inv g st' [] /\ (forall x, In x (disc st) -> In x (disc st')) /\
  (forall x, In x stack -> In x (disc st')).
Proof.
  induction fuel as [|fuel IH]; intros st stack st' Hinv Hrun.
  - destruct stack; cbn in Hrun; [|discriminate]. inversion Hrun; subst.
    split; [exact Hinv|]. split; [auto|]. intros x [].
  - destruct stack as [|nx rest]; cbn [phase1_inner] in Hrun.
    { inversion Hrun; subst. split; [exact Hinv|]. split; [auto|]. intros x []. }
    destruct Hinv as [Hnd Hff Hd Hbf Hbs Hns].
    destruct (memn nx (disc st)) eqn:Hdisc.
    + apply memn_In in Hdisc.
      destruct (memn nx (fin st)) eqn:Hfin.
      * apply memn_In in Hfin.
        assert (Hinv' : inv g st rest).
        { constructor; auto.
          - intros x Hx. destruct (Hd x Hx) as [[He|Hr]|Hf]; subst; auto.
          - intros x Hx. apply Hbs. right. exact Hx. }
        destruct (IH _ _ _ Hinv' Hrun) as [H1 [H2 H3]].
        split; [exact H1|]. split; [exact H2|].
        intros x [He|Hx]; subst; auto.
      * apply memn_nIn in Hfin.
        set (st1 := {| disc := disc st; fin := nx :: fin st; fstack := nx :: fstack st |}) in *.
        assert (Hinv' : inv g st1 rest).
        { constructor; cbn.
          - constructor; [|exact Hnd]. intros Hc. apply Hff in Hc. contradiction.
          - intros x. rewrite Hff. tauto.
          - intros x Hx. destruct (Hd x Hx) as [[He|Hr]|Hf]; subst; auto.
          - intros x [He|Hx]; subst; [apply Hbs; left; reflexivity | auto].
          - intros x Hx. apply Hbs. right. exact Hx.
          - exact Hns. }
        destruct (IH _ _ _ Hinv' Hrun) as [H1 [H2 H3]].
        split; [exact H1|]. split; [exact H2|].
        intros x [He|Hx]; subst; auto.
    + apply memn_nIn in Hdisc.
      destruct (memn nx (rev_nbrs g nx)) eqn:Hself; [discriminate|].
      apply memn_nIn in Hself.
      set (st1 := {| disc := nx :: disc st; fin := fin st; fstack := fstack st |}) in *.
      assert (Hinv' : inv g st1 (push_undiscovered (nx :: disc st) (rev_nbrs g nx) (nx :: rest))).
      { constructor; cbn; auto.
        - intros x [He|Hx].
          + subst. left. apply push_undiscovered_In. right. left. reflexivity.
          + destruct (Hd x Hx) as [Hs|Hf]; [|auto]. left. apply push_undiscovered_In. right. exact Hs.
        - intros x Hx. apply push_undiscovered_In in Hx. destruct Hx as [[Hx _]|Hx]; [|auto].
          apply rev_nbrs_In in Hx. apply Hwf in Hx. tauto.
        - intros x [He|Hx]; [subst|auto]. intros Hc. apply Hself. apply rev_nbrs_In. exact Hc. }
      destruct (IH _ _ _ Hinv' Hrun) as [H1 [H2 H3]].
      split; [exact H1|]. split.
      * intros x Hx. apply H2. right. exact Hx.
      * intros x Hx. apply H3. apply push_undiscovered_In. right. exact Hx.
Qed.

Lemma outer_inv g (Hwf : wf_graph g) fuel : forall ids st st',
  (forall i, In i ids -> i < nnodes g) ->
  inv g st [] -> phase1_outer fuel g ids st = P1Ok st' ->
  inv g st' [] /\ (forall x, In x (disc st) -> In x (disc st')) /\
  (forall i, In i ids -> In i (disc st')).
Proof.
  induction ids as [|i ids IH]; intros st st' Hb Hinv Hrun; cbn [phase1_outer] in Hrun.
  - inversion Hrun; subst. split; [exact Hinv|]. split; [auto|]. intros i [].
  - assert (Hb' : forall j, In j ids -> j < nnodes g) by (intros j Hj; apply Hb; right; exact Hj).
    destruct (memn i (disc st)) eqn:Hdisc.
    + apply memn_In in Hdisc.
      destruct (IH _ _ Hb' Hinv Hrun) as [H1 [H2 H3]].
      split; [exact H1|]. split; [exact H2|].
      intros j [He|Hj]; subst; auto.
    + destruct (phase1_inner fuel g st [i]) as [st1| |] eqn:Hin; try discriminate.
      assert (Hinv1 : inv g st [i]).
      { destruct Hinv as [Hnd Hff Hd Hbf Hbs Hns]. constructor; auto.
        - intros x Hx. destruct (Hd x Hx) as [[]|Hf]. right. exact Hf.
        - intros x [He|[]]. subst. apply Hb. left. reflexivity. }
      destruct (inner_inv g Hwf _ _ _ _ Hinv1 Hin) as [I1 [I2 I3]].
      destruct (IH _ _ Hb' I1 Hrun) as [H1 [H2 H3]].
      split; [exact H1|]. split; [auto|].
      intros j [He|Hj]; [subst|auto]. apply H2, I3. left. reflexivity.
Qed.

Lemma inv_init g : inv g {| disc := []; fin := []; fstack := [] |} [].
Proof. constructor; cbn; try tauto. constructor. Qed.

(* ---------- main soundness theorem ---------- *)

Theorem toposort_ok_sound g fuel o :
  wf_graph g -> toposort_fuel fuel g = TopoOk o -> valid_order g o.
Proof.
  intros Hwf Hrun. unfold toposort_fuel in Hrun.
  destruct (phase1_outer fuel g (seq 0 (nnodes g)) _) as [st| |] eqn:Hp1; try discriminate.
  destruct (phase2 g (fstack st) []) eqn:Hp2; try discriminate.
  inversion Hrun; subst o; clear Hrun.
  assert (Hb : forall i, In i (seq 0 (nnodes g)) -> i < nnodes g).
  { intros i Hi. apply in_seq in Hi. lia. }
  destruct (outer_inv g Hwf fuel _ _ _ Hb (inv_init g) Hp1) as [[Hnd Hff Hd Hbf Hbs Hns] [_ Hall]].
  assert (Hmem : forall x, In x (fstack st) <-> In x (seq 0 (nnodes g))).
  { intros x. rewrite Hff, in_seq. split.
    - intros Hx. apply Hbf in Hx. lia.
    - intros Hx. assert (Hx' : In x (seq 0 (nnodes g))) by (apply in_seq; lia).
      apply Hall in Hx'. destruct (Hd x Hx') as [[]|Hf]. exact Hf. }
  pose proof Hnd as Hndr.
  split.
  - apply NoDup_Permutation; [exact Hndr | apply seq_NoDup | exact Hmem].
  - intros a b Hab.
    destruct (Hwf a b Hab) as [Ha Hbn].
    assert (Hain : In a (fstack st)) by (apply Hmem, in_seq; lia).
    destruct (in_split _ _ Hain) as [pre [post Heq]].
    assert (Hfw : In b (fwd_nbrs g a)) by (apply fwd_nbrs_In; exact Hab).
    destruct (phase2_ok g _ [] Hndr (fun _ _ H => H) Hp2 pre a post Heq b Hfw) as [[]|[Hpre|Hself]].
    + destruct (in_split _ _ Hpre) as [l1 [l2 Hpre']]. subst pre.
      exists l1, l2, post. rewrite Heq, <- app_assoc. reflexivity.
    + subst b. exfalso. apply (Hns a); [|exact Hab].
      apply Hall, in_seq. lia.
Qed.

(* ---------- a valid order excludes cycles ---------- *)

Lemma before_index o b a : NoDup o -> before b a o ->
  exists ib ia, index_of b o = Some ib /\ index_of a o = Some ia /\ ib < ia.
Proof.
  intros Hnd [l1 [l2 [l3 Heq]]]. subst o. revert Hnd.
  induction l1 as [|x l1 IH]; intros Hnd.
  - cbn [app index_of]. rewrite Nat.eqb_refl.
    assert (Hab : a <> b).
    { intros ->. inversion Hnd as [|? ? Hn _]; subst. apply Hn. apply in_or_app. right. left. reflexivity. }
    apply Nat.eqb_neq in Hab. rewrite Hab.
    assert (Hex : exists k, index_of a (l2 ++ a :: l3) = Some k).
    { clear. induction l2 as [|y l2 IH]; cbn [app index_of].
      - rewrite Nat.eqb_refl. eauto.
      - destruct (Nat.eqb a y); [eauto|]. destruct IH as [k ->]. cbn. eauto. }
    destruct Hex as [k ->]. cbn. exists 0, (S k). repeat split; lia.
  - inversion Hnd as [|? ? Hn Hnd']; subst. destruct (IH Hnd') as [ib [ia [H1 [H2 H3]]]].
    cbn [app index_of].
    assert (Hbx : b <> x).
    { intros ->. apply Hn. apply in_or_app. right. left. reflexivity. }
    assert (Hax : a <> x).
    { intros ->. apply Hn. apply in_or_app. right. right. apply in_or_app. right. left. reflexivity. }
    apply Nat.eqb_neq in Hbx, Hax. rewrite Hbx, Hax, H1, H2. cbn.
    exists (S ib), (S ia). repeat split; lia.
Qed.

Lemma valid_order_nodup g o : valid_order g o -> NoDup o.
Proof.
  intros [Hp _]. apply (Permutation_NoDup (Permutation_sym Hp)), seq_NoDup.
Qed.

Lemma dpath_index g o : valid_order g o -> forall a b, dpath g a b ->
  exists ib ia, index_of b o = Some ib /\ index_of a o = Some ia /\ ib < ia.
Proof.
  intros Hv a b Hp. pose proof (valid_order_nodup _ _ Hv) as Hnd. destruct Hv as [_ Hv].
  induction Hp as [a b Hab | a b c Hab Hbc IH].
  - apply before_index; auto.
  - destruct IH as [ic [ib [H1 [H2 H3]]]].
    destruct (before_index o b a Hnd (Hv _ _ Hab)) as [ib' [ia [H4 [H5 H6]]]].
    rewrite H2 in H4. inversion H4; subst. exists ic, ia. repeat split; auto; lia.
Qed.

Theorem valid_order_acyclic g o : valid_order g o -> ~ cyclic g.
Proof.
  intros Hv [n Hn]. destruct (dpath_index g o Hv n n Hn) as [i [j [H1 [H2 H3]]]].
  rewrite H1 in H2. inversion H2. lia.
Qed.

(* For every cyclic graph, planning does not produce an order. *)
Theorem cyclic_never_ok g fuel o : wf_graph g -> cyclic g -> toposort_fuel fuel g <> TopoOk o.
Proof.
  intros Hwf Hc Hrun. exact (valid_order_acyclic g o (toposort_ok_sound g fuel o Hwf Hrun) Hc).
Qed.

(* ---------- the executable oracles are sound ---------- *)

Lemma nodupb_NoDup l : nodupb l = true -> NoDup l.
Proof.
  induction l as [|x l IH]; cbn; intros H; [constructor|].
  apply andb_true_iff in H. destruct H as [H1 H2]. apply negb_true_iff, memn_nIn in H1.
  constructor; auto.
Qed.

Lemma index_of_split x : forall l i, index_of x l = Some i ->
  exists l1 l2, l = l1 ++ x :: l2 /\ length l1 = i.
Proof.
  induction l as [|y l IH]; intros i H; cbn in H; [discriminate|].
  destruct (Nat.eqb x y) eqn:E.
  - apply Nat.eqb_eq in E. subst. inversion H. exists [], l. auto.
  - destruct (index_of x l) as [k|] eqn:Hk; cbn in H; [|discriminate]. inversion H; subst.
    destruct (IH k eq_refl) as [l1 [l2 [Hl Hlen]]]. exists (y :: l1), l2. subst. cbn. auto.
Qed.

Theorem valid_orderb_sound g o : valid_orderb g o = true -> valid_order g o.
Proof.
  unfold valid_orderb. intros H.
  apply andb_true_iff in H. destruct H as [H He].
  apply andb_true_iff in H. destruct H as [H Hlt].
  apply andb_true_iff in H. destruct H as [Hlen Hnd].
  apply Nat.eqb_eq in Hlen. apply nodupb_NoDup in Hnd.
  rewrite forallb_forall in Hlt, He.
  split.
  - apply NoDup_Permutation_bis; [exact Hnd | rewrite seq_length; lia |].
    intros x Hx. apply in_seq. apply Hlt, Nat.ltb_lt in Hx. lia.
  - intros a b Hab. specialize (He _ Hab). cbn in He.
    destruct (index_of b o) as [ib|] eqn:Hb; [|discriminate].
    destruct (index_of a o) as [ia|] eqn:Ha; [|discriminate].
    apply Nat.ltb_lt in He.
    destruct (index_of_split a o ia Ha) as [l1 [l2 [Ho Hl1]]].
    subst o.
    (* b occurs in l1 because its index is smaller than length l1 *)
    assert (Hbl1 : exists m1 m2, l1 = m1 ++ b :: m2).
    { clear - Hb He Hl1. subst ia. revert ib Hb He.
      induction l1 as [|y l1 IH]; intros ib Hb He; [cbn in He; lia|].
      cbn in Hb. destruct (Nat.eqb b y) eqn:E.
      - apply Nat.eqb_eq in E. subst. exists [], l1. reflexivity.
      - destruct (index_of b (l1 ++ a :: l2)) as [k|] eqn:Hk; cbn in Hb; [|discriminate].
        inversion Hb; subst. cbn in He.
        destruct (IH k eq_refl ltac:(lia)) as [m1 [m2 Hm]]. exists (y :: m1), m2. subst. reflexivity. }
    destruct Hbl1 as [m1 [m2 Hm]]. subst l1. exists m1, m2, l2. rewrite <- app_assoc. reflexivity.
Qed.

Lemma has_edge_In g a b : has_edge g a b = true -> In (a, b) (edges g).
Proof.
  unfold has_edge. rewrite existsb_exists. intros [[x y] [Hin He]]. cbn in He.
  apply andb_true_iff in He. destruct He as [H1 H2]. apply Nat.eqb_eq in H1, H2. subst. exact Hin.
Qed.

Lemma chain_dpath g first : forall rest prev, chain g first prev rest = true -> dpath g prev first.
Proof.
  induction rest as [|x t IH]; intros prev H; cbn in H.
  - apply dp_edge, has_edge_In, H.
  - apply andb_true_iff in H. destruct H as [H1 H2].
    eapply dp_step; [apply has_edge_In, H1 | apply IH, H2].
Qed.

Theorem is_cycle_sound g c : is_cycle g c = true -> cyclic g.
Proof.
  destruct c as [|n0 t]; cbn; [discriminate|]. intros H. exists n0. eapply chain_dpath, H.
Qed.
