(* C22 — specification: what a correct build order is, and what a cycle is. *)
From SwayV Require Export Base.Util C22.Model.
From Coq Require Export Permutation.

Definition wf_graph (g : graph) : Prop :=
  forall a b, In (a, b) (edges g) -> a < nnodes g /\ b < nnodes g.

(* b occurs strictly before a in o *)
Definition before (b a : nat) (o : list nat) : Prop :=
  exists l1 l2 l3, o = l1 ++ b :: l2 ++ a :: l3.

(* Every package exactly once; every dependency before all of its dependents. *)
Definition valid_order (g : graph) (o : list nat) : Prop :=
  Permutation o (seq 0 (nnodes g)) /\
  forall a b, In (a, b) (edges g) -> before b a o.

(* A dependency path a -> ... -> b of length >= 1 *)
Inductive dpath (g : graph) : nat -> nat -> Prop :=
| dp_edge a b : In (a, b) (edges g) -> dpath g a b
| dp_step a b c : In (a, b) (edges g) -> dpath g b c -> dpath g a c.

Definition cyclic (g : graph) : Prop := exists n, dpath g n n.

(* Executable oracle for valid_order. *)
Fixpoint index_of (x : nat) (l : list nat) : option nat :=
  match l with
  | [] => None
  | y :: t => if Nat.eqb x y then Some 0 else option_map S (index_of x t)
  end.

Fixpoint nodupb (l : list nat) : bool :=
  match l with [] => true | x :: t => negb (memn x t) && nodupb t end.

Definition valid_orderb (g : graph) (o : list nat) : bool :=
  Nat.eqb (length o) (nnodes g) && nodupb o && forallb (fun x => Nat.ltb x (nnodes g)) o &&
  forallb (fun e => match index_of (snd e) o, index_of (fst e) o with
                    | Some ib, Some ia => Nat.ltb ib ia
                    | _, _ => false end) (edges g).

(* Executable certificate check for a cycle: c = [n0; n1; ...; nk] with edges
   n0->n1, ..., nk->n0. *)
Definition has_edge (g : graph) (a b : nat) : bool :=
  existsb (fun e => Nat.eqb (fst e) a && Nat.eqb (snd e) b) (edges g).

Fixpoint chain (g : graph) (first prev : nat) (rest : list nat) : bool :=
  match rest with
  | [] => has_edge g prev first
  | x :: t => has_edge g prev x && chain g first x t
  end.

Definition is_cycle (g : graph) (c : list nat) : bool :=
  match c with [] => false | n0 :: t => chain g n0 n0 t end.
