(* C02.Judge — compare the observations of the debug and the release build of one program, and both
   with the reference semantics.  codes: 0 same | 1 revert status differs | 2 logged data differ *)
From Coq Require Import NArith List Bool.
From SwayV Require Import Frag.Encode C01.Judge C02.Spec.
Import ListNotations.
Local Open Scope N_scope.

Definition judge2 (d r : observation) : N :=
  if negb (optn_eqb (ob_revert d) (ob_revert r)) then 1
  else if negb (logs_eqb (ob_logs d) (ob_logs r)) then 2 else 0.
