From Coq Require Import List String NArith Bool Arith Lia.
From SwayV Require Import Generated.C01Facts Frag.Encode C01.Judge C02.Model C02.Spec.
Import ListNotations.

Section Proofs.
  Variables ir asm obs : Type.
  Variable run_pass : string -> ir -> ir.
  Variable lower : ir -> asm.
  Variable asm_pass : string -> asm -> asm.
  Variable len : asm -> nat.
  Variable beh_ir : ir -> obs -> Prop.
  Variable beh_asm : asm -> obs -> Prop.

  Notation Preserves := (Preserves ir obs run_pass beh_ir).
  Notation PreservesAsm := (PreservesAsm asm obs asm_pass beh_asm).
  Notation LowerCorrect := (LowerCorrect ir asm obs lower beh_ir beh_asm).
  Notation ObsEq := (ObsEq asm obs beh_asm).

  Lemma run_passes_preserve ps : (forall p, In p ps -> Preserves p) ->
    forall m o, beh_ir (run_passes ir run_pass ps m) o <-> beh_ir m o.
  Proof.
    unfold run_passes. induction ps as [|p ps IH]; intros H m o; cbn; [tauto|].
    rewrite IH by (intros q Hq; apply H; right; exact Hq). apply H. left. reflexivity.
  Qed.

  Lemma asm_fold_preserve l : (forall a, In a l -> PreservesAsm a) ->
    forall x o, beh_asm (fold_left (fun x a => asm_pass a x) l x) o <-> beh_asm x o.
  Proof.
    induction l as [|a l IH]; intros H x o; cbn; [tauto|].
    rewrite IH by (intros q Hq; apply H; right; exact Hq). apply H. left. reflexivity.
  Qed.

  Lemma asm_once_preserve : (forall a, In a asm_passes -> PreservesAsm a) ->
    forall x o, beh_asm (asm_once asm asm_pass x) o <-> beh_asm x o.
  Proof. intros H. apply asm_fold_preserve. exact H. Qed.

  (* opt_rounds_sound: the round loop returns one of the iterates, each obtained by sound passes *)
  Lemma asm_rounds_preserve : (forall a, In a asm_passes -> PreservesAsm a) ->
    forall n x o, beh_asm (asm_rounds asm asm_pass len n x) o <-> beh_asm x o.
  Proof.
    intros H. induction n as [|n IH]; intros x o; cbn [asm_rounds]; [tauto|].
    destruct (Nat.compare _ _).
    - rewrite !asm_once_preserve by exact H. tauto.
    - rewrite IH. rewrite !asm_once_preserve by exact H. tauto.
    - tauto.
  Qed.

  Theorem release_equiv_debug :
    (forall p, In p o0_passes -> Preserves p) ->
    (forall p, In p o1_passes -> Preserves p) ->
    (forall a, In a asm_passes -> PreservesAsm a) ->
    LowerCorrect ->
    forall m, ObsEq (build ir asm run_pass lower asm_pass len O0 m) (build ir asm run_pass lower asm_pass len O1 m).
  Proof.
    intros H0 H1 Ha HL m o. unfold build. split; intro B.
    - apply (proj2 (asm_rounds_preserve Ha _ _ _)). apply (proj2 (HL _ _)).
      apply (proj2 (run_passes_preserve _ H1 _ _)).
      apply (proj1 (asm_once_preserve Ha _ _)) in B. apply (proj1 (HL _ _)) in B.
      apply (proj1 (run_passes_preserve _ H0 _ _)) in B. exact B.
    - apply (proj2 (asm_once_preserve Ha _ _)). apply (proj2 (HL _ _)).
      apply (proj2 (run_passes_preserve _ H0 _ _)).
      apply (proj1 (asm_rounds_preserve Ha _ _ _)) in B. apply (proj1 (HL _ _)) in B.
      apply (proj1 (run_passes_preserve _ H1 _ _)) in B. exact B.
  Qed.
End Proofs.

(* the boolean comparison used on the observed runs is equality of observations *)
Lemma optn_eqb_eq a b : optn_eqb a b = true <-> a = b.
Proof.
  destruct a, b; cbn; try (split; congruence). rewrite N.eqb_eq. split; congruence.
Qed.

Lemma logs_eqb_eq : forall a b, logs_eqb a b = true <-> a = b.
Proof.
  induction a as [|[l1 n1] a IH]; intros [|[l2 n2] b]; cbn; try (split; congruence).
  rewrite !andb_true_iff, !N.eqb_eq, IH. split; [intros [[-> ->] ->]; reflexivity|].
  intros H. inversion H. auto.
Qed.

Lemma same_observation_eq d r : same_observation d r = true <-> d = r.
Proof.
  unfold same_observation, obs_eqb. destruct d, r; cbn. rewrite andb_true_iff, optn_eqb_eq, logs_eqb_eq.
  split; [intros [-> ->]; reflexivity|]. intros H. inversion H. auto.
Qed.
