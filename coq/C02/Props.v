(* C02 — property theorems only.  CONDITIONAL: the compiler passes are abstract; every hypothesis below is an
   open obligation unless another property (C03, C06, C07) discharges it for a modelled pass. *)
From Coq Require Import List String NArith Bool.
From SwayV Require Import Generated.C01Facts Frag.Encode C01.Judge C02.Model C02.Spec C02.Proofs.
Import ListNotations.

Theorem C02_release_equiv_debug :
  forall (ir asm obs : Type) (run_pass : string -> ir -> ir) (lower : ir -> asm)
         (asm_pass : string -> asm -> asm) (len : asm -> nat)
         (beh_ir : ir -> obs -> Prop) (beh_asm : asm -> obs -> Prop),
  (forall p, In p o0_passes -> Preserves ir obs run_pass beh_ir p) ->
  (forall p, In p o1_passes -> Preserves ir obs run_pass beh_ir p) ->
  (forall a, In a asm_passes -> PreservesAsm asm obs asm_pass beh_asm a) ->
  LowerCorrect ir asm obs lower beh_ir beh_asm ->
  forall m, ObsEq asm obs beh_asm (build ir asm run_pass lower asm_pass len O0 m)
                                  (build ir asm run_pass lower asm_pass len O1 m).
Proof. exact release_equiv_debug. Qed.
Print Assumptions C02_release_equiv_debug.

(* the asm round loop ("never accept worse results", at most max_opt_rounds) returns a program equivalent
   to its input whenever each asm pass is sound *)
Theorem C02_opt_rounds_sound :
  forall (asm obs : Type) (asm_pass : string -> asm -> asm) (len : asm -> nat) (beh_asm : asm -> obs -> Prop),
  (forall a, In a asm_passes -> PreservesAsm asm obs asm_pass beh_asm a) ->
  forall n x o, beh_asm (asm_rounds asm asm_pass len n x) o <-> beh_asm x o.
Proof. exact asm_rounds_preserve. Qed.
Print Assumptions C02_opt_rounds_sound.

(* the comparison made on the observed runs is exactly equality of (revert status, logged data) *)
Theorem C02_same_observation_eq : forall d r, same_observation d r = true <-> d = r.
Proof. exact same_observation_eq. Qed.
Print Assumptions C02_same_observation_eq.

(* non-vacuity: the hypotheses are satisfiable (identity passes over a toy IR) and the pass lists are
   the non-trivial ones read from the sources *)
Example C02_nonvacuous :
  (forall m : nat, ObsEq nat nat (fun x o => x = o)
     (build nat nat (fun _ m => m) (fun m => m) (fun _ x => x) (fun _ => 0) O0 m)
     (build nat nat (fun _ m => m) (fun m => m) (fun _ x => x) (fun _ => 0) O1 m))
  /\ (Nat.leb 4 (List.length o0_passes) && Nat.ltb (List.length o0_passes) (List.length o1_passes)
      && Nat.leb 3 (List.length asm_passes)) = true.
Proof.
  split.
  - apply (release_equiv_debug nat nat nat (fun _ m => m) (fun m => m) (fun _ x => x) (fun _ => 0)
             (fun x o => x = o) (fun x o => x = o)); unfold Preserves, PreservesAsm, LowerCorrect; intros; tauto.
  - vm_compute. reflexivity.
Qed.
