(* C02.Model — the two build pipelines as compositions of the passes listed in the sources
   (Generated.C01Facts: o0_passes / o1_passes from sway-core/src/lib.rs + pass_manager.rs, asm_passes and
   max_opt_rounds from asm_generation/fuel/optimizations/mod.rs).  The passes themselves, code generation
   and the behaviour relations are ABSTRACT (Section variables): the compiler is not modelled here.
   NO proofs here. *)
From Coq Require Import List String Arith.
From SwayV Require Import Generated.C01Facts.
Import ListNotations.

Section Pipeline.
  Variables ir asm obs : Type.
  Variable run_pass : string -> ir -> ir.          (* an IR pass, by its registered name *)
  Variable lower : ir -> asm.                      (* IR -> abstract instruction set (same in both profiles) *)
  Variable asm_pass : string -> asm -> asm.        (* an asm-level optimisation, by method name *)
  Variable len : asm -> nat.                       (* ops.len() *)
  Variable beh_ir : ir -> obs -> Prop.             (* observable behaviours: return data, logs, revert status *)
  Variable beh_asm : asm -> obs -> Prop.

  Definition run_passes (ps : list string) (m : ir) : ir := fold_left (fun m p => run_pass p m) ps m.

  (* AbstractInstructionSet::optimize(Opt0): one pass through the chain *)
  Definition asm_once (x : asm) : asm := fold_left (fun x a => asm_pass a x) asm_passes x.

  (* optimize(Opt1): up to MAX_OPT_ROUNDS double rounds; stop when the length is unchanged,
     "never accept worse results", continue while it shrinks *)
  Fixpoint asm_rounds (n : nat) (x : asm) : asm :=
    match n with
    | O => x
    | S n' =>
        let y := asm_once (asm_once x) in
        match Nat.compare (len y) (len x) with
        | Eq => y
        | Gt => x
        | Lt => asm_rounds n' y
        end
    end.

  Inductive level := O0 | O1.

  Definition build (l : level) (m : ir) : asm :=
    match l with
    | O0 => asm_once (lower (run_passes o0_passes m))
    | O1 => asm_rounds max_opt_rounds (lower (run_passes o1_passes m))
    end.
End Pipeline.
