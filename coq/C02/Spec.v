(* C02.Spec — observational equivalence and the per-pass obligations. *)
From Coq Require Import List String NArith Bool.
From SwayV Require Import Frag.Encode C01.Judge C02.Model.
Import ListNotations.

Section Spec.
  Variables ir asm obs : Type.
  Variable run_pass : string -> ir -> ir.
  Variable lower : ir -> asm.
  Variable asm_pass : string -> asm -> asm.
  Variable beh_ir : ir -> obs -> Prop.
  Variable beh_asm : asm -> obs -> Prop.

  Definition ObsEq (x y : asm) : Prop := forall o, beh_asm x o <-> beh_asm y o.
  Definition Preserves (p : string) : Prop := forall m o, beh_ir (run_pass p m) o <-> beh_ir m o.
  Definition PreservesAsm (a : string) : Prop := forall x o, beh_asm (asm_pass a x) o <-> beh_asm x o.
  Definition LowerCorrect : Prop := forall m o, beh_asm (lower m) o <-> beh_ir m o.
End Spec.

(* the decision on the implementation: the canonical observations of the two profiles are equal *)
Definition same_observation (d r : observation) : bool := obs_eqb d r.
