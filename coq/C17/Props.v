(* generated on every run by props/c17.py: the no-panic obligations of the modelled cores *)
From SwayV Require Import C06.Props.
From SwayV Require Import C11.Props.
From SwayV Require Import C16.Props.
From SwayV Require Import C21.Props.
From SwayV Require Import C23.Props.
Print Assumptions C06_fold_total.
Print Assumptions C06_ce_total.
Print Assumptions C06_fold_cmp_unop_total.
Print Assumptions C06_ce_total_refuted_orig.
Print Assumptions C11_dispatch_total.
Print Assumptions C16_lex_no_panic.
Print Assumptions C16_lex_no_panic_refuted.
Print Assumptions C21_parse_pinned_total.
Print Assumptions C21_parse_dep_line_total.
Print Assumptions C21_to_graph_total.
Print Assumptions C21_parse_pinned_total_utf8.
Print Assumptions C21_parse_dep_line_total_utf8.
Print Assumptions C21_to_graph_total_utf8.
Print Assumptions C23_apply_no_panic.
Print Assumptions C23_session_no_panic.
