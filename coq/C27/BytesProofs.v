(* C27 — Bytes / String: the shared operations plus resize / append / split_at / clone (String::from_ascii,
   as_bytes) of the buffer model refine the list reference. *)
From Coq Require Import NArith ZArith List Bool Lia Arith.
From SwayV Require Import Vm.Alu Vm.AluProofs C27.NumModel C27.CollModel C27.Spec C27.CollSpec C27.NumProofs
  C27.CollProofs.
Import ListNotations.
Local Open Scope N_scope.

Lemma R_mono n m v s : R n v s -> n <= m -> R m v s.
Proof. unfold R. intros (H1 & H2 & H3 & H4 & H5 & H6) H. repeat split; try assumption; lia. Qed.

Lemma lstep_push x s : lstep s (VPush x) = Some (lpush x s, []).
Proof. destruct s as [l c]. unfold lpush. cbn [lstep]. destruct (lgrow (l, c)) as [l1 c1]. reflexivity. Qed.

(* building `other` by pushes *)
Lemma of_pushes_refines : forall l n v s, R n v s -> n + N.of_nat (length l) < 2 ^ 62 ->
  exists v', of_pushes l v = Ret v' /\ R (n + N.of_nat (length l)) v' (lpushes l s).
Proof.
  induction l as [| x r IH]; intros n v s HR Hn.
  - exists v. split; [reflexivity|]. cbn [length lpushes]. rewrite N.add_0_r. exact HR.
  - cbn [length] in Hn. cbn [of_pushes lpushes].
    pose proof (step_refines n v s (VPush x) HR ltac:(lia)) as St. unfold step_ok in St.
    rewrite lstep_push in St.
    destruct (vstep v (VPush x)) as [[v' ob] | c | p |] eqn:Ev; try contradiction.
    destruct St as [_ HR']. cbn [bind fst].
    destruct (IH (n + 1) v' (lpush x s) HR' ltac:(lia)) as (v2 & E2 & R2).
    exists v2. split; [exact E2|].
    cbn [length]. replace (n + N.of_nat (S (length r))) with (n + 1 + N.of_nat (length r)) by lia. exact R2.
Qed.

Lemma fst_lgrow s : fst (lgrow s) = fst s.
Proof. destruct s as [l c]. unfold lgrow. destruct (N.of_nat (length l) =? c); reflexivity. Qed.

Lemma fst_lpushes : forall l s, fst (lpushes l s) = fst s ++ l.
Proof.
  induction l as [| x r IH]; intros s; cbn [lpushes].
  - rewrite app_nil_r. reflexivity.
  - rewrite IH. unfold lpush. pose proof (fst_lgrow s) as G. destruct (lgrow s) as [l1 c1]. cbn [fst] in *.
    rewrite G, <- app_assoc. reflexivity.
Qed.

Lemma abs_length v : len v <= cap v -> length (buf v) = N.to_nat (cap v) -> length (abs v) = N.to_nat (len v).
Proof. intros H1 H2. unfold abs. rewrite firstn_length. lia. Qed.

Lemma firstn_all_len {A} (l : list A) n : n = length l -> firstn n l = l.
Proof. intros ->. apply firstn_all. Qed.

(* one Bytes/String operation *)
Definition cstep_ok (n : N) (v : vec) (s : lstate) (o : cop) : Prop :=
  match cstep v o, clstep s o with
  | Ret (v', ob), Some (s', ob') => ob = ob' /\ R (n + cweight o) v' s'
  | Rev c, None => c = FAILED_ASSERT_SIGNAL
  | _, _ => False
  end.

Lemma cstep_refines n v s o : R n v s -> n + cweight o < 2 ^ 62 -> cstep_ok n v s o.
Proof.
  intros HR Hn. pose proof (R_len n v s HR) as HL. pose proof (R_len_nat n v s HR) as HLn.
  pose proof HR as (Hb & Hle & Ha & Hc & Hln & Hcn).
  pose proof (abs_length v Hle Hb) as HAl.
  unfold cstep_ok. destruct o as [o | m x | other | mid |].
  - (* shared operations *)
    cbn [cstep cweight]. pose proof (step_refines n v s o HR ltac:(cbn [cweight] in Hn; lia)) as St.
    unfold step_ok in St. destruct s as [l c]. cbn [clstep].
    destruct (vstep v o) as [[v' ob] | c0 | p |]; destruct (lstep (l, c) o) as [[s' ob'] |]; exact St.
  - (* resize *)
    cbn [cweight] in Hn |- *. destruct s as [l c]. cbn [cstep clstep fst snd] in *. rewrite HL.
    unfold bresize. destruct (m <=? len v) eqn:E.
    + apply N.leb_le in E. split; [reflexivity|].
      unfold R, abs; cbn [cap len buf fst snd]. repeat split; try assumption; try lia.
      rewrite <- Ha. unfold abs. rewrite firstn_firstn. f_equal. lia.
    + apply N.leb_gt in E. split; [reflexivity|].
      assert (Lb : length (realloc (buf v) (cap v) m) = N.to_nat (if cap v <? m then m else cap v)).
      { unfold realloc. destruct (cap v <? m) eqn:Ec.
        - apply N.ltb_lt in Ec. rewrite app_length, repeat_length. lia.
        - exact Hb. }
      assert (Fb : firstn (N.to_nat (len v)) (realloc (buf v) (cap v) m) = abs v).
      { unfold realloc, abs. destruct (cap v <? m); [|reflexivity].
        rewrite firstn_app. replace (N.to_nat (len v) - length (buf v))%nat with 0%nat by lia.
        cbn. rewrite app_nil_r. reflexivity. }
      remember (realloc (buf v) (cap v) m) as b.
      unfold R, abs; cbn [cap len buf fst snd].
      rewrite !app_length, firstn_length, repeat_length, skipn_length, Lb.
      assert (Hc' : cap v = c) by exact Hc. subst c.
      destruct (cap v <? m) eqn:Ec; [apply N.ltb_lt in Ec | apply N.ltb_ge in Ec];
        (repeat split; try lia;
         rewrite firstn_app, Fb, HAl;
         rewrite (firstn_all2 (abs v)) by (rewrite HAl; lia);
         rewrite firstn_app, repeat_length;
         rewrite (firstn_all2 (repeat x _)) by (rewrite repeat_length; lia);
         replace (N.to_nat m - N.to_nat (len v) - (N.to_nat m - N.to_nat (len v)))%nat with 0%nat by lia;
         cbn [firstn]; rewrite app_nil_r, HLn, <- Ha; reflexivity).
  - (* append *)
    cbn [cweight] in Hn |- *. destruct s as [l c]. cbn [cstep clstep fst snd] in *. rewrite HL.
    destruct (of_pushes_refines other 0 vnew lnew R_new ltac:(lia)) as (ov & Eo & Ro).
    rewrite Eo. cbn [bind].
    pose proof (R_len _ _ _ Ro) as OL. rewrite fst_lpushes in OL. cbn [lnew fst app] in OL.
    destruct Ro as (Ob & Ole & Oa & Oc & _ & _). rewrite fst_lpushes in Oa. cbn [lnew fst app] in Oa.
    unfold bappend. rewrite OL, <- Oc.
    destruct (len ov =? 0) eqn:E0.
    + split; [reflexivity|]. apply (R_mono n); [exact HR | lia].
    + apply N.eqb_neq in E0. split; [reflexivity|].
      assert (Lb : length (realloc (buf v) (cap v) (len v + len ov)) =
                   N.to_nat (if cap v <? len v + len ov then len v + len ov else cap v)).
      { unfold realloc. destruct (cap v <? len v + len ov) eqn:Ec.
        - apply N.ltb_lt in Ec. rewrite app_length, repeat_length. lia.
        - exact Hb. }
      assert (Fb : firstn (N.to_nat (len v)) (realloc (buf v) (cap v) (len v + len ov)) = abs v).
      { unfold realloc, abs. destruct (cap v <? len v + len ov); [|reflexivity].
        rewrite firstn_app. replace (N.to_nat (len v) - length (buf v))%nat with 0%nat by lia.
        cbn. rewrite app_nil_r. reflexivity. }
      remember (realloc (buf v) (cap v) (len v + len ov)) as b.
      assert (OAl : length (abs ov) = N.to_nat (len ov)) by (apply abs_length; assumption).
      remember (abs ov) as ao. remember (abs v) as av.
      unfold R, abs; cbn [cap len buf fst snd].
      rewrite !app_length, firstn_length, skipn_length, Lb, OAl.
      assert (Hc' : cap v = c) by exact Hc. subst c.
      destruct (cap v <? len v + len ov) eqn:Ec; [apply N.ltb_lt in Ec | apply N.ltb_ge in Ec];
        (repeat split; try lia;
         rewrite firstn_app, Fb, HAl;
         rewrite (firstn_all2 av) by (rewrite HAl; lia);
         rewrite firstn_app, OAl;
         rewrite (firstn_all2 ao) by (rewrite OAl; lia);
         replace (N.to_nat (len v + len ov) - N.to_nat (len v) - N.to_nat (len ov))%nat with 0%nat by lia;
         cbn [firstn]; rewrite app_nil_r, <- Ha, Oa; reflexivity).
  - (* split_at *)
    cbn [cweight] in Hn |- *. destruct s as [l c]. cbn [cstep clstep fst snd] in *. rewrite HL.
    unfold bsplit_at. destruct (mid <=? len v) eqn:E; cbn [assert bind]; [|reflexivity].
    apply N.leb_le in E. split; [| apply (R_mono n); [exact HR | lia]].
    cbn [fst snd]. unfold dump, abs at 1 3; cbn [cap len buf]. rewrite Ha.
    rewrite (firstn_all_len (firstn (N.to_nat mid) l)) by (rewrite firstn_length; lia).
    unfold abs; cbn [cap len buf].
    rewrite (firstn_all_len (skipn (N.to_nat mid) l)) by (rewrite skipn_length; lia).
    cbn [app]. rewrite <- ?app_assoc. reflexivity.
  - (* String::from_ascii / as_bytes (two clones) *)
    cbn [cweight] in Hn |- *. destruct s as [l c]. cbn [cstep clstep fst snd] in *. rewrite HL.
    split; [| apply (R_mono n); [exact HR | lia]].
    unfold bclone; cbn [cap len buf]. unfold abs at 1; cbn [cap len buf].
    unfold abs at 1; cbn [cap len buf].
    rewrite (firstn_all_len (abs v)) by (symmetry; exact HAl).
    rewrite (firstn_all_len (abs v)) by (symmetry; exact HAl).
    rewrite Ha. reflexivity.
Qed.

Lemma crun_refines : forall ops n v s, R n v s -> n + cweights ops < 2 ^ 62 -> crun ops v = clrun ops s.
Proof.
  induction ops as [| o rest IH]; intros n v s HR Hn.
  - cbn [crun clrun]. pose proof (R_len n v s HR) as HL.
    destruct HR as (_ & _ & Ha & Hc & _). unfold dump, ldump. rewrite HL, Ha, Hc. reflexivity.
  - cbn [crun clrun]. cbn [cweights fold_right] in Hn. fold (cweights rest) in Hn.
    pose proof (cstep_refines n v s o HR ltac:(lia)) as St. unfold cstep_ok in St.
    destruct (cstep v o) as [[v' ob] | c | p |] eqn:Ev; destruct (clstep s o) as [[s' ob'] |] eqn:El; try contradiction.
    + destruct St as [Eo HR']. subst ob'. rewrite (IH (n + cweight o) v' s' HR') by lia. reflexivity.
    + subst c. reflexivity.
Qed.

Theorem bytes_refines_list : forall ops, cweights ops < 2 ^ 62 -> crun ops vnew = clrun ops lnew.
Proof. intros ops H. apply (crun_refines ops 0 vnew lnew R_new). lia. Qed.
