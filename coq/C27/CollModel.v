(* C27 — model of std Vec<u64> / Bytes (vec.sw, bytes.sw) and the String wrapper (string.sw),
   heap-free: a buffer is the list of its `cap` slots, `len` of which are live.  NO proofs here.

   Source followed: RawVec/RawBytes::{new, with_capacity, grow}, alloc.sw realloc/realloc_bytes (a larger
   buffer is freshly allocated - zeroed by ALOC - and the old `cap` slots are copied), Vec/Bytes::{push,
   pop, get, set, insert, remove, swap, clear, len, capacity, is_empty, last (Vec only), resize},
   Bytes::{split_at, append, clone}, String::{from_ascii, as_bytes, len, capacity, clear, is_empty}.
   Bytes and Vec<u64> run the same code shape for the shared operations, so one step function serves
   both (elements are u64 resp. u8 values; nothing in the shared operations depends on the width).

   The element-moving `while` loops of insert/remove are structural recursion on the trip count.
   `self.len += 1`, `self.len -= 1`, `2 * self.cap`, `self.len - 1` are the VM's checked u64
   instructions (Vm.Alu under default flags): their overflow is an explicit VM panic.
   Pointer identity / aliasing after realloc is not modelled (tied by the correspondence run only). *)
From Coq Require Import NArith List Bool.
From SwayV Require Import Vm.Alu C27.NumModel.
Import ListNotations.
Local Open Scope N_scope.

Notation df := default_flags.

Record vec := { cap : N; len : N; buf : list N }.

Definition vnew : vec := {| cap := 0; len := 0; buf := [] |}.
Definition with_capacity (c : N) : vec := {| cap := c; len := 0; buf := repeat 0 (N.to_nat c) |}.

Fixpoint write (i : nat) (x : N) (b : list N) : list N :=
  match b, i with
  | [], _ => []
  | _ :: t, O => x :: t
  | h :: t, S i' => h :: write i' x t
  end.
Definition rd (i : nat) (b : list N) : N := nth i b 0.

(* realloc(ptr, cap, new_cap) *)
Definition realloc (b : list N) (c new_c : N) : list N :=
  if c <? new_c then b ++ repeat 0 (N.to_nat new_c - N.to_nat c) else b.

(* RawVec::grow *)
Definition grow (v : vec) : out vec :=
  let* new_cap := if cap v =? 0 then Ret 1 else u_mul df 2 (cap v) in
  Ret {| cap := new_cap; len := len v; buf := realloc (buf v) (cap v) new_cap |}.

(* remove's loop: i = index; while i < len - 1 { buf[i] = buf[i+1]; i += 1 } *)
Fixpoint shift_down (k : nat) (i : nat) (b : list N) : list N :=
  match k with
  | O => b
  | S k' => shift_down k' (S i) (write i (rd (S i) b) b)
  end.

(* insert's loop: i = len; while i > index { buf[i] = buf[i-1]; i -= 1 } *)
Fixpoint shift_up (k : nat) (i : nat) (b : list N) : list N :=
  match k with
  | O => b
  | S k' => match i with
            | O => b     (* unreachable: k <= i *)
            | S i' => shift_up k' i' (write i (rd i' b) b)
            end
  end.

Inductive vop :=
| VPush (x : N) | VPop | VGet (i : N) | VSet (i x : N) | VInsert (i x : N) | VRemove (i : N)
| VSwap (i j : N) | VClear | VLen | VCap | VIsEmpty | VLast.

Definition opt_obs (o : option N) : list N := match o with Some x => [1; x] | None => [0; 0] end.

Definition ensure_room (v : vec) : out vec := if len v =? cap v then grow v else Ret v.

(* one operation: new state and the values the test logs *)
Definition vstep (v : vec) (o : vop) : out (vec * list N) :=
  match o with
  | VPush x =>
    let* v1 := ensure_room v in
    let* l := u_add df (len v1) 1 in
    Ret ({| cap := cap v1; len := l; buf := write (N.to_nat (len v1)) x (buf v1) |}, [])
  | VPop =>
    if len v =? 0 then Ret (v, opt_obs None)
    else let* l := u_sub df (len v) 1 in
         Ret ({| cap := cap v; len := l; buf := buf v |}, opt_obs (Some (rd (N.to_nat l) (buf v))))
  | VGet i =>
    if len v <=? i then Ret (v, opt_obs None) else Ret (v, opt_obs (Some (rd (N.to_nat i) (buf v))))
  | VSet i x =>
    let* _ := assert (i <? len v) in
    Ret ({| cap := cap v; len := len v; buf := write (N.to_nat i) x (buf v) |}, [])
  | VInsert i x =>
    let* _ := assert (i <=? len v) in
    let* v1 := ensure_room v in
    let b := shift_up (N.to_nat (len v1) - N.to_nat i) (N.to_nat (len v1)) (buf v1) in
    let* l := u_add df (len v1) 1 in
    Ret ({| cap := cap v1; len := l; buf := write (N.to_nat i) x b |}, [])
  | VRemove i =>
    let* _ := assert (i <? len v) in
    let ret := rd (N.to_nat i) (buf v) in
    let* l1 := u_sub df (len v) 1 in
    let b := shift_down (N.to_nat l1 - N.to_nat i) (N.to_nat i) (buf v) in
    Ret ({| cap := cap v; len := l1; buf := b |}, [ret])
  | VSwap i j =>
    let* _ := assert (i <? len v) in
    let* _ := assert (j <? len v) in
    if i =? j then Ret (v, [])
    else
      let x := rd (N.to_nat i) (buf v) in
      let b1 := write (N.to_nat i) (rd (N.to_nat j) (buf v)) (buf v) in
      Ret ({| cap := cap v; len := len v; buf := write (N.to_nat j) x b1 |}, [])
  | VClear => Ret ({| cap := cap v; len := 0; buf := buf v |}, [])
  | VLen => Ret (v, [len v])
  | VCap => Ret (v, [cap v])
  | VIsEmpty => Ret (v, [N.b2n (len v =? 0)])
  | VLast =>
    if len v =? 0 then Ret (v, opt_obs None)
    else let* l := u_sub df (len v) 1 in Ret (v, opt_obs (Some (rd (N.to_nat l) (buf v))))
  end.

Definition abs (v : vec) : list N := firstn (N.to_nat (len v)) (buf v).

(* a whole test: observations of the operations executed, then how it ended (final contents) *)
Fixpoint vrun (ops : list vop) (v : vec) : list (list N) * out (list N * N) :=
  match ops with
  | [] => ([], Ret (abs v, cap v))
  | o :: rest =>
    match vstep v o with
    | Ret (v', ob) => let '(obs, fin) := vrun rest v' in (ob :: obs, fin)
    | Rev c => ([], Rev c)
    | Vmp p => ([], Vmp p)
    | Oof => ([], Oof)
    end
  end.

(* ---- Bytes extras / String (validated only) *)
Definition bresize (v : vec) (new_len x : N) : vec :=
  if new_len <=? len v then {| cap := cap v; len := new_len; buf := buf v |}
  else
    let c := if cap v <? new_len then new_len else cap v in
    let b := realloc (buf v) (cap v) new_len in
    let filled := firstn (N.to_nat (len v)) b ++ repeat x (N.to_nat new_len - N.to_nat (len v))
                  ++ skipn (N.to_nat new_len) b in
    {| cap := c; len := new_len; buf := filled |}.

Definition bclone (v : vec) : vec := {| cap := len v; len := len v; buf := abs v |}.

Definition bsplit_at (v : vec) (mid : N) : out (vec * vec) :=
  let* _ := assert (mid <=? len v) in
  let l := firstn (N.to_nat mid) (abs v) in
  let r := skipn (N.to_nat mid) (abs v) in
  Ret ({| cap := mid; len := mid; buf := l |}, {| cap := len v - mid; len := len v - mid; buf := r |}).

Definition bappend (v other : vec) : vec :=
  if len other =? 0 then v
  else
    let both := len v + len other in
    let c := if cap v <? both then both else cap v in
    let b := realloc (buf v) (cap v) both in
    {| cap := c; len := both;
       buf := firstn (N.to_nat (len v)) b ++ abs other ++ skipn (N.to_nat both) b |}.

(* ---- Bytes / String operations on top of the shared ones *)
Inductive cop :=
| CV (o : vop)
| CResize (n x : N)
| CAppend (other : list N)
| CSplitAt (mid : N)
| CString.          (* String::from_ascii(b): len, capacity, is_empty, as_bytes contents *)

Definition dump (v : vec) : list N := [len v; cap v] ++ abs v.

Fixpoint of_pushes (l : list N) (v : vec) : out vec :=
  match l with
  | [] => Ret v
  | x :: r => let* s := vstep v (VPush x) in of_pushes r (fst s)
  end.

Definition cstep (v : vec) (o : cop) : out (vec * list N) :=
  match o with
  | CV o => vstep v o
  | CResize n x => Ret (bresize v n x, [])
  | CAppend other => let* ov := of_pushes other vnew in Ret (bappend v ov, [len ov; cap ov])
  | CSplitAt mid => let* lr := bsplit_at v mid in Ret (v, dump (fst lr) ++ dump (snd lr))
  | CString => let s := bclone v in Ret (v, [len s; cap s; N.b2n (len s =? 0)] ++ abs (bclone s))
  end.

Fixpoint crun (ops : list cop) (v : vec) : list N * out unit :=
  match ops with
  | [] => (dump v, Ret tt)
  | o :: rest =>
    match cstep v o with
    | Ret (v', ob) => let '(obs, fin) := crun rest v' in (ob ++ obs, fin)
    | Rev c => ([], Rev c)
    | Vmp p => ([], Vmp p)
    | Oof => ([], Oof)
    end
  end.

