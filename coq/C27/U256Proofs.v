(* C27 — u256: operators (thin layer over the WQxx laws of Vm.AluProofs) and math.sw Power for u256. *)
From Coq Require Import NArith ZArith List Bool Lia.
From SwayV Require Import Vm.Alu Vm.AluProofs C27.NumModel C27.Spec C27.NumProofs C27.DivProofs C27.PowProofs.
Local Open Scope N_scope.
Arguments N.add : simpl never.
Arguments N.sub : simpl never.
Arguments N.mul : simpl never.
Arguments N.div : simpl never.
Arguments N.modulo : simpl never.
Arguments N.pow : simpl never.
Arguments N.eqb : simpl never.
Arguments N.ltb : simpl never.
Arguments N.leb : simpl never.
Arguments N.land : simpl never.

Notation df := default_flags.

Lemma u256_add_df a b : u256_add df a b = if a + b <? 2 ^ 256 then Ret (a + b) else Vmp ArithmeticOverflow.
Proof.
  unfold u256_add, wq, wq_op. destruct (a + b <? 2 ^ 256) eqn:E.
  - apply N.ltb_lt in E. rewrite wide_add_ok by exact E. reflexivity.
  - apply N.ltb_ge in E. rewrite wide_add_overflow by exact E. reflexivity.
Qed.

Lemma u256_sub_df a b : u256_sub df a b = if b <=? a then Ret (a - b) else Vmp ArithmeticOverflow.
Proof.
  unfold u256_sub, wq, wq_op. destruct (b <=? a) eqn:E.
  - apply N.leb_le in E. rewrite wide_sub_ok by exact E. reflexivity.
  - apply N.leb_gt in E. rewrite wide_sub_overflow by exact E. reflexivity.
Qed.

Lemma u256_mul_df a b : u256_mul df a b = if a * b <? 2 ^ 256 then Ret (a * b) else Vmp ArithmeticOverflow.
Proof.
  unfold u256_mul, wq, wq_mul. destruct (a * b <? 2 ^ 256) eqn:E.
  - apply N.ltb_lt in E. rewrite wide_mul_ok by exact E. reflexivity.
  - apply N.ltb_ge in E. rewrite wide_mul_overflow by exact E. reflexivity.
Qed.

Lemma u256_div_df a b : u256_div df a b = if b =? 0 then Vmp ArithmeticError else Ret (a / b).
Proof.
  unfold u256_div, wq, wq_div. destruct (b =? 0) eqn:E.
  - apply N.eqb_eq in E. subst b. reflexivity.
  - apply N.eqb_neq in E. rewrite wide_div_ok by exact E. reflexivity.
Qed.

Lemma u256_mod_df a b : u256_mod df a b = if b =? 0 then Vmp ArithmeticError else Ret (a mod b).
Proof.
  unfold u256_mod, wq. destruct (b =? 0) eqn:E.
  - apply N.eqb_eq in E. subst b. reflexivity.
  - apply N.eqb_neq in E. rewrite wide_addmod_ok by exact E. rewrite N.add_0_r. reflexivity.
Qed.

Lemma u256_checked_mul_df a b :
  u256_checked_mul df a b = if a * b <? 2 ^ 256 then Ret (Some (a * b)) else Vmp ArithmeticOverflow.
Proof.
  unfold u256_checked_mul, wq_mul. destruct (a * b <? 2 ^ 256) eqn:E.
  - apply N.ltb_lt in E. rewrite wide_mul_ok by exact E. reflexivity.
  - apply N.ltb_ge in E. rewrite wide_mul_overflow by exact E. reflexivity.
Qed.

Definition yieldsN (o : out N) (x : N) : Prop :=
  match o with
  | Ret r => x < 2 ^ 256 /\ r = x
  | Rev _ | Vmp _ => 2 ^ 256 <= x
  | Oof => True
  end.

(* loop: target = acc * base^exp *)
Lemma u256_pow_loop_correct : forall fuel base acc e, 1 <= e -> e < 2 ^ 64 -> (base = 0 \/ 1 <= acc) ->
  match u256_pow_loop df fuel base acc e with
  | Ret (Some (b', a')) => a' * b' = acc * base ^ e
  | Ret None => False
  | Rev _ | Vmp _ => 2 ^ 256 <= acc * base ^ e
  | Oof => True
  end.
Proof.
  induction fuel as [| fuel IH]; intros base acc e He Hlt Hnz; [exact I|].
  cbn [u256_pow_loop].
  destruct (1 <? e) eqn:E1.
  - apply N.ltb_lt in E1. rewrite land1_mod2.
    assert (E2 : 1 <= e / 2) by (apply N.div_le_lower_bound; [discriminate|]; lia).
    assert (L2 : e / 2 < 2 ^ 64) by (pose proof (div_le_self e 2 ltac:(lia)); lia).
    destruct (e mod 2 =? 1) eqn:Eo.
    + apply N.eqb_eq in Eo. rewrite u256_checked_mul_df. rewrite (pow_odd base e Eo).
      destruct (acc * base <? 2 ^ 256) eqn:EA; cbn [bind].
      * apply N.ltb_lt in EA. rewrite u256_checked_mul_df.
        destruct (base * base <? 2 ^ 256) eqn:EB; cbn [bind].
        -- rewrite srl1 by exact Hlt.
           specialize (IH (base * base) (acc * base) (e / 2) E2 L2).
           rewrite N.mul_assoc. apply IH.
           destruct Hnz as [Z | P]; [left; rewrite Z; reflexivity|].
           destruct (N.eq_dec base 0) as [Zb | NZb]; [left; rewrite Zb; reflexivity | right; nia].
        -- apply N.ltb_ge in EB.
           destruct Hnz as [Z | P]; [rewrite Z in EB; change (2 ^ 256) with 115792089237316195423570985008687907853269984665640564039457584007913129639936 in EB; lia|].
           pose proof (pow_ge_base (base * base) (e / 2) E2).
           assert (1 <= base) by (destruct (N.eq_dec base 0) as [Zb | NZb]; [rewrite Zb in EB; change (2 ^ 256) with 115792089237316195423570985008687907853269984665640564039457584007913129639936 in EB; lia | lia]).
           nia.
      * apply N.ltb_ge in EA.
        assert (NZb : base <> 0) by (intros Zb; rewrite Zb, N.mul_0_r in EA; change (2 ^ 256) with 115792089237316195423570985008687907853269984665640564039457584007913129639936 in EA; lia).
        pose proof (pow_pos_ge1 (base * base) (e / 2) ltac:(nia)). rewrite N.mul_assoc. nia.
    + apply N.eqb_neq in Eo. cbn [bind].
      assert (Ev : e mod 2 = 0) by (pose proof (N.mod_lt e 2 ltac:(discriminate)); lia).
      rewrite u256_checked_mul_df. rewrite (pow_even base e Ev).
      destruct (base * base <? 2 ^ 256) eqn:EB; cbn [bind].
      * rewrite srl1 by exact Hlt.
        apply (IH (base * base) acc (e / 2) E2 L2).
        destruct Hnz as [Z | P]; [left; rewrite Z; reflexivity | right; exact P].
      * apply N.ltb_ge in EB.
        destruct Hnz as [Z | P]; [rewrite Z in EB; change (2 ^ 256) with 115792089237316195423570985008687907853269984665640564039457584007913129639936 in EB; lia|].
        pose proof (pow_ge_base (base * base) (e / 2) E2). nia.
  - apply N.ltb_ge in E1. assert (e = 1) by lia. subst e. rewrite N.pow_1_r. reflexivity.
Qed.

Lemma u256_pow_correct a e : e < 2 ^ 32 -> yieldsN (u256_pow df a e) (a ^ e).
Proof.
  intros He. unfold u256_pow.
  destruct (e =? 0) eqn:E0.
  - apply N.eqb_eq in E0. subst e. cbn [yieldsN]. split; [vm_compute; reflexivity | reflexivity].
  - apply N.eqb_neq in E0.
    assert (L64 : e < 2 ^ 64) by (change (2 ^ 32) with 4294967296 in He; change (2 ^ 64) with 18446744073709551616; lia).
    pose proof (u256_pow_loop_correct 40 a 1 e ltac:(lia) L64 ltac:(right; lia)) as P. rewrite N.mul_1_l in P.
    destruct (u256_pow_loop df 40 a 1 e) as [[[b' a'] |] | c | p |] eqn:El; cbn [bind]; try contradiction; try exact P; try exact I.
    rewrite u256_checked_mul_df. rewrite <- P.
    destruct (a' * b' <? 2 ^ 256) eqn:EA; cbn [bind yieldsN].
    + apply N.ltb_lt in EA. split; [exact EA | reflexivity].
    + apply N.ltb_ge in EA. exact EA.
Qed.

(* ---- BinaryLogarithm for u256 *)
From SwayV Require Import C27.LogProofs.

Lemma limb_val a k : limb a k = (a / 2 ^ (64 * k)) mod 2 ^ 64.
Proof. unfold limb. rewrite land_max64, N.shiftr_div_pow2. reflexivity. Qed.

(* the highest non-zero limb h at position k: a / 2^(64k) = h *)
Lemma u256_add_ok fl a b : a + b < 2 ^ 256 -> u256_add fl a b = Ret (a + b).
Proof. intros H. unfold u256_add, wq, wq_op. rewrite wide_add_ok by exact H. reflexivity. Qed.

Lemma mlog2_fl fl x : x <> 0 -> mlog fl x 2 = Ret (ilog 2 x).
Proof. intros H. unfold mlog. replace (x =? 0) with false by (symmetry; apply N.eqb_neq; exact H). reflexivity. Qed.

Lemma log2_at_limb fl a k : a / 2 ^ (64 * (k + 1)) = 0 -> limb a k <> 0 -> 64 * k + 64 <= 256 ->
  exists r, (let* l := mlog fl (limb a k) 2 in u256_add fl l (64 * k)) = Ret r /\ is_log 2 a r.
Proof.
  intros Hz Hnz Hk. rewrite limb_val in *.
  assert (P : 0 < 2 ^ (64 * k)) by apply pow2_pos.
  assert (E : a / 2 ^ (64 * k) / 2 ^ 64 = 0).
  { rewrite N.div_div by (try discriminate; lia). rewrite <- N.pow_add_r.
    replace (64 * k + 64) with (64 * (k + 1)) by lia. exact Hz. }
  assert (Hh : a / 2 ^ (64 * k) < 2 ^ 64).
  { destruct (N.lt_ge_cases (a / 2 ^ (64 * k)) (2 ^ 64)) as [L | G]; [exact L|].
    assert (1 <= a / 2 ^ (64 * k) / 2 ^ 64) by (apply N.div_le_lower_bound; [discriminate | lia]). lia. }
  rewrite N.mod_small in * by exact Hh.
  remember (a / 2 ^ (64 * k)) as h.
  rewrite mlog2_fl by exact Hnz. cbn [bind].
  pose proof (ilog2_lt64 h ltac:(lia) Hh) as L64.
  destruct (ilog_spec 2 h ltac:(lia) ltac:(lia) Hh) as [L1 L2]. remember (ilog 2 h) as l.
  assert (B : l + 64 * k < 2 ^ 256).
  { assert (l + 64 * k < 256) by lia. assert (256 < 2 ^ 256) by (vm_compute; reflexivity). lia. }
  rewrite u256_add_ok by exact B.
  eexists. split; [reflexivity|].
  assert (D : a = 2 ^ (64 * k) * h + a mod 2 ^ (64 * k)) by (subst h; apply N.div_mod; lia).
  assert (M : a mod 2 ^ (64 * k) < 2 ^ (64 * k)) by (apply N.mod_lt; lia).
  unfold is_log. replace (l + 64 * k + 1) with (l + 1 + 64 * k) by lia. rewrite !N.pow_add_r.
  remember (2 ^ (64 * k)) as K. remember (a mod K) as m.
  split.
  - assert (2 ^ l * K <= h * K) by (apply N.mul_le_mono_r; exact L1). lia.
  - rewrite <- N.pow_add_r. assert ((h + 1) * K <= 2 ^ (l + 1) * K) by (apply N.mul_le_mono_r; lia). lia.
Qed.

Lemma u256_log2_fl fl a : unsafemath fl = false -> a < 2 ^ 256 ->
  if a =? 0 then u256_log2 fl a = Rev FAILED_ASSERT_SIGNAL
  else exists r, u256_log2 fl a = Ret r /\ is_log 2 a r.
Proof.
  intros Hfl Ha. unfold u256_log2. unfold pue. rewrite Hfl. cbn [negb when].
  destruct (a =? 0) eqn:E0; cbn [negb assert bind]; [reflexivity|].
  apply N.eqb_neq in E0.
  assert (Z4 : a / 2 ^ (64 * (3 + 1)) = 0) by (apply N.div_small; exact Ha).
  destruct (limb a 3 =? 0) eqn:E3; cbn [negb].
  2:{ apply N.eqb_neq in E3. apply (log2_at_limb fl a 3 Z4 E3). vm_compute. congruence. }
  apply N.eqb_eq in E3.
  assert (Z3 : a / 2 ^ (64 * (2 + 1)) = 0).
  { rewrite limb_val in E3. change (64 * (2 + 1)) with (64 * 3).
    assert (Q : a / 2 ^ (64 * 3) / 2 ^ 64 = 0).
    { rewrite N.div_div by (try discriminate; vm_compute; congruence). rewrite <- N.pow_add_r. exact Z4. }
    pose proof (N.div_mod (a / 2 ^ (64 * 3)) (2 ^ 64) ltac:(discriminate)) as D. rewrite Q, E3 in D. lia. }
  destruct (limb a 2 =? 0) eqn:E2; cbn [negb].
  2:{ apply N.eqb_neq in E2. apply (log2_at_limb fl a 2 Z3 E2). vm_compute. congruence. }
  apply N.eqb_eq in E2.
  assert (Z2 : a / 2 ^ (64 * (1 + 1)) = 0).
  { rewrite limb_val in E2. change (64 * (1 + 1)) with (64 * 2).
    assert (Q : a / 2 ^ (64 * 2) / 2 ^ 64 = 0).
    { rewrite N.div_div by (try discriminate; vm_compute; congruence). rewrite <- N.pow_add_r. exact Z3. }
    pose proof (N.div_mod (a / 2 ^ (64 * 2)) (2 ^ 64) ltac:(discriminate)) as D. rewrite Q, E2 in D. lia. }
  destruct (limb a 1 =? 0) eqn:E1; cbn [negb].
  2:{ apply N.eqb_neq in E1. apply (log2_at_limb fl a 1 Z2 E1). vm_compute. congruence. }
  apply N.eqb_eq in E1.
  assert (Z1 : a / 2 ^ (64 * (0 + 1)) = 0).
  { rewrite limb_val in E1. change (64 * (0 + 1)) with (64 * 1).
    assert (Q : a / 2 ^ (64 * 1) / 2 ^ 64 = 0).
    { rewrite N.div_div by (try discriminate; vm_compute; congruence). rewrite <- N.pow_add_r. exact Z2. }
    pose proof (N.div_mod (a / 2 ^ (64 * 1)) (2 ^ 64) ltac:(discriminate)) as D. rewrite Q, E1 in D. lia. }
  destruct (limb a 0 =? 0) eqn:E00; cbn [negb].
  2:{ apply N.eqb_neq in E00. destruct (log2_at_limb fl a 0 Z1 E00 ltac:(vm_compute; congruence)) as (r & Er & Lr).
      exists r. split; [|exact Lr].
      rewrite mlog2_fl in Er |- * by exact E00. cbn [bind] in Er. change (64 * 0) with 0 in Er.
      pose proof (ilog2_lt64 (limb a 0)) as L64.
      assert (Hl : limb a 0 < 2 ^ 64) by (rewrite limb_val; apply N.mod_lt; discriminate).
      rewrite u256_add_ok in Er by (rewrite N.add_0_r; specialize (L64 ltac:(lia) Hl); assert (64 < 2 ^ 256) by (vm_compute; reflexivity); lia).
      rewrite N.add_0_r in Er. exact Er. }
  apply N.eqb_eq in E00. exfalso.
  rewrite limb_val in E00. change (64 * 0) with 0 in E00. change (2 ^ 0) with 1 in E00. rewrite N.div_1_r in E00.
  change (64 * (0 + 1)) with 64 in Z1.
  pose proof (N.div_mod a (2 ^ 64) ltac:(discriminate)) as D. rewrite Z1, E00 in D. lia.
Qed.

Lemma u256_log2_correct a : a < 2 ^ 256 ->
  if a =? 0 then u256_log2 df a = Rev FAILED_ASSERT_SIGNAL
  else exists r, u256_log2 df a = Ret r /\ is_log 2 a r.
Proof. apply u256_log2_fl. reflexivity. Qed.

(* ---- u256 shifts (WQOP shl/shr never overflow) and wrapping_add/sub/mul (F_WRAPPING set) *)
Notation wfl := {| unsafemath := false; wrapping := true |}.

Lemma u256_lsh_df a s : u256_lsh df a s = Ret ((a * 2 ^ s) mod 2 ^ 256).
Proof.
  unfold u256_lsh, wq, wq_op. destruct (N.lt_ge_cases s 256) as [L | G].
  - rewrite wide_shl_ok by (try exact L; change (2 ^ 32) with 4294967296; lia). reflexivity.
  - rewrite wide_shl_big by exact G. cbn [omap res vm]. f_equal. symmetry.
    replace s with (256 + (s - 256)) by lia. rewrite N.pow_add_r.
    replace (a * (2 ^ 256 * 2 ^ (s - 256))) with (a * 2 ^ (s - 256) * 2 ^ 256) by ring.
    apply N.mod_mul. discriminate.
Qed.

Lemma u256_rsh_df a s : a < 2 ^ 256 -> u256_rsh df a s = Ret (a / 2 ^ s).
Proof.
  intros Ha. unfold u256_rsh, wq, wq_op. rewrite wide_shr_any by (exact Ha || (vm_compute; congruence)). reflexivity.
Qed.

Lemma u256_wrapping_add a b : u256_add (wrap_on df) a b = Ret ((a + b) mod 2 ^ 256).
Proof.
  unfold u256_add, wq, wq_op. change (wrap_on df) with wfl. destruct (N.lt_ge_cases (a + b) (2 ^ 256)) as [L | G].
  - rewrite wide_add_ok by exact L. rewrite N.mod_small by exact L. reflexivity.
  - rewrite wide_add_wrapping by exact G. reflexivity.
Qed.

Lemma u256_wrapping_sub a b : a < 2 ^ 256 -> b < 2 ^ 256 ->
  u256_sub (wrap_on df) a b = Ret ((2 ^ 256 + a - b) mod 2 ^ 256).
Proof.
  intros Ha Hb. unfold u256_sub, wq, wq_op. change (wrap_on df) with wfl. destruct (N.le_gt_cases b a) as [L | G].
  - rewrite wide_sub_ok by exact L. cbn [omap res vm]. f_equal.
    replace (2 ^ 256 + a - b) with (a - b + 1 * 2 ^ 256) by lia. rewrite N.mod_add by discriminate.
    symmetry. apply N.mod_small. lia.
  - rewrite wide_sub_wrapping by exact G. cbn [omap res vm]. f_equal. symmetry. apply N.mod_small. lia.
Qed.

Lemma u256_wrapping_mul a b : u256_mul (wrap_on df) a b = Ret ((a * b) mod 2 ^ 256).
Proof.
  unfold u256_mul, wq, wq_mul. change (wrap_on df) with wfl. destruct (N.lt_ge_cases (a * b) (2 ^ 256)) as [L | G].
  - rewrite wide_mul_ok by exact L. rewrite N.mod_small by exact L. reflexivity.
  - rewrite wide_mul_wrapping by exact G. reflexivity.
Qed.

(* fuel of u256::pow: 40 >= the bit length of a u32 exponent *)
Lemma u256_pow_loop_fuel : forall fuel base acc e, 1 <= e -> e < 2 ^ 64 -> e < 2 ^ N.of_nat fuel ->
  u256_pow_loop df fuel base acc e <> Oof.
Proof.
  induction fuel as [| fuel IH]; intros base acc e He Hlt Hf.
  - change (2 ^ N.of_nat 0) with 1 in Hf. lia.
  - cbn [u256_pow_loop]. destruct (1 <? e) eqn:E1; [|discriminate].
    apply N.ltb_lt in E1.
    assert (E2 : 1 <= e / 2) by (apply N.div_le_lower_bound; [discriminate|]; lia).
    assert (L2 : e / 2 < 2 ^ 64) by (pose proof (div_le_self e 2 ltac:(lia)); lia).
    assert (F2 : e / 2 < 2 ^ N.of_nat fuel) by (apply half_lt_pow; exact Hf).
    destruct (N.land e 1 =? 1).
    + rewrite u256_checked_mul_df. destruct (acc * base <? 2 ^ 256); cbn [bind]; [|discriminate].
      rewrite u256_checked_mul_df. destruct (base * base <? 2 ^ 256); cbn [bind]; [|discriminate].
      rewrite srl1 by exact Hlt. apply IH; assumption.
    + cbn [bind]. rewrite u256_checked_mul_df. destruct (base * base <? 2 ^ 256); cbn [bind]; [|discriminate].
      rewrite srl1 by exact Hlt. apply IH; assumption.
Qed.

Lemma u256_pow_total a e : e < 2 ^ 32 -> u256_pow df a e <> Oof.
Proof.
  intros He. unfold u256_pow. destruct (e =? 0) eqn:E0; [discriminate|]. apply N.eqb_neq in E0.
  assert (L64 : e < 2 ^ 64) by (change (2 ^ 32) with 4294967296 in He; change (2 ^ 64) with 18446744073709551616; lia).
  assert (L40 : e < 2 ^ N.of_nat 40) by (change (2 ^ 32) with 4294967296 in He; change (2 ^ N.of_nat 40) with 1099511627776; lia).
  pose proof (u256_pow_loop_fuel 40 a 1 e ltac:(lia) L64 L40) as F.
  destruct (u256_pow_loop df 40 a 1 e) as [[[b' a'] |] | c | p |]; cbn [bind]; try discriminate; try congruence.
  rewrite u256_checked_mul_df. destruct (a' * b' <? 2 ^ 256); discriminate.
Qed.

Lemma u256_pow_full a e : e < 2 ^ 32 ->
  match u256_pow df a e with
  | Ret r => a ^ e < 2 ^ 256 /\ r = a ^ e
  | Rev _ | Vmp _ => 2 ^ 256 <= a ^ e
  | Oof => False
  end.
Proof.
  intros He. pose proof (u256_pow_correct a e He) as Y. pose proof (u256_pow_total a e He) as T.
  destruct (u256_pow df a e); cbn [yieldsN] in Y; try exact Y. congruence.
Qed.
