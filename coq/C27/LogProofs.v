(* C27 — log2: MLOG's integer meaning (ilog) is the floor logarithm; U128::log2 and u256::log2 on top. *)
From Coq Require Import NArith ZArith List Bool Lia.
From SwayV Require Import Vm.Alu Vm.AluProofs C27.NumModel C27.Spec C27.NumProofs C27.DivProofs C27.SqrtProofs.
Local Open Scope N_scope.
Arguments N.add : simpl never.
Arguments N.sub : simpl never.
Arguments N.mul : simpl never.
Arguments N.div : simpl never.
Arguments N.modulo : simpl never.
Arguments N.pow : simpl never.
Arguments N.eqb : simpl never.
Arguments N.ltb : simpl never.
Arguments N.leb : simpl never.

Lemma ilog_loop_spec : forall f b x, 2 <= b -> 1 <= x -> x < b ^ N.of_nat f ->
  is_log b x (ilog_loop f b x).
Proof.
  induction f as [| f IH]; intros b x Hb Hx Hlt.
  - cbn in Hlt. change (b ^ 0) with 1 in Hlt. lia.
  - cbn [ilog_loop]. destruct (x <? b) eqn:E.
    + apply N.ltb_lt in E. unfold is_log. change (b ^ 0) with 1. change (0 + 1) with 1. rewrite N.pow_1_r. lia.
    + apply N.ltb_ge in E.
      assert (D : x = b * (x / b) + x mod b) by (apply N.div_mod; lia).
      assert (M : x mod b < b) by (apply N.mod_lt; lia).
      assert (Q1 : 1 <= x / b) by (apply N.div_le_lower_bound; lia).
      assert (Q2 : x / b < b ^ N.of_nat f).
      { apply N.div_lt_upper_bound; [lia|]. rewrite Nat2N.inj_succ, N.pow_succ_r' in Hlt. exact Hlt. }
      destruct (IH b (x / b) Hb Q1 Q2) as [L1 L2]. remember (ilog_loop f b (x / b)) as r.
      unfold is_log. replace (1 + r + 1) with (N.succ (r + 1)) by lia. replace (1 + r) with (N.succ r) by lia.
      rewrite !N.pow_succ_r'. rewrite N.add_1_r in L2. rewrite N.pow_succ_r' in L2. rewrite N.add_1_r. rewrite N.pow_succ_r'.
      split.
      * assert (b * b ^ r <= b * (x / b)) by (apply N.mul_le_mono_l; exact L1). lia.
      * assert (b * (x / b + 1) <= b * (b * b ^ r)) by (apply N.mul_le_mono_l; lia). lia.
Qed.

Lemma ilog_spec b x : 2 <= b -> 1 <= x -> x < 2 ^ 64 -> is_log b x (ilog b x).
Proof.
  intros Hb Hx Hlt. apply ilog_loop_spec; try assumption.
  assert (2 ^ 64 <= b ^ 64) by (apply N.pow_le_mono_l; exact Hb).
  change (N.of_nat 64) with 64. lia.
Qed.

Lemma ilog2_lt64 x : 1 <= x -> x < 2 ^ 64 -> ilog 2 x < 64.
Proof.
  intros Hx Hlt. destruct (ilog_spec 2 x ltac:(lia) Hx Hlt) as [L _].
  apply (N.pow_lt_mono_r_iff 2); lia.
Qed.

Lemma mlog2_df x : x <> 0 -> mlog default_flags x 2 = Ret (ilog 2 x).
Proof.
  intros H. unfold mlog. replace (x =? 0) with false by (symmetry; apply N.eqb_neq; exact H). reflexivity.
Qed.

Lemma u128_log2_correct a : wf a ->
  if val a =? 0 then u128_log2 default_flags a = Rev FAILED_ASSERT_SIGNAL
  else exists r, u128_log2 default_flags a = Ret r /\ wf r /\ is_log 2 (val a) (val r).
Proof.
  intros Ha. unfold u128_log2. cbn [pue unsafemath default_flags negb].
  rewrite u128_eq_zero by exact Ha.
  destruct (val a =? 0) eqn:E0; cbn [negb assert bind]; [reflexivity|].
  apply N.eqb_neq in E0. destruct a as [u l]. destruct Ha as [Hu Hl]. unfold val in *. cbn [up lo fst snd] in *.
  destruct (u =? 0) eqn:Eu; cbn [negb].
  - apply N.eqb_eq in Eu. subst u. rewrite N.mul_0_l, N.add_0_l in *.
    replace (l =? 0) with false by (symmetry; apply N.eqb_neq; exact E0). cbn [negb].
    rewrite mlog2_df by exact E0. cbn [bind].
    pose proof (ilog2_lt64 l ltac:(lia) Hl).
    eexists. split; [reflexivity|]. split.
    + unfold wf; cbn [up lo fst snd]. split; [reflexivity|]. change (2 ^ 64) with 18446744073709551616. lia.
    + unfold val; cbn [up lo fst snd]. rewrite N.mul_0_l, N.add_0_l. apply ilog_spec; lia.
  - apply N.eqb_neq in Eu. rewrite mlog2_df by exact Eu. cbn [bind].
    pose proof (ilog2_lt64 u ltac:(lia) Hu) as L64.
    rewrite u_add_df.
    replace (ilog 2 u + 64 <? 2 ^ 64) with true by (symmetry; apply N.ltb_lt; change (2 ^ 64) with 18446744073709551616; lia).
    cbn [bind]. eexists. split; [reflexivity|]. split.
    + unfold wf; cbn [up lo fst snd]. split; [reflexivity|]. change (2 ^ 64) with 18446744073709551616. lia.
    + unfold val; cbn [up lo fst snd]. rewrite N.mul_0_l, N.add_0_l.
      destruct (ilog_spec 2 u ltac:(lia) ltac:(lia) Hu) as [L1 L2]. remember (ilog 2 u) as r.
      unfold is_log. replace (r + 64 + 1) with (r + 1 + 64) by lia. rewrite !N.pow_add_r.
      split.
      * assert (2 ^ r * 2 ^ 64 <= u * 2 ^ 64) by (apply N.mul_le_mono_r; exact L1). lia.
      * assert ((u + 1) * 2 ^ 64 <= 2 ^ r * 2 ^ 1 * 2 ^ 64).
        { apply N.mul_le_mono_r. rewrite <- N.pow_add_r. lia. }
        lia.
Qed.

(* u8..u64 log2 / log = MLOG *)
Lemma log_narrow_correct x b : x < 2 ^ 64 ->
  if (x =? 0) || (b <? 2) then reverts (log_narrow default_flags x b)
  else exists r, log_narrow default_flags x b = Ret r /\ is_log b x r.
Proof.
  intros Hx. unfold log_narrow, mlog. cbn [unsafemath default_flags].
  destruct (x =? 0) eqn:E0; cbn [orb]; [exact I|].
  apply N.eqb_neq in E0.
  destruct (b <? 2) eqn:Eb.
  - apply N.ltb_lt in Eb. replace (b <=? 1) with true by (symmetry; apply N.leb_le; lia). exact I.
  - apply N.ltb_ge in Eb. replace (b <=? 1) with false by (symmetry; apply N.leb_gt; lia).
    eexists. split; [reflexivity|]. apply ilog_spec; lia.
Qed.
