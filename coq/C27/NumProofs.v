(* C27 — proofs for U128 add/sub/mul/compare/not/shifts (default flags). *)
From Coq Require Import NArith ZArith List Bool Lia ZifyBool ZifyN Ring.
From SwayV Require Import Vm.Alu Vm.AluProofs C27.NumModel C27.Spec.
Local Open Scope N_scope.
Ltac Zify.zify_post_hook ::= Z.div_mod_to_equations.
Arguments N.add : simpl never.
Arguments N.sub : simpl never.
Arguments N.mul : simpl never.
Arguments N.div : simpl never.
Arguments N.modulo : simpl never.
Arguments N.pow : simpl never.
Arguments N.eqb : simpl never.
Arguments N.ltb : simpl never.
Arguments N.leb : simpl never.

Notation df := default_flags.
Notation W := 18446744073709551616 (only parsing).

Lemma W_val : 2 ^ 64 = W. Proof. reflexivity. Qed.
Lemma P_val : 2 ^ 128 = W * W. Proof. reflexivity. Qed.

Ltac nums := rewrite ?W_val, ?P_val, ?MAX64_val in *.

(* ------------------------------------------------------------------ primitives at default flags *)
Lemma u_add_df a b : u_add df a b = if a + b <? 2 ^ 64 then Ret (a + b) else Vmp ArithmeticOverflow.
Proof.
  change (u_add df a b) with (vm (vm_add a b)).
  destruct (a + b <? 2 ^ 64) eqn:E.
  - rewrite add_ok by (apply N.ltb_lt; exact E). reflexivity.
  - rewrite add_overflow by (apply N.ltb_ge; exact E). reflexivity.
Qed.

Lemma u_sub_df a b : a < 2 ^ 64 -> b < 2 ^ 64 ->
  u_sub df a b = if b <=? a then Ret (a - b) else Vmp ArithmeticOverflow.
Proof.
  intros Ha Hb. change (u_sub df a b) with (vm (vm_sub a b)).
  destruct (b <=? a) eqn:E.
  - rewrite sub_ok; [reflexivity | apply N.leb_le; exact E | exact Ha].
  - rewrite sub_overflow; [reflexivity | apply N.leb_gt; exact E | exact Hb].
Qed.

Lemma u_mul_df a b : u_mul df a b = if a * b <? 2 ^ 64 then Ret (a * b) else Vmp ArithmeticOverflow.
Proof.
  change (u_mul df a b) with (vm (vm_mul a b)).
  destruct (a * b <? 2 ^ 64) eqn:E.
  - rewrite mul_ok by (apply N.ltb_lt; exact E). reflexivity.
  - rewrite mul_overflow by (apply N.ltb_ge; exact E). reflexivity.
Qed.

Lemma u_div_df a b : b <> 0 -> u_div df a b = Ret (a / b).
Proof. intros H. change (u_div df a b) with (vm (vm_div a b)). rewrite div_ok by exact H. reflexivity. Qed.

Lemma overflowing_add_df a b :
  overflowing_add df a b = Ret ((a + b) / 2 ^ 64, (a + b) mod 2 ^ 64).
Proof.
  unfold overflowing_add, overflowing. change (wrap_on df) with {| unsafemath := false; wrapping := true |}.
  rewrite add_wrapping. reflexivity.
Qed.

Lemma overflowing_mul_df a b :
  overflowing_mul df a b = Ret ((a * b) / 2 ^ 64, (a * b) mod 2 ^ 64).
Proof.
  unfold overflowing_mul, overflowing. change (wrap_on df) with {| unsafemath := false; wrapping := true |}.
  rewrite mul_wrapping. reflexivity.
Qed.

Lemma sll64_small a c : c < 64 -> sll64 a c = (a * 2 ^ c) mod 2 ^ 64.
Proof. intros H. pose proof (sll_ok a c H) as E. unfold vm_sll, vm_bin in E. cbn in E. congruence. Qed.
Lemma srl64_small a c : c < 64 -> srl64 a c = a / 2 ^ c.
Proof. intros H. pose proof (srl_ok a c H) as E. unfold vm_srl, vm_bin in E. cbn in E. congruence. Qed.

Lemma pow2_split a b : 2 ^ (a + b) = 2 ^ a * 2 ^ b.
Proof. apply N.pow_add_r. Qed.

Lemma pow2_le_mono a b : a <= b -> 2 ^ a <= 2 ^ b.
Proof. intros H. apply N.pow_le_mono_r; lia. Qed.

(* ------------------------------------------------------------------ val / wf / split *)
Lemma val_lt a : wf a -> val a < 2 ^ 128.
Proof. destruct a as [u l]. unfold wf, val; cbn [up lo fst snd]. nums. nia. Qed.

Lemma wf_split n : n < 2 ^ 128 -> wf (split n).
Proof.
  intros H. unfold wf, split; cbn [up lo fst snd]. split.
  - apply N.div_lt_upper_bound; [discriminate | nums; lia].
  - apply N.mod_lt. discriminate.
Qed.

Lemma val_split n : val (split n) = n.
Proof. unfold val, split; cbn [up lo fst snd]. nums. lia. Qed.

Lemma split_val a : wf a -> split (val a) = a.
Proof.
  destruct a as [u l]. unfold wf, val, split; cbn [up lo fst snd]. intros [Hu Hl]. nums.
  f_equal; nia.
Qed.

Lemma val_inj a b : wf a -> wf b -> val a = val b -> a = b.
Proof. intros Ha Hb E. rewrite <- (split_val a Ha), <- (split_val b Hb), E. reflexivity. Qed.

Lemma ret_pair {A B} (a c : A) (b d : B) : a = c -> b = d -> @Ret (A * B) (a, b) = Ret (c, d).
Proof. intros -> ->. reflexivity. Qed.

Lemma val_mk u l : val (u, l) = u * 2 ^ 64 + l. Proof. reflexivity. Qed.

(* ------------------------------------------------------------------ comparisons *)
Lemma u128_lt_spec a b : wf a -> wf b -> u128_lt a b = (val a <? val b).
Proof.
  destruct a as [u1 l1], b as [u2 l2]. unfold wf, u128_lt, val; cbn [up lo fst snd]. intros [? ?] [? ?].
  nums. apply eq_true_iff_eq. rewrite orb_true_iff, andb_true_iff, !N.ltb_lt, N.eqb_eq. nia.
Qed.

Lemma u128_gt_spec a b : wf a -> wf b -> u128_gt a b = (val b <? val a).
Proof.
  destruct a as [u1 l1], b as [u2 l2]. unfold wf, u128_gt, val; cbn [up lo fst snd]. intros [? ?] [? ?].
  nums. apply eq_true_iff_eq. rewrite orb_true_iff, andb_true_iff, !N.ltb_lt, N.eqb_eq. nia.
Qed.

Lemma u128_eq_spec a b : wf a -> wf b -> u128_eq a b = (val a =? val b).
Proof.
  destruct a as [u1 l1], b as [u2 l2]. unfold wf, u128_eq, val; cbn [up lo fst snd]. intros [? ?] [? ?].
  nums. apply eq_true_iff_eq. rewrite andb_true_iff, !N.eqb_eq. nia.
Qed.

Lemma u128_ge_spec a b : wf a -> wf b -> u128_ge a b = (val b <=? val a).
Proof.
  intros Ha Hb. unfold u128_ge. rewrite u128_gt_spec, u128_eq_spec by assumption.
  apply eq_true_iff_eq. rewrite orb_true_iff, N.ltb_lt, N.eqb_eq, N.leb_le. lia.
Qed.

Lemma u128_le_spec a b : wf a -> wf b -> u128_le a b = (val a <=? val b).
Proof.
  intros Ha Hb. unfold u128_le. rewrite u128_lt_spec, u128_eq_spec by assumption.
  apply eq_true_iff_eq. rewrite orb_true_iff, N.ltb_lt, N.eqb_eq, N.leb_le. lia.
Qed.

Lemma wf_zero : wf u128_zero. Proof. unfold wf, u128_zero; cbn. split; reflexivity. Qed.
Lemma val_zero : val u128_zero = 0. Proof. reflexivity. Qed.

Lemma u128_eq_zero a : wf a -> u128_eq a u128_zero = (val a =? 0).
Proof. intros Ha. rewrite u128_eq_spec by (assumption || apply wf_zero). reflexivity. Qed.

(* ------------------------------------------------------------------ not *)
Lemma u128_not_correct a : wf a -> wf (u128_not a) /\ val (u128_not a) = 2 ^ 128 - 1 - val a.
Proof.
  destruct a as [u l]. unfold wf, u128_not, val; cbn [up lo fst snd]. intros [Hu Hl].
  rewrite !not_ok by assumption. nums. repeat split; nia.
Qed.

(* ------------------------------------------------------------------ add *)
Lemma u128_add_full a b : wf a -> wf b ->
  u128_add df a b = if val a + val b <? 2 ^ 128 then Ret (split (val a + val b))
                    else Rev FAILED_ASSERT_SIGNAL.
Proof.
  destruct a as [u1 l1], b as [u2 l2]. unfold wf, val; cbn [up lo fst snd]. intros [Hu1 Hl1] [Hu2 Hl2].
  unfold u128_add; cbn [up lo fst snd]. rewrite !overflowing_add_df. cbn [bind up lo fst snd poe wrapping df negb when].
  destruct ((u1 + u2) / 2 ^ 64 =? 0) eqn:E1.
  - apply N.eqb_eq in E1. cbn [assert bind].
    destruct (0 <? (l1 + l2) / 2 ^ 64) eqn:E2.
    + rewrite overflowing_add_df. cbn [bind up lo fst snd].
      destruct (((u1 + u2) mod 2 ^ 64 + (l1 + l2) / 2 ^ 64) / 2 ^ 64 =? 0) eqn:E3.
      * apply N.eqb_eq in E3. apply N.ltb_lt in E2. cbn [assert bind].
        replace (u1 * 2 ^ 64 + l1 + (u2 * 2 ^ 64 + l2) <? 2 ^ 128) with true.
        2:{ symmetry. apply N.ltb_lt. nums. lia. }
        unfold split. apply ret_pair; nums; lia.
      * apply N.eqb_neq in E3. apply N.ltb_lt in E2. cbn [assert bind].
        replace (u1 * 2 ^ 64 + l1 + (u2 * 2 ^ 64 + l2) <? 2 ^ 128) with false. reflexivity.
        symmetry. apply N.ltb_ge. nums. lia.
    + apply N.ltb_ge in E2. cbn [bind up lo fst snd]. rewrite N.mod_small by (nums; lia).
      replace ((u1 + u2) / 2 ^ 64 =? 0) with true by (symmetry; apply N.eqb_eq; exact E1).
      cbn [assert bind].
      replace (u1 * 2 ^ 64 + l1 + (u2 * 2 ^ 64 + l2) <? 2 ^ 128) with true.
      2:{ symmetry. apply N.ltb_lt. nums. lia. }
      unfold split. apply ret_pair; nums; lia.
  - apply N.eqb_neq in E1. cbn [assert bind].
    replace (u1 * 2 ^ 64 + l1 + (u2 * 2 ^ 64 + l2) <? 2 ^ 128) with false. reflexivity.
    symmetry. apply N.ltb_ge. nums. lia.
Qed.

Lemma u128_add_correct a b : wf a -> wf b -> agrees (u128_add df a b) (S_add (val a) (val b)).
Proof.
  intros Ha Hb. rewrite u128_add_full by assumption. unfold S_add, bounded.
  destruct (val a + val b <? 2 ^ 128) eqn:E; cbn [agrees reverts].
  - apply N.ltb_lt in E. eexists. split; [reflexivity|]. split; [apply wf_split; exact E | apply val_split].
  - exact I.
Qed.

(* ------------------------------------------------------------------ sub *)
Lemma u128_sub_full a b : wf a -> wf b ->
  u128_sub df a b = if val b <=? val a then Ret (split (val a - val b))
                    else Rev FAILED_ASSERT_SIGNAL.
Proof.
  intros Ha Hb. unfold u128_sub. cbn [poe wrapping df negb when].
  rewrite u128_lt_spec by assumption.
  destruct a as [u1 l1], b as [u2 l2]. destruct Ha as [Hu1 Hl1], Hb as [Hu2 Hl2].
  unfold val in *; cbn [up lo fst snd] in *.
  destruct (u2 * 2 ^ 64 + l2 <=? u1 * 2 ^ 64 + l1) eqn:E.
  - apply N.leb_le in E.
    replace (u1 * 2 ^ 64 + l1 <? u2 * 2 ^ 64 + l2) with false by (symmetry; apply N.ltb_ge; exact E).
    cbn [negb assert bind].
    rewrite u_sub_df by assumption.
    replace (u2 <=? u1) with true by (symmetry; apply N.leb_le; nums; lia).
    cbn [bind].
    destruct (l1 <? l2) eqn:E2.
    + apply N.ltb_lt in E2.
      rewrite (u_sub_df l2 l1) by assumption.
      replace (l1 <=? l2) with true by (symmetry; apply N.leb_le; lia). cbn [bind].
      rewrite (u_sub_df (l2 - l1) 1) by (nums; lia).
      replace (1 <=? l2 - l1) with true by (symmetry; apply N.leb_le; lia). cbn [bind].
      rewrite (u_sub_df MAX64) by (nums; lia).
      replace (l2 - l1 - 1 <=? MAX64) with true by (symmetry; apply N.leb_le; nums; lia). cbn [bind].
      rewrite (u_sub_df (u1 - u2) 1) by (nums; lia).
      replace (1 <=? u1 - u2) with true by (symmetry; apply N.leb_le; nums; lia). cbn [bind].
      unfold split. apply ret_pair; nums; lia.
    + apply N.ltb_ge in E2.
      rewrite (u_sub_df l1 l2) by assumption.
      replace (l2 <=? l1) with true by (symmetry; apply N.leb_le; lia). cbn [bind].
      unfold split. apply ret_pair; nums; lia.
  - apply N.leb_gt in E.
    replace (u1 * 2 ^ 64 + l1 <? u2 * 2 ^ 64 + l2) with true by (symmetry; apply N.ltb_lt; exact E).
    reflexivity.
Qed.

Lemma u128_sub_correct a b : wf a -> wf b -> agrees (u128_sub df a b) (S_sub (val a) (val b)).
Proof.
  intros Ha Hb. rewrite u128_sub_full by assumption. unfold S_sub.
  pose proof (val_lt a Ha) as La.
  destruct (val b <=? val a) eqn:E; cbn [agrees reverts].
  - eexists. split; [reflexivity|]. split; [apply wf_split; lia | apply val_split].
  - exact I.
Qed.

(* ------------------------------------------------------------------ mul *)
Lemma mul_case (l1 l2 x A B C D : N) : l1 < 2 ^ 64 -> l2 < 2 ^ 64 -> x < 2 ^ 64 ->
  A * B = l1 * l2 -> C * D = x * l2 ->
  (let* r := overflowing_mul df A B in
   let* m := u_mul df C D in
   let* u := u_add df (up r) m in Ret (u, lo r)) =
  if (x * 2 ^ 64 + l1) * l2 <? 2 ^ 128 then Ret (split ((x * 2 ^ 64 + l1) * l2))
  else Vmp ArithmeticOverflow.
Proof.
  intros H1 H2 Hx HAB HCD. rewrite overflowing_mul_df. cbn [bind up lo fst snd].
  rewrite u_mul_df. rewrite HAB, HCD.
  assert (Hq : l1 * l2 / 2 ^ 64 < 2 ^ 64) by (apply N.div_lt_upper_bound; [discriminate | nums; nia]).
  destruct (x * l2 <? 2 ^ 64) eqn:E1.
  - apply N.ltb_lt in E1. cbn [bind]. rewrite u_add_df.
    destruct (l1 * l2 / 2 ^ 64 + x * l2 <? 2 ^ 64) eqn:E2.
    + apply N.ltb_lt in E2. cbn [bind].
      replace ((x * 2 ^ 64 + l1) * l2 <? 2 ^ 128) with true by (symmetry; apply N.ltb_lt; nums; nia).
      unfold split. apply ret_pair; nums; nia.
    + apply N.ltb_ge in E2. cbn [bind].
      replace ((x * 2 ^ 64 + l1) * l2 <? 2 ^ 128) with false by (symmetry; apply N.ltb_ge; nums; nia).
      reflexivity.
  - apply N.ltb_ge in E1. cbn [bind].
    replace ((x * 2 ^ 64 + l1) * l2 <? 2 ^ 128) with false by (symmetry; apply N.ltb_ge; nums; nia).
    reflexivity.
Qed.

Lemma u128_mul_full a b : wf a -> wf b ->
  u128_mul df a b =
    if negb (up a =? 0) && negb (up b =? 0) then Rev FAILED_ASSERT_SIGNAL
    else if val a * val b <? 2 ^ 128 then Ret (split (val a * val b))
    else Vmp ArithmeticOverflow.
Proof.
  destruct a as [u1 l1], b as [u2 l2]. unfold wf, val; cbn [up lo fst snd]. intros [Hu1 Hl1] [Hu2 Hl2].
  unfold u128_mul; cbn [up lo fst snd pue unsafemath df negb when].
  destruct (u1 =? 0) eqn:E1.
  - apply N.eqb_eq in E1. subst u1. cbn [orb assert bind negb andb].
    rewrite (mul_case l2 l1 u2 l1 l2 l1 u2 Hl2 Hl1 Hu2) by lia.
    replace ((0 * 2 ^ 64 + l1) * (u2 * 2 ^ 64 + l2)) with ((u2 * 2 ^ 64 + l2) * l1) by lia.
    reflexivity.
  - destruct (u2 =? 0) eqn:E2.
    + apply N.eqb_eq in E2. subst u2. cbn [orb assert bind negb andb].
      rewrite (mul_case l1 l2 u1 l1 l2 u1 l2 Hl1 Hl2 Hu1) by lia.
      replace ((u1 * 2 ^ 64 + l1) * (0 * 2 ^ 64 + l2)) with ((u1 * 2 ^ 64 + l1) * l2) by lia.
      reflexivity.
    + reflexivity.
Qed.

Lemma u128_mul_correct a b : wf a -> wf b -> agrees (u128_mul df a b) (S_mul (val a) (val b)).
Proof.
  intros Ha Hb. rewrite u128_mul_full by assumption. unfold S_mul, bounded.
  destruct (negb (up a =? 0) && negb (up b =? 0)) eqn:E0.
  - apply andb_true_iff in E0. destruct E0 as [E1 E2].
    apply negb_true_iff, N.eqb_neq in E1. apply negb_true_iff, N.eqb_neq in E2.
    replace (val a * val b <? 2 ^ 128) with false. exact I.
    symmetry. apply N.ltb_ge. unfold val. nums. nia.
  - destruct (val a * val b <? 2 ^ 128) eqn:E; cbn [agrees reverts].
    + apply N.ltb_lt in E. eexists. split; [reflexivity|]. split; [apply wf_split; exact E | apply val_split].
    + exact I.
Qed.

(* ------------------------------------------------------------------ shifts *)
Lemma div_mul_add x y m : y < m -> (x * m + y) / m = x.
Proof. intros H. symmetry. apply (N.div_unique _ _ _ y); [exact H | lia]. Qed.
Lemma mod_mul_add x y m : y < m -> (x * m + y) mod m = y.
Proof. intros H. symmetry. apply (N.mod_unique _ _ x); [exact H | lia]. Qed.
Lemma split_mk x y : y < 2 ^ 64 -> split (x * 2 ^ 64 + y) = (x, y).
Proof. intros H. unfold split. rewrite div_mul_add, mod_mul_add by exact H. reflexivity. Qed.

Lemma shl_arith u l k j : 0 < k -> 0 < j -> l < k * j ->
  ((u * (k * j) + l) * k) mod ((k * j) * (k * j)) = ((u mod j) * k + l / j) * (k * j) + (l mod j) * k.
Proof.
  intros Hk Hj Hl.
  assert (Dl : l = j * (l / j) + l mod j) by (apply N.div_mod; lia).
  assert (Du : u = j * (u / j) + u mod j) by (apply N.div_mod; lia).
  assert (Bl : l mod j < j) by (apply N.mod_lt; lia).
  assert (Bu : u mod j < j) by (apply N.mod_lt; lia).
  assert (Bq : l / j < k) by (apply N.div_lt_upper_bound; lia).
  remember (u / j) as uq. remember (u mod j) as ur. remember (l / j) as lq. remember (l mod j) as lr.
  symmetry. apply (N.mod_unique _ _ uq).
  - nia.
  - rewrite Du at 1. rewrite Dl at 1. ring.
Qed.

Lemma shr_arith u l k j : 0 < k -> 0 < j -> l < k * j ->
  (u * (k * j) + l) / k = (u / k) * (k * j) + (l / k + (u mod k) * j).
Proof.
  intros Hk Hj Hl.
  assert (Dl : l = k * (l / k) + l mod k) by (apply N.div_mod; lia).
  assert (Du : u = k * (u / k) + u mod k) by (apply N.div_mod; lia).
  assert (Bl : l mod k < k) by (apply N.mod_lt; lia).
  remember (u / k) as uq. remember (u mod k) as ur. remember (l / k) as lq. remember (l mod k) as lr.
  symmetry. apply (N.div_unique _ _ _ lr).
  - exact Bl.
  - rewrite Du at 1. rewrite Dl at 1. ring.
Qed.

Lemma lt_combine a b k j : a < j -> b < k -> a * k + b < k * j.
Proof.
  intros H1 H2. assert (Q : (a + 1) * k <= j * k) by (apply N.mul_le_mono_r; lia).
  replace ((a + 1) * k) with (a * k + k) in Q by ring. lia.
Qed.
Lemma lt_scale a k j : 0 < k -> a < j -> a * k < k * j.
Proof. intros H0 H1. rewrite (N.mul_comm k j). apply N.mul_lt_mono_pos_r; assumption. Qed.

Lemma srl64_64 a : srl64 a 64 = 0.
Proof. pose proof (srl_big a 64 (N.le_refl _)) as Q. unfold vm_srl, vm_bin in Q. cbn in Q. congruence. Qed.
Lemma sll64_64 a : sll64 a 64 = 0.
Proof. pose proof (sll_big a 64 (N.le_refl _)) as Q. unfold vm_sll, vm_bin in Q. cbn in Q. congruence. Qed.

Lemma u128_lsh_full a s : wf a -> s < 2 ^ 64 ->
  u128_lsh df a s = Ret (split ((val a * 2 ^ s) mod 2 ^ 128)).
Proof.
  destruct a as [u l]. unfold wf, val; cbn [up lo fst snd]. intros [Hu Hl] Hs.
  unfold u128_lsh; cbn [up lo fst snd].
  destruct (128 <=? s) eqn:E1.
  - apply N.leb_le in E1.
    replace ((u * 2 ^ 64 + l) * 2 ^ s mod 2 ^ 128) with 0. reflexivity.
    symmetry. replace s with (128 + (s - 128)) by lia. rewrite pow2_split.
    replace ((u * 2 ^ 64 + l) * (2 ^ 128 * 2 ^ (s - 128))) with ((u * 2 ^ 64 + l) * 2 ^ (s - 128) * 2 ^ 128) by ring.
    apply N.mod_mul. discriminate.
  - apply N.leb_gt in E1. destruct (64 <=? s) eqn:E2.
    + apply N.leb_le in E2. rewrite u_sub_df by (assumption || reflexivity).
      replace (64 <=? s) with true by (symmetry; apply N.leb_le; exact E2). cbn [bind].
      rewrite sll64_small by lia.
      replace (2 ^ s) with (2 ^ 64 * 2 ^ (s - 64)) by (rewrite <- pow2_split; f_equal; lia).
      assert (P : 0 < 2 ^ (s - 64)) by apply pow2_pos.
      remember (2 ^ (s - 64)) as k.
      replace (2 ^ 128) with (2 ^ 64 * 2 ^ 64) by reflexivity.
      replace ((u * 2 ^ 64 + l) * (2 ^ 64 * k)) with (2 ^ 64 * ((u * 2 ^ 64 + l) * k)) by ring.
      rewrite N.mul_mod_distr_l by discriminate.
      replace ((u * 2 ^ 64 + l) * k) with (l * k + u * k * 2 ^ 64) by ring.
      rewrite N.mod_add by discriminate.
      rewrite (N.mul_comm (2 ^ 64)). rewrite <- (N.add_0_r (_ * 2 ^ 64)).
      rewrite split_mk by reflexivity. reflexivity.
    + apply N.leb_gt in E2. rewrite u_sub_df by (assumption || reflexivity).
      replace (s <=? 64) with true by (symmetry; apply N.leb_le; lia). cbn [bind].
      destruct (N.eq_dec s 0) as [Z | NZ].
      * subst s. replace (64 - 0) with 64 by reflexivity.
        rewrite srl64_64. rewrite !sll64_small by reflexivity.
        change (2 ^ 0) with 1. rewrite !N.mul_1_r. rewrite !N.mod_small by (nums; lia).
        rewrite u_add_df. rewrite N.add_0_r.
        replace (u <? 2 ^ 64) with true by (symmetry; apply N.ltb_lt; exact Hu). cbn [bind].
        rewrite split_mk by exact Hl. reflexivity.
      * rewrite srl64_small by lia. rewrite !sll64_small by lia.
        assert (K : 2 ^ 64 = 2 ^ s * 2 ^ (64 - s)) by (rewrite <- pow2_split; f_equal; lia).
        assert (P1 : 0 < 2 ^ s) by apply pow2_pos.
        assert (P2 : 0 < 2 ^ (64 - s)) by apply pow2_pos.
        replace (2 ^ 128) with (2 ^ 64 * 2 ^ 64) by reflexivity.
        rewrite u_add_df.
        remember (2 ^ s) as k. remember (2 ^ (64 - s)) as j. rewrite K in *.
        assert (B1 : (u * k) mod (k * j) = (u mod j) * k).
        { rewrite (N.mul_comm k j). rewrite N.mul_mod_distr_r by lia. reflexivity. }
        assert (B4 : (l * k) mod (k * j) = (l mod j) * k).
        { rewrite (N.mul_comm k j). rewrite N.mul_mod_distr_r by lia. reflexivity. }
        assert (B2 : l / j < k) by (apply N.div_lt_upper_bound; lia).
        assert (B3 : u mod j < j) by (apply N.mod_lt; lia).
        assert (B5 : l mod j < j) by (apply N.mod_lt; lia).
        rewrite B1, B4.
        replace ((u mod j) * k + l / j <? k * j) with true by (symmetry; apply N.ltb_lt; apply lt_combine; assumption).
        cbn [bind]. rewrite shl_arith by assumption.
        rewrite <- K. rewrite split_mk by (rewrite K; apply lt_scale; assumption). reflexivity.
Qed.

Lemma u128_rsh_full a s : wf a -> s < 2 ^ 64 ->
  u128_rsh df a s = Ret (split (val a / 2 ^ s)).
Proof.
  destruct a as [u l]. unfold wf, val; cbn [up lo fst snd]. intros [Hu Hl] Hs.
  unfold u128_rsh; cbn [up lo fst snd].
  destruct (128 <=? s) eqn:E1.
  - apply N.leb_le in E1.
    rewrite (div_pow2_big (u * 2 ^ 64 + l) 128 s); [reflexivity | nums; lia | exact E1].
  - apply N.leb_gt in E1. destruct (64 <=? s) eqn:E2.
    + apply N.leb_le in E2. rewrite u_sub_df by (assumption || reflexivity).
      replace (64 <=? s) with true by (symmetry; apply N.leb_le; exact E2). cbn [bind].
      rewrite srl64_small by lia.
      replace (2 ^ s) with (2 ^ 64 * 2 ^ (s - 64)) by (rewrite <- pow2_split; f_equal; lia).
      assert (P : 0 < 2 ^ (s - 64)) by apply pow2_pos.
      remember (2 ^ (s - 64)) as k.
      rewrite <- N.div_div by (discriminate || lia).
      rewrite div_mul_add by exact Hl.
      assert (Q : u / k < 2 ^ 64).
      { assert (u / k <= u); [|lia]. apply N.div_le_upper_bound; nia. }
      rewrite <- (N.add_0_l (u / k)). rewrite <- (N.mul_0_l (2 ^ 64)).
      rewrite split_mk by exact Q. reflexivity.
    + apply N.leb_gt in E2. rewrite u_sub_df by (assumption || reflexivity).
      replace (s <=? 64) with true by (symmetry; apply N.leb_le; lia). cbn [bind].
      destruct (N.eq_dec s 0) as [Z | NZ].
      * subst s. replace (64 - 0) with 64 by reflexivity.
        rewrite sll64_64. rewrite !srl64_small by reflexivity.
        change (2 ^ 0) with 1. rewrite !N.div_1_r.
        rewrite u_add_df. rewrite N.add_0_r.
        replace (l <? 2 ^ 64) with true by (symmetry; apply N.ltb_lt; exact Hl). cbn [bind].
        rewrite split_mk by exact Hl. reflexivity.
      * rewrite sll64_small by lia. rewrite !srl64_small by lia.
        assert (K : 2 ^ 64 = 2 ^ s * 2 ^ (64 - s)) by (rewrite <- pow2_split; f_equal; lia).
        assert (P1 : 0 < 2 ^ s) by apply pow2_pos.
        assert (P2 : 0 < 2 ^ (64 - s)) by apply pow2_pos.
        rewrite u_add_df.
        remember (2 ^ s) as k. remember (2 ^ (64 - s)) as j. rewrite K in *.
        assert (B1 : (u * j) mod (k * j) = (u mod k) * j).
        { rewrite N.mul_mod_distr_r by lia. reflexivity. }
        assert (B2 : l / k < j) by (apply N.div_lt_upper_bound; lia).
        assert (B3 : u mod k < k) by (apply N.mod_lt; lia).
        rewrite B1.
        replace (l / k + (u mod k) * j <? k * j) with true by (symmetry; apply N.ltb_lt; rewrite N.add_comm, (N.mul_comm k j); apply lt_combine; assumption).
        cbn [bind]. rewrite shr_arith by assumption.
        rewrite <- K. rewrite split_mk by (rewrite K, N.add_comm, (N.mul_comm k j); apply lt_combine; assumption). reflexivity.
Qed.

Lemma u128_lsh_correct a s : wf a -> s < 2 ^ 64 -> agrees (u128_lsh df a s) (S_shl (val a) s).
Proof.
  intros Ha Hs. rewrite u128_lsh_full by assumption. unfold S_shl, agrees.
  eexists. split; [reflexivity|]. split; [apply wf_split | apply val_split].
  apply N.mod_lt. discriminate.
Qed.

Lemma u128_rsh_correct a s : wf a -> s < 2 ^ 64 -> agrees (u128_rsh df a s) (S_shr (val a) s).
Proof.
  intros Ha Hs. rewrite u128_rsh_full by assumption. unfold S_shr, agrees.
  eexists. split; [reflexivity|]. split; [apply wf_split | apply val_split].
  pose proof (val_lt a Ha). assert (val a / 2 ^ s <= val a); [|lia].
  apply N.div_le_upper_bound. { pose proof (pow2_pos s). lia. }
  pose proof (pow2_pos s). nia.
Qed.
