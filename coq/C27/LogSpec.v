(* C27 — the known class of the `log` findings (u128_log_overestimate / u256_log_overestimate) as a decidable
   predicate: the first estimate floor(log2 x / log2 base) is too large for base^estimate to fit w bits. *)
From Coq Require Import NArith Bool.
Local Open Scope N_scope.

Definition log_known (w x base : N) : bool :=
  (2 <=? base) && (base <=? x) && (2 ^ w <=? base ^ (N.log2 x / N.log2 base)).
