(* C27 — property theorems only.  `df` = default $flag (both panics enabled), `val (u,l) = u*2^64+l`,
   `wf` = both limbs below 2^64, `agrees o s` = the model outcome o is a well-formed value equal to the
   reference value s, or reverts (RVRT or VM panic) when the reference is None. *)
From Coq Require Import NArith List.
From SwayV Require Import Vm.Alu C27.Model C27.Spec C27.CollSpec C27.Proofs.
Import ListNotations.
Local Open Scope N_scope.

Theorem C27_u128_add_correct : forall a b, wf a -> wf b ->
  agrees (u128_add default_flags a b) (if val a + val b <? 2 ^ 128 then Some (val a + val b) else None).
Proof. exact u128_add_correct. Qed.
Print Assumptions C27_u128_add_correct.

Theorem C27_u128_sub_correct : forall a b, wf a -> wf b ->
  agrees (u128_sub default_flags a b) (if val b <=? val a then Some (val a - val b) else None).
Proof. exact u128_sub_correct. Qed.
Print Assumptions C27_u128_sub_correct.

Theorem C27_u128_mul_correct : forall a b, wf a -> wf b ->
  agrees (u128_mul default_flags a b) (if val a * val b <? 2 ^ 128 then Some (val a * val b) else None).
Proof. exact u128_mul_correct. Qed.
Print Assumptions C27_u128_mul_correct.

(* fuel 128 is what `u128_div` uses: the loop never runs out *)
Theorem C27_u128_div_correct : forall a b, wf a -> wf b ->
  agrees (u128_div default_flags a b) (if val b =? 0 then None else Some (val a / val b)).
Proof. exact u128_div_correct. Qed.
Print Assumptions C27_u128_div_correct.

Theorem C27_u128_mod_correct : forall a b, wf a -> wf b ->
  agrees (u128_mod default_flags a b) (if val b =? 0 then None else Some (val a mod val b)).
Proof. exact u128_mod_correct. Qed.
Print Assumptions C27_u128_mod_correct.

Theorem C27_u128_shl_correct : forall a s, wf a -> s < 2 ^ 64 ->
  agrees (u128_lsh default_flags a s) (Some ((val a * 2 ^ s) mod 2 ^ 128)).
Proof. exact u128_lsh_correct. Qed.
Print Assumptions C27_u128_shl_correct.

Theorem C27_u128_shr_correct : forall a s, wf a -> s < 2 ^ 64 ->
  agrees (u128_rsh default_flags a s) (Some (val a / 2 ^ s)).
Proof. exact u128_rsh_correct. Qed.
Print Assumptions C27_u128_shr_correct.

Theorem C27_u128_not_correct : forall a, wf a ->
  wf (u128_not a) /\ val (u128_not a) = 2 ^ 128 - 1 - val a.
Proof. exact u128_not_correct. Qed.
Print Assumptions C27_u128_not_correct.

Theorem C27_u128_compare_correct : forall a b, wf a -> wf b ->
  u128_lt a b = (val a <? val b) /\ u128_gt a b = (val b <? val a) /\ u128_eq a b = (val a =? val b) /\
  u128_ge a b = (val b <=? val a) /\ u128_le a b = (val a <=? val b).
Proof.
  intros a b Ha Hb. repeat split.
  - apply u128_lt_spec; assumption.
  - apply u128_gt_spec; assumption.
  - apply u128_eq_spec; assumption.
  - apply u128_ge_spec; assumption.
  - apply u128_le_spec; assumption.
Qed.
Print Assumptions C27_u128_compare_correct.

(* Collections: running any operation sequence (push/pop/get/set/insert/remove/swap/clear/len/capacity/
   is_empty/last) on the buffer model from the empty Vec gives exactly the observations, the revert
   (FAILED_ASSERT_SIGNAL at the documented out-of-bounds set/insert/remove/swap, and no other revert or VM
   panic) and the final contents+capacity of the list reference.  2^62 bounds the number of operations so
   that the code's checked u64 arithmetic on len/cap cannot overflow. *)
Theorem C27_vec_refines_list : forall ops, N.of_nat (length ops) < 2 ^ 62 ->
  vrun ops vnew = lrun ops lnew.
Proof. exact vec_refines_list. Qed.
Print Assumptions C27_vec_refines_list.

Theorem C27_vec_invariant : forall ops, N.of_nat (length ops) < 2 ^ 62 ->
  Forall (fun v => len v <= cap v /\ length (buf v) = N.to_nat (cap v)) (vstates ops vnew).
Proof. exact vec_invariant. Qed.
Print Assumptions C27_vec_invariant.

(* Non-vacuity *)
Example C27_vec_example :
  vrun [VPush 5; VPush 6; VPush 7; VInsert 1 9; VCap; VRemove 0; VSwap 0 2; VPop; VSet 5 1] vnew =
  ([[]; []; []; []; [4]; [5]; []; [1; 9]], Rev FAILED_ASSERT_SIGNAL).
Proof. vm_compute. reflexivity. Qed.

Example C27_examples :
  u128_add default_flags (1, 18446744073709551615) (0, 1) = Ret (2, 0) /\
  u128_add default_flags (18446744073709551615, 18446744073709551615) (0, 1) = Rev FAILED_ASSERT_SIGNAL /\
  u128_div default_flags (18446744073709551615, 18446744073709551615) (9223372036854775808, 1) = Ret (0, 1) /\
  u128_mul default_flags (0, 18446744073709551615) (2, 0) = Vmp ArithmeticOverflow /\
  u128_mod default_flags (7, 5) (0, 0) = Rev FAILED_ASSERT_SIGNAL /\
  wf (1, 18446744073709551615).
Proof. vm_compute. repeat split. Qed.
