(* C27 — property theorems only.  `df` = default $flag (both panics enabled), `val (u,l) = u*2^64+l`,
   `wf` = both limbs below 2^64, `agrees o s` = the model outcome o is a well-formed value equal to the
   reference value s, or reverts (RVRT or VM panic) when the reference is None. *)
From Coq Require Import NArith List Bool.
From SwayV Require Import Vm.Alu C27.Model C27.Spec C27.CollSpec C27.LogSpec C27.Proofs.
Import ListNotations.
Local Open Scope N_scope.

Theorem C27_u128_add_correct : forall a b, wf a -> wf b ->
  agrees (u128_add default_flags a b) (if val a + val b <? 2 ^ 128 then Some (val a + val b) else None).
Proof. exact u128_add_correct. Qed.
Print Assumptions C27_u128_add_correct.

Theorem C27_u128_sub_correct : forall a b, wf a -> wf b ->
  agrees (u128_sub default_flags a b) (if val b <=? val a then Some (val a - val b) else None).
Proof. exact u128_sub_correct. Qed.
Print Assumptions C27_u128_sub_correct.

Theorem C27_u128_mul_correct : forall a b, wf a -> wf b ->
  agrees (u128_mul default_flags a b) (if val a * val b <? 2 ^ 128 then Some (val a * val b) else None).
Proof. exact u128_mul_correct. Qed.
Print Assumptions C27_u128_mul_correct.

(* fuel 128 is what `u128_div` uses: the loop never runs out *)
Theorem C27_u128_div_correct : forall a b, wf a -> wf b ->
  agrees (u128_div default_flags a b) (if val b =? 0 then None else Some (val a / val b)).
Proof. exact u128_div_correct. Qed.
Print Assumptions C27_u128_div_correct.

Theorem C27_u128_mod_correct : forall a b, wf a -> wf b ->
  agrees (u128_mod default_flags a b) (if val b =? 0 then None else Some (val a mod val b)).
Proof. exact u128_mod_correct. Qed.
Print Assumptions C27_u128_mod_correct.

Theorem C27_u128_shl_correct : forall a s, wf a -> s < 2 ^ 64 ->
  agrees (u128_lsh default_flags a s) (Some ((val a * 2 ^ s) mod 2 ^ 128)).
Proof. exact u128_lsh_correct. Qed.
Print Assumptions C27_u128_shl_correct.

Theorem C27_u128_shr_correct : forall a s, wf a -> s < 2 ^ 64 ->
  agrees (u128_rsh default_flags a s) (Some (val a / 2 ^ s)).
Proof. exact u128_rsh_correct. Qed.
Print Assumptions C27_u128_shr_correct.

Theorem C27_u128_not_correct : forall a, wf a ->
  wf (u128_not a) /\ val (u128_not a) = 2 ^ 128 - 1 - val a.
Proof. exact u128_not_correct. Qed.
Print Assumptions C27_u128_not_correct.

Theorem C27_u128_compare_correct : forall a b, wf a -> wf b ->
  u128_lt a b = (val a <? val b) /\ u128_gt a b = (val b <? val a) /\ u128_eq a b = (val a =? val b) /\
  u128_ge a b = (val b <=? val a) /\ u128_le a b = (val a <=? val b).
Proof.
  intros a b Ha Hb. repeat split.
  - apply u128_lt_spec; assumption.
  - apply u128_gt_spec; assumption.
  - apply u128_eq_spec; assumption.
  - apply u128_ge_spec; assumption.
  - apply u128_le_spec; assumption.
Qed.
Print Assumptions C27_u128_compare_correct.

(* Newton square root of U128 (u128.sw) and u256 (math.sw): the integer square root, never a revert or an
   overflow for n > 0.  `u128_sqrt` / `u256_sqrt` run the loop with fuel 200 / 400, proved sufficient (the
   distance to the root halves at every step).  U128::sqrt(0) reverts (explicit assert, pinned by the
   in-language tests). *)
Theorem C27_u128_sqrt_correct : forall a, wf a ->
  if val a =? 0 then u128_sqrt default_flags a = Rev FAILED_ASSERT_SIGNAL
  else exists r, u128_sqrt default_flags a = Ret r /\ wf r /\
                 val r * val r <= val a < (val r + 1) * (val r + 1).
Proof. exact u128_sqrt_correct. Qed.
Print Assumptions C27_u128_sqrt_correct.

Theorem C27_u256_sqrt_correct : forall n, n < 2 ^ 256 ->
  exists r, u256_sqrt default_flags n = Ret r /\ r * r <= n < (r + 1) * (r + 1).
Proof. exact u256_sqrt_correct. Qed.
Print Assumptions C27_u256_sqrt_correct.

(* u8..u64 sqrt is the MROO instruction, modelled by its integer meaning (not a statement about fuel-vm's
   float-based implementation, which is tied by the correspondence run only) *)
Theorem C27_sqrt_correct : forall a, exists r,
  sqrt_narrow default_flags a = Ret r /\ r * r <= a < (r + 1) * (r + 1).
Proof. exact sqrt_narrow_correct. Qed.
Print Assumptions C27_sqrt_correct.

(* U128::pow: base^exponent when it fits, otherwise a revert (revert(0) or the VM overflow panic inside
   u128_checked_mul).  `u128_pow` runs the loops with fuel 40, proved sufficient for every u32 exponent. *)
Theorem C27_u128_pow_correct : forall a e, wf a -> e < 2 ^ 32 ->
  match u128_pow default_flags a e with
  | Ret r => val a ^ e < 2 ^ 128 /\ r = split (val a ^ e)
  | Rev _ | Vmp _ => 2 ^ 128 <= val a ^ e
  | Oof => False
  end.
Proof. exact u128_pow_correct. Qed.
Print Assumptions C27_u128_pow_correct.

(* math.sw Power for u8/u16/u32/u64 (EXP + the `> Self::max()` check): a^e when it fits the width, else a
   revert (revert(0) or the VM overflow panic of EXP) *)
Theorem C27_pow_correct : forall w a e, w <= 64 -> a < 2 ^ w ->
  match pow_narrow w default_flags a e with
  | Ret r => a ^ e < 2 ^ w /\ r = a ^ e
  | Rev _ | Vmp _ => 2 ^ w <= a ^ e
  | Oof => False
  end.
Proof. exact pow_narrow_df. Qed.
Print Assumptions C27_pow_correct.

(* ops.sw: u8/u16/u32 + - * (64-bit instruction, then the range check) *)
Theorem C27_narrow_ops_correct : forall w a b, w <= 32 -> a < 2 ^ w -> b < 2 ^ w ->
  narrow_op w default_flags ADD a b = (if a + b <? 2 ^ w then Ret (a + b) else Rev 0) /\
  narrow_op w default_flags SUB a b = (if b <=? a then Ret (a - b) else Vmp ArithmeticOverflow) /\
  narrow_op w default_flags MUL a b = (if a * b <? 2 ^ w then Ret (a * b) else Rev 0).
Proof.
  intros w a b Hw Ha Hb. split; [|split].
  - apply narrow_add_df; assumption.
  - apply narrow_sub_df; assumption.
  - apply narrow_mul_df; assumption.
Qed.
Print Assumptions C27_narrow_ops_correct.

(* ops.sw wrapping_add / wrapping_sub / wrapping_mul for u8/u16/u32 (w <= 32) and u64: modular, never revert *)
Theorem C27_wrapping_ops_correct : forall w a b, w <= 32 -> a < 2 ^ w -> b < 2 ^ w ->
  wrapping_narrow w default_flags ADD a b = Ret ((a + b) mod 2 ^ w) /\
  wrapping_narrow w default_flags SUB a b = Ret ((2 ^ w + a - b) mod 2 ^ w) /\
  wrapping_narrow w default_flags MUL a b = Ret ((a * b) mod 2 ^ w).
Proof.
  intros w a b Hw Ha Hb. split; [|split].
  - apply wrapping_add_narrow; assumption.
  - apply wrapping_sub_narrow; assumption.
  - apply wrapping_mul_narrow; assumption.
Qed.
Print Assumptions C27_wrapping_ops_correct.

Theorem C27_wrapping_u64_correct : forall a b, a < 2 ^ 64 -> b < 2 ^ 64 ->
  wrapping_u64 default_flags ADD a b = Ret ((a + b) mod 2 ^ 64) /\
  wrapping_u64 default_flags SUB a b = Ret ((2 ^ 64 + a - b) mod 2 ^ 64) /\
  wrapping_u64 default_flags MUL a b = Ret ((a * b) mod 2 ^ 64).
Proof.
  intros a b Ha Hb. split; [|split].
  - apply wrapping_add_u64.
  - apply wrapping_sub_u64; assumption.
  - apply wrapping_mul_u64.
Qed.
Print Assumptions C27_wrapping_u64_correct.

(* u256 operators are the WQxx instructions: value when it fits / divisor non-zero, VM panic otherwise *)
Theorem C27_u256_ops_correct : forall a b,
  u256_add default_flags a b = (if a + b <? 2 ^ 256 then Ret (a + b) else Vmp ArithmeticOverflow) /\
  u256_sub default_flags a b = (if b <=? a then Ret (a - b) else Vmp ArithmeticOverflow) /\
  u256_mul default_flags a b = (if a * b <? 2 ^ 256 then Ret (a * b) else Vmp ArithmeticOverflow) /\
  u256_div default_flags a b = (if b =? 0 then Vmp ArithmeticError else Ret (a / b)) /\
  u256_mod default_flags a b = (if b =? 0 then Vmp ArithmeticError else Ret (a mod b)).
Proof.
  intros a b. repeat split.
  - apply u256_add_df.
  - apply u256_sub_df.
  - apply u256_mul_df.
  - apply u256_div_df.
  - apply u256_mod_df.
Qed.
Print Assumptions C27_u256_ops_correct.

(* U128 + - * after disable_panic_on_overflow() (F_WRAPPING set, unsafe-math panics still on): modular results;
   the only revert left is multiply's assert that one upper limb is zero (it is guarded by the unsafe-math flag) *)
Theorem C27_u128_wrapping_correct : forall a b, wf a -> wf b ->
  u128_add (wrap_on default_flags) a b = Ret (split ((val a + val b) mod 2 ^ 128)) /\
  u128_sub (wrap_on default_flags) a b = Ret (split ((2 ^ 128 + val a - val b) mod 2 ^ 128)) /\
  u128_mul (wrap_on default_flags) a b =
    (if negb (up a =? 0) && negb (up b =? 0) then Rev FAILED_ASSERT_SIGNAL
     else Ret (split ((val a * val b) mod 2 ^ 128))).
Proof.
  intros a b Ha Hb. split; [apply u128_add_wrapping; assumption | split; [apply u128_sub_wrapping; assumption | apply u128_mul_wrapping; assumption]].
Qed.
Print Assumptions C27_u128_wrapping_correct.

(* u256 << >> (WQOP shl/shr: bits fall off, never a panic) and wrapping_add/sub/mul (F_WRAPPING set): modular *)
Theorem C27_u256_shifts_correct : forall a s, a < 2 ^ 256 ->
  u256_lsh default_flags a s = Ret ((a * 2 ^ s) mod 2 ^ 256) /\
  u256_rsh default_flags a s = Ret (a / 2 ^ s).
Proof. intros a s Ha. split; [apply u256_lsh_df | apply u256_rsh_df; exact Ha]. Qed.
Print Assumptions C27_u256_shifts_correct.

Theorem C27_u256_wrapping_correct : forall a b, a < 2 ^ 256 -> b < 2 ^ 256 ->
  u256_add (wrap_on default_flags) a b = Ret ((a + b) mod 2 ^ 256) /\
  u256_sub (wrap_on default_flags) a b = Ret ((2 ^ 256 + a - b) mod 2 ^ 256) /\
  u256_mul (wrap_on default_flags) a b = Ret ((a * b) mod 2 ^ 256).
Proof.
  intros a b Ha Hb. split; [apply u256_wrapping_add | split; [apply u256_wrapping_sub; assumption | apply u256_wrapping_mul]].
Qed.
Print Assumptions C27_u256_wrapping_correct.

(* math.sw Power for u256 (`u256_pow` runs the loop with fuel 40, proved sufficient for a u32 exponent) *)
Theorem C27_u256_pow_correct : forall a e, e < 2 ^ 32 ->
  match u256_pow default_flags a e with
  | Ret r => a ^ e < 2 ^ 256 /\ r = a ^ e
  | Rev _ | Vmp _ => 2 ^ 256 <= a ^ e
  | Oof => False
  end.
Proof. exact u256_pow_full. Qed.
Print Assumptions C27_u256_pow_correct.

Theorem C27_u256_log2_correct : forall a, a < 2 ^ 256 ->
  if a =? 0 then u256_log2 default_flags a = Rev FAILED_ASSERT_SIGNAL
  else exists r, u256_log2 default_flags a = Ret r /\ 2 ^ r <= a < 2 ^ (r + 1).
Proof. exact u256_log2_correct. Qed.
Print Assumptions C27_u256_log2_correct.

Theorem C27_u128_log2_correct : forall a, wf a ->
  if val a =? 0 then u128_log2 default_flags a = Rev FAILED_ASSERT_SIGNAL
  else exists r, u128_log2 default_flags a = Ret r /\ wf r /\
                 2 ^ val r <= val a < 2 ^ (val r + 1).
Proof. exact u128_log2_correct. Qed.
Print Assumptions C27_u128_log2_correct.

(* u8..u64 log / log2 = MLOG (integer meaning): floor logarithm, VM panic for x = 0 or base < 2 *)
Theorem C27_log_correct : forall x b, x < 2 ^ 64 ->
  if (x =? 0) || (b <? 2) then reverts (log_narrow default_flags x b)
  else exists r, log_narrow default_flags x b = Ret r /\ b ^ r <= x < b ^ (r + 1).
Proof. exact log_narrow_correct. Qed.
Print Assumptions C27_log_correct.

(* U128::log / u256::log.  The full statement
     forall a b, wf a -> wf b -> 2 <= val b -> 1 <= val a ->
       exists r, u128_log default_flags a b = Ret r /\ val b ^ val r <= val a < val b ^ (val r + 1)
   is violated by the faithful model (findings u128_log_overestimate / u256_log_overestimate).  The known class
   is the decidable predicate LogSpec.log_known w x b (a bool): 2 <= b <= x and b ^ (log2 x / log2 b) >= 2^w, i.e.
   the first estimate does not fit.  Outside it `log` is the floor logarithm (all of its arithmetic runs with
   F_WRAPPING set); inside it the witnesses below refute the statement (replayed on fuel-vm by the corpus of
   props/c27.py). *)
Theorem C27_u128_log_correct : forall a b, wf a -> wf b -> 2 <= val b -> 1 <= val a ->
  log_known 128 (val a) (val b) = false ->
  exists r, u128_log default_flags a b = Ret r /\ wf r /\
            val b ^ val r <= val a < val b ^ (val r + 1).
Proof. exact u128_log_correct. Qed.
Print Assumptions C27_u128_log_correct.

Theorem C27_u256_log_correct : forall a b, a < 2 ^ 256 -> b < 2 ^ 256 -> 2 <= b -> 1 <= a ->
  log_known 256 a b = false ->
  exists r, u256_log default_flags a b = Ret r /\ b ^ r <= a < b ^ (r + 1).
Proof. exact u256_log_correct. Qed.
Print Assumptions C27_u256_log_correct.

Theorem C27_u128_log_refuted : exists a b, wf a /\ wf b /\ 2 <= val b /\ 1 <= val a /\
  log_known 128 (val a) (val b) = true /\ exists r, u128_log default_flags a b = Ret r /\ ~ (val b ^ val r <= val a).
Proof.
  exists (9223372036854775808, 0), (0, 3).
  split; [split; vm_compute; reflexivity|]. split; [split; vm_compute; reflexivity|].
  split; [vm_compute; congruence|]. split; [vm_compute; congruence|]. split; [vm_compute; reflexivity|].
  exists (0, 127). split; [vm_compute; reflexivity|]. vm_compute. congruence.
Qed.
Print Assumptions C27_u128_log_refuted.

Theorem C27_u256_log_refuted : exists a b, a < 2 ^ 256 /\ 2 <= b /\ 1 <= a /\
  log_known 256 a b = true /\ exists r, u256_log default_flags a b = Ret r /\ ~ (b ^ r <= a).
Proof.
  exists (2 ^ 255), 3.
  split; [vm_compute; reflexivity|]. split; [vm_compute; congruence|]. split; [vm_compute; congruence|].
  split; [vm_compute; reflexivity|].
  exists 255. split; [vm_compute; reflexivity|]. vm_compute. congruence.
Qed.
Print Assumptions C27_u256_log_refuted.

(* Collections: running any operation sequence (push/pop/get/set/insert/remove/swap/clear/len/capacity/
   is_empty/last) on the buffer model from the empty Vec gives exactly the observations, the revert
   (FAILED_ASSERT_SIGNAL at the documented out-of-bounds set/insert/remove/swap, and no other revert or VM
   panic) and the final contents+capacity of the list reference.  2^62 bounds the number of operations so
   that the code's checked u64 arithmetic on len/cap cannot overflow. *)
Theorem C27_vec_refines_list : forall ops, N.of_nat (length ops) < 2 ^ 62 ->
  vrun ops vnew = lrun ops lnew.
Proof. exact vec_refines_list. Qed.
Print Assumptions C27_vec_refines_list.

Theorem C27_vec_invariant : forall ops, N.of_nat (length ops) < 2 ^ 62 ->
  Forall (fun v => len v <= cap v /\ length (buf v) = N.to_nat (cap v)) (vstates ops vnew).
Proof. exact vec_invariant. Qed.
Print Assumptions C27_vec_invariant.

(* Bytes / String: the shared operations (CV o) plus Bytes::resize, Bytes::append (of a Bytes built by pushes; its
   len/capacity observed), Bytes::split_at (both halves observed) and String::from_ascii + len/capacity/is_empty/
   as_bytes (two clones) on the aliasing-free buffer model give exactly the observations, the documented
   reverts (out-of-bounds set/insert/remove/swap, split_at beyond len) and no others, and the final
   len/capacity/contents of the list reference.  `cweights` (1 per operation, + the new length of a resize, + the
   length of an appended Bytes) below 2^62 keeps the code's checked u64 len/cap arithmetic from overflowing. *)
Theorem C27_bytes_refines_list : forall ops, cweights ops < 2 ^ 62 -> crun ops vnew = clrun ops lnew.
Proof. exact bytes_refines_list. Qed.
Print Assumptions C27_bytes_refines_list.

(* Non-vacuity *)
Example C27_bytes_example :
  crun [CV (VPush 1); CV (VPush 2); CV (VPush 3); CSplitAt 1; CAppend [7; 8]; CResize 7 9; CString; CSplitAt 8] vnew =
  ([1; 1; 1; 2; 2; 2; 3; 2; 2; 7; 7; 0; 1; 2; 3; 7; 8; 9; 9], Rev FAILED_ASSERT_SIGNAL).
Proof. vm_compute. reflexivity. Qed.

Example C27_vec_example :
  vrun [VPush 5; VPush 6; VPush 7; VInsert 1 9; VCap; VRemove 0; VSwap 0 2; VPop; VSet 5 1] vnew =
  ([[]; []; []; []; [4]; [5]; []; [1; 9]], Rev FAILED_ASSERT_SIGNAL).
Proof. vm_compute. reflexivity. Qed.

Example C27_examples :
  u128_add default_flags (1, 18446744073709551615) (0, 1) = Ret (2, 0) /\
  u128_add default_flags (18446744073709551615, 18446744073709551615) (0, 1) = Rev FAILED_ASSERT_SIGNAL /\
  u128_div default_flags (18446744073709551615, 18446744073709551615) (9223372036854775808, 1) = Ret (0, 1) /\
  u128_mul default_flags (0, 18446744073709551615) (2, 0) = Vmp ArithmeticOverflow /\
  u128_mod default_flags (7, 5) (0, 0) = Rev FAILED_ASSERT_SIGNAL /\
  wf (1, 18446744073709551615).
Proof. vm_compute. repeat split. Qed.
