(* C27 — judgement of what the generated forc unit tests did, against the model (M) and the
   reference semantics (S).  Result codes:
     0  implementation = model and the reference accepts it
     1  reference accepts the implementation but the model predicted something else (correspondence)
     2  VIOLATION: the reference rejects what the implementation did
     5  reference rejects, implementation = model, and the input is in the known class
        (log estimate whose power overflows; see KNOWN_FINDINGS u128_log_overestimate / u256_log_overestimate)
     7  model ran out of fuel *)
From Coq Require Import NArith List Bool.
From SwayV Require Import Vm.Alu C27.NumModel C27.CollModel C27.Spec C27.CollSpec C27.LogSpec.
Import ListNotations.
Local Open Scope N_scope.

Fixpoint list_eqb (a b : list N) : bool :=
  match a, b with
  | [], [] => true
  | x :: a', y :: b' => N.eqb x y && list_eqb a' b'
  | _, _ => false
  end.

(* ------------------------------------------------------------------------------- numeric *)
Inductive numop :=
(* U128; operands as limbs *)
| QAdd | QSub | QMul | QDiv | QMod | QShl | QShr | QNot | QLt | QGt | QEq | QAnd | QOr
| QPow | QSqrt | QLog2 | QLog
(* u8/u16/u32/u64: first argument is the width *)
| WAdd | WSub | WMul | WPow | WSqrt | WLog | WLog2 | WWrapAdd | WWrapSub | WWrapMul
(* u256 *)
| YAdd | YSub | YMul | YDiv | YMod | YShl | YShr | YPow | YSqrt | YLog2 | YLog
| YWrapAdd | YWrapSub | YWrapMul.

Definition r128 (o : out U128) : out (list N) := let* r := o in Ret [up r; lo r].
Definition r1 (o : out N) : out (list N) := let* r := o in Ret [r].
Definition rb (b : bool) : out (list N) := Ret [N.b2n b].

Definition BAD : out (list N) := Oof.

Definition model_num (op : numop) (args : list N) : out (list N) :=
  match op, args with
  | QAdd, [a; b; c; d] => r128 (u128_add df (a, b) (c, d))
  | QSub, [a; b; c; d] => r128 (u128_sub df (a, b) (c, d))
  | QMul, [a; b; c; d] => r128 (u128_mul df (a, b) (c, d))
  | QDiv, [a; b; c; d] => r128 (u128_div df (a, b) (c, d))
  | QMod, [a; b; c; d] => r128 (u128_mod df (a, b) (c, d))
  | QShl, [a; b; s] => r128 (u128_lsh df (a, b) s)
  | QShr, [a; b; s] => r128 (u128_rsh df (a, b) s)
  | QNot, [a; b] => r128 (Ret (u128_not (a, b)))
  | QLt, [a; b; c; d] => rb (u128_lt (a, b) (c, d))
  | QGt, [a; b; c; d] => rb (u128_gt (a, b) (c, d))
  | QEq, [a; b; c; d] => rb (u128_eq (a, b) (c, d))
  | QAnd, [a; b; c; d] => r128 (Ret (u128_and (a, b) (c, d)))
  | QOr, [a; b; c; d] => r128 (Ret (u128_or (a, b) (c, d)))
  | QPow, [a; b; e] => r128 (u128_pow df (a, b) e)
  | QSqrt, [a; b] => r128 (u128_sqrt df (a, b))
  | QLog2, [a; b] => r128 (u128_log2 df (a, b))
  | QLog, [a; b; c; d] => r128 (u128_log df (a, b) (c, d))
  | WAdd, [w; a; b] => r1 (if w =? 64 then u_add df a b else narrow_op w df ADD a b)
  | WSub, [w; a; b] => r1 (if w =? 64 then u_sub df a b else narrow_op w df SUB a b)
  | WMul, [w; a; b] => r1 (if w =? 64 then u_mul df a b else narrow_op w df MUL a b)
  | WPow, [w; a; e] => r1 (pow_narrow w df a e)
  | WSqrt, [w; a] => r1 (sqrt_narrow df a)
  | WLog, [w; a; b] => r1 (log_narrow df a b)
  | WLog2, [w; a] => r1 (log2_narrow df a)
  | WWrapAdd, [w; a; b] => r1 (if w =? 64 then wrapping_u64 df ADD a b else wrapping_narrow w df ADD a b)
  | WWrapSub, [w; a; b] => r1 (if w =? 64 then wrapping_u64 df SUB a b else wrapping_narrow w df SUB a b)
  | WWrapMul, [w; a; b] => r1 (if w =? 64 then wrapping_u64 df MUL a b else wrapping_narrow w df MUL a b)
  | YAdd, [a; b] => r1 (u256_add df a b)
  | YSub, [a; b] => r1 (u256_sub df a b)
  | YMul, [a; b] => r1 (u256_mul df a b)
  | YDiv, [a; b] => r1 (u256_div df a b)
  | YMod, [a; b] => r1 (u256_mod df a b)
  | YShl, [a; s] => r1 (u256_lsh df a s)
  | YShr, [a; s] => r1 (u256_rsh df a s)
  | YPow, [a; e] => r1 (u256_pow df a e)
  | YSqrt, [a] => r1 (u256_sqrt df a)
  | YLog2, [a] => r1 (u256_log2 df a)
  | YLog, [a; b] => r1 (u256_log df a b)
  | YWrapAdd, [a; b] => r1 (u256_add (wrap_on df) a b)
  | YWrapSub, [a; b] => r1 (u256_sub (wrap_on df) a b)
  | YWrapMul, [a; b] => r1 (u256_mul (wrap_on df) a b)
  | _, _ => BAD
  end.

(* reference result: a value, a required revert, or a predicate on the logged value *)
Inductive sres := SV (v : list N) | SR | SP (p : list N -> bool) | SBad.

Definition v128 (a b : N) : N := a * 2 ^ 64 + b.
Definition s128 (o : option N) : sres :=
  match o with Some v => SV [v / 2 ^ 64; v mod 2 ^ 64] | None => SR end.
Definition s1 (o : option N) : sres := match o with Some v => SV [v] | None => SR end.
Definition p128 (p : N -> bool) : sres :=
  SP (fun l => match l with [u; l0] => (u <? 2 ^ 64) && (l0 <? 2 ^ 64) && p (v128 u l0) | _ => false end).
Definition p1 (p : N -> bool) : sres := SP (fun l => match l with [x] => p x | _ => false end).

(* computable forms of the shift references (2^s is not evaluated for huge s; equal to S_shl/S_shr since
   (x * 2^s) mod 2^w = 0 and x / 2^s = 0 for s >= w, x < 2^w) and a guarded logarithm oracle *)
Definition shl_c (w x s : N) : N := if w <=? s then 0 else (x * 2 ^ s) mod 2 ^ w.
Definition shr_c (w x s : N) : N := if w <=? s then 0 else x / 2 ^ s.
Definition is_logc (b n r : N) : bool := (r <=? 256) && is_logb b n r.

Definition spec_num (op : numop) (args : list N) : sres :=
  match op, args with
  | QAdd, [a; b; c; d] => s128 (S_add (v128 a b) (v128 c d))
  | QSub, [a; b; c; d] => s128 (S_sub (v128 a b) (v128 c d))
  | QMul, [a; b; c; d] => s128 (S_mul (v128 a b) (v128 c d))
  | QDiv, [a; b; c; d] => s128 (S_div (v128 a b) (v128 c d))
  | QMod, [a; b; c; d] => s128 (S_mod (v128 a b) (v128 c d))
  | QShl, [a; b; s] => s128 (Some (shl_c 128 (v128 a b) s))
  | QShr, [a; b; s] => s128 (Some (shr_c 128 (v128 a b) s))
  | QNot, [a; b] => s128 (S_not (v128 a b))
  | QLt, [a; b; c; d] => SV [N.b2n (v128 a b <? v128 c d)]
  | QGt, [a; b; c; d] => SV [N.b2n (v128 c d <? v128 a b)]
  | QEq, [a; b; c; d] => SV [N.b2n (v128 a b =? v128 c d)]
  | QAnd, [a; b; c; d] => s128 (Some (N.land (v128 a b) (v128 c d)))
  | QOr, [a; b; c; d] => s128 (Some (N.lor (v128 a b) (v128 c d)))
  | QPow, [a; b; e] => s128 (S_pow (v128 a b) e)
  | QSqrt, [a; b] => if v128 a b =? 0 then SR else p128 (is_sqrtb (v128 a b))
  | QLog2, [a; b] => if v128 a b =? 0 then SR else p128 (is_logc 2 (v128 a b))
  | QLog, [a; b; c; d] => if (v128 a b =? 0) || (v128 c d <? 2) then SR
                          else p128 (is_logc (v128 c d) (v128 a b))
  | WAdd, [w; a; b] => s1 (S_addw w a b)
  | WSub, [w; a; b] => s1 (S_subw a b)
  | WMul, [w; a; b] => s1 (S_mulw w a b)
  | WPow, [w; a; e] => s1 (S_poww w a e)
  | WSqrt, [w; a] => p1 (is_sqrtb a)
  | WLog, [w; a; b] => if (a =? 0) || (b <? 2) then SR else p1 (is_logc b a)
  | WLog2, [w; a] => if a =? 0 then SR else p1 (is_logc 2 a)
  | WWrapAdd, [w; a; b] => SV [S_wrap_add w a b]
  | WWrapSub, [w; a; b] => SV [S_wrap_sub w a b]
  | WWrapMul, [w; a; b] => SV [S_wrap_mul w a b]
  | YAdd, [a; b] => s1 (S_addw 256 a b)
  | YSub, [a; b] => s1 (S_subw a b)
  | YMul, [a; b] => s1 (S_mulw 256 a b)
  | YDiv, [a; b] => s1 (S_div a b)
  | YMod, [a; b] => s1 (S_mod a b)
  | YShl, [a; s] => SV [shl_c 256 a s]
  | YShr, [a; s] => SV [shr_c 256 a s]
  | YPow, [a; e] => s1 (S_poww 256 a e)
  | YSqrt, [a] => p1 (is_sqrtb a)
  | YLog2, [a] => if a =? 0 then SR else p1 (is_logc 2 a)
  | YLog, [a; b] => if (a =? 0) || (b <? 2) then SR else p1 (is_logc b a)
  | YWrapAdd, [a; b] => SV [S_wrap_add 256 a b]
  | YWrapSub, [a; b] => SV [S_wrap_sub 256 a b]
  | YWrapMul, [a; b] => SV [S_wrap_mul 256 a b]
  | _, _ => SBad
  end.

(* Known class (finding): `log` keeps its first estimate floor(log2 x / log2 b) when b^estimate does
   not fit the type, because the overflow of `pow` is not observed. *)
Definition known_num (op : numop) (args : list N) : bool :=
  match op, args with
  | QLog, [a; b; c; d] => log_known 128 (v128 a b) (v128 c d)
  | YLog, [x; base] => log_known 256 x base
  | _, _ => false
  end.

(* observed: reverted?, revert code, logged values *)
Definition same_as_model (m : out (list N)) (reverted : bool) (code : N) (logs : list N) : bool :=
  match m with
  | Ret v => negb reverted && list_eqb logs v
  | Rev c => reverted && (code =? c)
  | Vmp _ => reverted && (code =? 0)
  | Oof => false
  end.

Definition accepted (s : sres) (reverted : bool) (logs : list N) : bool :=
  match s with
  | SV v => negb reverted && list_eqb logs v
  | SR => reverted
  | SP p => negb reverted && p logs
  | SBad => false
  end.

Definition verdict (m_same acc known is_oof : bool) : N :=
  if acc then (if m_same then 0 else if is_oof then 7 else 1)
  else if known && m_same then 5 else 2.

Definition is_oof {A} (o : out A) : bool := match o with Oof => true | _ => false end.

Definition judge_num (op : numop) (args : list N) (reverted : bool) (code : N) (logs : list N) : N :=
  let m := model_num op args in
  verdict (same_as_model m reverted code logs) (accepted (spec_num op args) reverted logs)
          (known_num op args) (is_oof m).

(* --------------------------------------------------------------------------- collections *)
(* cop / cstep / crun: CollModel; clstep / clrun: CollSpec *)
Definition fin_same (f : out unit) (reverted : bool) (code : N) : bool :=
  match f with
  | Ret _ => negb reverted
  | Rev c => reverted && (code =? c)
  | Vmp _ => reverted && (code =? 0)
  | Oof => false
  end.

Definition judge_coll (ops : list cop) (reverted : bool) (code : N) (logs : list N) : N :=
  let '(mo, mf) := crun ops vnew in
  let '(so, sf) := clrun ops lnew in
  verdict (fin_same mf reverted code && list_eqb logs mo)
          (fin_same sf reverted code && list_eqb logs so) false (is_oof mf).
