(* C27 — all proofs. *)
From SwayV Require Export C27.NumProofs C27.DivProofs C27.SqrtProofs C27.LogProofs C27.PowProofs C27.NarrowProofs
  C27.U256Proofs C27.WrapProofs C27.LogFullProofs C27.CollProofs C27.BytesProofs.
