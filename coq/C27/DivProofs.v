(* C27 — proofs for U128 divide / modulo (shift-subtract loop, fuel 128 suffices). *)
From Coq Require Import NArith ZArith List Bool Lia ZifyBool ZifyN Ring.
From SwayV Require Import Vm.Alu Vm.AluProofs C27.NumModel C27.Spec C27.NumProofs.
Local Open Scope N_scope.
Arguments N.add : simpl never.
Arguments N.sub : simpl never.
Arguments N.mul : simpl never.
Arguments N.div : simpl never.
Arguments N.modulo : simpl never.
Arguments N.pow : simpl never.
Arguments N.eqb : simpl never.
Arguments N.ltb : simpl never.
Arguments N.leb : simpl never.
Arguments N.lor : simpl never.
Arguments N.land : simpl never.

Notation df := default_flags.

(* ---- bit facts *)
Lemma land_1 y : N.land y 1 = y mod 2.
Proof. change 1 with (N.ones 1) at 1. rewrite N.land_ones. reflexivity. Qed.

Lemma lor_even x b : x mod 2 = 0 -> b < 2 -> N.lor x b = x + b.
Proof.
  intros Hx Hb.
  assert (E : x = 2 * (x / 2)).
  { pose proof (N.div_mod x 2). lia. }
  remember (x / 2) as m. rewrite E. clear E Heqm Hx x.
  assert (Cb : b = 0 \/ b = 1) by lia. destruct Cb as [-> | ->].
  - rewrite N.lor_0_r. lia.
  - destruct m as [| p]; reflexivity.
Qed.

Lemma val_mod2 a : val a mod 2 = lo a mod 2.
Proof.
  unfold val. replace (up a * 2 ^ 64) with (up a * 2 ^ 63 * 2) by (change (2 ^ 64) with (2 ^ 63 * 2); ring).
  rewrite N.add_comm. apply N.mod_add. discriminate.
Qed.

Lemma lo_split x : lo (split x) = x mod 2 ^ 64. Proof. reflexivity. Qed.

Lemma mod2_mod64 x : (x mod 2 ^ 64) mod 2 = x mod 2.
Proof.
  change (2 ^ 64) with 18446744073709551616.
  pose proof (N.div_mod x 18446744073709551616 ltac:(discriminate)) as E1.
  pose proof (N.mod_lt x 18446744073709551616 ltac:(discriminate)) as L1.
  remember (x mod 18446744073709551616) as r. remember (x / 18446744073709551616) as q.
  pose proof (N.div_mod r 2 ltac:(discriminate)) as E2.
  pose proof (N.mod_lt r 2 ltac:(discriminate)) as L2.
  apply (N.mod_unique _ _ (9223372036854775808 * q + r / 2)); [exact L2 | lia].
Qed.

(* OR-ing a bit into an even value *)
Lemma set_bit0 a b : wf a -> val a mod 2 = 0 -> b < 2 ->
  wf (up a, N.lor (lo a) b) /\ val (up a, N.lor (lo a) b) = val a + b.
Proof.
  intros [Hu Hl] He Hb. rewrite val_mod2 in He. rewrite lor_even by assumption.
  unfold wf, val; cbn [up lo fst snd]. repeat split; try assumption; try lia.
Qed.

Lemma lsh1 a : wf a -> val a < 2 ^ 127 -> u128_lsh df a 1 = Ret (split (2 * val a)).
Proof.
  intros Ha Hv. rewrite u128_lsh_full by (assumption || reflexivity).
  change (2 ^ 1) with 2. rewrite N.mod_small. { rewrite N.mul_comm. reflexivity. }
  change (2 ^ 128) with (2 ^ 127 * 2). lia.
Qed.

(* ---- one step of long division, on numbers *)
Lemma div_step_arith t d b : 0 < d -> b < 2 ->
  let r2 := 2 * (t mod d) + b in
  (d <= r2 -> (2 * t + b) / d = 2 * (t / d) + 1 /\ (2 * t + b) mod d = r2 - d) /\
  (r2 < d -> (2 * t + b) / d = 2 * (t / d) /\ (2 * t + b) mod d = r2).
Proof.
  intros Hd Hb r2.
  assert (E : t = d * (t / d) + t mod d) by (apply N.div_mod; lia).
  assert (L : t mod d < d) by (apply N.mod_lt; lia).
  subst r2. remember (t / d) as tq. remember (t mod d) as tr. clear Heqtq Heqtr.
  split; intros H.
  - assert (X : 2 * t + b = d * (2 * tq + 1) + (2 * tr + b - d)).
    { rewrite E. replace (d * (2 * tq + 1)) with (2 * (d * tq) + d) by ring. lia. }
    split.
    + symmetry. apply (N.div_unique _ _ _ (2 * tr + b - d)); [lia | exact X].
    + symmetry. apply (N.mod_unique _ _ (2 * tq + 1)); [lia | exact X].
  - assert (X : 2 * t + b = d * (2 * tq) + (2 * tr + b)).
    { rewrite E. replace (d * (2 * tq)) with (2 * (d * tq)) by ring. lia. }
    split.
    + symmetry. apply (N.div_unique _ _ _ (2 * tr + b)); [lia | exact X].
    + symmetry. apply (N.mod_unique _ _ (2 * tq)); [lia | exact X].
Qed.

Lemma shift_succ n i : n / 2 ^ i = 2 * (n / 2 ^ (i + 1)) + (n / 2 ^ i) mod 2.
Proof.
  rewrite N.pow_add_r. change (2 ^ 1) with 2.
  rewrite <- N.div_div by (try discriminate; pose proof (pow2_pos i); lia).
  apply N.div_mod. discriminate.
Qed.

Lemma top_bits_lt n i : n < 2 ^ 128 -> n / 2 ^ (i + 1) < 2 ^ 127.
Proof.
  intros H. apply N.div_lt_upper_bound. { pose proof (pow2_pos (i + 1)). lia. }
  rewrite N.pow_add_r. change (2 ^ 1) with 2. pose proof (pow2_pos i).
  change (2 ^ 128) with (2 * 2 ^ 127) in H. nia.
Qed.

Lemma div_le_self a b : 0 < b -> a / b <= a.
Proof. intros H. apply N.div_le_upper_bound; nia. Qed.

Lemma even_double x : (2 * x) mod 2 = 0.
Proof. rewrite N.mul_comm. apply N.mod_mul. discriminate. Qed.

(* ---- the loop *)
Lemma div_loop_correct : forall fuel i self divisor q r,
  wf self -> wf divisor -> wf q -> wf r -> 0 < val divisor -> i < 128 ->
  (N.to_nat i < fuel)%nat ->
  val q = (val self / 2 ^ (i + 1)) / val divisor ->
  val r = (val self / 2 ^ (i + 1)) mod val divisor ->
  div_loop df fuel self divisor q r i = Ret (split (val self / val divisor)).
Proof.
  induction fuel as [| fuel IH]; intros i self divisor q r Hs Hd Hq Hr Hpos Hi Hf Eq Er.
  - lia.
  - pose proof (val_lt self Hs) as Ln.
    remember (val self) as n. remember (val divisor) as d.
    remember (n / 2 ^ (i + 1)) as t.
    assert (Lt : t < 2 ^ 127) by (subst t; apply top_bits_lt; exact Ln).
    assert (Lq : val q < 2 ^ 127) by (rewrite Eq; pose proof (div_le_self t d Hpos); lia).
    assert (Lr : val r < 2 ^ 127).
    { rewrite Er. pose proof (N.mod_le t d). lia. }
    cbn [div_loop].
    rewrite (lsh1 q Hq Lq). cbn [bind].
    rewrite (lsh1 r Hr Lr). cbn [bind].
    rewrite u128_rsh_full by (try assumption; change (2 ^ 64) with 18446744073709551616; lia).
    cbn [bind]. rewrite <- Heqn.
    rewrite (lo_split (n / 2 ^ i)), land_1, mod2_mod64.
    remember ((n / 2 ^ i) mod 2) as b.
    assert (Hb : b < 2) by (subst b; apply N.mod_lt; discriminate).
    assert (W1 : wf (split (2 * val q))) by (apply wf_split; change (2 ^ 128) with (2 * 2 ^ 127); lia).
    assert (W2 : wf (split (2 * val r))) by (apply wf_split; change (2 ^ 128) with (2 * 2 ^ 127); lia).
    destruct (set_bit0 (split (2 * val r)) b W2) as [Wr2 Vr2]; [rewrite val_split; apply even_double | exact Hb |].
    rewrite val_split in Vr2.
    destruct (set_bit0 (split (2 * val q)) 1 W1) as [Wq3 Vq3]; [rewrite val_split; apply even_double | reflexivity |].
    rewrite val_split in Vq3.
    remember (up (split (2 * val r)), N.lor (lo (split (2 * val r))) b) as r2.
    remember (up (split (2 * val q)), N.lor (lo (split (2 * val q))) 1) as q3.
    rewrite u128_ge_spec by assumption. rewrite <- Heqd, Vr2.
    assert (T' : n / 2 ^ i = 2 * t + b) by (subst t b; apply shift_succ).
    destruct (div_step_arith t d b Hpos Hb) as [Cge Clt]. cbn zeta in Cge, Clt. rewrite <- Er in Cge, Clt.
    destruct (d <=? 2 * val r + b) eqn:E.
    + apply N.leb_le in E. destruct (Cge E) as [Dq Dr].
      rewrite u128_sub_full by assumption. rewrite <- Heqd, Vr2.
      replace (d <=? 2 * val r + b) with true by (symmetry; apply N.leb_le; exact E).
      cbn [bind fst snd].
      destruct (i =? 0) eqn:Ei.
      * apply N.eqb_eq in Ei. subst i. change (2 ^ 0) with 1 in T'. rewrite N.div_1_r in T'.
        assert (V : val q3 = n / d) by (rewrite Vq3, T', Dq, Eq; reflexivity).
        rewrite <- V. rewrite split_val by exact Wq3. reflexivity.
      * apply N.eqb_neq in Ei. rewrite u_sub_df by (change (2 ^ 64) with 18446744073709551616; lia).
        replace (1 <=? i) with true by (symmetry; apply N.leb_le; lia). cbn [bind].
        rewrite (IH (i - 1) self divisor q3 (split (2 * val r + b - d))); try assumption.
        -- rewrite <- Heqn, <- Heqd. reflexivity.
        -- apply wf_split. change (2 ^ 128) with (2 * 2 ^ 127). clear - Lr E Hb. lia.
        -- rewrite <- Heqd. exact Hpos.
        -- clear - Hi Ei; lia.
        -- clear - Hf Ei; lia.
        -- rewrite <- Heqn, <- Heqd. replace (i - 1 + 1) with i by (clear - Ei; lia). rewrite T', Vq3, Dq, Eq. reflexivity.
        -- rewrite <- Heqn, <- Heqd. replace (i - 1 + 1) with i by (clear - Ei; lia). rewrite T', val_split, Dr. reflexivity.
    + apply N.leb_gt in E. destruct (Clt E) as [Dq Dr].
      cbn [bind fst snd].
      destruct (i =? 0) eqn:Ei.
      * apply N.eqb_eq in Ei. subst i. change (2 ^ 0) with 1 in T'. rewrite N.div_1_r in T'.
        rewrite T', Dq, <- Eq. reflexivity.
      * apply N.eqb_neq in Ei. rewrite u_sub_df by (change (2 ^ 64) with 18446744073709551616; lia).
        replace (1 <=? i) with true by (symmetry; apply N.leb_le; lia). cbn [bind].
        rewrite (IH (i - 1) self divisor (split (2 * val q)) r2); try assumption.
        -- rewrite <- Heqn, <- Heqd. reflexivity.
        -- rewrite <- Heqd. exact Hpos.
        -- clear - Hi Ei; lia.
        -- clear - Hf Ei; lia.
        -- rewrite <- Heqn, <- Heqd. replace (i - 1 + 1) with i by (clear - Ei; lia). rewrite T', val_split, Dq, Eq. reflexivity.
        -- rewrite <- Heqn, <- Heqd. replace (i - 1 + 1) with i by (clear - Ei; lia). rewrite T', Vr2, Dr. reflexivity.
Qed.

Lemma u128_div_fuel_full fuel a b : (128 <= fuel)%nat -> wf a -> wf b ->
  u128_div_fuel fuel df a b = if val b =? 0 then Rev FAILED_ASSERT_SIGNAL else Ret (split (val a / val b)).
Proof.
  intros Hf Ha Hb. unfold u128_div_fuel. cbn [pue unsafemath df negb].
  rewrite u128_eq_zero by exact Hb.
  destruct (val b =? 0) eqn:E; cbn [negb assert bind]; [reflexivity|].
  apply N.eqb_neq in E.
  destruct ((up a =? 0) && (up b =? 0)) eqn:E2.
  - apply andb_true_iff in E2. destruct E2 as [Z1 Z2]. apply N.eqb_eq in Z1. apply N.eqb_eq in Z2.
    destruct a as [u1 l1], b as [u2 l2]. unfold val, wf in *; cbn [up lo fst snd] in *. subst u1 u2.
    rewrite !N.mul_0_l, !N.add_0_l in *.
    rewrite u_div_df by exact E. cbn [bind].
    rewrite <- (N.add_0_l (l1 / l2)). rewrite <- (N.mul_0_l (2 ^ 64)).
    rewrite split_mk. { reflexivity. }
    pose proof (div_le_self l1 l2). lia.
  - apply div_loop_correct; try assumption; try apply wf_zero; try lia.
    + change (127 + 1) with 128. rewrite val_zero.
      rewrite (N.div_small (val a)) by (apply val_lt; exact Ha). rewrite N.div_0_l by exact E. reflexivity.
    + change (127 + 1) with 128. rewrite val_zero.
      rewrite (N.div_small (val a)) by (apply val_lt; exact Ha). rewrite N.mod_0_l by exact E. reflexivity.
Qed.

Lemma u128_div_full a b : wf a -> wf b ->
  u128_div df a b = if val b =? 0 then Rev FAILED_ASSERT_SIGNAL else Ret (split (val a / val b)).
Proof. apply u128_div_fuel_full. apply le_n. Qed.

Lemma u128_div_correct a b : wf a -> wf b -> agrees (u128_div df a b) (S_div (val a) (val b)).
Proof.
  intros Ha Hb. rewrite u128_div_full by assumption. unfold S_div.
  destruct (val b =? 0) eqn:E; cbn [agrees reverts]; [exact I|].
  apply N.eqb_neq in E. eexists. split; [reflexivity|]. split; [apply wf_split | apply val_split].
  pose proof (val_lt a Ha). pose proof (div_le_self (val a) (val b)). lia.
Qed.

(* ---- modulo: a - (a / b) * b *)
Lemma u128_mod_full a b : wf a -> wf b ->
  u128_mod df a b = if val b =? 0 then Rev FAILED_ASSERT_SIGNAL else Ret (split (val a mod val b)).
Proof.
  intros Ha Hb. unfold u128_mod. cbn [pue unsafemath df negb when].
  rewrite u128_eq_zero by exact Hb.
  destruct (val b =? 0) eqn:E; cbn [negb assert bind]; [reflexivity|].
  rewrite u128_div_full by assumption. rewrite E. cbn [bind].
  apply N.eqb_neq in E.
  pose proof (val_lt a Ha) as La.
  assert (Lq : val a / val b <= val a) by (apply div_le_self; lia).
  assert (Wq : wf (split (val a / val b))) by (apply wf_split; lia).
  assert (Dm : val a = val b * (val a / val b) + val a mod val b) by (apply N.div_mod; exact E).
  rewrite u128_mul_full by assumption. rewrite val_split.
  assert (Lp : val a / val b * val b <= val a) by (rewrite N.mul_comm; lia).
  destruct (negb (up (split (val a / val b)) =? 0) && negb (up b =? 0)) eqn:E0.
  - exfalso. apply andb_true_iff in E0. destruct E0 as [E1 E2].
    apply negb_true_iff, N.eqb_neq in E1. apply negb_true_iff, N.eqb_neq in E2.
    assert (X : 2 ^ 64 <= val (split (val a / val b))).
    { remember (split (val a / val b)) as qq. unfold val. change (2 ^ 64) with 18446744073709551616. lia. }
    rewrite val_split in X.
    assert (Y : 2 ^ 64 <= val b) by (unfold val; change (2 ^ 64) with 18446744073709551616; lia).
    assert (2 ^ 64 * 2 ^ 64 <= val a / val b * val b) by (apply N.mul_le_mono; assumption).
    change (2 ^ 128) with (2 ^ 64 * 2 ^ 64) in La. lia.
  - replace (val a / val b * val b <? 2 ^ 128) with true by (symmetry; apply N.ltb_lt; lia).
    cbn [bind].
    rewrite u128_sub_full by (try assumption; apply wf_split; lia).
    rewrite val_split.
    replace (val a / val b * val b <=? val a) with true by (symmetry; apply N.leb_le; exact Lp).
    f_equal. f_equal. rewrite (N.mul_comm (val a / val b)). lia.
Qed.

Lemma u128_mod_correct a b : wf a -> wf b -> agrees (u128_mod df a b) (S_mod (val a) (val b)).
Proof.
  intros Ha Hb. rewrite u128_mod_full by assumption. unfold S_mod.
  destruct (val b =? 0) eqn:E; cbn [agrees reverts]; [exact I|].
  apply N.eqb_neq in E. eexists. split; [reflexivity|]. split; [apply wf_split | apply val_split].
  pose proof (val_lt a Ha). pose proof (N.mod_le (val a) (val b) E). lia.
Qed.
