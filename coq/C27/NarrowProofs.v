(* C27 — ops.sw: u8/u16/u32 + - * with their range checks, and wrapping_add/sub/mul for u8..u64. *)
From Coq Require Import NArith ZArith List Bool Lia.
From SwayV Require Import Vm.Alu Vm.AluProofs C27.NumModel C27.Spec C27.NumProofs.
Local Open Scope N_scope.
Arguments N.add : simpl never.
Arguments N.sub : simpl never.
Arguments N.mul : simpl never.
Arguments N.div : simpl never.
Arguments N.modulo : simpl never.
Arguments N.pow : simpl never.
Arguments N.eqb : simpl never.
Arguments N.ltb : simpl never.
Arguments N.leb : simpl never.
Arguments N.ones : simpl never.

Notation df := default_flags.
Notation wf_ := {| unsafemath := false; wrapping := true |}.

Lemma pow_w_le w : w <= 32 -> 2 ^ w <= 2 ^ 32.
Proof. intros H. apply N.pow_le_mono_r; lia. Qed.

Lemma ones_ltb w r : (N.ones w <? r) = (2 ^ w <=? r).
Proof. apply ones_lt. Qed.

(* ---- default flags *)
Lemma narrow_add_df w a b : w <= 32 -> a < 2 ^ w -> b < 2 ^ w ->
  narrow_op w df ADD a b = if a + b <? 2 ^ w then Ret (a + b) else Rev 0.
Proof.
  intros Hw Ha Hb. pose proof (pow_w_le w Hw) as P. change (2 ^ 32) with 4294967296 in P.
  unfold narrow_op. change (u_op df ADD a b) with (u_add df a b). rewrite u_add_df.
  replace (a + b <? 2 ^ 64) with true by (symmetry; apply N.ltb_lt; change (2 ^ 64) with 18446744073709551616; lia).
  cbn [bind]. rewrite ones_ltb.
  destruct (2 ^ w <=? a + b) eqn:E.
  - apply N.leb_le in E. replace (a + b <? 2 ^ w) with false by (symmetry; apply N.ltb_ge; exact E). reflexivity.
  - apply N.leb_gt in E. replace (a + b <? 2 ^ w) with true by (symmetry; apply N.ltb_lt; exact E). reflexivity.
Qed.

Lemma narrow_sub_df w a b : w <= 32 -> a < 2 ^ w -> b < 2 ^ w ->
  narrow_op w df SUB a b = if b <=? a then Ret (a - b) else Vmp ArithmeticOverflow.
Proof.
  intros Hw Ha Hb. pose proof (pow_w_le w Hw) as P. change (2 ^ 32) with 4294967296 in P.
  unfold narrow_op. change (u_op df SUB a b) with (u_sub df a b).
  rewrite u_sub_df by (change (2 ^ 64) with 18446744073709551616; lia).
  destruct (b <=? a) eqn:E; [|reflexivity].
  apply N.leb_le in E. cbn [bind]. rewrite ones_ltb.
  replace (2 ^ w <=? a - b) with false by (symmetry; apply N.leb_gt; lia). reflexivity.
Qed.

Lemma narrow_mul_df w a b : w <= 32 -> a < 2 ^ w -> b < 2 ^ w ->
  narrow_op w df MUL a b = if a * b <? 2 ^ w then Ret (a * b) else Rev 0.
Proof.
  intros Hw Ha Hb. pose proof (pow_w_le w Hw) as P. change (2 ^ 32) with 4294967296 in P.
  unfold narrow_op. change (u_op df MUL a b) with (u_mul df a b). rewrite u_mul_df.
  assert (a * b < 4294967296 * 4294967296) by (apply N.mul_lt_mono; lia).
  replace (a * b <? 2 ^ 64) with true by (symmetry; apply N.ltb_lt; change (2 ^ 64) with 18446744073709551616; lia).
  cbn [bind]. rewrite ones_ltb.
  destruct (2 ^ w <=? a * b) eqn:E.
  - apply N.leb_le in E. replace (a * b <? 2 ^ w) with false by (symmetry; apply N.ltb_ge; exact E). reflexivity.
  - apply N.leb_gt in E. replace (a * b <? 2 ^ w) with true by (symmetry; apply N.ltb_lt; exact E). reflexivity.
Qed.

(* ---- wrapping_* : F_WRAPPING set *)
Lemma u_op_wrap_res op a b r : exec64 wf_ op a b = Val r -> u_op (wrap_on df) op a b = Ret (res r).
Proof. intros H. unfold u_op. change (wrap_on df) with wf_. rewrite H. reflexivity. Qed.

Lemma wrap_tail w r : w <= 32 -> r < 2 ^ 64 ->
  (if N.ones w <? r
   then if poe (wrap_on df) then Rev 0
        else let* m := u_add (wrap_on df) (N.ones w) 1 in u_mod (wrap_on df) r m
   else Ret r) = Ret (r mod 2 ^ w).
Proof.
  intros Hw Hr. pose proof (pow_w_le w Hw) as P. change (2 ^ 32) with 4294967296 in P.
  pose proof (pow2_pos w) as Pp.
  rewrite ones_ltb. destruct (2 ^ w <=? r) eqn:E.
  - cbn [poe wrap_on wrapping negb].
    unfold u_add. rewrite (u_op_wrap_res ADD (N.ones w) 1 _ (add_wrapping false (N.ones w) 1)). cbn [res bind].
    rewrite ones_val. replace (2 ^ w - 1 + 1) with (2 ^ w) by lia.
    rewrite N.mod_small by (change (2 ^ 64) with 18446744073709551616; lia).
    unfold u_mod, u_op. change (wrap_on df) with wf_. unfold exec64, alu_error.
    replace (2 ^ w =? 0) with false by (symmetry; apply N.eqb_neq; lia). reflexivity.
  - apply N.leb_gt in E. rewrite N.mod_small by exact E. reflexivity.
Qed.

Lemma wrapping_add_narrow w a b : w <= 32 -> a < 2 ^ w -> b < 2 ^ w ->
  wrapping_narrow w df ADD a b = Ret ((a + b) mod 2 ^ w).
Proof.
  intros Hw Ha Hb. pose proof (pow_w_le w Hw) as P. change (2 ^ 32) with 4294967296 in P.
  unfold wrapping_narrow, narrow_op.
  rewrite (u_op_wrap_res ADD a b _ (add_wrapping false a b)). cbn [res bind].
  rewrite (N.mod_small (a + b)) by (change (2 ^ 64) with 18446744073709551616; lia).
  apply wrap_tail; [exact Hw | change (2 ^ 64) with 18446744073709551616; lia].
Qed.

Lemma wrapping_mul_narrow w a b : w <= 32 -> a < 2 ^ w -> b < 2 ^ w ->
  wrapping_narrow w df MUL a b = Ret ((a * b) mod 2 ^ w).
Proof.
  intros Hw Ha Hb. pose proof (pow_w_le w Hw) as P. change (2 ^ 32) with 4294967296 in P.
  assert (a * b < 4294967296 * 4294967296) by (apply N.mul_lt_mono; lia).
  unfold wrapping_narrow, narrow_op.
  rewrite (u_op_wrap_res MUL a b _ (mul_wrapping false a b)). cbn [res bind].
  rewrite (N.mod_small (a * b)) by (change (2 ^ 64) with 18446744073709551616; lia).
  apply wrap_tail; [exact Hw | change (2 ^ 64) with 18446744073709551616; lia].
Qed.

Lemma wrapping_sub_narrow w a b : w <= 32 -> a < 2 ^ w -> b < 2 ^ w ->
  wrapping_narrow w df SUB a b = Ret ((2 ^ w + a - b) mod 2 ^ w).
Proof.
  intros Hw Ha Hb. pose proof (pow_w_le w Hw) as P. change (2 ^ 32) with 4294967296 in P.
  pose proof (pow2_pos w) as Pp.
  unfold wrapping_narrow, narrow_op.
  destruct (N.le_gt_cases b a) as [Hle | Hgt].
  - assert (E : exec64 wf_ SUB a b = Val {| res := a - b; of := 0; err := 0 |}).
    { unfold exec64, sub_u128. replace (b <=? a) with true by (symmetry; apply N.leb_le; exact Hle).
      apply capture_ok. change (2 ^ 64) with 18446744073709551616. lia. }
    rewrite (u_op_wrap_res SUB a b _ E). cbn [res bind].
    rewrite wrap_tail by (try exact Hw; change (2 ^ 64) with 18446744073709551616; lia).
    f_equal. replace (2 ^ w + a - b) with (a - b + 1 * 2 ^ w) by lia. rewrite N.mod_add by lia. reflexivity.
  - rewrite (u_op_wrap_res SUB a b _ (sub_wrapping false a b Hgt ltac:(change (2 ^ 64) with 18446744073709551616; lia))).
    cbn [res bind].
    rewrite wrap_tail by (try exact Hw; change (2 ^ 64) with 18446744073709551616; lia).
    f_equal.
    (* 2^64 = 2^(64-w) * 2^w *)
    assert (K : 2 ^ 64 = 2 ^ (64 - w) * 2 ^ w) by (rewrite <- N.pow_add_r; f_equal; lia).
    pose proof (pow2_pos (64 - w)) as Pq.
    replace (2 ^ 64 + a - b) with (2 ^ w + a - b + (2 ^ (64 - w) - 1) * 2 ^ w) by (rewrite K; nia).
    rewrite N.mod_add by lia. reflexivity.
Qed.

Lemma wrapping_add_u64 a b : wrapping_u64 df ADD a b = Ret ((a + b) mod 2 ^ 64).
Proof. unfold wrapping_u64. rewrite (u_op_wrap_res ADD a b _ (add_wrapping false a b)). reflexivity. Qed.

Lemma wrapping_mul_u64 a b : wrapping_u64 df MUL a b = Ret ((a * b) mod 2 ^ 64).
Proof. unfold wrapping_u64. rewrite (u_op_wrap_res MUL a b _ (mul_wrapping false a b)). reflexivity. Qed.

Lemma wrapping_sub_u64 a b : a < 2 ^ 64 -> b < 2 ^ 64 ->
  wrapping_u64 df SUB a b = Ret ((2 ^ 64 + a - b) mod 2 ^ 64).
Proof.
  intros Ha Hb. unfold wrapping_u64. destruct (N.le_gt_cases b a) as [Hle | Hgt].
  - assert (E : exec64 wf_ SUB a b = Val {| res := a - b; of := 0; err := 0 |}).
    { unfold exec64, sub_u128. replace (b <=? a) with true by (symmetry; apply N.leb_le; exact Hle).
      apply capture_ok. lia. }
    rewrite (u_op_wrap_res SUB a b _ E). cbn [res]. f_equal.
    replace (2 ^ 64 + a - b) with (a - b + 1 * 2 ^ 64) by lia. rewrite N.mod_add by discriminate.
    symmetry. apply N.mod_small. lia.
  - rewrite (u_op_wrap_res SUB a b _ (sub_wrapping false a b Hgt Hb)). cbn [res]. f_equal.
    symmetry. apply N.mod_small. lia.
Qed.

(* ---- pow for u8..u64 *)
Lemma pow_narrow_df w a e : w <= 64 -> a < 2 ^ w ->
  match pow_narrow w df a e with
  | Ret r => a ^ e < 2 ^ w /\ r = a ^ e
  | Rev _ | Vmp _ => 2 ^ w <= a ^ e
  | Oof => False
  end.
Proof.
  intros Hw Ha.
  assert (P : 2 ^ w <= 2 ^ 64) by (apply N.pow_le_mono_r; lia).
  unfold pow_narrow. change (u_exp df a e) with (vm (vm_exp a e)).
  destruct (N.lt_ge_cases (a ^ e) (2 ^ 64)) as [Hlt | Hge].
  - rewrite exp_ok by lia. cbn [vm bind].
    destruct (w =? 64) eqn:E64.
    + apply N.eqb_eq in E64. subst w. split; [exact Hlt | reflexivity].
    + rewrite ones_ltb. destruct (2 ^ w <=? a ^ e) eqn:E.
      * apply N.leb_le in E. cbn [poe wrapping df negb]. exact E.
      * apply N.leb_gt in E. split; [exact E | reflexivity].
  - rewrite exp_overflow by lia. cbn [vm bind]. lia.
Qed.
