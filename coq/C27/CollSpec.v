(* C27 — S_coll: the reference model of the collections, `list N`. *)
From Coq Require Import NArith List Bool.
From SwayV Require Import Vm.Alu C27.NumModel C27.CollModel.
Import ListNotations.
Local Open Scope N_scope.

(* ---------------------------------------------------------------------------- S_coll: `list N` *)

(* reference state: the list, and the capacity as a ghost counter following the documented growth
   rule (doubling, starting at 1, only when full) *)
Definition lstate : Type := (list N * N)%type.
Definition lnew : lstate := ([], 0).

Definition lgrow (s : lstate) : lstate :=
  let '(l, c) := s in
  if N.of_nat (length l) =? c then (l, if c =? 0 then 1 else 2 * c) else s.

Definition linsert (i : nat) (x : N) (l : list N) : list N := firstn i l ++ x :: skipn i l.
Definition lremove (i : nat) (l : list N) : list N := firstn i l ++ skipn (S i) l.
(* list update at position i is CollModel.write (a pure list function) *)

(* None = the operation is documented to revert (failed assert) *)
Definition lstep (s : lstate) (o : vop) : option (lstate * list N) :=
  let '(l, c) := s in
  let n := N.of_nat (length l) in
  match o with
  | VPush x => let '(l1, c1) := lgrow s in Some ((l1 ++ [x], c1), [])
  | VPop => if n =? 0 then Some (s, opt_obs None)
            else Some ((firstn (length l - 1) l, c), opt_obs (Some (nth (length l - 1) l 0)))
  | VGet i => Some (s, opt_obs (if i <? n then Some (nth (N.to_nat i) l 0) else None))
  | VSet i x => if i <? n then Some ((write (N.to_nat i) x l, c), []) else None
  | VInsert i x => if i <=? n then let '(l1, c1) := lgrow s in Some ((linsert (N.to_nat i) x l1, c1), [])
                   else None
  | VRemove i => if i <? n then Some ((lremove (N.to_nat i) l, c), [nth (N.to_nat i) l 0]) else None
  | VSwap i j => if (i <? n) && (j <? n)
                 then Some ((write (N.to_nat j) (nth (N.to_nat i) l 0)
                               (write (N.to_nat i) (nth (N.to_nat j) l 0) l), c), [])
                 else None
  | VClear => Some (([], c), [])
  | VLen => Some (s, [n])
  | VCap => Some (s, [c])
  | VIsEmpty => Some (s, [N.b2n (n =? 0)])
  | VLast => Some (s, opt_obs (if n =? 0 then None else Some (nth (length l - 1) l 0)))
  end.

Fixpoint lrun (ops : list vop) (s : lstate) : list (list N) * out (list N * N) :=
  match ops with
  | [] => ([], Ret s)
  | o :: rest =>
    match lstep s o with
    | Some (s', ob) => let '(obs, fin) := lrun rest s' in (ob :: obs, fin)
    | None => ([], Rev FAILED_ASSERT_SIGNAL)
    end
  end.

(* ---- Bytes / String operations (reference) *)
Definition ldump (s : lstate) : list N := [N.of_nat (length (fst s)); snd s] ++ fst s.

Definition lpush (x : N) (s : lstate) : lstate := let '(l1, c1) := lgrow s in (l1 ++ [x], c1).
Fixpoint lpushes (l : list N) (s : lstate) : lstate :=
  match l with [] => s | x :: r => lpushes r (lpush x s) end.

Definition clstep (s : lstate) (o : cop) : option (lstate * list N) :=
  let '(l, c) := s in
  let n := N.of_nat (length l) in
  match o with
  | CV o => lstep s o
  | CResize m x =>
    if m <=? n then Some ((firstn (N.to_nat m) l, c), [])
    else Some ((l ++ repeat x (N.to_nat m - length l), if c <? m then m else c), [])
  | CAppend other =>
    (* `other` is built by pushes from the empty Bytes; its len and capacity are observed *)
    let k := N.of_nat (length other) in
    let oc := snd (lpushes other lnew) in
    if k =? 0 then Some (s, [k; oc])
    else Some ((l ++ other, if c <? n + k then n + k else c), [k; oc])
  | CSplitAt mid =>
    if mid <=? n then Some (s, [mid; mid] ++ firstn (N.to_nat mid) l ++ [n - mid; n - mid] ++ skipn (N.to_nat mid) l)
    else None
  | CString => Some (s, [n; n; N.b2n (n =? 0)] ++ l)
  end.

Fixpoint clrun (ops : list cop) (s : lstate) : list N * out unit :=
  match ops with
  | [] => (ldump s, Ret tt)
  | o :: rest =>
    match clstep s o with
    | Some (s', ob) => let '(obs, fin) := clrun rest s' in (ob ++ obs, fin)
    | None => ([], Rev FAILED_ASSERT_SIGNAL)
    end
  end.

(* size of an operation for the overflow bound of the refinement theorem *)
Definition cweight (o : cop) : N :=
  match o with
  | CResize m _ => m + 1
  | CAppend other => N.of_nat (length other) + 1
  | _ => 1
  end.
Definition cweights (ops : list cop) : N := fold_right (fun o acc => cweight o + acc) 0 ops.
