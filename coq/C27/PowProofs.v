(* C27 — U128::pow (square-and-multiply with u128_checked_mul) under default flags: whenever the loops
   finish within the model fuel, the result is base^exponent if that is below 2^128 and a revert
   (revert(0), or the VM's overflow panic raised inside u128_checked_mul) otherwise. *)
From Coq Require Import NArith ZArith List Bool Lia.
From SwayV Require Import Vm.Alu Vm.AluProofs C27.NumModel C27.Spec C27.NumProofs C27.DivProofs.
Local Open Scope N_scope.
Arguments N.add : simpl never.
Arguments N.sub : simpl never.
Arguments N.mul : simpl never.
Arguments N.div : simpl never.
Arguments N.modulo : simpl never.
Arguments N.pow : simpl never.
Arguments N.eqb : simpl never.
Arguments N.ltb : simpl never.
Arguments N.leb : simpl never.
Arguments N.land : simpl never.

Notation df := default_flags.

(* result of a computation that must produce x (below 2^128) or revert (x >= 2^128); Oof allowed *)
Definition yields (o : out U128) (x : N) : Prop :=
  match o with
  | Ret r => x < 2 ^ 128 /\ r = split x
  | Rev _ | Vmp _ => 2 ^ 128 <= x
  | Oof => True
  end.

Lemma ret_inj {A} (a b : A) : Ret a = Ret b -> a = b.
Proof. intros H. injection H as H. exact H. Qed.

Lemma u64_checked_add_df x y :
  u64_checked_add df x y = let* s := u_add df x y in Ret (Some s).
Proof.
  unfold u64_checked_add. rewrite u_add_df.
  change (exec64 df ADD x y) with (capture_overflow df (x + y)).
  destruct (x + y <? 2 ^ 64) eqn:E.
  - apply N.ltb_lt in E. rewrite capture_ok by exact E. cbn [vm bind of negb N.eqb]. reflexivity.
  - apply N.ltb_ge in E. rewrite capture_panic by exact E. reflexivity.
Qed.

(* pow_mul under default flags: the product, or a revert exactly when it does not fit *)
Lemma pow_mul_df a b : wf a -> wf b ->
  match pow_mul df a b with
  | Ret (PVal r) => val a * val b < 2 ^ 128 /\ r = split (val a * val b)
  | Ret PZero => False
  | Rev _ | Vmp _ => 2 ^ 128 <= val a * val b
  | Oof => False
  end.
Proof.
  destruct a as [u1 l1], b as [u2 l2]. unfold wf, val; cbn [up lo fst snd]. intros [Hu1 Hl1] [Hu2 Hl2].
  unfold pow_mul, u128_checked_mul; cbn [up lo fst snd poe wrapping df negb].
  destruct (u1 =? 0) eqn:E1.
  - apply N.eqb_eq in E1. subst u1. cbn [negb andb].
    pose proof (mul_case l2 l1 u2 l1 l2 l1 u2 Hl2 Hl1 Hu2 ltac:(lia) ltac:(lia)) as M.
    rewrite overflowing_mul_df in M |- *. cbn [bind up lo fst snd] in M |- *.
    destruct (u_mul df l1 u2) as [m | | |] eqn:Em; cbn [bind] in M |- *.
    + rewrite u64_checked_add_df.
      destruct (u_add df (l1 * l2 / 2 ^ 64) m) as [s | | |] eqn:Es; cbn [bind] in M |- *.
      * destruct ((u2 * 2 ^ 64 + l2) * l1 <? 2 ^ 128) eqn:EP; [|discriminate].
        apply N.ltb_lt in EP. apply ret_inj in M. rewrite M.
        replace ((0 * 2 ^ 64 + l1) * (u2 * 2 ^ 64 + l2)) with ((u2 * 2 ^ 64 + l2) * l1) by lia.
        split; [exact EP | reflexivity].
      * destruct ((u2 * 2 ^ 64 + l2) * l1 <? 2 ^ 128) eqn:EP; discriminate.
      * destruct ((u2 * 2 ^ 64 + l2) * l1 <? 2 ^ 128) eqn:EP; [discriminate|].
        apply N.ltb_ge in EP. lia.
      * destruct ((u2 * 2 ^ 64 + l2) * l1 <? 2 ^ 128) eqn:EP; discriminate.
    + destruct ((u2 * 2 ^ 64 + l2) * l1 <? 2 ^ 128) eqn:EP; discriminate.
    + destruct ((u2 * 2 ^ 64 + l2) * l1 <? 2 ^ 128) eqn:EP; [discriminate|].
      apply N.ltb_ge in EP. lia.
    + destruct ((u2 * 2 ^ 64 + l2) * l1 <? 2 ^ 128) eqn:EP; discriminate.
  - destruct (u2 =? 0) eqn:E2.
    + apply N.eqb_eq in E2. subst u2. cbn [negb andb].
      pose proof (mul_case l1 l2 u1 l1 l2 u1 l2 Hl1 Hl2 Hu1 ltac:(lia) ltac:(lia)) as M.
      rewrite overflowing_mul_df in M |- *. cbn [bind up lo fst snd] in M |- *.
      destruct (u_mul df u1 l2) as [m | | |] eqn:Em; cbn [bind] in M |- *.
      * rewrite u64_checked_add_df.
        destruct (u_add df (l1 * l2 / 2 ^ 64) m) as [s | | |] eqn:Es; cbn [bind] in M |- *.
        -- destruct ((u1 * 2 ^ 64 + l1) * l2 <? 2 ^ 128) eqn:EP; [|discriminate].
           apply N.ltb_lt in EP. apply ret_inj in M. rewrite M.
           replace ((u1 * 2 ^ 64 + l1) * (0 * 2 ^ 64 + l2)) with ((u1 * 2 ^ 64 + l1) * l2) by lia.
           split; [exact EP | reflexivity].
        -- destruct ((u1 * 2 ^ 64 + l1) * l2 <? 2 ^ 128) eqn:EP; discriminate.
        -- destruct ((u1 * 2 ^ 64 + l1) * l2 <? 2 ^ 128) eqn:EP; [discriminate|].
           apply N.ltb_ge in EP. lia.
        -- destruct ((u1 * 2 ^ 64 + l1) * l2 <? 2 ^ 128) eqn:EP; discriminate.
      * destruct ((u1 * 2 ^ 64 + l1) * l2 <? 2 ^ 128) eqn:EP; discriminate.
      * destruct ((u1 * 2 ^ 64 + l1) * l2 <? 2 ^ 128) eqn:EP; [discriminate|].
        apply N.ltb_ge in EP. lia.
      * destruct ((u1 * 2 ^ 64 + l1) * l2 <? 2 ^ 128) eqn:EP; discriminate.
    + cbn [negb andb bind]. apply N.eqb_neq in E1. apply N.eqb_neq in E2.
      change (2 ^ 128) with (2 ^ 64 * 2 ^ 64).
      apply N.mul_le_mono; change (2 ^ 64) with 18446744073709551616; lia.
Qed.

(* ---- arithmetic of square-and-multiply *)
Lemma land1_mod2 e : N.land e 1 = e mod 2. Proof. apply land_1. Qed.

Lemma srl1 e : e < 2 ^ 64 -> srl64 e 1 = e / 2.
Proof. intros _. rewrite srl64_small by reflexivity. reflexivity. Qed.

Lemma pow_even v e : e mod 2 = 0 -> v ^ e = (v * v) ^ (e / 2).
Proof.
  intros H. assert (E : e = 2 * (e / 2)) by (pose proof (N.div_mod e 2 ltac:(discriminate)); lia).
  rewrite E at 1. rewrite N.pow_mul_r. rewrite N.pow_2_r. reflexivity.
Qed.

Lemma pow_odd v e : e mod 2 = 1 -> v ^ e = v * (v * v) ^ (e / 2).
Proof.
  intros H. assert (E : e = N.succ (2 * (e / 2))) by (pose proof (N.div_mod e 2 ltac:(discriminate)); lia).
  rewrite E at 1. rewrite N.pow_succ_r', N.pow_mul_r. rewrite N.pow_2_r. reflexivity.
Qed.

Lemma pow_ge_base v k : 1 <= k -> v <= v ^ k.
Proof.
  intros H. destruct (N.eq_dec v 0) as [-> | NZ]; [lia|].
  replace k with (N.succ (k - 1)) by lia. rewrite N.pow_succ_r'.
  assert (1 <= v ^ (k - 1)). { pose proof (N.pow_nonzero v (k - 1) NZ). lia. }
  nia.
Qed.

Lemma pow_pos_ge1 v k : v <> 0 -> 1 <= v ^ k.
Proof. intros NZ. pose proof (N.pow_nonzero v k NZ). lia. Qed.

(* first loop *)
Lemma pow_loop1_correct : forall fuel value e, wf value -> 1 <= e -> e < 2 ^ 64 ->
  match pow_loop1 df fuel value e with
  | Ret (PVal v', e') => wf v' /\ val v' ^ e' = val value ^ e /\ e' mod 2 = 1 /\ e' < 2 ^ 64
  | Ret (PZero, _) => False
  | Rev _ | Vmp _ => 2 ^ 128 <= val value ^ e
  | Oof => True
  end.
Proof.
  induction fuel as [| fuel IH]; intros value e Hv He Hlt; [exact I|].
  cbn [pow_loop1]. rewrite land1_mod2.
  destruct (e mod 2 =? 0) eqn:E.
  - apply N.eqb_eq in E.
    pose proof (pow_mul_df value value Hv Hv) as PM.
    assert (E2 : 1 <= e / 2) by (apply N.div_le_lower_bound; [discriminate|]; pose proof (N.div_mod e 2 ltac:(discriminate)); lia).
    destruct (pow_mul df value value) as [[v2 |] | c | p |] eqn:Em; cbn [bind]; try contradiction.
    + destruct PM as [PL PE]. rewrite srl1 by exact Hlt.
      assert (W2 : wf v2) by (subst v2; apply wf_split; exact PL).
      assert (L2 : e / 2 < 2 ^ 64) by (pose proof (div_le_self e 2 ltac:(lia)); lia).
      specialize (IH v2 (e / 2) W2 E2 L2).
      assert (V2 : val v2 = val value * val value) by (subst v2; apply val_split).
      rewrite V2 in IH. rewrite <- (pow_even (val value) e E) in IH. exact IH.
    + rewrite (pow_even _ _ E). pose proof (pow_ge_base (val value * val value) (e / 2) E2). lia.
    + rewrite (pow_even _ _ E). pose proof (pow_ge_base (val value * val value) (e / 2) E2). lia.
  - apply N.eqb_neq in E. split; [exact Hv|]. split; [reflexivity|]. split; [|exact Hlt].
    pose proof (N.mod_lt e 2 ltac:(discriminate)). lia.
Qed.

(* second loop: target = acc * (value^2)^(e/2) *)
Lemma pow_loop2_correct : forall fuel value acc e, wf value -> wf acc -> 1 <= e -> e < 2 ^ 64 ->
  (val value = 0 \/ 1 <= val acc) ->
  yields (pow_loop2 df fuel value acc e) (val acc * (val value * val value) ^ (e / 2)).
Proof.
  induction fuel as [| fuel IH]; intros value acc e Hv Hacc He Hlt Hnz; [exact I|].
  cbn [pow_loop2].
  destruct (1 <? e) eqn:E1.
  - apply N.ltb_lt in E1. rewrite srl1 by exact Hlt. rewrite land1_mod2.
    assert (E2 : 1 <= e / 2) by (apply N.div_le_lower_bound; [discriminate|]; lia).
    assert (L2 : e / 2 < 2 ^ 64) by (pose proof (div_le_self e 2 ltac:(lia)); lia).
    remember (val value * val value) as vv.
    pose proof (pow_mul_df value value Hv Hv) as PM.
    destruct (pow_mul df value value) as [[v2 |] | c | p |] eqn:Em; cbn [bind]; try contradiction.
    + destruct PM as [PL PE]. rewrite <- Heqvv in PL, PE.
      assert (W2 : wf v2) by (subst v2; apply wf_split; exact PL).
      assert (V2 : val v2 = vv) by (subst v2; apply val_split).
      destruct (e / 2 mod 2 =? 1) eqn:Eo.
      * apply N.eqb_eq in Eo.
        pose proof (pow_mul_df acc v2 Hacc W2) as PM2. rewrite V2 in PM2.
        rewrite (pow_odd vv (e / 2) Eo).
        destruct (pow_mul df acc v2) as [[a2 |] | c | p |] eqn:Em2; cbn [bind]; try contradiction.
        -- destruct PM2 as [PL2 PE2].
           assert (Wa : wf a2) by (subst a2; apply wf_split; exact PL2).
           assert (Va : val a2 = val acc * vv) by (subst a2; apply val_split).
           specialize (IH v2 a2 (e / 2) W2 Wa E2 L2).
           rewrite V2, Va in IH. rewrite N.mul_assoc. apply IH.
           destruct Hnz as [Z | P]; [left; subst vv; rewrite Z; reflexivity|].
           destruct (N.eq_dec vv 0) as [Zv | NZv]; [left; exact Zv | right; nia].
        -- cbn [yields]. destruct (N.eq_dec vv 0) as [Zv | NZv]; [rewrite Zv in PM2; rewrite N.mul_0_r in PM2; change (2 ^ 128) with 340282366920938463463374607431768211456 in PM2; lia|].
           pose proof (pow_pos_ge1 (vv * vv) (e / 2 / 2) ltac:(nia)). rewrite N.mul_assoc. nia.
        -- cbn [yields]. destruct (N.eq_dec vv 0) as [Zv | NZv]; [rewrite Zv in PM2; rewrite N.mul_0_r in PM2; change (2 ^ 128) with 340282366920938463463374607431768211456 in PM2; lia|].
           pose proof (pow_pos_ge1 (vv * vv) (e / 2 / 2) ltac:(nia)). rewrite N.mul_assoc. nia.
      * apply N.eqb_neq in Eo.
        assert (Ev : e / 2 mod 2 = 0) by (pose proof (N.mod_lt (e / 2) 2 ltac:(discriminate)); lia).
        rewrite (pow_even vv (e / 2) Ev).
        specialize (IH v2 acc (e / 2) W2 Hacc E2 L2). rewrite V2 in IH. apply IH.
        destruct Hnz as [Z | P]; [left; subst vv; rewrite Z; reflexivity | right; exact P].
    + cbn [yields]. rewrite <- Heqvv in PM.
      destruct Hnz as [Z | P]; [subst vv; rewrite Z in PM; change (2 ^ 128) with 340282366920938463463374607431768211456 in PM; lia|].
      pose proof (pow_ge_base vv (e / 2) E2). nia.
    + cbn [yields]. rewrite <- Heqvv in PM.
      destruct Hnz as [Z | P]; [subst vv; rewrite Z in PM; change (2 ^ 128) with 340282366920938463463374607431768211456 in PM; lia|].
      pose proof (pow_ge_base vv (e / 2) E2). nia.
  - apply N.ltb_ge in E1. assert (e = 1) by lia. subst e. change (1 / 2) with 0.
    change ((val value * val value) ^ 0) with 1. rewrite N.mul_1_r.
    cbn [yields]. split; [apply val_lt; exact Hacc | symmetry; apply split_val; exact Hacc].
Qed.

Lemma u128_pow_fuel_correct fuel a e : wf a -> e < 2 ^ 32 ->
  yields (u128_pow_fuel fuel df a e) (val a ^ e).
Proof.
  intros Ha He. unfold u128_pow_fuel.
  destruct (e =? 0) eqn:E0.
  - apply N.eqb_eq in E0. subst e. cbn [yields]. split; [reflexivity | reflexivity].
  - apply N.eqb_neq in E0. destruct (e =? 1) eqn:E1.
    + apply N.eqb_eq in E1. subst e. rewrite N.pow_1_r. cbn [yields].
      split; [apply val_lt; exact Ha | symmetry; apply split_val; exact Ha].
    + apply N.eqb_neq in E1.
      assert (L64 : e < 2 ^ 64) by (change (2 ^ 32) with 4294967296 in He; change (2 ^ 64) with 18446744073709551616; lia).
      pose proof (pow_loop1_correct fuel a e Ha ltac:(lia) L64) as P1.
      destruct (pow_loop1 df fuel a e) as [[[v |] e'] | c | p |] eqn:El; cbn [bind]; try contradiction; try exact P1; try exact I.
      destruct P1 as (Wv & Pv & Odd & Le').
      destruct (e' =? 1) eqn:Ee.
      * apply N.eqb_eq in Ee. subst e'. rewrite N.pow_1_r in Pv. rewrite <- Pv. cbn [yields].
        split; [apply val_lt; exact Wv | symmetry; apply split_val; exact Wv].
      * apply N.eqb_neq in Ee. rewrite <- Pv. rewrite (pow_odd (val v) e' Odd).
        apply pow_loop2_correct; try assumption.
        -- lia.
        -- destruct (N.eq_dec (val v) 0); [left; assumption | right; lia].
Qed.

(* ---- fuel: 40 >= the bit length of a u32 exponent, so `u128_pow` never runs out of fuel *)
Lemma half_lt_pow e f : e < 2 ^ N.of_nat (S f) -> e / 2 < 2 ^ N.of_nat f.
Proof.
  intros H. apply N.div_lt_upper_bound; [discriminate|].
  rewrite Nat2N.inj_succ, N.pow_succ_r' in H. exact H.
Qed.

Lemma pow_loop1_fuel : forall fuel value e, wf value -> 1 <= e -> e < 2 ^ 64 -> e < 2 ^ N.of_nat fuel ->
  pow_loop1 df fuel value e <> Oof.
Proof.
  induction fuel as [| fuel IH]; intros value e Hv He Hlt Hf.
  - change (2 ^ N.of_nat 0) with 1 in Hf. lia.
  - cbn [pow_loop1]. rewrite land1_mod2.
    destruct (e mod 2 =? 0) eqn:E; [|discriminate].
    apply N.eqb_eq in E.
    pose proof (pow_mul_df value value Hv Hv) as PM.
    destruct (pow_mul df value value) as [[v2 |] | c | p |] eqn:Em; cbn [bind]; try contradiction; try discriminate.
    destruct PM as [PL PE]. rewrite srl1 by exact Hlt.
    apply IH.
    + subst v2. apply wf_split. exact PL.
    + apply N.div_le_lower_bound; [discriminate|]. pose proof (N.div_mod e 2 ltac:(discriminate)). lia.
    + pose proof (div_le_self e 2 ltac:(lia)). lia.
    + apply half_lt_pow. exact Hf.
Qed.

Lemma pow_loop2_fuel : forall fuel value acc e, wf value -> wf acc -> 1 <= e -> e < 2 ^ 64 ->
  e < 2 ^ N.of_nat fuel -> pow_loop2 df fuel value acc e <> Oof.
Proof.
  induction fuel as [| fuel IH]; intros value acc e Hv Hacc He Hlt Hf.
  - change (2 ^ N.of_nat 0) with 1 in Hf. lia.
  - cbn [pow_loop2]. destruct (1 <? e) eqn:E1; [|discriminate].
    apply N.ltb_lt in E1. rewrite srl1 by exact Hlt. rewrite land1_mod2.
    assert (E2 : 1 <= e / 2) by (apply N.div_le_lower_bound; [discriminate|]; lia).
    assert (L2 : e / 2 < 2 ^ 64) by (pose proof (div_le_self e 2 ltac:(lia)); lia).
    pose proof (pow_mul_df value value Hv Hv) as PM.
    destruct (pow_mul df value value) as [[v2 |] | c | p |] eqn:Em; cbn [bind]; try contradiction; try discriminate.
    destruct PM as [PL PE].
    assert (W2 : wf v2) by (subst v2; apply wf_split; exact PL).
    destruct (e / 2 mod 2 =? 1) eqn:Eo.
    + pose proof (pow_mul_df acc v2 Hacc W2) as PM2.
      destruct (pow_mul df acc v2) as [[a2 |] | c | p |] eqn:Em2; cbn [bind]; try contradiction; try discriminate.
      destruct PM2 as [PL2 PE2]. apply IH; try assumption.
      * subst a2. apply wf_split. exact PL2.
      * apply half_lt_pow. exact Hf.
    + apply IH; try assumption. apply half_lt_pow. exact Hf.
Qed.

Lemma pow_loop1_exp_le : forall fuel value e v' e', pow_loop1 df fuel value e = Ret (PVal v', e') -> e < 2 ^ 64 -> e' <= e.
Proof.
  induction fuel as [| fuel IH]; intros value e v' e' H Hlt; [discriminate|].
  cbn [pow_loop1] in H. destruct (N.land e 1 =? 0).
  - destruct (pow_mul df value value) as [[v2 |] | c | p |]; cbn [bind] in H; try discriminate.
    rewrite srl1 in H by exact Hlt.
    pose proof (div_le_self e 2 ltac:(lia)).
    specialize (IH v2 (e / 2) v' e' H ltac:(lia)). lia.
  - injection H as _ H. lia.
Qed.

Lemma u128_pow_total a e : wf a -> e < 2 ^ 32 -> u128_pow df a e <> Oof.
Proof.
  intros Ha He. unfold u128_pow, u128_pow_fuel.
  destruct (e =? 0) eqn:E0; [discriminate|]. apply N.eqb_neq in E0.
  destruct (e =? 1) eqn:E1; [discriminate|]. apply N.eqb_neq in E1.
  assert (L64 : e < 2 ^ 64) by (change (2 ^ 32) with 4294967296 in He; change (2 ^ 64) with 18446744073709551616; lia).
  assert (L40 : e < 2 ^ N.of_nat 40) by (change (2 ^ 32) with 4294967296 in He; change (2 ^ N.of_nat 40) with 1099511627776; lia).
  pose proof (pow_loop1_fuel 40 a e Ha ltac:(lia) L64 L40) as F1.
  pose proof (pow_loop1_correct 40 a e Ha ltac:(lia) L64) as P1.
  destruct (pow_loop1 df 40 a e) as [[[v |] e'] | c | p |] eqn:El; cbn [bind]; try contradiction; try discriminate.
  destruct P1 as (Wv & Pv & Odd & Le').
  destruct (e' =? 1); [discriminate|].
  pose proof (pow_loop1_exp_le 40 a e v e' El L64) as Lee.
  apply pow_loop2_fuel; try assumption.
  - pose proof (N.mod_lt e' 2 ltac:(discriminate)). destruct (N.eq_dec e' 0) as [Z | NZ]; [rewrite Z in Odd; discriminate | lia].
  - lia.
Qed.

Lemma u128_pow_correct a e : wf a -> e < 2 ^ 32 ->
  match u128_pow df a e with
  | Ret r => val a ^ e < 2 ^ 128 /\ r = split (val a ^ e)
  | Rev _ | Vmp _ => 2 ^ 128 <= val a ^ e
  | Oof => False
  end.
Proof.
  intros Ha He. pose proof (u128_pow_fuel_correct 40 a e Ha He) as Y.
  pose proof (u128_pow_total a e Ha He) as T. unfold u128_pow in *.
  destruct (u128_pow_fuel 40 df a e); cbn [yields] in Y; try exact Y. congruence.
Qed.
