(* C27 — the model M: NumModel (U128, math.sw, ops.sw narrow ints, u256 over Vm.Alu) and
   CollModel (Vec/Bytes/String). *)
From SwayV Require Export C27.NumModel C27.CollModel.
