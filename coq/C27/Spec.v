(* C27 — reference models (S) and what "agrees" means.
   S_num: arithmetic on N bounded by 2^128 (U128) resp. 2^w; `None` = the operation is required to
   revert (overflow, underflow, zero divisor, undefined logarithm / documented-by-test sqrt(0) of U128).
   S_coll: `list N`. *)
From Coq Require Import NArith List Bool.
From SwayV Require Import Vm.Alu C27.NumModel.
Import ListNotations.
Local Open Scope N_scope.

Definition P128 : N := 2 ^ 128.
Definition val (a : U128) : N := up a * 2 ^ 64 + lo a.
Definition wf (a : U128) : Prop := up a < 2 ^ 64 /\ lo a < 2 ^ 64.
Definition split (n : N) : U128 := (n / 2 ^ 64, n mod 2 ^ 64).

Definition reverts {A} (o : out A) : Prop :=
  match o with Rev _ | Vmp _ => True | _ => False end.

(* the implementation outcome `o` agrees with the reference result `s` *)
Definition agrees (o : out U128) (s : option N) : Prop :=
  match s with
  | Some v => exists r, o = Ret r /\ wf r /\ val r = v
  | None => reverts o
  end.
Definition agreesN (o : out N) (s : option N) : Prop :=
  match s with
  | Some v => o = Ret v
  | None => reverts o
  end.

Definition bounded (w x : N) : option N := if x <? 2 ^ w then Some x else None.

Definition S_add (x y : N) : option N := bounded 128 (x + y).
Definition S_sub (x y : N) : option N := if y <=? x then Some (x - y) else None.
Definition S_mul (x y : N) : option N := bounded 128 (x * y).
Definition S_div (x y : N) : option N := if y =? 0 then None else Some (x / y).
Definition S_mod (x y : N) : option N := if y =? 0 then None else Some (x mod y).
Definition S_shl (x s : N) : option N := Some ((x * 2 ^ s) mod 2 ^ 128).
Definition S_shr (x s : N) : option N := Some (x / 2 ^ s).
Definition S_not (x : N) : option N := Some (2 ^ 128 - 1 - x).
Definition S_pow (x e : N) : option N := bounded 128 (x ^ e).

(* integer square root / logarithm as relations *)
Definition is_sqrt (n r : N) : Prop := r * r <= n /\ n < (r + 1) * (r + 1).
Definition is_log (b n r : N) : Prop := b ^ r <= n /\ n < b ^ (r + 1).

(* boolean oracles used by the judge *)
Definition is_sqrtb (n r : N) : bool := (r * r <=? n) && (n <? (r + 1) * (r + 1)).
Definition is_logb (b n r : N) : bool := (b ^ r <=? n) && (n <? b ^ (r + 1)).

(* narrow widths *)
Definition S_addw (w x y : N) : option N := bounded w (x + y).
Definition S_subw (x y : N) : option N := if y <=? x then Some (x - y) else None.
Definition S_mulw (w x y : N) : option N := bounded w (x * y).
Definition S_poww (w x e : N) : option N := bounded w (x ^ e).
Definition S_wrap_add (w x y : N) : N := (x + y) mod 2 ^ w.
Definition S_wrap_sub (w x y : N) : N := (2 ^ w + x - y) mod 2 ^ w.
Definition S_wrap_mul (w x y : N) : N := (x * y) mod 2 ^ w.
