(* C27 — Logarithm for u256 (math.sw) and U128 (u128.sw) outside the known class:
   forall x base, log_known w x base = false -> log returns the floor logarithm. *)
From Coq Require Import NArith ZArith List Bool Lia.
From SwayV Require Import Vm.Alu Vm.AluProofs C27.NumModel C27.Spec C27.LogSpec C27.NumProofs C27.DivProofs
  C27.SqrtProofs C27.LogProofs C27.PowProofs C27.NarrowProofs C27.U256Proofs C27.WrapProofs.
Local Open Scope N_scope.
Arguments N.add : simpl never.
Arguments N.sub : simpl never.
Arguments N.mul : simpl never.
Arguments N.div : simpl never.
Arguments N.modulo : simpl never.
Arguments N.pow : simpl never.
Arguments N.eqb : simpl never.
Arguments N.ltb : simpl never.
Arguments N.leb : simpl never.
Arguments N.land : simpl never.
Arguments N.log2 : simpl never.
Arguments N.ones : simpl never.

Notation df := default_flags.
Notation flw := (wrap_on default_flags).

(* ------------------------------------------------------------------ arithmetic of the estimate *)
Lemma is_log2_unique a r : is_log 2 a r -> r = N.log2 a.
Proof.
  intros [H1 H2]. symmetry. apply N.log2_unique; [lia|]. rewrite <- N.add_1_r. split; assumption.
Qed.

Lemma log2_ge1 b : 2 <= b -> 1 <= N.log2 b.
Proof. intros H. change 1 with (N.log2 2). apply N.log2_le_mono. exact H. Qed.

(* the estimate is never too small *)
Lemma est_upper x b : 2 <= b -> 1 <= x -> x < b ^ (N.log2 x / N.log2 b + 1).
Proof.
  intros Hb Hx. pose proof (log2_ge1 b Hb) as Hl.
  destruct (N.log2_spec x ltac:(lia)) as [_ X2]. destruct (N.log2_spec b ltac:(lia)) as [B1 _].
  remember (N.log2 x) as L. remember (N.log2 b) as lb.
  assert (E : L < lb * (L / lb + 1)).
  { pose proof (N.div_mod L lb ltac:(lia)). pose proof (N.mod_lt L lb ltac:(lia)). lia. }
  assert (P1 : 2 ^ N.succ L <= 2 ^ (lb * (L / lb + 1))) by (apply N.pow_le_mono_r; lia).
  rewrite N.pow_mul_r in P1.
  assert (P2 : (2 ^ lb) ^ (L / lb + 1) <= b ^ (L / lb + 1)) by (apply N.pow_le_mono_l; exact B1).
  lia.
Qed.

Lemma est_le x b w : 2 <= b -> x < 2 ^ w -> 1 <= x -> N.log2 x / N.log2 b < w.
Proof.
  intros Hb Hx H1. pose proof (log2_ge1 b Hb).
  assert (N.log2 x < w) by (apply N.log2_lt_pow2; lia).
  assert (N.log2 x / N.log2 b <= N.log2 x) by (apply div_le_self; lia). lia.
Qed.

Lemma pow_le_pow b r r' : 1 <= b -> r' <= r -> b ^ r' <= b ^ r.
Proof. intros Hb H. apply N.pow_le_mono_r; lia. Qed.

Lemma not_known w x b : 2 <= b -> b <= x -> log_known w x b = false ->
  b ^ (N.log2 x / N.log2 b) < 2 ^ w.
Proof.
  intros Hb Hx K. unfold log_known in K.
  replace (2 <=? b) with true in K by (symmetry; apply N.leb_le; exact Hb).
  replace (b <=? x) with true in K by (symmetry; apply N.leb_le; exact Hx).
  cbn [andb] in K. apply N.leb_gt in K. exact K.
Qed.

(* ------------------------------------------------------------------ u256 *)
Lemma u256_checked_mul_fits fl a b : a * b < 2 ^ 256 -> u256_checked_mul fl a b = Ret (Some (a * b)).
Proof. intros H. unfold u256_checked_mul, wq_mul. rewrite wide_mul_ok by exact H. reflexivity. Qed.

(* when the target fits, the loop does the same under any flags *)
Lemma u256_pow_loop_fits : forall fl fuel base acc e, 1 <= e -> e < 2 ^ 64 -> (base = 0 \/ 1 <= acc) ->
  acc * base ^ e < 2 ^ 256 ->
  u256_pow_loop fl fuel base acc e = u256_pow_loop df fuel base acc e.
Proof.
  induction fuel as [| fuel IH]; intros base acc e He Hlt Hnz Hfit; [reflexivity|].
  cbn [u256_pow_loop]. destruct (1 <? e) eqn:E1; [|reflexivity].
  apply N.ltb_lt in E1. rewrite land1_mod2.
  assert (E2 : 1 <= e / 2) by (apply N.div_le_lower_bound; [discriminate|]; lia).
  assert (L2 : e / 2 < 2 ^ 64) by (pose proof (div_le_self e 2 ltac:(lia)); lia).
  destruct (e mod 2 =? 1) eqn:Eo.
  - apply N.eqb_eq in Eo. rewrite (pow_odd base e Eo) in Hfit.
    destruct (N.eq_dec base 0) as [Zb | NZb].
    + subst base.
      rewrite !(u256_checked_mul_fits _ acc 0) by (rewrite N.mul_0_r; vm_compute; reflexivity). cbn [bind].
      rewrite !(u256_checked_mul_fits _ 0 0) by (vm_compute; reflexivity). cbn [bind].
      rewrite !srl1 by exact Hlt. apply IH; [exact E2 | exact L2 | left; reflexivity |].
      rewrite N.mul_0_r, N.mul_0_l. vm_compute. reflexivity.
    + pose proof (pow_pos_ge1 (base * base) (e / 2) ltac:(nia)) as G1.
      pose proof (pow_ge_base (base * base) (e / 2) E2) as G2.
      assert (A1 : 1 <= acc) by (destruct Hnz; [contradiction | assumption]).
      assert (F1 : acc * base < 2 ^ 256) by nia.
      assert (F2 : base * base < 2 ^ 256) by nia.
      rewrite !(u256_checked_mul_fits _ acc base) by exact F1. cbn [bind].
      rewrite !(u256_checked_mul_fits _ base base) by exact F2. cbn [bind].
      rewrite !srl1 by exact Hlt. apply IH; [exact E2 | exact L2 | right; nia |]. rewrite <- N.mul_assoc. exact Hfit.
  - apply N.eqb_neq in Eo. cbn [bind].
    assert (Ev : e mod 2 = 0) by (pose proof (N.mod_lt e 2 ltac:(discriminate)); lia).
    rewrite (pow_even base e Ev) in Hfit.
    assert (F2 : base * base < 2 ^ 256).
    { destruct Hnz as [Z | P]; [rewrite Z; vm_compute; reflexivity|].
      pose proof (pow_ge_base (base * base) (e / 2) E2). nia. }
    rewrite !(u256_checked_mul_fits _ base base) by exact F2. cbn [bind].
    rewrite !srl1 by exact Hlt. apply IH; [exact E2 | exact L2 | | exact Hfit].
    destruct Hnz as [Z | P]; [left; rewrite Z; reflexivity | right; exact P].
Qed.

Lemma u256_pow_fits fl a e : e < 2 ^ 32 -> a ^ e < 2 ^ 256 -> u256_pow fl a e = Ret (a ^ e).
Proof.
  intros He Hfit.
  assert (D : u256_pow df a e = Ret (a ^ e)).
  { pose proof (u256_pow_full a e He) as P. destruct (u256_pow df a e) as [r | c | p |]; try contradiction; try lia.
    destruct P as [_ ->]. reflexivity. }
  rewrite <- D. unfold u256_pow. destruct (e =? 0) eqn:E0; [reflexivity|]. apply N.eqb_neq in E0.
  assert (L64 : e < 2 ^ 64) by (change (2 ^ 32) with 4294967296 in He; change (2 ^ 64) with 18446744073709551616; lia).
  rewrite (u256_pow_loop_fits fl 40 a 1 e) by (try lia; rewrite N.mul_1_l; exact Hfit).
  pose proof (u256_pow_loop_correct 40 a 1 e ltac:(lia) L64 ltac:(right; lia)) as P. rewrite N.mul_1_l in P.
  destruct (u256_pow_loop df 40 a 1 e) as [[[b' a'] |] | c | p |]; cbn [bind]; try reflexivity.
  rewrite !u256_checked_mul_fits by (rewrite P; exact Hfit). reflexivity.
Qed.

Lemma small_arg r : r < 2 ^ 32 -> N.land (limb r 0) (N.ones 32) = r.
Proof.
  intros H. rewrite limb_val. change (64 * 0) with 0. change (2 ^ 0) with 1. rewrite N.div_1_r.
  rewrite N.land_ones. change (2 ^ 32) with 4294967296 in *. change (2 ^ 64) with 18446744073709551616.
  rewrite (N.mod_small r 18446744073709551616) by lia. apply N.mod_small. exact H.
Qed.

Lemma u256_sub_ok fl a b : b <= a -> u256_sub fl a b = Ret (a - b).
Proof. intros H. unfold u256_sub, wq, wq_op. rewrite wide_sub_ok by exact H. reflexivity. Qed.

Lemma u256_log_loop_correct : forall fuel r self base,
  (N.to_nat r < fuel)%nat -> 2 <= base -> 1 <= self -> r < 2 ^ 32 ->
  base ^ r < 2 ^ 256 -> self < base ^ (r + 1) ->
  exists r', u256_log_loop fuel flw self base r (base ^ r) OF_AFTER_POW = Ret r' /\ is_log base self r'.
Proof.
  induction fuel as [| fuel IH]; intros r self base Hf Hb Hs Hr Hfit Hup; [lia|].
  cbn [u256_log_loop]. change (0 <? OF_AFTER_POW) with false. rewrite orb_false_r.
  destruct (self <? base ^ r) eqn:E.
  - apply N.ltb_lt in E.
    assert (R1 : 1 <= r).
    { destruct (N.eq_dec r 0) as [-> | NZ]; [change (base ^ 0) with 1 in E; lia | lia]. }
    rewrite u256_sub_ok by exact R1. cbn [bind].
    rewrite small_arg by lia.
    assert (Ple : base ^ (r - 1) <= base ^ r) by (apply pow_le_pow; lia).
    rewrite u256_pow_fits by lia. cbn [bind].
    apply IH; try assumption; try lia.
    replace (r - 1 + 1) with r by lia. exact E.
  - apply N.ltb_ge in E. exists r. split; [reflexivity | split; assumption].
Qed.

Lemma u256_div_ok fl a b : b <> 0 -> u256_div fl a b = Ret (a / b).
Proof. intros H. unfold u256_div, wq, wq_div. rewrite wide_div_ok by exact H. reflexivity. Qed.

Theorem u256_log_correct a base : a < 2 ^ 256 -> base < 2 ^ 256 -> 2 <= base -> 1 <= a ->
  log_known 256 a base = false ->
  exists r, u256_log df a base = Ret r /\ is_log base a r.
Proof.
  intros Ha Hbase Hb H1 K. unfold u256_log. cbn [pue wrap_on unsafemath df negb].
  replace (2 <=? base) with true by (symmetry; apply N.leb_le; exact Hb).
  replace (a =? 0) with false by (symmetry; apply N.eqb_neq; lia).
  cbn [assert bind negb].
  destruct (a <? base) eqn:E.
  - apply N.ltb_lt in E. exists 0. split; [reflexivity|]. unfold is_log. change (base ^ 0) with 1.
    change (0 + 1) with 1. rewrite N.pow_1_r. lia.
  - apply N.ltb_ge in E.
    pose proof (u256_log2_fl flw a eq_refl Ha) as La.
    replace (a =? 0) with false in La by (symmetry; apply N.eqb_neq; lia).
    destruct La as (la & Ela & Ila). rewrite Ela. cbn [bind].
    pose proof (u256_log2_fl flw base eq_refl Hbase) as Lb.
    replace (base =? 0) with false in Lb by (symmetry; apply N.eqb_neq; lia).
    destruct Lb as (lb & Elb & Ilb). rewrite Elb. cbn [bind].
    apply is_log2_unique in Ila. apply is_log2_unique in Ilb. subst la lb.
    pose proof (log2_ge1 base Hb) as G1.
    rewrite u256_div_ok by lia. cbn [bind].
    pose proof (est_le a base 256 Hb Ha H1) as EL.
    pose proof (not_known 256 a base Hb E K) as Fit.
    remember (N.log2 a / N.log2 base) as est.
    assert (E32 : est < 2 ^ 32) by (change (2 ^ 32) with 4294967296; lia).
    rewrite small_arg by exact E32.
    rewrite u256_pow_fits by assumption. cbn [bind].
    apply u256_log_loop_correct; try assumption.
    + lia.
    + subst est. apply est_upper; assumption.
Qed.

(* ------------------------------------------------------------------ U128 *)
Notation W := 18446744073709551616 (only parsing).

Lemma u_div_w a b : b <> 0 -> u_div flw a b = Ret (a / b).
Proof.
  intros H. unfold u_div, u_op, exec64, alu_error.
  replace (b =? 0) with false by (symmetry; apply N.eqb_neq; exact H). reflexivity.
Qed.

Lemma u128_log2_w a : wf a -> val a <> 0 -> u128_log2 flw a = Ret (0, N.log2 (val a)).
Proof.
  intros Ha E0. unfold u128_log2. cbn [pue wrap_on unsafemath df negb].
  rewrite u128_eq_zero by exact Ha.
  replace (val a =? 0) with false by (symmetry; apply N.eqb_neq; exact E0). cbn [negb assert bind].
  destruct a as [u l]. destruct Ha as [Hu Hl]. unfold val in *. cbn [up lo fst snd] in *.
  destruct (u =? 0) eqn:Eu; cbn [negb].
  - apply N.eqb_eq in Eu. subst u. rewrite N.mul_0_l, N.add_0_l in *.
    replace (l =? 0) with false by (symmetry; apply N.eqb_neq; exact E0). cbn [negb].
    rewrite mlog2_fl by exact E0. cbn [bind]. f_equal. f_equal.
    apply is_log2_unique. apply ilog_spec; lia.
  - apply N.eqb_neq in Eu. rewrite mlog2_fl by exact Eu. cbn [bind].
    pose proof (ilog2_lt64 u ltac:(lia) Hu) as L64.
    rewrite u_add_w. cbn [bind].
    rewrite N.mod_small by (change (2 ^ 64) with W; lia).
    f_equal. f_equal. apply is_log2_unique.
    destruct (ilog_spec 2 u ltac:(lia) ltac:(lia) Hu) as [L1 L2]. remember (ilog 2 u) as r.
    unfold is_log. replace (r + 64 + 1) with (r + 1 + 64) by lia. rewrite !N.pow_add_r.
    split.
    + assert (2 ^ r * 2 ^ 64 <= u * 2 ^ 64) by (apply N.mul_le_mono_r; exact L1). lia.
    + assert ((u + 1) * 2 ^ 64 <= 2 ^ r * 2 ^ 1 * 2 ^ 64).
      { apply N.mul_le_mono_r. rewrite <- N.pow_add_r. lia. }
      lia.
Qed.

(* u128_checked_mul with F_WRAPPING set, when the product fits *)
Lemma checked_case_w (l1 l2 x A B C D : N) : l1 < 2 ^ 64 -> l2 < 2 ^ 64 -> x < 2 ^ 64 ->
  A * B = l1 * l2 -> C * D = x * l2 -> (x * 2 ^ 64 + l1) * l2 < 2 ^ 128 ->
  (let* r := overflowing_mul flw A B in
   let* m := u_mul flw C D in
   let* s := u64_checked_add flw (up r) m in
   match s with None => Ret None | Some v => Ret (Some (v, lo r)) end) =
  Ret (Some (split ((x * 2 ^ 64 + l1) * l2))).
Proof.
  intros H1 H2 Hx HAB HCD Hfit. rewrite overflowing_mul_w. cbn [bind up lo fst snd].
  rewrite u_mul_w. cbn [bind]. rewrite HAB, HCD.
  remember (l1 * l2) as p. remember (x * l2) as q.
  assert (E : (x * 2 ^ 64 + l1) * l2 = q * 2 ^ 64 + p) by (subst p q; ring).
  rewrite E in *. change (2 ^ 128) with (W * W) in Hfit. change (2 ^ 64) with W in *.
  assert (Q : q < W) by lia.
  rewrite (N.mod_small q) by exact Q.
  unfold u64_checked_add.
  change (exec64 flw ADD (p / W) q) with (exec64 {| unsafemath := false; wrapping := true |} ADD (p / W) q).
  rewrite add_wrapping. cbn [vm bind of].
  assert (S : p / W + q < W) by lia.
  change (2 ^ 64) with W. rewrite (N.div_small (p / W + q)) by exact S. cbn [negb N.eqb].
  replace (0 =? 0) with true by reflexivity. cbn [negb].
  rewrite u_add_w. cbn [bind]. change (2 ^ 64) with W. rewrite N.mod_small by exact S.
  f_equal. f_equal. unfold split. change (2 ^ 64) with W.
  rewrite N.div_add_l by discriminate. rewrite (N.add_comm (q * W) p), N.mod_add by discriminate.
  rewrite (N.add_comm q). reflexivity.
Qed.

Lemma pow_mul_w_fits a b : wf a -> wf b -> val a * val b < 2 ^ 128 ->
  pow_mul flw a b = Ret (PVal (split (val a * val b))).
Proof.
  destruct a as [u1 l1], b as [u2 l2]. unfold wf, val; cbn [up lo fst snd]. intros [Hu1 Hl1] [Hu2 Hl2] Hfit.
  unfold pow_mul, u128_checked_mul; cbn [up lo fst snd].
  destruct (u1 =? 0) eqn:E1.
  - apply N.eqb_eq in E1. subst u1. cbn [negb andb].
    replace ((0 * 2 ^ 64 + l1) * (u2 * 2 ^ 64 + l2)) with ((u2 * 2 ^ 64 + l2) * l1) in * by lia.
    rewrite (checked_case_w l2 l1 u2 l1 l2 l1 u2 Hl2 Hl1 Hu2) by (try lia; exact Hfit). reflexivity.
  - destruct (u2 =? 0) eqn:E2.
    + apply N.eqb_eq in E2. subst u2. cbn [negb andb].
      replace ((u1 * 2 ^ 64 + l1) * (0 * 2 ^ 64 + l2)) with ((u1 * 2 ^ 64 + l1) * l2) in * by lia.
      rewrite (checked_case_w l1 l2 u1 l1 l2 u1 l2 Hl1 Hl2 Hu1) by (try lia; exact Hfit). reflexivity.
    + exfalso. apply N.eqb_neq in E1. apply N.eqb_neq in E2.
      assert (2 ^ 64 * 2 ^ 64 <= (u1 * 2 ^ 64 + l1) * (u2 * 2 ^ 64 + l2))
        by (apply N.mul_le_mono; change (2 ^ 64) with W; lia).
      change (2 ^ 128) with (2 ^ 64 * 2 ^ 64) in Hfit. lia.
Qed.

Lemma pow_mul_df_fits a b : wf a -> wf b -> val a * val b < 2 ^ 128 ->
  pow_mul df a b = Ret (PVal (split (val a * val b))).
Proof.
  intros Ha Hb Hfit. pose proof (pow_mul_df a b Ha Hb) as P.
  destruct (pow_mul df a b) as [[r |] | c | p |]; try contradiction; try lia.
  destruct P as [_ ->]. reflexivity.
Qed.

Lemma pow_loop1_w : forall fuel value e, wf value -> 1 <= e -> e < 2 ^ 64 -> val value ^ e < 2 ^ 128 ->
  pow_loop1 flw fuel value e = pow_loop1 df fuel value e.
Proof.
  induction fuel as [| fuel IH]; intros value e Hv He Hlt Hfit; [reflexivity|].
  cbn [pow_loop1]. rewrite land1_mod2. destruct (e mod 2 =? 0) eqn:E; [|reflexivity].
  apply N.eqb_eq in E.
  assert (E2 : 1 <= e / 2) by (apply N.div_le_lower_bound; [discriminate|]; pose proof (N.div_mod e 2 ltac:(discriminate)); lia).
  rewrite (pow_even _ _ E) in Hfit.
  pose proof (pow_ge_base (val value * val value) (e / 2) E2) as G.
  rewrite pow_mul_w_fits, pow_mul_df_fits by (try assumption; lia). cbn [bind].
  rewrite !srl1 by exact Hlt.
  apply IH.
  - apply wf_split. lia.
  - exact E2.
  - pose proof (div_le_self e 2 ltac:(lia)). lia.
  - rewrite val_split. exact Hfit.
Qed.

Lemma pow_loop2_w : forall fuel value acc e, wf value -> wf acc -> 1 <= e -> e < 2 ^ 64 ->
  (val value = 0 \/ 1 <= val acc) -> val acc * (val value * val value) ^ (e / 2) < 2 ^ 128 ->
  pow_loop2 flw fuel value acc e = pow_loop2 df fuel value acc e.
Proof.
  induction fuel as [| fuel IH]; intros value acc e Hv Hacc He Hlt Hnz Hfit; [reflexivity|].
  cbn [pow_loop2]. destruct (1 <? e) eqn:E1; [|reflexivity].
  apply N.ltb_lt in E1. rewrite !srl1 by exact Hlt. rewrite land1_mod2.
  assert (E2 : 1 <= e / 2) by (apply N.div_le_lower_bound; [discriminate|]; lia).
  assert (L2 : e / 2 < 2 ^ 64) by (pose proof (div_le_self e 2 ltac:(lia)); lia).
  remember (val value * val value) as vv.
  assert (Fvv : vv < 2 ^ 128).
  { destruct Hnz as [Z | P]; [subst vv; rewrite Z; vm_compute; reflexivity|].
    pose proof (pow_ge_base vv (e / 2) E2). nia. }
  rewrite pow_mul_w_fits, pow_mul_df_fits by (try assumption; rewrite <- Heqvv; exact Fvv). cbn [bind].
  rewrite <- Heqvv.
  assert (W2 : wf (split vv)) by (apply wf_split; exact Fvv).
  destruct (e / 2 mod 2 =? 1) eqn:Eo.
  - apply N.eqb_eq in Eo. rewrite (pow_odd vv (e / 2) Eo) in Hfit.
    assert (Fa : val acc * vv < 2 ^ 128).
    { destruct (N.eq_dec vv 0) as [Zv | NZv]; [rewrite Zv, N.mul_0_r; vm_compute; reflexivity|].
      pose proof (pow_pos_ge1 (vv * vv) (e / 2 / 2) ltac:(nia)). nia. }
    rewrite pow_mul_w_fits, pow_mul_df_fits by (try assumption; rewrite val_split; exact Fa). cbn [bind].
    rewrite val_split.
    apply IH; try assumption.
    + apply wf_split. exact Fa.
    + rewrite val_split.
      destruct Hnz as [Z | P]; [left; subst vv; rewrite Z; reflexivity|].
      destruct (N.eq_dec vv 0) as [Zv | NZv]; [left; exact Zv | right; rewrite val_split; nia].
    + rewrite !val_split. rewrite <- N.mul_assoc. exact Hfit.
  - apply N.eqb_neq in Eo.
    assert (Ev : e / 2 mod 2 = 0) by (pose proof (N.mod_lt (e / 2) 2 ltac:(discriminate)); lia).
    rewrite (pow_even vv (e / 2) Ev) in Hfit.
    apply IH; try assumption.
    + rewrite val_split. destruct Hnz as [Z | P]; [left; subst vv; rewrite Z; reflexivity | right; exact P].
    + rewrite val_split. exact Hfit.
Qed.

Lemma u128_pow_w_fits a e : wf a -> e < 2 ^ 32 -> val a ^ e < 2 ^ 128 ->
  u128_pow flw a e = Ret (split (val a ^ e)).
Proof.
  intros Ha He Hfit.
  assert (D : u128_pow df a e = Ret (split (val a ^ e))).
  { pose proof (u128_pow_correct a e Ha He) as P. destruct (u128_pow df a e) as [r | c | p |]; try contradiction; try lia.
    destruct P as [_ ->]. reflexivity. }
  rewrite <- D. unfold u128_pow, u128_pow_fuel.
  destruct (e =? 0) eqn:E0; [reflexivity|]. apply N.eqb_neq in E0.
  destruct (e =? 1) eqn:E1; [reflexivity|]. apply N.eqb_neq in E1.
  assert (L64 : e < 2 ^ 64) by (change (2 ^ 32) with 4294967296 in He; change (2 ^ 64) with W; lia).
  rewrite pow_loop1_w by (try assumption; lia).
  pose proof (pow_loop1_correct 40 a e Ha ltac:(lia) L64) as P1.
  destruct (pow_loop1 df 40 a e) as [[[v |] e'] | c | p |] eqn:El; cbn [bind];
    [| reflexivity | reflexivity | reflexivity | reflexivity].
  destruct P1 as (Wv & Pv & Odd & Le').
  destruct (e' =? 1) eqn:Ee; [reflexivity|]. apply N.eqb_neq in Ee.
  assert (E1' : 1 <= e') by (destruct (N.eq_dec e' 0) as [Z | NZ]; [rewrite Z in Odd; discriminate | lia]).
  apply pow_loop2_w; try assumption.
  - destruct (N.eq_dec (val v) 0); [left; assumption | right; lia].
  - rewrite <- (pow_odd (val v) e' Odd). rewrite Pv. exact Hfit.
Qed.

Lemma land_ones32 r : r < 2 ^ 32 -> N.land r (N.ones 32) = r.
Proof. intros H. rewrite N.land_ones. apply N.mod_small. exact H. Qed.

Lemma u128_log_loop_correct : forall fuel r a base,
  (N.to_nat r < fuel)%nat -> wf a -> wf base -> 2 <= val base -> 1 <= val a -> r < 2 ^ 32 ->
  val base ^ r < 2 ^ 128 -> val a < val base ^ (r + 1) ->
  exists r', log_loop fuel flw a base (0, r) (split (val base ^ r)) OF_AFTER_POW = Ret (0, r') /\
             r' < 2 ^ 32 /\ is_log (val base) (val a) r'.
Proof.
  induction fuel as [| fuel IH]; intros r a base Hf Ha Hbase Hb Hs Hr Hfit Hup; [lia|].
  cbn [log_loop]. change (0 <? OF_AFTER_POW) with false. rewrite orb_false_r.
  rewrite u128_gt_spec by (try assumption; apply wf_split; exact Hfit). rewrite val_split.
  destruct (val a <? val base ^ r) eqn:E.
  - apply N.ltb_lt in E.
    assert (R1 : 1 <= r).
    { destruct (N.eq_dec r 0) as [-> | NZ]; [change (val base ^ 0) with 1 in E; lia | lia]. }
    assert (Wr : wf (0, r)) by (unfold wf; cbn [up lo fst snd]; split; [reflexivity | change (2 ^ 32) with 4294967296 in Hr; change (2 ^ 64) with W; lia]).
    assert (W1 : wf (0, 1)) by (unfold wf; cbn [up lo fst snd]; split; reflexivity).
    rewrite u128_sub_wrapping by assumption.
    replace (val (0, r)) with r by (unfold val; cbn [up lo fst snd]; lia).
    replace (val (0, 1)) with 1 by reflexivity.
    replace ((2 ^ 128 + r - 1) mod 2 ^ 128) with (r - 1).
    2:{ replace (2 ^ 128 + r - 1) with (r - 1 + 1 * 2 ^ 128) by lia. rewrite N.mod_add by discriminate.
        symmetry. apply N.mod_small. change (2 ^ 32) with 4294967296 in Hr. change (2 ^ 128) with (W * W). lia. }
    cbn [bind].
    replace (split (r - 1)) with (0, r - 1).
    2:{ rewrite <- (N.add_0_l (r - 1)) at 2. rewrite <- (N.mul_0_l (2 ^ 64)). rewrite split_mk; [reflexivity|].
        change (2 ^ 32) with 4294967296 in Hr. change (2 ^ 64) with W. lia. }
    cbn [lo snd]. rewrite land_ones32 by lia.
    assert (Ple : val base ^ (r - 1) <= val base ^ r) by (apply pow_le_pow; lia).
    rewrite u128_pow_w_fits by (try assumption; lia). cbn [bind].
    apply IH; try assumption; try lia.
    replace (r - 1 + 1) with r by lia. exact E.
  - apply N.ltb_ge in E. exists r. split; [reflexivity|]. split; [exact Hr | split; assumption].
Qed.

Theorem u128_log_correct a base : wf a -> wf base -> 2 <= val base -> 1 <= val a ->
  log_known 128 (val a) (val base) = false ->
  exists r, u128_log df a base = Ret r /\ wf r /\ is_log (val base) (val a) (val r).
Proof.
  intros Ha Hbase Hb H1 K. unfold u128_log, u128_log_fuel. cbn [pue wrap_on unsafemath df negb].
  assert (W2 : wf (0, 2)) by (unfold wf; cbn [up lo fst snd]; split; reflexivity).
  rewrite u128_ge_spec by assumption. replace (val (0, 2)) with 2 by reflexivity.
  replace (2 <=? val base) with true by (symmetry; apply N.leb_le; exact Hb).
  rewrite u128_eq_zero by exact Ha.
  replace (val a =? 0) with false by (symmetry; apply N.eqb_neq; lia).
  cbn [assert bind negb].
  rewrite u128_lt_spec by assumption.
  destruct (val a <? val base) eqn:E.
  - apply N.ltb_lt in E. exists u128_zero. split; [reflexivity|]. split; [apply wf_zero|].
    rewrite val_zero. unfold is_log. change (val base ^ 0) with 1. change (0 + 1) with 1. rewrite N.pow_1_r. lia.
  - apply N.ltb_ge in E.
    rewrite (u128_log2_w a Ha) by lia. cbn [bind].
    rewrite (u128_log2_w base Hbase) by lia. cbn [bind].
    pose proof (log2_ge1 (val base) Hb) as G1.
    unfold u128_div, u128_div_fuel. cbn [pue wrap_on unsafemath df negb].
    assert (Wl : wf (0, N.log2 (val base))).
    { unfold wf; cbn [up lo fst snd]. split; [reflexivity|].
      assert (N.log2 (val base) < 128) by (apply N.log2_lt_pow2; [lia | apply val_lt; exact Hbase]).
      change (2 ^ 64) with W. lia. }
    rewrite u128_eq_zero by exact Wl.
    replace (val (0, N.log2 (val base))) with (N.log2 (val base)) by (unfold val; cbn [up lo fst snd]; lia).
    replace (N.log2 (val base) =? 0) with false by (symmetry; apply N.eqb_neq; lia).
    cbn [negb assert bind up lo fst snd]. replace (0 =? 0) with true by reflexivity. cbn [andb].
    rewrite u_div_w by lia. cbn [bind].
    pose proof (est_le (val a) (val base) 128 Hb (val_lt a Ha) H1) as EL.
    pose proof (not_known 128 (val a) (val base) Hb E K) as Fit.
    remember (N.log2 (val a) / N.log2 (val base)) as est.
    assert (E32 : est < 2 ^ 32) by (change (2 ^ 32) with 4294967296; lia).
    cbn [lo snd]. rewrite land_ones32 by exact E32.
    rewrite u128_pow_w_fits by assumption. cbn [bind].
    destruct (u128_log_loop_correct 140 est a base) as (r' & Er & R32 & Lr); try assumption.
    + lia.
    + subst est. apply est_upper; assumption.
    + exists (0, r'). split; [exact Er|]. split.
      * unfold wf; cbn [up lo fst snd]. split; [reflexivity|]. change (2 ^ 32) with 4294967296 in R32. change (2 ^ 64) with W. lia.
      * replace (val (0, r')) with r' by (unfold val; cbn [up lo fst snd]; lia). exact Lr.
Qed.
