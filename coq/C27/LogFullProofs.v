(* C27 — Logarithm for u256 (math.sw) and U128 (u128.sw) outside the known class:
   forall x base, log_known w x base = false -> log returns the floor logarithm. *)
From Coq Require Import NArith ZArith List Bool Lia.
From SwayV Require Import Vm.Alu Vm.AluProofs C27.NumModel C27.Spec C27.LogSpec C27.NumProofs C27.DivProofs
  C27.SqrtProofs C27.LogProofs C27.PowProofs C27.NarrowProofs C27.U256Proofs C27.WrapProofs.
Local Open Scope N_scope.
Arguments N.add : simpl never.
Arguments N.sub : simpl never.
Arguments N.mul : simpl never.
Arguments N.div : simpl never.
Arguments N.modulo : simpl never.
Arguments N.pow : simpl never.
Arguments N.eqb : simpl never.
Arguments N.ltb : simpl never.
Arguments N.leb : simpl never.
Arguments N.land : simpl never.
Arguments N.log2 : simpl never.
Arguments N.ones : simpl never.

Notation df := default_flags.
Notation flw := (wrap_on default_flags).

(* ------------------------------------------------------------------ arithmetic of the estimate *)
Lemma is_log2_unique a r : is_log 2 a r -> r = N.log2 a.
Proof.
  intros [H1 H2]. symmetry. apply N.log2_unique; [lia|]. rewrite <- N.add_1_r. split; assumption.
Qed.

Lemma log2_ge1 b : 2 <= b -> 1 <= N.log2 b.
Proof. intros H. change 1 with (N.log2 2). apply N.log2_le_mono. exact H. Qed.

(* the estimate is never too small *)
Lemma est_upper x b : 2 <= b -> 1 <= x -> x < b ^ (N.log2 x / N.log2 b + 1).
Proof.
  intros Hb Hx. pose proof (log2_ge1 b Hb) as Hl.
  destruct (N.log2_spec x ltac:(lia)) as [_ X2]. destruct (N.log2_spec b ltac:(lia)) as [B1 _].
  remember (N.log2 x) as L. remember (N.log2 b) as lb.
  assert (E : L < lb * (L / lb + 1)).
  { pose proof (N.div_mod L lb ltac:(lia)). pose proof (N.mod_lt L lb ltac:(lia)). lia. }
  assert (P1 : 2 ^ N.succ L <= 2 ^ (lb * (L / lb + 1))) by (apply N.pow_le_mono_r; lia).
  rewrite N.pow_mul_r in P1.
  assert (P2 : (2 ^ lb) ^ (L / lb + 1) <= b ^ (L / lb + 1)) by (apply N.pow_le_mono_l; exact B1).
  lia.
Qed.

Lemma est_le x b w : 2 <= b -> x < 2 ^ w -> 1 <= x -> N.log2 x / N.log2 b < w.
Proof.
  intros Hb Hx H1. pose proof (log2_ge1 b Hb).
  assert (N.log2 x < w) by (apply N.log2_lt_pow2; lia).
  assert (N.log2 x / N.log2 b <= N.log2 x) by (apply div_le_self; lia). lia.
Qed.

Lemma pow_le_pow b r r' : 1 <= b -> r' <= r -> b ^ r' <= b ^ r.
Proof. intros Hb H. apply N.pow_le_mono_r; lia. Qed.

Lemma not_known w x b : 2 <= b -> b <= x -> log_known w x b = false ->
  b ^ (N.log2 x / N.log2 b) < 2 ^ w.
Proof.
  intros Hb Hx K. unfold log_known in K.
  replace (2 <=? b) with true in K by (symmetry; apply N.leb_le; exact Hb).
  replace (b <=? x) with true in K by (symmetry; apply N.leb_le; exact Hx).
  cbn [andb] in K. apply N.leb_gt in K. exact K.
Qed.

(* ------------------------------------------------------------------ u256 *)
Lemma u256_checked_mul_fits fl a b : a * b < 2 ^ 256 -> u256_checked_mul fl a b = Ret (Some (a * b)).
Proof. intros H. unfold u256_checked_mul, wq_mul. rewrite wide_mul_ok by exact H. reflexivity. Qed.

(* when the target fits, the loop does the same under any flags *)
Lemma u256_pow_loop_fits : forall fl fuel base acc e, 1 <= e -> e < 2 ^ 64 -> (base = 0 \/ 1 <= acc) ->
  acc * base ^ e < 2 ^ 256 ->
  u256_pow_loop fl fuel base acc e = u256_pow_loop df fuel base acc e.
Proof.
  induction fuel as [| fuel IH]; intros base acc e He Hlt Hnz Hfit; [reflexivity|].
  cbn [u256_pow_loop]. destruct (1 <? e) eqn:E1; [|reflexivity].
  apply N.ltb_lt in E1. rewrite land1_mod2.
  assert (E2 : 1 <= e / 2) by (apply N.div_le_lower_bound; [discriminate|]; lia).
  assert (L2 : e / 2 < 2 ^ 64) by (pose proof (div_le_self e 2 ltac:(lia)); lia).
  destruct (e mod 2 =? 1) eqn:Eo.
  - apply N.eqb_eq in Eo. rewrite (pow_odd base e Eo) in Hfit.
    destruct (N.eq_dec base 0) as [Zb | NZb].
    + subst base.
      rewrite !(u256_checked_mul_fits _ acc 0) by (rewrite N.mul_0_r; vm_compute; reflexivity). cbn [bind].
      rewrite !(u256_checked_mul_fits _ 0 0) by (vm_compute; reflexivity). cbn [bind].
      rewrite !srl1 by exact Hlt. apply IH; [exact E2 | exact L2 | left; reflexivity |].
      rewrite N.mul_0_r, N.mul_0_l. vm_compute. reflexivity.
    + pose proof (pow_pos_ge1 (base * base) (e / 2) ltac:(nia)) as G1.
      pose proof (pow_ge_base (base * base) (e / 2) E2) as G2.
      assert (A1 : 1 <= acc) by (destruct Hnz; [contradiction | assumption]).
      assert (F1 : acc * base < 2 ^ 256) by nia.
      assert (F2 : base * base < 2 ^ 256) by nia.
      rewrite !(u256_checked_mul_fits _ acc base) by exact F1. cbn [bind].
      rewrite !(u256_checked_mul_fits _ base base) by exact F2. cbn [bind].
      rewrite !srl1 by exact Hlt. apply IH; [exact E2 | exact L2 | right; nia |]. rewrite <- N.mul_assoc. exact Hfit.
  - apply N.eqb_neq in Eo. cbn [bind].
    assert (Ev : e mod 2 = 0) by (pose proof (N.mod_lt e 2 ltac:(discriminate)); lia).
    rewrite (pow_even base e Ev) in Hfit.
    assert (F2 : base * base < 2 ^ 256).
    { destruct Hnz as [Z | P]; [rewrite Z; vm_compute; reflexivity|].
      pose proof (pow_ge_base (base * base) (e / 2) E2). nia. }
    rewrite !(u256_checked_mul_fits _ base base) by exact F2. cbn [bind].
    rewrite !srl1 by exact Hlt. apply IH; [exact E2 | exact L2 | | exact Hfit].
    destruct Hnz as [Z | P]; [left; rewrite Z; reflexivity | right; exact P].
Qed.

Lemma u256_pow_fits fl a e : e < 2 ^ 32 -> a ^ e < 2 ^ 256 -> u256_pow fl a e = Ret (a ^ e).
Proof.
  intros He Hfit.
  assert (D : u256_pow df a e = Ret (a ^ e)).
  { pose proof (u256_pow_full a e He) as P. destruct (u256_pow df a e) as [r | c | p |]; try contradiction; try lia.
    destruct P as [_ ->]. reflexivity. }
  rewrite <- D. unfold u256_pow. destruct (e =? 0) eqn:E0; [reflexivity|]. apply N.eqb_neq in E0.
  assert (L64 : e < 2 ^ 64) by (change (2 ^ 32) with 4294967296 in He; change (2 ^ 64) with 18446744073709551616; lia).
  rewrite (u256_pow_loop_fits fl 40 a 1 e) by (try lia; rewrite N.mul_1_l; exact Hfit).
  pose proof (u256_pow_loop_correct 40 a 1 e ltac:(lia) L64 ltac:(right; lia)) as P. rewrite N.mul_1_l in P.
  destruct (u256_pow_loop df 40 a 1 e) as [[[b' a'] |] | c | p |]; cbn [bind]; try reflexivity.
  rewrite !u256_checked_mul_fits by (rewrite P; exact Hfit). reflexivity.
Qed.

Lemma small_arg r : r < 2 ^ 32 -> N.land (limb r 0) (N.ones 32) = r.
Proof.
  intros H. rewrite limb_val. change (64 * 0) with 0. change (2 ^ 0) with 1. rewrite N.div_1_r.
  rewrite N.land_ones. change (2 ^ 32) with 4294967296 in *. change (2 ^ 64) with 18446744073709551616.
  rewrite (N.mod_small r 18446744073709551616) by lia. apply N.mod_small. exact H.
Qed.

Lemma u256_sub_ok fl a b : b <= a -> u256_sub fl a b = Ret (a - b).
Proof. intros H. unfold u256_sub, wq, wq_op. rewrite wide_sub_ok by exact H. reflexivity. Qed.

Lemma u256_log_loop_correct : forall fuel r self base,
  (N.to_nat r < fuel)%nat -> 2 <= base -> 1 <= self -> r < 2 ^ 32 ->
  base ^ r < 2 ^ 256 -> self < base ^ (r + 1) ->
  exists r', u256_log_loop fuel flw self base r (base ^ r) OF_AFTER_POW = Ret r' /\ is_log base self r'.
Proof.
  induction fuel as [| fuel IH]; intros r self base Hf Hb Hs Hr Hfit Hup; [lia|].
  cbn [u256_log_loop]. change (0 <? OF_AFTER_POW) with false. rewrite orb_false_r.
  destruct (self <? base ^ r) eqn:E.
  - apply N.ltb_lt in E.
    assert (R1 : 1 <= r).
    { destruct (N.eq_dec r 0) as [-> | NZ]; [change (base ^ 0) with 1 in E; lia | lia]. }
    rewrite u256_sub_ok by exact R1. cbn [bind].
    rewrite small_arg by lia.
    assert (Ple : base ^ (r - 1) <= base ^ r) by (apply pow_le_pow; lia).
    rewrite u256_pow_fits by lia. cbn [bind].
    apply IH; try assumption; try lia.
    replace (r - 1 + 1) with r by lia. exact E.
  - apply N.ltb_ge in E. exists r. split; [reflexivity | split; assumption].
Qed.

Lemma u256_div_ok fl a b : b <> 0 -> u256_div fl a b = Ret (a / b).
Proof. intros H. unfold u256_div, wq, wq_div. rewrite wide_div_ok by exact H. reflexivity. Qed.

Theorem u256_log_correct a base : a < 2 ^ 256 -> base < 2 ^ 256 -> 2 <= base -> 1 <= a ->
  log_known 256 a base = false ->
  exists r, u256_log df a base = Ret r /\ is_log base a r.
Proof.
  intros Ha Hbase Hb H1 K. unfold u256_log. cbn [pue wrap_on unsafemath df negb].
  replace (2 <=? base) with true by (symmetry; apply N.leb_le; exact Hb).
  replace (a =? 0) with false by (symmetry; apply N.eqb_neq; lia).
  cbn [assert bind negb].
  destruct (a <? base) eqn:E.
  - apply N.ltb_lt in E. exists 0. split; [reflexivity|]. unfold is_log. change (base ^ 0) with 1.
    change (0 + 1) with 1. rewrite N.pow_1_r. lia.
  - apply N.ltb_ge in E.
    pose proof (u256_log2_fl flw a eq_refl Ha) as La.
    replace (a =? 0) with false in La by (symmetry; apply N.eqb_neq; lia).
    destruct La as (la & Ela & Ila). rewrite Ela. cbn [bind].
    pose proof (u256_log2_fl flw base eq_refl Hbase) as Lb.
    replace (base =? 0) with false in Lb by (symmetry; apply N.eqb_neq; lia).
    destruct Lb as (lb & Elb & Ilb). rewrite Elb. cbn [bind].
    apply is_log2_unique in Ila. apply is_log2_unique in Ilb. subst la lb.
    pose proof (log2_ge1 base Hb) as G1.
    rewrite u256_div_ok by lia. cbn [bind].
    pose proof (est_le a base 256 Hb Ha H1) as EL.
    pose proof (not_known 256 a base Hb E K) as Fit.
    remember (N.log2 a / N.log2 base) as est.
    assert (E32 : est < 2 ^ 32) by (change (2 ^ 32) with 4294967296; lia).
    rewrite small_arg by exact E32.
    rewrite u256_pow_fits by assumption. cbn [bind].
    apply u256_log_loop_correct; try assumption.
    + lia.
    + subst est. apply est_upper; assumption.
Qed.
