(* C27 — Vec/Bytes buffer model refines the list reference. *)
From Coq Require Import NArith ZArith List Bool Lia Arith.
From SwayV Require Import Vm.Alu Vm.AluProofs C27.NumModel C27.CollModel C27.Spec C27.CollSpec C27.NumProofs.
Import ListNotations.

(* ------------------------------------------------------------------ list lemmas (nat indices) *)
Lemma length_write i x b : length (write i x b) = length b.
Proof. revert i. induction b as [| h t IH]; intros [| i]; cbn; auto. Qed.

Lemma nth_write b : forall i x j d,
  nth j (write i x b) d = if (j =? i)%nat && (i <? length b)%nat then x else nth j b d.
Proof.
  induction b as [| h t IH]; intros i x j d.
  - cbn. destruct i, j; cbn; try reflexivity; rewrite ?andb_false_r; reflexivity.
  - destruct i as [| i], j as [| j]; cbn [write nth length]; try reflexivity.
    rewrite IH. replace (S j =? S i)%nat with (j =? i)%nat by reflexivity.
    replace (S i <? S (length t))%nat with (i <? length t)%nat by reflexivity. reflexivity.
Qed.

Lemma nth_firstn_lt {A} (l : list A) : forall n j d, (j < n)%nat -> nth j (firstn n l) d = nth j l d.
Proof.
  induction l as [| h t IH]; intros n j d H.
  - rewrite firstn_nil. reflexivity.
  - destruct n as [| n]; [lia|]. destruct j as [| j]; cbn; [reflexivity|]. apply IH. lia.
Qed.

Lemma nth_skipn_add {A} (l : list A) : forall i j d, nth j (skipn i l) d = nth (i + j) l d.
Proof.
  induction l as [| h t IH]; intros i j d.
  - rewrite skipn_nil. destruct j, i; reflexivity.
  - destruct i as [| i]; cbn; [reflexivity|]. apply IH.
Qed.

Lemma firstn_write_comm b : forall n i x, firstn n (write i x b) = write i x (firstn n b).
Proof.
  induction b as [| h t IH]; intros n i x.
  - destruct n, i; reflexivity.
  - destruct n as [| n]; [destruct i; reflexivity|].
    destruct i as [| i]; cbn; [reflexivity|]. rewrite IH. reflexivity.
Qed.

Lemma firstn_write_beyond b : forall n i x, (n <= i)%nat -> firstn n (write i x b) = firstn n b.
Proof.
  induction b as [| h t IH]; intros n i x H.
  - destruct i; reflexivity.
  - destruct n as [| n]; [reflexivity|]. destruct i as [| i]; [lia|]. cbn. rewrite IH by lia. reflexivity.
Qed.

(* remove's loop *)
Lemma nth_shift_down : forall k i b j, (i + k < length b)%nat ->
  nth j (shift_down k i b) 0%N =
  if (i <=? j)%nat && (j <? i + k)%nat then nth (S j) b 0%N else nth j b 0%N.
Proof.
  induction k as [| k IH]; intros i b j H.
  - cbn [shift_down]. rewrite Nat.add_0_r.
    destruct (i <=? j)%nat eqn:E1, (j <? i)%nat eqn:E2; cbn [andb]; try reflexivity.
    apply Nat.leb_le in E1. apply Nat.ltb_lt in E2. lia.
  - cbn [shift_down]. rewrite IH by (rewrite length_write; lia).
    unfold rd. rewrite !nth_write.
    destruct (i <=? j)%nat eqn:E1, (j <? i + S k)%nat eqn:E2, (S i <=? j)%nat eqn:E3, (j <? S i + k)%nat eqn:E4,
             (S j =? i)%nat eqn:E5, (j =? i)%nat eqn:E6, (i <? length b)%nat eqn:E7; cbn [andb];
      repeat match goal with
             | H : (_ <=? _)%nat = true |- _ => apply Nat.leb_le in H
             | H : (_ <=? _)%nat = false |- _ => apply Nat.leb_gt in H
             | H : (_ <? _)%nat = true |- _ => apply Nat.ltb_lt in H
             | H : (_ <? _)%nat = false |- _ => apply Nat.ltb_ge in H
             | H : (_ =? _)%nat = true |- _ => apply Nat.eqb_eq in H
             | H : (_ =? _)%nat = false |- _ => apply Nat.eqb_neq in H
             end; try lia; try reflexivity.
    subst j. reflexivity.
Qed.

Lemma length_shift_down : forall k i b, length (shift_down k i b) = length b.
Proof. induction k as [| k IH]; intros i b; cbn; [reflexivity|]. rewrite IH, length_write. reflexivity. Qed.

(* insert's loop *)
Lemma nth_shift_up : forall k i b j, (k <= i)%nat -> (i < length b)%nat ->
  nth j (shift_up k i b) 0%N =
  if (i - k <? j)%nat && (j <=? i)%nat then nth (j - 1) b 0%N else nth j b 0%N.
Proof.
  induction k as [| k IH]; intros i b j Hk Hi.
  - cbn [shift_up]. rewrite Nat.sub_0_r. destruct (i <? j)%nat eqn:E1, (j <=? i)%nat eqn:E2; cbn [andb]; try reflexivity.
    apply Nat.ltb_lt in E1. apply Nat.leb_le in E2. lia.
  - destruct i as [| i]; [lia|]. cbn [shift_up].
    rewrite IH by (rewrite ?length_write; lia).
    unfold rd. rewrite !nth_write.
    destruct (i - k <? j)%nat eqn:E1, (j <=? i)%nat eqn:E2, (S i - S k <? j)%nat eqn:E3, (j <=? S i)%nat eqn:E4,
             (j - 1 =? S i)%nat eqn:E5, (j =? S i)%nat eqn:E6, (S i <? length b)%nat eqn:E7; cbn [andb];
      repeat match goal with
             | H : (_ <=? _)%nat = true |- _ => apply Nat.leb_le in H
             | H : (_ <=? _)%nat = false |- _ => apply Nat.leb_gt in H
             | H : (_ <? _)%nat = true |- _ => apply Nat.ltb_lt in H
             | H : (_ <? _)%nat = false |- _ => apply Nat.ltb_ge in H
             | H : (_ =? _)%nat = true |- _ => apply Nat.eqb_eq in H
             | H : (_ =? _)%nat = false |- _ => apply Nat.eqb_neq in H
             end; try lia; try reflexivity.
    subst j. replace (S i - 1)%nat with i by lia. reflexivity.
Qed.

Lemma length_shift_up : forall k i b, length (shift_up k i b) = length b.
Proof.
  induction k as [| k IH]; intros i b; cbn; [reflexivity|].
  destruct i; [reflexivity|]. rewrite IH, length_write. reflexivity.
Qed.

(* the two loops against the list operations *)
Lemma remove_refines b i L : (i < L)%nat -> (L <= length b)%nat ->
  firstn (L - 1) (shift_down (L - 1 - i) i b) = lremove i (firstn L b).
Proof.
  intros Hi HL. unfold lremove.
  apply (nth_ext _ _ 0%N 0%N).
  - rewrite firstn_length, length_shift_down, app_length, firstn_length, skipn_length, firstn_length. lia.
  - intros j Hj. rewrite firstn_length, length_shift_down in Hj.
    rewrite nth_firstn_lt by lia. rewrite nth_shift_down by lia.
    destruct (Nat.lt_ge_cases j i) as [Hlt | Hge].
    + replace (i <=? j)%nat with false by (symmetry; apply Nat.leb_gt; lia). cbn [andb].
      rewrite app_nth1 by (rewrite firstn_length, firstn_length; lia).
      rewrite !nth_firstn_lt by lia. reflexivity.
    + replace (i <=? j)%nat with true by (symmetry; apply Nat.leb_le; lia).
      replace (j <? i + (L - 1 - i))%nat with true by (symmetry; apply Nat.ltb_lt; lia). cbn [andb].
      rewrite app_nth2 by (rewrite firstn_length, firstn_length; lia).
      rewrite firstn_length, firstn_length. replace (Nat.min i (Nat.min L (length b))) with i by lia.
      rewrite nth_skipn_add. rewrite nth_firstn_lt by lia. f_equal. lia.
Qed.

Lemma insert_refines b i L x : (i <= L)%nat -> (L < length b)%nat ->
  firstn (S L) (write i x (shift_up (L - i) L b)) = linsert i x (firstn L b).
Proof.
  intros Hi HL. unfold linsert.
  apply (nth_ext _ _ 0%N 0%N).
  - rewrite firstn_length, length_write, length_shift_up, app_length, firstn_length. cbn [length].
    rewrite skipn_length, firstn_length. lia.
  - intros j Hj. rewrite firstn_length, length_write, length_shift_up in Hj.
    rewrite nth_firstn_lt by lia. rewrite nth_write, length_shift_up.
    replace (i <? length b)%nat with true by (symmetry; apply Nat.ltb_lt; lia).
    destruct (Nat.lt_trichotomy j i) as [Hlt | [Heq | Hgt]].
    + replace (j =? i)%nat with false by (symmetry; apply Nat.eqb_neq; lia). cbn [andb].
      rewrite nth_shift_up by lia.
      replace (L - (L - i) <? j)%nat with false by (symmetry; apply Nat.ltb_ge; lia). cbn [andb].
      rewrite app_nth1 by (rewrite firstn_length, firstn_length; lia).
      rewrite !nth_firstn_lt by lia. reflexivity.
    + subst j. rewrite Nat.eqb_refl. cbn [andb].
      rewrite app_nth2 by (rewrite firstn_length, firstn_length; lia).
      rewrite firstn_length, firstn_length. replace (i - Nat.min i (Nat.min L (length b)))%nat with 0%nat by lia.
      reflexivity.
    + replace (j =? i)%nat with false by (symmetry; apply Nat.eqb_neq; lia). cbn [andb].
      rewrite nth_shift_up by lia.
      replace (L - (L - i) <? j)%nat with true by (symmetry; apply Nat.ltb_lt; lia).
      replace (j <=? L)%nat with true by (symmetry; apply Nat.leb_le; lia). cbn [andb].
      rewrite app_nth2 by (rewrite firstn_length, firstn_length; lia).
      rewrite firstn_length, firstn_length. replace (Nat.min i (Nat.min L (length b))) with i by lia.
      destruct (j - i)%nat as [| m] eqn:Em; [lia|]. cbn [nth].
      rewrite nth_skipn_add. rewrite nth_firstn_lt by lia. f_equal. lia.
Qed.

Lemma push_refines b L x : (L < length b)%nat -> firstn (S L) (write L x b) = firstn L b ++ [x].
Proof.
  intros HL. pose proof (insert_refines b L L x (le_n _) HL) as E.
  replace (L - L)%nat with 0%nat in E by lia. cbn [shift_up] in E. rewrite E.
  unfold linsert. rewrite firstn_firstn. replace (Nat.min L L) with L by lia.
  rewrite skipn_all2 by (rewrite firstn_length; lia). reflexivity.
Qed.

(* ------------------------------------------------------------------ the refinement relation *)
Local Open Scope N_scope.

(* n = number of operations executed so far (ghost): bounds len and cap so that the checked u64
   arithmetic of the code cannot overflow within 2^62 operations *)
Definition R (n : N) (v : vec) (s : lstate) : Prop :=
  length (buf v) = N.to_nat (cap v) /\ len v <= cap v /\ abs v = fst s /\ cap v = snd s /\
  len v <= n /\ cap v <= 2 * n.

Lemma R_len n v s : R n v s -> N.of_nat (length (fst s)) = len v.
Proof.
  intros (Hb & Hle & Ha & _). rewrite <- Ha. unfold abs. rewrite firstn_length. lia.
Qed.

Lemma R_len_nat n v s : R n v s -> length (fst s) = N.to_nat (len v).
Proof. intros H. pose proof (R_len n v s H). lia. Qed.

Lemma R_new : R 0 vnew lnew.
Proof. unfold R, vnew, lnew, abs; cbn. repeat split; try reflexivity; lia. Qed.

Lemma nth_abs v i : (i < N.to_nat (len v))%nat -> nth i (abs v) 0 = rd i (buf v).
Proof. intros H. unfold abs, rd. apply nth_firstn_lt. exact H. Qed.

Lemma u_add1 x : x < 2 ^ 62 -> u_add df x 1 = Ret (x + 1).
Proof.
  intros H. rewrite u_add_df. replace (x + 1 <? 2 ^ 64) with true. reflexivity.
  symmetry. apply N.ltb_lt. change (2 ^ 62) with 4611686018427387904 in H.
  change (2 ^ 64) with 18446744073709551616. lia.
Qed.

Lemma u_sub1 x : 0 < x -> x < 2 ^ 62 -> u_sub df x 1 = Ret (x - 1).
Proof.
  intros H0 H. change (2 ^ 62) with 4611686018427387904 in H.
  rewrite u_sub_df by (change (2 ^ 64) with 18446744073709551616; lia).
  replace (1 <=? x) with true by (symmetry; apply N.leb_le; lia). reflexivity.
Qed.

(* ensure_room / lgrow *)
Lemma room_refines n v s : R n v s -> n < 2 ^ 62 ->
  exists v1, ensure_room v = Ret v1 /\ R (n + 1) v1 (lgrow s) /\ len v1 = len v /\ len v1 < cap v1 /\
             fst (lgrow s) = fst s.
Proof.
  intros HR Hn. pose proof (R_len n v s HR) as HL.
  destruct HR as (Hb & Hle & Ha & Hc & Hln & Hcn). destruct s as [l c]. cbn [fst snd] in *.
  change (2 ^ 62) with 4611686018427387904 in Hn.
  unfold ensure_room, lgrow. rewrite HL. subst c.
  destruct (len v =? cap v) eqn:E.
  - apply N.eqb_eq in E. unfold grow.
    destruct (cap v =? 0) eqn:E0.
    + apply N.eqb_eq in E0. cbn [bind]. eexists. split; [reflexivity|].
      unfold R, abs, realloc; cbn [cap len buf fst snd].
      replace (cap v <? 1) with true by (symmetry; apply N.ltb_lt; lia).
      rewrite app_length, repeat_length.
      repeat split; try lia.
      rewrite firstn_app. rewrite <- Ha. unfold abs. f_equal.
      replace (N.to_nat (len v) - length (buf v))%nat with 0%nat by lia. cbn. rewrite app_nil_r. reflexivity.
    + apply N.eqb_neq in E0. rewrite u_mul_df.
      replace (2 * cap v <? 2 ^ 64) with true by (symmetry; apply N.ltb_lt; change (2 ^ 64) with 18446744073709551616; lia).
      cbn [bind]. eexists. split; [reflexivity|].
      unfold R, abs, realloc; cbn [cap len buf fst snd].
      replace (cap v <? 2 * cap v) with true by (symmetry; apply N.ltb_lt; lia).
      rewrite app_length, repeat_length.
      repeat split; try lia.
      rewrite firstn_app. rewrite <- Ha. unfold abs.
      replace (N.to_nat (len v) - length (buf v))%nat with 0%nat by lia. cbn. rewrite app_nil_r. reflexivity.
  - apply N.eqb_neq in E. exists v. split; [reflexivity|].
    unfold R; cbn [fst snd]. repeat split; try assumption; try lia.
Qed.

(* one step *)
Definition step_ok (n : N) (v : vec) (s : lstate) (o : vop) : Prop :=
  match vstep v o, lstep s o with
  | Ret (v', ob), Some (s', ob') => ob = ob' /\ R (n + 1) v' s'
  | Rev c, None => c = FAILED_ASSERT_SIGNAL
  | _, _ => False
  end.

Lemma R_weaken n v s : R n v s -> R (n + 1) v s.
Proof. unfold R. intros (H1 & H2 & H3 & H4 & H5 & H6). repeat split; try assumption; lia. Qed.

Lemma step_refines n v s o : R n v s -> n < 2 ^ 62 -> step_ok n v s o.
Proof.
  intros HR Hn. pose proof (R_len n v s HR) as HL. pose proof (R_len_nat n v s HR) as HLn.
  pose proof HR as (Hb & Hle & Ha & Hc & Hln & Hcn).
  assert (Hn' : n < 4611686018427387904) by exact Hn.
  unfold step_ok. destruct o as [x | | i | i x | i x | i | i j | | | | |].
  - (* push *)
    destruct (room_refines n v s HR Hn) as (v1 & E1 & HR1 & Hl1 & Hlt1 & Hf1).
    cbn [vstep]. rewrite E1. cbn [bind].
    rewrite u_add1 by (change (2 ^ 62) with 4611686018427387904; lia). cbn [bind].
    destruct s as [l c]. cbn [lstep]. destruct (lgrow (l, c)) as [l1 c1] eqn:EG. cbn [fst snd] in *.
    split; [reflexivity|].
    destruct HR1 as (Hb1 & Hle1 & Ha1 & Hc1 & Hln1 & Hcn1). cbn [fst snd] in *.
    unfold R, abs; cbn [cap len buf fst snd]. rewrite length_write.
    repeat split; try assumption; try lia.
    replace (N.to_nat (len v1 + 1)) with (S (N.to_nat (len v1))) by lia.
    rewrite push_refines by lia. unfold abs in Ha1. rewrite Ha1. reflexivity.
  - (* pop *)
    destruct s as [l c]. cbn [vstep lstep fst snd] in *. rewrite HL.
    destruct (len v =? 0) eqn:E0.
    + split; [reflexivity | apply R_weaken; exact HR].
    + apply N.eqb_neq in E0. rewrite u_sub1 by (change (2 ^ 62) with 4611686018427387904; lia). cbn [bind].
      rewrite HLn. replace (N.to_nat (len v) - 1)%nat with (N.to_nat (len v - 1)) by lia.
      split.
      * rewrite <- Ha. rewrite nth_abs by lia. reflexivity.
      * unfold R, abs; cbn [cap len buf fst snd]. repeat split; try assumption; try lia.
        rewrite <- Ha. unfold abs. rewrite firstn_firstn. f_equal. lia.
  - (* get *)
    destruct s as [l c]. cbn [vstep lstep fst snd] in *. rewrite HL.
    destruct (len v <=? i) eqn:E.
    + apply N.leb_le in E. replace (i <? len v) with false by (symmetry; apply N.ltb_ge; exact E).
      split; [reflexivity | apply R_weaken; exact HR].
    + apply N.leb_gt in E. replace (i <? len v) with true by (symmetry; apply N.ltb_lt; exact E).
      split; [| apply R_weaken; exact HR].
      rewrite <- Ha. rewrite nth_abs by lia. reflexivity.
  - (* set *)
    destruct s as [l c]. cbn [vstep lstep fst snd] in *. rewrite HL.
    destruct (i <? len v) eqn:E; cbn [assert bind]; [|reflexivity].
    apply N.ltb_lt in E. split; [reflexivity|].
    unfold R, abs; cbn [cap len buf fst snd]. rewrite length_write.
    repeat split; try assumption; try lia.
    rewrite firstn_write_comm. rewrite <- Ha. reflexivity.
  - (* insert *)
    destruct s as [l c]. cbn [vstep lstep]. cbn [fst snd] in HL, HLn, Ha, Hc. rewrite HL.
    destruct (i <=? len v) eqn:E; cbn [assert bind]; [|reflexivity].
    apply N.leb_le in E.
    destruct (room_refines n v (l, c) HR Hn) as (v1 & E1 & HR1 & Hl1 & Hlt1 & Hf1).
    rewrite E1. cbn [bind].
    rewrite u_add1 by (change (2 ^ 62) with 4611686018427387904; lia). cbn [bind].
    destruct (lgrow (l, c)) as [l1 c1] eqn:EG. cbn [fst snd] in *.
    split; [reflexivity|].
    destruct HR1 as (Hb1 & Hle1 & Ha1 & Hc1 & Hln1 & Hcn1). cbn [fst snd] in *.
    unfold R, abs; cbn [cap len buf fst snd]. rewrite length_write, length_shift_up.
    repeat split; try assumption; try lia.
    replace (N.to_nat (len v1 + 1)) with (S (N.to_nat (len v1))) by lia.
    rewrite insert_refines by lia. unfold abs in Ha1. rewrite Ha1. reflexivity.
  - (* remove *)
    destruct s as [l c]. cbn [vstep lstep fst snd] in *. rewrite HL.
    destruct (i <? len v) eqn:E; cbn [assert bind]; [|reflexivity].
    apply N.ltb_lt in E.
    rewrite u_sub1 by (change (2 ^ 62) with 4611686018427387904; lia). cbn [bind].
    split.
    + rewrite <- Ha. rewrite nth_abs by lia. reflexivity.
    + unfold R, abs; cbn [cap len buf fst snd]. rewrite length_shift_down.
      repeat split; try assumption; try lia.
      replace (N.to_nat (len v - 1)) with (N.to_nat (len v) - 1)%nat by lia.
      replace (N.to_nat (len v) - 1 - N.to_nat i)%nat with (N.to_nat (len v) - 1 - N.to_nat i)%nat by reflexivity.
      rewrite remove_refines by lia. rewrite <- Ha. reflexivity.
  - (* swap *)
    destruct s as [l c]. cbn [vstep lstep fst snd] in *. rewrite HL.
    destruct (i <? len v) eqn:Ei; cbn [assert bind andb]; [|reflexivity].
    destruct (j <? len v) eqn:Ej; cbn [assert bind andb]; [|reflexivity].
    apply N.ltb_lt in Ei. apply N.ltb_lt in Ej.
    destruct (i =? j) eqn:Eij.
    + apply N.eqb_eq in Eij. subst j. split; [reflexivity|].
      apply R_weaken. unfold R; cbn [fst snd]. repeat split; try assumption.
      rewrite <- Ha.
      assert (Wid : forall (b : list N) k, write k (nth k b 0) b = b).
      { induction b as [| h t IH]; intros [| k]; cbn; try reflexivity. rewrite IH. reflexivity. }
      rewrite Wid. rewrite Wid. reflexivity.
    + split; [reflexivity|].
      unfold R, abs; cbn [cap len buf fst snd]. rewrite !length_write.
      repeat split; try assumption; try lia.
      rewrite !firstn_write_comm. rewrite <- Ha. rewrite !nth_abs by lia. reflexivity.
  - (* clear *)
    destruct s as [l c]. cbn [vstep lstep fst snd] in *. split; [reflexivity|].
    unfold R, abs; cbn [cap len buf fst snd]. repeat split; try assumption; try lia.
  - (* len *)
    destruct s as [l c]. cbn [vstep lstep fst snd] in *. rewrite HL. split; [reflexivity | apply R_weaken; exact HR].
  - (* capacity *)
    destruct s as [l c]. cbn [vstep lstep fst snd] in *. rewrite Hc. split; [reflexivity | apply R_weaken; exact HR].
  - (* is_empty *)
    destruct s as [l c]. cbn [vstep lstep fst snd] in *. rewrite HL. split; [reflexivity | apply R_weaken; exact HR].
  - (* last *)
    destruct s as [l c]. cbn [vstep lstep fst snd] in *. rewrite HL.
    destruct (len v =? 0) eqn:E0.
    + split; [reflexivity | apply R_weaken; exact HR].
    + apply N.eqb_neq in E0. rewrite u_sub1 by (change (2 ^ 62) with 4611686018427387904; lia). cbn [bind].
      split; [| apply R_weaken; exact HR].
      rewrite HLn. replace (N.to_nat (len v) - 1)%nat with (N.to_nat (len v - 1)) by lia.
      rewrite <- Ha. rewrite nth_abs by lia. reflexivity.
Qed.

Lemma run_refines : forall ops n v s, R n v s -> n + N.of_nat (length ops) < 2 ^ 62 ->
  vrun ops v = lrun ops s.
Proof.
  induction ops as [| o rest IH]; intros n v s HR Hn.
  - cbn. destruct HR as (_ & _ & Ha & Hc & _). destruct s as [l c]. cbn [fst snd] in *. subst. reflexivity.
  - cbn [vrun lrun]. cbn [length] in Hn.
    assert (Hn1 : n < 2 ^ 62) by lia.
    pose proof (step_refines n v s o HR Hn1) as St. unfold step_ok in St.
    destruct (vstep v o) as [[v' ob] | c | p | ] eqn:Ev; destruct (lstep s o) as [[s' ob'] |] eqn:El; try contradiction.
    + destruct St as [Eo HR']. subst ob'. rewrite (IH (n + 1) v' s' HR') by lia. reflexivity.
    + subst c. reflexivity.
Qed.

Theorem vec_refines_list : forall ops, N.of_nat (length ops) < 2 ^ 62 -> vrun ops vnew = lrun ops lnew.
Proof. intros ops H. apply (run_refines ops 0 vnew lnew R_new). lia. Qed.

(* the invariant len <= cap (and |buf| = cap) holds in every reachable state *)
Fixpoint vstates (ops : list vop) (v : vec) : list vec :=
  match ops with
  | [] => [v]
  | o :: rest => v :: match vstep v o with Ret (v', _) => vstates rest v' | _ => [] end
  end.

Lemma states_inv : forall ops n v s, R n v s -> n + N.of_nat (length ops) < 2 ^ 62 ->
  Forall (fun v' => len v' <= cap v' /\ length (buf v') = N.to_nat (cap v')) (vstates ops v).
Proof.
  induction ops as [| o rest IH]; intros n v s HR Hn.
  - cbn. constructor; [|constructor]. destruct HR as (Hb & Hle & _). split; assumption.
  - cbn [vstates]. cbn [length] in Hn. constructor.
    + destruct HR as (Hb & Hle & _). split; assumption.
    + assert (Hn1 : n < 2 ^ 62) by lia.
      pose proof (step_refines n v s o HR Hn1) as St. unfold step_ok in St.
      destruct (vstep v o) as [[v' ob] | c | p | ] eqn:Ev; try constructor.
      destruct (lstep s o) as [[s' ob'] |] eqn:El; try contradiction.
      destruct St as [_ HR']. apply (IH (n + 1) v' s' HR'). lia.
Qed.

Theorem vec_invariant : forall ops, N.of_nat (length ops) < 2 ^ 62 ->
  Forall (fun v => len v <= cap v /\ length (buf v) = N.to_nat (cap v)) (vstates ops vnew).
Proof. intros ops H. apply (states_inv ops 0 vnew lnew R_new). lia. Qed.
