(* C27 — executable model of sway-lib-std's wide-integer and math code over the FuelVM ALU (Vm.Alu).
   NO proofs here.

   Source followed (sway-lib-std/src): u128.sw (U128: From, PartialEq/Ord/OrdEq, u64::overflowing_add/mul,
   BitwiseAnd/Or, Shift, Not, Add, Subtract, Multiply, Divide, Mod, u64_checked_add, u128_checked_mul,
   Power, Root, BinaryLogarithm, Logarithm), math.sw (Root/Power/Logarithm/BinaryLogarithm for
   u8..u64 and u256, u256_checked_mul), ops.sw (Add/Subtract/Multiply for u8/u16/u32 with their
   overflow checks, wrapping_add/sub/mul), flags.sw (disable_panic_on_overflow, set_flags,
   panic_on_*_enabled), assert.sw.

   Each Sway function is written as the sequence of primitive steps the code performs; a 64-bit
   primitive is one `exec64` of Vm.Alu under the current $flag value `fl`, so that VM panics
   (ArithmeticOverflow / ArithmeticError), `$of` reads, `assert` failures (revert with
   FAILED_ASSERT_SIGNAL) and `revert(0)` are explicit outcomes.  Loops carry explicit fuel; `Oof` is
   the distinct out-of-fuel result.

   MROO and MLOG (u8..u64 sqrt / log) are not part of Vm.Alu.  fuel-vm computes MROO from an f64
   estimate corrected by +-1 (checked_nth_root) and MLOG with u64::checked_ilog; both are modelled here
   by their integer meaning (N.sqrt, iterated division) - this part of the model is tied to the VM
   only by the correspondence run. *)
From Coq Require Import NArith List Bool.
From SwayV Require Import Vm.Alu.
Import ListNotations.
Local Open Scope N_scope.

Inductive out (A : Type) : Type :=
| Ret (a : A)                     (* normal completion *)
| Rev (code : N)                  (* RVRT code *)
| Vmp (r : panic_reason)          (* VM panic *)
| Oof.                            (* model fuel exhausted *)
Arguments Ret {A} a.
Arguments Rev {A} code.
Arguments Vmp {A} r.
Arguments Oof {A}.

Definition bind {A B} (m : out A) (f : A -> out B) : out B :=
  match m with Ret a => f a | Rev c => Rev c | Vmp r => Vmp r | Oof => Oof end.
Notation "'let*' x ':=' m 'in' k" := (bind m (fun x => k))
  (at level 200, x pattern, m at level 100, k at level 200, right associativity).

Definition vm {A} (o : Alu.outcome A) : out A :=
  match o with Val a => Ret a | VmPanic r => Vmp r end.

Definition FAILED_ASSERT_SIGNAL : N := 18446744073709486084. (* 0xffff_ffff_ffff_0004 *)
Definition assert (b : bool) : out unit := if b then Ret tt else Rev FAILED_ASSERT_SIGNAL.
Definition when (c : bool) (m : out unit) : out unit := if c then m else Ret tt.

(* flags.sw *)
Definition poe (fl : flags) : bool := negb (wrapping fl).       (* panic_on_overflow_enabled *)
Definition pue (fl : flags) : bool := negb (unsafemath fl).     (* panic_on_unsafe_math_enabled *)
Definition wrap_on (fl : flags) : flags := {| unsafemath := unsafemath fl; wrapping := true |}.

(* 64-bit primitive operators (ops.sw: __add .. __rsh on u64) *)
Definition u_op (fl : flags) (op : op64) (a b : N) : out N := vm (omap res (exec64 fl op a b)).
Definition u_add fl := u_op fl ADD.
Definition u_sub fl := u_op fl SUB.
Definition u_mul fl := u_op fl MUL.
Definition u_div fl := u_op fl DIV.
Definition u_mod fl := u_op fl MOD.
Definition u_exp fl := u_op fl EXP.

(* ---------------------------------------------------------------------------------------- U128 *)
Definition U128 : Type := N * N.   (* (upper, lower) *)
Definition up (a : U128) : N := fst a.
Definition lo (a : U128) : N := snd a.
Definition u128_zero : U128 := (0, 0).

Definition u128_eq (a b : U128) : bool := (lo a =? lo b) && (up a =? up b).
Definition u128_gt (a b : U128) : bool := (up b <? up a) || ((up a =? up b) && (lo b <? lo a)).
Definition u128_lt (a b : U128) : bool := (up a <? up b) || ((up a =? up b) && (lo a <? lo b)).
Definition u128_ge (a b : U128) : bool := u128_gt a b || u128_eq a b.
Definition u128_le (a b : U128) : bool := u128_lt a b || u128_eq a b.

(* u64::overflowing_add / overflowing_mul: F_WRAPPING set around one ADD/MUL, result ($of, value) *)
Definition overflowing (fl : flags) (op : op64) (a b : N) : out U128 :=
  let* r := vm (exec64 (wrap_on fl) op a b) in Ret (of r, res r).
Definition overflowing_add fl := overflowing fl ADD.
Definition overflowing_mul fl := overflowing fl MUL.

Definition u128_and (a b : U128) : U128 := (N.land (up a) (up b), N.land (lo a) (lo b)).
Definition u128_or (a b : U128) : U128 := (N.lor (up a) (up b), N.lor (lo a) (lo b)).
Definition u128_not (a : U128) : U128 := (vm_not (up a), vm_not (lo a)).

Definition u128_lsh (fl : flags) (a : U128) (rhs : N) : out U128 :=
  if 128 <=? rhs then Ret u128_zero
  else if 64 <=? rhs then
    let* s := u_sub fl rhs 64 in Ret (sll64 (lo a) s, 0)
  else
    let* s := u_sub fl 64 rhs in
    let highest_lower_bits := srl64 (lo a) s in
    let* upper := u_add fl (sll64 (up a) rhs) highest_lower_bits in
    Ret (upper, sll64 (lo a) rhs).

Definition u128_rsh (fl : flags) (a : U128) (rhs : N) : out U128 :=
  if 128 <=? rhs then Ret u128_zero
  else if 64 <=? rhs then
    let* s := u_sub fl rhs 64 in Ret (0, srl64 (up a) s)
  else
    let* s := u_sub fl 64 rhs in
    let lowest_upper_bits := sll64 (up a) s in
    let* lower := u_add fl (srl64 (lo a) rhs) lowest_upper_bits in
    Ret (srl64 (up a) rhs, lower).

Definition u128_add (fl : flags) (a b : U128) : out U128 :=
  let* upper_128 := overflowing_add fl (up a) (up b) in
  let* _ := when (poe fl) (assert (up upper_128 =? 0)) in
  let* lower_128 := overflowing_add fl (lo a) (lo b) in
  let* upper_128' := if 0 <? up lower_128 then overflowing_add fl (lo upper_128) (up lower_128)
                     else Ret upper_128 in
  let* _ := when (poe fl) (assert (up upper_128' =? 0)) in
  Ret (lo upper_128', lo lower_128).

Definition u128_sub (fl : flags) (a b : U128) : out U128 :=
  let* _ := when (poe fl) (assert (negb (u128_lt a b))) in
  let* upper := u_sub fl (up a) (up b) in
  if lo a <? lo b then
    let* t1 := u_sub fl (lo b) (lo a) in
    let* t2 := u_sub fl t1 1 in
    let* lower := u_sub fl MAX64 t2 in
    let* upper' := u_sub fl upper 1 in
    Ret (upper', lower)
  else
    let* lower := u_sub fl (lo a) (lo b) in Ret (upper, lower).

Definition u128_mul (fl : flags) (a b : U128) : out U128 :=
  let* _ := when (pue fl) (assert ((up a =? 0) || (up b =? 0))) in
  let* r := overflowing_mul fl (lo a) (lo b) in
  if up a =? 0 then
    let* m := u_mul fl (lo a) (up b) in
    let* u := u_add fl (up r) m in Ret (u, lo r)
  else if up b =? 0 then
    let* m := u_mul fl (up a) (lo b) in
    let* u := u_add fl (up r) m in Ret (u, lo r)
  else Ret r.

(* Divide: the shift-subtract loop, `i` counts 127 down to 0 *)
Fixpoint div_loop (fl : flags) (fuel : nat) (self divisor quotient remainder : U128) (i : N) : out U128 :=
  match fuel with
  | O => Oof
  | S fuel' =>
    let* q1 := u128_lsh fl quotient 1 in
    let* r1 := u128_lsh fl remainder 1 in
    let* sh := u128_rsh fl self i in
    let r2 : U128 := (up r1, N.lor (lo r1) (N.land (lo sh) 1)) in
    let* qr := if u128_ge r2 divisor
               then let* r3 := u128_sub fl r2 divisor in Ret ((up q1, N.lor (lo q1) 1), r3)
               else Ret (q1, r2) in
    if i =? 0 then Ret (fst qr)
    else let* i' := u_sub fl i 1 in div_loop fl fuel' self divisor (fst qr) (snd qr) i'
  end.

Definition u128_div_fuel (fuel : nat) (fl : flags) (a divisor : U128) : out U128 :=
  let* early := if pue fl then let* _ := assert (negb (u128_eq divisor u128_zero)) in Ret false
                else Ret (u128_eq divisor u128_zero) in
  if early then Ret u128_zero
  else if (up a =? 0) && (up divisor =? 0) then
    let* q := u_div fl (lo a) (lo divisor) in Ret (0, q)
  else div_loop fl fuel a divisor u128_zero u128_zero 127.
Definition u128_div := u128_div_fuel 128.

Definition u128_mod (fl : flags) (a b : U128) : out U128 :=
  let* _ := when (pue fl) (assert (negb (u128_eq b u128_zero))) in
  let* q := u128_div fl a b in
  let* p := u128_mul fl q b in
  u128_sub fl a p.

(* u64_checked_add: `add res a b; of` then `a + b`, both under the caller's flags *)
Definition u64_checked_add (fl : flags) (a b : N) : out (option N) :=
  let* r := vm (exec64 fl ADD a b) in
  if negb (of r =? 0) then Ret None
  else let* s := u_add fl a b in Ret (Some s).

Definition u128_checked_mul (fl : flags) (a b : U128) : out (option U128) :=
  if negb (up a =? 0) && negb (up b =? 0) then Ret None
  else
    let* r := overflowing_mul fl (lo a) (lo b) in
    if up a =? 0 then
      let* m := u_mul fl (lo a) (up b) in
      let* s := u64_checked_add fl (up r) m in
      match s with None => Ret None | Some v => Ret (Some (v, lo r)) end
    else if up b =? 0 then
      let* m := u_mul fl (up a) (lo b) in
      let* s := u64_checked_add fl (up r) m in
      match s with None => Ret None | Some v => Ret (Some (v, lo r)) end
    else Ret (Some r).

(* the `None =>` arm of pow: revert(0) when overflow panics are on, else "return U128::zero()" *)
Inductive pow_step := PVal (v : U128) | PZero.
Definition pow_mul (fl : flags) (a b : U128) : out pow_step :=
  let* r := u128_checked_mul fl a b in
  match r with
  | Some v => Ret (PVal v)
  | None => if poe fl then Rev 0 else Ret PZero
  end.

(* first loop: while exp & 1 == 0 { value = value*value; exp >>= 1 } *)
Fixpoint pow_loop1 (fl : flags) (fuel : nat) (value : U128) (exp : N) : out (pow_step * N) :=
  match fuel with
  | O => Oof
  | S fuel' =>
    if N.land exp 1 =? 0 then
      let* s := pow_mul fl value value in
      match s with
      | PZero => Ret (PZero, exp)
      | PVal v => pow_loop1 fl fuel' v (srl64 exp 1)
      end
    else Ret (PVal value, exp)
  end.

(* second loop: while exp > 1 { exp >>= 1; value = value*value; if exp & 1 == 1 { acc = acc*value } } *)
Fixpoint pow_loop2 (fl : flags) (fuel : nat) (value acc : U128) (exp : N) : out U128 :=
  match fuel with
  | O => Oof
  | S fuel' =>
    if 1 <? exp then
      let exp' := srl64 exp 1 in
      let* s := pow_mul fl value value in
      match s with
      | PZero => Ret u128_zero
      | PVal v =>
        if N.land exp' 1 =? 1 then
          let* s2 := pow_mul fl acc v in
          match s2 with
          | PZero => Ret u128_zero
          | PVal acc' => pow_loop2 fl fuel' v acc' exp'
          end
        else pow_loop2 fl fuel' v acc exp'
      end
    else Ret acc
  end.

Definition u128_pow_fuel (fuel : nat) (fl : flags) (a : U128) (exponent : N) : out U128 :=
  if exponent =? 0 then Ret (0, 1)
  else if exponent =? 1 then Ret a
  else
    let* l1 := pow_loop1 fl fuel a exponent in
    match l1 with
    | (PZero, _) => Ret u128_zero
    | (PVal value, exp) =>
      if exp =? 1 then Ret value else pow_loop2 fl fuel value value exp
    end.
Definition u128_pow := u128_pow_fuel 40.

(* Root: Newton iteration *)
Fixpoint sqrt_loop (fl : flags) (fuel : nat) (self x0 x1 : U128) : out U128 :=
  match fuel with
  | O => Oof
  | S fuel' =>
    if u128_lt x1 x0 then
      let* d := u128_div fl self x1 in
      let* s := u128_add fl x1 d in
      let* x2 := u128_rsh fl s 1 in
      sqrt_loop fl fuel' self x1 x2
    else Ret x0
  end.

Definition u128_sqrt_fuel (fuel : nat) (fl : flags) (a : U128) : out U128 :=
  let* _ := when (pue fl) (assert (negb (u128_eq a u128_zero))) in
  let* x0 := u128_rsh fl a 1 in
  if negb (u128_eq x0 u128_zero) then
    let* d := u128_div fl a x0 in
    let* s := u128_add fl x0 d in
    let* x1 := u128_rsh fl s 1 in
    sqrt_loop fl fuel a x0 x1
  else Ret a.
Definition u128_sqrt := u128_sqrt_fuel 200.

(* ---- MROO / MLOG (see header) *)
Definition mroo2 (fl : flags) (b : N) : out N := Ret (N.sqrt b).   (* index 2 <> 0: never an error *)

Fixpoint ilog_loop (fuel : nat) (b x : N) : N :=
  match fuel with
  | O => 0
  | S f => if x <? b then 0 else 1 + ilog_loop f b (x / b)
  end.
Definition ilog (b x : N) : N := ilog_loop 64 b x.   (* floor(log_b x) for 2 <= b, 1 <= x < 2^64 *)

Definition mlog (fl : flags) (x b : N) : out N :=
  if (x =? 0) || (b <=? 1) then
    if unsafemath fl then Ret 0 else Vmp ArithmeticError
  else Ret (ilog b x).

(* BinaryLogarithm for U128 *)
Definition u128_log2 (fl : flags) (a : U128) : out U128 :=
  let* early := if pue fl then let* _ := assert (negb (u128_eq a u128_zero)) in Ret false
                else Ret (u128_eq a u128_zero) in
  if early then Ret u128_zero
  else if negb (up a =? 0) then
    let* l := mlog fl (up a) 2 in let* s := u_add fl l 64 in Ret (0, s)
  else if negb (lo a =? 0) then
    let* l := mlog fl (lo a) 2 in Ret (0, l)
  else Ret u128_zero.

(* Logarithm for U128.  `overflow()` after `base.pow(..)` reads $of as left by the last ALU
   instruction executed inside/after pow, which is a comparison or move on every path: it is 0
   (validated by the correspondence run; this is what makes the estimate survive a pow overflow,
   see design_notes/C27.md, finding u128_log_overestimate). *)
Definition OF_AFTER_POW : N := 0.

Fixpoint log_loop (fuel : nat) (flw : flags) (self base result pow_res : U128) (ofv : N) : out U128 :=
  match fuel with
  | O => Oof
  | S fuel' =>
    if u128_gt pow_res self || (0 <? ofv) then
      let* result' := u128_sub flw result (0, 1) in
      let* p := u128_pow flw base (N.land (lo result') (N.ones 32)) in
      log_loop fuel' flw self base result' p OF_AFTER_POW
    else Ret result
  end.

Definition u128_log_fuel (fuel : nat) (fl : flags) (a base : U128) : out U128 :=
  let flw := wrap_on fl in
  let* early := if pue flw
                then let* _ := assert (u128_ge base (0, 2)) in
                     let* _ := assert (negb (u128_eq a u128_zero)) in Ret false
                else Ret (u128_lt base (0, 2) || u128_eq a u128_zero) in
  if early then Ret u128_zero
  else if u128_lt a base then Ret u128_zero
  else
    let* self_log2 := u128_log2 flw a in
    let* base_log2 := u128_log2 flw base in
    let* result := u128_div flw self_log2 base_log2 in
    let* p := u128_pow flw base (N.land (lo result) (N.ones 32)) in
    log_loop fuel flw a base result p OF_AFTER_POW.
Definition u128_log := u128_log_fuel 140.

(* ---------------------------------------------------------------------- narrow integers (ops.sw) *)
(* Add/Subtract/Multiply for u8/u16/u32: 64-bit op, then the range check *)
Definition narrow_op (w : N) (fl : flags) (op : op64) (a b : N) : out N :=
  let* r := u_op fl op a b in
  if N.ones w <? r then
    if poe fl then Rev 0
    else let* m := u_add fl (N.ones w) 1 in u_mod fl r m
  else Ret r.

Definition wrapping_narrow (w : N) (fl : flags) (op : op64) (a b : N) : out N :=
  narrow_op w (wrap_on fl) op a b.
Definition wrapping_u64 (fl : flags) (op : op64) (a b : N) : out N := u_op (wrap_on fl) op a b.

(* math.sw Power for u64 (w = 64: plain EXP) and u8/u16/u32 *)
Definition pow_narrow (w : N) (fl : flags) (a e : N) : out N :=
  let* r := u_exp fl a e in
  if w =? 64 then Ret r
  else if N.ones w <? r then (if poe fl then Rev 0 else Ret 0) else Ret r.

Definition sqrt_narrow (fl : flags) (a : N) : out N := mroo2 fl a.
Definition log_narrow (fl : flags) (a b : N) : out N := mlog fl a b.
Definition log2_narrow (fl : flags) (a : N) : out N := mlog fl a 2.

(* ---------------------------------------------------------------------------------------- u256 *)
(* ops.sw: + - * / % << >> on u256 are the WQxx instructions *)
Definition wq (o : Alu.outcome alu_res) : out N := vm (omap res o).
Definition u256_add fl a b := wq (wq_op fl MADD a b).
Definition u256_sub fl a b := wq (wq_op fl MSUB a b).
Definition u256_mul fl a b := wq (wq_mul fl a b).
Definition u256_div fl a b := wq (wq_div fl a b).
Definition u256_rsh fl a s := wq (wq_op fl MSHR a s).
Definition u256_lsh fl a s := wq (wq_op fl MSHL a s).
Definition u256_mod fl a b := wq (wide_addmod 256 fl a 0 b).  (* `%` compiles to WQAM with a zero addend *)

(* u256_checked_mul: `wqml res a b i48; of` *)
Definition u256_checked_mul (fl : flags) (a b : N) : out (option N) :=
  let* r := vm (wq_mul fl a b) in
  if negb (of r =? 0) then Ret None else Ret (Some (res r)).

Fixpoint u256_pow_loop (fl : flags) (fuel : nat) (base acc exp : N) : out (option (N * N)) :=
  match fuel with
  | O => Oof
  | S fuel' =>
    if 1 <? exp then
      let* acc' := if N.land exp 1 =? 1 then u256_checked_mul fl acc base else Ret (Some acc) in
      match acc' with
      | None => Ret None
      | Some acc1 =>
        let* b2 := u256_checked_mul fl base base in
        match b2 with
        | None => Ret None
        | Some base1 => u256_pow_loop fl fuel' base1 acc1 (srl64 exp 1)
        end
      end
    else Ret (Some (base, acc))
  end.

Definition u256_pow (fl : flags) (a e : N) : out N :=
  if e =? 0 then Ret 1
  else
    let* r := u256_pow_loop fl 40 a 1 e in
    match r with
    | None => Ret 0
    | Some (base, acc) =>
      let* m := u256_checked_mul fl acc base in
      match m with Some v => Ret v | None => Ret 0 end
    end.

Fixpoint u256_sqrt_loop (fl : flags) (fuel : nat) (self x0 x1 : N) : out N :=
  match fuel with
  | O => Oof
  | S fuel' =>
    if x1 <? x0 then
      let* d := u256_div fl self x1 in
      let* s := u256_add fl x1 d in
      let* x2 := u256_rsh fl s 1 in
      u256_sqrt_loop fl fuel' self x1 x2
    else Ret x0
  end.

Definition u256_sqrt_fuel (fuel : nat) (fl : flags) (a : N) : out N :=
  let* x0 := u256_rsh fl a 1 in
  if x0 =? 0 then Ret a
  else
    let* d := u256_div fl a x0 in
    let* s := u256_add fl x0 d in
    let* x1 := u256_rsh fl s 1 in
    u256_sqrt_loop fl fuel a x0 x1.
Definition u256_sqrt := u256_sqrt_fuel 400.

Definition limb (a : N) (k : N) : N := N.land (N.shiftr a (64 * k)) MAX64.

Definition u256_log2 (fl : flags) (a : N) : out N :=
  let* _ := when (pue fl) (assert (negb (a =? 0))) in
  if negb (limb a 3 =? 0) then let* l := mlog fl (limb a 3) 2 in u256_add fl l 192
  else if negb (limb a 2 =? 0) then let* l := mlog fl (limb a 2) 2 in u256_add fl l 128
  else if negb (limb a 1 =? 0) then let* l := mlog fl (limb a 1) 2 in u256_add fl l 64
  else if negb (limb a 0 =? 0) then mlog fl (limb a 0) 2
  else Ret a.

Fixpoint u256_log_loop (fuel : nat) (flw : flags) (self base result pow_res ofv : N) : out N :=
  match fuel with
  | O => Oof
  | S fuel' =>
    if (self <? pow_res) || (0 <? ofv) then
      let* result' := u256_sub flw result 1 in
      let* p := u256_pow flw base (N.land (limb result' 0) (N.ones 32)) in
      u256_log_loop fuel' flw self base result' p OF_AFTER_POW
    else Ret result
  end.

Definition u256_log (fl : flags) (a base : N) : out N :=
  let flw := wrap_on fl in
  let* early := if pue flw
                then let* _ := assert (2 <=? base) in let* _ := assert (negb (a =? 0)) in Ret false
                else Ret ((base <? 2) || (a =? 0)) in
  if early then Ret 0
  else if a <? base then Ret 0
  else
    let* self_log2 := u256_log2 flw a in
    let* base_log2 := u256_log2 flw base in
    let* result := u256_div flw self_log2 base_log2 in
    let* p := u256_pow flw base (N.land (limb result 0) (N.ones 32)) in
    u256_log_loop 300 flw a base result p OF_AFTER_POW.
