(* C27 — Newton integer square root (U128::sqrt in u128.sw, u256::sqrt in math.sw): whenever the loop
   finishes within the model fuel its result is the integer square root; it never reverts for n > 0
   (U128: sqrt(0) reverts by the explicit assert) and never overflows. *)
From Coq Require Import NArith ZArith List Bool Lia.
From SwayV Require Import Vm.Alu Vm.AluProofs C27.NumModel C27.Spec C27.NumProofs C27.DivProofs.
Local Open Scope N_scope.
Arguments N.add : simpl never.
Arguments N.sub : simpl never.
Arguments N.mul : simpl never.
Arguments N.div : simpl never.
Arguments N.modulo : simpl never.
Arguments N.pow : simpl never.
Arguments N.eqb : simpl never.
Arguments N.ltb : simpl never.
Arguments N.leb : simpl never.
Arguments N.sqrt : simpl never.

Notation df := default_flags.

(* ------------------------------------------------------------------ Newton step on numbers *)
Definition nstep (n x : N) : N := (x + n / x) / 2.

Lemma sqrt_bounds n : N.sqrt n * N.sqrt n <= n < (N.sqrt n + 1) * (N.sqrt n + 1).
Proof. pose proof (N.sqrt_spec' n) as H. rewrite <- !N.add_1_r in H. exact H. Qed.

(* (a) a Newton step never goes below the integer square root *)
Lemma nstep_ge n x : 0 < x -> N.sqrt n <= nstep n x.
Proof.
  intros Hx. unfold nstep. destruct (sqrt_bounds n) as [Hs _]. remember (N.sqrt n) as s.
  apply N.div_le_lower_bound; [discriminate|].
  (* 2 s <= x + n / x *)
  pose proof (N.le_0_l (n / x)) as Hnn.
  destruct (N.le_gt_cases (2 * s) x) as [Hbig | Hsmall]; [lia|].
  assert (Q : 2 * s - x <= n / x); [|lia].
  apply N.div_le_lower_bound; [lia|].
  (* x * (2s - x) <= s*s <= n *)
  assert (x * (2 * s - x) <= s * s); [|lia].
  clear Hs Hnn Heqs. destruct (N.le_ge_cases x s) as [C | C].
  - remember (s - x) as e. replace s with (x + e) by lia. replace (2 * (x + e) - x) with (x + 2 * e) by lia.
    clear Heqe C Hsmall. nia.
  - remember (2 * s - x) as f. remember (x - s) as e.
    assert (Es : s = f + e) by lia. assert (Ex : x = f + e + e) by lia. rewrite Es, Ex.
    clear. nia.
Qed.

(* (b) above the square root a Newton step strictly decreases *)
Lemma nstep_lt n x : N.sqrt n < x -> nstep n x < x.
Proof.
  intros Hx. unfold nstep. destruct (sqrt_bounds n) as [_ Hs]. remember (N.sqrt n) as s.
  assert (Q : n / x < x).
  { apply N.div_lt_upper_bound; [lia|]. assert ((s + 1) * (s + 1) <= x * x) by (apply N.mul_le_mono; lia). lia. }
  apply N.div_lt_upper_bound; [discriminate|]. lia.
Qed.

Lemma sqrt_le_half n : 2 <= n -> N.sqrt n <= n / 2.
Proof.
  intros H. destruct (sqrt_bounds n) as [Hs _]. remember (N.sqrt n) as s.
  apply N.div_le_lower_bound; [discriminate|].
  destruct (N.le_gt_cases s 1) as [H1 | H2]; [lia|].
  assert (2 * s <= s * s) by (apply N.mul_le_mono_r; lia). lia.
Qed.

(* no overflow of x + n / x along the iteration *)
Lemma nsum_bound n x : N.sqrt n <= x -> 0 < x -> x <= n / 2 -> x + n / x <= n + 3.
Proof.
  intros Hs Hx Hh.
  destruct (N.eq_dec x 1) as [-> | Hne].
  - rewrite N.div_1_r. lia.
  - assert (n / x <= n / 2) by (apply N.div_le_compat_l; lia).
    pose proof (N.div_mod n 2 ltac:(discriminate)). lia.
Qed.

Lemma nsum_bound_strict n x : N.sqrt n <= x -> 0 < x -> x <= n / 2 -> n < 2 ^ 128 -> x + n / x < 2 ^ 128.
Proof.
  intros Hs Hx Hh Hn.
  destruct (N.eq_dec x 1) as [-> | Hne].
  - rewrite N.div_1_r. destruct (sqrt_bounds n) as [_ Hb].
    assert (N.sqrt n <= 1) by lia. assert ((N.sqrt n + 1) * (N.sqrt n + 1) <= 2 * 2) by (apply N.mul_le_mono; lia).
    change (2 ^ 128) with 340282366920938463463374607431768211456. lia.
  - assert (n / x <= n / 2) by (apply N.div_le_compat_l; lia).
    pose proof (N.div_mod n 2 ltac:(discriminate)). lia.
Qed.

Lemma is_sqrt_sqrt n : is_sqrt n (N.sqrt n).
Proof. exact (sqrt_bounds n). Qed.

(* ------------------------------------------------------------------ U128 *)
Definition done_or {A} (o : out A) (P : A -> Prop) : Prop :=
  match o with Ret r => P r | Oof => True | _ => False end.

Lemma u128_nstep a x : wf a -> wf x -> 0 < val x -> N.sqrt (val a) <= val x -> val x <= val a / 2 ->
  (let* d := u128_div df a x in let* s := u128_add df x d in u128_rsh df s 1)
  = Ret (split (nstep (val a) (val x))).
Proof.
  intros Ha Hx Hpos Hs Hh. pose proof (val_lt a Ha) as La.
  rewrite u128_div_full by assumption.
  replace (val x =? 0) with false by (symmetry; apply N.eqb_neq; lia). cbn [bind].
  assert (Ld : val a / val x <= val a) by (apply div_le_self; exact Hpos).
  rewrite u128_add_full by (try assumption; apply wf_split; lia). rewrite val_split.
  pose proof (nsum_bound_strict (val a) (val x) Hs Hpos Hh La) as B.
  replace (val x + val a / val x <? 2 ^ 128) with true by (symmetry; apply N.ltb_lt; exact B).
  cbn [bind]. rewrite u128_rsh_full by (try reflexivity; apply wf_split; exact B).
  rewrite val_split. reflexivity.
Qed.

Lemma sqrt_loop_correct : forall fuel a x0 x1,
  wf a -> wf x0 -> wf x1 -> 0 < val x0 ->
  N.sqrt (val a) <= val x0 -> val x0 <= val a / 2 -> val x1 = nstep (val a) (val x0) ->
  done_or (sqrt_loop df fuel a x0 x1) (fun r => wf r /\ val r = N.sqrt (val a)).
Proof.
  induction fuel as [| fuel IH]; intros a x0 x1 Ha H0 H1 Hpos Hs Hh E1; [exact I|].
  cbn [sqrt_loop]. rewrite u128_lt_spec by assumption.
  destruct (val x1 <? val x0) eqn:E.
  - apply N.ltb_lt in E.
    assert (S1 : N.sqrt (val a) <= val x1) by (rewrite E1; apply nstep_ge; exact Hpos).
    assert (P1 : 0 < val x1).
    { destruct (N.eq_dec (val a) 0) as [Z | NZ]; [rewrite Z in Hh; cbn in Hh; lia|].
      assert (1 <= N.sqrt (val a)) by (apply N.sqrt_le_square; lia). lia. }
    pose proof (u128_nstep a x1 Ha H1 P1 S1 ltac:(lia)) as St.
    destruct (u128_div df a x1) as [d | | |] eqn:Ed; cbn [bind] in St |- *; try discriminate.
    destruct (u128_add df x1 d) as [s | | |] eqn:Es; cbn [bind] in St |- *; try discriminate.
    rewrite St. cbn [bind].
    apply IH; try assumption.
    + apply wf_split. unfold nstep.
      pose proof (nsum_bound_strict (val a) (val x1) S1 P1 ltac:(lia) (val_lt a Ha)).
      assert ((val x1 + val a / val x1) / 2 <= val x1 + val a / val x1) by (apply div_le_self; reflexivity). lia.
    + lia.
    + rewrite val_split. reflexivity.
  - apply N.ltb_ge in E. cbn [done_or]. split; [exact H0|].
    destruct (N.le_gt_cases (val x0) (N.sqrt (val a))) as [Hle | Hgt]; [lia|].
    pose proof (nstep_lt (val a) (val x0) Hgt). lia.
Qed.

Lemma u128_sqrt_fuel_correct fuel a : wf a ->
  if val a =? 0 then u128_sqrt_fuel fuel df a = Rev FAILED_ASSERT_SIGNAL
  else done_or (u128_sqrt_fuel fuel df a) (fun r => wf r /\ is_sqrt (val a) (val r)).
Proof.
  intros Ha. pose proof (val_lt a Ha) as La. unfold u128_sqrt_fuel. cbn [pue unsafemath df negb when].
  rewrite u128_eq_zero by exact Ha.
  destruct (val a =? 0) eqn:E0; cbn [negb assert bind]; [reflexivity|].
  apply N.eqb_neq in E0.
  rewrite u128_rsh_full by (assumption || reflexivity). cbn [bind]. change (2 ^ 1) with 2.
  assert (Lh : val a / 2 <= val a) by (apply div_le_self; reflexivity).
  assert (Wh : wf (split (val a / 2))) by (apply wf_split; lia).
  rewrite u128_eq_zero by exact Wh. rewrite val_split.
  destruct (val a / 2 =? 0) eqn:Eh; cbn [negb].
  - (* n = 1 *)
    apply N.eqb_eq in Eh. cbn [done_or]. split; [exact Ha|].
    assert (val a = 1) by (pose proof (N.div_mod (val a) 2 ltac:(discriminate)); pose proof (N.mod_lt (val a) 2 ltac:(discriminate)); lia).
    unfold is_sqrt. rewrite H. split; vm_compute; congruence.
  - apply N.eqb_neq in Eh.
    assert (N2 : 2 <= val a).
    { destruct (N.le_gt_cases 2 (val a)); [assumption|]. rewrite N.div_small in Eh by lia. congruence. }
    pose proof (sqrt_le_half (val a) N2) as Sh.
    pose proof (u128_nstep a (split (val a / 2)) Ha Wh) as St. rewrite val_split in St.
    specialize (St ltac:(lia) Sh (N.le_refl _)).
    destruct (u128_div df a (split (val a / 2))) as [d | | |] eqn:Ed; cbn [bind] in St |- *; try discriminate.
    destruct (u128_add df (split (val a / 2)) d) as [s | | |] eqn:Es; cbn [bind] in St |- *; try discriminate.
    rewrite St. cbn [bind].
    pose proof (sqrt_loop_correct fuel a (split (val a / 2)) (split (nstep (val a) (val a / 2))) Ha Wh) as L.
    rewrite !val_split in L.
    assert (Wn : wf (split (nstep (val a) (val a / 2)))).
    { apply wf_split. unfold nstep.
      pose proof (nsum_bound_strict (val a) (val a / 2) Sh ltac:(lia) (N.le_refl _) La).
      assert ((val a / 2 + val a / (val a / 2)) / 2 <= val a / 2 + val a / (val a / 2)) by (apply div_le_self; reflexivity). lia. }
    specialize (L Wn ltac:(lia) Sh (N.le_refl _) eq_refl).
    destruct (sqrt_loop df fuel a (split (val a / 2)) (split (nstep (val a) (val a / 2)))) as [r | | |];
      cbn [done_or] in L |- *; try exact L.
    destruct L as [Wr Vr]. split; [exact Wr|]. rewrite Vr. apply is_sqrt_sqrt.
Qed.

(* ------------------------------------------------------------------ u256 *)
Lemma P256_le32 : 256 <= 2 ^ 32. Proof. vm_compute. congruence. Qed.

Lemma u256_nstep n x : n < 2 ^ 256 -> 0 < x -> N.sqrt n <= x -> x <= n / 2 ->
  (let* d := u256_div df n x in let* s := u256_add df x d in u256_rsh df s 1) = Ret (nstep n x).
Proof.
  intros Ln Hpos Hs Hh. unfold u256_div, u256_add, u256_rsh, wq, wq_div, wq_op.
  rewrite wide_div_ok by lia. cbn [omap res vm bind].
  assert (B : x + n / x < 2 ^ 256).
  { destruct (N.eq_dec x 1) as [-> | Hne].
    - rewrite N.div_1_r. destruct (sqrt_bounds n) as [_ Hb].
      assert (N.sqrt n <= 1) by lia. assert ((N.sqrt n + 1) * (N.sqrt n + 1) <= 2 * 2) by (apply N.mul_le_mono; lia).
      assert (4 < 2 ^ 256) by (vm_compute; reflexivity). lia.
    - assert (n / x <= n / 2) by (apply N.div_le_compat_l; lia).
      pose proof (N.div_mod n 2 ltac:(discriminate)). lia. }
  rewrite wide_add_ok by exact B. cbn [omap res vm bind].
  rewrite wide_shr_any by (exact B || exact P256_le32). cbn [omap res vm]. reflexivity.
Qed.

Lemma u256_sqrt_loop_correct : forall fuel n x0 x1, n < 2 ^ 256 -> 0 < x0 ->
  N.sqrt n <= x0 -> x0 <= n / 2 -> x1 = nstep n x0 ->
  done_or (u256_sqrt_loop df fuel n x0 x1) (fun r => r = N.sqrt n).
Proof.
  induction fuel as [| fuel IH]; intros n x0 x1 Ln Hpos Hs Hh E1; [exact I|].
  cbn [u256_sqrt_loop].
  destruct (x1 <? x0) eqn:E.
  - apply N.ltb_lt in E.
    assert (S1 : N.sqrt n <= x1) by (rewrite E1; apply nstep_ge; exact Hpos).
    assert (P1 : 0 < x1).
    { destruct (N.eq_dec n 0) as [Z | NZ]; [rewrite Z in Hh; cbn in Hh; lia|].
      assert (1 <= N.sqrt n) by (apply N.sqrt_le_square; lia). lia. }
    pose proof (u256_nstep n x1 Ln P1 S1 ltac:(lia)) as St.
    destruct (u256_div df n x1) as [d | | |] eqn:Ed; cbn [bind] in St |- *; try discriminate.
    destruct (u256_add df x1 d) as [s | | |] eqn:Es; cbn [bind] in St |- *; try discriminate.
    rewrite St. cbn [bind]. apply IH; try assumption; try lia; try reflexivity.
  - apply N.ltb_ge in E. cbn [done_or].
    destruct (N.le_gt_cases x0 (N.sqrt n)) as [Hle | Hgt]; [lia|].
    pose proof (nstep_lt n x0 Hgt). lia.
Qed.

Lemma u256_sqrt_fuel_correct fuel n : n < 2 ^ 256 ->
  done_or (u256_sqrt_fuel fuel df n) (fun r => is_sqrt n r).
Proof.
  intros Ln. unfold u256_sqrt_fuel.
  assert (R1 : u256_rsh df n 1 = Ret (n / 2)).
  { unfold u256_rsh, wq, wq_op. rewrite wide_shr_any by (exact Ln || exact P256_le32). reflexivity. }
  rewrite R1. cbn [bind].
  destruct (n / 2 =? 0) eqn:Eh.
  - apply N.eqb_eq in Eh. cbn [done_or].
    assert (C : n = 0 \/ n = 1) by (pose proof (N.div_mod n 2 ltac:(discriminate)); pose proof (N.mod_lt n 2 ltac:(discriminate)); lia).
    destruct C as [-> | ->]; unfold is_sqrt; split; vm_compute; congruence.
  - apply N.eqb_neq in Eh.
    assert (N2 : 2 <= n).
    { destruct (N.le_gt_cases 2 n); [assumption|]. rewrite N.div_small in Eh by lia. congruence. }
    pose proof (sqrt_le_half n N2) as Sh.
    pose proof (u256_nstep n (n / 2) Ln ltac:(lia) Sh (N.le_refl _)) as St.
    destruct (u256_div df n (n / 2)) as [d | | |] eqn:Ed; cbn [bind] in St |- *; try discriminate.
    destruct (u256_add df (n / 2) d) as [s | | |] eqn:Es; cbn [bind] in St |- *; try discriminate.
    rewrite St. cbn [bind].
    pose proof (u256_sqrt_loop_correct fuel n (n / 2) (nstep n (n / 2)) Ln ltac:(lia) Sh (N.le_refl _) eq_refl) as L.
    destruct (u256_sqrt_loop df fuel n (n / 2) (nstep n (n / 2))) as [r | | |]; cbn [done_or] in L |- *; try exact L.
    subst r. apply is_sqrt_sqrt.
Qed.

(* u8..u64: MROO is modelled by its integer meaning *)
Lemma sqrt_narrow_correct a : exists r, sqrt_narrow df a = Ret r /\ is_sqrt a r.
Proof. exists (N.sqrt a). split; [reflexivity | apply is_sqrt_sqrt]. Qed.

(* ------------------------------------------------------------------ fuel: the error halves at every step *)
Lemma nstep_halves n x : N.sqrt n < x -> nstep n x - N.sqrt n <= (x - N.sqrt n) / 2.
Proof.
  intros Hx. unfold nstep. destruct (sqrt_bounds n) as [_ Hs]. remember (N.sqrt n) as s.
  assert (Q : n / x < s + 1).
  { apply N.div_lt_upper_bound; [lia|]. assert ((s + 1) * (s + 1) <= x * (s + 1)) by (apply N.mul_le_mono_r; lia). lia. }
  assert (M : (x + n / x) / 2 <= (x + s) / 2) by (apply N.div_le_mono; [discriminate | lia]).
  replace (x + s) with (x - s + s * 2) in M by lia. rewrite N.div_add in M by discriminate. lia.
Qed.

Lemma half_lt_pow2 e f : e < 2 ^ N.of_nat (S f) -> e / 2 < 2 ^ N.of_nat f.
Proof.
  intros H. apply N.div_lt_upper_bound; [discriminate|].
  rewrite Nat2N.inj_succ, N.pow_succ_r' in H. exact H.
Qed.

Lemma sqrt_loop_fuel : forall f a x0 x1,
  wf a -> wf x0 -> wf x1 -> 0 < val x0 ->
  N.sqrt (val a) <= val x0 -> val x0 <= val a / 2 -> val x1 = nstep (val a) (val x0) ->
  val x0 - N.sqrt (val a) < 2 ^ N.of_nat f ->
  sqrt_loop df (S f) a x0 x1 <> Oof.
Proof.
  induction f as [| f IH]; intros a x0 x1 Ha H0 H1 Hpos Hs Hh E1 He;
    cbn [sqrt_loop]; rewrite u128_lt_spec by assumption;
    (destruct (val x1 <? val x0) eqn:E; [|discriminate]);
    apply N.ltb_lt in E;
    assert (S1 : N.sqrt (val a) <= val x1) by (rewrite E1; apply nstep_ge; exact Hpos).
  - change (2 ^ N.of_nat 0) with 1 in He. lia.
  - assert (P1 : 0 < val x1).
    { destruct (N.eq_dec (val a) 0) as [Z | NZ]; [rewrite Z in Hh; cbn in Hh; lia|].
      assert (1 <= N.sqrt (val a)) by (apply N.sqrt_le_square; lia). lia. }
    pose proof (u128_nstep a x1 Ha H1 P1 S1 ltac:(lia)) as St.
    destruct (u128_div df a x1) as [d | | |] eqn:Ed; cbn [bind] in St |- *; try discriminate.
    destruct (u128_add df x1 d) as [s | | |] eqn:Es; cbn [bind] in St |- *; try discriminate.
    rewrite St. cbn [bind].
    apply IH; try assumption.
    + apply wf_split. unfold nstep.
      pose proof (nsum_bound_strict (val a) (val x1) S1 P1 ltac:(lia) (val_lt a Ha)).
      assert ((val x1 + val a / val x1) / 2 <= val x1 + val a / val x1) by (apply div_le_self; reflexivity). lia.
    + lia.
    + rewrite val_split. reflexivity.
    + pose proof (nstep_halves (val a) (val x0) ltac:(lia)) as Hh2. rewrite <- E1 in Hh2.
      pose proof (half_lt_pow2 _ _ He). lia.
Qed.

Lemma u128_sqrt_total a : wf a -> u128_sqrt df a <> Oof.
Proof.
  intros Ha. pose proof (val_lt a Ha) as La. unfold u128_sqrt, u128_sqrt_fuel. cbn [pue unsafemath df negb when].
  rewrite u128_eq_zero by exact Ha.
  destruct (val a =? 0) eqn:E0; cbn [negb assert bind]; [discriminate|].
  apply N.eqb_neq in E0.
  rewrite u128_rsh_full by (assumption || reflexivity). cbn [bind]. change (2 ^ 1) with 2.
  assert (Lh : val a / 2 <= val a) by (apply div_le_self; reflexivity).
  assert (Wh : wf (split (val a / 2))) by (apply wf_split; lia).
  rewrite u128_eq_zero by exact Wh. rewrite val_split.
  destruct (val a / 2 =? 0) eqn:Eh; cbn [negb]; [discriminate|].
  apply N.eqb_neq in Eh.
  assert (N2 : 2 <= val a).
  { destruct (N.le_gt_cases 2 (val a)); [assumption|]. rewrite N.div_small in Eh by lia. congruence. }
  pose proof (sqrt_le_half (val a) N2) as Sh.
  pose proof (u128_nstep a (split (val a / 2)) Ha Wh) as St. rewrite val_split in St.
  specialize (St ltac:(lia) Sh (N.le_refl _)).
  destruct (u128_div df a (split (val a / 2))) as [d | | |] eqn:Ed; cbn [bind] in St |- *; try discriminate.
  destruct (u128_add df (split (val a / 2)) d) as [s | | |] eqn:Es; cbn [bind] in St |- *; try discriminate.
  rewrite St. cbn [bind].
  assert (Wn : wf (split (nstep (val a) (val a / 2)))).
  { apply wf_split. unfold nstep.
    pose proof (nsum_bound_strict (val a) (val a / 2) Sh ltac:(lia) (N.le_refl _) La).
    assert ((val a / 2 + val a / (val a / 2)) / 2 <= val a / 2 + val a / (val a / 2)) by (apply div_le_self; reflexivity). lia. }
  change 200%nat with (S 199).
  apply sqrt_loop_fuel; rewrite ?val_split; try assumption; try lia; try reflexivity.
Qed.

Lemma u128_sqrt_correct a : wf a ->
  if val a =? 0 then u128_sqrt df a = Rev FAILED_ASSERT_SIGNAL
  else exists r, u128_sqrt df a = Ret r /\ wf r /\ is_sqrt (val a) (val r).
Proof.
  intros Ha. pose proof (u128_sqrt_fuel_correct 200 a Ha) as C. pose proof (u128_sqrt_total a Ha) as T.
  unfold u128_sqrt in *. destruct (val a =? 0); [exact C|].
  destruct (u128_sqrt_fuel 200 df a) as [r | | |]; cbn [done_or] in C; try contradiction; try congruence.
  exists r. split; [reflexivity | exact C].
Qed.

(* u256 *)
Lemma u256_sqrt_loop_fuel : forall f n x0 x1, n < 2 ^ 256 -> 0 < x0 ->
  N.sqrt n <= x0 -> x0 <= n / 2 -> x1 = nstep n x0 -> x0 - N.sqrt n < 2 ^ N.of_nat f ->
  u256_sqrt_loop df (S f) n x0 x1 <> Oof.
Proof.
  induction f as [| f IH]; intros n x0 x1 Ln Hpos Hs Hh E1 He;
    cbn [u256_sqrt_loop]; (destruct (x1 <? x0) eqn:E; [|discriminate]);
    apply N.ltb_lt in E;
    assert (S1 : N.sqrt n <= x1) by (rewrite E1; apply nstep_ge; exact Hpos).
  - change (2 ^ N.of_nat 0) with 1 in He. lia.
  - assert (P1 : 0 < x1).
    { destruct (N.eq_dec n 0) as [Z | NZ]; [rewrite Z in Hh; cbn in Hh; lia|].
      assert (1 <= N.sqrt n) by (apply N.sqrt_le_square; lia). lia. }
    pose proof (u256_nstep n x1 Ln P1 S1 ltac:(lia)) as St.
    destruct (u256_div df n x1) as [d | | |] eqn:Ed; cbn [bind] in St |- *; try discriminate.
    destruct (u256_add df x1 d) as [s | | |] eqn:Es; cbn [bind] in St |- *; try discriminate.
    rewrite St. cbn [bind].
    apply IH; try assumption; try lia; try reflexivity.
    pose proof (nstep_halves n x0 ltac:(lia)) as Hh2. rewrite <- E1 in Hh2.
    pose proof (half_lt_pow2 _ _ He). lia.
Qed.

Lemma u256_sqrt_correct n : n < 2 ^ 256 -> exists r, u256_sqrt df n = Ret r /\ is_sqrt n r.
Proof.
  intros Ln. pose proof (u256_sqrt_fuel_correct 400 n Ln) as C.
  assert (T : u256_sqrt df n <> Oof).
  { unfold u256_sqrt, u256_sqrt_fuel.
    assert (R1 : u256_rsh df n 1 = Ret (n / 2)).
    { unfold u256_rsh, wq, wq_op. rewrite wide_shr_any by (exact Ln || exact P256_le32). reflexivity. }
    rewrite R1. cbn [bind]. destruct (n / 2 =? 0) eqn:Eh; [discriminate|]. apply N.eqb_neq in Eh.
    assert (N2 : 2 <= n).
    { destruct (N.le_gt_cases 2 n); [assumption|]. rewrite N.div_small in Eh by lia. congruence. }
    pose proof (sqrt_le_half n N2) as Sh.
    pose proof (u256_nstep n (n / 2) Ln ltac:(lia) Sh (N.le_refl _)) as St.
    destruct (u256_div df n (n / 2)) as [d | | |] eqn:Ed; cbn [bind] in St |- *; try discriminate.
    destruct (u256_add df (n / 2) d) as [s | | |] eqn:Es; cbn [bind] in St |- *; try discriminate.
    rewrite St. cbn [bind]. change 400%nat with (S 399).
    apply u256_sqrt_loop_fuel; try assumption; try lia; try reflexivity. }
  unfold u256_sqrt in *. destruct (u256_sqrt_fuel 400 df n) as [r | | |]; cbn [done_or] in C; try contradiction; try congruence.
  exists r. split; [reflexivity | exact C].
Qed.
