(* C27 — U128 + - * with F_WRAPPING set (after disable_panic_on_overflow(), as inside U128::log and for callers
   that want modular arithmetic): modular results, no revert except multiply's unsafe-math assert. *)
From Coq Require Import NArith ZArith List Bool Lia ZifyBool ZifyN Ring.
From SwayV Require Import Vm.Alu Vm.AluProofs C27.NumModel C27.Spec C27.NumProofs C27.NarrowProofs.
Local Open Scope N_scope.
Ltac Zify.zify_post_hook ::= Z.div_mod_to_equations.
Arguments N.add : simpl never.
Arguments N.sub : simpl never.
Arguments N.mul : simpl never.
Arguments N.div : simpl never.
Arguments N.modulo : simpl never.
Arguments N.pow : simpl never.
Arguments N.eqb : simpl never.
Arguments N.ltb : simpl never.
Arguments N.leb : simpl never.

Notation df := default_flags.
Notation flw := (wrap_on default_flags).
Notation W := 18446744073709551616 (only parsing).

Lemma overflowing_add_w a b : overflowing_add flw a b = Ret ((a + b) / 2 ^ 64, (a + b) mod 2 ^ 64).
Proof. change (overflowing_add flw a b) with (overflowing_add df a b). apply overflowing_add_df. Qed.
Lemma overflowing_mul_w a b : overflowing_mul flw a b = Ret ((a * b) / 2 ^ 64, (a * b) mod 2 ^ 64).
Proof. change (overflowing_mul flw a b) with (overflowing_mul df a b). apply overflowing_mul_df. Qed.

Lemma u_add_w a b : u_add flw a b = Ret ((a + b) mod 2 ^ 64).
Proof. exact (wrapping_add_u64 a b). Qed.
Lemma u_mul_w a b : u_mul flw a b = Ret ((a * b) mod 2 ^ 64).
Proof. exact (wrapping_mul_u64 a b). Qed.
Lemma u_sub_w a b : a < 2 ^ 64 -> b < 2 ^ 64 -> u_sub flw a b = Ret ((2 ^ 64 + a - b) mod 2 ^ 64).
Proof. exact (wrapping_sub_u64 a b). Qed.

Lemma u128_add_wrapping a b : wf a -> wf b ->
  u128_add flw a b = Ret (split ((val a + val b) mod 2 ^ 128)).
Proof.
  destruct a as [u1 l1], b as [u2 l2]. unfold wf, val; cbn [up lo fst snd]. intros [Hu1 Hl1] [Hu2 Hl2].
  unfold u128_add; cbn [up lo fst snd]. rewrite !overflowing_add_w.
  cbn [bind up lo fst snd poe wrap_on wrapping negb when].
  destruct (0 <? (l1 + l2) / 2 ^ 64) eqn:E2.
  - rewrite overflowing_add_w. cbn [bind up lo fst snd]. apply N.ltb_lt in E2.
    unfold split. apply ret_pair; nums; lia.
  - apply N.ltb_ge in E2. cbn [bind up lo fst snd]. unfold split. apply ret_pair; nums; lia.
Qed.

Lemma u128_sub_wrapping a b : wf a -> wf b ->
  u128_sub flw a b = Ret (split ((2 ^ 128 + val a - val b) mod 2 ^ 128)).
Proof.
  destruct a as [u1 l1], b as [u2 l2]. unfold wf, val; cbn [up lo fst snd]. intros [Hu1 Hl1] [Hu2 Hl2].
  unfold u128_sub; cbn [up lo fst snd poe wrap_on wrapping negb when bind].
  rewrite (u_sub_w u1 u2) by assumption. cbn [bind].
  assert (B : (2 ^ 64 + u1 - u2) mod 2 ^ 64 < 2 ^ 64) by (apply N.mod_lt; discriminate).
  destruct (l1 <? l2) eqn:E.
  - apply N.ltb_lt in E.
    rewrite (u_sub_w l2 l1) by assumption. cbn [bind].
    assert (T1 : (2 ^ 64 + l2 - l1) mod 2 ^ 64 = l2 - l1) by (nums; lia). rewrite T1.
    rewrite (u_sub_w (l2 - l1) 1) by (nums; lia). cbn [bind].
    assert (T2 : (2 ^ 64 + (l2 - l1) - 1) mod 2 ^ 64 = l2 - l1 - 1) by (nums; lia). rewrite T2.
    rewrite (u_sub_w MAX64 (l2 - l1 - 1)) by (nums; lia). cbn [bind].
    rewrite (u_sub_w _ 1) by (try exact B; nums; lia). cbn [bind].
    unfold split. apply ret_pair; nums; lia.
  - apply N.ltb_ge in E.
    rewrite (u_sub_w l1 l2) by assumption. cbn [bind].
    unfold split. apply ret_pair; nums; lia.
Qed.

Lemma mul_case_w (l1 l2 x A B C D : N) : l1 < 2 ^ 64 -> l2 < 2 ^ 64 -> x < 2 ^ 64 ->
  A * B = l1 * l2 -> C * D = x * l2 ->
  (let* r := overflowing_mul flw A B in
   let* m := u_mul flw C D in
   let* u := u_add flw (up r) m in Ret (u, lo r)) =
  Ret (split (((x * 2 ^ 64 + l1) * l2) mod 2 ^ 128)).
Proof.
  intros H1 H2 Hx HAB HCD. rewrite overflowing_mul_w. cbn [bind up lo fst snd].
  rewrite u_mul_w. cbn [bind]. rewrite u_add_w. cbn [bind]. rewrite HAB, HCD.
  remember (l1 * l2) as p. remember (x * l2) as q.
  replace ((x * 2 ^ 64 + l1) * l2) with (q * 2 ^ 64 + p) by (subst p q; ring).
  rewrite N.add_mod_idemp_r by discriminate.
  unfold split. apply ret_pair; nums; lia.
Qed.

Lemma u128_mul_wrapping a b : wf a -> wf b ->
  u128_mul flw a b =
    if negb (up a =? 0) && negb (up b =? 0) then Rev FAILED_ASSERT_SIGNAL
    else Ret (split ((val a * val b) mod 2 ^ 128)).
Proof.
  destruct a as [u1 l1], b as [u2 l2]. unfold wf, val; cbn [up lo fst snd]. intros [Hu1 Hl1] [Hu2 Hl2].
  unfold u128_mul; cbn [up lo fst snd pue wrap_on unsafemath df negb when].
  destruct (u1 =? 0) eqn:E1.
  - apply N.eqb_eq in E1. subst u1. cbn [orb assert bind negb andb].
    rewrite (mul_case_w l2 l1 u2 l1 l2 l1 u2 Hl2 Hl1 Hu2) by lia.
    replace ((0 * 2 ^ 64 + l1) * (u2 * 2 ^ 64 + l2)) with ((u2 * 2 ^ 64 + l2) * l1) by lia.
    reflexivity.
  - destruct (u2 =? 0) eqn:E2.
    + apply N.eqb_eq in E2. subst u2. cbn [orb assert bind negb andb].
      rewrite (mul_case_w l1 l2 u1 l1 l2 u1 l2 Hl1 Hl2 Hu1) by lia.
      replace ((u1 * 2 ^ 64 + l1) * (0 * 2 ^ 64 + l2)) with ((u1 * 2 ^ 64 + l1) * l2) by lia.
      reflexivity.
    + reflexivity.
Qed.
