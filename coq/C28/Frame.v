(* C28 — locality: what an abstraction reads, and frame consequences. *)
From SwayV Require Import Base.Util Generated.C28Facts C28.Model C28.Step C28.Spec C28.StoreLemmas C28.ApiLemmas C28.ListN C28.VecProofs.
Require Import ZifyBool ZifyN ZifyNat.
Ltac Zify.zify_post_hook ::= Z.div_mod_to_equations.
Open Scope N_scope.

Lemma load_quad_agree s s' : forall n k,
  (forall j, k <= j < k + N.of_nat n -> sget s' j = sget s j) -> load_quad s' k n = load_quad s k n.
Proof.
  induction n as [|n IH]; intros k Hag; [reflexivity|].
  cbn [load_quad]. destruct (k <? W256); [|reflexivity].
  rewrite (IH (k + 1)) by (intros j Hj; apply Hag; lia).
  rewrite (Hag k) by lia. reflexivity.
Qed.

(* slots touched by an access of a w-word value at offset 0 lie in [slot, slot + w) *)
Lemma slot_calc_range w isref slot k n p :
  (1 <= w)%nat -> slot_calculator (8 * N.of_nat w) isref slot 0 = Ok (k, n, p) -> slot <= k /\ k + n <= slot + N.of_nat w.
Proof.
  intros Hw. unfold slot_calculator.
  change c28_sc_word_bytes with 8. change c28_sc_round with 31. change c28_sc_shift with 5.
  change c28_sc_words with 4. change c28_sc_nonref_slots with 1.
  change c28_sc2_word_bytes with 8. change c28_sc2_round with 31. change c28_sc2_shift with 5.
  change (0 mod 4) with 0. unfold mul64, add64, sub64, addk. change (0 * 8) with 0.
  change (0 <? W64) with true. cbn [bind].
  destruct (0 + 8 * N.of_nat w <? W64) eqn:E1; cbn [bind]; [|discriminate].
  destruct (0 + 8 * N.of_nat w + 31 <? W64) eqn:E2; cbn [bind]; [|discriminate].
  rewrite !N.shiftr_div_pow2. change (2 ^ 5) with 32.
  destruct isref; cbn [bind].
  - destruct ((0 + 8 * N.of_nat w + 31) / 32 <=? (0 + 8 * N.of_nat w + 31) / 32) eqn:E3; cbn [bind]; [|discriminate].
    destruct (slot + ((0 + 8 * N.of_nat w + 31) / 32 - (0 + 8 * N.of_nat w + 31) / 32) <? W256) eqn:E4; cbn [bind]; [|discriminate].
    intros E. injection E as Ek En Ep. subst k n. lia.
  - destruct (1 <=? (0 + 8 * N.of_nat w + 31) / 32) eqn:E3; cbn [bind]; [|discriminate].
    destruct (slot + ((0 + 8 * N.of_nat w + 31) / 32 - 1) <? W256) eqn:E4; cbn [bind]; [|discriminate].
    intros E. injection E as Ek En Ep. subst k n. lia.
Qed.

Lemma read_quads_agree w isref s s' slot :
  (forall j, slot <= j < slot + N.of_nat w -> sget s' j = sget s j) ->
  read_quads w isref s' slot 0 = read_quads w isref s slot 0.
Proof.
  intros Hag. unfold read_quads. destruct (w =? 0)%nat eqn:Ew; [reflexivity|].
  apply Nat.eqb_neq in Ew.
  destruct (slot_calculator (8 * N.of_nat w) isref slot 0) as [[[k n] p]| | |] eqn:Esc; cbn [bind]; try reflexivity.
  apply slot_calc_range in Esc; [|lia]. destruct Esc as [Hk Hn].
  rewrite (load_quad_agree s s') by (intros j Hj; apply Hag; lia). reflexivity.
Qed.

Section Agree.
Variable H : list N -> N.

(* a map entry's abstraction reads only [slot, slot + w) *)
Lemma abs_map_agree w isref s s' g kb :
  (forall j, map_slot H kb g <= j < map_slot H kb g + N.of_nat w -> sget s' j = sget s j) ->
  abs_map H w isref s' g kb = abs_map H w isref s g kb.
Proof. intros Hag. unfold abs_map. rewrite (read_quads_agree w isref s s') by exact Hag. reflexivity. Qed.

(* a vector's abstraction reads only its length slot and [base, base + CAP) *)
Lemma abs_vec_agree s s' g :
  sget s' g = sget s g ->
  (forall j, hash_b256 H g <= j < hash_b256 H g + CAP -> sget s' j = sget s j) ->
  abs_len s g <= LMAX ->
  abs_len s' g = abs_len s g /\ abs_vec H s' g = abs_vec H s g /\ (vec_inv H s g -> vec_inv H s' g).
Proof.
  intros Hg Hag Hlen.
  assert (Hl : abs_len s' g = abs_len s g).
  { unfold abs_len, wread, sgetz. change (0 / 4) with 0. replace (g + 0) with g by lia. rewrite Hg. reflexivity. }
  split; [exact Hl|]. split.
  - unfold abs_vec. rewrite Hl. apply map_ext_in. intros a Ha. apply in_seq in Ha.
    unfold wread, sgetz. rewrite Hag; [reflexivity|]. unfold LMAX, CAP in *. lia.
  - unfold vec_inv. rewrite Hl. intros Hi i Hlt. rewrite Hag; [apply Hi; exact Hlt|]. unfold LMAX, CAP in *. lia.
Qed.
End Agree.
