(* C28 — StorageBytes / StorageString under the hash hypotheses, and their frame lemmas. *)
From SwayV Require Import Base.Util Generated.C28Facts C28.Model C28.Step C28.Spec C28.StoreLemmas C28.ApiLemmas C28.ListN
  C28.VecProofs C28.Frame C28.MapProofs C28.HashFrame C28.QuadLemmas C28.ListG C28.VecWProofs C28.MapWProofs C28.HashFrameW C28.BytesProofs.
Require Import ZifyBool ZifyN ZifyNat.
Ltac Zify.zify_post_hook ::= Z.div_mod_to_equations.
Open Scope N_scope.

Section HashFrameB.
Variable H : list N -> N.
Variable occ : list N -> Prop.
Hypothesis H_inj : forall p q, occ p -> occ q -> H p = H q -> p = q.
Hypothesis H_spread : forall p q, occ p -> occ q -> H p <> H q -> H p + CAP <= H q \/ H q + CAP <= H p.
Hypothesis H_room : forall p, occ p -> H p + CAP <= W256.

(* a StorageBytes / StorageString field given by name (same layout conditions as a vector field) *)
Theorem bytes_refines_hash name s o :
  vec_occ H occ name ->
  let f := field_id H name in
  abs_len s f < LMAX -> bop_ok o ->
  let '(b', out) := spec_bytes (abs_bytes H s f) o in
  exists s' mo, bytes_step H s f o = Ok (s', mo) /\ abs_bytes H s' f = b' /\ abs_len s' f < LMAX
                /\ (forall so, out = Some so -> mo = so) /\ outside H f s s'.
Proof.
  intros [Hof [Hob Hl]] f. unfold f, field_id.
  pose proof (H_room _ Hof) as R1. pose proof (H_room _ Hob) as R2. pose proof CAP_pos as Hc.
  assert (Hne : field_preimage name <> be_bytes 32 (H (field_preimage name))) by (intros E; symmetry in E; revert E; apply vecbase_ne_field; exact Hl).
  pose proof (apart H occ H_inj H_spread _ _ Hof Hob Hne) as Hap.
  apply (bytes_refines H (H (field_preimage name))); unfold hash_b256; unfold field_id in *; lia.
Qed.

(* frame: whatever is confined to field `name` leaves the byte string at another field unchanged *)
Theorem frame_bytes name name2 s s' :
  vec_occ H occ name -> vec_occ H occ name2 -> name <> name2 ->
  outside H (field_id H name) s s' ->
  abs_len s (field_id H name2) < LMAX ->
  abs_len s' (field_id H name2) = abs_len s (field_id H name2)
  /\ abs_bytes H s' (field_id H name2) = abs_bytes H s (field_id H name2).
Proof.
  intros O1 O2 Hne Hout Hlen.
  destruct (field_regions_disjoint H occ H_inj H_spread H_room name name2 s s' O1 O2 Hne Hout) as [A B].
  destruct O2 as [Hof2 [Hob2 _]]. pose proof (H_room _ Hof2). pose proof (H_room _ Hob2). pose proof CAP_pos.
  apply abs_bytes_agree; unfold field_id, hash_b256 in *; try assumption; lia.
Qed.

(* frame: a map operation (any value type) leaves every bytes / string field unchanged *)
Theorem map_frame_bytes name2 w isref s f o s' out :
  vec_occ H occ name2 -> occ (map_preimage (mop_key o) f) -> N.of_nat w <= CAP -> mop_width_ok w o ->
  map_step H w isref s f o = Ok (s', out) ->
  abs_len s (field_id H name2) < LMAX ->
  abs_len s' (field_id H name2) = abs_len s (field_id H name2)
  /\ abs_bytes H s' (field_id H name2) = abs_bytes H s (field_id H name2).
Proof.
  intros [Hof [Hob Hl]] Hom Hw Hwo Hs Hlen. unfold field_id in *.
  pose proof (apart H occ H_inj H_spread _ _ Hof Hom (domain_separation name2 _ f)) as A1.
  pose proof (apart H occ H_inj H_spread _ _ Hob Hom (vecbase_ne_map _ _ f)) as A2.
  pose proof (map_step_footprint H w isref s f o s' out Hwo Hs) as Hfp. unfold map_slot in Hfp.
  pose proof (H_room _ Hof). pose proof (H_room _ Hob). pose proof CAP_pos.
  apply abs_bytes_agree; unfold hash_b256 in *; try lia.
  - apply Hfp. lia.
  - intros j Hj. apply Hfp. lia.
Qed.
End HashFrameB.
