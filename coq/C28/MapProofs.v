(* C28 — StorageMap<K, u64-like V> (one-word, non-reference value type): refinement of the
   function model, and the footprint of every map operation for any value type. *)
From SwayV Require Import Base.Util Generated.C28Facts C28.Model C28.Step C28.Spec C28.StoreLemmas C28.ApiLemmas C28.ListN C28.VecProofs C28.Frame.
Require Import ZifyBool ZifyN ZifyNat.
Ltac Zify.zify_post_hook ::= Z.div_mod_to_equations.
Open Scope N_scope.

Lemma bytes_eqb_eq a : forall b, bytes_eqb a b = true <-> a = b.
Proof.
  induction a as [|x a IH]; intros [|y b]; cbn [bytes_eqb]; split; intros E; try reflexivity; try discriminate.
  - apply andb_prop in E. destruct E as [E1 E2]. apply N.eqb_eq in E1. apply IH in E2. subst. reflexivity.
  - injection E as E1 E2. subst. rewrite N.eqb_refl. cbn [andb]. apply IH. reflexivity.
Qed.

(* ---------- footprints (any value type) ---------- *)
Lemma store_quad_footprint : forall vs s k s',
  store_quad s k vs = Ok s' -> forall j, ~ (k <= j < k + N.of_nat (length vs)) -> sget s' j = sget s j.
Proof.
  induction vs as [|v r IH]; intros s k s' Hs j Hj; cbn [store_quad] in Hs.
  - injection Hs as Hs. subst. reflexivity.
  - destruct (k <? W256); [|discriminate].
    rewrite (IH _ _ _ Hs) by (cbn [length] in Hj; lia).
    apply sget_sset_other. cbn [length] in Hj. lia.
Qed.

Lemma clear_quad_footprint : forall n s k s' b,
  clear_quad s k n = Ok (s', b) -> forall j, ~ (k <= j < k + N.of_nat n) -> sget s' j = sget s j.
Proof.
  induction n as [|n IH]; intros s k s' b Hc j Hj; cbn [clear_quad] in Hc.
  - injection Hc as Hc _. subst. reflexivity.
  - destruct (k <? W256); [|discriminate].
    destruct (clear_quad (sclr s k) (k + 1) n) as [[s1 b1]| | |] eqn:E; cbn [bind fst snd] in Hc; try discriminate.
    injection Hc as Hc _. subst s1.
    rewrite (IH _ _ _ _ E) by lia. apply sget_sclr_other. lia.
Qed.

Lemma unflat_length : forall n ws, length (unflat ws n) = n.
Proof. induction n as [|n IH]; intros ws; cbn [unflat length]; [reflexivity|]. rewrite IH. reflexivity. Qed.

Lemma write_quads_footprint isref s slot ws s' :
  write_quads isref s slot 0 ws = Ok s' ->
  forall j, ~ (slot <= j < slot + N.of_nat (length ws)) -> sget s' j = sget s j.
Proof.
  unfold write_quads, size_of. intros Hw j Hj.
  destruct (8 * N.of_nat (length ws) =? 0) eqn:E0; [injection Hw as Hw; subst; reflexivity|].
  apply N.eqb_neq in E0.
  destruct ((8 * N.of_nat (length ws)) mod c28_slot_bytes =? 0) eqn:E1; cbn [andb] in Hw.
  - change (0 =? 0) with true in Hw. cbv iota in Hw.
    apply (store_quad_footprint _ _ _ _ Hw). rewrite unflat_length. change c28_slot_bytes with 32. lia.
  - destruct (slot_calculator (8 * N.of_nat (length ws)) isref slot 0) as [[[k n] p]| | |] eqn:Esc; cbn [bind] in Hw; try discriminate.
    apply slot_calc_range in Esc; [|lia]. destruct Esc as [Hk Hn].
    destruct (load_quad s k (N.to_nat n)) as [r| | |]; cbn [bind] in Hw; try discriminate.
    apply (store_quad_footprint _ _ _ _ Hw). rewrite unflat_length. lia.
Qed.

Lemma clear_quads_footprint w isref s slot s' b :
  clear_quads w isref s slot 0 = Ok (s', b) ->
  forall j, ~ (slot <= j < slot + N.of_nat w) -> sget s' j = sget s j.
Proof.
  unfold clear_quads. intros Hc j Hj. destruct (w =? 0)%nat eqn:Ew; [injection Hc as Hc _; subst; reflexivity|].
  apply Nat.eqb_neq in Ew.
  destruct (slot_calculator (8 * N.of_nat w) isref slot 0) as [[[k n] p]| | |] eqn:Esc; cbn [bind] in Hc; try discriminate.
  apply slot_calc_range in Esc; [|lia]. destruct Esc as [Hk Hn].
  apply (clear_quad_footprint _ _ _ _ _ Hc). lia.
Qed.

Definition mop_key (o : mop) : list N :=
  match o with MInsert kb _ | MGet kb | MRemove kb | MTryInsert kb _ => kb end.
Definition mop_width_ok (w : nat) (o : mop) : Prop :=
  match o with MInsert _ v | MTryInsert _ v => length v = w | _ => True end.

(* every map operation changes only the slots [entry slot, entry slot + w) of its own key *)
Theorem map_step_footprint H w isref s f o s' out :
  mop_width_ok w o -> map_step H w isref s f o = Ok (s', out) ->
  forall j, ~ (map_slot H (mop_key o) f <= j < map_slot H (mop_key o) f + N.of_nat w) -> sget s' j = sget s j.
Proof.
  intros Hw Hs j Hj. destruct o as [kb v|kb|kb|kb v]; cbn [map_step mop_key mop_width_ok] in *.
  - unfold map_insert in Hs. destruct (write_quads isref s (map_slot H kb f) 0 v) as [s1| | |] eqn:E; cbn [bind] in Hs; try discriminate.
    injection Hs as Hs _. subst s1. apply (write_quads_footprint _ _ _ _ _ E). rewrite Hw. exact Hj.
  - destruct (map_get H w isref s f kb); cbn [bind] in Hs; try discriminate. injection Hs as Hs _. subst. reflexivity.
  - unfold map_remove in Hs. destruct (clear_quads w isref s (map_slot H kb f) 0) as [[s1 b]| | |] eqn:E; cbn [bind fst snd] in Hs; try discriminate.
    injection Hs as Hs _. subst s1. apply (clear_quads_footprint _ _ _ _ _ _ E). exact Hj.
  - unfold map_try_insert in Hs.
    destruct (read_quads (length v) isref s (map_slot H kb f) 0) as [[e|]| | |]; cbn [bind fst snd] in Hs; try discriminate.
    + injection Hs as Hs _. subst. reflexivity.
    + destruct (write_quads isref s (map_slot H kb f) 0 v) as [s1| | |] eqn:E; cbn [bind fst snd] in Hs; try discriminate.
      injection Hs as Hs _. subst s1. apply (write_quads_footprint _ _ _ _ _ E). rewrite Hw. exact Hj.
Qed.

(* ---------- refinement for one-word non-reference values (u64) ---------- *)
Section MapU64.
Variable H : list N -> N.
Variable f : N.
(* the keys that occur: distinct ones have distinct entry slots; entry slots are valid slot keys *)
Variable keys : list N -> Prop.
Hypothesis Hinj : forall kb kb', keys kb -> keys kb' -> kb <> kb' -> map_slot H kb f <> map_slot H kb' f.
Hypothesis Hroom : forall kb, keys kb -> map_slot H kb f < W256.

Lemma abs_map_u64 s kb :
  keys kb ->
  abs_map H 1 false s f kb = option_map (fun x => [wnth 0 x]) (sget s (map_slot H kb f)).
Proof.
  intros Hk. unfold abs_map. rewrite read_quads1_eq; [|reflexivity|change (0 / 4) with 0; specialize (Hroom kb Hk); lia].
  change (0 / 4) with 0. change (0 mod 4) with 0. replace (map_slot H kb f + 0) with (map_slot H kb f) by lia. reflexivity.
Qed.

Definition mop_u64 (o : mop) : Prop :=
  match o with MInsert _ v | MTryInsert _ v => exists x, v = [x] | _ => True end.

Theorem map_u64_refines s o :
  mop_u64 o -> keys (mop_key o) ->
  let '(m', out) := spec_map (abs_map H 1 false s f) o in
  exists s', map_step H 1 false s f o = Ok (s', out) /\ forall kb', keys kb' -> abs_map H 1 false s' f kb' = m' kb'.
Proof.
  intros Hop Hkey. cbn [mop_key] in Hkey. destruct o as [kb v|kb|kb|kb v]; cbn [spec_map map_step mop_u64] in *.
  - destruct Hop as [x Hx]. subst v. unfold map_insert.
    pose proof (Hroom kb Hkey) as Hr.
    change (write_quads false s (map_slot H kb f) 0 [x]) with (write_u64 s (map_slot H kb f) 0 x).
    rewrite write_u64_eq; [|reflexivity|change (0 / 4) with 0; lia]. cbn [bind].
    eexists. split; [reflexivity|]. intros kb' Hk'. rewrite abs_map_u64 by exact Hk'. unfold smap_set, wwrite.
    change (0 / 4) with 0. change (0 mod 4) with 0. replace (map_slot H kb f + 0) with (map_slot H kb f) by lia.
    destruct (bytes_eqb kb' kb) eqn:E.
    + apply bytes_eqb_eq in E. subst kb'. rewrite sget_sset_same. cbn [option_map]. rewrite wnth_wupd_same by lia. reflexivity.
    + rewrite sget_sset_other; [rewrite abs_map_u64 by exact Hk'; reflexivity|].
      apply Hinj; [exact Hk'|exact Hkey|]. intros E'. subst kb'. assert (bytes_eqb kb kb = true) by (apply bytes_eqb_eq; reflexivity). congruence.
  - unfold map_get. fold (abs_map H 1 false s f kb).
    assert (Hx : exists r, read_quads 1 false s (map_slot H kb f) 0 = Ok r /\ abs_map H 1 false s f kb = r).
    { unfold abs_map. rewrite read_quads1_eq; [|reflexivity|change (0 / 4) with 0; specialize (Hroom kb Hkey); lia]. eexists. split; reflexivity. }
    destruct Hx as [r [Hr1 Hr2]]. rewrite Hr1. cbn [bind]. rewrite Hr2. exists s. split; [reflexivity|]. intros kb' _. reflexivity.
  - unfold map_remove, clear_quads. cbn [Nat.eqb]. change (8 * N.of_nat 1) with 8.
    pose proof (Hroom kb Hkey) as Hr.
    rewrite slot_calc_u64; [|reflexivity|change (0 / 4) with 0; lia]. cbn [bind].
    change (N.to_nat 1) with 1%nat. cbn [clear_quad]. change (0 / 4) with 0.
    replace (map_slot H kb f + 0) with (map_slot H kb f) by lia.
    assert (Hk : map_slot H kb f <? W256 = true) by (apply N.ltb_lt; exact Hr). rewrite Hk. cbn [bind fst snd].
    rewrite andb_true_r. eexists. split.
    + f_equal. f_equal. f_equal. rewrite abs_map_u64 by exact Hkey. destruct (sget s (map_slot H kb f)); reflexivity.
    + intros kb' Hk'. rewrite abs_map_u64 by exact Hk'. unfold smap_set. destruct (bytes_eqb kb' kb) eqn:E.
      * apply bytes_eqb_eq in E. subst kb'. rewrite sget_sclr_same. reflexivity.
      * rewrite sget_sclr_other; [rewrite abs_map_u64 by exact Hk'; reflexivity|].
        apply Hinj; [exact Hk'|exact Hkey|]. intros E'. subst kb'. assert (bytes_eqb kb kb = true) by (apply bytes_eqb_eq; reflexivity). congruence.
  - destruct Hop as [x Hx]. subst v. unfold map_try_insert. cbn [length].
    pose proof (Hroom kb Hkey) as Hr.
    assert (Hx : read_quads 1 false s (map_slot H kb f) 0 = Ok (abs_map H 1 false s f kb)).
    { unfold abs_map. rewrite read_quads1_eq; [|reflexivity|change (0 / 4) with 0; lia]. reflexivity. }
    rewrite Hx. cbn [bind].
    destruct (abs_map H 1 false s f kb) as [e|] eqn:Ea.
    + exists s. split; [reflexivity|]. intros kb' _. reflexivity.
    + change (write_quads false s (map_slot H kb f) 0 [x]) with (write_u64 s (map_slot H kb f) 0 x).
      rewrite write_u64_eq; [|reflexivity|change (0 / 4) with 0; lia]. cbn [bind fst snd].
      eexists. split; [reflexivity|]. intros kb' Hk'. rewrite abs_map_u64 by exact Hk'. unfold smap_set, wwrite.
      change (0 / 4) with 0. change (0 mod 4) with 0. replace (map_slot H kb f + 0) with (map_slot H kb f) by lia.
      destruct (bytes_eqb kb' kb) eqn:E.
      * apply bytes_eqb_eq in E. subst kb'. rewrite sget_sset_same. cbn [option_map]. rewrite wnth_wupd_same by lia. reflexivity.
      * rewrite sget_sset_other; [rewrite abs_map_u64 by exact Hk'; reflexivity|].
        apply Hinj; [exact Hk'|exact Hkey|]. intros E'. subst kb'. assert (bytes_eqb kb kb = true) by (apply bytes_eqb_eq; reflexivity). congruence.
Qed.
End MapU64.
