(* C28 — executable model of sway-lib-std/src/storage/{storage_api, storage_vec, storage_map,
   storable_slice, storage_bytes, storage_string, storage_key}.sw (quads implementation, i.e.
   experimental_dynamic_storage = false, the default) over a slot store.  No proofs here.

   Store: association list  slot key (256-bit number as N) -> slot content.  A slot holds 32 bytes,
   represented as 4 big-endian 64-bit words (every access of the modelled code is word-aligned:
   `padded_value.add::<u64>(place_in_slot)`); a missing key is an unset slot.
   VM instructions (fuel-vm 0.66 opcodes_impl.rs):
     srwq  = __state_load_quad  : n consecutive slots, unset reads as zeroes, flag = all were set;
     swwq  = __state_store_quad : n consecutive slots written;
     scwq  = __state_clear      : n consecutive slots unset, flag = all were set;
     key_range: a key beyond 2^256-1 panics (TooManySlots).
   Outcomes: Err 1 = revert (assert / unwrap of None), Panic 1 = u64 / u256 arithmetic overflow
   (VM panic), Panic 2 = key range overflow (VM panic).
   The hash `sha256` is the Section variable H (bytes -> 256-bit number). *)
From SwayV Require Import Base.Util Generated.C28Facts.
Open Scope N_scope.

Definition W64 : N := 2 ^ 64.
Definition W256 : N := 2 ^ 256.

Definition slotv : Type := (N * N * N * N)%type.
Definition zslot : slotv := (0, 0, 0, 0).
Definition store : Type := list (N * slotv).

Fixpoint sget (s : store) (k : N) : option slotv :=
  match s with
  | [] => None
  | (k', v) :: r => if N.eqb k k' then Some v else sget r k
  end.
Fixpoint sclr (s : store) (k : N) : store :=
  match s with
  | [] => []
  | (k', v) :: r => if N.eqb k k' then sclr r k else (k', v) :: sclr r k
  end.
Definition sset (s : store) (k : N) (v : slotv) : store := (k, v) :: sclr s k.

Definition bind {A B} (x : outcome A) (f : A -> outcome B) : outcome B :=
  match x with Ok a => f a | Err c => Err c | Panic p => Panic p | OutOfFuel => OutOfFuel end.
Notation "'do' x <- e ; f" := (bind e (fun x => f)) (at level 200, x pattern, e at level 100, f at level 200, right associativity).

(* u64 arithmetic of Sway: overflow / underflow is a VM panic *)
Definition add64 (a b : N) : outcome N := if a + b <? W64 then Ok (a + b) else Panic 1.
Definition mul64 (a b : N) : outcome N := if a * b <? W64 then Ok (a * b) else Panic 1.
Definition sub64 (a b : N) : outcome N := if b <=? a then Ok (a - b) else Panic 1.
(* wqop add on a 256-bit value (add_u64_to_u256) *)
Definition addk (k d : N) : outcome N := if k + d <? W256 then Ok (k + d) else Panic 1.

(* ---------- VM instructions ---------- *)
Fixpoint load_quad (s : store) (k : N) (n : nat) : outcome (list slotv * bool) :=
  match n with
  | O => Ok ([], true)
  | S n' =>
    if k <? W256 then
      do r <- load_quad s (k + 1) n';
      match sget s k with
      | Some v => Ok (v :: fst r, snd r)
      | None => Ok (zslot :: fst r, false)
      end
    else Panic 2
  end.

Fixpoint store_quad (s : store) (k : N) (vs : list slotv) : outcome store :=
  match vs with
  | [] => Ok s
  | v :: r => if k <? W256 then store_quad (sset s k v) (k + 1) r else Panic 2
  end.

Definition is_some {A} (o : option A) : bool := match o with Some _ => true | None => false end.

Fixpoint clear_quad (s : store) (k : N) (n : nat) : outcome (store * bool) :=
  match n with
  | O => Ok (s, true)
  | S n' =>
    if k <? W256 then
      do r <- clear_quad (sclr s k) (k + 1) n';
      Ok (fst r, is_some (sget s k) && snd r)
    else Panic 2
  end.

(* ---------- word view of a run of slots (the heap buffer of read_quads/write_quads) ---------- *)
Definition slot_words (v : slotv) : list N := let '(a, b, c, d) := v in [a; b; c; d].
Fixpoint flat (vs : list slotv) : list N :=
  match vs with [] => [] | v :: r => slot_words v ++ flat r end.
Fixpoint unflat (ws : list N) (n : nat) : list slotv :=
  match n with
  | O => []
  | S n' => (nth 0 ws 0, nth 1 ws 0, nth 2 ws 0, nth 3 ws 0) :: unflat (skipn 4 ws) n'
  end.
(* write the words ws at word index p of the buffer; what would fall behind the buffer is not
   stored (only the buffer is written back to storage) *)
Definition splice (buf : list N) (p : nat) (ws : list N) : list N :=
  firstn (length buf) (firstn p buf ++ ws ++ skipn (p + length ws) buf).

(* ---------- storage_api.sw ---------- *)
(* sz = __size_of::<T>() in bytes, isref = __is_reference_type::<T>() *)
Definition slot_calculator (sz : N) (isref : bool) (slot off : N) : outcome (N * N * N) :=
  do a <- mul64 off c28_sc_word_bytes;
  do b <- add64 a sz;
  do c <- add64 b c28_sc_round;
  let last_slot := N.shiftr c c28_sc_shift in
  let place := off mod c28_sc_words in
  do n <- (if isref then
             do a2 <- mul64 place c28_sc2_word_bytes;
             do b2 <- add64 a2 sz;
             do c2 <- add64 b2 c28_sc2_round;
             Ok (N.shiftr c2 c28_sc2_shift)
           else Ok c28_sc_nonref_slots);
  do d <- sub64 last_slot n;
  do k <- addk slot d;
  Ok (k, n, place).

(* a value of T is its list of 64-bit words; sz = 8 * length *)
Definition size_of (ws : list N) : N := 8 * N.of_nat (length ws).

Definition write_quads (isref : bool) (s : store) (slot off : N) (ws : list N) : outcome store :=
  let sz := size_of ws in
  if sz =? 0 then Ok s
  else if (sz mod c28_slot_bytes =? 0) && (off =? 0) then
    store_quad s slot (unflat ws (N.to_nat (sz / c28_slot_bytes)))
  else
    do knp <- slot_calculator sz isref slot off;
    let '(k, n, p) := knp in
    do r <- load_quad s k (N.to_nat n);
    store_quad s k (unflat (splice (flat (fst r)) (N.to_nat p) ws) (N.to_nat n)).

(* w = number of words of T *)
Definition read_quads (w : nat) (isref : bool) (s : store) (slot off : N) : outcome (option (list N)) :=
  if (w =? 0)%nat then Ok None
  else
    do knp <- slot_calculator (8 * N.of_nat w) isref slot off;
    let '(k, n, p) := knp in
    do r <- load_quad s k (N.to_nat n);
    if snd r then Ok (Some (firstn w (skipn (N.to_nat p) (flat (fst r))))) else Ok None.

Definition clear_quads (w : nat) (isref : bool) (s : store) (slot off : N) : outcome (store * bool) :=
  if (w =? 0)%nat then Ok (s, true)
  else
    do knp <- slot_calculator (8 * N.of_nat w) isref slot off;
    let '(k, n, p) := knp in
    clear_quad s k (N.to_nat n).

(* read_quads::<u64>(slot, off) *)
Definition read_u64 (s : store) (slot off : N) : outcome (option N) :=
  do r <- read_quads 1 false s slot off;
  Ok (match r with Some (x :: _) => Some x | _ => None end).
Definition write_u64 (s : store) (slot off v : N) : outcome store := write_quads false s slot off [v].
(* read_quads::<u64>(field_id, 0).unwrap_or(0) *)
Definition read_len (s : store) (f : N) : outcome N :=
  do r <- read_u64 s f 0; Ok (match r with Some n => n | None => 0 end).

(* big-endian bytes of a number / number of big-endian bytes *)
Fixpoint be_bytes (n : nat) (x : N) : list N :=
  match n with O => [] | S n' => be_bytes n' (x / 256) ++ [x mod 256] end.
Definition be_word (bs : list N) : N := fold_left (fun a b => a * 256 + b) bs 0.

Section WithHash.
Variable H : list N -> N.

(* sha256(b256) *)
Definition hash_b256 (x : N) : N := H (be_bytes 32 x).

(* ---------- storage_vec.sw (quads) ---------- *)
Section Vec.
Variable w : nat.        (* words per element *)
Variable isref : bool.

Definition offset_calculator (index : N) : outcome N :=
  let sz := 8 * N.of_nat w in
  let sz' := (sz + (c28_oc_word - 1)) - ((sz + (c28_oc_word - 1)) mod c28_oc_word) in
  do m <- mul64 index sz'; Ok (m / c28_oc_word).

Definition unwrap {A} (o : option A) : outcome A := match o with Some a => Ok a | None => Err 1 end.
Definition assert (b : bool) : outcome unit := if b then Ok tt else Err 1.

Definition read_elem (s : store) (key index : N) : outcome (option (list N)) :=
  do off <- offset_calculator index; read_quads w isref s key off.
Definition write_elem (s : store) (key index : N) (v : list N) : outcome store :=
  do off <- offset_calculator index; write_quads isref s key off v.

Definition vec_push (s : store) (f : N) (v : list N) : outcome store :=
  do len <- read_len s f;
  let key := hash_b256 f in
  do s1 <- write_elem s key len v;
  do len1 <- add64 len 1;
  write_u64 s1 f 0 len1.

Definition vec_pop (s : store) (f : N) : outcome (store * option (list N)) :=
  do len <- read_len s f;
  if len =? 0 then Ok (s, None)
  else
    do s1 <- write_u64 s f 0 (len - 1);
    let key := hash_b256 f in
    do r <- read_elem s1 key (len - 1);
    Ok (s1, r).

(* get(index) followed by try_read() of the returned key: None = get returned None,
   Some None = key returned but the slot is unset, Some (Some v) = value *)
Definition vec_get (s : store) (f index : N) : outcome (option (option (list N))) :=
  do len <- read_len s f;
  if len <=? index then Ok None
  else do r <- read_elem s (hash_b256 f) index; Ok (Some r).

(* while count < len { write(count-1) <- read(count).unwrap(); count += 1 } : n iterations *)
Fixpoint shift_down (n : nat) (s : store) (key count : N) : outcome store :=
  match n with
  | O => Ok s
  | S n' =>
    do r <- read_elem s key count;
    do v <- unwrap r;
    do s1 <- write_elem s key (count - 1) v;
    shift_down n' s1 key (count + 1)
  end.

Definition vec_remove (s : store) (f index : N) : outcome (store * list N) :=
  do _ <- assert (negb (w =? 0)%nat);
  do len <- read_len s f;
  do _ <- assert (index <? len);
  let key := hash_b256 f in
  do r <- read_elem s key index;
  do removed <- unwrap r;
  do s1 <- shift_down (N.to_nat (len - (index + 1))) s key (index + 1);
  do s2 <- write_u64 s1 f 0 (len - 1);
  Ok (s2, removed).

Definition vec_swap_remove (s : store) (f index : N) : outcome (store * list N) :=
  do _ <- assert (negb (w =? 0)%nat);
  do len <- read_len s f;
  do _ <- assert (index <? len);
  let key := hash_b256 f in
  do r <- read_elem s key index;
  do removed <- unwrap r;
  do r2 <- read_elem s key (len - 1);
  do last <- unwrap r2;
  do s1 <- write_elem s key index last;
  do s2 <- write_u64 s1 f 0 (len - 1);
  Ok (s2, removed).

Definition vec_set (s : store) (f index : N) (v : list N) : outcome store :=
  do _ <- assert (negb (w =? 0)%nat);
  do len <- read_len s f;
  do _ <- assert (index <? len);
  write_elem s (hash_b256 f) index v.

(* count = len-1 downto index: write(count+1) <- read(count).unwrap() : n iterations,
   count is the index read in the first of them *)
Fixpoint shift_up (n : nat) (s : store) (key count : N) : outcome store :=
  match n with
  | O => Ok s
  | S n' =>
    do r <- read_elem s key count;
    do v <- unwrap r;
    do s1 <- write_elem s key (count + 1) v;
    shift_up n' s1 key (count - 1)
  end.

Definition vec_insert (s : store) (f index : N) (v : list N) : outcome store :=
  do _ <- assert (negb (w =? 0)%nat);
  do len <- read_len s f;
  do _ <- assert (index <=? len);
  let key := hash_b256 f in
  if len =? index then
    do s1 <- write_elem s key index v;
    do len1 <- add64 len 1;
    write_u64 s1 f 0 len1
  else
    do s1 <- shift_up (N.to_nat (len - index)) s key (len - 1);
    do s2 <- write_elem s1 key index v;
    do len1 <- add64 len 1;
    write_u64 s2 f 0 len1.

Definition vec_len (s : store) (f : N) : outcome N := read_len s f.
Definition vec_is_empty (s : store) (f : N) : outcome bool := do len <- read_len s f; Ok (len =? 0).

Definition vec_swap (s : store) (f i j : N) : outcome store :=
  do _ <- assert (negb (w =? 0)%nat);
  do len <- read_len s f;
  do _ <- assert (i <? len);
  do _ <- assert (j <? len);
  if i =? j then Ok s
  else
    let key := hash_b256 f in
    do r1 <- read_elem s key i;
    do v1 <- unwrap r1;
    do r2 <- read_elem s key j;
    do v2 <- unwrap r2;
    do s1 <- write_elem s key i v2;
    write_elem s1 key j v1.

(* first() / last() followed by try_read() *)
Definition vec_first (s : store) (f : N) : outcome (option (option (list N))) :=
  do len <- read_len s f;
  if len =? 0 then Ok None
  else do r <- read_quads w isref s (hash_b256 f) 0; Ok (Some r).
Definition vec_last (s : store) (f : N) : outcome (option (option (list N))) :=
  do len <- read_len s f;
  if len =? 0 then Ok None
  else do r <- read_elem s (hash_b256 f) (len - 1); Ok (Some r).

(* i = i0 .. : swap element i with element len-i-1 : n iterations *)
Fixpoint reverse_loop (n : nat) (s : store) (key len i : N) : outcome store :=
  match n with
  | O => Ok s
  | S n' =>
    do r1 <- read_elem s key i;
    do v1 <- unwrap r1;
    do r2 <- read_elem s key (len - i - 1);
    do v2 <- unwrap r2;
    do s1 <- write_elem s key i v2;
    do s2 <- write_elem s1 key (len - i - 1) v1;
    reverse_loop n' s2 key len (i + 1)
  end.
Definition vec_reverse (s : store) (f : N) : outcome store :=
  do _ <- assert (negb (w =? 0)%nat);
  do len <- read_len s f;
  if len <? 2 then Ok s
  else reverse_loop (N.to_nat (len / 2)) s (hash_b256 f) len 0.

(* i = i0 .. : write(i) <- value : n iterations *)
Fixpoint fill_loop (n : nat) (s : store) (key i : N) (v : list N) : outcome store :=
  match n with
  | O => Ok s
  | S n' => do s1 <- write_elem s key i v; fill_loop n' s1 key (i + 1) v
  end.
Definition vec_fill (s : store) (f : N) (v : list N) : outcome store :=
  do _ <- assert (negb (w =? 0)%nat);
  do len <- read_len s f;
  fill_loop (N.to_nat len) s (hash_b256 f) 0 v.
Definition vec_resize (s : store) (f new_len : N) (v : list N) : outcome store :=
  do len <- read_len s f;
  do s1 <- fill_loop (N.to_nat (new_len - len)) s (hash_b256 f) len v;
  write_u64 s1 f 0 new_len.

(* StorageKey::clear on the zero-sized StorageVec: clear_quads::<u64>(field_id, 0) *)
Definition vec_clear (s : store) (f : N) : outcome (store * bool) := clear_quads 1 false s f 0.

(* store_vec / load_vec for word-multiple element sizes (size_V_bytes % 8 == 0 branch) *)
Definition vec_store_vec (s : store) (f : N) (vs : list (list N)) : outcome store :=
  do _ <- assert (negb (w =? 0)%nat);
  let nbytes := 8 * N.of_nat w * N.of_nat (length vs) in
  let nslots := N.shiftr (nbytes + 31) 5 in
  do s1 <- store_quad s (hash_b256 f) (unflat (concat vs) (N.to_nat nslots));
  write_u64 s1 f 0 (N.of_nat (length vs)).
Fixpoint chunk (n : nat) (ws : list N) : list (list N) :=
  match n with O => [] | S n' => firstn w ws :: chunk n' (skipn w ws) end.
Definition vec_load_vec (s : store) (f : N) : outcome (list (list N)) :=
  do _ <- assert (negb (w =? 0)%nat);
  do len <- read_len s f;
  if len =? 0 then Ok []
  else
    do bytes <- mul64 len (8 * N.of_nat w);
    let nslots := N.shiftr (bytes + 31) 5 in
    do r <- load_quad s (hash_b256 f) (N.to_nat nslots);
    Ok (chunk (N.to_nat len) (flat (fst r))).
End Vec.

(* ---------- storage_map.sw (quads) ---------- *)
(* pre-image of get_slot_key: (STORAGE_MAP_DOMAIN as u8, key, field_id); the key arrives as the
   bytes its Hash impl feeds (u64: 8 bytes, b256: 32 bytes) *)
Definition map_preimage (kbytes : list N) (f : N) : list N := c28_map_domain :: kbytes ++ be_bytes 32 f.
Definition map_slot (kbytes : list N) (f : N) : N := H (map_preimage kbytes f).

Definition map_insert (isref : bool) (s : store) (f : N) (kb v : list N) : outcome store :=
  write_quads isref s (map_slot kb f) 0 v.
(* get(key).try_read() *)
Definition map_get (w : nat) (isref : bool) (s : store) (f : N) (kb : list N) : outcome (option (list N)) :=
  read_quads w isref s (map_slot kb f) 0.
Definition map_remove (w : nat) (isref : bool) (s : store) (f : N) (kb : list N) : outcome (store * bool) :=
  clear_quads w isref s (map_slot kb f) 0.
(* Result: inl existing (OccupiedError) / inr value (Ok) *)
Definition map_try_insert (isref : bool) (s : store) (f : N) (kb v : list N) : outcome (store * (list N + list N)) :=
  let key := map_slot kb f in
  do r <- read_quads (length v) isref s key 0;
  match r with
  | Some e => Ok (s, inl e)
  | None => do s1 <- write_quads isref s key 0 v; Ok (s1, inr v)
  end.

(* ---------- storable_slice.sw / storage_bytes.sw / storage_string.sw (quads) ---------- *)
Fixpoint words_of_bytes (n : nat) (bs : list N) : list N :=
  match n with O => [] | S n' => be_word (firstn 8 bs) :: words_of_bytes n' (skipn 8 bs) end.
Fixpoint bytes_of_words (ws : list N) : list N :=
  match ws with [] => [] | x :: r => be_bytes 8 x ++ bytes_of_words r end.

Definition slice_slots (nbytes : N) : N := N.shiftr (nbytes + c28_sl_round) c28_sl_shift.

Definition slice_write (s : store) (f : N) (bs : list N) : outcome store :=
  let nb := N.of_nat (length bs) in
  let n := N.to_nat (slice_slots nb) in
  let padded := bs ++ repeat 0 (32 * n - length bs) in
  do s1 <- store_quad s (hash_b256 f) (unflat (words_of_bytes (4 * n) padded) n);
  write_u64 s1 f 0 nb.
Definition slice_read (s : store) (f : N) : outcome (option (list N)) :=
  do len <- read_len s f;
  if len =? 0 then Ok None
  else
    do r <- load_quad s (hash_b256 f) (N.to_nat (slice_slots len));
    Ok (Some (firstn (N.to_nat len) (bytes_of_words (flat (fst r))))).
Definition slice_clear (s : store) (f : N) : outcome (store * bool) :=
  do len <- read_len s f;
  do r1 <- clear_quad s f 1;
  clear_quad (fst r1) (hash_b256 f) (N.to_nat (slice_slots len)).
Definition slice_len (s : store) (f : N) : outcome N := read_len s f.

(* ---------- keys of storage fields (sway-core ir_generation/storage.rs) ---------- *)
(* sha256(STORAGE_DOMAIN ++ "storage" ++ "." ++ name) *)
Definition field_preimage (name : list N) : list N := c28_storage_domain :: c28_storage_ns ++ c28_field_sep ++ name.
Definition field_id (name : list N) : N := H (field_preimage name).

End WithHash.
