(* C28 — StorageVec<u64>: word-level description of the store around one vector field. *)
From SwayV Require Import Base.Util Generated.C28Facts C28.Model C28.Step C28.Spec C28.StoreLemmas C28.ApiLemmas C28.ListN.
Require Import ZifyBool ZifyN ZifyNat.
Ltac Zify.zify_post_hook ::= Z.div_mod_to_equations.
Open Scope N_scope.

(* number of slots a vector of up to LMAX u64 elements may occupy: LMAX / 4 *)
Definition CAP : N := 288230376151711744.

Definition setto (g : N -> N) (i v : N) : N -> N := fun j => if j =? i then v else g j.

Section VecBase.
Variable H : list N -> N.
Variable f : N.
Let base := hash_b256 H f.
Hypothesis Hf : f < W256.
Hypothesis Hbase : base + CAP <= W256.
Hypothesis Hsep : f < base \/ base + CAP <= f.

Lemma slot_in i : i < LMAX -> base + i / 4 < W256.
Proof. unfold LMAX, CAP in *. lia. Qed.
Lemma slot_ne_f i : i < LMAX -> base + i / 4 <> f + 0 / 4.
Proof. unfold LMAX, CAP in *. change (0 / 4) with 0. lia. Qed.
Lemma slot_ne_f' i : i < LMAX -> f + 0 / 4 <> base + i / 4.
Proof. intros Hi E. symmetry in E. revert E. apply slot_ne_f. exact Hi. Qed.

(* slots outside the vector's footprint {f} U [base, base+CAP) are as in the initial store s0 *)
Variable s0 : store.
Definition outside (s : store) : Prop :=
  forall k, k <> f -> (k < base \/ base + CAP <= k) -> sget s k = sget s0 k.
Lemma outside_wwrite_elem s i v : outside s -> i < LMAX -> outside (wwrite s base i v).
Proof.
  intros Ho Hi k Hk Hr. rewrite sget_wwrite_other; [apply Ho; assumption|]. unfold LMAX, CAP in *. lia.
Qed.
Lemma outside_wwrite_len s v : outside s -> outside (wwrite s f 0 v).
Proof.
  intros Ho k Hk Hr. rewrite sget_wwrite_other; [apply Ho; assumption|]. change (0 / 4) with 0. lia.
Qed.

(* length word and all words of the element region *)
Definition vst (s : store) (L : N) (g : N -> N) : Prop :=
  abs_len s f = L /\ (forall i, i < LMAX -> wread s base i = g i) /\ outside s.
Definition allset (s : store) (n : N) : Prop := forall i, i < n -> sget s (base + i / 4) <> None.

Lemma vst_init : vst s0 (abs_len s0 f) (wread s0 base).
Proof. split; [reflexivity|]. split; [intros; reflexivity|]. intros k _ _. reflexivity. Qed.

Lemma vst_wwrite_elem s L g i v : vst s L g -> i < LMAX -> vst (wwrite s base i v) L (setto g i v).
Proof.
  intros [Hl [Hw Ho]] Hi. split; [|split].
  - unfold abs_len. rewrite wread_wwrite_far by (apply slot_ne_f'; exact Hi). exact Hl.
  - intros j Hj. unfold setto. destruct (N.eqb_spec j i) as [E|E].
    + subst j. apply wread_wwrite_same.
    + rewrite wread_wwrite_other by exact E. apply Hw. exact Hj.
  - apply outside_wwrite_elem; assumption.
Qed.

Lemma vst_wwrite_len s L g L' : vst s L g -> vst (wwrite s f 0 L') L' g.
Proof.
  intros [Hl [Hw Ho]]. split; [|split].
  - unfold abs_len. apply wread_wwrite_same.
  - intros j Hj. rewrite wread_wwrite_far by (apply slot_ne_f; exact Hj). apply Hw. exact Hj.
  - apply outside_wwrite_len. exact Ho.
Qed.

Lemma allset_le s n m : allset s n -> m <= n -> allset s m.
Proof. intros Ha Hle i Hi. apply Ha. lia. Qed.
Lemma allset_wwrite_elem s n i v : allset s n -> allset (wwrite s base i v) n.
Proof. intros Ha j Hj. apply sget_wwrite_mono. apply Ha. exact Hj. Qed.
Lemma allset_wwrite_next s n v : allset s n -> allset (wwrite s base n v) (n + 1).
Proof.
  intros Ha j Hj. destruct (N.eq_dec j n) as [E|E].
  - subst j. apply sget_wwrite_same.
  - apply sget_wwrite_mono. apply Ha. lia.
Qed.
Lemma allset_wwrite_len s n x : allset s n -> n <= LMAX -> allset (wwrite s f 0 x) n.
Proof.
  intros Ha Hn j Hj. rewrite sget_wwrite_other by (apply slot_ne_f; lia). apply Ha. exact Hj.
Qed.

Lemma vec_inv_allset s : vec_inv H s f <-> allset s (abs_len s f).
Proof. unfold vec_inv, allset. fold base. tauto. Qed.

(* element access of StorageVec<u64> *)
Lemma offset_calc_u64 i : i < LMAX -> offset_calculator 1 i = Ok i.
Proof.
  intros Hi. unfold offset_calculator. change (8 * N.of_nat 1) with 8. change c28_oc_word with 8.
  change (8 + (8 - 1) - (8 + (8 - 1)) mod 8) with 8.
  rewrite mul64_ok by (rewrite W64_val; unfold LMAX in Hi; lia). cbn [bind]. f_equal. lia.
Qed.

Lemma read_elem_raw s i :
  i < LMAX -> read_elem 1 false s base i = Ok (option_map (fun v => [wnth (i mod 4) v]) (sget s (base + i / 4))).
Proof.
  intros Hi. unfold read_elem. rewrite offset_calc_u64 by exact Hi. cbn [bind].
  apply read_quads1_eq; [exact Hi|apply slot_in; exact Hi].
Qed.

Lemma read_elem_ok s L g i :
  vst s L g -> sget s (base + i / 4) <> None -> i < LMAX -> read_elem 1 false s base i = Ok (Some [g i]).
Proof.
  intros [Hl [Hw Ho]] Hs Hi. rewrite read_elem_raw by exact Hi.
  specialize (Hw i Hi). unfold wread, sgetz in Hw.
  destruct (sget s (base + i / 4)) as [v|]; [|congruence]. cbn [option_map]. rewrite Hw. reflexivity.
Qed.

Lemma write_elem_eq s i v : i < LMAX -> write_elem 1 false s base i [v] = Ok (wwrite s base i v).
Proof.
  intros Hi. unfold write_elem. rewrite offset_calc_u64 by exact Hi. cbn [bind].
  apply write_u64_eq; [exact Hi|apply slot_in; exact Hi].
Qed.

Lemma vst_len_read s L g : vst s L g -> read_len s f = Ok L.
Proof. intros [Hl _]. rewrite read_len_eq by exact Hf. unfold abs_len in Hl. rewrite Hl. reflexivity. Qed.

(* the abstraction in terms of vst *)
Lemma abs_of_vst s L g : vst s L g -> L <= LMAX -> abs_vec H s f = map g (Nseq L).
Proof.
  intros [Hl [Hw Ho]] HL. unfold abs_vec. rewrite Hl. fold base. unfold Nseq. rewrite map_map.
  apply map_ext_in. intros a Ha. apply in_seq in Ha. apply Hw. lia.
Qed.

(* ---------- operations without loops ---------- *)
Ltac start_op Hv :=
  erewrite vst_len_read; [|exact Hv]; cbn [bind].

Lemma push_ok s L g v :
  vst s L g -> allset s L -> L + 1 < LMAX ->
  exists s', vec_push H 1 false s f [v] = Ok s' /\ vst s' (L + 1) (setto g L v) /\ allset s' (L + 1).
Proof.
  intros Hv Ha HL. unfold vec_push. start_op Hv. fold base.
  rewrite write_elem_eq by lia. cbn [bind].
  rewrite add64_ok by (rewrite W64_val; unfold LMAX in HL; lia). cbn [bind].
  rewrite write_len_eq by exact Hf.
  eexists. split; [reflexivity|]. split.
  - apply vst_wwrite_len with (L := L). apply vst_wwrite_elem; [exact Hv|lia].
  - apply allset_wwrite_len; [|lia]. apply allset_wwrite_next. exact Ha.
Qed.

Lemma pop_ok s L g :
  vst s L g -> allset s L -> L < LMAX ->
  exists s', vec_pop H 1 false s f = Ok (s', if L =? 0 then None else Some [g (L - 1)])
             /\ vst s' (L - 1) g /\ allset s' (L - 1).
Proof.
  intros Hv Ha HL. unfold vec_pop. start_op Hv.
  destruct (N.eqb_spec L 0) as [E|E].
  - subst L. exists s. split; [reflexivity|]. split; [exact Hv|exact Ha].
  - rewrite write_len_eq by exact Hf. cbn [bind]. fold base.
    assert (Hv' : vst (wwrite s f 0 (L - 1)) (L - 1) g) by (apply vst_wwrite_len with (L := L); exact Hv).
    assert (Ha' : allset (wwrite s f 0 (L - 1)) L) by (apply allset_wwrite_len; [exact Ha|lia]).
    rewrite (read_elem_ok _ _ _ _ Hv') by (try apply Ha'; lia). cbn [bind].
    eexists. split; [reflexivity|]. split; [exact Hv'|]. apply allset_le with (n := L); [exact Ha'|lia].
Qed.

Lemma get_ok s L g i :
  vst s L g -> allset s L -> L < LMAX ->
  vec_get H 1 false s f i = Ok (if L <=? i then None else Some (Some [g i])).
Proof.
  intros Hv Ha HL. unfold vec_get. start_op Hv.
  destruct (N.leb_spec L i) as [E|E]; [reflexivity|]. fold base.
  rewrite (read_elem_ok _ _ _ _ Hv) by (try apply Ha; lia). reflexivity.
Qed.

Lemma set_ok s L g i v :
  vst s L g -> allset s L -> L < LMAX ->
  if i <? L then exists s', vec_set H 1 false s f i [v] = Ok s' /\ vst s' L (setto g i v) /\ allset s' L
  else vec_set H 1 false s f i [v] = Err 1.
Proof.
  intros Hv Ha HL. unfold vec_set. cbn [Nat.eqb negb assert bind]. start_op Hv.
  destruct (N.ltb_spec i L) as [E|E]; cbn [assert bind]; [|reflexivity]. fold base.
  rewrite write_elem_eq by lia.
  eexists. split; [reflexivity|]. split; [apply vst_wwrite_elem; [exact Hv|lia]|apply allset_wwrite_elem; exact Ha].
Qed.

Lemma len_ok s L g : vst s L g -> vec_len s f = Ok L.
Proof. intros Hv. unfold vec_len. apply (vst_len_read _ _ _ Hv). Qed.
Lemma is_empty_ok s L g : vst s L g -> vec_is_empty s f = Ok (L =? 0).
Proof. intros Hv. unfold vec_is_empty. start_op Hv. reflexivity. Qed.

Lemma first_ok s L g :
  vst s L g -> allset s L -> L < LMAX ->
  vec_first H 1 false s f = Ok (if L =? 0 then None else Some (Some [g 0])).
Proof.
  intros Hv Ha HL. unfold vec_first. start_op Hv.
  destruct (N.eqb_spec L 0) as [E|E]; [reflexivity|]. fold base.
  assert (H0 : 0 < LMAX) by reflexivity.
  rewrite read_quads1_eq; [|exact H0|apply slot_in; exact H0]. cbn [bind].
  destruct Hv as [Hl [Hw Ho]]. specialize (Hw 0 H0). unfold wread, sgetz in Hw.
  assert (Hs : sget s (base + 0 / 4) <> None) by (apply Ha; lia).
  destruct (sget s (base + 0 / 4)) as [x|]; [|congruence]. cbn [option_map]. rewrite Hw. reflexivity.
Qed.

Lemma last_ok s L g :
  vst s L g -> allset s L -> L < LMAX ->
  vec_last H 1 false s f = Ok (if L =? 0 then None else Some (Some [g (L - 1)])).
Proof.
  intros Hv Ha HL. unfold vec_last. start_op Hv.
  destruct (N.eqb_spec L 0) as [E|E]; [reflexivity|]. fold base.
  rewrite (read_elem_ok _ _ _ _ Hv) by (try apply Ha; lia). reflexivity.
Qed.

Lemma swap_ok s L g i j :
  vst s L g -> allset s L -> L < LMAX ->
  if (i <? L) && (j <? L)
  then exists s', vec_swap H 1 false s f i j = Ok s' /\ vst s' L (setto (setto g i (g j)) j (g i)) /\ allset s' L
  else vec_swap H 1 false s f i j = Err 1.
Proof.
  intros Hv Ha HL. unfold vec_swap. cbn [Nat.eqb negb assert bind]. start_op Hv.
  destruct (N.ltb_spec i L) as [Ei|Ei]; cbn [assert bind andb]; [|reflexivity].
  destruct (N.ltb_spec j L) as [Ej|Ej]; cbn [assert bind andb]; [|reflexivity].
  destruct (N.eqb_spec i j) as [E|E].
  - subst j. exists s. split; [reflexivity|]. split; [|exact Ha].
    destruct Hv as [Hl [Hw Ho]]. split; [exact Hl|]. split; [|exact Ho]. intros k Hk. unfold setto.
    destruct (N.eqb_spec k i) as [E|E]; [subst k|]; apply Hw; assumption.
  - fold base.
    rewrite (read_elem_ok _ _ _ _ Hv) by (try apply Ha; lia). cbn [bind unwrap].
    rewrite (read_elem_ok _ _ _ _ Hv) by (try apply Ha; lia). cbn [bind unwrap].
    rewrite write_elem_eq by lia. cbn [bind]. rewrite write_elem_eq by lia.
    eexists. split; [reflexivity|]. split.
    + apply vst_wwrite_elem; [|lia]. apply vst_wwrite_elem; [exact Hv|lia].
    + apply allset_wwrite_elem. apply allset_wwrite_elem. exact Ha.
Qed.

Lemma swap_remove_ok s L g i :
  vst s L g -> allset s L -> L < LMAX ->
  if i <? L
  then exists s', vec_swap_remove H 1 false s f i = Ok (s', [g i]) /\ vst s' (L - 1) (setto g i (g (L - 1))) /\ allset s' (L - 1)
  else vec_swap_remove H 1 false s f i = Err 1.
Proof.
  intros Hv Ha HL. unfold vec_swap_remove. cbn [Nat.eqb negb assert bind]. start_op Hv.
  destruct (N.ltb_spec i L) as [Ei|Ei]; cbn [assert bind]; [|reflexivity]. fold base.
  rewrite (read_elem_ok _ _ _ _ Hv) by (try apply Ha; lia). cbn [bind unwrap].
  rewrite (read_elem_ok _ _ _ _ Hv) by (try apply Ha; lia). cbn [bind unwrap].
  rewrite write_elem_eq by lia. cbn [bind]. rewrite write_len_eq by exact Hf. cbn [bind].
  eexists. split; [reflexivity|]. split.
  - apply vst_wwrite_len with (L := L). apply vst_wwrite_elem; [exact Hv|lia].
  - apply allset_wwrite_len; [|lia]. apply allset_wwrite_elem. apply allset_le with (n := L); [exact Ha|lia].
Qed.

(* StorageKey::clear on the vector: the length slot becomes unset *)
Lemma clear_ok s L g :
  vst s L g ->
  exists s' b, vec_clear s f = Ok (s', b) /\ vst s' 0 g /\ allset s' 0.
Proof.
  intros [Hl [Hw Ho]]. unfold vec_clear, clear_quads. cbn [Nat.eqb]. change (8 * N.of_nat 1) with 8.
  assert (H0 : 0 < LMAX) by reflexivity.
  rewrite slot_calc_u64; [|exact H0|change (0 / 4) with 0; lia]. cbn [bind].
  change (N.to_nat 1) with 1%nat. cbn [clear_quad]. change (0 / 4) with 0.
  assert (Hk : f + 0 <? W256 = true) by (apply N.ltb_lt; lia). rewrite Hk. cbn [bind fst snd].
  eexists. eexists. split; [reflexivity|]. split.
  - split; [|split].
    + unfold abs_len, wread, sgetz. change (0 / 4) with 0. rewrite sget_sclr_same. reflexivity.
    + intros i Hi. unfold wread, sgetz. rewrite sget_sclr_other by (apply slot_ne_f in Hi; change (0 / 4) with 0 in Hi; exact Hi).
      apply Hw. exact Hi.
    + intros k Hk2 Hr. rewrite sget_sclr_other by (change (0 / 4) with 0; lia). apply Ho; assumption.
  - intros i Hi. lia.
Qed.

(* ---------- loops ---------- *)
Lemma vst_ext s L g g' : vst s L g -> (forall j, j < LMAX -> g j = g' j) -> vst s L g'.
Proof. intros [Hl [Hw Ho]] He. split; [exact Hl|]. split; [|exact Ho]. intros j Hj. rewrite Hw by exact Hj. apply He. exact Hj. Qed.

Ltac fun_cases :=
  repeat match goal with
         | |- context [N.eqb ?a ?b] => destruct (N.eqb_spec a b)
         | |- context [N.ltb ?a ?b] => destruct (N.ltb_spec a b)
         | |- context [N.leb ?a ?b] => destruct (N.leb_spec a b)
         end; cbn [andb orb negb]; try reflexivity; try lia; try (f_equal; lia).

Ltac decide_cmp :=
  repeat match goal with
         | |- context [N.leb ?a ?b] =>
           first [ replace (N.leb a b) with true by (symmetry; apply N.leb_le; lia)
                 | replace (N.leb a b) with false by (symmetry; apply N.leb_gt; lia) ]
         | |- context [N.ltb ?a ?b] =>
           first [ replace (N.ltb a b) with true by (symmetry; apply N.ltb_lt; lia)
                 | replace (N.ltb a b) with false by (symmetry; apply N.ltb_ge; lia) ]
         | |- context [N.eqb ?a ?b] =>
           first [ replace (N.eqb a b) with true by (symmetry; apply N.eqb_eq; lia)
                 | replace (N.eqb a b) with false by (symmetry; apply N.eqb_neq; lia) ]
         end; cbn [andb orb negb]; try reflexivity; try (f_equal; lia).

Definition isset (s : store) (k : N) : Prop := sget s (base + k / 4) <> None.
Lemma isset_wwrite_mono s i v k : isset s k -> isset (wwrite s base i v) k.
Proof. apply sget_wwrite_mono. Qed.
Lemma isset_wwrite_same s i v : isset (wwrite s base i v) i.
Proof. apply sget_wwrite_same. Qed.

(* fill_loop: words i .. i+n-1 := v *)
Definition fillf (g : N -> N) (i n v : N) : N -> N := fun j => if (i <=? j) && (j <? i + n) then v else g j.
Lemma fill_loop_ok v L : forall n s g i,
  vst s L g -> i + N.of_nat n <= LMAX ->
  exists s', fill_loop 1 false n s base i [v] = Ok s' /\ vst s' L (fillf g i (N.of_nat n) v)
             /\ (forall k, isset s k \/ (i <= k < i + N.of_nat n) -> isset s' k).
Proof.
  induction n as [|n IH]; intros s g i Hv Hb.
  - exists s. split; [reflexivity|]. split.
    + apply vst_ext with (g := g); [exact Hv|]. intros j Hj. unfold fillf. fun_cases.
    + intros k [Hk|Hk]; [exact Hk|lia].
  - cbn [fill_loop]. rewrite write_elem_eq by lia. cbn [bind].
    destruct (IH (wwrite s base i v) (setto g i v) (i + 1)) as [s' [Hr [Hv' Hs']]]; [apply vst_wwrite_elem; [exact Hv|lia]|lia|].
    exists s'. split; [exact Hr|]. split.
    + apply vst_ext with (g := fillf (setto g i v) (i + 1) (N.of_nat n) v); [exact Hv'|].
      intros j Hj. unfold fillf, setto. fun_cases.
    + intros k [Hk|Hk].
      * apply Hs'. left. apply isset_wwrite_mono. exact Hk.
      * destruct (N.eq_dec k i) as [E|E]; [subst k; apply Hs'; left; apply isset_wwrite_same|apply Hs'; right; lia].
Qed.

(* shift_down: words c-1 .. c+n-2 := words c .. c+n-1 *)
Definition shiftdf (g : N -> N) (lo n : N) : N -> N := fun j => if (lo <=? j) && (j <? lo + n) then g (j + 1) else g j.
Lemma shift_down_ok L : forall n s g c,
  vst s L g -> 1 <= c -> c + N.of_nat n <= LMAX -> (forall k, c <= k < c + N.of_nat n -> isset s k) ->
  exists s', shift_down 1 false n s base c = Ok s' /\ vst s' L (shiftdf g (c - 1) (N.of_nat n))
             /\ (forall k, isset s k -> isset s' k).
Proof.
  induction n as [|n IH]; intros s g c Hv Hc Hb Hset.
  - exists s. split; [reflexivity|]. split; [|auto].
    apply vst_ext with (g := g); [exact Hv|]. intros j Hj. unfold shiftdf. fun_cases.
  - cbn [shift_down].
    rewrite (read_elem_ok _ _ _ _ Hv) by (try (apply Hset); lia). cbn [bind unwrap].
    rewrite write_elem_eq by lia. cbn [bind].
    destruct (IH (wwrite s base (c - 1) (g c)) (setto g (c - 1) (g c)) (c + 1)) as [s' [Hr [Hv' Hs']]];
      [apply vst_wwrite_elem; [exact Hv|lia]|lia|lia|intros k Hk; apply isset_wwrite_mono; apply Hset; lia|].
    exists s'. split; [exact Hr|]. split.
    + apply vst_ext with (g := shiftdf (setto g (c - 1) (g c)) (c + 1 - 1) (N.of_nat n)); [exact Hv'|].
      intros j Hj. unfold shiftdf, setto. fun_cases.
    + intros k Hk. apply Hs'. apply isset_wwrite_mono. exact Hk.
Qed.

(* shift_up: words lo+1 .. lo+n := words lo .. lo+n-1 (from the top) *)
Definition shiftuf (g : N -> N) (lo n : N) : N -> N := fun j => if (lo <? j) && (j <=? lo + n) then g (j - 1) else g j.
Lemma shift_up_ok L : forall n s g lo,
  vst s L g -> lo + N.of_nat n + 1 <= LMAX -> (forall k, lo <= k < lo + N.of_nat n -> isset s k) ->
  exists s', shift_up 1 false n s base (lo + N.of_nat n - 1) = Ok s' /\ vst s' L (shiftuf g lo (N.of_nat n))
             /\ (forall k, isset s k \/ (lo < k <= lo + N.of_nat n) -> isset s' k).
Proof.
  induction n as [|n IH]; intros s g lo Hv Hb Hset.
  - exists s. split; [reflexivity|]. split.
    + apply vst_ext with (g := g); [exact Hv|]. intros j Hj. unfold shiftuf. fun_cases.
    + intros k [Hk|Hk]; [exact Hk|lia].
  - cbn [shift_up]. set (c := lo + N.of_nat (S n) - 1).
    assert (Hc : c = lo + N.of_nat n) by (unfold c; lia).
    rewrite (read_elem_ok _ _ _ _ Hv) by (try (apply Hset); lia). cbn [bind unwrap].
    rewrite write_elem_eq by lia. cbn [bind].
    replace (c - 1) with (lo + N.of_nat n - 1) by lia.
    destruct (IH (wwrite s base (c + 1) (g c)) (setto g (c + 1) (g c)) lo) as [s' [Hr [Hv' Hs']]];
      [apply vst_wwrite_elem; [exact Hv|lia]|lia|intros k Hk; apply isset_wwrite_mono; apply Hset; lia|].
    exists s'. split; [exact Hr|]. split.
    + apply vst_ext with (g := shiftuf (setto g (c + 1) (g c)) lo (N.of_nat n)); [exact Hv'|].
      intros j Hj. unfold shiftuf, setto. rewrite Hc. fun_cases.
    + intros k [Hk|Hk].
      * apply Hs'. left. apply isset_wwrite_mono. exact Hk.
      * destruct (N.eq_dec k (c + 1)) as [E|E]; [subst k; apply Hs'; left; apply isset_wwrite_same|apply Hs'; right; lia].
Qed.

(* reverse_loop: swaps i <-> len-1-i for i = i0 .. i0+n-1 *)
Definition revf (g : N -> N) (len i0 n : N) : N -> N :=
  fun j => if ((i0 <=? j) && (j <? i0 + n)) || ((len - i0 - n <=? j) && (j <? len - i0)) then g (len - 1 - j) else g j.
Lemma reverse_loop_ok L len : forall n s g i0,
  vst s L g -> len <= LMAX -> 2 * (i0 + N.of_nat n) <= len -> (forall k, k < len -> isset s k) ->
  exists s', reverse_loop 1 false n s base len i0 = Ok s' /\ vst s' L (revf g len i0 (N.of_nat n))
             /\ (forall k, isset s k -> isset s' k).
Proof.
  induction n as [|n IH]; intros s g i0 Hv Hlen Hb Hset.
  - exists s. split; [reflexivity|]. split; [|auto].
    apply vst_ext with (g := g); [exact Hv|]. intros j Hj. unfold revf. fun_cases.
  - cbn [reverse_loop].
    rewrite (read_elem_ok _ _ _ _ Hv) by (try (apply Hset); lia). cbn [bind unwrap].
    rewrite (read_elem_ok _ _ _ _ Hv) by (try (apply Hset); lia). cbn [bind unwrap].
    rewrite write_elem_eq by lia. cbn [bind]. rewrite write_elem_eq by lia. cbn [bind].
    set (g1 := setto (setto g i0 (g (len - i0 - 1))) (len - i0 - 1) (g i0)).
    destruct (IH (wwrite (wwrite s base i0 (g (len - i0 - 1))) base (len - i0 - 1) (g i0)) g1 (i0 + 1)) as [s' [Hr [Hv' Hs']]];
      [apply vst_wwrite_elem; [apply vst_wwrite_elem; [exact Hv|lia]|lia]|exact Hlen|lia
      |intros k Hk; apply isset_wwrite_mono; apply isset_wwrite_mono; apply Hset; exact Hk|].
    exists s'. split; [exact Hr|]. split.
    + apply vst_ext with (g := revf g1 len (i0 + 1) (N.of_nat n)); [exact Hv'|].
      intros j Hj. unfold revf, g1, setto.
      assert (Hc : j < i0 \/ j = i0 \/ (i0 + 1 <= j < i0 + 1 + N.of_nat n) \/ (i0 + 1 + N.of_nat n <= j < len - i0 - 1 - N.of_nat n)
                   \/ (len - i0 - 1 - N.of_nat n <= j < len - i0 - 1) \/ j = len - i0 - 1 \/ len - i0 <= j) by lia.
      destruct Hc as [Hc|[Hc|[Hc|[Hc|[Hc|[Hc|Hc]]]]]]; decide_cmp.
    + intros k Hk. apply Hs'. apply isset_wwrite_mono. apply isset_wwrite_mono. exact Hk.
Qed.

(* ---------- operations with loops ---------- *)
Lemma remove_ok s L g i :
  vst s L g -> allset s L -> L < LMAX ->
  if i <? L
  then exists s', vec_remove H 1 false s f i = Ok (s', [g i]) /\ vst s' (L - 1) (shiftdf g i (L - 1 - i)) /\ allset s' (L - 1)
  else vec_remove H 1 false s f i = Err 1.
Proof.
  intros Hv Ha HL. unfold vec_remove. cbn [Nat.eqb negb assert bind]. start_op Hv.
  destruct (N.ltb_spec i L) as [Ei|Ei]; cbn [assert bind]; [|reflexivity]. fold base.
  rewrite (read_elem_ok _ _ _ _ Hv) by (try apply Ha; lia). cbn [bind unwrap].
  destruct (shift_down_ok L (N.to_nat (L - (i + 1))) s g (i + 1)) as [s1 [Hr [Hv1 Hs1]]];
    [exact Hv|lia|lia|intros k Hk; apply Ha; lia|].
  rewrite Hr. cbn [bind]. rewrite write_len_eq by exact Hf. cbn [bind].
  eexists. split; [reflexivity|]. split.
  - apply vst_wwrite_len with (L := L). apply vst_ext with (g := shiftdf g (i + 1 - 1) (N.of_nat (N.to_nat (L - (i + 1))))); [exact Hv1|].
    intros j Hj. unfold shiftdf. replace (i + 1 - 1) with i by lia. replace (N.of_nat (N.to_nat (L - (i + 1)))) with (L - 1 - i) by lia. reflexivity.
  - apply allset_wwrite_len; [|lia]. intros k Hk. apply Hs1. apply Ha. lia.
Qed.

Lemma insert_ok s L g i v :
  vst s L g -> allset s L -> L + 1 < LMAX ->
  if i <=? L
  then exists s', vec_insert H 1 false s f i [v] = Ok s' /\ vst s' (L + 1) (setto (shiftuf g i (L - i)) i v) /\ allset s' (L + 1)
  else vec_insert H 1 false s f i [v] = Err 1.
Proof.
  intros Hv Ha HL. unfold vec_insert. cbn [Nat.eqb negb assert bind]. start_op Hv.
  destruct (N.leb_spec i L) as [Ei|Ei]; cbn [assert bind]; [|reflexivity]. fold base.
  destruct (N.eqb_spec L i) as [E|E].
  - subst i. rewrite write_elem_eq by lia. cbn [bind].
    rewrite add64_ok by (rewrite W64_val; unfold LMAX in HL; lia). cbn [bind].
    rewrite write_len_eq by exact Hf.
    eexists. split; [reflexivity|]. split.
    + apply vst_wwrite_len with (L := L). apply vst_ext with (g := setto g L v); [apply vst_wwrite_elem; [exact Hv|lia]|].
      intros j Hj. unfold setto, shiftuf. fun_cases.
    + apply allset_wwrite_len; [|lia]. apply allset_wwrite_next. exact Ha.
  - destruct (shift_up_ok L (N.to_nat (L - i)) s g i) as [s1 [Hr [Hv1 Hs1]]];
      [exact Hv|lia|intros k Hk; apply Ha; lia|].
    replace (i + N.of_nat (N.to_nat (L - i)) - 1) with (L - 1) in Hr by lia.
    rewrite Hr. cbn [bind]. rewrite write_elem_eq by lia. cbn [bind].
    rewrite add64_ok by (rewrite W64_val; unfold LMAX in HL; lia). cbn [bind].
    rewrite write_len_eq by exact Hf.
    eexists. split; [reflexivity|]. split.
    + apply vst_wwrite_len with (L := L).
      replace (L - i) with (N.of_nat (N.to_nat (L - i))) by lia.
      apply vst_wwrite_elem; [exact Hv1|lia].
    + apply allset_wwrite_len; [|lia]. intros k Hk. apply isset_wwrite_mono. apply Hs1.
      destruct (N.ltb_spec k L) as [Hk'|Hk']; [left; apply Ha; exact Hk'|right; lia].
Qed.

Definition revall (g : N -> N) (L : N) : N -> N := fun j => if j <? L then g (L - 1 - j) else g j.
Lemma reverse_ok s L g :
  vst s L g -> allset s L -> L < LMAX ->
  exists s', vec_reverse H 1 false s f = Ok s' /\ vst s' L (revall g L) /\ allset s' L.
Proof.
  intros Hv Ha HL. unfold vec_reverse. cbn [Nat.eqb negb assert bind]. start_op Hv.
  destruct (N.ltb_spec L 2) as [E|E].
  - exists s. split; [reflexivity|]. split; [|exact Ha].
    apply vst_ext with (g := g); [exact Hv|]. intros j Hj. unfold revall.
    destruct (N.ltb_spec j L); [f_equal; lia|reflexivity].
  - fold base.
    destruct (reverse_loop_ok L L (N.to_nat (L / 2)) s g 0) as [s1 [Hr [Hv1 Hs1]]];
      [exact Hv|lia|lia|intros k Hk; apply Ha; exact Hk|].
    exists s1. split; [exact Hr|]. split.
    + apply vst_ext with (g := revf g L 0 (N.of_nat (N.to_nat (L / 2)))); [exact Hv1|].
      intros j Hj. unfold revf, revall. replace (N.of_nat (N.to_nat (L / 2))) with (L / 2) by lia.
      assert (Hc : j < L / 2 \/ (L / 2 <= j < L - L / 2) \/ (L - L / 2 <= j < L) \/ L <= j) by lia.
      destruct Hc as [Hc|[Hc|[Hc|Hc]]]; decide_cmp.
    + intros k Hk. apply Hs1. apply Ha. exact Hk.
Qed.

Lemma fill_ok s L g v :
  vst s L g -> allset s L -> L < LMAX ->
  exists s', vec_fill H 1 false s f [v] = Ok s' /\ vst s' L (fillf g 0 L v) /\ allset s' L.
Proof.
  intros Hv Ha HL. unfold vec_fill. cbn [Nat.eqb negb assert bind]. start_op Hv. fold base.
  destruct (fill_loop_ok v L (N.to_nat L) s g 0) as [s1 [Hr [Hv1 Hs1]]]; [exact Hv|lia|].
  exists s1. split; [exact Hr|]. split.
  - replace L with (N.of_nat (N.to_nat L)) at 2 by lia. exact Hv1.
  - intros k Hk. apply Hs1. left. apply Ha. exact Hk.
Qed.

Lemma resize_ok s L g n v :
  vst s L g -> allset s L -> L < LMAX -> n < LMAX ->
  exists s', vec_resize H 1 false s f n [v] = Ok s' /\ vst s' n (fillf g L (n - L) v) /\ allset s' n.
Proof.
  intros Hv Ha HL Hn. unfold vec_resize. start_op Hv. fold base.
  destruct (fill_loop_ok v L (N.to_nat (n - L)) s g L) as [s1 [Hr [Hv1 Hs1]]]; [exact Hv|lia|].
  rewrite Hr. cbn [bind]. rewrite write_len_eq by exact Hf.
  eexists. split; [reflexivity|]. split.
  - apply vst_wwrite_len with (L := L). replace (n - L) with (N.of_nat (N.to_nat (n - L))) by lia. exact Hv1.
  - apply allset_wwrite_len; [|lia]. intros k Hk. apply Hs1.
    destruct (N.ltb_spec k L) as [Hk'|Hk']; [left; apply Ha; exact Hk'|right; lia].
Qed.

(* ---------- refinement of the list model ---------- *)
Lemma finish s' L' g' l' :
  vst s' L' g' -> allset s' L' -> L' <= LMAX -> len l' = L' -> (forall i, i < L' -> nthN l' i = g' i) ->
  abs_vec H s' f = l' /\ vec_inv H s' f /\ abs_len s' f = len l'.
Proof.
  intros Hv Ha HL Hlen Hn. split; [|split].
  - rewrite (abs_of_vst _ _ _ Hv HL). symmetry. apply list_ext_N.
    + rewrite len_map_Nseq. exact Hlen.
    + intros i Hi. rewrite nthN_map_Nseq by lia. apply Hn. lia.
  - apply vec_inv_allset. destruct Hv as [Hl _]. rewrite Hl. exact Ha.
  - destruct Hv as [Hl _]. rewrite Hl, Hlen. reflexivity.
Qed.

(* store_vec / load_vec (and iter) are not covered by the proof; resize needs its target below LMAX *)
Definition vop_proved (o : vop) : Prop :=
  match o with VResize n _ => n < LMAX | VStore _ | VLoad => False | _ => True end.

Theorem vec_refines o :
  let s := s0 in
  vec_inv H s f -> abs_len s f + 1 < LMAX -> vop_proved o ->
  match spec_vec (abs_vec H s f) o with
  | Some (l', out) =>
    exists s' mo, vec_step H s f o = Ok (s', mo) /\ abs_vec H s' f = l' /\ vec_inv H s' f
                  /\ abs_len s' f = len l' /\ (forall so, out = Some so -> mo = so) /\ outside s'
  | None => vec_step H s f o = Err 1
  end.
Proof.
  intros s Hinv HL Hop.
  pose proof vst_init as Hv. fold s in Hv. apply vec_inv_allset in Hinv. rename Hinv into Ha.
  set (L := abs_len s f) in *. set (g := wread s base) in *.
  assert (Habs : abs_vec H s f = map g (Nseq L)) by (apply abs_of_vst; [exact Hv|lia]).
  remember (abs_vec H s f) as l eqn:El. clear El.
  assert (Hlen : len l = L) by (rewrite Habs; apply len_map_Nseq).
  assert (Hn : forall i, i < L -> nthN l i = g i) by (intros i Hi; rewrite Habs; apply nthN_map_Nseq; exact Hi).
  clear Habs.
  destruct o as [v| |i|i v|i v|i|i j|i| | | | | | |v|n v|l0| ]; cbn [spec_vec vec_step]; change (N.of_nat (length l)) with (len l); rewrite ?Hlen.
  - (* push *)
    destruct (push_ok s L g v Hv Ha) as [s' [Hr [Hv' Ha']]]; [lia|]. rewrite Hr. cbn [bind].
    exists s', []. split; [reflexivity|].
    destruct (finish s' (L + 1) (setto g L v) (l ++ [v]) Hv' Ha') as [A [B C]].
    + lia.
    + rewrite len_app, Hlen. reflexivity.
    + intros i Hi. unfold setto. destruct (N.eqb_spec i L) as [E|E].
      * rewrite nthN_app_r by lia. replace (i - len l) with 0 by lia. reflexivity.
      * rewrite nthN_app_l by lia. apply Hn. lia.
    + repeat split; try assumption; try (apply Hv'); try (apply Hv). intros so E. injection E as E. auto.
  - (* pop *)
    destruct (pop_ok s L g Hv Ha) as [s' [Hr [Hv' Ha']]]; [lia|]. rewrite Hr. cbn [bind fst snd].
    destruct l as [|x r].
    + assert (HL0 : L = 0) by (rewrite <- Hlen; reflexivity).
      replace (L =? 0) with true by (symmetry; apply N.eqb_eq; exact HL0).
      exists s', [0]. split; [reflexivity|].
      destruct (finish s' (L - 1) g [] Hv' Ha') as [A [B C]]; [lia|rewrite HL0; reflexivity|intros i Hi; lia|].
      repeat split; try assumption; try (apply Hv'); try (apply Hv). intros so E. injection E as E. auto.
    + assert (HL0 : L <> 0) by (rewrite <- Hlen, len_cons; lia).
      replace (L =? 0) with false by (symmetry; apply N.eqb_neq; exact HL0).
      exists s', [1; g (L - 1)]. split; [reflexivity|].
      destruct (finish s' (L - 1) g (removelast (x :: r)) Hv' Ha') as [A [B C]].
      * lia.
      * rewrite len_removelast, Hlen. reflexivity.
      * intros i Hi. rewrite nthN_removelast by (rewrite Hlen; exact Hi). apply Hn. lia.
      * repeat split; try assumption; try (apply Hv'); try (apply Hv). intros so E. injection E as E. subst so.
        change (match r with [] => x | _ :: _ => last r 0 end) with (last (x :: r) 0).
        rewrite last_nthN, Hlen. rewrite Hn by lia. reflexivity.
  - (* get *)
    rewrite (get_ok s L g i Hv Ha) by lia. cbn [bind].
    exists s. eexists. split; [reflexivity|].
    destruct (finish s L g l Hv Ha) as [A [B C]]; [lia|exact Hlen|exact Hn|].
    repeat split; try assumption; try (apply Hv'); try (apply Hv). intros so E. injection E as E. subst so.
    destruct (N.ltb_spec i L) as [E1|E1]; destruct (N.leb_spec L i) as [E2|E2]; try lia; cbn [out_opt2]; [|reflexivity].
    f_equal. f_equal. symmetry. apply Hn. exact E1.
  - (* set *)
    pose proof (set_ok s L g i v Hv Ha) as Hs. destruct (N.ltb_spec i L) as [E|E].
    + destruct Hs as [s' [Hr [Hv' Ha']]]; [lia|]. rewrite Hr. cbn [bind].
      exists s', []. split; [reflexivity|].
      destruct (finish s' L (setto g i v) (upd (N.to_nat i) v l) Hv' Ha') as [A [B C]].
      * lia.
      * rewrite len_upd. exact Hlen.
      * intros k Hk. rewrite nthN_upd by lia. unfold setto. destruct (k =? i); [reflexivity|apply Hn; exact Hk].
      * repeat split; try assumption; try (apply Hv'); try (apply Hv). intros so E'. injection E' as E'. auto.
    + rewrite Hs by lia. reflexivity.
  - (* insert *)
    pose proof (insert_ok s L g i v Hv Ha) as Hs. destruct (N.leb_spec i L) as [E|E].
    + destruct Hs as [s' [Hr [Hv' Ha']]]; [lia|]. rewrite Hr. cbn [bind].
      exists s', []. split; [reflexivity|].
      destruct (finish s' (L + 1) (setto (shiftuf g i (L - i)) i v) (firstn (N.to_nat i) l ++ v :: skipn (N.to_nat i) l) Hv' Ha') as [A [B C]].
      * lia.
      * rewrite len_app, len_cons, len_skipn, len_firstn by lia. lia.
      * intros k Hk. unfold setto, shiftuf.
        assert (Hc : k < i \/ k = i \/ i < k) by lia. destruct Hc as [Hc|[Hc|Hc]].
        -- rewrite nthN_app_l by (rewrite len_firstn; lia). rewrite nthN_firstn by lia. decide_cmp. apply Hn. lia.
        -- subst k. rewrite nthN_app_r by (rewrite len_firstn; lia). rewrite len_firstn by lia.
           replace (i - i) with 0 by lia. rewrite nthN_cons_0. decide_cmp.
        -- rewrite nthN_app_r by (rewrite len_firstn; lia). rewrite len_firstn by lia.
           rewrite nthN_cons_S by lia. rewrite nthN_skipn. decide_cmp.
           replace (N.of_nat (N.to_nat i) + (k - i - 1)) with (k - 1) by lia. apply Hn. lia.
      * repeat split; try assumption; try (apply Hv'); try (apply Hv). intros so E'. injection E' as E'. auto.
    + rewrite Hs by lia. reflexivity.
  - (* remove *)
    pose proof (remove_ok s L g i Hv Ha) as Hs. destruct (N.ltb_spec i L) as [E|E].
    + destruct Hs as [s' [Hr [Hv' Ha']]]; [lia|]. rewrite Hr. cbn [bind].
      exists s', [g i]. split; [reflexivity|].
      destruct (finish s' (L - 1) (shiftdf g i (L - 1 - i)) (firstn (N.to_nat i) l ++ skipn (S (N.to_nat i)) l) Hv' Ha') as [A [B C]].
      * lia.
      * rewrite len_app, len_skipn, len_firstn by lia. lia.
      * intros k Hk. unfold shiftdf.
        assert (Hc : k < i \/ i <= k) by lia. destruct Hc as [Hc|Hc].
        -- rewrite nthN_app_l by (rewrite len_firstn; lia). rewrite nthN_firstn by lia. decide_cmp. apply Hn. lia.
        -- rewrite nthN_app_r by (rewrite len_firstn; lia). rewrite len_firstn by lia. rewrite nthN_skipn. decide_cmp.
           replace (N.of_nat (S (N.to_nat i)) + (k - i)) with (k + 1) by lia. apply Hn. lia.
      * repeat split; try assumption; try (apply Hv'); try (apply Hv). intros so E'. injection E' as E'. subst so. f_equal. symmetry. apply Hn. exact E.
    + rewrite Hs by lia. reflexivity.
  - (* swap *)
    pose proof (swap_ok s L g i j Hv Ha) as Hs.
    destruct (N.ltb_spec i L) as [Ei|Ei]; [destruct (N.ltb_spec j L) as [Ej|Ej]|]; cbn [andb] in *.
    + destruct Hs as [s' [Hr [Hv' Ha']]]; [lia|]. rewrite Hr. cbn [bind].
      exists s', []. split; [reflexivity|].
      destruct (finish s' L (setto (setto g i (g j)) j (g i))
                  (upd (N.to_nat j) (nth (N.to_nat i) l 0) (upd (N.to_nat i) (nth (N.to_nat j) l 0) l)) Hv' Ha') as [A [B C]].
      * lia.
      * rewrite !len_upd. exact Hlen.
      * intros k Hk. rewrite nthN_upd by (rewrite len_upd; lia). rewrite nthN_upd by lia. unfold setto.
        change (nth (N.to_nat i) l 0) with (nthN l i). change (nth (N.to_nat j) l 0) with (nthN l j).
        rewrite !Hn by lia. reflexivity.
      * repeat split; try assumption; try (apply Hv'); try (apply Hv). intros so E'. injection E' as E'. auto.
    + rewrite Hs by lia. reflexivity.
    + rewrite Hs by lia. reflexivity.
  - (* swap_remove *)
    pose proof (swap_remove_ok s L g i Hv Ha) as Hs. destruct (N.ltb_spec i L) as [E|E].
    + destruct Hs as [s' [Hr [Hv' Ha']]]; [lia|]. rewrite Hr. cbn [bind].
      exists s', [g i]. split; [reflexivity|].
      destruct (finish s' (L - 1) (setto g i (g (L - 1))) (removelast (upd (N.to_nat i) (last l 0) l)) Hv' Ha') as [A [B C]].
      * lia.
      * rewrite len_removelast, len_upd, Hlen. reflexivity.
      * intros k Hk. rewrite nthN_removelast by (rewrite len_upd, Hlen; exact Hk). rewrite nthN_upd by lia.
        unfold setto. rewrite last_nthN, Hlen. rewrite !Hn by lia. reflexivity.
      * repeat split; try assumption; try (apply Hv'); try (apply Hv). intros so E'. injection E' as E'. subst so. f_equal. symmetry. apply Hn. exact E.
    + rewrite Hs by lia. reflexivity.
  - (* len *)
    rewrite (len_ok s L g Hv). cbn [bind]. exists s, [L]. split; [reflexivity|].
    destruct (finish s L g l Hv Ha) as [A [B C]]; [lia|exact Hlen|exact Hn|].
    repeat split; try assumption; try (apply Hv'); try (apply Hv). intros so E. injection E as E. auto.
  - (* is_empty *)
    rewrite (is_empty_ok s L g Hv). cbn [bind]. exists s, [b2n (L =? 0)]. split; [reflexivity|].
    destruct (finish s L g l Hv Ha) as [A [B C]]; [lia|exact Hlen|exact Hn|].
    repeat split; try assumption; try (apply Hv'); try (apply Hv). intros so E. injection E as E. auto.
  - (* clear *)
    destruct (clear_ok s L g Hv) as [s' [b [Hr [Hv' Ha']]]]. rewrite Hr. cbn [bind fst snd].
    exists s', [b2n b]. split; [reflexivity|].
    destruct (finish s' 0 g [] Hv' Ha') as [A [B C]]; [lia|reflexivity|intros i Hi; lia|].
    repeat split; try assumption; try (apply Hv'); try (apply Hv). intros so E. discriminate E.
  - (* first *)
    rewrite (first_ok s L g Hv Ha) by lia. cbn [bind]. exists s. eexists. split; [reflexivity|].
    destruct (finish s L g l Hv Ha) as [A [B C]]; [lia|exact Hlen|exact Hn|].
    repeat split; try assumption; try (apply Hv'); try (apply Hv). intros so E. injection E as E. subst so.
    destruct l as [|x r].
    + replace (L =? 0) with true by (symmetry; apply N.eqb_eq; rewrite <- Hlen; reflexivity). reflexivity.
    + assert (HL0 : L <> 0) by (rewrite <- Hlen, len_cons; lia).
      replace (L =? 0) with false by (symmetry; apply N.eqb_neq; exact HL0). cbn [out_opt2].
      rewrite <- Hn by lia. reflexivity.
  - (* last *)
    rewrite (last_ok s L g Hv Ha) by lia. cbn [bind]. exists s. eexists. split; [reflexivity|].
    destruct (finish s L g l Hv Ha) as [A [B C]]; [lia|exact Hlen|exact Hn|].
    repeat split; try assumption; try (apply Hv'); try (apply Hv). intros so E. injection E as E. subst so.
    destruct l as [|x r].
    + replace (L =? 0) with true by (symmetry; apply N.eqb_eq; rewrite <- Hlen; reflexivity). reflexivity.
    + assert (HL0 : L <> 0) by (rewrite <- Hlen, len_cons; lia).
      replace (L =? 0) with false by (symmetry; apply N.eqb_neq; exact HL0). cbn [out_opt2].
      rewrite last_nthN, Hlen, Hn by lia. reflexivity.
  - (* reverse *)
    destruct (reverse_ok s L g Hv Ha) as [s' [Hr [Hv' Ha']]]; [lia|]. rewrite Hr. cbn [bind].
    exists s', []. split; [reflexivity|].
    destruct (finish s' L (revall g L) (rev l) Hv' Ha') as [A [B C]].
    + lia.
    + rewrite len_rev. exact Hlen.
    + intros k Hk. rewrite nthN_rev by lia. rewrite Hlen. unfold revall. decide_cmp.
      replace (L - k - 1) with (L - 1 - k) by lia. apply Hn. lia.
    + repeat split; try assumption; try (apply Hv'); try (apply Hv). intros so E. injection E as E. auto.
  - (* fill *)
    destruct (fill_ok s L g v Hv Ha) as [s' [Hr [Hv' Ha']]]; [lia|]. rewrite Hr. cbn [bind].
    exists s', []. split; [reflexivity|].
    destruct (finish s' L (fillf g 0 L v) (repeat v (length l)) Hv' Ha') as [A [B C]].
    + lia.
    + rewrite len_repeat. exact Hlen.
    + intros k Hk. rewrite nthN_repeat by (unfold len in Hlen; lia). unfold fillf. decide_cmp.
    + repeat split; try assumption; try (apply Hv'); try (apply Hv). intros so E. injection E as E. auto.
  - (* resize *)
    cbn [vop_proved] in Hop.
    destruct (resize_ok s L g n v Hv Ha) as [s' [Hr [Hv' Ha']]]; [lia|exact Hop|]. rewrite Hr. cbn [bind].
    exists s', []. split; [reflexivity|].
    destruct (finish s' n (fillf g L (n - L) v) (if n <=? L then firstn (N.to_nat n) l else l ++ repeat v (N.to_nat (n - L))) Hv' Ha') as [A [B C]].
    + lia.
    + destruct (N.leb_spec n L) as [E|E]; [apply len_firstn; lia|]. rewrite len_app, len_repeat. lia.
    + intros k Hk. unfold fillf. destruct (N.leb_spec n L) as [E|E].
      * rewrite nthN_firstn by lia. decide_cmp. apply Hn. lia.
      * assert (Hc : k < L \/ L <= k) by lia. destruct Hc as [Hc|Hc].
        -- rewrite nthN_app_l by lia. decide_cmp. apply Hn. lia.
        -- rewrite nthN_app_r by lia. rewrite nthN_repeat by lia. decide_cmp.
    + repeat split; try assumption; try (apply Hv'); try (apply Hv). intros so E. injection E as E. auto.
  - destruct Hop.
  - destruct Hop.
Qed.
End VecBase.
