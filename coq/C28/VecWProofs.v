(* C28 — StorageVec<V> for an element type of w words (reference type, or one word): refinement of the
   list model, including elements that straddle slot boundaries.  Same structure as VecProofs.v, one
   level up: the store around the vector is described by (length, element function G, footprint). *)
From SwayV Require Import Base.Util Generated.C28Facts C28.Model C28.Step C28.Spec C28.StoreLemmas C28.ApiLemmas C28.ListN
  C28.VecProofs C28.QuadLemmas C28.ListG.
Require Import ZifyBool ZifyN ZifyNat.
Ltac Zify.zify_post_hook ::= Z.div_mod_to_equations.
Open Scope N_scope.

(* abstraction of a vector of w-word elements: element e = words w*e .. w*e+w-1 of the content region *)
Definition eread_at (s : store) (base : N) (w : nat) (e : N) : list N :=
  map (fun t => wread s base (N.of_nat w * e + t)) (Nseq (N.of_nat w)).
Definition abs_vecw (H : list N -> N) (w : nat) (s : store) (f : N) : list (list N) :=
  map (eread_at s (hash_b256 H f) w) (Nseq (abs_len s f)).
(* every slot holding a word of an element below the length is set *)
Definition vecw_inv (H : list N -> N) (w : nat) (s : store) (f : N) : Prop :=
  forall i, i < N.of_nat w * abs_len s f -> sget s (hash_b256 H f + i / 4) <> None.

(* vecw_step of Step.v with the reference-type flag as a parameter (vecw_step = vecw_step_g true) *)
Definition vecw_step_g (H : list N -> N) (isref : bool) (w : nat) (s : store) (f : N) (o : wop) : outcome (store * list N) :=
  match o with
  | WPush v => do s' <- vec_push H w isref s f v; Ok (s', [])
  | WPop => do r <- vec_pop H w isref s f; Ok (fst r, out_opt (snd r))
  | WGet i => do r <- vec_get H w isref s f i; Ok (s, out_opt2 r)
  | WSet i v => do s' <- vec_set H w isref s f i v; Ok (s', [])
  | WInsert i v => do s' <- vec_insert H w isref s f i v; Ok (s', [])
  | WRemove i => do r <- vec_remove H w isref s f i; Ok r
  | WSwap i j => do s' <- vec_swap H w isref s f i j; Ok (s', [])
  | WSwapRemove i => do r <- vec_swap_remove H w isref s f i; Ok r
  | WLen => do n <- vec_len s f; Ok (s, [n])
  | WFirst => do r <- vec_first H w isref s f; Ok (s, out_opt2 r)
  | WLast => do r <- vec_last H w isref s f; Ok (s, out_opt2 r)
  | WReverse => do s' <- vec_reverse H w isref s f; Ok (s', [])
  | WFill v => do s' <- vec_fill H w isref s f v; Ok (s', [])
  | WResize n v => do s' <- vec_resize H w isref s f n v; Ok (s', [])
  | WLoad => do r <- vec_load_vec H w s f; Ok (s, concat r)
  end.

Definition settoE (G : N -> list N) (i : N) (v : list N) : N -> list N := fun j => if j =? i then v else G j.

Section VecW.
Variable H : list N -> N.
Variable f : N.
Variable w : nat.
Variable isref : bool.
Let base := hash_b256 H f.
Let W := N.of_nat w.
(* bound on element indices: all words of elements below EMAX + 1 are below LMAX *)
Variable EMAX : N.
Hypothesis Hf : f < W256.
Hypothesis Hbase : base + CAP <= W256.
Hypothesis Hsep : f < base \/ base + CAP <= f.
Hypothesis Hw1 : 1 <= W.
Hypothesis Href : isref = true \/ W = 1.
Hypothesis HEMAX : W * (EMAX + 1) < LMAX.
Variable s0 : store.

Definition wo (e : N) : N := W * e.
Lemma wo_step e e' : e < e' -> wo e + W <= wo e'.
Proof.
  intros Hlt. unfold wo. replace (W * e + W) with (W * (e + 1)) by lia. apply N.mul_le_mono_l. lia.
Qed.
Lemma wo_bound e : e < EMAX -> wo e + W < LMAX.
Proof. intros He. pose proof (wo_step e EMAX He). unfold wo in *. lia. Qed.
Lemma wo_0 : wo 0 = 0. Proof. unfold wo. lia. Qed.

Lemma wslot_in i : i < LMAX -> base + i / 4 < W256.
Proof. unfold LMAX, CAP in *. lia. Qed.
Lemma wslot_ne_f i : i < LMAX -> base + i / 4 <> f + 0 / 4.
Proof. unfold LMAX, CAP in *. change (0 / 4) with 0. lia. Qed.
Lemma range_ok e : e < EMAX -> base + wo e / 4 + nsl (wo e mod 4) W <= W256.
Proof. intros He. pose proof (wo_bound e He). unfold nsl, LMAX, CAP in *. lia. Qed.

Definition eread (s : store) (e : N) : list N := eread_at s base w e.
Lemma eread_unfold s e : eread s e = map (fun t => wread s base (wo e + t)) (Nseq W).
Proof. reflexivity. Qed.
Lemma eread_length s e : length (eread s e) = w.
Proof. rewrite eread_unfold. rewrite map_length. unfold Nseq. rewrite map_length, seq_length. unfold W. apply Nat2N.id. Qed.

Definition outsideW (s : store) : Prop :=
  forall k, k <> f -> (k < base \/ base + CAP <= k) -> sget s k = sget s0 k.

Definition vst (s : store) (L : N) (G : N -> list N) : Prop :=
  abs_len s f = L /\ (forall e, e < EMAX -> eread s e = G e) /\ outsideW s.
Definition isset (s : store) (k : N) : Prop := forall t, t < W -> sget s (base + (wo k + t) / 4) <> None.
Definition allset (s : store) (n : N) : Prop := forall i, i < n -> isset s i.

Lemma vst_init : vst s0 (abs_len s0 f) (eread s0).
Proof. split; [reflexivity|]. split; [intros; reflexivity|]. intros k _ _. reflexivity. Qed.
Lemma vst_ext s L G G' : vst s L G -> (forall j, j < EMAX -> G j = G' j) -> vst s L G'.
Proof. intros [Hl [Hw Ho]] He. split; [exact Hl|]. split; [|exact Ho]. intros j Hj. rewrite Hw by exact Hj. apply He. exact Hj. Qed.
Lemma Glen s L G e : vst s L G -> e < EMAX -> length (G e) = w.
Proof. intros [_ [Hw _]] He. rewrite <- Hw by exact He. apply eread_length. Qed.

(* ---------- element access ---------- *)
Lemma offset_calc_w e : e < EMAX -> offset_calculator w e = Ok (wo e).
Proof.
  intros He. pose proof (wo_bound e He) as Hb. unfold offset_calculator. fold W. change c28_oc_word with 8.
  assert (E : 8 * W + (8 - 1) - (8 * W + (8 - 1)) mod 8 = 8 * W) by lia. rewrite E.
  rewrite mul64_ok by (rewrite W64_val; unfold wo, LMAX in *; lia). cbn [bind]. f_equal. unfold wo. lia.
Qed.

Lemma read_elem_ok s L G e :
  vst s L G -> isset s e -> e < EMAX -> read_elem w isref s base e = Ok (Some (G e)).
Proof.
  intros [Hl [Hw Ho]] Hs He. unfold read_elem. rewrite offset_calc_w by exact He. cbn [bind].
  pose proof (read_quads_spec w isref s base (wo e)) as R. cbv zeta in R. fold W in R.
  destruct R as [b [E Hb]]; [exact Hw1|exact Href|apply wo_bound; exact He|apply range_ok; exact He|].
  rewrite E. assert (Hbt : b = true).
  { apply Hb. intros j Hj.
    destruct (slot_has_word W (wo e) (j - base) Hw1) as [i [Hi Ei]]; [lia|].
    specialize (Hs (i - wo e)). replace (wo e + (i - wo e)) with i in Hs by lia. rewrite Ei in Hs.
    replace (base + (j - base)) with j in Hs by lia. apply Hs. lia. }
  rewrite Hbt. rewrite <- Hw by exact He. reflexivity.
Qed.

Lemma write_elem_spec s e v : length v = w -> e < EMAX ->
  exists s', write_elem w isref s base e v = Ok s'
    /\ (forall i, wread s' base i = if (wo e <=? i) && (i <? wo e + W) then nthN v (i - wo e) else wread s base i)
    /\ (forall j, base + wo e / 4 <= j < base + wo e / 4 + nsl (wo e mod 4) W -> sget s' j <> None)
    /\ (forall j, ~ (base + wo e / 4 <= j < base + wo e / 4 + nsl (wo e mod 4) W) -> sget s' j = sget s j).
Proof.
  intros Hl He. unfold write_elem. rewrite offset_calc_w by exact He. cbn [bind].
  destruct (write_quads_spec isref s base (wo e) v) as [s' Hs']; rewrite ?Hl; fold W;
    [exact Hw1|exact Href|apply wo_bound; exact He|apply range_ok; exact He|].
  rewrite Hl in Hs'. fold W in Hs'. exists s'. exact Hs'.
Qed.

Definition ewrite (s : store) (e : N) (v : list N) : store :=
  match write_elem w isref s base e v with Ok s' => s' | _ => s end.
Lemma write_elem_eq s e v : length v = w -> e < EMAX -> write_elem w isref s base e v = Ok (ewrite s e v).
Proof. intros Hl He. unfold ewrite. destruct (write_elem_spec s e v Hl He) as [s' [E _]]. rewrite E. reflexivity. Qed.

Lemma ewrite_spec s e v : length v = w -> e < EMAX ->
  (forall i, wread (ewrite s e v) base i = if (wo e <=? i) && (i <? wo e + W) then nthN v (i - wo e) else wread s base i)
  /\ (forall j, base + wo e / 4 <= j < base + wo e / 4 + nsl (wo e mod 4) W -> sget (ewrite s e v) j <> None)
  /\ (forall j, ~ (base + wo e / 4 <= j < base + wo e / 4 + nsl (wo e mod 4) W) -> sget (ewrite s e v) j = sget s j).
Proof. intros Hl He. unfold ewrite. destruct (write_elem_spec s e v Hl He) as [s' [E Hs']]. rewrite E. exact Hs'. Qed.

Lemma eread_ewrite_same s e v : length v = w -> e < EMAX -> eread (ewrite s e v) e = v.
Proof.
  intros Hl He. destruct (ewrite_spec s e v Hl He) as [Hwd _]. rewrite eread_unfold. apply list_ext_N.
  - rewrite len_map_Nseq. unfold len, W. rewrite Hl. reflexivity.
  - intros i Hi. rewrite len_map_Nseq in Hi. rewrite nthN_map_Nseq by exact Hi. rewrite Hwd.
    replace ((wo e <=? wo e + i) && (wo e + i <? wo e + W)) with true.
    + f_equal. lia.
    + symmetry. apply andb_true_iff. split; [apply N.leb_le; lia|apply N.ltb_lt; lia].
Qed.
Lemma eread_ewrite_other s e v e' : length v = w -> e < EMAX -> e' <> e -> eread (ewrite s e v) e' = eread s e'.
Proof.
  intros Hl He Hne. destruct (ewrite_spec s e v Hl He) as [Hwd _]. rewrite !eread_unfold.
  apply map_ext_in. intros t Ht. unfold Nseq in Ht. apply in_map_iff in Ht. destruct Ht as [x [Ex Hx]]. apply in_seq in Hx.
  rewrite Hwd. replace ((wo e <=? wo e' + t) && (wo e' + t <? wo e + W)) with false; [reflexivity|].
  symmetry. apply andb_false_iff.
  destruct (N.lt_total e' e) as [Hc|[Hc|Hc]]; [|contradiction|].
  - left. apply N.leb_gt. pose proof (wo_step e' e Hc). unfold W in *. lia.
  - right. apply N.ltb_ge. pose proof (wo_step e e' Hc). lia.
Qed.
Lemma slot_range_in e j : e < EMAX -> base + wo e / 4 <= j < base + wo e / 4 + nsl (wo e mod 4) W -> base <= j < base + CAP /\ j <> f.
Proof. intros He Hj. pose proof (wo_bound e He). unfold nsl, LMAX, CAP in *. lia. Qed.
Lemma abs_len_ewrite s e v : length v = w -> e < EMAX -> abs_len (ewrite s e v) f = abs_len s f.
Proof.
  intros Hl He. destruct (ewrite_spec s e v Hl He) as [_ [_ Hout]]. unfold abs_len, wread, sgetz.
  rewrite Hout; [reflexivity|]. intros Hj. apply (slot_range_in e _ He) in Hj. change (0 / 4) with 0 in Hj. lia.
Qed.
Lemma outside_ewrite s e v : length v = w -> e < EMAX -> outsideW s -> outsideW (ewrite s e v).
Proof.
  intros Hl He Ho k Hk Hr. destruct (ewrite_spec s e v Hl He) as [_ [_ Hout]].
  rewrite Hout; [apply Ho; assumption|]. intros Hj. apply (slot_range_in e _ He) in Hj. lia.
Qed.
Lemma sget_ewrite_mono s e v j : length v = w -> e < EMAX -> sget s j <> None -> sget (ewrite s e v) j <> None.
Proof.
  intros Hl He Hs. destruct (ewrite_spec s e v Hl He) as [_ [Hin Hout]].
  destruct (N.le_gt_cases (base + wo e / 4) j) as [A|A]; [destruct (N.lt_ge_cases j (base + wo e / 4 + nsl (wo e mod 4) W)) as [B|B]|].
  - apply Hin. lia.
  - rewrite Hout by lia. exact Hs.
  - rewrite Hout by lia. exact Hs.
Qed.
Lemma isset_wwrite_mono s i v k : length v = w -> i < EMAX -> isset s k -> isset (ewrite s i v) k.
Proof. intros Hl Hi Hs t Ht. apply sget_ewrite_mono; [exact Hl|exact Hi|apply Hs; exact Ht]. Qed.
Lemma isset_wwrite_same s i v : length v = w -> i < EMAX -> isset (ewrite s i v) i.
Proof.
  intros Hl Hi t Ht. destruct (ewrite_spec s i v Hl Hi) as [_ [Hin _]]. apply Hin.
  pose proof (word_in_range W (wo i) (wo i + t)). lia.
Qed.

Lemma vst_wwrite_elem s L G i v : vst s L G -> length v = w -> i < EMAX -> vst (ewrite s i v) L (settoE G i v).
Proof.
  intros [Hl [Hw Ho]] Hv Hi. split; [|split].
  - rewrite abs_len_ewrite by assumption. exact Hl.
  - intros j Hj. unfold settoE. destruct (N.eqb_spec j i) as [E|E].
    + subst j. apply eread_ewrite_same; assumption.
    + rewrite eread_ewrite_other by assumption. apply Hw. exact Hj.
  - apply outside_ewrite; assumption.
Qed.

Lemma vst_wwrite_len s L G L' : vst s L G -> vst (wwrite s f 0 L') L' G.
Proof.
  intros [Hl [Hw Ho]]. split; [|split].
  - unfold abs_len. apply wread_wwrite_same.
  - intros e He. rewrite <- Hw by exact He. rewrite !eread_unfold. apply map_ext_in. intros t Ht.
    unfold Nseq in Ht. apply in_map_iff in Ht. destruct Ht as [x [Ex Hx]]. apply in_seq in Hx.
    apply wread_wwrite_far. apply wslot_ne_f. pose proof (wo_bound e He). unfold W in *. lia.
  - intros k Hk Hr. rewrite sget_wwrite_other; [apply Ho; assumption|]. change (0 / 4) with 0. lia.
Qed.

Lemma allset_le s n m : allset s n -> m <= n -> allset s m.
Proof. intros Ha Hle i Hi. apply Ha. lia. Qed.
Lemma allset_wwrite_elem s n i v : length v = w -> i < EMAX -> allset s n -> allset (ewrite s i v) n.
Proof. intros Hl Hi Ha j Hj. apply isset_wwrite_mono; [exact Hl|exact Hi|apply Ha; exact Hj]. Qed.
Lemma allset_wwrite_next s n v : length v = w -> n < EMAX -> allset s n -> allset (ewrite s n v) (n + 1).
Proof.
  intros Hl Hn Ha j Hj. destruct (N.eq_dec j n) as [E|E].
  - subst j. apply isset_wwrite_same; assumption.
  - apply isset_wwrite_mono; [exact Hl|exact Hn|apply Ha; lia].
Qed.
Lemma allset_wwrite_len s n x : allset s n -> n <= EMAX -> allset (wwrite s f 0 x) n.
Proof.
  intros Ha Hn j Hj t Ht. rewrite sget_wwrite_other; [apply Ha; assumption|].
  apply wslot_ne_f. assert (Hje : j < EMAX) by lia. pose proof (wo_bound j Hje). lia.
Qed.

Lemma vst_len_read s L G : vst s L G -> read_len s f = Ok L.
Proof. intros [Hl _]. rewrite read_len_eq by exact Hf. unfold abs_len in Hl. rewrite Hl. reflexivity. Qed.

Lemma abs_of_vst s L G : vst s L G -> L <= EMAX -> abs_vecw H w s f = map G (Nseq L).
Proof.
  intros [Hl [Hw Ho]] HL. unfold abs_vecw. rewrite Hl. fold base.
  apply map_ext_in. intros a Ha. apply Hw. unfold Nseq in Ha. apply in_map_iff in Ha. destruct Ha as [x [Ex Hx]]. apply in_seq in Hx. lia.
Qed.

Lemma vecw_inv_allset s : abs_len s f <= EMAX -> (vecw_inv H w s f <-> allset s (abs_len s f)).
Proof.
  intros HL. unfold vecw_inv, allset, isset. fold base W. split.
  - intros Hi i Hlt t Ht. apply Hi. pose proof (wo_step i (abs_len s f) Hlt). unfold wo in *. lia.
  - intros Ha i Hi.
    assert (Hq : i / W < abs_len s f) by (apply N.div_lt_upper_bound; lia).
    specialize (Ha (i / W) Hq (i mod W)). unfold wo in Ha.
    replace (W * (i / W) + i mod W) with i in Ha by (rewrite <- N.div_mod by lia; reflexivity).
    apply Ha. apply N.mod_lt. lia.
Qed.

(* ---------- operations without loops ---------- *)
Lemma w_nz : (w =? 0)%nat = false.
Proof. apply Nat.eqb_neq. unfold W in Hw1. lia. Qed.
Lemma EMAX_lt : EMAX + 1 < LMAX.
Proof. assert (1 * (EMAX + 1) <= W * (EMAX + 1)) by (apply N.mul_le_mono_r; exact Hw1). lia. Qed.
Ltac side := first [lia | assumption | (eapply Glen; [eassumption|lia])].

Ltac start_op Hv :=
  erewrite vst_len_read; [|exact Hv]; cbn [bind].

Lemma push_ok s L g v :
  length v = w -> vst s L g -> allset s L -> L + 1 < EMAX ->
  exists s', vec_push H w isref s f v = Ok s' /\ vst s' (L + 1) (settoE g L v) /\ allset s' (L + 1).
Proof.
  intros Hlv Hv Ha HL. unfold vec_push. start_op Hv. fold base.
  rewrite write_elem_eq by side. cbn [bind].
  rewrite add64_ok by (rewrite W64_val; pose proof EMAX_lt; unfold LMAX in *; lia). cbn [bind].
  rewrite write_len_eq by exact Hf.
  eexists. split; [reflexivity|]. split.
  - apply vst_wwrite_len with (L := L). apply vst_wwrite_elem; [exact Hv|side|side].
  - apply allset_wwrite_len; [|lia]. apply allset_wwrite_next; [side|side|exact Ha].
Qed.

Lemma pop_ok s L g :
  vst s L g -> allset s L -> L < EMAX ->
  exists s', vec_pop H w isref s f = Ok (s', if L =? 0 then None else Some (g (L - 1)))
             /\ vst s' (L - 1) g /\ allset s' (L - 1).
Proof.
  intros Hv Ha HL. unfold vec_pop. start_op Hv.
  destruct (N.eqb_spec L 0) as [E|E].
  - subst L. exists s. split; [reflexivity|]. split; [exact Hv|exact Ha].
  - rewrite write_len_eq by exact Hf. cbn [bind]. fold base.
    assert (Hv' : vst (wwrite s f 0 (L - 1)) (L - 1) g) by (apply vst_wwrite_len with (L := L); exact Hv).
    assert (Ha' : allset (wwrite s f 0 (L - 1)) L) by (apply allset_wwrite_len; [exact Ha|lia]).
    rewrite (read_elem_ok _ _ _ _ Hv') by (try apply Ha'; lia). cbn [bind].
    eexists. split; [reflexivity|]. split; [exact Hv'|]. apply allset_le with (n := L); [exact Ha'|lia].
Qed.

Lemma get_ok s L g i :
  vst s L g -> allset s L -> L < EMAX ->
  vec_get H w isref s f i = Ok (if L <=? i then None else Some (Some (g i))).
Proof.
  intros Hv Ha HL. unfold vec_get. start_op Hv.
  destruct (N.leb_spec L i) as [E|E]; [reflexivity|]. fold base.
  rewrite (read_elem_ok _ _ _ _ Hv) by (try apply Ha; lia). reflexivity.
Qed.

Lemma set_ok s L g i v :
  length v = w -> vst s L g -> allset s L -> L < EMAX ->
  if i <? L then exists s', vec_set H w isref s f i v = Ok s' /\ vst s' L (settoE g i v) /\ allset s' L
  else vec_set H w isref s f i v = Err 1.
Proof.
  intros Hlv Hv Ha HL. unfold vec_set. rewrite w_nz; cbn [negb assert bind]. start_op Hv.
  destruct (N.ltb_spec i L) as [E|E]; cbn [assert bind]; [|reflexivity]. fold base.
  rewrite write_elem_eq by side.
  eexists. split; [reflexivity|]. split; [apply vst_wwrite_elem; [exact Hv|side|side]|apply allset_wwrite_elem; [side|side|exact Ha]].
Qed.

Lemma len_ok s L g : vst s L g -> vec_len s f = Ok L.
Proof. intros Hv. unfold vec_len. apply (vst_len_read _ _ _ Hv). Qed.
Lemma is_empty_ok s L g : vst s L g -> vec_is_empty s f = Ok (L =? 0).
Proof. intros Hv. unfold vec_is_empty. start_op Hv. reflexivity. Qed.

Lemma first_ok s L g :
  vst s L g -> allset s L -> L < EMAX ->
  vec_first H w isref s f = Ok (if L =? 0 then None else Some (Some (g 0))).
Proof.
  intros Hv Ha HL. unfold vec_first. start_op Hv.
  destruct (N.eqb_spec L 0) as [E|E]; [reflexivity|]. fold base.
  assert (H0 : 0 < EMAX) by lia.
  pose proof (read_elem_ok s L g 0 Hv) as R. unfold read_elem in R.
  rewrite offset_calc_w in R by exact H0. rewrite wo_0 in R. cbn [bind] in R.
  rewrite R; [reflexivity|apply Ha; lia|exact H0].
Qed.

Lemma clear_ok s L g :
  vst s L g ->
  exists s' b, vec_clear s f = Ok (s', b) /\ vst s' 0 g /\ allset s' 0.
Proof.
  intros [Hl [Hw Ho]]. unfold vec_clear, clear_quads. cbn [Nat.eqb]. change (8 * N.of_nat 1) with 8.
  assert (H0 : 0 < LMAX) by reflexivity.
  rewrite slot_calc_u64; [|exact H0|change (0 / 4) with 0; lia]. cbn [bind].
  change (N.to_nat 1) with 1%nat. cbn [clear_quad]. change (0 / 4) with 0.
  assert (Hk : f + 0 <? W256 = true) by (apply N.ltb_lt; lia). rewrite Hk. cbn [bind fst snd].
  eexists. eexists. split; [reflexivity|]. split.
  - split; [|split].
    + unfold abs_len, wread, sgetz. change (0 / 4) with 0. rewrite sget_sclr_same. reflexivity.
    + intros e He. rewrite <- Hw by exact He. rewrite !eread_unfold. apply map_ext_in. intros t Ht.
      unfold Nseq in Ht. apply in_map_iff in Ht. destruct Ht as [x [Ex Hx]]. apply in_seq in Hx.
      unfold wread, sgetz. rewrite sget_sclr_other; [reflexivity|].
      pose proof (wo_bound e He). assert (Hi : wo e + t < LMAX) by (unfold W in *; lia).
      apply wslot_ne_f in Hi. change (0 / 4) with 0 in Hi. exact Hi.
    + intros k Hk2 Hr. rewrite sget_sclr_other by lia. apply Ho; assumption.
  - intros i Hi. lia.
Qed.


Lemma last_ok s L g :
  vst s L g -> allset s L -> L < EMAX ->
  vec_last H w isref s f = Ok (if L =? 0 then None else Some (Some (g (L - 1)))).
Proof.
  intros Hv Ha HL. unfold vec_last. start_op Hv.
  destruct (N.eqb_spec L 0) as [E|E]; [reflexivity|]. fold base.
  rewrite (read_elem_ok _ _ _ _ Hv) by (try apply Ha; lia). reflexivity.
Qed.

Lemma swap_ok s L g i j :
  vst s L g -> allset s L -> L < EMAX ->
  if (i <? L) && (j <? L)
  then exists s', vec_swap H w isref s f i j = Ok s' /\ vst s' L (settoE (settoE g i (g j)) j (g i)) /\ allset s' L
  else vec_swap H w isref s f i j = Err 1.
Proof.
  intros Hv Ha HL. unfold vec_swap. rewrite w_nz; cbn [negb assert bind]. start_op Hv.
  destruct (N.ltb_spec i L) as [Ei|Ei]; cbn [assert bind andb]; [|reflexivity].
  destruct (N.ltb_spec j L) as [Ej|Ej]; cbn [assert bind andb]; [|reflexivity].
  destruct (N.eqb_spec i j) as [E|E].
  - subst j. exists s. split; [reflexivity|]. split; [|exact Ha].
    destruct Hv as [Hl [Hw Ho]]. split; [exact Hl|]. split; [|exact Ho]. intros k Hk. unfold settoE.
    destruct (N.eqb_spec k i) as [E|E]; [subst k|]; apply Hw; assumption.
  - fold base.
    rewrite (read_elem_ok _ _ _ _ Hv) by (try apply Ha; lia). cbn [bind unwrap].
    rewrite (read_elem_ok _ _ _ _ Hv) by (try apply Ha; lia). cbn [bind unwrap].
    rewrite write_elem_eq by side. cbn [bind]. rewrite write_elem_eq by side.
    eexists. split; [reflexivity|]. split.
    + apply vst_wwrite_elem; [|side|side]. apply vst_wwrite_elem; [exact Hv|side|side].
    + apply allset_wwrite_elem; [side|side|]. apply allset_wwrite_elem; [side|side|]. exact Ha.
Qed.

Lemma swap_remove_ok s L g i :
  vst s L g -> allset s L -> L < EMAX ->
  if i <? L
  then exists s', vec_swap_remove H w isref s f i = Ok (s', g i) /\ vst s' (L - 1) (settoE g i (g (L - 1))) /\ allset s' (L - 1)
  else vec_swap_remove H w isref s f i = Err 1.
Proof.
  intros Hv Ha HL. unfold vec_swap_remove. rewrite w_nz; cbn [negb assert bind]. start_op Hv.
  destruct (N.ltb_spec i L) as [Ei|Ei]; cbn [assert bind]; [|reflexivity]. fold base.
  rewrite (read_elem_ok _ _ _ _ Hv) by (try apply Ha; lia). cbn [bind unwrap].
  rewrite (read_elem_ok _ _ _ _ Hv) by (try apply Ha; lia). cbn [bind unwrap].
  rewrite write_elem_eq by side. cbn [bind]. rewrite write_len_eq by exact Hf. cbn [bind].
  eexists. split; [reflexivity|]. split.
  - apply vst_wwrite_len with (L := L). apply vst_wwrite_elem; [exact Hv|side|side].
  - apply allset_wwrite_len; [|lia]. apply allset_wwrite_elem; [side|side|]. apply allset_le with (n := L); [exact Ha|lia].
Qed.

(* ---------- loops ---------- *)
Ltac fun_cases :=
  repeat match goal with
         | |- context [N.eqb ?a ?b] => destruct (N.eqb_spec a b)
         | |- context [N.ltb ?a ?b] => destruct (N.ltb_spec a b)
         | |- context [N.leb ?a ?b] => destruct (N.leb_spec a b)
         end; cbn [andb orb negb]; try reflexivity; try lia; try (f_equal; lia).

Ltac decide_cmp :=
  repeat match goal with
         | |- context [N.leb ?a ?b] =>
           first [ replace (N.leb a b) with true by (symmetry; apply N.leb_le; lia)
                 | replace (N.leb a b) with false by (symmetry; apply N.leb_gt; lia) ]
         | |- context [N.ltb ?a ?b] =>
           first [ replace (N.ltb a b) with true by (symmetry; apply N.ltb_lt; lia)
                 | replace (N.ltb a b) with false by (symmetry; apply N.ltb_ge; lia) ]
         | |- context [N.eqb ?a ?b] =>
           first [ replace (N.eqb a b) with true by (symmetry; apply N.eqb_eq; lia)
                 | replace (N.eqb a b) with false by (symmetry; apply N.eqb_neq; lia) ]
         end; cbn [andb orb negb]; try reflexivity; try (f_equal; lia).

(* fill_loop: words i .. i+n-1 := v *)
Definition fillfE (g : N -> list N) (i n : N) (v : list N) : N -> list N := fun j => if (i <=? j) && (j <? i + n) then v else g j.
Lemma fill_loop_ok v L : length v = w -> forall n s g i,
  vst s L g -> i + N.of_nat n <= EMAX ->
  exists s', fill_loop w isref n s base i v = Ok s' /\ vst s' L (fillfE g i (N.of_nat n) v)
             /\ (forall k, isset s k \/ (i <= k < i + N.of_nat n) -> isset s' k).
Proof.
  intros Hlv. induction n as [|n IH]; intros s g i Hv Hb.
  - exists s. split; [reflexivity|]. split.
    + apply vst_ext with (G := g); [exact Hv|]. intros j Hj. unfold fillfE. fun_cases.
    + intros k [Hk|Hk]; [exact Hk|lia].
  - cbn [fill_loop]. rewrite write_elem_eq by side. cbn [bind].
    destruct (IH (ewrite s i v) (settoE g i v) (i + 1)) as [s' [Hr [Hv' Hs']]]; [apply vst_wwrite_elem; [exact Hv|side|side]|lia|].
    exists s'. split; [exact Hr|]. split.
    + apply vst_ext with (G := fillfE (settoE g i v) (i + 1) (N.of_nat n) v); [exact Hv'|].
      intros j Hj. unfold fillfE, settoE. fun_cases.
    + intros k [Hk|Hk].
      * apply Hs'. left. apply isset_wwrite_mono; [side|side|]. exact Hk.
      * destruct (N.eq_dec k i) as [E|E]; [subst k; apply Hs'; left; apply isset_wwrite_same; side|apply Hs'; right; lia].
Qed.

(* shift_down: words c-1 .. c+n-2 := words c .. c+n-1 *)
Definition shiftdfE (g : N -> list N) (lo n : N) : N -> list N := fun j => if (lo <=? j) && (j <? lo + n) then g (j + 1) else g j.
Lemma shift_down_ok L : forall n s g c,
  vst s L g -> 1 <= c -> c + N.of_nat n <= EMAX -> (forall k, c <= k < c + N.of_nat n -> isset s k) ->
  exists s', shift_down w isref n s base c = Ok s' /\ vst s' L (shiftdfE g (c - 1) (N.of_nat n))
             /\ (forall k, isset s k -> isset s' k).
Proof.
  induction n as [|n IH]; intros s g c Hv Hc Hb Hset.
  - exists s. split; [reflexivity|]. split; [|auto].
    apply vst_ext with (G := g); [exact Hv|]. intros j Hj. unfold shiftdfE. fun_cases.
  - cbn [shift_down].
    rewrite (read_elem_ok _ _ _ _ Hv) by (try (apply Hset); lia). cbn [bind unwrap].
    rewrite write_elem_eq by side. cbn [bind].
    destruct (IH (ewrite s (c - 1) (g c)) (settoE g (c - 1) (g c)) (c + 1)) as [s' [Hr [Hv' Hs']]];
      [apply vst_wwrite_elem; [exact Hv|side|side]|lia|lia|intros k Hk; apply isset_wwrite_mono; [side|side|]; apply Hset; lia|].
    exists s'. split; [exact Hr|]. split.
    + apply vst_ext with (G := shiftdfE (settoE g (c - 1) (g c)) (c + 1 - 1) (N.of_nat n)); [exact Hv'|].
      intros j Hj. unfold shiftdfE, settoE. fun_cases.
    + intros k Hk. apply Hs'. apply isset_wwrite_mono; [side|side|]. exact Hk.
Qed.

(* shift_up: words lo+1 .. lo+n := words lo .. lo+n-1 (from the top) *)
Definition shiftufE (g : N -> list N) (lo n : N) : N -> list N := fun j => if (lo <? j) && (j <=? lo + n) then g (j - 1) else g j.
Lemma shift_up_ok L : forall n s g lo,
  vst s L g -> lo + N.of_nat n + 1 <= EMAX -> (forall k, lo <= k < lo + N.of_nat n -> isset s k) ->
  exists s', shift_up w isref n s base (lo + N.of_nat n - 1) = Ok s' /\ vst s' L (shiftufE g lo (N.of_nat n))
             /\ (forall k, isset s k \/ (lo < k <= lo + N.of_nat n) -> isset s' k).
Proof.
  induction n as [|n IH]; intros s g lo Hv Hb Hset.
  - exists s. split; [reflexivity|]. split.
    + apply vst_ext with (G := g); [exact Hv|]. intros j Hj. unfold shiftufE. fun_cases.
    + intros k [Hk|Hk]; [exact Hk|lia].
  - cbn [shift_up]. set (c := lo + N.of_nat (S n) - 1).
    assert (Hc : c = lo + N.of_nat n) by (unfold c; lia).
    rewrite (read_elem_ok _ _ _ _ Hv) by (try (apply Hset); lia). cbn [bind unwrap].
    rewrite write_elem_eq by side. cbn [bind].
    replace (c - 1) with (lo + N.of_nat n - 1) by lia.
    destruct (IH (ewrite s (c + 1) (g c)) (settoE g (c + 1) (g c)) lo) as [s' [Hr [Hv' Hs']]];
      [apply vst_wwrite_elem; [exact Hv|side|side]|lia|intros k Hk; apply isset_wwrite_mono; [side|side|]; apply Hset; lia|].
    exists s'. split; [exact Hr|]. split.
    + apply vst_ext with (G := shiftufE (settoE g (c + 1) (g c)) lo (N.of_nat n)); [exact Hv'|].
      intros j Hj. unfold shiftufE, settoE. rewrite Hc. fun_cases.
    + intros k [Hk|Hk].
      * apply Hs'. left. apply isset_wwrite_mono; [side|side|]. exact Hk.
      * destruct (N.eq_dec k (c + 1)) as [E|E]; [subst k; apply Hs'; left; apply isset_wwrite_same; side|apply Hs'; right; lia].
Qed.

(* reverse_loop: swaps i <-> len-1-i for i = i0 .. i0+n-1 *)
Definition revfE (g : N -> list N) (len i0 n : N) : N -> list N :=
  fun j => if ((i0 <=? j) && (j <? i0 + n)) || ((len - i0 - n <=? j) && (j <? len - i0)) then g (len - 1 - j) else g j.
Lemma reverse_loop_ok L len : forall n s g i0,
  vst s L g -> len <= EMAX -> 2 * (i0 + N.of_nat n) <= len -> (forall k, k < len -> isset s k) ->
  exists s', reverse_loop w isref n s base len i0 = Ok s' /\ vst s' L (revfE g len i0 (N.of_nat n))
             /\ (forall k, isset s k -> isset s' k).
Proof.
  induction n as [|n IH]; intros s g i0 Hv Hlen Hb Hset.
  - exists s. split; [reflexivity|]. split; [|auto].
    apply vst_ext with (G := g); [exact Hv|]. intros j Hj. unfold revfE. fun_cases.
  - cbn [reverse_loop].
    rewrite (read_elem_ok _ _ _ _ Hv) by (try (apply Hset); lia). cbn [bind unwrap].
    rewrite (read_elem_ok _ _ _ _ Hv) by (try (apply Hset); lia). cbn [bind unwrap].
    rewrite write_elem_eq by side. cbn [bind]. rewrite write_elem_eq by side. cbn [bind].
    set (g1 := settoE (settoE g i0 (g (len - i0 - 1))) (len - i0 - 1) (g i0)).
    destruct (IH (ewrite (ewrite s i0 (g (len - i0 - 1))) (len - i0 - 1) (g i0)) g1 (i0 + 1)) as [s' [Hr [Hv' Hs']]];
      [apply vst_wwrite_elem; [apply vst_wwrite_elem; [exact Hv|side|side]|side|side]|exact Hlen|lia
      |intros k Hk; apply isset_wwrite_mono; [side|side|]; apply isset_wwrite_mono; [side|side|]; apply Hset; exact Hk|].
    exists s'. split; [exact Hr|]. split.
    + apply vst_ext with (G := revfE g1 len (i0 + 1) (N.of_nat n)); [exact Hv'|].
      intros j Hj. unfold revfE, g1, settoE.
      assert (Hc : j < i0 \/ j = i0 \/ (i0 + 1 <= j < i0 + 1 + N.of_nat n) \/ (i0 + 1 + N.of_nat n <= j < len - i0 - 1 - N.of_nat n)
                   \/ (len - i0 - 1 - N.of_nat n <= j < len - i0 - 1) \/ j = len - i0 - 1 \/ len - i0 <= j) by lia.
      destruct Hc as [Hc|[Hc|[Hc|[Hc|[Hc|[Hc|Hc]]]]]]; decide_cmp.
    + intros k Hk. apply Hs'. apply isset_wwrite_mono; [side|side|]. apply isset_wwrite_mono; [side|side|]. exact Hk.
Qed.

(* ---------- operations with loops ---------- *)
Lemma remove_ok s L g i :
  vst s L g -> allset s L -> L < EMAX ->
  if i <? L
  then exists s', vec_remove H w isref s f i = Ok (s', g i) /\ vst s' (L - 1) (shiftdfE g i (L - 1 - i)) /\ allset s' (L - 1)
  else vec_remove H w isref s f i = Err 1.
Proof.
  intros Hv Ha HL. unfold vec_remove. rewrite w_nz; cbn [negb assert bind]. start_op Hv.
  destruct (N.ltb_spec i L) as [Ei|Ei]; cbn [assert bind]; [|reflexivity]. fold base.
  rewrite (read_elem_ok _ _ _ _ Hv) by (try apply Ha; lia). cbn [bind unwrap].
  destruct (shift_down_ok L (N.to_nat (L - (i + 1))) s g (i + 1)) as [s1 [Hr [Hv1 Hs1]]];
    [exact Hv|lia|lia|intros k Hk; apply Ha; lia|].
  rewrite Hr. cbn [bind]. rewrite write_len_eq by exact Hf. cbn [bind].
  eexists. split; [reflexivity|]. split.
  - apply vst_wwrite_len with (L := L). apply vst_ext with (G := shiftdfE g (i + 1 - 1) (N.of_nat (N.to_nat (L - (i + 1))))); [exact Hv1|].
    intros j Hj. unfold shiftdfE. replace (i + 1 - 1) with i by lia. replace (N.of_nat (N.to_nat (L - (i + 1)))) with (L - 1 - i) by lia. reflexivity.
  - apply allset_wwrite_len; [|lia]. intros k Hk. apply Hs1. apply Ha. lia.
Qed.

Lemma insert_ok s L g i v :
  length v = w -> vst s L g -> allset s L -> L + 1 < EMAX ->
  if i <=? L
  then exists s', vec_insert H w isref s f i v = Ok s' /\ vst s' (L + 1) (settoE (shiftufE g i (L - i)) i v) /\ allset s' (L + 1)
  else vec_insert H w isref s f i v = Err 1.
Proof.
  intros Hlv Hv Ha HL. unfold vec_insert. rewrite w_nz; cbn [negb assert bind]. start_op Hv.
  destruct (N.leb_spec i L) as [Ei|Ei]; cbn [assert bind]; [|reflexivity]. fold base.
  destruct (N.eqb_spec L i) as [E|E].
  - subst i. rewrite write_elem_eq by side. cbn [bind].
    rewrite add64_ok by (rewrite W64_val; pose proof EMAX_lt; unfold LMAX in *; lia). cbn [bind].
    rewrite write_len_eq by exact Hf.
    eexists. split; [reflexivity|]. split.
    + apply vst_wwrite_len with (L := L). apply vst_ext with (G := settoE g L v); [apply vst_wwrite_elem; [exact Hv|side|side]|].
      intros j Hj. unfold settoE, shiftufE. fun_cases.
    + apply allset_wwrite_len; [|lia]. apply allset_wwrite_next; [side|side|exact Ha].
  - destruct (shift_up_ok L (N.to_nat (L - i)) s g i) as [s1 [Hr [Hv1 Hs1]]];
      [exact Hv|lia|intros k Hk; apply Ha; lia|].
    replace (i + N.of_nat (N.to_nat (L - i)) - 1) with (L - 1) in Hr by lia.
    rewrite Hr. cbn [bind]. rewrite write_elem_eq by side. cbn [bind].
    rewrite add64_ok by (rewrite W64_val; pose proof EMAX_lt; unfold LMAX in *; lia). cbn [bind].
    rewrite write_len_eq by exact Hf.
    eexists. split; [reflexivity|]. split.
    + apply vst_wwrite_len with (L := L).
      replace (L - i) with (N.of_nat (N.to_nat (L - i))) by lia.
      apply vst_wwrite_elem; [exact Hv1|side|side].
    + apply allset_wwrite_len; [|lia]. intros k Hk. apply isset_wwrite_mono; [side|side|]. apply Hs1.
      destruct (N.ltb_spec k L) as [Hk'|Hk']; [left; apply Ha; exact Hk'|right; lia].
Qed.

Definition revallE (g : N -> list N) (L : N) : N -> list N := fun j => if j <? L then g (L - 1 - j) else g j.
Lemma reverse_ok s L g :
  vst s L g -> allset s L -> L < EMAX ->
  exists s', vec_reverse H w isref s f = Ok s' /\ vst s' L (revallE g L) /\ allset s' L.
Proof.
  intros Hv Ha HL. unfold vec_reverse. rewrite w_nz; cbn [negb assert bind]. start_op Hv.
  destruct (N.ltb_spec L 2) as [E|E].
  - exists s. split; [reflexivity|]. split; [|exact Ha].
    apply vst_ext with (G := g); [exact Hv|]. intros j Hj. unfold revallE.
    destruct (N.ltb_spec j L); [f_equal; lia|reflexivity].
  - fold base.
    destruct (reverse_loop_ok L L (N.to_nat (L / 2)) s g 0) as [s1 [Hr [Hv1 Hs1]]];
      [exact Hv|lia|lia|intros k Hk; apply Ha; exact Hk|].
    exists s1. split; [exact Hr|]. split.
    + apply vst_ext with (G := revfE g L 0 (N.of_nat (N.to_nat (L / 2)))); [exact Hv1|].
      intros j Hj. unfold revfE, revallE. replace (N.of_nat (N.to_nat (L / 2))) with (L / 2) by lia.
      assert (Hc : j < L / 2 \/ (L / 2 <= j < L - L / 2) \/ (L - L / 2 <= j < L) \/ L <= j) by lia.
      destruct Hc as [Hc|[Hc|[Hc|Hc]]]; decide_cmp.
    + intros k Hk. apply Hs1. apply Ha. exact Hk.
Qed.

Lemma fill_ok s L g v :
  length v = w -> vst s L g -> allset s L -> L < EMAX ->
  exists s', vec_fill H w isref s f v = Ok s' /\ vst s' L (fillfE g 0 L v) /\ allset s' L.
Proof.
  intros Hlv Hv Ha HL. unfold vec_fill. rewrite w_nz; cbn [negb assert bind]. start_op Hv. fold base.
  destruct (fill_loop_ok v L Hlv (N.to_nat L) s g 0) as [s1 [Hr [Hv1 Hs1]]]; [exact Hv|lia|].
  exists s1. split; [exact Hr|]. split.
  - replace L with (N.of_nat (N.to_nat L)) at 2 by lia. exact Hv1.
  - intros k Hk. apply Hs1. left. apply Ha. exact Hk.
Qed.

Lemma resize_ok s L g n v :
  length v = w -> vst s L g -> allset s L -> L < EMAX -> n < EMAX ->
  exists s', vec_resize H w isref s f n v = Ok s' /\ vst s' n (fillfE g L (n - L) v) /\ allset s' n.
Proof.
  intros Hlv Hv Ha HL Hn. unfold vec_resize. start_op Hv. fold base.
  destruct (fill_loop_ok v L Hlv (N.to_nat (n - L)) s g L) as [s1 [Hr [Hv1 Hs1]]]; [exact Hv|lia|].
  rewrite Hr. cbn [bind]. rewrite write_len_eq by exact Hf.
  eexists. split; [reflexivity|]. split.
  - apply vst_wwrite_len with (L := L). replace (n - L) with (N.of_nat (N.to_nat (n - L))) by lia. exact Hv1.
  - apply allset_wwrite_len; [|lia]. intros k Hk. apply Hs1.
    destruct (N.ltb_spec k L) as [Hk'|Hk']; [left; apply Ha; exact Hk'|right; lia].
Qed.


(* ---------- refinement of the list model (lists of word lists) ---------- *)
Local Notation len := (lenG (list N)).
Local Notation nthN := (nthG (list N) []).
Local Notation list_ext_N := (list_ext_G (list N) []).
Local Notation len_map_Nseq := (lenG_map_Nseq (list N)).
Local Notation nthN_map_Nseq := (nthG_map_Nseq (list N) []).
Local Notation len_app := (lenG_app (list N)).
Local Notation nthN_app_l := (nthG_app_l (list N) []).
Local Notation nthN_app_r := (nthG_app_r (list N) []).
Local Notation len_firstn := (lenG_firstn (list N)).
Local Notation len_skipn := (lenG_skipn (list N)).
Local Notation nthN_firstn := (nthG_firstn (list N) []).
Local Notation nthN_skipn := (nthG_skipn (list N) []).
Local Notation len_removelast := (lenG_removelast (list N)).
Local Notation nthN_removelast := (nthG_removelast (list N) []).
Local Notation last_nthN := (last_nthG (list N) []).
Local Notation len_upd := (lenG_upd (list N)).
Local Notation nthN_upd := (nthG_upd (list N) []).
Local Notation len_rev := (lenG_rev (list N)).
Local Notation nthN_rev := (nthG_rev (list N) []).
Local Notation len_repeat := (lenG_repeat (list N)).
Local Notation nthN_repeat := (nthG_repeat (list N) []).
Local Notation len_cons := (lenG_cons (list N)).
Local Notation nthN_cons_0 := (nthG_cons_0 (list N) []).
Local Notation nthN_cons_S := (nthG_cons_S (list N) []).

Lemma finish s' L' g' l' :
  vst s' L' g' -> allset s' L' -> L' <= EMAX -> len l' = L' -> (forall i, i < L' -> nthN l' i = g' i) ->
  abs_vecw H w s' f = l' /\ vecw_inv H w s' f /\ abs_len s' f = len l'.
Proof.
  intros Hv Ha HL Hlen Hn. split; [|split].
  - rewrite (abs_of_vst _ _ _ Hv HL). symmetry. apply list_ext_N.
    + rewrite len_map_Nseq. exact Hlen.
    + intros i Hi. rewrite nthN_map_Nseq by lia. apply Hn. lia.
  - destruct Hv as [Hl _]. apply vecw_inv_allset; rewrite Hl; assumption.
  - destruct Hv as [Hl _]. rewrite Hl, Hlen. reflexivity.
Qed.

(* values must have the element width; load_vec (and store_vec / iter) are not covered by the proof;
   resize needs its target below EMAX *)
Definition wop_proved (o : wop) : Prop :=
  match o with
  | WPush v | WSet _ v | WInsert _ v | WFill v => length v = w
  | WResize n v => length v = w /\ n < EMAX
  | WLoad => False
  | _ => True
  end.

Theorem vecw_refines o :
  let s := s0 in
  vecw_inv H w s f -> abs_len s f + 1 < EMAX -> wop_proved o ->
  match spec_vecw (abs_vecw H w s f) o with
  | Some (l', out) =>
    exists s' mo, vecw_step_g H isref w s f o = Ok (s', mo) /\ abs_vecw H w s' f = l' /\ vecw_inv H w s' f
                  /\ abs_len s' f = len l' /\ (forall so, out = Some so -> mo = so) /\ outsideW s'
  | None => vecw_step_g H isref w s f o = Err 1
  end.
Proof.
  intros s Hinv HL Hop.
  pose proof vst_init as Hv. fold s in Hv. apply vecw_inv_allset in Hinv; [|lia]. rename Hinv into Ha.
  set (L := abs_len s f) in *. set (g := eread s) in *.
  assert (Habs : abs_vecw H w s f = map g (Nseq L)) by (apply abs_of_vst; [exact Hv|lia]).
  remember (abs_vecw H w s f) as l eqn:El. clear El.
  assert (Hlen : len l = L) by (rewrite Habs; apply len_map_Nseq).
  assert (Hn : forall i, i < L -> nthN l i = g i) by (intros i Hi; rewrite Habs; apply nthN_map_Nseq; exact Hi).
  clear Habs.
  destruct o as [v| |i|i v|i v|i|i j|i| | | | |v|n v| ]; cbn [spec_vecw vecw_step_g wop_proved] in *; change (N.of_nat (length l)) with (len l); rewrite ?Hlen.
  - (* push *)
    destruct (push_ok s L g v Hop Hv Ha) as [s' [Hr [Hv' Ha']]]; [lia|]. rewrite Hr. cbn [bind].
    exists s', []. split; [reflexivity|].
    destruct (finish s' (L + 1) (settoE g L v) (l ++ [v]) Hv' Ha') as [A [B C]].
    + lia.
    + rewrite len_app, Hlen. reflexivity.
    + intros i Hi. unfold settoE. destruct (N.eqb_spec i L) as [E|E].
      * rewrite nthN_app_r by lia. replace (i - len l) with 0 by lia. reflexivity.
      * rewrite nthN_app_l by lia. apply Hn. lia.
    + repeat split; try assumption; try (apply Hv'). intros so E. injection E as E. auto.
  - (* pop *)
    destruct (pop_ok s L g Hv Ha) as [s' [Hr [Hv' Ha']]]; [lia|]. rewrite Hr. cbn [bind fst snd].
    destruct l as [|x r].
    + assert (HL0 : L = 0) by (rewrite <- Hlen; reflexivity).
      replace (L =? 0) with true by (symmetry; apply N.eqb_eq; exact HL0).
      exists s', [0]. split; [reflexivity|].
      destruct (finish s' (L - 1) g [] Hv' Ha') as [A [B C]]; [lia|rewrite HL0; reflexivity|intros i Hi; lia|].
      repeat split; try assumption; try (apply Hv'). intros so E. injection E as E. auto.
    + assert (HL0 : L <> 0) by (rewrite <- Hlen, len_cons; lia).
      replace (L =? 0) with false by (symmetry; apply N.eqb_neq; exact HL0).
      exists s', (1 :: g (L - 1)). split; [reflexivity|].
      destruct (finish s' (L - 1) g (removelast (x :: r)) Hv' Ha') as [A [B C]].
      * lia.
      * rewrite len_removelast, Hlen. reflexivity.
      * intros i Hi. rewrite nthN_removelast by (rewrite Hlen; exact Hi). apply Hn. lia.
      * repeat split; try assumption; try (apply Hv'). intros so E. injection E as E. subst so.
        change (match r with [] => x | _ :: _ => last r [] end) with (last (x :: r) []).
        rewrite last_nthN, Hlen. rewrite Hn by lia. reflexivity.
  - (* get *)
    rewrite (get_ok s L g i Hv Ha) by lia. cbn [bind].
    exists s. eexists. split; [reflexivity|].
    destruct (finish s L g l Hv Ha) as [A [B C]]; [lia|exact Hlen|exact Hn|].
    repeat split; try assumption; try (apply Hv). intros so E. injection E as E. subst so.
    destruct (N.ltb_spec i L) as [E1|E1]; destruct (N.leb_spec L i) as [E2|E2]; try lia; cbn [out_opt2]; [|reflexivity].
    f_equal. symmetry. apply Hn. exact E1.
  - (* set *)
    pose proof (set_ok s L g i v Hop Hv Ha) as Hs. destruct (N.ltb_spec i L) as [E|E].
    + destruct Hs as [s' [Hr [Hv' Ha']]]; [lia|]. rewrite Hr. cbn [bind].
      exists s', []. split; [reflexivity|].
      destruct (finish s' L (settoE g i v) (upd (N.to_nat i) v l) Hv' Ha') as [A [B C]].
      * lia.
      * rewrite len_upd. exact Hlen.
      * intros k Hk. rewrite nthN_upd by lia. unfold settoE. destruct (k =? i); [reflexivity|apply Hn; exact Hk].
      * repeat split; try assumption; try (apply Hv'). intros so E'. injection E' as E'. auto.
    + rewrite Hs by lia. reflexivity.
  - (* insert *)
    pose proof (insert_ok s L g i v Hop Hv Ha) as Hs. destruct (N.leb_spec i L) as [E|E].
    + destruct Hs as [s' [Hr [Hv' Ha']]]; [lia|]. rewrite Hr. cbn [bind].
      exists s', []. split; [reflexivity|].
      destruct (finish s' (L + 1) (settoE (shiftufE g i (L - i)) i v) (firstn (N.to_nat i) l ++ v :: skipn (N.to_nat i) l) Hv' Ha') as [A [B C]].
      * lia.
      * rewrite len_app, len_cons, len_skipn, len_firstn by lia. lia.
      * intros k Hk. unfold settoE, shiftufE.
        assert (Hc : k < i \/ k = i \/ i < k) by lia. destruct Hc as [Hc|[Hc|Hc]].
        -- rewrite nthN_app_l by (rewrite len_firstn; lia). rewrite nthN_firstn by lia. decide_cmp. apply Hn. lia.
        -- subst k. rewrite nthN_app_r by (rewrite len_firstn; lia). rewrite len_firstn by lia.
           replace (i - i) with 0 by lia. rewrite nthN_cons_0. decide_cmp.
        -- rewrite nthN_app_r by (rewrite len_firstn; lia). rewrite len_firstn by lia.
           rewrite nthN_cons_S by lia. rewrite nthN_skipn. decide_cmp.
           replace (N.of_nat (N.to_nat i) + (k - i - 1)) with (k - 1) by lia. apply Hn. lia.
      * repeat split; try assumption; try (apply Hv'). intros so E'. injection E' as E'. auto.
    + rewrite Hs by lia. reflexivity.
  - (* remove *)
    pose proof (remove_ok s L g i Hv Ha) as Hs. destruct (N.ltb_spec i L) as [E|E].
    + destruct Hs as [s' [Hr [Hv' Ha']]]; [lia|]. rewrite Hr. cbn [bind].
      exists s', (g i). split; [reflexivity|].
      destruct (finish s' (L - 1) (shiftdfE g i (L - 1 - i)) (firstn (N.to_nat i) l ++ skipn (S (N.to_nat i)) l) Hv' Ha') as [A [B C]].
      * lia.
      * rewrite len_app, len_skipn, len_firstn by lia. lia.
      * intros k Hk. unfold shiftdfE.
        assert (Hc : k < i \/ i <= k) by lia. destruct Hc as [Hc|Hc].
        -- rewrite nthN_app_l by (rewrite len_firstn; lia). rewrite nthN_firstn by lia. decide_cmp. apply Hn. lia.
        -- rewrite nthN_app_r by (rewrite len_firstn; lia). rewrite len_firstn by lia. rewrite nthN_skipn. decide_cmp.
           replace (N.of_nat (S (N.to_nat i)) + (k - i)) with (k + 1) by lia. apply Hn. lia.
      * repeat split; try assumption; try (apply Hv'). intros so E'. injection E' as E'. subst so. symmetry. apply Hn. exact E.
    + rewrite Hs by lia. reflexivity.
  - (* swap *)
    pose proof (swap_ok s L g i j Hv Ha) as Hs.
    destruct (N.ltb_spec i L) as [Ei|Ei]; [destruct (N.ltb_spec j L) as [Ej|Ej]|]; cbn [andb] in *.
    + destruct Hs as [s' [Hr [Hv' Ha']]]; [lia|]. rewrite Hr. cbn [bind].
      exists s', []. split; [reflexivity|].
      destruct (finish s' L (settoE (settoE g i (g j)) j (g i))
                  (upd (N.to_nat j) (nth (N.to_nat i) l []) (upd (N.to_nat i) (nth (N.to_nat j) l []) l)) Hv' Ha') as [A [B C]].
      * lia.
      * rewrite !len_upd. exact Hlen.
      * intros k Hk. rewrite nthN_upd by (rewrite len_upd; lia). rewrite nthN_upd by lia. unfold settoE.
        change (nth (N.to_nat i) l []) with (nthN l i). change (nth (N.to_nat j) l []) with (nthN l j).
        rewrite !Hn by lia. reflexivity.
      * repeat split; try assumption; try (apply Hv'). intros so E'. injection E' as E'. auto.
    + rewrite Hs by lia. reflexivity.
    + rewrite Hs by lia. reflexivity.
  - (* swap_remove *)
    pose proof (swap_remove_ok s L g i Hv Ha) as Hs. destruct (N.ltb_spec i L) as [E|E].
    + destruct Hs as [s' [Hr [Hv' Ha']]]; [lia|]. rewrite Hr. cbn [bind].
      exists s', (g i). split; [reflexivity|].
      destruct (finish s' (L - 1) (settoE g i (g (L - 1))) (removelast (upd (N.to_nat i) (last l []) l)) Hv' Ha') as [A [B C]].
      * lia.
      * rewrite len_removelast, len_upd, Hlen. reflexivity.
      * intros k Hk. rewrite nthN_removelast by (rewrite len_upd, Hlen; exact Hk). rewrite nthN_upd by lia.
        unfold settoE. rewrite last_nthN, Hlen. rewrite !Hn by lia. reflexivity.
      * repeat split; try assumption; try (apply Hv'). intros so E'. injection E' as E'. subst so. symmetry. apply Hn. exact E.
    + rewrite Hs by lia. reflexivity.
  - (* len *)
    rewrite (len_ok s L g Hv). cbn [bind]. exists s, [L]. split; [reflexivity|].
    destruct (finish s L g l Hv Ha) as [A [B C]]; [lia|exact Hlen|exact Hn|].
    repeat split; try assumption; try (apply Hv). intros so E. injection E as E. auto.
  - (* first *)
    rewrite (first_ok s L g Hv Ha) by lia. cbn [bind]. exists s. eexists. split; [reflexivity|].
    destruct (finish s L g l Hv Ha) as [A [B C]]; [lia|exact Hlen|exact Hn|].
    repeat split; try assumption; try (apply Hv). intros so E. injection E as E. subst so.
    destruct l as [|x r].
    + replace (L =? 0) with true by (symmetry; apply N.eqb_eq; rewrite <- Hlen; reflexivity). reflexivity.
    + assert (HL0 : L <> 0) by (rewrite <- Hlen, len_cons; lia).
      replace (L =? 0) with false by (symmetry; apply N.eqb_neq; exact HL0). cbn [out_opt2].
      rewrite <- Hn by lia. reflexivity.
  - (* last *)
    rewrite (last_ok s L g Hv Ha) by lia. cbn [bind]. exists s. eexists. split; [reflexivity|].
    destruct (finish s L g l Hv Ha) as [A [B C]]; [lia|exact Hlen|exact Hn|].
    repeat split; try assumption; try (apply Hv). intros so E. injection E as E. subst so.
    destruct l as [|x r].
    + replace (L =? 0) with true by (symmetry; apply N.eqb_eq; rewrite <- Hlen; reflexivity). reflexivity.
    + assert (HL0 : L <> 0) by (rewrite <- Hlen, len_cons; lia).
      replace (L =? 0) with false by (symmetry; apply N.eqb_neq; exact HL0). cbn [out_opt2].
      change (match r with [] => x | _ :: _ => last r [] end) with (last (x :: r) []).
      rewrite last_nthN, Hlen, Hn by lia. reflexivity.
  - (* reverse *)
    destruct (reverse_ok s L g Hv Ha) as [s' [Hr [Hv' Ha']]]; [lia|]. rewrite Hr. cbn [bind].
    exists s', []. split; [reflexivity|].
    destruct (finish s' L (revallE g L) (rev l) Hv' Ha') as [A [B C]].
    + lia.
    + rewrite len_rev. exact Hlen.
    + intros k Hk. rewrite nthN_rev by lia. rewrite Hlen. unfold revallE. decide_cmp.
      replace (L - k - 1) with (L - 1 - k) by lia. apply Hn. lia.
    + repeat split; try assumption; try (apply Hv'). intros so E. injection E as E. auto.
  - (* fill *)
    destruct (fill_ok s L g v Hop Hv Ha) as [s' [Hr [Hv' Ha']]]; [lia|]. rewrite Hr. cbn [bind].
    exists s', []. split; [reflexivity|].
    destruct (finish s' L (fillfE g 0 L v) (repeat v (length l)) Hv' Ha') as [A [B C]].
    + lia.
    + rewrite len_repeat. exact Hlen.
    + intros k Hk. rewrite nthN_repeat by (unfold lenG in Hlen; lia). unfold fillfE. decide_cmp.
    + repeat split; try assumption; try (apply Hv'). intros so E. injection E as E. auto.
  - (* resize *)
    destruct Hop as [Hlv Hnn].
    destruct (resize_ok s L g n v Hlv Hv Ha) as [s' [Hr [Hv' Ha']]]; [lia|exact Hnn|]. rewrite Hr. cbn [bind].
    exists s', []. split; [reflexivity|].
    destruct (finish s' n (fillfE g L (n - L) v) (if n <=? L then firstn (N.to_nat n) l else l ++ repeat v (N.to_nat (n - L))) Hv' Ha') as [A [B C]].
    + lia.
    + destruct (N.leb_spec n L) as [E|E]; [apply len_firstn; lia|]. rewrite len_app, len_repeat. lia.
    + intros k Hk. unfold fillfE. destruct (N.leb_spec n L) as [E|E].
      * rewrite nthN_firstn by lia. decide_cmp. apply Hn. lia.
      * assert (Hc : k < L \/ L <= k) by lia. destruct Hc as [Hc|Hc].
        -- rewrite nthN_app_l by lia. decide_cmp. apply Hn. lia.
        -- rewrite nthN_app_r by lia. rewrite nthN_repeat by lia. decide_cmp.
    + repeat split; try assumption; try (apply Hv'). intros so E. injection E as E. auto.
  - destruct Hop.
Qed.
End VecW.
