(* C28 — hash-hypothesis versions of the w-word refinements, and frame for fields of any collection kind:
   what a vector / bytes operation leaves untouched (its `outside` footprint) covers the whole region of
   every other field. *)
From SwayV Require Import Base.Util Generated.C28Facts C28.Model C28.Step C28.Spec C28.StoreLemmas C28.ApiLemmas C28.ListN
  C28.VecProofs C28.Frame C28.MapProofs C28.HashFrame C28.QuadLemmas C28.ListG C28.VecWProofs C28.MapWProofs.
Require Import ZifyBool ZifyN ZifyNat.
Ltac Zify.zify_post_hook ::= Z.div_mod_to_equations.
Open Scope N_scope.

Lemma outsideW_outside H f s0 s : outsideW H f s0 s <-> outside H f s0 s.
Proof. unfold outsideW, outside. tauto. Qed.

(* the abstraction of a vector of w-word elements reads only its length slot and [base, base + CAP) *)
Lemma abs_vecw_agree H w s s' g :
  sget s' g = sget s g ->
  (forall j, hash_b256 H g <= j < hash_b256 H g + CAP -> sget s' j = sget s j) ->
  N.of_nat w * abs_len s g <= LMAX ->
  abs_len s' g = abs_len s g /\ abs_vecw H w s' g = abs_vecw H w s g /\ (vecw_inv H w s g -> vecw_inv H w s' g).
Proof.
  intros Hg Hag Hlen.
  assert (Hl : abs_len s' g = abs_len s g).
  { unfold abs_len, wread, sgetz. change (0 / 4) with 0. replace (g + 0) with g by lia. rewrite Hg. reflexivity. }
  split; [exact Hl|]. split.
  - unfold abs_vecw. rewrite Hl. apply map_ext_in. intros e He.
    unfold Nseq in He. apply in_map_iff in He. destruct He as [x [Ex Hx]]. apply in_seq in Hx.
    unfold eread_at. apply map_ext_in. intros t Ht.
    unfold Nseq in Ht. apply in_map_iff in Ht. destruct Ht as [y [Ey Hy]]. apply in_seq in Hy.
    unfold wread, sgetz. rewrite Hag; [reflexivity|].
    assert (Hb : N.of_nat w * e + t < N.of_nat w * abs_len s g).
    { assert (N.of_nat w * (e + 1) <= N.of_nat w * abs_len s g) by (apply N.mul_le_mono_l; lia). lia. }
    unfold LMAX, CAP in *. lia.
  - unfold vecw_inv. rewrite Hl. intros Hi i Hlt. rewrite Hag; [apply Hi; exact Hlt|]. unfold LMAX, CAP in *. lia.
Qed.

Section HashFrameW.
Variable H : list N -> N.
Variable occ : list N -> Prop.
Hypothesis H_inj : forall p q, occ p -> occ q -> H p = H q -> p = q.
Hypothesis H_spread : forall p q, occ p -> occ q -> H p <> H q -> H p + CAP <= H q \/ H q + CAP <= H p.
Hypothesis H_room : forall p, occ p -> H p + CAP <= W256.

(* StorageVec of w-word elements (reference type), field given by name *)
Theorem vecw_refines_hash name w EMAX s o :
  vec_occ H occ name -> 1 <= N.of_nat w -> N.of_nat w * (EMAX + 1) < LMAX ->
  let f := field_id H name in
  vecw_inv H w s f -> abs_len s f + 1 < EMAX -> wop_proved w EMAX o ->
  match spec_vecw (abs_vecw H w s f) o with
  | Some (l', out) =>
    exists s' mo, vecw_step H w s f o = Ok (s', mo) /\ abs_vecw H w s' f = l' /\ vecw_inv H w s' f
                  /\ abs_len s' f = lenG (list N) l' /\ (forall so, out = Some so -> mo = so) /\ outside H f s s'
  | None => vecw_step H w s f o = Err 1
  end.
Proof.
  intros [Hof [Hob Hl]] Hw HE f. unfold f, field_id.
  pose proof (H_room _ Hof) as R1. pose proof (H_room _ Hob) as R2. pose proof (CAP_pos) as Hc.
  assert (Hne : field_preimage name <> be_bytes 32 (H (field_preimage name))) by (intros E; symmetry in E; revert E; apply vecbase_ne_field; exact Hl).
  pose proof (apart H occ H_inj H_spread _ _ Hof Hob Hne) as Hap.
  apply (vecw_refines H (H (field_preimage name)) w true EMAX); unfold hash_b256; unfold field_id in *; lia.
Qed.

(* StorageMap with a value type of w words, on the occurring keys *)
Theorem map_w_refines_hash f w isref s o :
  1 <= N.of_nat w -> N.of_nat w <= CAP -> isref = true \/ N.of_nat w = 1 ->
  mop_width_ok w o -> occ (map_preimage (mop_key o) f) ->
  let '(m', out) := spec_map (abs_map H w isref s f) o in
  exists s', map_step H w isref s f o = Ok (s', out)
             /\ forall kb', occ (map_preimage kb' f) -> abs_map H w isref s' f kb' = m' kb'.
Proof.
  intros Hw1 Hwc Href Hwo Hk.
  apply (map_w_refines H f w isref Hw1); [unfold LMAX, CAP in *; lia|exact Href| | |exact Hwo|exact Hk].
  - intros kb kb' Hk1 Hk2 Hne. unfold map_slot.
    assert (Hp : map_preimage kb f <> map_preimage kb' f) by (intros E; apply map_preimage_inj_key in E; contradiction).
    pose proof (apart H occ H_inj H_spread _ _ Hk1 Hk2 Hp). lia.
  - intros kb Hk1. unfold map_slot. pose proof (H_room _ Hk1). lia.
Qed.

(* the regions of two distinct named fields (of any collection kind with the layout `length slot at the
   key, content from sha256(key)`) are disjoint: whatever stays outside field `name` covers all of `name2` *)
Lemma field_regions_disjoint name name2 s s' :
  vec_occ H occ name -> vec_occ H occ name2 -> name <> name2 ->
  outside H (field_id H name) s s' ->
  sget s' (field_id H name2) = sget s (field_id H name2)
  /\ forall j, hash_b256 H (field_id H name2) <= j < hash_b256 H (field_id H name2) + CAP -> sget s' j = sget s j.
Proof.
  intros [Hof [Hob Hl]] [Hof2 [Hob2 Hl2]] Hne Hout. unfold field_id in *.
  pose proof CAP_pos as Hc.
  assert (N1 : field_preimage name <> field_preimage name2) by (intros E; apply Hne; apply field_preimage_inj; exact E).
  assert (N2 : field_preimage name2 <> be_bytes 32 (H (field_preimage name))) by (intros E; symmetry in E; revert E; apply vecbase_ne_field; exact Hl2).
  assert (N3 : field_preimage name <> be_bytes 32 (H (field_preimage name2))) by (intros E; symmetry in E; revert E; apply vecbase_ne_field; exact Hl).
  pose proof (apart H occ H_inj H_spread _ _ Hof Hof2 N1) as A1.
  pose proof (apart H occ H_inj H_spread _ _ Hof2 Hob N2) as A2.
  pose proof (apart H occ H_inj H_spread _ _ Hof Hob2 N3) as A3.
  assert (N4 : be_bytes 32 (H (field_preimage name)) <> be_bytes 32 (H (field_preimage name2))).
  { intros E. apply be_bytes32_inj in E.
    - assert (E' : field_preimage name = field_preimage name2) by (apply H_inj; assumption). contradiction.
    - pose proof (H_room _ Hof). lia.
    - pose proof (H_room _ Hof2). lia. }
  pose proof (apart H occ H_inj H_spread _ _ Hob Hob2 N4) as A4.
  split.
  - apply Hout; unfold hash_b256; lia.
  - intros j Hj. apply Hout; unfold hash_b256 in *; lia.
Qed.

(* frame: an operation confined to field `name` leaves a vector of w-word elements at `name2` unchanged *)
Theorem frame_vecw name name2 w s s' :
  vec_occ H occ name -> vec_occ H occ name2 -> name <> name2 ->
  outside H (field_id H name) s s' ->
  N.of_nat w * abs_len s (field_id H name2) <= LMAX ->
  abs_len s' (field_id H name2) = abs_len s (field_id H name2)
  /\ abs_vecw H w s' (field_id H name2) = abs_vecw H w s (field_id H name2)
  /\ (vecw_inv H w s (field_id H name2) -> vecw_inv H w s' (field_id H name2)).
Proof.
  intros O1 O2 Hne Hout Hlen. destruct (field_regions_disjoint name name2 s s' O1 O2 Hne Hout) as [A B].
  apply abs_vecw_agree; assumption.
Qed.
End HashFrameW.
