(* C28 — from the hypotheses on the hash (injective and spread on the occurring pre-images) and the
   domain separation of the pre-images to the side conditions of the refinement theorems, and frame. *)
From SwayV Require Import Base.Util Generated.C28Facts C28.Model C28.Step C28.Spec C28.StoreLemmas C28.ApiLemmas C28.ListN C28.VecProofs C28.Frame C28.MapProofs.
Require Import ZifyBool ZifyN ZifyNat.
Ltac Zify.zify_post_hook ::= Z.div_mod_to_equations.
Open Scope N_scope.

(* ---------- pre-images: shapes and domain separation (from the generated constants) ---------- *)
Lemma be_bytes_length : forall n x, length (be_bytes n x) = n.
Proof. induction n as [|n IH]; intros x; cbn [be_bytes]; [reflexivity|]. rewrite app_length, IH. cbn [length]. lia. Qed.

Lemma field_preimage_length name : length (field_preimage name) = (9 + length name)%nat.
Proof. unfold field_preimage. cbn [length]. rewrite !app_length. reflexivity. Qed.
Lemma map_preimage_length kb f : length (map_preimage kb f) = (33 + length kb)%nat.
Proof. unfold map_preimage. cbn [length]. rewrite app_length, be_bytes_length. lia. Qed.

(* compiler-generated field keys (domain byte 0) never collide with map entries (domain byte 1) *)
Lemma domain_separation name kb f : field_preimage name <> map_preimage kb f.
Proof. unfold field_preimage, map_preimage. intros E. injection E as E _. discriminate E. Qed.

Lemma vecbase_ne_map x kb f : be_bytes 32 x <> map_preimage kb f.
Proof. intros E. apply (f_equal (@length N)) in E. rewrite be_bytes_length, map_preimage_length in E. lia. Qed.

(* a 32-byte content-base pre-image differs from a field pre-image unless the field name has 23 bytes *)
Lemma vecbase_ne_field x name : length name <> 23%nat -> be_bytes 32 x <> field_preimage name.
Proof. intros Hl E. apply (f_equal (@length N)) in E. rewrite be_bytes_length, field_preimage_length in E. lia. Qed.

Lemma field_preimage_inj n1 n2 : field_preimage n1 = field_preimage n2 -> n1 = n2.
Proof. unfold field_preimage. intros E. injection E as E. repeat (apply app_inv_head in E). exact E. Qed.
Lemma map_preimage_inj_key kb kb' f : map_preimage kb f = map_preimage kb' f -> kb = kb'.
Proof. unfold map_preimage. intros E. injection E as E. apply app_inv_tail in E. exact E. Qed.

Lemma be_word_app l b : be_word (l ++ [b]) = be_word l * 256 + b.
Proof. unfold be_word. rewrite fold_left_app. reflexivity. Qed.
Lemma be_word_be_bytes : forall n x, be_word (be_bytes n x) = x mod 256 ^ N.of_nat n.
Proof.
  induction n as [|n IH]; intros x; cbn [be_bytes].
  - change (256 ^ N.of_nat 0) with 1. rewrite N.mod_1_r. reflexivity.
  - rewrite be_word_app, IH. rewrite Nat2N.inj_succ, N.pow_succ_r'.
    rewrite N.mod_mul_r; [|discriminate|apply N.pow_nonzero; discriminate].
    generalize ((x / 256) mod 256 ^ N.of_nat n). intros a. lia.
Qed.
Lemma be_bytes32_inj x y : x < W256 -> y < W256 -> be_bytes 32 x = be_bytes 32 y -> x = y.
Proof.
  intros Hx Hy E. apply (f_equal be_word) in E. rewrite !be_word_be_bytes in E.
  replace (256 ^ N.of_nat 32) with W256 in E by (vm_compute; reflexivity).
  rewrite !N.mod_small in E by assumption. exact E.
Qed.

Section HashFrame.
Variable H : list N -> N.
(* the pre-images that occur in the contract's executions *)
Variable occ : list N -> Prop.
(* sha256 is injective on them ... *)
Hypothesis H_inj : forall p q, occ p -> occ q -> H p = H q -> p = q.
(* ... distinct digests are farther apart than any collection's slot range ... *)
Hypothesis H_spread : forall p q, occ p -> occ q -> H p <> H q -> H p + CAP <= H q \/ H q + CAP <= H p.
(* ... and no range runs over the end of the key space *)
Hypothesis H_room : forall p, occ p -> H p + CAP <= W256.

Lemma apart p q : occ p -> occ q -> p <> q -> H p + CAP <= H q \/ H q + CAP <= H p.
Proof. intros Hp Hq Hne. apply H_spread; [exact Hp|exact Hq|]. intros E. apply Hne. apply H_inj; assumption. Qed.

Lemma CAP_pos : 0 < CAP. Proof. reflexivity. Qed.

(* a StorageVec<u64> field: its key and content base *)
Definition vec_occ (name : list N) : Prop :=
  occ (field_preimage name) /\ occ (be_bytes 32 (field_id H name)) /\ length name <> 23%nat.

(* refinement of the list model for a vector field identified by its name *)
Theorem vec_refines_hash name s o :
  vec_occ name ->
  let f := field_id H name in
  vec_inv H s f -> abs_len s f + 1 < LMAX -> vop_proved o ->
  match spec_vec (abs_vec H s f) o with
  | Some (l', out) =>
    exists s' mo, vec_step H s f o = Ok (s', mo) /\ abs_vec H s' f = l' /\ vec_inv H s' f
                  /\ abs_len s' f = len l' /\ (forall so, out = Some so -> mo = so) /\ outside H f s s'
  | None => vec_step H s f o = Err 1
  end.
Proof.
  intros [Hof [Hob Hl]] f. unfold f, field_id.
  pose proof (H_room _ Hof) as R1. pose proof (H_room _ Hob) as R2. pose proof CAP_pos as Hc.
  assert (Hne : field_preimage name <> be_bytes 32 (H (field_preimage name))) by (intros E; symmetry in E; revert E; apply vecbase_ne_field; exact Hl).
  pose proof (apart _ _ Hof Hob Hne) as Hap.
  apply (vec_refines H (H (field_preimage name))); unfold hash_b256; unfold field_id in *; lia.
Qed.

(* ---------- frame ---------- *)
(* an operation on vector `name` leaves another vector field `name2` untouched *)
Theorem vec_frame_vec name name2 s s' :
  vec_occ name -> vec_occ name2 -> name <> name2 ->
  outside H (field_id H name) s s' ->
  abs_len s (field_id H name2) <= LMAX ->
  abs_len s' (field_id H name2) = abs_len s (field_id H name2)
  /\ abs_vec H s' (field_id H name2) = abs_vec H s (field_id H name2)
  /\ (vec_inv H s (field_id H name2) -> vec_inv H s' (field_id H name2)).
Proof.
  intros [Hof [Hob Hl]] [Hof2 [Hob2 Hl2]] Hne Hout Hlen. unfold field_id in *.
  pose proof CAP_pos as Hc.
  assert (N1 : field_preimage name <> field_preimage name2) by (intros E; apply Hne; apply field_preimage_inj; exact E).
  assert (N2 : field_preimage name2 <> be_bytes 32 (H (field_preimage name))) by (intros E; symmetry in E; revert E; apply vecbase_ne_field; exact Hl2).
  assert (N3 : field_preimage name <> be_bytes 32 (H (field_preimage name2))) by (intros E; symmetry in E; revert E; apply vecbase_ne_field; exact Hl).
  pose proof (apart _ _ Hof Hof2 N1) as A1. pose proof (apart _ _ Hof2 Hob N2) as A2. pose proof (apart _ _ Hof Hob2 N3) as A3.
  assert (N4 : be_bytes 32 (H (field_preimage name)) <> be_bytes 32 (H (field_preimage name2))).
  { intros E. apply be_bytes32_inj in E.
    - assert (E' : field_preimage name = field_preimage name2) by (apply H_inj; assumption). contradiction.
    - pose proof (H_room _ Hof). lia.
    - pose proof (H_room _ Hof2). lia. }
  pose proof (apart _ _ Hob Hob2 N4) as A4.
  apply abs_vec_agree.
  - apply Hout; unfold hash_b256; lia.
  - intros j Hj. apply Hout; unfold hash_b256 in *; lia.
  - exact Hlen.
Qed.

(* an operation on vector `name` leaves every occurring map entry untouched (any map field g, any key) *)
Theorem vec_frame_map name s s' w isref g kb :
  vec_occ name -> occ (map_preimage kb g) -> N.of_nat w <= CAP ->
  outside H (field_id H name) s s' ->
  abs_map H w isref s' g kb = abs_map H w isref s g kb.
Proof.
  intros [Hof [Hob Hl]] Hom Hw Hout. unfold field_id in *.
  pose proof (apart _ _ Hof Hom (domain_separation name kb g)) as A1.
  pose proof (apart _ _ Hob Hom (vecbase_ne_map _ kb g)) as A2.
  apply abs_map_agree. intros j Hj. unfold map_slot in Hj. apply Hout; unfold hash_b256; lia.
Qed.

(* a map operation leaves every vector field untouched *)
Theorem map_frame_vec name2 w isref s f o s' out :
  vec_occ name2 -> occ (map_preimage (mop_key o) f) -> N.of_nat w <= CAP -> mop_width_ok w o ->
  map_step H w isref s f o = Ok (s', out) ->
  abs_len s (field_id H name2) <= LMAX ->
  abs_len s' (field_id H name2) = abs_len s (field_id H name2)
  /\ abs_vec H s' (field_id H name2) = abs_vec H s (field_id H name2)
  /\ (vec_inv H s (field_id H name2) -> vec_inv H s' (field_id H name2)).
Proof.
  intros [Hof [Hob Hl]] Hom Hw Hwo Hs Hlen. unfold field_id in *.
  pose proof (apart _ _ Hof Hom (domain_separation name2 _ f)) as A1.
  pose proof (apart _ _ Hob Hom (vecbase_ne_map _ _ f)) as A2.
  pose proof (map_step_footprint H w isref s f o s' out Hwo Hs) as Hfp. unfold map_slot in Hfp.
  apply abs_vec_agree.
  - apply Hfp. lia.
  - intros j Hj. apply Hfp. unfold hash_b256 in Hj. lia.
  - exact Hlen.
Qed.

(* a map operation leaves every other occurring entry (other key, or other map field) untouched *)
Theorem map_frame_map w isref s f o s' out w' isref' g kb' :
  occ (map_preimage (mop_key o) f) -> occ (map_preimage kb' g) -> map_preimage (mop_key o) f <> map_preimage kb' g ->
  N.of_nat w <= CAP -> N.of_nat w' <= CAP -> mop_width_ok w o ->
  map_step H w isref s f o = Ok (s', out) ->
  abs_map H w' isref' s' g kb' = abs_map H w' isref' s g kb'.
Proof.
  intros Ho1 Ho2 Hne Hw Hw' Hwo Hs.
  pose proof (apart _ _ Ho1 Ho2 Hne) as A1.
  pose proof (map_step_footprint H w isref s f o s' out Hwo Hs) as Hfp. unfold map_slot in Hfp.
  apply abs_map_agree. intros j Hj. unfold map_slot in Hj. apply Hfp. lia.
Qed.

(* refinement of the function model for StorageMap<K, u64>, keys restricted to the occurring ones *)
Theorem map_u64_refines_hash f s o :
  mop_u64 o -> occ (map_preimage (mop_key o) f) ->
  let '(m', out) := spec_map (abs_map H 1 false s f) o in
  exists s', map_step H 1 false s f o = Ok (s', out)
             /\ forall kb', occ (map_preimage kb' f) -> abs_map H 1 false s' f kb' = m' kb'.
Proof.
  intros Hop Hk.
  apply (map_u64_refines H f (fun kb => occ (map_preimage kb f))); [| |exact Hop|exact Hk].
  - intros kb kb' Hk1 Hk2 Hne E. unfold map_slot in E. apply H_inj in E; [|exact Hk1|exact Hk2].
    apply map_preimage_inj_key in E. contradiction.
  - intros kb Hk1. unfold map_slot. pose proof (H_room _ Hk1). pose proof CAP_pos. lia.
Qed.
End HashFrame.
