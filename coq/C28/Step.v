(* C28 — operations of the generated contracts and the model's step function (no proofs).
   Output of an operation = the list of u64 values the contract method returns (and the test logs):
     Option-like results: [0] = None, 1 :: value = Some value, [2] = key returned by get/first/last
     but try_read() gave None; bool results [0]/[1]; unit results []. *)
From SwayV Require Import Base.Util Generated.C28Facts C28.Model.
Open Scope N_scope.

(* StorageVec<u64> *)
Inductive vop :=
| VPush (v : N) | VPop | VGet (i : N) | VSet (i v : N) | VInsert (i v : N) | VRemove (i : N)
| VSwap (i j : N) | VSwapRemove (i : N) | VLen | VIsEmpty | VClear | VFirst | VLast | VReverse
| VFill (v : N) | VResize (n v : N) | VStore (l : list N) | VLoad.
(* StorageMap<K, V>: key as hashed bytes, value as words *)
Inductive mop := MInsert (kb v : list N) | MGet (kb : list N) | MRemove (kb : list N) | MTryInsert (kb v : list N).
(* StorageBytes / StorageString *)
(* BClear = `<StorageKey<_> as StorableSlice<_>>::clear(storage.f)`; BClearKey = `storage.f.clear()`, which
   method resolution binds to the inherent StorageKey::clear (zero-sized T: clear_quads::<u64>(field_id, 0)) *)
Inductive bop := BWrite (bs : list N) | BRead | BClear | BClearKey | BLen.
(* StorageVec<struct of w words> (reference type): values as word lists *)
Inductive wop :=
| WPush (v : list N) | WPop | WGet (i : N) | WSet (i : N) (v : list N) | WInsert (i : N) (v : list N) | WRemove (i : N)
| WSwap (i j : N) | WSwapRemove (i : N) | WLen | WFirst | WLast | WReverse | WFill (v : list N)
| WResize (n : N) (v : list N) | WLoad.
(* a field of a struct stored in a plain storage field: try_read() / write(v) of the StorageKey the
   compiler builds for `storage.st.<field>` (slot = field key + o/4, offset = o mod 4 for word offset o) *)
Inductive cop := CRead | CWrite (v : list N).
Inductive op :=
| OVecW (f : N) (w : nat) (o : wop)
| OCell (f o : N) (w : nat) (isref : bool) (c : cop)
| OVec (f : N) (o : vop)
| OMap (f : N) (w : nat) (isref : bool) (o : mop)     (* w words per value, isref of the value type *)
| OBytes (f : N) (o : bop)
| OProbe (k : N).                                     (* read_quads::<(u64,u64,u64,u64)>(k, 0) *)

Definition b2n (b : bool) : N := if b then 1 else 0.
Definition out_opt (o : option (list N)) : list N := match o with None => [0] | Some v => 1 :: v end.
Definition out_opt2 (o : option (option (list N))) : list N :=
  match o with None => [0] | Some None => [2] | Some (Some v) => 1 :: v end.

Section WithHash.
Variable H : list N -> N.

Definition vec_step (s : store) (f : N) (o : vop) : outcome (store * list N) :=
  match o with
  | VPush v => do s' <- vec_push H 1 false s f [v]; Ok (s', [])
  | VPop => do r <- vec_pop H 1 false s f; Ok (fst r, out_opt (snd r))
  | VGet i => do r <- vec_get H 1 false s f i; Ok (s, out_opt2 r)
  | VSet i v => do s' <- vec_set H 1 false s f i [v]; Ok (s', [])
  | VInsert i v => do s' <- vec_insert H 1 false s f i [v]; Ok (s', [])
  | VRemove i => do r <- vec_remove H 1 false s f i; Ok r
  | VSwap i j => do s' <- vec_swap H 1 false s f i j; Ok (s', [])
  | VSwapRemove i => do r <- vec_swap_remove H 1 false s f i; Ok r
  | VLen => do n <- vec_len s f; Ok (s, [n])
  | VIsEmpty => do b <- vec_is_empty s f; Ok (s, [b2n b])
  | VClear => do r <- vec_clear s f; Ok (fst r, [b2n (snd r)])
  | VFirst => do r <- vec_first H 1 false s f; Ok (s, out_opt2 r)
  | VLast => do r <- vec_last H 1 false s f; Ok (s, out_opt2 r)
  | VReverse => do s' <- vec_reverse H 1 false s f; Ok (s', [])
  | VFill v => do s' <- vec_fill H 1 false s f [v]; Ok (s', [])
  | VResize n v => do s' <- vec_resize H 1 false s f n [v]; Ok (s', [])
  | VStore l => do s' <- vec_store_vec H 1 s f (map (fun x => [x]) l); Ok (s', [])
  | VLoad => do r <- vec_load_vec H 1 s f; Ok (s, concat r)
  end.

Definition vecw_step (w : nat) (s : store) (f : N) (o : wop) : outcome (store * list N) :=
  match o with
  | WPush v => do s' <- vec_push H w true s f v; Ok (s', [])
  | WPop => do r <- vec_pop H w true s f; Ok (fst r, out_opt (snd r))
  | WGet i => do r <- vec_get H w true s f i; Ok (s, out_opt2 r)
  | WSet i v => do s' <- vec_set H w true s f i v; Ok (s', [])
  | WInsert i v => do s' <- vec_insert H w true s f i v; Ok (s', [])
  | WRemove i => do r <- vec_remove H w true s f i; Ok r
  | WSwap i j => do s' <- vec_swap H w true s f i j; Ok (s', [])
  | WSwapRemove i => do r <- vec_swap_remove H w true s f i; Ok r
  | WLen => do n <- vec_len s f; Ok (s, [n])
  | WFirst => do r <- vec_first H w true s f; Ok (s, out_opt2 r)
  | WLast => do r <- vec_last H w true s f; Ok (s, out_opt2 r)
  | WReverse => do s' <- vec_reverse H w true s f; Ok (s', [])
  | WFill v => do s' <- vec_fill H w true s f v; Ok (s', [])
  | WResize n v => do s' <- vec_resize H w true s f n v; Ok (s', [])
  | WLoad => do r <- vec_load_vec H w s f; Ok (s, concat r)
  end.

Definition cell_step (s : store) (f o : N) (w : nat) (isref : bool) (c : cop) : outcome (store * list N) :=
  do slot <- addk f (o / 4);
  match c with
  | CRead => do r <- read_quads w isref s slot (o mod 4); Ok (s, out_opt r)
  | CWrite v => do s' <- write_quads isref s slot (o mod 4) v; Ok (s', [])
  end.

Definition map_step (w : nat) (isref : bool) (s : store) (f : N) (o : mop) : outcome (store * list N) :=
  match o with
  | MInsert kb v => do s' <- map_insert H isref s f kb v; Ok (s', [])
  | MGet kb => do r <- map_get H w isref s f kb; Ok (s, out_opt r)
  | MRemove kb => do r <- map_remove H w isref s f kb; Ok (fst r, [b2n (snd r)])
  | MTryInsert kb v =>
    do r <- map_try_insert H isref s f kb v;
    Ok (fst r, match snd r with inl e => 1 :: e | inr v' => 0 :: v' end)
  end.

Definition bytes_step (s : store) (f : N) (o : bop) : outcome (store * list N) :=
  match o with
  | BWrite bs => do s' <- slice_write H s f bs; Ok (s', [])
  | BRead => do r <- slice_read H s f; Ok (s, out_opt r)
  | BClear => do r <- slice_clear H s f; Ok (fst r, [b2n (snd r)])
  | BClearKey => do r <- vec_clear s f; Ok (fst r, [b2n (snd r)])
  | BLen => do n <- slice_len s f; Ok (s, [n])
  end.

Definition step (s : store) (o : op) : outcome (store * list N) :=
  match o with
  | OVecW f w wo => vecw_step w s f wo
  | OCell f o w isref c => cell_step s f o w isref c
  | OVec f vo => vec_step s f vo
  | OMap f w isref mo => map_step w isref s f mo
  | OBytes f bo => bytes_step s f bo
  | OProbe k => do r <- read_quads 4 true s k 0; Ok (s, out_opt r)
  end.
End WithHash.
