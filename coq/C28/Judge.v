(* C28 — judgement of one executed operation history (evaluated by vm_compute on the logged
   outputs of the generated contract's #[test] functions). *)
From SwayV Require Import Base.Util Generated.C28Facts C28.Model C28.Step C28.Spec.
Open Scope N_scope.

(* the hash oracle instantiated by the table of (pre-image, sha256 digest) pairs computed outside *)
Definition htab : Type := list (list N * N).
Definition hlookup (t : htab) (p : list N) : option N :=
  match find (fun e => bytes_eqb (fst e) p) t with Some e => Some (snd e) | None => None end.
Definition H_of (t : htab) (p : list N) : N := match hlookup t p with Some d => d | None => 0 end.

(* pre-images the model queries for an operation *)
Definition preimages (o : op) : list (list N) :=
  match o with
  | OVec f _ | OVecW f _ _ => [be_bytes 32 f]
  | OCell _ _ _ _ _ => []
  | OMap f _ _ mo =>
    let kb := match mo with MInsert kb _ | MGet kb | MRemove kb | MTryInsert kb _ => kb end in
    [map_preimage kb f]
  | OBytes f _ => [be_bytes 32 f]
  | OProbe _ => []
  end.

Fixpoint list_eqb (a b : list N) : bool :=
  match a, b with
  | [], [] => true
  | x :: a', y :: b' => N.eqb x y && list_eqb a' b'
  | _, _ => false
  end.

(* codes, one per operation up to and including the first non-zero one:
   0 agree (S where it predicts, and M)
   1 M differs from the logged output, S agrees with it                     (correspondence)
   2 VIOLATION: logged output differs from what the list/map/bytes model S predicts
   3 VIOLATION: operation documented to revert (S) returned normally
   4 M reverts/does not revert unlike the execution, S agrees with the execution (correspondence)
   5 VIOLATION: execution reverted at an operation S says succeeds
   6 test reverted although every operation returned                         (harness)
   7 a digest the model queries is missing from the table                    (correspondence)
   8 model panicked / ran out of fuel on an operation that executed          (correspondence)
   9 more logs than operations, or logs missing without a revert             (harness) *)
Section Run.
Variable t : htab.
Let H := H_of t.

Definition misses (o : op) : bool := existsb (fun p => negb (is_some (hlookup t p))) (preimages o).

Fixpoint run (s : store) (st : sstate) (ops : list op) (obs : list (list N)) (reverted : bool) : list N :=
  match ops, obs with
  | [], [] => if reverted then [6] else []
  | [], _ :: _ => [9]
  | o :: ops', [] =>
    if negb reverted then [9]
    else if misses o then [7]
    else match spec_step st o with
         | Some _ => [5]
         | None => match step H s o with Ok _ => [4] | OutOfFuel => [8] | _ => [0] end
         end
  | o :: ops', ob :: obs' =>
    if misses o then [7]
    else match spec_step st o with
         | None => [3]
         | Some (st', sout) =>
           if match sout with Some so => negb (list_eqb so ob) | None => false end then [2]
           else match step H s o with
                | Ok (s', mo) => if list_eqb mo ob then 0 :: run s' st' ops' obs' reverted else [1]
                | Err _ => [4]
                | Panic _ | OutOfFuel => [8]
                end
         end
  end.
End Run.

(* field ids are computed by the model's field_id from the field names *)
Definition fid (t : htab) (name : list N) : N := field_id (H_of t) name.
Definition judge (t : htab) (names : list (list N)) (ops : list op) (obs : list (list N)) (reverted : bool) : list N :=
  if existsb (fun n => negb (is_some (hlookup t (field_preimage n)))) names then [7]
  else run t [] sstate0 ops obs reverted.

(* with initialised storage: the slots the compiler emits for a struct-typed storage field and the
   corresponding values of its fields (field id, word offset, words) *)
Definition judge_init (t : htab) (names : list (list N)) (init : store) (cells : list (N * N * list N))
           (ops : list op) (obs : list (list N)) (reverted : bool) : list N :=
  if existsb (fun n => negb (is_some (hlookup t (field_preimage n)))) names then [7]
  else
    let st := {| s_vec := s_vec sstate0; s_map := s_map sstate0; s_bytes := s_bytes sstate0; s_vecw := s_vecw sstate0;
                 s_cell := fun f o => match find (fun c => N.eqb (fst (fst c)) f && N.eqb (snd (fst c)) o) cells with
                                      | Some c => Some (snd c) | None => None end |} in
    run t init st ops obs reverted.
