(* C28 — proofs (placeholder; filled below). *)
From SwayV Require Import Base.Util Generated.C28Facts C28.Model C28.Step C28.Spec.
Open Scope N_scope.
Lemma facts_shape : c28_sc_words = 4 /\ c28_slot_bytes = 32 /\ c28_sc_word_bytes = 8.
Proof. repeat split; reflexivity. Qed.
