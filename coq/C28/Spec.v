(* C28 — the specification side: list / finite map / byte string per field, the abstraction
   functions from the slot store, and the statement forms. *)
From SwayV Require Import Base.Util Generated.C28Facts C28.Model C28.Step.
Open Scope N_scope.

(* ---------- S: vectors are lists ---------- *)
Fixpoint upd {A} (i : nat) (x : A) (l : list A) : list A :=
  match l with
  | [] => []
  | y :: r => match i with O => x :: r | S i' => y :: upd i' x r end
  end.

(* None = the operation is documented to revert (index out of bounds).
   Output None = S does not predict this observable (whether cleared slots had been set). *)
Definition spec_vec (l : list N) (o : vop) : option (list N * option (list N)) :=
  let len := N.of_nat (length l) in
  match o with
  | VPush v => Some (l ++ [v], Some [])
  | VPop => match l with [] => Some (l, Some [0]) | _ => Some (removelast l, Some [1; last l 0]) end
  | VGet i => Some (l, Some (if i <? len then [1; nth (N.to_nat i) l 0] else [0]))
  | VSet i v => if i <? len then Some (upd (N.to_nat i) v l, Some []) else None
  | VInsert i v => if i <=? len then Some (firstn (N.to_nat i) l ++ v :: skipn (N.to_nat i) l, Some []) else None
  | VRemove i => if i <? len then Some (firstn (N.to_nat i) l ++ skipn (S (N.to_nat i)) l, Some [nth (N.to_nat i) l 0]) else None
  | VSwap i j =>
    if (i <? len) && (j <? len)
    then Some (upd (N.to_nat j) (nth (N.to_nat i) l 0) (upd (N.to_nat i) (nth (N.to_nat j) l 0) l), Some [])
    else None
  | VSwapRemove i =>
    if i <? len then Some (removelast (upd (N.to_nat i) (last l 0) l), Some [nth (N.to_nat i) l 0]) else None
  | VLen => Some (l, Some [len])
  | VIsEmpty => Some (l, Some [b2n (len =? 0)])
  | VClear => Some ([], None)
  | VFirst => Some (l, Some (match l with [] => [0] | x :: _ => [1; x] end))
  | VLast => Some (l, Some (match l with [] => [0] | _ => [1; last l 0] end))
  | VReverse => Some (rev l, Some [])
  | VFill v => Some (repeat v (length l), Some [])
  | VResize n v => Some (if n <=? len then firstn (N.to_nat n) l else l ++ repeat v (N.to_nat (n - len)), Some [])
  | VStore l' => Some (l', Some [])
  | VLoad => Some (l, Some l)
  end.

(* vectors of multi-word values: the same list model over word lists *)
Definition spec_vecw (l : list (list N)) (o : wop) : option (list (list N) * option (list N)) :=
  let len := N.of_nat (length l) in
  match o with
  | WPush v => Some (l ++ [v], Some [])
  | WPop => match l with [] => Some (l, Some [0]) | _ => Some (removelast l, Some (1 :: last l [])) end
  | WGet i => Some (l, Some (if i <? len then 1 :: nth (N.to_nat i) l [] else [0]))
  | WSet i v => if i <? len then Some (upd (N.to_nat i) v l, Some []) else None
  | WInsert i v => if i <=? len then Some (firstn (N.to_nat i) l ++ v :: skipn (N.to_nat i) l, Some []) else None
  | WRemove i => if i <? len then Some (firstn (N.to_nat i) l ++ skipn (S (N.to_nat i)) l, Some (nth (N.to_nat i) l [])) else None
  | WSwap i j =>
    if (i <? len) && (j <? len)
    then Some (upd (N.to_nat j) (nth (N.to_nat i) l []) (upd (N.to_nat i) (nth (N.to_nat j) l []) l), Some [])
    else None
  | WSwapRemove i =>
    if i <? len then Some (removelast (upd (N.to_nat i) (last l []) l), Some (nth (N.to_nat i) l [])) else None
  | WLen => Some (l, Some [len])
  | WFirst => Some (l, Some (match l with [] => [0] | x :: _ => 1 :: x end))
  | WLast => Some (l, Some (match l with [] => [0] | _ => 1 :: last l [] end))
  | WReverse => Some (rev l, Some [])
  | WFill v => Some (repeat v (length l), Some [])
  | WResize n v => Some (if n <=? len then firstn (N.to_nat n) l else l ++ repeat v (N.to_nat (n - len)), Some [])
  | WLoad => Some (l, Some (concat l))
  end.

(* ---------- S: maps are functions key -> option value ---------- *)
Fixpoint bytes_eqb (a b : list N) : bool :=
  match a, b with
  | [], [] => true
  | x :: a', y :: b' => N.eqb x y && bytes_eqb a' b'
  | _, _ => false
  end.
Definition smap : Type := list N -> option (list N).
Definition smap_set (m : smap) (k : list N) (v : option (list N)) : smap :=
  fun k' => if bytes_eqb k' k then v else m k'.

Definition spec_map (m : smap) (o : mop) : smap * list N :=
  match o with
  | MInsert kb v => (smap_set m kb (Some v), [])
  | MGet kb => (m, out_opt (m kb))
  | MRemove kb => (smap_set m kb None, [b2n (is_some (m kb))])
  | MTryInsert kb v => match m kb with Some e => (m, 1 :: e) | None => (smap_set m kb (Some v), 0 :: v) end
  end.

(* ---------- S: bytes / strings are byte lists; an empty content reads as None ---------- *)
Definition spec_bytes (b : list N) (o : bop) : list N * option (list N) :=
  match o with
  | BWrite bs => (bs, Some [])
  | BRead => (b, Some (match b with [] => [0] | _ => 1 :: b end))
  | BClear | BClearKey => ([], None)
  | BLen => (b, Some [N.of_nat (length b)])
  end.

(* ---------- whole-contract spec state, keyed by field id ---------- *)
Record sstate := { s_vec : N -> list N; s_map : N -> smap; s_bytes : N -> list N;
                   s_vecw : N -> list (list N);            (* vectors of structs *)
                   s_cell : N -> N -> option (list N) }.   (* struct fields of plain storage fields, by word offset *)
Definition sstate0 : sstate :=
  {| s_vec := fun _ => []; s_map := fun _ _ => None; s_bytes := fun _ => []; s_vecw := fun _ => []; s_cell := fun _ _ => None |}.
Definition fupd {A} (g : N -> A) (f : N) (x : A) : N -> A := fun f' => if N.eqb f' f then x else g f'.

Definition spec_step (st : sstate) (o : op) : option (sstate * option (list N)) :=
  match o with
  | OVec f vo =>
    match spec_vec (s_vec st f) vo with
    | Some (l', out) => Some ({| s_vec := fupd (s_vec st) f l'; s_map := s_map st; s_bytes := s_bytes st; s_vecw := s_vecw st; s_cell := s_cell st |}, out)
    | None => None
    end
  | OVecW f _ wo =>
    match spec_vecw (s_vecw st f) wo with
    | Some (l', out) => Some ({| s_vec := s_vec st; s_map := s_map st; s_bytes := s_bytes st; s_vecw := fupd (s_vecw st) f l'; s_cell := s_cell st |}, out)
    | None => None
    end
  | OCell f o _ _ c =>
    match c with
    | CRead => Some (st, Some (out_opt (s_cell st f o)))
    | CWrite v => Some ({| s_vec := s_vec st; s_map := s_map st; s_bytes := s_bytes st; s_vecw := s_vecw st;
                           s_cell := fupd (s_cell st) f (fupd (s_cell st f) o (Some v)) |}, Some [])
    end
  | OMap f _ _ mo =>
    let '(m', out) := spec_map (s_map st f) mo in
    Some ({| s_vec := s_vec st; s_map := fupd (s_map st) f m'; s_bytes := s_bytes st; s_vecw := s_vecw st; s_cell := s_cell st |}, Some out)
  | OBytes f bo =>
    let '(b', out) := spec_bytes (s_bytes st f) bo in
    Some ({| s_vec := s_vec st; s_map := s_map st; s_bytes := fupd (s_bytes st) f b'; s_vecw := s_vecw st; s_cell := s_cell st |}, out)
  | OProbe _ => Some (st, None)
  end.

(* ---------- abstraction functions ---------- *)
(* word i of the region starting at slot `base` (unset slots read as zero) *)
Definition wnth (p : N) (v : slotv) : N :=
  let '(a, b, c, d) := v in
  if p =? 0 then a else if p =? 1 then b else if p =? 2 then c else d.
Definition wupd (p : N) (x : N) (v : slotv) : slotv :=
  let '(a, b, c, d) := v in
  if p =? 0 then (x, b, c, d) else if p =? 1 then (a, x, c, d) else if p =? 2 then (a, b, x, d) else (a, b, c, x).
Definition sgetz (s : store) (k : N) : slotv := match sget s k with Some v => v | None => zslot end.
Definition wread (s : store) (base i : N) : N := wnth (i mod 4) (sgetz s (base + i / 4)).

Section WithHash.
Variable H : list N -> N.

Definition abs_len (s : store) (f : N) : N := wread s f 0.
(* StorageVec<u64> at field id f *)
Definition abs_vec (s : store) (f : N) : list N :=
  map (fun i => wread s (hash_b256 H f) (N.of_nat i)) (seq 0 (N.to_nat (abs_len s f))).
(* every element slot below the length is set (try_read / read().unwrap() succeed) *)
Definition vec_inv (s : store) (f : N) : Prop :=
  forall i, i < abs_len s f -> sget s (hash_b256 H f + i / 4) <> None.

(* StorageMap value of w words (value type occupies ceil(w/4) slots from the entry's slot) *)
Definition abs_map (w : nat) (isref : bool) (s : store) (f : N) : smap :=
  fun kb => match read_quads w isref s (map_slot H kb f) 0 with Ok r => r | _ => None end.

(* StorageBytes / StorageString *)
Definition abs_bytes (s : store) (f : N) : list N :=
  match slice_read H s f with Ok (Some b) => b | _ => [] end.
End WithHash.
