(* C28 — StorageMap<K, V> for a value type of w words (any number of slots): refinement of the function model. *)
From SwayV Require Import Base.Util Generated.C28Facts C28.Model C28.Step C28.Spec C28.StoreLemmas C28.ApiLemmas C28.ListN
  C28.VecProofs C28.Frame C28.MapProofs C28.QuadLemmas.
Require Import ZifyBool ZifyN ZifyNat.
Ltac Zify.zify_post_hook ::= Z.div_mod_to_equations.
Open Scope N_scope.

Lemma clear_quad_spec : forall n s k, k + N.of_nat n <= W256 ->
  exists s' b, clear_quad s k n = Ok (s', b)
    /\ (forall j, k <= j < k + N.of_nat n -> sget s' j = None)
    /\ (forall j, ~ (k <= j < k + N.of_nat n) -> sget s' j = sget s j)
    /\ (b = true <-> forall j, k <= j < k + N.of_nat n -> sget s j <> None).
Proof.
  induction n as [|n IH]; intros s k Hk.
  - exists s, true. split; [reflexivity|]. split; [intros j Hj; lia|]. split; [reflexivity|]. split; [intros _ j Hj; lia|reflexivity].
  - cbn [clear_quad]. assert (Hlt : k <? W256 = true) by (apply N.ltb_lt; lia). rewrite Hlt.
    destruct (IH (sclr s k) (k + 1)) as [s' [b [E [Hin [Hout Hb]]]]]; [lia|]. rewrite E. cbn [bind fst snd].
    eexists. eexists. split; [reflexivity|]. split; [|split].
    + intros j Hj. destruct (N.eq_dec j k) as [Ej|Ej].
      * subst j. rewrite Hout by lia. apply sget_sclr_same.
      * apply Hin. lia.
    + intros j Hj. rewrite Hout by lia. apply sget_sclr_other. lia.
    + rewrite andb_true_iff, Hb. split.
      * intros [H1 H2] j Hj. destruct (N.eq_dec j k) as [Ej|Ej].
        -- subst j. destruct (sget s k); [discriminate|discriminate H1].
        -- rewrite <- (sget_sclr_other s k j) by exact Ej. apply H2. lia.
      * intros Hh. split.
        -- specialize (Hh k). destruct (sget s k); [reflexivity|exfalso; apply Hh; [lia|reflexivity]].
        -- intros j Hj. rewrite sget_sclr_other by lia. apply Hh. lia.
Qed.

Lemma nsl0_le W : 1 <= W -> 1 <= nsl 0 W /\ nsl 0 W <= W.
Proof. unfold nsl. lia. Qed.

Section MapW.
Variable H : list N -> N.
Variable f : N.
Variable w : nat.
Variable isref : bool.
Let W := N.of_nat w.
Hypothesis Hw1 : 1 <= W.
Hypothesis Hwmax : W < LMAX.
Hypothesis Href : isref = true \/ W = 1.
(* the occurring keys: entries of distinct keys are at least w slots apart, and fit below 2^256 *)
Variable keys : list N -> Prop.
Hypothesis Hsepk : forall kb kb', keys kb -> keys kb' -> kb <> kb' ->
  map_slot H kb f + W <= map_slot H kb' f \/ map_slot H kb' f + W <= map_slot H kb f.
Hypothesis Hroom : forall kb, keys kb -> map_slot H kb f + W <= W256.

Definition entry_words (s : store) (kb : list N) : list N :=
  map (fun t => wread s (map_slot H kb f) (0 + t)) (Nseq W).

Lemma abs_map_w s kb : keys kb ->
  exists b : bool, read_quads w isref s (map_slot H kb f) 0 = Ok (if b then Some (entry_words s kb) else None)
    /\ abs_map H w isref s f kb = (if b then Some (entry_words s kb) else None)
    /\ (b = true <-> forall j, map_slot H kb f <= j < map_slot H kb f + nsl 0 W -> sget s j <> None).
Proof.
  intros Hk. pose proof (Hroom kb Hk) as Hr. destruct (nsl0_le W Hw1) as [N1 N2].
  destruct (read_quads_spec w isref s (map_slot H kb f) 0) as [b [E Hb]]; fold W;
    [exact Hw1|exact Href|lia|change (0 / 4) with 0; change (0 mod 4) with 0; lia|].
  change (0 / 4) with 0 in Hb. change (0 mod 4) with 0 in Hb. replace (map_slot H kb f + 0) with (map_slot H kb f) in Hb by lia.
  exists b. split; [exact E|]. split; [unfold abs_map; rewrite E; reflexivity|exact Hb].
Qed.

Lemma write_entry s kb v : keys kb -> length v = w ->
  exists s', write_quads isref s (map_slot H kb f) 0 v = Ok s'
    /\ abs_map H w isref s' f kb = Some v
    /\ (forall j, ~ (map_slot H kb f <= j < map_slot H kb f + W) -> sget s' j = sget s j).
Proof.
  intros Hk Hl. pose proof (Hroom kb Hk) as Hr. destruct (nsl0_le W Hw1) as [N1 N2].
  destruct (write_quads_spec isref s (map_slot H kb f) 0 v) as [s' [E [Hwd [Hset Hout]]]]; rewrite ?Hl; fold W;
    [exact Hw1|exact Href|lia|change (0 / 4) with 0; change (0 mod 4) with 0; lia|].
  rewrite Hl in Hwd, Hset, Hout. fold W in Hwd, Hset, Hout.
  change (0 / 4) with 0 in Hset, Hout. change (0 mod 4) with 0 in Hset, Hout.
  replace (map_slot H kb f + 0) with (map_slot H kb f) in Hset, Hout by lia.
  exists s'. split; [exact E|]. split.
  - destruct (abs_map_w s' kb Hk) as [b [_ [Ea Hb]]]. rewrite Ea.
    assert (Hbt : b = true) by (apply Hb; exact Hset). rewrite Hbt. f_equal.
    apply list_ext_N.
    + unfold entry_words. rewrite len_map_Nseq. unfold len. rewrite Hl. reflexivity.
    + intros i Hi. unfold entry_words in *. rewrite len_map_Nseq in Hi. rewrite nthN_map_Nseq by exact Hi.
      rewrite Hwd. replace ((0 <=? 0 + i) && (0 + i <? 0 + W)) with true.
      * f_equal. lia.
      * symmetry. apply andb_true_iff. split; [apply N.leb_le; lia|apply N.ltb_lt; lia].
  - intros j Hj. apply Hout. lia.
Qed.

Lemma other_entry s s' kb kb' : keys kb -> keys kb' -> kb' <> kb ->
  (forall j, ~ (map_slot H kb f <= j < map_slot H kb f + W) -> sget s' j = sget s j) ->
  abs_map H w isref s' f kb' = abs_map H w isref s f kb'.
Proof.
  intros Hk Hk' Hne Hout. apply abs_map_agree. intros j Hj. apply Hout.
  destruct (Hsepk kb' kb Hk' Hk Hne) as [A|A]; fold W in Hj; lia.
Qed.

Theorem map_w_refines s o :
  mop_width_ok w o -> keys (mop_key o) ->
  let '(m', out) := spec_map (abs_map H w isref s f) o in
  exists s', map_step H w isref s f o = Ok (s', out) /\ forall kb', keys kb' -> abs_map H w isref s' f kb' = m' kb'.
Proof.
  intros Hwo Hkey. destruct o as [kb v|kb|kb|kb v]; cbn [spec_map map_step mop_width_ok mop_key] in *.
  - destruct (write_entry s kb v Hkey Hwo) as [s' [E [Ha Hout]]]. unfold map_insert. rewrite E. cbn [bind].
    exists s'. split; [reflexivity|]. intros kb' Hk'. unfold smap_set. destruct (bytes_eqb kb' kb) eqn:Eb.
    + apply bytes_eqb_eq in Eb. subst kb'. exact Ha.
    + apply (other_entry s s' kb kb' Hkey Hk'); [|exact Hout].
      intros E'. subst kb'. assert (bytes_eqb kb kb = true) by (apply bytes_eqb_eq; reflexivity). congruence.
  - destruct (abs_map_w s kb Hkey) as [b [E [Ea _]]]. unfold map_get. rewrite E. cbn [bind]. rewrite Ea.
    exists s. split; [reflexivity|]. intros kb' _. reflexivity.
  - pose proof (Hroom kb Hkey) as Hr. destruct (nsl0_le W Hw1) as [N1 N2].
    unfold map_remove, clear_quads. replace (w =? 0)%nat with false by (symmetry; apply Nat.eqb_neq; unfold W in Hw1; lia).
    fold W. rewrite slot_calc_gen; [|exact Hw1|exact Href|lia|change (0 / 4) with 0; lia]. cbn [bind].
    change (0 / 4) with 0. change (0 mod 4) with 0. replace (map_slot H kb f + 0) with (map_slot H kb f) by lia.
    destruct (clear_quad_spec (N.to_nat (nsl 0 W)) s (map_slot H kb f)) as [s' [b [E [Hin [Hout Hb]]]]]; [lia|].
    rewrite E. cbn [bind fst snd].
    destruct (abs_map_w s kb Hkey) as [b0 [_ [Ea0 Hb0]]].
    assert (Hbb : b = b0).
    { destruct b, b0; try reflexivity.
      - assert (Hx : false = true); [|discriminate Hx]. apply Hb0. intros j Hj. apply (proj1 Hb eq_refl). lia.
      - assert (Hx : false = true); [|discriminate Hx]. apply Hb. intros j Hj. apply (proj1 Hb0 eq_refl). lia. }
    exists s'. split.
    + f_equal. f_equal. f_equal. rewrite Ea0, Hbb. destruct b0; reflexivity.
    + intros kb' Hk'. unfold smap_set. destruct (bytes_eqb kb' kb) eqn:Eb.
      * apply bytes_eqb_eq in Eb. subst kb'. destruct (abs_map_w s' kb Hkey) as [b1 [_ [Ea1 Hb1]]]. rewrite Ea1.
        destruct b1; [|reflexivity]. exfalso. apply (proj1 Hb1 eq_refl (map_slot H kb f)); [lia|]. apply Hin. lia.
      * apply (other_entry s s' kb kb' Hkey Hk').
        -- intros E'. subst kb'. assert (bytes_eqb kb kb = true) by (apply bytes_eqb_eq; reflexivity). congruence.
        -- intros j Hj. apply Hout. lia.
  - destruct (abs_map_w s kb Hkey) as [b [E [Ea _]]]. unfold map_try_insert. rewrite Hwo, E. cbn [bind]. rewrite Ea.
    destruct b.
    + exists s. split; [reflexivity|]. intros kb' _. reflexivity.
    + destruct (write_entry s kb v Hkey Hwo) as [s' [Ew [Ha Hout]]]. rewrite Ew. cbn [bind fst snd].
      exists s'. split; [reflexivity|]. intros kb' Hk'. unfold smap_set. destruct (bytes_eqb kb' kb) eqn:Eb.
      * apply bytes_eqb_eq in Eb. subst kb'. exact Ha.
      * apply (other_entry s s' kb kb' Hkey Hk'); [|exact Hout].
        intros E'. subst kb'. assert (bytes_eqb kb kb = true) by (apply bytes_eqb_eq; reflexivity). congruence.
Qed.
End MapW.
