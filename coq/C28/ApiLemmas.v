(* C28 — storage_api.sw: closed forms of slot_calculator / read_quads / write_quads for u64. *)
From SwayV Require Import Base.Util Generated.C28Facts C28.Model C28.Step C28.Spec C28.StoreLemmas.
Require Import ZifyBool ZifyN.
Ltac Zify.zify_post_hook ::= Z.div_mod_to_equations.
Open Scope N_scope.

(* bound on vector lengths / word offsets used by the theorems: 2^60 *)
Definition LMAX : N := 1152921504606846976.
Lemma W64_val : W64 = 18446744073709551616. Proof. reflexivity. Qed.

Lemma add64_ok a b : a + b < W64 -> add64 a b = Ok (a + b).
Proof. intros Hlt. unfold add64. apply N.ltb_lt in Hlt. rewrite Hlt. reflexivity. Qed.
Lemma mul64_ok a b : a * b < W64 -> mul64 a b = Ok (a * b).
Proof. intros Hlt. unfold mul64. apply N.ltb_lt in Hlt. rewrite Hlt. reflexivity. Qed.
Lemma sub64_ok a b : b <= a -> sub64 a b = Ok (a - b).
Proof. intros Hle. unfold sub64. apply N.leb_le in Hle. rewrite Hle. reflexivity. Qed.
Lemma addk_ok k d : k + d < W256 -> addk k d = Ok (k + d).
Proof. intros Hlt. unfold addk. apply N.ltb_lt in Hlt. rewrite Hlt. reflexivity. Qed.

Lemma slot_calc_u64 slot off :
  off < LMAX -> slot + off / 4 < W256 ->
  slot_calculator 8 false slot off = Ok (slot + off / 4, 1, off mod 4).
Proof.
  intros Ho Hk. unfold LMAX in Ho. unfold slot_calculator.
  change c28_sc_word_bytes with 8. change c28_sc_round with 31. change c28_sc_shift with 5.
  change c28_sc_words with 4. change c28_sc_nonref_slots with 1.
  rewrite mul64_ok by (rewrite W64_val; lia). cbn [bind].
  rewrite add64_ok by (rewrite W64_val; lia). cbn [bind].
  rewrite add64_ok by (rewrite W64_val; lia). cbn [bind].
  rewrite N.shiftr_div_pow2. change (2 ^ 5) with 32.
  assert (Hd : (off * 8 + 8 + 31) / 32 = off / 4 + 1) by lia.
  rewrite Hd.
  rewrite sub64_ok by lia. cbn [bind].
  replace (off / 4 + 1 - 1) with (off / 4) by lia.
  rewrite addk_ok by exact Hk. cbn [bind]. reflexivity.
Qed.

Lemma mod4_cases p : p mod 4 = 0 \/ p mod 4 = 1 \/ p mod 4 = 2 \/ p mod 4 = 3.
Proof. lia. Qed.

Lemma read_quads1_eq s slot off :
  off < LMAX -> slot + off / 4 < W256 ->
  read_quads 1 false s slot off = Ok (option_map (fun v => [wnth (off mod 4) v]) (sget s (slot + off / 4))).
Proof.
  intros Ho Hk. unfold read_quads. cbn [Nat.eqb].
  change (8 * N.of_nat 1) with 8. rewrite slot_calc_u64 by assumption. cbn [bind].
  change (N.to_nat 1) with 1%nat. cbn [load_quad].
  apply N.ltb_lt in Hk. rewrite Hk. cbn [bind fst snd].
  destruct (sget s (slot + off / 4)) as [[[[a b] c] d]|]; cbn [bind fst snd option_map]; [|reflexivity].
  destruct (mod4_cases off) as [E|[E|[E|E]]]; rewrite E; reflexivity.
Qed.

Lemma read_u64_eq s slot off :
  off < LMAX -> slot + off / 4 < W256 ->
  read_u64 s slot off = Ok (option_map (wnth (off mod 4)) (sget s (slot + off / 4))).
Proof.
  intros Ho Hk. unfold read_u64. rewrite read_quads1_eq by assumption. cbn [bind].
  destruct (sget s (slot + off / 4)); reflexivity.
Qed.

Lemma write_u64_eq s slot off v :
  off < LMAX -> slot + off / 4 < W256 ->
  write_u64 s slot off v = Ok (wwrite s slot off v).
Proof.
  intros Ho Hk. unfold write_u64, write_quads, wwrite.
  change (size_of [v]) with 8. change (8 =? 0) with false. change (8 mod c28_slot_bytes =? 0) with false.
  cbn [andb]. rewrite slot_calc_u64 by assumption. cbn [bind].
  change (N.to_nat 1) with 1%nat. cbn [load_quad].
  pose proof Hk as Hk'. apply N.ltb_lt in Hk'. rewrite Hk'. cbn [bind fst snd].
  unfold sgetz.
  destruct (sget s (slot + off / 4)) as [[[[a b] c] d]|]; cbn [bind fst snd flat slot_words app].
  - destruct (mod4_cases off) as [E|[E|[E|E]]]; rewrite E; cbn; rewrite Hk'; reflexivity.
  - unfold zslot. destruct (mod4_cases off) as [E|[E|[E|E]]]; rewrite E; cbn; rewrite Hk'; reflexivity.
Qed.

(* length word: read_quads::<u64>(f, 0).unwrap_or(0) *)
Lemma read_len_eq s f : f < W256 -> read_len s f = Ok (wread s f 0).
Proof.
  intros Hf. unfold read_len. rewrite read_u64_eq; [|reflexivity|change (0 / 4) with 0; lia].
  cbn [bind]. unfold wread, sgetz. change (0 / 4) with 0. change (0 mod 4) with 0.
  destruct (sget s (f + 0)) as [v|]; reflexivity.
Qed.

Lemma write_len_eq s f v : f < W256 -> write_u64 s f 0 v = Ok (wwrite s f 0 v).
Proof.
  intros Hf. apply write_u64_eq; [reflexivity|change (0 / 4) with 0; lia].
Qed.
