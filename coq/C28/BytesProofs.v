(* C28 — StorageBytes / StorageString (storable_slice.sw): write_slice / read_slice / len and both `clear`
   resolutions refine the byte-string model; footprint and locality for the frame theorems. *)
From SwayV Require Import Base.Util Generated.C28Facts C28.Model C28.Step C28.Spec C28.StoreLemmas C28.ApiLemmas C28.ListN
  C28.VecProofs C28.Frame C28.MapProofs C28.HashFrame C28.QuadLemmas C28.MapWProofs.
Require Import ZifyBool ZifyN ZifyNat.
Ltac Zify.zify_post_hook ::= Z.div_mod_to_equations.
Open Scope N_scope.

(* ---------- bytes <-> big-endian words ---------- *)
Lemma be_bytes_be_word : forall l, Forall (fun b => b < 256) l -> be_bytes (length l) (be_word l) = l.
Proof.
  induction l as [|b l IH] using rev_ind; intros Hf; [reflexivity|].
  apply Forall_app in Hf. destruct Hf as [Hf1 Hf2]. inversion Hf2 as [|? ? Hb _]. subst.
  rewrite app_length. cbn [length]. replace (length l + 1)%nat with (S (length l)) by lia.
  cbn [be_bytes]. rewrite be_word_app.
  replace ((be_word l * 256 + b) / 256) with (be_word l) by lia.
  replace ((be_word l * 256 + b) mod 256) with b by lia.
  rewrite IH by exact Hf1. reflexivity.
Qed.

Lemma words_of_bytes_length : forall m bs, length (words_of_bytes m bs) = m.
Proof. induction m as [|m IH]; intros bs; cbn [words_of_bytes length]; [reflexivity|]. rewrite IH. reflexivity. Qed.

Lemma bw_roundtrip : forall m bs, length bs = (8 * m)%nat -> Forall (fun b => b < 256) bs ->
  bytes_of_words (words_of_bytes m bs) = bs.
Proof.
  induction m as [|m IH]; intros bs Hl Hf.
  - destruct bs; [reflexivity|cbn in Hl; lia].
  - cbn [words_of_bytes bytes_of_words].
    assert (H8 : length (firstn 8 bs) = 8%nat) by (rewrite firstn_length; lia).
    rewrite <- H8 at 1. rewrite be_bytes_be_word.
    + rewrite IH; [apply firstn_skipn|rewrite skipn_length; lia|].
      rewrite <- (firstn_skipn 8 bs) in Hf. apply Forall_app in Hf. apply Hf.
    + rewrite <- (firstn_skipn 8 bs) in Hf. apply Forall_app in Hf. apply Hf.
Qed.

Lemma bytes_of_words_length ws : length (bytes_of_words ws) = (8 * length ws)%nat.
Proof. induction ws as [|x r IH]; [reflexivity|]. cbn [bytes_of_words]. rewrite app_length, be_bytes_length, IH. cbn [length]. lia. Qed.

Lemma flat_unflat : forall n ws, length ws = (4 * n)%nat -> flat (unflat ws n) = ws.
Proof.
  induction n as [|n IH]; intros ws Hl.
  - destruct ws; [reflexivity|cbn in Hl; lia].
  - destruct ws as [|a [|b [|c [|d r]]]]; cbn in Hl; try lia.
    cbn [unflat flat slot_words nth skipn app]. rewrite IH by lia. reflexivity.
Qed.

Lemma slotlist_ext (a b : list slotv) :
  length a = length b -> (forall i, (i < length a)%nat -> nth i a zslot = nth i b zslot) -> a = b.
Proof. intros Hl Hn. apply nth_ext with (d := zslot) (d' := zslot); assumption. Qed.

Section Bytes.
Variable H : list N -> N.
Variable f : N.
Let base := hash_b256 H f.
Hypothesis Hf : f < W256.
Hypothesis Hbase : base + CAP <= W256.
Hypothesis Hsep : f < base \/ base + CAP <= f.

Lemma slots_le L : L < LMAX -> slice_slots L < CAP.
Proof. intros HL. unfold slice_slots. change c28_sl_round with 31. change c28_sl_shift with 5. rewrite N.shiftr_div_pow2. change (2 ^ 5) with 32. unfold LMAX, CAP in *. lia. Qed.
Lemma slots_val L : slice_slots L = (L + 31) / 32.
Proof. unfold slice_slots. change c28_sl_round with 31. change c28_sl_shift with 5. rewrite N.shiftr_div_pow2. reflexivity. Qed.

(* what read_slice returns, in terms of the length word *)
Lemma slice_read_char s :
  abs_len s f < LMAX ->
  exists r, slice_read H s f = Ok r
    /\ (abs_len s f = 0 -> r = None)
    /\ (abs_len s f <> 0 -> exists x, r = Some x /\ length x = N.to_nat (abs_len s f)).
Proof.
  intros HL. unfold slice_read. rewrite read_len_eq by exact Hf. cbn [bind]. fold (abs_len s f).
  destruct (N.eqb_spec (abs_len s f) 0) as [E|E].
  - exists None. split; [reflexivity|]. split; [reflexivity|contradiction].
  - pose proof (slots_le _ HL) as Hs. fold base.
    destruct (load_quad_spec s (N.to_nat (slice_slots (abs_len s f))) base) as [vs [b [El [Hl _]]]]; [lia|].
    rewrite El. cbn [bind fst]. eexists. split; [reflexivity|]. split; [contradiction|].
    intros _. eexists. split; [reflexivity|].
    rewrite firstn_length, bytes_of_words_length, flat_length, Hl. rewrite slots_val in *. lia.
Qed.

Lemma abs_bytes_len s : abs_len s f < LMAX -> N.of_nat (length (abs_bytes H s f)) = abs_len s f.
Proof.
  intros HL. destruct (slice_read_char s HL) as [r [E [H0 H1]]]. unfold abs_bytes. rewrite E.
  destruct (N.eq_dec (abs_len s f) 0) as [Z|Z].
  - rewrite (H0 Z). rewrite Z. reflexivity.
  - destruct (H1 Z) as [x [Ex Hx]]. rewrite Ex, Hx. lia.
Qed.

(* a store whose length slot is unset or zero reads as the empty byte string *)
Lemma abs_bytes_zero s : abs_len s f = 0 -> abs_bytes H s f = [].
Proof.
  intros Z. assert (HL : abs_len s f < LMAX) by (rewrite Z; reflexivity).
  destruct (slice_read_char s HL) as [r [E [H0 _]]]. unfold abs_bytes. rewrite E, (H0 Z). reflexivity.
Qed.

Lemma write_ok s bs :
  Forall (fun b => b < 256) bs -> N.of_nat (length bs) < LMAX ->
  exists s', slice_write H s f bs = Ok s' /\ abs_bytes H s' f = bs /\ abs_len s' f = N.of_nat (length bs) /\ outside H f s s'.
Proof.
  intros Hfa HL. unfold slice_write. fold base.
  set (nb := N.of_nat (length bs)) in *. set (n := N.to_nat (slice_slots nb)).
  pose proof (slots_le nb HL) as Hs. pose proof (slots_val nb) as Hsv.
  set (padded := bs ++ repeat 0 (32 * n - length bs)).
  set (ws := words_of_bytes (4 * n) padded).
  assert (Hpl : length padded = (32 * n)%nat) by (unfold padded; rewrite app_length, repeat_length; unfold n, nb in *; lia).
  destruct (store_quad_spec (unflat ws n) s base) as [s1 [E1 [Hin Hout]]]; [rewrite unflat_len; unfold n; lia|].
  rewrite unflat_len in Hin, Hout. rewrite E1. cbn [bind]. rewrite write_len_eq by exact Hf.
  eexists. split; [reflexivity|].
  assert (Hlen : abs_len (wwrite s1 f 0 nb) f = nb) by (unfold abs_len; apply wread_wwrite_same).
  split; [|split; [exact Hlen|]].
  - unfold abs_bytes, slice_read. rewrite read_len_eq by exact Hf. cbn [bind]. fold (abs_len (wwrite s1 f 0 nb) f). rewrite Hlen.
    destruct (N.eqb_spec nb 0) as [Z|Z].
    + destruct bs; [reflexivity|unfold nb in Z; cbn in Z; lia].
    + fold base. fold n.
      destruct (load_quad_spec (wwrite s1 f 0 nb) n base) as [vs [b [El [Hl [Hn _]]]]]; [unfold n; lia|].
      rewrite El. cbn [bind fst].
      assert (Hvs : vs = unflat ws n).
      { apply slotlist_ext; [rewrite Hl, unflat_len; reflexivity|]. rewrite Hl. intros i Hi.
        rewrite Hn by exact Hi. unfold sgetz. rewrite sget_wwrite_other by (change (0 / 4) with 0; unfold n in *; lia).
        rewrite Hin by exact Hi. reflexivity. }
      rewrite Hvs. rewrite flat_unflat by (unfold ws; apply words_of_bytes_length).
      unfold ws. rewrite bw_roundtrip; [|rewrite Hpl; lia|].
      * unfold padded, nb. rewrite Nat2N.id. rewrite firstn_app, firstn_all, Nat.sub_diag. cbn [firstn]. apply app_nil_r.
      * unfold padded. apply Forall_app. split; [exact Hfa|]. apply Forall_forall. intros x Hx. apply repeat_spec in Hx. subst x. reflexivity.
  - intros k Hk Hr. rewrite sget_wwrite_other by (change (0 / 4) with 0; lia). apply Hout. unfold n in *. lia.
Qed.

Lemma clear_slice_ok s :
  abs_len s f < LMAX ->
  exists s' b, slice_clear H s f = Ok (s', b) /\ abs_bytes H s' f = [] /\ abs_len s' f = 0 /\ outside H f s s'.
Proof.
  intros HL. unfold slice_clear. rewrite read_len_eq by exact Hf. cbn [bind]. fold (abs_len s f). fold base.
  pose proof (slots_le _ HL) as Hs.
  destruct (clear_quad_spec 1 s f) as [s1 [b1 [E1 [Hin1 [Hout1 _]]]]]; [change (N.of_nat 1) with 1; lia|].
  rewrite E1. cbn [bind fst].
  destruct (clear_quad_spec (N.to_nat (slice_slots (abs_len s f))) s1 base) as [s2 [b2 [E2 [Hin2 [Hout2 _]]]]]; [lia|].
  rewrite E2. exists s2, b2. split; [reflexivity|].
  assert (Hz : abs_len s2 f = 0).
  { unfold abs_len, wread, sgetz. change (0 / 4) with 0. replace (f + 0) with f by lia.
    rewrite Hout2 by lia. rewrite Hin1 by (change (N.of_nat 1) with 1; lia). reflexivity. }
  split; [apply abs_bytes_zero; exact Hz|]. split; [exact Hz|].
  intros k Hk Hr. rewrite Hout2 by lia. apply Hout1. change (N.of_nat 1) with 1. lia.
Qed.

Lemma clear_key_ok s :
  exists s' b, vec_clear s f = Ok (s', b) /\ abs_bytes H s' f = [] /\ abs_len s' f = 0 /\ outside H f s s'.
Proof.
  unfold vec_clear, clear_quads. cbn [Nat.eqb]. change (8 * N.of_nat 1) with 8.
  assert (H0 : 0 < LMAX) by reflexivity.
  rewrite slot_calc_u64; [|exact H0|change (0 / 4) with 0; lia]. cbn [bind].
  change (N.to_nat 1) with 1%nat. cbn [clear_quad]. change (0 / 4) with 0.
  assert (Hk : f + 0 <? W256 = true) by (apply N.ltb_lt; lia). rewrite Hk. cbn [bind fst snd].
  eexists. eexists. split; [reflexivity|].
  assert (Hz : abs_len (sclr s (f + 0)) f = 0).
  { unfold abs_len, wread, sgetz. change (0 / 4) with 0. rewrite sget_sclr_same. reflexivity. }
  split; [apply abs_bytes_zero; exact Hz|]. split; [exact Hz|].
  intros k Hk2 Hr. apply sget_sclr_other. lia.
Qed.

Definition bop_ok (o : bop) : Prop :=
  match o with BWrite bs => Forall (fun b => b < 256) bs /\ N.of_nat (length bs) < LMAX | _ => True end.

Theorem bytes_refines s o :
  abs_len s f < LMAX -> bop_ok o ->
  let '(b', out) := spec_bytes (abs_bytes H s f) o in
  exists s' mo, bytes_step H s f o = Ok (s', mo) /\ abs_bytes H s' f = b' /\ abs_len s' f < LMAX
                /\ (forall so, out = Some so -> mo = so) /\ outside H f s s'.
Proof.
  intros HL Hop. destruct o as [bs| | | | ]; cbn [spec_bytes bytes_step bop_ok] in *.
  - destruct Hop as [Hfa Hlb]. destruct (write_ok s bs Hfa Hlb) as [s' [E [Ha [Hl Ho]]]]. rewrite E. cbn [bind].
    exists s', []. split; [reflexivity|]. split; [exact Ha|]. split; [rewrite Hl; exact Hlb|]. split; [|exact Ho].
    intros so E'. injection E' as E'. auto.
  - destruct (slice_read_char s HL) as [r [E [H0 H1]]]. rewrite E. cbn [bind].
    exists s. eexists. split; [reflexivity|]. split; [reflexivity|]. split; [exact HL|]. split; [|intros k _ _; reflexivity].
    intros so E'. injection E' as E'. subst so. unfold abs_bytes. rewrite E.
    destruct (N.eq_dec (abs_len s f) 0) as [Z|Z].
    + rewrite (H0 Z). reflexivity.
    + destruct (H1 Z) as [x [Ex Hx]]. rewrite Ex. cbn [out_opt]. destruct x; [cbn in Hx; lia|reflexivity].
  - destruct (clear_slice_ok s HL) as [s' [b [E [Ha [Hz Ho]]]]]. rewrite E. cbn [bind fst snd].
    exists s'. eexists. split; [reflexivity|]. split; [exact Ha|]. split; [rewrite Hz; reflexivity|]. split; [intros so E'; discriminate E'|exact Ho].
  - destruct (clear_key_ok s) as [s' [b [E [Ha [Hz Ho]]]]]. rewrite E. cbn [bind fst snd].
    exists s'. eexists. split; [reflexivity|]. split; [exact Ha|]. split; [rewrite Hz; reflexivity|]. split; [intros so E'; discriminate E'|exact Ho].
  - unfold slice_len. rewrite read_len_eq by exact Hf. cbn [bind]. fold (abs_len s f).
    exists s. eexists. split; [reflexivity|]. split; [reflexivity|]. split; [exact HL|]. split; [|intros k _ _; reflexivity].
    intros so E'. injection E' as E'. subst so. rewrite abs_bytes_len by exact HL. reflexivity.
Qed.
End Bytes.

(* locality: the byte string of a field reads only its length slot and [base, base + CAP) *)
Lemma abs_bytes_agree H s s' g :
  g < W256 -> hash_b256 H g + CAP <= W256 ->
  sget s' g = sget s g ->
  (forall j, hash_b256 H g <= j < hash_b256 H g + CAP -> sget s' j = sget s j) ->
  abs_len s g < LMAX ->
  abs_len s' g = abs_len s g /\ abs_bytes H s' g = abs_bytes H s g.
Proof.
  intros Hg Hb Hsg Hag HL.
  assert (Hl : abs_len s' g = abs_len s g).
  { unfold abs_len, wread, sgetz. change (0 / 4) with 0. replace (g + 0) with g by lia. rewrite Hsg. reflexivity. }
  split; [exact Hl|]. unfold abs_bytes, slice_read. rewrite !read_len_eq by exact Hg. cbn [bind].
  fold (abs_len s' g). fold (abs_len s g). rewrite Hl.
  destruct (abs_len s g =? 0); [reflexivity|].
  rewrite (load_quad_agree s s'); [reflexivity|].
  intros j Hj. apply Hag.
  assert (Hs : slice_slots (abs_len s g) < CAP).
  { unfold slice_slots. change c28_sl_round with 31. change c28_sl_shift with 5. rewrite N.shiftr_div_pow2.
    change (2 ^ 5) with 32. unfold LMAX, CAP in *. lia. }
  lia.
Qed.
