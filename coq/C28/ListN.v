(* C28 — list lemmas with N indices (spec side of the vector refinement). *)
From SwayV Require Import Base.Util C28.Model C28.Step C28.Spec.
Require Import ZifyBool ZifyN ZifyNat.
Open Scope N_scope.

Definition len (l : list N) : N := N.of_nat (length l).
Definition nthN (l : list N) (i : N) : N := nth (N.to_nat i) l 0.
Definition Nseq (L : N) : list N := map N.of_nat (seq 0 (N.to_nat L)).

Lemma list_ext_N l l' : len l = len l' -> (forall i, i < len l -> nthN l i = nthN l' i) -> l = l'.
Proof.
  unfold len, nthN. intros Hl Hn. apply nth_ext with (d := 0) (d' := 0); [lia|].
  intros n Hlt. specialize (Hn (N.of_nat n)). rewrite Nat2N.id in Hn. apply Hn. lia.
Qed.

Lemma len_map_Nseq g L : len (map g (Nseq L)) = L.
Proof. unfold len, Nseq. rewrite !map_length, seq_length. lia. Qed.

Lemma nthN_map_Nseq g L i : i < L -> nthN (map g (Nseq L)) i = g i.
Proof.
  intros Hi. unfold nthN, Nseq. rewrite map_map.
  rewrite nth_indep with (d' := g (N.of_nat 0)) by (rewrite map_length, seq_length; lia).
  rewrite map_nth with (f := fun x => g (N.of_nat x)) (d := 0%nat).
  rewrite seq_nth by lia. f_equal. lia.
Qed.

Lemma len_app l r : len (l ++ r) = len l + len r.
Proof. unfold len. rewrite app_length. lia. Qed.
Lemma nthN_app_l l r i : i < len l -> nthN (l ++ r) i = nthN l i.
Proof. unfold len, nthN. intros. apply app_nth1. lia. Qed.
Lemma nthN_app_r l r i : len l <= i -> nthN (l ++ r) i = nthN r (i - len l).
Proof. unfold len, nthN. intros. rewrite app_nth2 by lia. f_equal. lia. Qed.

Lemma nth_firstn' (l : list N) : forall n i, (i < n)%nat -> nth i (firstn n l) 0 = nth i l 0.
Proof.
  induction l as [|x r IH]; intros n i Hi.
  - rewrite firstn_nil. reflexivity.
  - destruct n as [|n]; [lia|]. cbn [firstn]. destruct i as [|i]; [reflexivity|]. cbn [nth]. apply IH. lia.
Qed.
Lemma nth_skipn' (l : list N) : forall n i, nth i (skipn n l) 0 = nth (n + i) l 0.
Proof.
  induction l as [|x r IH]; intros n i.
  - rewrite skipn_nil. destruct i; destruct (n + _)%nat; reflexivity.
  - destruct n as [|n]; [reflexivity|]. cbn [skipn]. rewrite IH. reflexivity.
Qed.
Lemma len_firstn l n : n <= len l -> len (firstn (N.to_nat n) l) = n.
Proof. unfold len. intros. rewrite firstn_length. lia. Qed.
Lemma len_skipn l n : len (skipn n l) = len l - N.of_nat n.
Proof. unfold len. rewrite skipn_length. lia. Qed.
Lemma nthN_firstn l n i : i < n -> nthN (firstn (N.to_nat n) l) i = nthN l i.
Proof. unfold nthN. intros. apply nth_firstn'. lia. Qed.
Lemma nthN_skipn l n i : nthN (skipn n l) i = nthN l (N.of_nat n + i).
Proof. unfold nthN. rewrite nth_skipn'. f_equal. lia. Qed.

Lemma removelast_firstn' (l : list N) : removelast l = firstn (length l - 1) l.
Proof.
  induction l as [|x r IH]; [reflexivity|].
  destruct r as [|y r']; [reflexivity|].
  change (removelast (x :: y :: r')) with (x :: removelast (y :: r')). rewrite IH.
  cbn [length]. replace (S (S (length r')) - 1)%nat with (S (S (length r') - 1)) by lia. reflexivity.
Qed.
Lemma len_removelast l : len (removelast l) = len l - 1.
Proof. unfold len. rewrite removelast_firstn', firstn_length. lia. Qed.
Lemma nthN_removelast l i : i < len l - 1 -> nthN (removelast l) i = nthN l i.
Proof. unfold len, nthN. intros. rewrite removelast_firstn'. apply nth_firstn'. lia. Qed.
Lemma last_nthN l : last l 0 = nthN l (len l - 1).
Proof.
  unfold len, nthN. induction l as [|x r IH]; [reflexivity|].
  destruct r as [|y r']; [reflexivity|].
  change (last (x :: y :: r') 0) with (last (y :: r') 0). rewrite IH.
  cbn [length]. replace (N.to_nat (N.of_nat (S (S (length r'))) - 1)) with (S (N.to_nat (N.of_nat (S (length r')) - 1))) by lia.
  reflexivity.
Qed.

Lemma upd_length {A} (l : list A) : forall i x, length (upd i x l) = length l.
Proof. induction l as [|y r IH]; intros i x; [destruct i; reflexivity|]. destruct i; cbn [upd length]; [reflexivity|]. rewrite IH. reflexivity. Qed.
Lemma len_upd l i x : len (upd i x l) = len l.
Proof. unfold len. rewrite upd_length. reflexivity. Qed.
Lemma nth_upd_same (l : list N) : forall i x, (i < length l)%nat -> nth i (upd i x l) 0 = x.
Proof. induction l as [|y r IH]; intros i x Hi; [cbn in Hi; lia|]. destruct i; [reflexivity|]. cbn [upd nth]. apply IH. cbn in Hi. lia. Qed.
Lemma nth_upd_other (l : list N) : forall i j x, i <> j -> nth j (upd i x l) 0 = nth j l 0.
Proof.
  induction l as [|y r IH]; intros i j x Hne; [destruct i; reflexivity|].
  destruct i; destruct j; try reflexivity; try lia. cbn [upd nth]. apply IH. lia.
Qed.
Lemma nthN_upd l i j x : i < len l -> nthN (upd (N.to_nat i) x l) j = if j =? i then x else nthN l j.
Proof.
  unfold len, nthN. intros Hi. destruct (N.eqb_spec j i) as [E|E].
  - subst j. apply nth_upd_same. lia.
  - apply nth_upd_other. lia.
Qed.

Lemma len_rev l : len (rev l) = len l.
Proof. unfold len. rewrite rev_length. reflexivity. Qed.
Lemma nthN_rev l i : i < len l -> nthN (rev l) i = nthN l (len l - i - 1).
Proof. unfold len, nthN. intros. rewrite rev_nth by lia. f_equal. lia. Qed.
Lemma len_repeat x n : len (repeat x n) = N.of_nat n.
Proof. unfold len. rewrite repeat_length. reflexivity. Qed.
Lemma nthN_repeat x n i : i < N.of_nat n -> nthN (repeat x n) i = x.
Proof.
  unfold nthN. intros Hi. assert (Hn : (N.to_nat i < n)%nat) by lia. clear Hi.
  revert Hn. generalize (N.to_nat i). induction n as [|n IH]; intros k Hk; [lia|].
  destruct k; [reflexivity|]. cbn [repeat nth]. apply IH. lia.
Qed.
Lemma len_cons x l : len (x :: l) = len l + 1.
Proof. unfold len. cbn [length]. lia. Qed.
Lemma len_nil : len [] = 0. Proof. reflexivity. Qed.
Lemma nthN_cons_0 x l : nthN (x :: l) 0 = x. Proof. reflexivity. Qed.
Lemma nthN_cons_S x l i : 0 < i -> nthN (x :: l) i = nthN l (i - 1).
Proof. unfold nthN. intros. replace (N.to_nat i) with (S (N.to_nat (i - 1))) by lia. reflexivity. Qed.
