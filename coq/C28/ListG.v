(* C28 — the N-indexed list lemmas of ListN.v for an arbitrary element type (vectors of multi-word values). *)
From SwayV Require Import Base.Util C28.Model C28.Step C28.Spec C28.ListN.
Require Import ZifyBool ZifyN ZifyNat.
Open Scope N_scope.

Section G.
Variable A : Type.
Variable d : A.
Definition lenG (l : list A) : N := N.of_nat (length l).
Definition nthG (l : list A) (i : N) : A := nth (N.to_nat i) l d.

Lemma list_ext_G l l' : lenG l = lenG l' -> (forall i, i < lenG l -> nthG l i = nthG l' i) -> l = l'.
Proof.
  unfold lenG, nthG. intros Hl Hn. apply nth_ext with (d := d) (d' := d); [lia|].
  intros n Hlt. specialize (Hn (N.of_nat n)). rewrite Nat2N.id in Hn. apply Hn. lia.
Qed.
Lemma lenG_map_Nseq (g : N -> A) L : lenG (map g (Nseq L)) = L.
Proof. unfold lenG, Nseq. rewrite !map_length, seq_length. lia. Qed.
Lemma nthG_map_Nseq (g : N -> A) L i : i < L -> nthG (map g (Nseq L)) i = g i.
Proof.
  intros Hi. unfold nthG, Nseq. rewrite map_map.
  rewrite nth_indep with (d' := g (N.of_nat 0)) by (rewrite map_length, seq_length; lia).
  rewrite map_nth with (f := fun x => g (N.of_nat x)) (d := 0%nat).
  rewrite seq_nth by lia. f_equal. lia.
Qed.
Lemma lenG_app l r : lenG (l ++ r) = lenG l + lenG r.
Proof. unfold lenG. rewrite app_length. lia. Qed.
Lemma nthG_app_l l r i : i < lenG l -> nthG (l ++ r) i = nthG l i.
Proof. unfold lenG, nthG. intros. apply app_nth1. lia. Qed.
Lemma nthG_app_r l r i : lenG l <= i -> nthG (l ++ r) i = nthG r (i - lenG l).
Proof. unfold lenG, nthG. intros. rewrite app_nth2 by lia. f_equal. lia. Qed.
Lemma nth_firstnG (l : list A) : forall n i, (i < n)%nat -> nth i (firstn n l) d = nth i l d.
Proof.
  induction l as [|x r IH]; intros n i Hi.
  - rewrite firstn_nil. reflexivity.
  - destruct n as [|n]; [lia|]. cbn [firstn]. destruct i as [|i]; [reflexivity|]. cbn [nth]. apply IH. lia.
Qed.
Lemma nth_skipnG (l : list A) : forall n i, nth i (skipn n l) d = nth (n + i) l d.
Proof.
  induction l as [|x r IH]; intros n i.
  - rewrite skipn_nil. destruct i; destruct (n + _)%nat; reflexivity.
  - destruct n as [|n]; [reflexivity|]. cbn [skipn]. rewrite IH. reflexivity.
Qed.
Lemma lenG_firstn l n : n <= lenG l -> lenG (firstn (N.to_nat n) l) = n.
Proof. unfold lenG. intros. rewrite firstn_length. lia. Qed.
Lemma lenG_skipn l n : lenG (skipn n l) = lenG l - N.of_nat n.
Proof. unfold lenG. rewrite skipn_length. lia. Qed.
Lemma nthG_firstn l n i : i < n -> nthG (firstn (N.to_nat n) l) i = nthG l i.
Proof. unfold nthG. intros. apply nth_firstnG. lia. Qed.
Lemma nthG_skipn l n i : nthG (skipn n l) i = nthG l (N.of_nat n + i).
Proof. unfold nthG. rewrite nth_skipnG. f_equal. lia. Qed.
Lemma removelast_firstnG (l : list A) : removelast l = firstn (length l - 1) l.
Proof.
  induction l as [|x r IH]; [reflexivity|].
  destruct r as [|y r']; [reflexivity|].
  change (removelast (x :: y :: r')) with (x :: removelast (y :: r')). rewrite IH.
  cbn [length]. replace (S (S (length r')) - 1)%nat with (S (S (length r') - 1)) by lia. reflexivity.
Qed.
Lemma lenG_removelast l : lenG (removelast l) = lenG l - 1.
Proof. unfold lenG. rewrite removelast_firstnG, firstn_length. lia. Qed.
Lemma nthG_removelast l i : i < lenG l - 1 -> nthG (removelast l) i = nthG l i.
Proof. unfold lenG, nthG. intros. rewrite removelast_firstnG. apply nth_firstnG. lia. Qed.
Lemma last_nthG l : last l d = nthG l (lenG l - 1).
Proof.
  unfold lenG, nthG. induction l as [|x r IH]; [reflexivity|].
  destruct r as [|y r']; [reflexivity|].
  change (last (x :: y :: r') d) with (last (y :: r') d). rewrite IH.
  cbn [length]. replace (N.to_nat (N.of_nat (S (S (length r'))) - 1)) with (S (N.to_nat (N.of_nat (S (length r')) - 1))) by lia.
  reflexivity.
Qed.
Lemma lenG_upd l i x : lenG (upd i x l) = lenG l.
Proof. unfold lenG. rewrite upd_length. reflexivity. Qed.
Lemma nth_upd_sameG (l : list A) : forall i x, (i < length l)%nat -> nth i (upd i x l) d = x.
Proof. induction l as [|y r IH]; intros i x Hi; [cbn in Hi; lia|]. destruct i; [reflexivity|]. cbn [upd nth]. apply IH. cbn in Hi. lia. Qed.
Lemma nth_upd_otherG (l : list A) : forall i j x, i <> j -> nth j (upd i x l) d = nth j l d.
Proof.
  induction l as [|y r IH]; intros i j x Hne; [destruct i; reflexivity|].
  destruct i; destruct j; try reflexivity; try lia. cbn [upd nth]. apply IH. lia.
Qed.
Lemma nthG_upd l i j x : i < lenG l -> nthG (upd (N.to_nat i) x l) j = if j =? i then x else nthG l j.
Proof.
  unfold lenG, nthG. intros Hi. destruct (N.eqb_spec j i) as [E|E].
  - subst j. apply nth_upd_sameG. lia.
  - apply nth_upd_otherG. lia.
Qed.
Lemma lenG_rev l : lenG (rev l) = lenG l.
Proof. unfold lenG. rewrite rev_length. reflexivity. Qed.
Lemma nthG_rev l i : i < lenG l -> nthG (rev l) i = nthG l (lenG l - i - 1).
Proof. unfold lenG, nthG. intros. rewrite rev_nth by lia. f_equal. lia. Qed.
Lemma lenG_repeat x n : lenG (repeat x n) = N.of_nat n.
Proof. unfold lenG. rewrite repeat_length. reflexivity. Qed.
Lemma nthG_repeat x n i : i < N.of_nat n -> nthG (repeat x n) i = x.
Proof.
  unfold nthG. intros Hi. assert (Hn : (N.to_nat i < n)%nat) by lia. clear Hi.
  revert Hn. generalize (N.to_nat i). induction n as [|n IH]; intros k Hk; [lia|].
  destruct k; [reflexivity|]. cbn [repeat nth]. apply IH. lia.
Qed.
Lemma lenG_cons x l : lenG (x :: l) = lenG l + 1.
Proof. unfold lenG. cbn [length]. lia. Qed.
Lemma nthG_cons_0 x l : nthG (x :: l) 0 = x. Proof. reflexivity. Qed.
Lemma nthG_cons_S x l i : 0 < i -> nthG (x :: l) i = nthG l (i - 1).
Proof. unfold nthG. intros. replace (N.to_nat i) with (S (N.to_nat (i - 1))) by lia. reflexivity. Qed.
End G.
