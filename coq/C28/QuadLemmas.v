(* C28 — storage_api.sw for values of w words at any word offset: read_quads / write_quads as word
   reads / writes of the region that starts at `slot` (including values that straddle slot boundaries). *)
From SwayV Require Import Base.Util Generated.C28Facts C28.Model C28.Step C28.Spec C28.StoreLemmas C28.ApiLemmas C28.ListN.
Require Import ZifyBool ZifyN ZifyNat.
Ltac Zify.zify_post_hook ::= Z.div_mod_to_equations.
Open Scope N_scope.

(* ---------- the VM instructions on n consecutive slots ---------- *)
Lemma load_quad_spec s : forall n k, k + N.of_nat n <= W256 ->
  exists vs b, load_quad s k n = Ok (vs, b) /\ length vs = n
    /\ (forall i, (i < n)%nat -> nth i vs zslot = sgetz s (k + N.of_nat i))
    /\ (b = true <-> forall i, (i < n)%nat -> sget s (k + N.of_nat i) <> None).
Proof.
  induction n as [|n IH]; intros k Hk.
  - exists [], true. split; [reflexivity|]. split; [reflexivity|]. split; [intros i Hi; lia|]. split; [intros _ i Hi; lia|reflexivity].
  - cbn [load_quad]. assert (Hlt : k <? W256 = true) by (apply N.ltb_lt; lia). rewrite Hlt.
    destruct (IH (k + 1)) as [vs [b [E [Hl [Hn Hb]]]]]; [lia|]. rewrite E. cbn [bind fst snd].
    destruct (sget s k) as [v|] eqn:Es.
    + exists (v :: vs), b. split; [reflexivity|]. split; [cbn [length]; lia|]. split.
      * intros i Hi. destruct i as [|i].
        -- cbn [nth]. unfold sgetz. replace (k + N.of_nat 0) with k by lia. rewrite Es. reflexivity.
        -- cbn [nth]. rewrite Hn by lia. f_equal. lia.
      * rewrite Hb. split; intros Hh i Hi.
        -- destruct i as [|i]; [replace (k + N.of_nat 0) with k by lia; congruence|].
           replace (k + N.of_nat (S i)) with (k + 1 + N.of_nat i) by lia. apply Hh. lia.
        -- replace (k + 1 + N.of_nat i) with (k + N.of_nat (S i)) by lia. apply Hh. lia.
    + exists (zslot :: vs), false. split; [reflexivity|]. split; [cbn [length]; lia|]. split.
      * intros i Hi. destruct i as [|i].
        -- cbn [nth]. unfold sgetz. replace (k + N.of_nat 0) with k by lia. rewrite Es. reflexivity.
        -- cbn [nth]. rewrite Hn by lia. f_equal. lia.
      * split; [discriminate|]. intros Hh. exfalso. apply (Hh 0%nat); [lia|]. replace (k + N.of_nat 0) with k by lia. exact Es.
Qed.

Lemma store_quad_spec : forall vs s k, k + N.of_nat (length vs) <= W256 ->
  exists s', store_quad s k vs = Ok s'
    /\ (forall i, (i < length vs)%nat -> sget s' (k + N.of_nat i) = Some (nth i vs zslot))
    /\ (forall j, ~ (k <= j < k + N.of_nat (length vs)) -> sget s' j = sget s j).
Proof.
  induction vs as [|v r IH]; intros s k Hk.
  - exists s. split; [reflexivity|]. split; [intros i Hi; cbn in Hi; lia|reflexivity].
  - cbn [store_quad]. cbn [length] in Hk. assert (Hlt : k <? W256 = true) by (apply N.ltb_lt; lia). rewrite Hlt.
    destruct (IH (sset s k v) (k + 1)) as [s' [E [Hin Hout]]]; [lia|].
    exists s'. split; [exact E|]. split.
    + intros i Hi. destruct i as [|i].
      * replace (k + N.of_nat 0) with k by lia. rewrite Hout by lia. apply sget_sset_same.
      * replace (k + N.of_nat (S i)) with (k + 1 + N.of_nat i) by lia. cbn [nth]. apply Hin. cbn [length] in Hi. lia.
    + intros j Hj. cbn [length] in Hj. rewrite Hout by lia. apply sget_sset_other. lia.
Qed.

(* ---------- buffers ---------- *)
Lemma flat_length vs : length (flat vs) = (4 * length vs)%nat.
Proof. induction vs as [|[[[a b] c] d] r IH]; [reflexivity|]. cbn [flat slot_words app length]. lia. Qed.

Lemma flat_nth : forall vs i p, (i < length vs)%nat -> (p < 4)%nat ->
  nth (4 * i + p) (flat vs) 0 = wnth (N.of_nat p) (nth i vs zslot).
Proof.
  induction vs as [|[[[a b] c] d] r IH]; intros i p Hi Hp; [cbn in Hi; lia|].
  destruct i as [|i].
  - cbn [flat slot_words app nth Nat.mul Nat.add].
    destruct p as [|[|[|[|p]]]]; try lia; reflexivity.
  - replace (4 * S i + p)%nat with (S (S (S (S (4 * i + p))))) by lia.
    cbn [flat slot_words app nth]. apply IH; [cbn [length] in Hi; lia|exact Hp].
Qed.

Lemma unflat_nth : forall n ws i, (i < n)%nat ->
  nth i (unflat ws n) zslot = (nth (4 * i) ws 0, nth (4 * i + 1) ws 0, nth (4 * i + 2) ws 0, nth (4 * i + 3) ws 0).
Proof.
  induction n as [|n IH]; intros ws i Hi; [lia|].
  destruct i as [|i]; [reflexivity|].
  cbn [unflat nth]. rewrite IH by lia. rewrite !nth_skipn'.
  replace (4 + 4 * i)%nat with (4 * S i)%nat by lia.
  replace (4 + (4 * i + 1))%nat with (4 * S i + 1)%nat by lia.
  replace (4 + (4 * i + 2))%nat with (4 * S i + 2)%nat by lia.
  replace (4 + (4 * i + 3))%nat with (4 * S i + 3)%nat by lia. reflexivity.
Qed.

Lemma unflat_len : forall n ws, length (unflat ws n) = n.
Proof. induction n as [|n IH]; intros ws; cbn [unflat length]; [reflexivity|]. rewrite IH. reflexivity. Qed.

Lemma wnth_unflat n ws i p : (i < n)%nat -> (p < 4)%nat ->
  wnth (N.of_nat p) (nth i (unflat ws n) zslot) = nth (4 * i + p) ws 0.
Proof.
  intros Hi Hp. rewrite unflat_nth by exact Hi.
  destruct p as [|[|[|[|p]]]]; try lia; cbn [wnth]; try reflexivity.
  replace (4 * i + 0)%nat with (4 * i)%nat by lia. reflexivity.
Qed.

Lemma splice_nth buf p ws j :
  (p + length ws <= length buf)%nat -> (j < length buf)%nat ->
  nth j (splice buf p ws) 0 = if (p <=? j)%nat && (j <? p + length ws)%nat then nth (j - p) ws 0 else nth j buf 0.
Proof.
  intros Hfit Hj. unfold splice.
  rewrite firstn_all2 by (rewrite !app_length, firstn_length, skipn_length; lia).
  destruct (Nat.leb_spec p j) as [E1|E1]; cbn [andb].
  - rewrite app_nth2 by (rewrite firstn_length; lia). rewrite firstn_length. replace (Nat.min p (length buf)) with p by lia.
    destruct (Nat.ltb_spec j (p + length ws)) as [E2|E2].
    + apply app_nth1. lia.
    + rewrite app_nth2 by lia. rewrite nth_skipn'. f_equal. lia.
  - rewrite app_nth1 by (rewrite firstn_length; lia). apply nth_firstn'. exact E1.
Qed.

(* ---------- storage_api.sw, general word offset ---------- *)
(* number of slots a value of w words spans when it starts at word p of a slot *)
Definition nsl (p w : N) : N := (8 * p + 8 * w + 31) / 32.

Lemma slot_calc_gen w isref slot off :
  1 <= w -> (isref = true \/ w = 1) -> off + w < LMAX -> slot + off / 4 < W256 ->
  slot_calculator (8 * w) isref slot off = Ok (slot + off / 4, nsl (off mod 4) w, off mod 4).
Proof.
  intros Hw Hr Ho Hk. unfold LMAX in Ho. unfold slot_calculator, nsl.
  change c28_sc_word_bytes with 8. change c28_sc_round with 31. change c28_sc_shift with 5.
  change c28_sc_words with 4. change c28_sc_nonref_slots with 1.
  change c28_sc2_word_bytes with 8. change c28_sc2_round with 31. change c28_sc2_shift with 5.
  rewrite mul64_ok by (rewrite W64_val; lia). cbn [bind].
  rewrite add64_ok by (rewrite W64_val; lia). cbn [bind].
  rewrite add64_ok by (rewrite W64_val; lia). cbn [bind].
  rewrite !N.shiftr_div_pow2. change (2 ^ 5) with 32.
  destruct isref.
  - rewrite mul64_ok by (rewrite W64_val; lia). cbn [bind].
    rewrite add64_ok by (rewrite W64_val; lia). cbn [bind].
    rewrite add64_ok by (rewrite W64_val; lia). cbn [bind].
    rewrite N.shiftr_div_pow2. change (2 ^ 5) with 32.
    assert (Hd : (off * 8 + 8 * w + 31) / 32 = off / 4 + (off mod 4 * 8 + 8 * w + 31) / 32) by lia.
    rewrite Hd. rewrite sub64_ok by lia. cbn [bind].
    replace (off / 4 + (off mod 4 * 8 + 8 * w + 31) / 32 - (off mod 4 * 8 + 8 * w + 31) / 32) with (off / 4) by lia.
    rewrite addk_ok by exact Hk. cbn [bind]. replace (off mod 4 * 8) with (8 * (off mod 4)) by lia. reflexivity.
  - destruct Hr as [Hr|Hr]; [discriminate|]. subst w. cbn [bind].
    assert (Hd : (off * 8 + 8 * 1 + 31) / 32 = off / 4 + 1) by lia. rewrite Hd.
    rewrite sub64_ok by lia. cbn [bind]. replace (off / 4 + 1 - 1) with (off / 4) by lia.
    rewrite addk_ok by exact Hk. cbn [bind].
    replace ((8 * (off mod 4) + 8 * 1 + 31) / 32) with 1 by lia. reflexivity.
Qed.

Lemma nsl_fit p w : p < 4 -> 1 <= w -> p + w <= 4 * nsl p w /\ 1 <= nsl p w.
Proof. unfold nsl. lia. Qed.

(* the buffer that write_quads stores back *)
Lemma write_quads_buf isref s slot off ws :
  let W := N.of_nat (length ws) in
  let p := off mod 4 in let k := slot + off / 4 in let n := nsl p W in
  1 <= W -> (isref = true \/ W = 1) -> off + W < LMAX -> k + n <= W256 ->
  exists buf, write_quads isref s slot off ws = store_quad s k (unflat buf (N.to_nat n))
    /\ forall j, (j < 4 * N.to_nat n)%nat ->
         nth j buf 0 = if (N.to_nat p <=? j)%nat && (j <? N.to_nat p + length ws)%nat
                       then nth (j - N.to_nat p) ws 0 else wread s k (N.of_nat j).
Proof.
  intros W p k n HW Hr Ho Hk.
  assert (Hp : p < 4) by (unfold p; lia).
  destruct (nsl_fit p W Hp HW) as [Hfit Hn1]. fold n in Hfit, Hn1.
  unfold write_quads, size_of. fold W.
  replace (8 * W =? 0) with false by (symmetry; apply N.eqb_neq; lia).
  destruct (((8 * W) mod c28_slot_bytes =? 0) && (off =? 0)) eqn:Efast.
  - apply andb_prop in Efast. destruct Efast as [E1 E2]. apply N.eqb_eq in E1. apply N.eqb_eq in E2.
    change c28_slot_bytes with 32 in *.
    assert (Ep : p = 0) by (unfold p; rewrite E2; reflexivity).
    assert (Ek : k = slot) by (unfold k; rewrite E2; change (0 / 4) with 0; lia).
    assert (En : n = 8 * W / 32) by (unfold n, nsl; rewrite Ep; lia).
    exists ws. split; [rewrite Ek, En; reflexivity|].
    intros j Hj. rewrite Ep. change (N.to_nat 0) with 0%nat.
    replace (0 <=? j)%nat with true by (symmetry; apply Nat.leb_le; lia).
    replace (j <? 0 + length ws)%nat with true by (symmetry; apply Nat.ltb_lt; lia).
    cbn [andb]. f_equal. lia.
  - rewrite slot_calc_gen; [|exact HW|exact Hr|exact Ho|fold k; lia]. fold p k n. cbn [bind].
    destruct (load_quad_spec s (N.to_nat n) k) as [vs [b [E [Hl [Hnth Hb]]]]]; [lia|].
    rewrite E. cbn [bind fst].
    exists (splice (flat vs) (N.to_nat p) ws). split; [reflexivity|].
    intros j Hj. rewrite splice_nth by (rewrite flat_length, Hl; lia).
    destruct ((N.to_nat p <=? j)%nat && (j <? N.to_nat p + length ws)%nat); [reflexivity|].
    replace j with (4 * (j / 4) + j mod 4)%nat at 1 by lia.
    rewrite flat_nth by lia. rewrite Hnth by lia. unfold wread. f_equal; [lia|f_equal; lia].
Qed.

Theorem write_quads_spec isref s slot off ws :
  let W := N.of_nat (length ws) in
  1 <= W -> (isref = true \/ W = 1) -> off + W < LMAX -> slot + off / 4 + nsl (off mod 4) W <= W256 ->
  exists s', write_quads isref s slot off ws = Ok s'
    /\ (forall i, wread s' slot i = if (off <=? i) && (i <? off + W) then nthN ws (i - off) else wread s slot i)
    /\ (forall j, slot + off / 4 <= j < slot + off / 4 + nsl (off mod 4) W -> sget s' j <> None)
    /\ (forall j, ~ (slot + off / 4 <= j < slot + off / 4 + nsl (off mod 4) W) -> sget s' j = sget s j).
Proof.
  intros W HW Hr Ho Hk.
  set (p := off mod 4) in *. set (q := off / 4) in *. set (n := nsl p W) in *.
  assert (Hp : p < 4) by (unfold p; lia).
  assert (Hoff : off = 4 * q + p) by (unfold p, q; lia).
  destruct (nsl_fit p W Hp HW) as [Hfit Hn1]. fold n in Hfit, Hn1.
  destruct (write_quads_buf isref s slot off ws HW Hr Ho Hk) as [buf [Ew Hbuf]].
  fold p q in Ew, Hbuf. change (nsl p (N.of_nat (length ws))) with n in Ew, Hbuf.
  destruct (store_quad_spec (unflat buf (N.to_nat n)) s (slot + q)) as [s' [Es [Hin Hout]]]; [rewrite unflat_len; lia|].
  rewrite unflat_len in Hin, Hout.
  exists s'. split; [rewrite Ew; exact Es|]. split; [|split].
  - intros i. unfold wread at 1.
    destruct (N.leb_spec q (i / 4)) as [Hlo|Hlo]; [destruct (N.ltb_spec (i / 4) (q + n)) as [Hhi|Hhi]|].
    + set (t := N.to_nat (i / 4 - q)).
      replace (slot + i / 4) with (slot + q + N.of_nat t) by (unfold t; lia).
      unfold sgetz. rewrite Hin by (unfold t; lia).
      replace (i mod 4) with (N.of_nat (N.to_nat (i mod 4))) by lia.
      rewrite wnth_unflat by (unfold t; lia).
      rewrite Hbuf by (unfold t; lia).
      destruct (Nat.leb_spec (N.to_nat p) (4 * t + N.to_nat (i mod 4))) as [A|A];
        destruct (Nat.ltb_spec (4 * t + N.to_nat (i mod 4)) (N.to_nat p + length ws)) as [B|B];
        destruct (N.leb_spec off i) as [C|C]; destruct (N.ltb_spec i (off + W)) as [D|D];
        cbn [andb]; try (exfalso; unfold t, W in *; lia).
      * unfold nthN. f_equal. unfold t. lia.
      * unfold wread. f_equal; [unfold t; lia|f_equal; unfold t; lia].
      * unfold wread. f_equal; [unfold t; lia|f_equal; unfold t; lia].
    + unfold sgetz. rewrite Hout by lia.
      replace ((off <=? i) && (i <? off + W)) with false; [reflexivity|].
      symmetry. apply andb_false_iff. right. apply N.ltb_ge. lia.
    + unfold sgetz. rewrite Hout by lia.
      replace ((off <=? i) && (i <? off + W)) with false; [reflexivity|].
      symmetry. apply andb_false_iff. left. apply N.leb_gt. lia.
  - intros j Hj. replace j with (slot + q + N.of_nat (N.to_nat (j - (slot + q)))) by lia.
    rewrite Hin by lia. discriminate.
  - intros j Hj. apply Hout. lia.
Qed.

Theorem read_quads_spec w isref s slot off :
  let W := N.of_nat w in
  1 <= W -> (isref = true \/ W = 1) -> off + W < LMAX -> slot + off / 4 + nsl (off mod 4) W <= W256 ->
  exists b : bool, read_quads w isref s slot off = Ok (if b then Some (map (fun t => wread s slot (off + t)) (Nseq W)) else None)
    /\ (b = true <-> forall j, slot + off / 4 <= j < slot + off / 4 + nsl (off mod 4) W -> sget s j <> None).
Proof.
  intros W HW Hr Ho Hk.
  set (p := off mod 4) in *. set (q := off / 4) in *. set (n := nsl p W) in *.
  assert (Hp : p < 4) by (unfold p; lia).
  assert (Hoff : off = 4 * q + p) by (unfold p, q; lia).
  destruct (nsl_fit p W Hp HW) as [Hfit Hn1]. fold n in Hfit, Hn1.
  unfold read_quads. replace (w =? 0)%nat with false by (symmetry; apply Nat.eqb_neq; unfold W in HW; lia).
  fold W. rewrite slot_calc_gen; [|exact HW|exact Hr|exact Ho|fold q; lia]. fold p q n. cbn [bind].
  destruct (load_quad_spec s (N.to_nat n) (slot + q)) as [vs [b [E [Hl [Hnth Hb]]]]]; [lia|].
  rewrite E. cbn [bind fst snd]. exists b. split.
  - destruct b; [|reflexivity]. f_equal. f_equal. apply list_ext_N.
    + rewrite len_map_Nseq. unfold len. rewrite firstn_length, skipn_length, flat_length, Hl. unfold W in *. lia.
    + intros i Hi. unfold len in Hi. rewrite firstn_length, skipn_length, flat_length, Hl in Hi.
      rewrite nthN_map_Nseq by (unfold W in *; lia).
      unfold nthN. rewrite nth_firstn' by lia. rewrite nth_skipn'.
      replace (N.to_nat p + N.to_nat i)%nat with (4 * ((N.to_nat p + N.to_nat i) / 4) + (N.to_nat p + N.to_nat i) mod 4)%nat at 1 by lia.
      rewrite flat_nth by lia. rewrite Hnth by lia. unfold wread. f_equal; [lia|f_equal; lia].
  - rewrite Hb. split; intros Hh.
    + intros j Hj. replace j with (slot + q + N.of_nat (N.to_nat (j - (slot + q)))) by lia. apply Hh. lia.
    + intros i Hi. apply Hh. lia.
Qed.

(* every slot of the range of a value holds one of its words *)
Lemma slot_has_word W o j : 1 <= W -> o / 4 <= j < o / 4 + nsl (o mod 4) W -> exists i, o <= i < o + W /\ i / 4 = j.
Proof.
  intros HW Hj. unfold nsl in Hj. destruct (N.eq_dec j (o / 4)) as [E|E].
  - exists o. lia.
  - exists (4 * j). lia.
Qed.
Lemma word_in_range W o i : o <= i < o + W -> o / 4 <= i / 4 < o / 4 + nsl (o mod 4) W.
Proof. intros Hi. unfold nsl. lia. Qed.
