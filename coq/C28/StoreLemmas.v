(* C28 — lemmas about the slot store and the word view. *)
From SwayV Require Import Base.Util Generated.C28Facts C28.Model C28.Step C28.Spec.
Require Import ZifyBool ZifyN.
Ltac Zify.zify_post_hook ::= Z.div_mod_to_equations.
Open Scope N_scope.
Arguments N.add : simpl never.
Arguments N.sub : simpl never.
Arguments N.mul : simpl never.
Arguments N.div : simpl never.
Arguments N.modulo : simpl never.
Arguments N.eqb : simpl never.
Arguments N.ltb : simpl never.
Arguments N.leb : simpl never.
Arguments N.pow : simpl never.
Arguments N.shiftr : simpl never.

Lemma sget_sclr_same s k : sget (sclr s k) k = None.
Proof.
  induction s as [|[k' v] r IH]; cbn [sclr sget]; [reflexivity|].
  destruct (N.eqb k k') eqn:E; [exact IH|].
  cbn [sget]. rewrite E. exact IH.
Qed.

Lemma sget_sclr_other s k k' : k' <> k -> sget (sclr s k) k' = sget s k'.
Proof.
  intros Hne. induction s as [|[k0 v] r IH]; cbn [sclr sget]; [reflexivity|].
  destruct (N.eqb k k0) eqn:E.
  - apply N.eqb_eq in E. subst k0.
    destruct (N.eqb k' k) eqn:E2; [apply N.eqb_eq in E2; congruence|exact IH].
  - cbn [sget]. destruct (N.eqb k' k0); [reflexivity|exact IH].
Qed.

Lemma sget_sset_same s k v : sget (sset s k v) k = Some v.
Proof. unfold sset. cbn [sget]. rewrite N.eqb_refl. reflexivity. Qed.

Lemma sget_sset_other s k v k' : k' <> k -> sget (sset s k v) k' = sget s k'.
Proof.
  intros Hne. unfold sset. cbn [sget].
  destruct (N.eqb k' k) eqn:E; [apply N.eqb_eq in E; congruence|].
  apply sget_sclr_other. exact Hne.
Qed.

Lemma sgetz_sset_same s k v : sgetz (sset s k v) k = v.
Proof. unfold sgetz. rewrite sget_sset_same. reflexivity. Qed.
Lemma sgetz_sset_other s k v k' : k' <> k -> sgetz (sset s k v) k' = sgetz s k'.
Proof. intros. unfold sgetz. rewrite sget_sset_other by assumption. reflexivity. Qed.

(* words of a slot *)
Lemma wnth_wupd_same p x v : p < 4 -> wnth p (wupd p x v) = x.
Proof.
  intros Hp. destruct v as [[[a b] c] d]. unfold wnth, wupd.
  destruct (p =? 0) eqn:E0; [reflexivity|].
  destruct (p =? 1) eqn:E1; [reflexivity|].
  destruct (p =? 2) eqn:E2; reflexivity.
Qed.

Lemma wnth_wupd_other p q x v : p < 4 -> q < 4 -> p <> q -> wnth q (wupd p x v) = wnth q v.
Proof.
  intros Hp Hq Hne. destruct v as [[[a b] c] d]. unfold wnth, wupd.
  destruct (p =? 0) eqn:P0; destruct (p =? 1) eqn:P1; destruct (p =? 2) eqn:P2;
  destruct (q =? 0) eqn:Q0; destruct (q =? 1) eqn:Q1; destruct (q =? 2) eqn:Q2;
  try reflexivity; lia.
Qed.

(* writing one word of a region *)
Definition wwrite (s : store) (base i v : N) : store :=
  sset s (base + i / 4) (wupd (i mod 4) v (sgetz s (base + i / 4))).

Lemma wread_wwrite_same s base i v : wread (wwrite s base i v) base i = v.
Proof.
  unfold wread, wwrite. rewrite sgetz_sset_same. apply wnth_wupd_same. lia.
Qed.

Lemma wread_wwrite_other s base i j v : j <> i -> wread (wwrite s base i v) base j = wread s base j.
Proof.
  intros Hne. unfold wread, wwrite.
  destruct (N.eq_dec (j / 4) (i / 4)) as [E|E].
  - rewrite E. rewrite sgetz_sset_same. apply wnth_wupd_other; lia.
  - rewrite sgetz_sset_other by lia. reflexivity.
Qed.

Lemma wread_wwrite_far s base i v base' j :
  base' + j / 4 <> base + i / 4 -> wread (wwrite s base i v) base' j = wread s base' j.
Proof.
  intros Hne. unfold wread, wwrite. rewrite sgetz_sset_other by exact Hne. reflexivity.
Qed.

Lemma sget_wwrite_same s base i v : sget (wwrite s base i v) (base + i / 4) <> None.
Proof. unfold wwrite. rewrite sget_sset_same. discriminate. Qed.
Lemma sget_wwrite_other s base i v k : k <> base + i / 4 -> sget (wwrite s base i v) k = sget s k.
Proof. intros. unfold wwrite. apply sget_sset_other. assumption. Qed.
Lemma sget_wwrite_mono s base i v k : sget s k <> None -> sget (wwrite s base i v) k <> None.
Proof.
  intros Hs. destruct (N.eq_dec k (base + i / 4)) as [E|E].
  - subst k. apply sget_wwrite_same.
  - rewrite sget_wwrite_other by exact E. exact Hs.
Qed.
