(* C28 — property theorems only.

   Full statement aimed at (DESIGN.md C28): for every operation of StorageVec, StorageMap, StorageBytes and
   StorageString, `abs (step s op) = spec_step (abs s) op` with equal outputs, and an operation on one
   field / key leaves `abs` of every other field / key unchanged, under the hypotheses on sha256 below.
   Proved here: StorageVec<u64> and StorageVec<V> for V of w words (every method except store_vec / load_vec /
   iter; elements may straddle slot boundaries), StorageMap with a value type of w words (insert / get /
   remove / try_insert) and the footprint of every map operation, StorageBytes / StorageString (write_slice,
   read_slice, len, and both resolutions of `clear`), the word-level behaviour of read_quads / write_quads at
   any offset, and frame in every direction between vector fields, bytes/string fields and map entries.
   NOT proved (validated by the executed histories only): store_vec / load_vec / iter, struct-typed plain
   storage fields (OCell) beyond the word-level read_quads / write_quads theorems.  The `_partial` names of
   the first theorems are kept (their statements exclude store_vec / load_vec).

   Hypotheses on the hash H (sha256), named in every theorem that needs them:
     injective on the occurring pre-images `occ`; distinct occurring digests at least CAP = 2^58 slots
     apart (a vector of up to LMAX = 2^60 u64 elements spans at most CAP slots); every occurring digest
     at least CAP below 2^256. *)
From SwayV Require Import Base.Util Generated.C28Facts C28.Model C28.Step C28.Spec C28.StoreLemmas C28.ApiLemmas
  C28.ListN C28.VecProofs C28.Frame C28.MapProofs C28.HashFrame C28.QuadLemmas C28.ListG C28.VecWProofs C28.MapWProofs C28.HashFrameW C28.BytesProofs C28.HashFrameB.
Open Scope N_scope.

(* storage_api.sw slot arithmetic: a u64 at word offset `off` of `slot` lives in slot + off/4, word off mod 4 *)
Theorem C28_slot_calculator_u64 : forall slot off,
  off < LMAX -> slot + off / 4 < W256 ->
  slot_calculator 8 false slot off = Ok (slot + off / 4, 1, off mod 4).
Proof. exact slot_calc_u64. Qed.
Print Assumptions C28_slot_calculator_u64.

(* ... and a w-word value at offset 0 touches only slots within [slot, slot + w) *)
Theorem C28_slot_calculator_range : forall w isref slot k n p,
  (1 <= w)%nat -> slot_calculator (8 * N.of_nat w) isref slot 0 = Ok (k, n, p) ->
  slot <= k /\ k + n <= slot + N.of_nat w.
Proof. exact slot_calc_range. Qed.
Print Assumptions C28_slot_calculator_range.

(* read_quads / write_quads of a u64 are a word read / read-modify-write of that slot *)
Theorem C28_read_write_u64 : forall s slot off v,
  off < LMAX -> slot + off / 4 < W256 ->
  read_u64 s slot off = Ok (option_map (wnth (off mod 4)) (sget s (slot + off / 4)))
  /\ write_u64 s slot off v = Ok (wwrite s slot off v).
Proof. intros s slot off v Ho Hk. split; [apply read_u64_eq|apply write_u64_eq]; assumption. Qed.
Print Assumptions C28_read_write_u64.

(* StorageVec<u64> refines the list model: same outputs, abstraction commutes, invariant kept, documented
   reverts revert, and nothing outside {length slot} U [content base, content base + CAP) changes.
   Side conditions in terms of the two slots' positions. *)
Theorem C28_vec_refines_partial : forall (H : list N -> N) (f : N),
  f < W256 -> hash_b256 H f + CAP <= W256 -> f < hash_b256 H f \/ hash_b256 H f + CAP <= f ->
  forall (s : store) (o : vop),
  vec_inv H s f -> abs_len s f + 1 < LMAX -> vop_proved o ->
  match spec_vec (abs_vec H s f) o with
  | Some (l', out) =>
    exists s' mo, vec_step H s f o = Ok (s', mo) /\ abs_vec H s' f = l' /\ vec_inv H s' f
                  /\ abs_len s' f = len l' /\ (forall so, out = Some so -> mo = so) /\ outside H f s s'
  | None => vec_step H s f o = Err 1
  end.
Proof. exact vec_refines. Qed.
Print Assumptions C28_vec_refines_partial.

(* the same with the side conditions derived from the hypotheses on the hash, for a field given by name *)
Theorem C28_vec_refines_hash_partial : forall (H : list N -> N) (occ : list N -> Prop),
  (forall p q, occ p -> occ q -> H p = H q -> p = q) ->
  (forall p q, occ p -> occ q -> H p <> H q -> H p + CAP <= H q \/ H q + CAP <= H p) ->
  (forall p, occ p -> H p + CAP <= W256) ->
  forall (name : list N) (s : store) (o : vop),
  vec_occ H occ name ->
  let f := field_id H name in
  vec_inv H s f -> abs_len s f + 1 < LMAX -> vop_proved o ->
  match spec_vec (abs_vec H s f) o with
  | Some (l', out) =>
    exists s' mo, vec_step H s f o = Ok (s', mo) /\ abs_vec H s' f = l' /\ vec_inv H s' f
                  /\ abs_len s' f = len l' /\ (forall so, out = Some so -> mo = so) /\ outside H f s s'
  | None => vec_step H s f o = Err 1
  end.
Proof. exact vec_refines_hash. Qed.
Print Assumptions C28_vec_refines_hash_partial.

(* StorageMap<K, one-word V> refines the function model on the occurring keys *)
Theorem C28_map_refines_u64_partial : forall (H : list N -> N) (occ : list N -> Prop),
  (forall p q, occ p -> occ q -> H p = H q -> p = q) ->
  (forall p q, occ p -> occ q -> H p <> H q -> H p + CAP <= H q \/ H q + CAP <= H p) ->
  (forall p, occ p -> H p + CAP <= W256) ->
  forall (f : N) (s : store) (o : mop),
  mop_u64 o -> occ (map_preimage (mop_key o) f) ->
  let '(m', out) := spec_map (abs_map H 1 false s f) o in
  exists s', map_step H 1 false s f o = Ok (s', out)
             /\ forall kb', occ (map_preimage kb' f) -> abs_map H 1 false s' f kb' = m' kb'.
Proof. exact map_u64_refines_hash. Qed.
Print Assumptions C28_map_refines_u64_partial.

(* every StorageMap operation, for any value type of w words, changes only the w slots of its own entry *)
Theorem C28_map_footprint : forall H w isref s f o s' out,
  mop_width_ok w o -> map_step H w isref s f o = Ok (s', out) ->
  forall j, ~ (map_slot H (mop_key o) f <= j < map_slot H (mop_key o) f + N.of_nat w) -> sget s' j = sget s j.
Proof. exact map_step_footprint. Qed.
Print Assumptions C28_map_footprint.

(* domain separation, from the constants regenerated from the source: a compiler-generated field key
   pre-image (domain byte 0) is never a StorageMap entry pre-image (domain byte 1) *)
Theorem C28_domain_separation : forall name kb f, field_preimage name <> map_preimage kb f.
Proof. exact domain_separation. Qed.
Print Assumptions C28_domain_separation.

(* frame: vector operation vs another vector field *)
Theorem C28_frame_vec_vec : forall (H : list N -> N) (occ : list N -> Prop),
  (forall p q, occ p -> occ q -> H p = H q -> p = q) ->
  (forall p q, occ p -> occ q -> H p <> H q -> H p + CAP <= H q \/ H q + CAP <= H p) ->
  (forall p, occ p -> H p + CAP <= W256) ->
  forall (name name2 : list N) (s s' : store),
  vec_occ H occ name -> vec_occ H occ name2 -> name <> name2 ->
  outside H (field_id H name) s s' ->
  abs_len s (field_id H name2) <= LMAX ->
  abs_len s' (field_id H name2) = abs_len s (field_id H name2)
  /\ abs_vec H s' (field_id H name2) = abs_vec H s (field_id H name2)
  /\ (vec_inv H s (field_id H name2) -> vec_inv H s' (field_id H name2)).
Proof. exact vec_frame_vec. Qed.
Print Assumptions C28_frame_vec_vec.

(* frame: vector operation vs any map entry *)
Theorem C28_frame_vec_map : forall (H : list N -> N) (occ : list N -> Prop),
  (forall p q, occ p -> occ q -> H p = H q -> p = q) ->
  (forall p q, occ p -> occ q -> H p <> H q -> H p + CAP <= H q \/ H q + CAP <= H p) ->
  (forall p, occ p -> H p + CAP <= W256) ->
  forall (name : list N) (s s' : store) (w : nat) (isref : bool) (g : N) (kb : list N),
  vec_occ H occ name -> occ (map_preimage kb g) -> N.of_nat w <= CAP ->
  outside H (field_id H name) s s' ->
  abs_map H w isref s' g kb = abs_map H w isref s g kb.
Proof. exact vec_frame_map. Qed.
Print Assumptions C28_frame_vec_map.

(* frame: map operation (any value type) vs any vector field *)
Theorem C28_frame_map_vec : forall (H : list N -> N) (occ : list N -> Prop),
  (forall p q, occ p -> occ q -> H p = H q -> p = q) ->
  (forall p q, occ p -> occ q -> H p <> H q -> H p + CAP <= H q \/ H q + CAP <= H p) ->
  (forall p, occ p -> H p + CAP <= W256) ->
  forall (name2 : list N) (w : nat) (isref : bool) (s : store) (f : N) (o : mop) (s' : store) (out : list N),
  vec_occ H occ name2 -> occ (map_preimage (mop_key o) f) -> N.of_nat w <= CAP -> mop_width_ok w o ->
  map_step H w isref s f o = Ok (s', out) ->
  abs_len s (field_id H name2) <= LMAX ->
  abs_len s' (field_id H name2) = abs_len s (field_id H name2)
  /\ abs_vec H s' (field_id H name2) = abs_vec H s (field_id H name2)
  /\ (vec_inv H s (field_id H name2) -> vec_inv H s' (field_id H name2)).
Proof. exact map_frame_vec. Qed.
Print Assumptions C28_frame_map_vec.

(* frame: map operation vs any other entry (other key of the same map, or any key of another map) *)
Theorem C28_frame_map_map : forall (H : list N -> N) (occ : list N -> Prop),
  (forall p q, occ p -> occ q -> H p = H q -> p = q) ->
  (forall p q, occ p -> occ q -> H p <> H q -> H p + CAP <= H q \/ H q + CAP <= H p) ->
  (forall p, occ p -> H p + CAP <= W256) ->
  forall (w : nat) (isref : bool) (s : store) (f : N) (o : mop) (s' : store) (out : list N)
         (w' : nat) (isref' : bool) (g : N) (kb' : list N),
  occ (map_preimage (mop_key o) f) -> occ (map_preimage kb' g) ->
  map_preimage (mop_key o) f <> map_preimage kb' g ->
  N.of_nat w <= CAP -> N.of_nat w' <= CAP -> mop_width_ok w o ->
  map_step H w isref s f o = Ok (s', out) ->
  abs_map H w' isref' s' g kb' = abs_map H w' isref' s g kb'.
Proof. exact map_frame_map. Qed.
Print Assumptions C28_frame_map_map.

(* ---------- values of w words at any word offset (incl. straddling slot boundaries) ---------- *)
(* write_quads of a w-word value at word offset `off`: exactly the words off .. off+w-1 of the region change,
   the nsl (off mod 4) w slots from slot + off/4 become set, no other slot changes *)
Theorem C28_write_quads_words : forall isref s slot off ws,
  let W := N.of_nat (length ws) in
  1 <= W -> (isref = true \/ W = 1) -> off + W < LMAX -> slot + off / 4 + nsl (off mod 4) W <= W256 ->
  exists s', write_quads isref s slot off ws = Ok s'
    /\ (forall i, wread s' slot i = if (off <=? i) && (i <? off + W) then nthN ws (i - off) else wread s slot i)
    /\ (forall j, slot + off / 4 <= j < slot + off / 4 + nsl (off mod 4) W -> sget s' j <> None)
    /\ (forall j, ~ (slot + off / 4 <= j < slot + off / 4 + nsl (off mod 4) W) -> sget s' j = sget s j).
Proof. exact write_quads_spec. Qed.
Print Assumptions C28_write_quads_words.

(* read_quads returns those w words, iff all slots of the range are set *)
Theorem C28_read_quads_words : forall w isref s slot off,
  let W := N.of_nat w in
  1 <= W -> (isref = true \/ W = 1) -> off + W < LMAX -> slot + off / 4 + nsl (off mod 4) W <= W256 ->
  exists b : bool, read_quads w isref s slot off = Ok (if b then Some (map (fun t => wread s slot (off + t)) (Nseq W)) else None)
    /\ (b = true <-> forall j, slot + off / 4 <= j < slot + off / 4 + nsl (off mod 4) W -> sget s j <> None).
Proof. exact read_quads_spec. Qed.
Print Assumptions C28_read_quads_words.

(* StorageVec<V>, V of w words (reference type or one word; flag `isref`): every method except
   store_vec / load_vec / iter refines the list model over word lists; elements straddle slot boundaries
   whenever w is not a multiple of 4.  vecw_step_g true = vecw_step (the OVecW operations of the runs). *)
Theorem C28_vecw_refines : forall (H : list N -> N) (f : N) (w : nat) (isref : bool) (EMAX : N),
  f < W256 -> hash_b256 H f + CAP <= W256 -> f < hash_b256 H f \/ hash_b256 H f + CAP <= f ->
  1 <= N.of_nat w -> isref = true \/ N.of_nat w = 1 -> N.of_nat w * (EMAX + 1) < LMAX ->
  forall (s : store) (o : wop),
  vecw_inv H w s f -> abs_len s f + 1 < EMAX -> wop_proved w EMAX o ->
  match spec_vecw (abs_vecw H w s f) o with
  | Some (l', out) =>
    exists s' mo, vecw_step_g H isref w s f o = Ok (s', mo) /\ abs_vecw H w s' f = l' /\ vecw_inv H w s' f
                  /\ abs_len s' f = lenG (list N) l' /\ (forall so, out = Some so -> mo = so) /\ outsideW H f s s'
  | None => vecw_step_g H isref w s f o = Err 1
  end.
Proof. exact vecw_refines. Qed.
Print Assumptions C28_vecw_refines.

Theorem C28_vecw_refines_hash : forall (H : list N -> N) (occ : list N -> Prop),
  (forall p q, occ p -> occ q -> H p = H q -> p = q) ->
  (forall p q, occ p -> occ q -> H p <> H q -> H p + CAP <= H q \/ H q + CAP <= H p) ->
  (forall p, occ p -> H p + CAP <= W256) ->
  forall name w EMAX s o,
  vec_occ H occ name -> 1 <= N.of_nat w -> N.of_nat w * (EMAX + 1) < LMAX ->
  let f := field_id H name in
  vecw_inv H w s f -> abs_len s f + 1 < EMAX -> wop_proved w EMAX o ->
  match spec_vecw (abs_vecw H w s f) o with
  | Some (l', out) =>
    exists s' mo, vecw_step H w s f o = Ok (s', mo) /\ abs_vecw H w s' f = l' /\ vecw_inv H w s' f
                  /\ abs_len s' f = lenG (list N) l' /\ (forall so, out = Some so -> mo = so) /\ outside H f s s'
  | None => vecw_step H w s f o = Err 1
  end.
Proof. exact vecw_refines_hash. Qed.
Print Assumptions C28_vecw_refines_hash.

(* StorageMap<K, V>, V of w words (any number of slots): refinement of the function model on the occurring keys *)
Theorem C28_map_refines : forall (H : list N -> N) (occ : list N -> Prop),
  (forall p q, occ p -> occ q -> H p = H q -> p = q) ->
  (forall p q, occ p -> occ q -> H p <> H q -> H p + CAP <= H q \/ H q + CAP <= H p) ->
  (forall p, occ p -> H p + CAP <= W256) ->
  forall f w isref s o,
  1 <= N.of_nat w -> N.of_nat w <= CAP -> isref = true \/ N.of_nat w = 1 ->
  mop_width_ok w o -> occ (map_preimage (mop_key o) f) ->
  let '(m', out) := spec_map (abs_map H w isref s f) o in
  exists s', map_step H w isref s f o = Ok (s', out)
             /\ forall kb', occ (map_preimage kb' f) -> abs_map H w isref s' f kb' = m' kb'.
Proof. exact map_w_refines_hash. Qed.
Print Assumptions C28_map_refines.

(* frame: whatever is confined to field `name` (vec_refines / vecw_refines / bytes footprints) leaves a
   vector of w-word elements at another field unchanged *)
Theorem C28_frame_vecw : forall (H : list N -> N) (occ : list N -> Prop),
  (forall p q, occ p -> occ q -> H p = H q -> p = q) ->
  (forall p q, occ p -> occ q -> H p <> H q -> H p + CAP <= H q \/ H q + CAP <= H p) ->
  (forall p, occ p -> H p + CAP <= W256) ->
  forall name name2 w s s',
  vec_occ H occ name -> vec_occ H occ name2 -> name <> name2 ->
  outside H (field_id H name) s s' ->
  N.of_nat w * abs_len s (field_id H name2) <= LMAX ->
  abs_len s' (field_id H name2) = abs_len s (field_id H name2)
  /\ abs_vecw H w s' (field_id H name2) = abs_vecw H w s (field_id H name2)
  /\ (vecw_inv H w s (field_id H name2) -> vecw_inv H w s' (field_id H name2)).
Proof. exact frame_vecw. Qed.
Print Assumptions C28_frame_vecw.

(* ---------- StorageBytes / StorageString ---------- *)
(* write_slice / read_slice / len / StorableSlice::clear (BClear) / StorageKey::clear (BClearKey) refine the
   byte-string model (empty content reads as None); bytes written must be < 256 and fewer than LMAX *)
Theorem C28_bytes_refines : forall (H : list N -> N) (f : N),
  f < W256 -> hash_b256 H f + CAP <= W256 -> f < hash_b256 H f \/ hash_b256 H f + CAP <= f ->
  forall s o, abs_len s f < LMAX -> bop_ok o ->
  let '(b', out) := spec_bytes (abs_bytes H s f) o in
  exists s' mo, bytes_step H s f o = Ok (s', mo) /\ abs_bytes H s' f = b' /\ abs_len s' f < LMAX
                /\ (forall so, out = Some so -> mo = so) /\ outside H f s s'.
Proof. exact bytes_refines. Qed.
Print Assumptions C28_bytes_refines.

Theorem C28_bytes_refines_hash : forall (H : list N -> N) (occ : list N -> Prop),
  (forall p q, occ p -> occ q -> H p = H q -> p = q) ->
  (forall p q, occ p -> occ q -> H p <> H q -> H p + CAP <= H q \/ H q + CAP <= H p) ->
  (forall p, occ p -> H p + CAP <= W256) ->
  forall name s o,
  vec_occ H occ name ->
  let f := field_id H name in
  abs_len s f < LMAX -> bop_ok o ->
  let '(b', out) := spec_bytes (abs_bytes H s f) o in
  exists s' mo, bytes_step H s f o = Ok (s', mo) /\ abs_bytes H s' f = b' /\ abs_len s' f < LMAX
                /\ (forall so, out = Some so -> mo = so) /\ outside H f s s'.
Proof. exact bytes_refines_hash. Qed.
Print Assumptions C28_bytes_refines_hash.

(* frame: whatever is confined to field `name` (a vector or bytes/string operation: their `outside`
   footprints; C28_frame_vec_vec / C28_frame_vec_map / C28_frame_vecw take the same premise) leaves the
   byte string of another field unchanged *)
Theorem C28_frame_bytes : forall (H : list N -> N) (occ : list N -> Prop),
  (forall p q, occ p -> occ q -> H p = H q -> p = q) ->
  (forall p q, occ p -> occ q -> H p <> H q -> H p + CAP <= H q \/ H q + CAP <= H p) ->
  (forall p, occ p -> H p + CAP <= W256) ->
  forall name name2 s s',
  vec_occ H occ name -> vec_occ H occ name2 -> name <> name2 ->
  outside H (field_id H name) s s' ->
  abs_len s (field_id H name2) < LMAX ->
  abs_len s' (field_id H name2) = abs_len s (field_id H name2)
  /\ abs_bytes H s' (field_id H name2) = abs_bytes H s (field_id H name2).
Proof. exact frame_bytes. Qed.
Print Assumptions C28_frame_bytes.

(* frame: a map operation (any value type) leaves every bytes / string field unchanged *)
Theorem C28_frame_map_bytes : forall (H : list N -> N) (occ : list N -> Prop),
  (forall p q, occ p -> occ q -> H p = H q -> p = q) ->
  (forall p q, occ p -> occ q -> H p <> H q -> H p + CAP <= H q \/ H q + CAP <= H p) ->
  (forall p, occ p -> H p + CAP <= W256) ->
  forall name2 w isref s f o s' out,
  vec_occ H occ name2 -> occ (map_preimage (mop_key o) f) -> N.of_nat w <= CAP -> mop_width_ok w o ->
  map_step H w isref s f o = Ok (s', out) ->
  abs_len s (field_id H name2) < LMAX ->
  abs_len s' (field_id H name2) = abs_len s (field_id H name2)
  /\ abs_bytes H s' (field_id H name2) = abs_bytes H s (field_id H name2).
Proof. exact map_frame_bytes. Qed.
Print Assumptions C28_frame_map_bytes.

(* Non-vacuity.  A toy hash that places the pre-image [b0; ...] at (b0 + 2) * 2^200: hypotheses of
   C28_vec_refines_partial hold for field 5, and a concrete history behaves as stated. *)
Definition toyH (p : list N) : N := (hd 0 p + 2) * 2 ^ 200.
Example C28_example_hyps :
  5 < W256 /\ hash_b256 toyH 5 + CAP <= W256 /\ (5 < hash_b256 toyH 5 \/ hash_b256 toyH 5 + CAP <= 5).
Proof. split; [reflexivity|]. split; [vm_compute; discriminate|]. left. reflexivity. Qed.
Definition run_vec (ops : list vop) : outcome (store * list (list N)) :=
  fold_left (fun acc o => match acc with
                          | Ok (s, outs) => match vec_step toyH s 5 o with Ok (s', out) => Ok (s', outs ++ [out]) | Err c => Err c | Panic c => Panic c | OutOfFuel => OutOfFuel end
                          | e => e end) ops (Ok ([], [])).
Example C28_example_history :
  match run_vec [VPush 1; VPush 2; VPush 3; VPush 4; VPush 5; VInsert 1 9; VRemove 0; VSwapRemove 1; VReverse; VLoad; VGet 4; VPop] with
  | Ok (s, outs) => outs = [[]; []; []; []; []; []; [1]; [2]; []; [4; 3; 5; 9]; [0]; [1; 9]] /\ abs_vec toyH s 5 = [4; 3; 5]
  | _ => False
  end.
Proof. vm_compute. split; reflexivity. Qed.
Example C28_example_revert : vec_step toyH [] 5 (VSet 0 1) = Err 1.
Proof. vm_compute. reflexivity. Qed.
(* a map entry of a 5-word struct occupies two slots; remove reports whether both were set *)
Example C28_example_map :
  match map_step toyH 5 true [] 7 (MInsert [0;0;0;0;0;0;0;1] [1;2;3;4;5]) with
  | Ok (s, _) => map_step toyH 5 true s 7 (MGet [0;0;0;0;0;0;0;1]) = Ok (s, [1;1;2;3;4;5]) /\ length s = 2%nat
  | _ => False
  end.
Proof. vm_compute. split; reflexivity. Qed.
(* a vector of 3-word structs: elements 1 and 2 straddle slot boundaries *)
Example C28_example_vecw :
  match fold_left (fun acc o => match acc with Ok (s, _) => vecw_step toyH 3 s 5 o | e => e end)
          [WPush [1;2;3]; WPush [4;5;6]; WPush [7;8;9]; WSet 1 [40;50;60]; WRemove 0] (Ok ([], [])) with
  | Ok (s, out) => out = [1;2;3] /\ abs_vecw toyH 3 s 5 = [[40;50;60]; [7;8;9]]
                   /\ vecw_step toyH 3 s 5 (WGet 1) = Ok (s, [1;7;8;9])
  | _ => False
  end.
Proof. vm_compute. repeat split; reflexivity. Qed.
(* 33 bytes occupy two content slots; both clear resolutions give the empty string, only StorableSlice::clear
   unsets the content slots *)
Example C28_example_bytes :
  let bs := map N.of_nat (seq 1 33) in
  match bytes_step toyH [] 5 (BWrite bs) with
  | Ok (s, _) => abs_bytes toyH s 5 = bs /\ length s = 3%nat
      /\ match bytes_step toyH s 5 BClearKey with Ok (s1, o1) => abs_bytes toyH s1 5 = [] /\ length s1 = 2%nat /\ o1 = [1] | _ => False end
      /\ match bytes_step toyH s 5 BClear with Ok (s2, o2) => abs_bytes toyH s2 5 = [] /\ length s2 = 0%nat /\ o2 = [1] | _ => False end
  | _ => False
  end.
Proof. vm_compute. repeat split; reflexivity. Qed.
