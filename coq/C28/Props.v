(* C28 — property theorems only. *)
From SwayV Require Import Base.Util Generated.C28Facts C28.Model C28.Step C28.Spec C28.Proofs.
Open Scope N_scope.
Theorem C28_layout_constants : c28_sc_words = 4 /\ c28_slot_bytes = 32 /\ c28_sc_word_bytes = 8.
Proof. exact facts_shape. Qed.
Print Assumptions C28_layout_constants.
