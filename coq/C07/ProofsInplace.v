(* C07 — the two in-place passes. *)
From Coq Require Import MSets.MSetPositive FSets.FMapPositive.
From SwayV Require Import Base.Util Asm.Model Asm.Erase Asm.Inplace C08.Spec C08.Model C08.Sim C08.Check
  C07.Model C07.Spec C07.Proofs.
Local Open Scope N_scope.

Lemma live_gen_used kill l i r : live_gen kill l i r -> exists k o, nth_error l k = Some o /\ In r (uses o).
Proof.
  induction 1 as [i o r Hn Hu | i o j r Hn Hj Hl IH Hd].
  - exists i, o. split; assumption.
  - exact IH.
Qed.

Lemma fold_add_mono us : forall s k, PS.In k s -> PS.In k (fold_left (fun s r => PS.add (rkey r) s) us s).
Proof.
  induction us as [|u us IH]; intros s k H; cbn; [exact H|]. apply IH. apply PS.add_spec. right. exact H.
Qed.

Lemma fold_add_in us : forall s r, In r us -> PS.In (rkey r) (fold_left (fun s r => PS.add (rkey r) s) us s).
Proof.
  induction us as [|u us IH]; intros s r H; cbn; [destruct H|].
  destruct H as [->|H]; [|apply IH; exact H]. apply fold_add_mono. apply PS.add_spec. left. reflexivity.
Qed.

Lemma all_uses_in ops o r : In o ops -> In r (uses o) -> PS.In (rkey r) (all_uses ops).
Proof.
  unfold all_uses. generalize PS.empty. induction ops as [|x t IH]; intros s Ho Hr; [destruct Ho|]. cbn.
  destruct Ho as [->|Ho].
  - assert (X : PS.In (rkey r) (fold_left (fun s r => PS.add (rkey r) s) (uses o) s)) by (apply fold_add_in; exact Hr).
    revert X. generalize (fold_left (fun s r => PS.add (rkey r) s) (uses o) s). clear.
    induction t as [|y t IH]; intros s X; cbn; [exact X|]. apply IH. apply fold_add_mono. exact X.
  - apply IH; assumption.
Qed.

Section Once.
  Variable ops : list op.
  Let us := all_uses ops.
  Let f := fun o => if dead_move us o then NOOP_OP else o.
  Let ops' := map f ops.
  Hypothesis Htab : moves_table_ok ops = true.

  Let K (r : reg) : Prop := is_virt r = true /\ PS.mem (rkey r) us = false.

  Lemma once_wf : wf_c ops.
  Proof.
    unfold moves_table_ok in Htab. apply andb_true_iff in Htab. destruct Htab as [Hw _].
    rewrite forallb_forall in Hw. intros i o Hn. apply wf_c_opb_sound. apply Hw. eapply nth_error_In; eassumption.
  Qed.

  Lemma once_label l : label_index ops' l = label_index ops l.
  Proof.
    unfold label_index, ops'. apply find_index_map. intros x. unfold f.
    destruct (dead_move us x) eqn:E; [|reflexivity].
    unfold dead_move in E. unfold is_label. destruct (kind x); try discriminate. reflexivity.
  Qed.

  Lemma once_unused d : PS.mem (rkey d) us = false -> forall i, ~ live_in_c ops' i d.
  Proof.
    intros Hm i Hl. destruct (live_gen_used _ _ _ _ Hl) as (k & o' & Hk & Hu).
    unfold ops' in Hk. rewrite nth_error_map in Hk. destruct (nth_error ops k) as [o0|] eqn:Hn0; [|discriminate].
    cbn in Hk. injection Hk as <-. unfold f in Hu. destruct (dead_move us o0); [destruct Hu|].
    assert (X : PS.In (rkey d) us) by (eapply all_uses_in; [eapply nth_error_In; exact Hn0 | exact Hu]).
    apply PS.mem_spec in X. congruence.
  Qed.

  Lemma once_pos : forall i o, nth_error ops i = Some o -> same_or_noop ops ops' K i o.
  Proof.
    intros i o Hn. unfold same_or_noop.
    assert (Hn' : nth_error ops' i = Some (f o)) by (apply map_nth_error; exact Hn).
    unfold f in Hn'. destruct (dead_move us o) eqn:E; [|left; exact Hn'].
    right. exists NOOP_OP. split; [exact Hn'|]. split; [reflexivity|]. split; [reflexivity|]. left.
    unfold dead_move in E. destruct (kind o) as [d s| | | | | | | |] eqn:Hk; try discriminate.
    apply andb_true_iff in E. destruct E as [Hv Hm]. apply negb_true_iff in Hm.
    exists d, s. split; [reflexivity|]. split.
    - unfold moves_table_ok in Htab. apply andb_true_iff in Htab. destruct Htab as [_ Hc].
      rewrite forallb_forall in Hc. specialize (Hc o (nth_error_In _ _ Hn)). rewrite Hk in Hc.
      apply list_eqb_N in Hc. rewrite Hc. reflexivity.
    - split; [split; assumption|]. apply once_unused. exact Hm.
  Qed.

  Theorem once_equiv : lock_equiv ops ops'.
  Proof.
    intros M sem cs Hrv. exists (Ri M ops' K). split.
    - apply inplace_lock_sim with (ops := ops).
      + exact once_wf.
      + exact Hrv.
      + intros c Hc [Hv _]. apply call_in_regs_const in Hc. apply const_not_virt in Hc. congruence.
      + intros c [Hv _] Hc. apply const_not_virt in Hc. congruence.
      + exact once_label.
      + exact once_pos.
      + intros i Hn. unfold ops'. rewrite nth_error_map, Hn. reflexivity.
    - intros st _. apply Ri_refl.
  Qed.

  Lemma once_table : moves_table_ok ops' = true.
  Proof.
    unfold moves_table_ok in *. apply andb_true_iff in Htab. destruct Htab as [Hw Hc].
    rewrite forallb_forall in Hw, Hc. apply andb_true_iff. split; apply forallb_forall; intros x Hx;
      unfold ops' in Hx; apply in_map_iff in Hx; destruct Hx as (o & <- & Ho); unfold f;
      destruct (dead_move us o); try reflexivity; [apply Hw | apply Hc]; exact Ho.
  Qed.
End Once.

Theorem remove_redundant_moves_loop_equiv : forall fuel ops out, moves_table_ok ops = true ->
  rm_moves_loop fuel ops = Some out -> lock_equiv ops out.
Proof.
  induction fuel as [|fuel IH]; intros ops out Ht H; [discriminate|].
  cbn [rm_moves_loop] in H. unfold rm_moves_once in H.
  destruct (existsb (dead_move (all_uses ops)) ops).
  - eapply lock_equiv_trans; [apply once_equiv; exact Ht|]. apply IH; [apply once_table; exact Ht | exact H].
  - injection H as <-. apply lock_equiv_refl.
Qed.

Theorem remove_redundant_moves_preserves ops out : moves_table_ok ops = true ->
  remove_redundant_moves ops = Some out -> lock_equiv ops out.
Proof. unfold remove_redundant_moves. apply remove_redundant_moves_loop_equiv. Qed.

(* ---- remove_sequential_jumps ---- *)
Definition rsj_at (a : op) (nxt : option op) : op :=
  match nxt with Some b => if jump_to_next a b then NOOP_OP else a | None => a end.

Lemma rsj_nth : forall ops i,
  nth_error (remove_sequential_jumps ops) i =
  option_map (fun a => rsj_at a (nth_error ops (S i))) (nth_error ops i).
Proof.
  induction ops as [|a t IH]; intros i; [destruct i; reflexivity|].
  cbn [remove_sequential_jumps]. destruct t as [|b t'].
  - destruct i as [|i]; [reflexivity|]. destruct i; reflexivity.
  - destruct i as [|i]; [reflexivity|]. cbn [nth_error]. rewrite IH. reflexivity.
Qed.

Lemma find_index_pointwise {A} (p : A -> bool) : forall l1 l2,
  (forall i, option_map p (nth_error l1 i) = option_map p (nth_error l2 i)) ->
  find_index p l1 = find_index p l2.
Proof.
  induction l1 as [|x l1 IH]; intros l2 H.
  - destruct l2 as [|y l2]; [reflexivity|]. specialize (H 0%nat). discriminate.
  - destruct l2 as [|y l2]; [specialize (H 0%nat); discriminate|].
    pose proof (H 0%nat) as H0. cbn in H0. injection H0 as H0. cbn [find_index]. rewrite H0.
    destruct (p y); [reflexivity|]. rewrite (IH l2); [reflexivity|]. intros i. exact (H (S i)).
Qed.

Lemma rsj_label ops l : label_index (remove_sequential_jumps ops) l = label_index ops l.
Proof.
  unfold label_index. apply find_index_pointwise. intros i. rewrite rsj_nth.
  destruct (nth_error ops i) as [a|]; [|reflexivity]. cbn [option_map]. f_equal. unfold rsj_at.
  destruct (nth_error ops (S i)) as [b|]; [|reflexivity].
  destruct (jump_to_next a b) eqn:E; [|reflexivity].
  unfold jump_to_next in E. unfold is_label. destruct (kind a); try discriminate; reflexivity.
Qed.

Lemma memb_labels l ops j b : nth_error ops j = Some b -> kind b = KLabel l -> memb l (labels_of ops) = true.
Proof.
  intros Hn Hk. apply In_memb. unfold labels_of. apply in_flat_map. exists b. split; [eapply nth_error_In; exact Hn|].
  rewrite Hk. left. reflexivity.
Qed.

Lemma unique_label_index : forall ops j b l, nodup_b (labels_of ops) = true ->
  nth_error ops j = Some b -> kind b = KLabel l -> label_index ops l = Some j.
Proof.
  unfold label_index. induction ops as [|x t IH]; intros j b l Hnd Hn Hk; [destruct j; discriminate|].
  cbn [find_index]. destruct j as [|j]; cbn in Hn.
  - injection Hn as ->. unfold is_label. rewrite Hk, N.eqb_refl. reflexivity.
  - assert (Hx : is_label l x = false).
    { unfold is_label. destruct (kind x) as [| |l'| | | | | |] eqn:Hkx; try reflexivity.
      destruct (N.eqb_spec l' l) as [->|]; [|reflexivity]. exfalso.
      unfold labels_of in Hnd. cbn [flat_map] in Hnd. rewrite Hkx in Hnd. cbn [app nodup_b] in Hnd.
      apply andb_true_iff in Hnd. destruct Hnd as [Hnd _]. apply negb_true_iff in Hnd.
      fold (labels_of t) in Hnd. rewrite (memb_labels l t j b Hn Hk) in Hnd. discriminate. }
    rewrite Hx. rewrite (IH j b l); [reflexivity| |exact Hn|exact Hk].
    unfold labels_of in *. cbn [flat_map] in Hnd. destruct (kind x); try exact Hnd.
    cbn [app nodup_b] in Hnd. apply andb_true_iff in Hnd. tauto.
Qed.

Theorem remove_sequential_jumps_preserves_partial ops :
  forallb wf_c_opb ops = true -> nodup_b (labels_of ops) = true -> seqj_flags_dead ops ->
  lock_equiv ops (remove_sequential_jumps ops).
Proof.
  intros Hw Hnd Hdead M sem cs Hrv. exists (Ri M (remove_sequential_jumps ops) flagK). split.
  - apply inplace_lock_sim with (ops := ops).
    + rewrite forallb_forall in Hw. intros i o Hn. apply wf_c_opb_sound. apply Hw. eapply nth_error_In; eassumption.
    + exact Hrv.
    + exact flagK_not_call_in.
    + intros c Hc _. exact Hc.
    + apply rsj_label.
    + intros i a Hn. unfold same_or_noop. rewrite rsj_nth, Hn. cbn [option_map]. unfold rsj_at.
      destruct (nth_error ops (S i)) as [b|] eqn:Hnb; [|left; reflexivity].
      destruct (jump_to_next a b) eqn:E; [|left; reflexivity].
      right. exists NOOP_OP. split; [reflexivity|]. split; [reflexivity|]. split; [reflexivity|]. right. split.
      * unfold jump_to_next in E.
        destruct (kind a) as [| | |l|l c| | | |] eqn:Hka; try discriminate;
          destruct (kind b) as [| |l'| | | | | |] eqn:Hkb; try discriminate;
          apply N.eqb_eq in E; subst l'; exists l; (split; [|eapply unique_label_index; eassumption]).
        -- left. reflexivity.
        -- right. exists c. reflexivity.
      * intros c Hc. split.
        -- destruct Hc as [<-|[<-|[]]]; [left|right]; reflexivity.
        -- eapply Hdead; eassumption.
    + intros i Hn. rewrite rsj_nth, Hn. reflexivity.
  - intros st _. apply Ri_refl.
Qed.

(* the per-run boolean implies the hypotheses of the partial theorem *)
Lemma seqj_walk_sound Lc' : forall l b0, seqj_walk Lc' b0 l = true ->
  forall k a b, nth_error l k = Some a -> nth_error l (S k) = Some b -> jump_to_next a b = true ->
    flags_not_in Lc' (S (b0 + k)) = true.
Proof.
  induction l as [|x t IH]; intros b0 H k a b Ha Hb Hj; [destruct k; discriminate|].
  cbn [seqj_walk] in H. destruct t as [|y t']; [destruct k; cbn in Hb; [discriminate|destruct k; discriminate]|].
  apply andb_true_iff in H. destruct H as [H1 H2].
  destruct k as [|k]; cbn in Ha, Hb.
  - injection Ha as <-. injection Hb as <-. rewrite Hj in H1. cbn in H1. rewrite Nat.add_0_r. exact H1.
  - rewrite <- Nat.add_succ_comm. eapply IH; eassumption.
Qed.

Theorem seqj_side_ok_sound ops : seqj_side_ok ops = true -> lock_equiv ops (remove_sequential_jumps ops).
Proof.
  unfold seqj_side_ok. destruct (liveness defs_c FUEL (remove_sequential_jumps ops)) as [Lc'|]; [|discriminate].
  unfold seqj_side_with. intros H.
  apply andb_true_iff in H. destruct H as [Hp H]. apply andb_true_iff in H. destruct H as [Hw H].
  apply andb_true_iff in H. destruct H as [Hnd Hwalk].
  apply remove_sequential_jumps_preserves_partial; [exact Hw | exact Hnd |].
  intros i a b Ha Hb Hj c Hc Hlive.
  pose proof (seqj_walk_sound Lc' ops 0%nat Hwalk i a b Ha Hb Hj) as Hf. cbn [Nat.add] in Hf.
  pose proof (postfix_sound _ _ _ Hp _ _ Hlive) as Hin. apply PS.mem_spec in Hin.
  unfold flags_not_in in Hf. apply andb_true_iff in Hf. destruct Hf as [F1 F2].
  apply negb_true_iff in F1, F2. destruct Hc as [<-|[<-|[]]]; congruence.
Qed.
