(* C07 — proofs: soundness of the deletion side condition, the passes as deletions, the round driver. *)
From Coq Require Import MSets.MSetPositive FSets.FMapPositive.
From SwayV Require Import Base.Util Asm.Model Asm.Erase Asm.Delete C08.Spec C08.Model C08.Check C07.Model C07.Spec.
Local Open Scope N_scope.

Lemma rro_aux_select all : forall l i, rro_aux all i l = select (rro_keep_aux all i l) l.
Proof.
  induction l as [|o t IH]; intros i; [reflexivity|].
  cbn [rro_aux rro_keep_aux select]. destruct (rro_drop all i o); cbn [negb]; rewrite IH; reflexivity.
Qed.

Lemma remove_redundant_ops_select : forall ops, remove_redundant_ops ops = select (redundant_keep ops) ops.
Proof. intros ops. apply rro_aux_select. Qed.

Lemma In_memb r l : In r l -> memb r l = true.
Proof. intros H. unfold memb. apply existsb_exists. exists r. split; [exact H | apply N.eqb_refl]. Qed.

Lemma del_walk_sound Lc' inv : forall keep items k, del_walk Lc' inv keep items k = true ->
  length keep = length items /\
  forall i j o ss, nth_error keep i = Some false -> nth_error items i = Some (j, o, ss) -> inv j = true ->
    drop_cond Lc' o (k + pos keep i) = true.
Proof.
  induction keep as [|kp ks IH]; intros [|[[j0 o0] ss0] t] k H; cbn in H; try discriminate.
  - split; [reflexivity|]. intros i j o ss Hk. destruct i; discriminate.
  - apply andb_true_iff in H. destruct H as [H1 H2]. destruct (IH _ _ H2) as [Hl Hd].
    split; [cbn; rewrite Hl; reflexivity|].
    intros i j o ss Hk Hn Hi. destruct i as [|i]; cbn in Hk, Hn.
    + injection Hk as ->. injection Hn as -> -> ->. rewrite Hi in H1. cbn [pos]. rewrite Nat.add_0_r. exact H1.
    + pose proof (Hd i j o ss Hk Hn Hi) as X. cbn [pos]. destruct kp.
      * replace (k + (1 + pos ks i))%nat with (S k + pos ks i)%nat by lia. exact X.
      * replace (k + (0 + pos ks i))%nat with (k + pos ks i)%nat by lia. exact X.
Qed.

Theorem delete_ok_with_sound Lc' inv ops keep : delete_ok_with Lc' inv ops keep = true ->
  length keep = length ops /\ wf_c ops /\
  (forall c, In c call_in_regs -> ~ K_of inv ops keep c) /\
  (forall i j, Inv_of inv (length ops) i -> In j (succs ops i) -> Inv_of inv (length ops) j) /\
  (forall i o, nth_error keep i = Some false -> nth_error ops i = Some o -> Inv_of inv (length ops) i ->
     pure_kind o = true /\
     forall r, In r (defs_c o) -> K_of inv ops keep r /\ ~ live_in_c (select keep ops) (pos keep i) r).
Proof.
  unfold delete_ok_with. intros H.
  apply andb_true_iff in H. destruct H as [Hp H]. apply andb_true_iff in H. destruct H as [Hw H].
  apply andb_true_iff in H. destruct H as [Hc Hd].
  destruct (del_walk_sound _ _ _ _ _ Hd) as [Hl Hdrop].
  assert (Hlen : length keep = length ops) by (rewrite Hl; unfold items_of; apply items_aux_length).
  assert (Hitem : forall i o, nth_error ops i = Some o -> nth_error (items_of ops) i = Some (i, o, succs ops i)).
  { intros i o Hn. unfold items_of. rewrite items_aux_nth, Hn. cbn. rewrite (succs_nth _ _ _ Hn). reflexivity. }
  assert (Hcond : forall i o, nth_error keep i = Some false -> nth_error ops i = Some o -> inv i = true ->
            drop_cond Lc' o (pos keep i) = true).
  { intros i o Hk Hn Hi. exact (Hdrop i i o _ Hk (Hitem i o Hn) Hi). }
  split; [exact Hlen|]. split.
  { intros i o Hn. apply wf_c_opb_sound. rewrite forallb_forall in Hw. apply Hw. eapply nth_error_In; eassumption. }
  split.
  { intros c Hin (i & o & Hk & Hn & Hi & Hr).
    pose proof (Hcond i o Hk Hn Hi) as X. unfold drop_cond in X. apply andb_true_iff in X. destruct X as [_ X].
    rewrite forallb_forall in X. specialize (X c Hr). apply andb_true_iff in X. destruct X as [X _].
    apply negb_true_iff in X. rewrite (In_memb _ _ Hin) in X. discriminate. }
  split.
  { intros i j [Hi|Hi] Hj.
    - destruct (nth_error ops i) as [o|] eqn:Hn.
      + unfold inv_closed in Hc. rewrite forallb_forall in Hc.
        pose proof (Hc _ (nth_error_In _ _ (Hitem i o Hn))) as X. cbn in X. rewrite Hi in X. cbn in X.
        rewrite forallb_forall in X. specialize (X j Hj). apply orb_true_iff in X. destruct X as [X|X].
        * right. apply Nat.leb_le. exact X.
        * left. exact X.
      + unfold succs in Hj. rewrite Hn in Hj. destruct Hj.
    - assert (Hn : nth_error ops i = None) by (apply nth_error_None; exact Hi).
      unfold succs in Hj. rewrite Hn in Hj. destruct Hj. }
  intros i o Hk Hn [Hi|Hi].
  2:{ exfalso. assert (i < length ops)%nat by (apply nth_error_Some; rewrite Hn; discriminate). lia. }
  pose proof (Hcond i o Hk Hn Hi) as X. unfold drop_cond in X. apply andb_true_iff in X. destruct X as [Xp X].
  split; [exact Xp|]. rewrite forallb_forall in X. intros r Hr. split.
  - exists i, o. repeat split; assumption.
  - intros Hlive. specialize (X r Hr). apply andb_true_iff in X. destruct X as [_ X]. apply negb_true_iff in X.
    pose proof (postfix_sound _ _ _ Hp _ _ Hlive) as Y. apply PS.mem_spec in Y. congruence.
Qed.

Theorem delete_preserves inv ops keep : delete_ok inv ops keep = true ->
  deletion_sim ops keep (K_of inv ops keep) (Inv_of inv (length ops)).
Proof.
  unfold delete_ok. destruct (liveness defs_c FUEL (select keep ops)) as [Lc'|]; [|discriminate].
  intros H. destruct (delete_ok_with_sound _ _ _ _ H) as (Hlen & Hwf & HK & Hinv & Hdrop).
  intros M sem cs Hrv Hpure st st' HR. split; intros k.
  - eapply delete_fwd; eauto.
  - eapply delete_bwd; eauto.
Qed.

(* identical initial states at pc 0 are related *)
Lemma Rd_initial M ops keep K (Inv : nat -> Prop) (st : state M) :
  pc st = 0%nat -> Inv 0%nat -> Rd M ops keep K Inv st st.
Proof.
  intros Hpc Hi. unfold Rd. rewrite Hpc. split; [exact Hi|]. split; [destruct keep; reflexivity|].
  split; [reflexivity|]. intros r _. reflexivity.
Qed.

(* ---- round driver ---- *)
Lemma iter_shift {A} (g : A -> A) : forall k x, Nat.iter k g (g x) = g (Nat.iter k g x).
Proof. induction k as [|k IH]; intros x; simpl; [reflexivity|]. rewrite IH. reflexivity. Qed.

Theorem opt_rounds_iterate f : forall n ops, exists k, (k <= n)%nat /\
  opt_rounds f n ops = Nat.iter k (fun x => f (f x)) ops.
Proof.
  induction n as [|n IH]; intros ops; [exists 0%nat; split; [lia|reflexivity]|].
  cbn [opt_rounds]. destruct (Nat.compare (length (f (f ops))) (length ops)).
  - exists 1%nat. split; [lia|reflexivity].
  - destruct (IH (f (f ops))) as (k & Hk & E). exists (S k). split; [lia|].
    rewrite E. simpl. exact (iter_shift (fun x => f (f x)) k ops).
  - exists 0%nat. split; [lia|reflexivity].
Qed.

Theorem opt_rounds_sound (P : list op -> list op -> Prop) f :
  (forall x, P x x) -> (forall x y z, P x y -> P y z -> P x z) -> (forall x, P x (f x)) ->
  forall n ops, P ops (opt_rounds f n ops).
Proof.
  intros Hr Ht Hf n ops. destruct (opt_rounds_iterate f n ops) as (k & _ & ->).
  induction k as [|k IH]; simpl; [apply Hr|].
  eapply Ht; [exact IH|]. eapply Ht; apply Hf.
Qed.

(* ---- remove_redundant_ops with the forward guard: unconditional ---- *)
Lemma memb_false_notin r l : memb r l = false -> ~ In r l.
Proof. intros H Hin. rewrite (In_memb _ _ Hin) in H. discriminate. Qed.

Lemma disjoint_b_sound a b : disjoint_b a b = true -> forall x, In x a -> ~ In x b.
Proof.
  unfold disjoint_b. rewrite forallb_forall. intros H x Hx. apply memb_false_notin.
  apply negb_true_iff. apply H. exact Hx.
Qed.

(* what the guard establishes: no pending register is live (kill = defs ++ cdefs) at i *)
Lemma flags_guard_dead ops : forall fuel P i,
  flags_guard fuel ops P i = true -> forall c, In c P -> ~ live_in_c ops i c.
Proof.
  induction fuel as [|f IH]; intros P i Hg c Hc Hlive.
  - destruct P; [destruct Hc | discriminate].
  - destruct P as [|p0 P0]; [destruct Hc|]. remember (p0 :: P0) as P eqn:HP.
    cbn [flags_guard] in Hg. rewrite HP in Hg. rewrite <- HP in Hg.
    destruct (nth_error ops i) as [n|] eqn:Hn.
    2:{ unfold live_in_c in Hlive. inversion Hlive; congruence. }
    destruct (disjoint_b P (uses n)) eqn:Hdis; cbn [negb] in Hg; [|discriminate].
    unfold live_in_c in Hlive. inversion Hlive as [i0 o0 r0 Hn0 Hu | i0 o0 j r0 Hn0 Hj Hl Hnk]; subst.
    + rewrite Hn in Hn0. injection Hn0 as <-. exact (disjoint_b_sound _ _ Hdis c Hc Hu).
    + rewrite Hn in Hn0. injection Hn0 as <-.
      set (P' := filter (fun r => negb (memb r (cdefs n ++ defs n))) (p0 :: P0)) in *.
      assert (Hc' : In c P').
      { apply filter_In. split; [exact Hc|]. apply negb_true_iff.
        destruct (memb c (cdefs n ++ defs n)) eqn:E; [|reflexivity]. exfalso. apply Hnk.
        apply memb_In in E. unfold defs_c. apply in_app_or in E. apply in_or_app. tauto. }
      unfold succs in Hj. rewrite Hn in Hj. unfold succs_of in Hj.
      assert (Hnext : forall k, flags_guard f ops P' k = true -> j = k -> False).
      { intros k Hg' ->. exact (IH P' k Hg' c Hc' Hl). }
      assert (Hnil : nil_b P' = true -> False) by (intros E; apply nil_b_nil in E; rewrite E in Hc'; destruct Hc').
      destruct (kind n) as [d s| |l|l|l c0|l| |r|opc args].
      * destruct Hj as [<-|[]]. exact (Hnext _ Hg eq_refl).
      * destruct Hj as [<-|[]]. exact (Hnext _ Hg eq_refl).
      * destruct Hj as [<-|[]]. exact (Hnext _ Hg eq_refl).
      * destruct (label_index ops l) as [t|]; [|destruct Hj]. destruct Hj as [<-|[]]. exact (Hnext _ Hg eq_refl).
      * exact (Hnil Hg).
      * exact (Hnil Hg).
      * destruct Hj.
      * exact (Hnil Hg).
      * destruct (N.eqb opc OPC_RVRT); [destruct Hj|]. destruct Hj as [<-|[]]. exact (Hnext _ Hg eq_refl).
Qed.

Lemma rro_keep_nth all : forall l b k,
  nth_error (rro_keep_aux all b l) k = option_map (fun o => negb (rro_drop all (b + k) o)) (nth_error l k).
Proof.
  induction l as [|o t IH]; intros b k; [destruct k; reflexivity|].
  destruct k as [|k]; cbn [rro_keep_aux nth_error option_map].
  - rewrite Nat.add_0_r. reflexivity.
  - rewrite IH. rewrite <- Nat.add_succ_comm. reflexivity.
Qed.

Lemma redundant_keep_nth ops i :
  nth_error (redundant_keep ops) i = option_map (fun o => negb (rro_drop ops i o)) (nth_error ops i).
Proof. unfold redundant_keep. rewrite rro_keep_nth. reflexivity. Qed.

Lemma redundant_keep_length ops : length (redundant_keep ops) = length ops.
Proof.
  unfold redundant_keep.
  assert (H : forall l b, length (rro_keep_aux ops b l) = length l).
  { induction l as [|o t IH]; intros b; cbn; [reflexivity|]. rewrite IH. reflexivity. }
  apply H.
Qed.

Theorem remove_redundant_ops_preserves ops : rro_table_ok ops = true ->
  forall (M : Type) sem call_sem, rvrt_stops M sem -> mcp_zero_skips M sem ops ->
  forall st st', R M ops (redundant_keep ops) flagK st st' ->
  (forall n, exists m, (m <= n)%nat /\
     Rres M ops (redundant_keep ops) flagK (run M sem call_sem ops n st)
                                           (run M sem call_sem (remove_redundant_ops ops) m st')) /\
  (forall m, exists n,
     Rres M ops (redundant_keep ops) flagK (run M sem call_sem ops n st)
                                           (run M sem call_sem (remove_redundant_ops ops) m st')).
Proof.
  intros Ht M sem cs Hrv Hmcp st st' HR.
  unfold rro_table_ok in Ht. apply andb_true_iff in Ht. destruct Ht as [Hw Htab].
  rewrite forallb_forall in Hw, Htab.
  assert (Hwf : wf_c ops).
  { intros i o Hn. apply wf_c_opb_sound. apply Hw. eapply nth_error_In; eassumption. }
  assert (Hdrop : forall i o, nth_error (redundant_keep ops) i = Some false -> nth_error ops i = Some o ->
            (droppable o = true \/ skip_like M sem o) /\
            forall c, In c (cdefs o) -> flagK c /\ ~ live_out_c ops i c).
  { intros i o Hk Hn. rewrite redundant_keep_nth, Hn in Hk. cbn in Hk. injection Hk as Hk.
    apply negb_false_iff in Hk. unfold rro_drop in Hk. apply andb_true_iff in Hk. destruct Hk as [Hred Hg].
    pose proof (Htab o (nth_error_In _ _ Hn)) as Hto. rewrite Hred in Hto. cbn in Hto.
    apply andb_true_iff in Hto. destruct Hto as [Hfl Hnd]. rewrite forallb_forall in Hfl.
    split.
    - pose proof Hred as Hred0. unfold redundant_op in Hred. unfold droppable.
      destruct (kind o) as [d s| |l|l|l c0|l| |r|opc args] eqn:Hkind; try discriminate; auto.
      right. exists opc, args. split; [exact Hkind|]. split; [apply nil_b_nil; exact Hnd|].
      exact (Hmcp o opc args (nth_error_In _ _ Hn) Hkind Hred0).
    - intros c Hc. split.
      + specialize (Hfl c Hc). unfold is_flag in Hfl. apply orb_true_iff in Hfl.
        destruct Hfl as [E|E]; apply N.eqb_eq in E; [left|right]; exact E.
      + intros (j & Hj & Hl).
        assert (Hdead : ~ live_in_c ops (S i) c).
        { exact (flags_guard_dead ops _ (cdefs o) (S i) Hg c Hc). }
        unfold succs in Hj. rewrite Hn in Hj. unfold succs_of in Hj. unfold redundant_op in Hred.
        destruct (kind o) as [d s| |l|l|l c0|l| |r|opc args]; try discriminate.
        * destruct Hj as [<-|[]]. exact (Hdead Hl).
        * destruct Hj as [<-|[]]. exact (Hdead Hl).
        * destruct (N.eqb opc OPC_RVRT); [destruct Hj|]. destruct Hj as [<-|[]]. exact (Hdead Hl). }
  rewrite remove_redundant_ops_select.
  split; intros k.
  - eapply erase_fwd; eauto using flagK_not_call_in, redundant_keep_length.
  - eapply erase_bwd; eauto using flagK_not_call_in, redundant_keep_length.
Qed.
