(* C07 — simplify_cfg: the worklist computes a set closed under successors that contains the
   entry; everything it deletes is outside, hence never executed. *)
From Coq Require Import MSets.MSetPositive FSets.FMapPositive.
From SwayV Require Import Base.Util Asm.Model Asm.Erase Asm.Delete C08.Spec C08.Model C08.Check
  C07.Model C07.Spec C07.Proofs.
Local Open Scope N_scope.

Lemma ikey_inj a b : ikey a = ikey b -> a = b.
Proof. unfold ikey. apply SuccNat2Pos.inj. Qed.

Definition inS (seen : PS.t) (i : nat) : Prop := PS.In (ikey i) seen.

Definition closed_upto (ops : list op) (n : nat) (work : list nat) (seen : PS.t) : Prop :=
  forall i, inS seen i -> forall j, In j (succs ops i) -> (j < n)%nat -> inS seen j \/ In j work.

Lemma reach_closed ops n : forall fuel work seen res, closed_upto ops n work seen ->
  reach fuel ops n work seen = Some res ->
  closed_upto ops n [] res /\ (forall i, inS seen i -> inS res i) /\ (forall i, In i work -> inS res i).
Proof.
  induction fuel as [|f IH]; intros work seen res Hc H; [discriminate|]. cbn [reach] in H.
  destruct work as [|i w].
  - injection H as <-. split; [exact Hc|]. split; [auto|]. intros i [].
  - destruct (PS.mem (ikey i) seen) eqn:Hm.
    + assert (Hi : inS seen i) by (apply PS.mem_spec; exact Hm).
      destruct (IH w seen res) as (A & B & C); [|exact H|].
      { intros i' Hi' j Hj Hlt. destruct (Hc i' Hi' j Hj Hlt) as [X|[<-|X]]; auto. }
      split; [exact A|]. split; [exact B|]. intros x [<-|Hx]; [apply B; exact Hi | apply C; exact Hx].
    + set (filt := filter (fun s => andb (Nat.ltb s n) (negb (PS.mem (ikey s) seen))) (succs ops i)) in *.
      destruct (IH (filt ++ w) (PS.add (ikey i) seen) res) as (A & B & C); [|exact H|].
      { intros i' Hi' j Hj Hlt. unfold inS in Hi'. apply PS.add_spec in Hi'. destruct Hi' as [E|Hi'].
        - apply ikey_inj in E. subst i'.
          destruct (PS.mem (ikey j) seen) eqn:Hmj.
          + left. unfold inS. apply PS.add_spec. right. apply PS.mem_spec. exact Hmj.
          + right. apply in_or_app. left. unfold filt. apply filter_In. split; [exact Hj|].
            apply andb_true_iff. split; [apply Nat.ltb_lt; exact Hlt | rewrite Hmj; reflexivity].
        - destruct (Hc i' Hi' j Hj Hlt) as [X|[<-|X]].
          + left. unfold inS. apply PS.add_spec. right. exact X.
          + left. unfold inS. apply PS.add_spec. left. reflexivity.
          + right. apply in_or_app. right. exact X. }
      split; [exact A|]. split.
      * intros x Hx. apply B. unfold inS. apply PS.add_spec. right. exact Hx.
      * intros x [<-|Hx]; [apply B; unfold inS; apply PS.add_spec; left; reflexivity|].
        apply C. apply in_or_app. right. exact Hx.
Qed.

Lemma nth_error_seq_map {A} (f : nat -> A) : forall n s i, (i < n)%nat ->
  nth_error (map f (seq s n)) i = Some (f (s + i)%nat).
Proof.
  induction n as [|n IH]; intros s i Hi; [lia|]. destruct i as [|i]; cbn.
  - rewrite Nat.add_0_r. reflexivity.
  - rewrite IH by lia. rewrite Nat.add_succ_comm. reflexivity.
Qed.

Definition cfgInv (seen : PS.t) (n : nat) (i : nat) : Prop := inS seen i \/ (n <= i)%nat.

Theorem simplify_cfg_preserves_full ops out : forallb wf_c_opb ops = true -> simplify_cfg ops = POk out ->
  out = ops \/ exists keep seen, out = select keep ops /\ cfg_seen ops = Some seen /\
    inS seen 0%nat /\ deletion_sim ops keep (fun _ => False) (cfgInv seen (length ops)).
Proof.
  intros Hw. unfold simplify_cfg. destruct ops as [|o0 t]; [intros H; injection H as <-; left; reflexivity|].
  set (ops := o0 :: t) in *.
  destruct (has_jmpaddr ops); [intros H; injection H as <-; left; reflexivity|].
  destruct (negb (jump_targets_known ops)); [discriminate|].
  unfold cfg_keep. destruct (cfg_seen ops) as [seen|] eqn:Hs; [|discriminate].
  intros H. injection H as <-. right.
  exists (map (fun i => PS.mem (ikey i) seen) (seq 0 (length ops))), seen. split; [reflexivity|]. split; [reflexivity|].
  unfold cfg_seen in Hs.
  destruct (reach_closed ops (length ops) _ _ _ _ ltac:(intros i Hi; apply PS.empty_spec in Hi; destruct Hi) Hs) as (Hcl & _ & Hwk).
  split; [apply Hwk; left; reflexivity|].
  set (keep := map (fun i => PS.mem (ikey i) seen) (seq 0 (length ops))).
  assert (Hlen : length keep = length ops) by (unfold keep; rewrite map_length, seq_length; reflexivity).
  assert (Hkeep : forall i b, nth_error keep i = Some b -> b = PS.mem (ikey i) seen).
  { intros i b Hk. assert (i < length ops)%nat by (rewrite <- Hlen; apply nth_error_Some; rewrite Hk; discriminate).
    unfold keep in Hk. rewrite nth_error_seq_map in Hk by assumption. injection Hk as <-. reflexivity. }
  assert (Hwf : wf_c ops).
  { rewrite forallb_forall in Hw. intros i o Hn. apply wf_c_opb_sound. apply Hw. eapply nth_error_In; eassumption. }
  assert (Hinv : forall i j, cfgInv seen (length ops) i -> In j (succs ops i) -> cfgInv seen (length ops) j).
  { intros i j [Hi|Hi] Hj.
    - destruct (Nat.lt_ge_cases j (length ops)) as [Hlt|Hge]; [|right; exact Hge].
      destruct (Hcl i Hi j Hj Hlt) as [X|[]]. left. exact X.
    - unfold succs in Hj. assert (Hn : nth_error ops i = None) by (apply nth_error_None; exact Hi).
      rewrite Hn in Hj. destruct Hj. }
  assert (Hdrop : forall i o, nth_error keep i = Some false -> nth_error ops i = Some o ->
            cfgInv seen (length ops) i -> pure_kind o = true /\
            forall r, In r (defs_c o) -> False /\ ~ live_in_c (select keep ops) (pos keep i) r).
  { intros i o Hk Hn [Hi|Hi]; exfalso.
    - apply Hkeep in Hk. apply PS.mem_spec in Hi. congruence.
    - assert (i < length ops)%nat by (apply nth_error_Some; rewrite Hn; discriminate). lia. }
  intros M sem cs Hrv Hpure st st' HR. split; intros k.
  - eapply delete_fwd; eauto.
  - eapply delete_bwd; eauto.
Qed.
