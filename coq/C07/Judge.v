(* C07 — exact comparison of each modelled pass with the real pass's (enter, exit) dump. *)
From SwayV Require Import Base.Util Asm.Model C08.Spec C08.Model C07.Model C07.Spec C07.CpModel.
Local Open Scope N_scope.

Fixpoint first_diff (a b : list op) (k : N) : N :=
  match a, b with
  | x :: ta, y :: tb => if op_eqb x y then first_diff ta tb (k + 1) else k
  | _, _ => k
  end.

Definition cmp (m after : list op) : N * N :=
  if list_eqb op_eqb m after then (0, 0) else (1, first_diff m after 0).

(* pass numbers: 1 remove_sequential_jumps 2 remove_redundant_moves 3 remove_redundant_ops
   4 dce 5 simplify_cfg.
   result (c, k, s): c = 0 model = real; 1 differs at index k; 7 model out of fuel; 9 model panics.
   s = side-condition verdict of the pass-specific preservation theorem on this input
   (0 holds, 1 does not hold: the pass was applied where the theorem's hypothesis fails). *)
Definition judge_pass (p : N) (before after : list op) : N * N * N :=
  let side := if side_ok p before then 0 else 1 in
  match p with
  | 1 => (cmp (remove_sequential_jumps before) after, side)
  | 2 => match remove_redundant_moves before with
         | Some m => (cmp m after, side) | None => ((7, 0), side) end
  | 3 => (cmp (remove_redundant_ops before) after, side)
  | 4 => match dce before with
         | POk m => (cmp m after, side) | PFuel => ((7, 0), side) | PPanic s => ((9, s), side) end
  | 5 => match simplify_cfg before with
         | POk m => (cmp m after, side) | PFuel => ((7, 0), side) | PPanic s => ((9, s), side) end
  | _ => ((8, 0), side)
  end.

(* constant_propagate: the positions of the rewrites the validator cannot justify ([] = all justified) *)
Definition judge_cp (before after : list op) : list N := cp_check before after.
