(* C07 — property theorems only. *)
From Coq Require Import MSets.MSetPositive FSets.FMapPositive.
From SwayV Require Import Base.Util Asm.Model Asm.Erase Asm.Delete Asm.Inplace C08.Spec C08.Model
  C07.Model C07.Spec C07.Proofs C07.ProofsInplace C07.ProofsDce C07.ProofsCfg Vm.Alu C07.CpModel C07.CpProofs C07.CpStep C07.CpSound.
Local Open Scope N_scope.

(* liveness_analysis (model): the table it returns contains every register that is read before
   being written on some path from i (the least solution of the dataflow equations). *)
Theorem C07_liveness_sound : forall kill fuel ops L, liveness kill fuel ops = Some L ->
  forall i r, live_gen kill ops i r -> PS.In (rkey r) (lget L i).
Proof. exact liveness_sound. Qed.
Print Assumptions C07_liveness_sound.

(* General: deleting instructions preserves behaviour under the decidable side condition. *)
Theorem C07_delete_preserves : forall inv ops keep, delete_ok inv ops keep = true ->
  deletion_sim ops keep (K_of inv ops keep) (Inv_of inv (length ops)).
Proof. exact delete_preserves. Qed.
Print Assumptions C07_delete_preserves.

(* dce: for every program whose use/def table is well formed, the output is the input with
   instructions deleted, related by a stuttering simulation in both directions for every
   instruction semantics in which RVRT stops and side-effect-free ops do not trap. *)
Theorem C07_dce_preserves : forall ops out, dce_table_ok ops = true -> dce ops = POk out ->
  out = ops \/ exists keep, out = select keep ops /\ deletion_sim ops keep (dceK ops keep) (fun _ => True).
Proof. exact dce_preserves. Qed.
Print Assumptions C07_dce_preserves.

(* simplify_cfg: the worklist's set contains the entry and is closed under successors; only
   instructions outside it are deleted. *)
Theorem C07_simplify_cfg_preserves : forall ops out, forallb wf_c_opb ops = true -> simplify_cfg ops = POk out ->
  out = ops \/ exists keep seen, out = select keep ops /\ cfg_seen ops = Some seen /\
    inS seen 0%nat /\ deletion_sim ops keep (fun _ => False) (cfgInv seen (length ops)).
Proof. exact simplify_cfg_preserves_full. Qed.
Print Assumptions C07_simplify_cfg_preserves.

(* remove_redundant_ops with the forward guard on def-const registers (the repaired pass):
   stuttering simulation in both directions; related states agree on memory and on every register
   except a dead $of/$err.  Zero-length MCP/MCPI are assumed to be no-ops. *)
Theorem C07_remove_redundant_ops_preserves : forall ops, rro_table_ok ops = true ->
  forall (M : Type) sem call_sem, rvrt_stops M sem -> mcp_zero_skips M sem ops ->
  forall st st', R M ops (redundant_keep ops) flagK st st' ->
  (forall n, exists m, (m <= n)%nat /\
     Rres M ops (redundant_keep ops) flagK (run M sem call_sem ops n st)
                                           (run M sem call_sem (remove_redundant_ops ops) m st')) /\
  (forall m, exists n,
     Rres M ops (redundant_keep ops) flagK (run M sem call_sem ops n st)
                                           (run M sem call_sem (remove_redundant_ops ops) m st')).
Proof. exact remove_redundant_ops_preserves. Qed.
Print Assumptions C07_remove_redundant_ops_preserves.

(* remove_redundant_moves (iterated to its fixpoint): lock-step equivalence — same pc, memory and
   constant registers at every step, both stop together. *)
Theorem C07_remove_redundant_moves_preserves : forall ops out, moves_table_ok ops = true ->
  remove_redundant_moves ops = Some out -> lock_equiv ops out.
Proof. exact remove_redundant_moves_preserves. Qed.
Print Assumptions C07_remove_redundant_moves_preserves.

(* remove_sequential_jumps.  Full statement wanted: forall ops, lock_equiv ops (pass ops).
   Proved only when the flags cleared by the NOOPs that replace the jumps are dead there
   (seqj_flags_dead); the unconditional statement is refuted in the model below: a jump leaves
   $of/$err alone, the NOOP put in its place clears them. *)
Theorem C07_remove_sequential_jumps_preserves_partial : forall ops,
  forallb wf_c_opb ops = true -> nodup_b (labels_of ops) = true -> seqj_flags_dead ops ->
  lock_equiv ops (remove_sequential_jumps ops).
Proof. exact remove_sequential_jumps_preserves_partial. Qed.
Print Assumptions C07_remove_sequential_jumps_preserves_partial.

(* the per-run boolean (liveness of the new program re-computed, accepted only as a post-fixpoint)
   is sound for that condition *)
Theorem C07_seqj_side_ok_sound : forall ops, seqj_side_ok ops = true ->
  lock_equiv ops (remove_sequential_jumps ops).
Proof. exact seqj_side_ok_sound. Qed.
Print Assumptions C07_seqj_side_ok_sound.

Definition sj_ops : list op :=
  [ mkOp [] [1000] [R_OF] false (KOther 40 []);       (* sets r1000 and $of *)
    mkOp [] [] [] true (KJump 0);
    mkOp [] [] [] true (KLabel 0);
    mkOp [R_OF] [1002] [R_OF; R_ERR] false (KMove 1002 R_OF) ].
Definition rx_sem (opc : N) (_ : list N) (_ : list val) (m : unit) : option (list val * unit) :=
  Some ([1; 9], m).
Definition rx_call (_ : label) (_ : list val) (m : unit) : option (list val * unit) := None.
Definition rx_final (ops : list op) (n : nat) : N :=
  match run unit rx_sem rx_call ops n (mkSt 0 (fun _ => 0) tt) with
  | Running s => rf s 1002 | Stopped s => rf s 1002 end.
Theorem C07_remove_sequential_jumps_refuted :
  rx_final sj_ops 4 = 9 /\ rx_final (remove_sequential_jumps sj_ops) 4 = 0.
Proof. vm_compute. split; reflexivity. Qed.
Print Assumptions C07_remove_sequential_jumps_refuted.

(* identical initial states at the entry are related (so the simulations start) *)
Theorem C07_initial_related : forall M ops keep K (Inv : nat -> Prop) (st : state M),
  pc st = 0%nat -> Inv 0%nat -> Rd M ops keep K Inv st st.
Proof. exact Rd_initial. Qed.
Print Assumptions C07_initial_related.

(* The Opt1 round loop returns one of the iterates of two Opt0 runs. *)
Theorem C07_optimize_rounds_iterate : forall f n ops, exists k, (k <= n)%nat /\
  opt_rounds f n ops = Nat.iter k (fun x => f (f x)) ops.
Proof. exact opt_rounds_iterate. Qed.
Print Assumptions C07_optimize_rounds_iterate.

Theorem C07_optimize_rounds_sound : forall (P : list op -> list op -> Prop) f,
  (forall x, P x x) -> (forall x y z, P x y -> P y z -> P x z) -> (forall x, P x (f x)) ->
  forall n ops, P ops (opt_rounds f n ops).
Proof. exact opt_rounds_sound. Qed.
Print Assumptions C07_optimize_rounds_sound.

(* Regression for the repaired defect: the NOOP that clears $of is kept because $of is read two
   instructions later (before the fix the model, like the code, removed it). *)
Definition rx_ops : list op :=
  [ mkOp [] [1000] [R_OF] false (KOther 40 []);
    NOOP_OP;
    mkOp [] [1001] [] false (KOther 41 []);
    mkOp [R_OF] [1002] [R_OF; R_ERR] false (KMove 1002 R_OF) ].
Example C07_noop_kept_when_flag_read_later :
  remove_redundant_ops rx_ops = rx_ops /\ rx_final rx_ops 4 = 0.
Proof. vm_compute. split; reflexivity. Qed.
Example C07_noop_removed_when_flags_redefined :
  remove_redundant_ops [NOOP_OP; mkOp [] [1001] [] false (KOther 41 []);
                        mkOp [1001;1] [1002] [R_OF; R_ERR] false (KOther 7 [OReg 1002; OReg 1001; OReg 1])]
  = [mkOp [] [1001] [] false (KOther 41 []);
     mkOp [1001;1] [1002] [R_OF; R_ERR] false (KOther 7 [OReg 1002; OReg 1001; OReg 1])].
Proof. vm_compute. reflexivity. Qed.

(* Non-vacuity: a dead ALU op and an unreachable block are deleted; table conditions hold. *)
Definition ex7 : list op :=
  [ mkOp [] [1000] [2;8] false (KOther 6 [OReg 1000; OImm 1]);
    mkOp [1000;1] [1001] [2;8] false (KOther 7 [OReg 1001; OReg 1000; OReg 1]);   (* dead *)
    mkOp [] [] [] true (KJump 0);
    mkOp [] [] [] true (KLabel 1);                                              (* unreachable *)
    mkOp [] [1000] [2;8] false (KOther 6 [OReg 1000; OImm 2]);
    mkOp [] [] [] true (KLabel 0);
    mkOp [1000] [] [] true (KOther 1 [OReg 1000]) ].
Example C07_example_dce :
  dce ex7 = POk (select [true;false;true;true;true;true;true] ex7) /\ dce_table_ok ex7 = true.
Proof. vm_compute. split; reflexivity. Qed.
Example C07_example_cfg :
  simplify_cfg ex7 = POk (select [true;true;true;false;false;true;true] ex7).
Proof. vm_compute. reflexivity. Qed.
Example C07_example_seqjump :
  remove_sequential_jumps (select [false;false;true;false;false;true;true] ex7) =
  [NOOP_OP; mkOp [] [] [] true (KLabel 0); mkOp [1000] [] [] true (KOther 1 [OReg 1000])].
Proof. vm_compute. reflexivity. Qed.

(* ---- constant_propagate: per-run validator (C07/CpModel.v) ---- *)

(* END TO END: an (enter, exit) pair the validator accepts runs identically (same states at every
   step, both stop together) on the machine with the interpreted ALU fragment (Vm.Alu) and
   arbitrary semantics for every other op, from every entry state with $zero = 0 and $one = 1, as
   long as register values stay below 2^64 along the run (as on the VM).  The known-value map the
   walk threads through the program holds at every reached position: it is reset at jump-target
   labels, and along fall-through the transfer function is sound for one machine step.
   Uses functional extensionality (register files are functions). *)
Theorem C07_cp_validator_sound : forall M semA call_sem before after, cp_check before after = [] ->
  forall n (st : state M), pc st = 0%nat -> rf st R_ZERO = 0 -> rf st R_ONE = 1 ->
  (forall k, (k <= n)%nat -> res_bounded (runA M semA call_sem after k st)) ->
  runA M semA call_sem before n st = runA M semA call_sem after n st.
Proof. exact cp_validator_sound. Qed.
Print Assumptions C07_cp_validator_sound.

(* (a) a folded constant is what the VM computes under every flag setting: no trap, $of = $err = 0 *)
Theorem C07_cp_fold_sound : forall op l r c, fold_const op l r = Some c ->
  forall fl, exec64 fl op l r = Val (alu_set c).
Proof. exact fold_const_sound. Qed.
Print Assumptions C07_cp_fold_sound.

(* (c) each algebraic identity holds for EVERY word value of the unknown operand and every flag setting *)
Theorem C07_cp_identity_sound : forall op x y v, identity op x y = Some v ->
  forall rf fl, bounded rf -> sden rf x < 2 ^ 64 -> sden rf y < 2 ^ 64 ->
  exec64 fl op (sden rf x) (sden rf y) = Val (alu_set (sden rf v)).
Proof. exact identity_sound. Qed.
Print Assumptions C07_cp_identity_sound.

(* (b) immediate forms of commutative ops may swap their operands *)
Theorem C07_cp_commute : forall op x y fl, is_commutative op = true -> exec64 fl op x y = exec64 fl op y x.
Proof. exact exec64_comm. Qed.
Print Assumptions C07_cp_commute.

(* an accepted position: under the known-value invariant both ops take the same step from the same
   state, for every uninterpreted semantics of the non-ALU ops (uses functional extensionality for
   register files) *)
Theorem C07_cp_position_sound : forall M semA call_sem lab kv b a (st : state M),
  holds kv (rf st) -> bounded (rf st) ->
  no_zero_one_defs a = true -> no_zero_one_defs b = true ->
  form_eqb kv (nf kv b) (nf kv a) = true ->
  opstep M semA call_sem lab b st = opstep M semA call_sem lab a st.
Proof. exact cp_position_sound. Qed.
Print Assumptions C07_cp_position_sound.

(* Non-vacuity and the seeded defect: `movi r 64; sll d $one r` may become `movi d 0` (what the VM
   yields for a shift by 64) but not `movi d 1` (u64::wrapping_shl). *)
Definition cp_before : list op :=
  [ mkOp [] [1000] [R_OF; R_ERR] false (KOther 6 [OReg 1000; OImm 64]);
    mkOp [1000; 1] [1001] [R_OF; R_ERR] false (KOther 39 [OReg 1001; OReg 1; OReg 1000]);
    mkOp [1001] [] [] true (KOther 1 [OReg 1001]) ].
Definition cp_after (c : N) : list op :=
  [ mkOp [] [1000] [R_OF; R_ERR] false (KOther 6 [OReg 1000; OImm 64]);
    mkOp [] [1001] [R_OF; R_ERR] false (KOther 6 [OReg 1001; OImm c]);
    mkOp [1001] [] [] true (KOther 1 [OReg 1001]) ].
Example C07_cp_accepts_vm_value : cp_check cp_before (cp_after 0) = [].
Proof. vm_compute. reflexivity. Qed.
Example C07_cp_rejects_wrapping_shift : cp_check cp_before (cp_after 1) = [1].
Proof. vm_compute. reflexivity. Qed.
