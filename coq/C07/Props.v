(* C07 — property theorems only. *)
From SwayV Require Import Base.Util Asm.Model Asm.Delete C08.Spec C08.Model C07.Model C07.Spec C07.Proofs.
Local Open Scope N_scope.

(* Deleting instructions preserves behaviour (stuttering simulation in both directions, every
   instruction semantics in which RVRT stops and side-effect-free ops do not trap) whenever the
   decidable side condition holds: every reachable deleted instruction is MOVE/NOOP/side-effect
   free and writes only registers dead in the reduced program (and no call input). *)
Theorem C07_delete_preserves : forall inv ops keep, delete_ok inv ops keep = true ->
  deletion_sim ops keep (K_of inv ops keep) (Inv_of inv (length ops)).
Proof. exact delete_preserves. Qed.
Print Assumptions C07_delete_preserves.

(* Full statement wanted: forall sem ops, exec sem (remove_redundant_ops ops) ~ exec sem ops.
   Proved under the side condition (evaluated per run on every real input of the pass); the
   unconditional statement is refuted below (the guard of the pass only looks at the next op). *)
Theorem C07_remove_redundant_ops_preserves_partial : forall ops, side_ok 3 ops = true ->
  remove_redundant_ops ops = select (redundant_keep ops) ops /\
  deletion_sim ops (redundant_keep ops) (K_of all_inv ops (redundant_keep ops)) (Inv_of all_inv (length ops)).
Proof. exact remove_redundant_ops_preserves. Qed.
Print Assumptions C07_remove_redundant_ops_preserves_partial.

(* dce: the deleted set the pass computes is not proved to satisfy the side condition for all
   programs (liveness_sound for the block-local scan is missing); per run it is checked. *)
Theorem C07_dce_preserves_partial : forall ops out, dce ops = POk out -> side_ok 4 ops = true ->
  out = ops \/ exists keep, out = select keep ops /\
    deletion_sim ops keep (K_of all_inv ops keep) (Inv_of all_inv (length ops)).
Proof. exact dce_preserves. Qed.
Print Assumptions C07_dce_preserves_partial.

Theorem C07_simplify_cfg_preserves_partial : forall ops out, simplify_cfg ops = POk out -> side_ok 5 ops = true ->
  out = ops \/ exists keep, out = select keep ops /\
    deletion_sim ops keep (K_of (cfg_inv ops) ops keep) (Inv_of (cfg_inv ops) (length ops)).
Proof. exact simplify_cfg_preserves. Qed.
Print Assumptions C07_simplify_cfg_preserves_partial.

(* identical initial states at the entry are related (so the simulations start) *)
Theorem C07_initial_related : forall M ops keep K (Inv : nat -> Prop) (st : state M),
  pc st = 0%nat -> Inv 0%nat -> Rd M ops keep K Inv st st.
Proof. exact Rd_initial. Qed.
Print Assumptions C07_initial_related.

(* The Opt1 round loop returns one of the iterates of two Opt0 runs; hence any reflexive and
   transitive relation that Opt0 preserves is preserved by the loop. *)
Theorem C07_optimize_rounds_iterate : forall f n ops, exists k, (k <= n)%nat /\
  opt_rounds f n ops = Nat.iter k (fun x => f (f x)) ops.
Proof. exact opt_rounds_iterate. Qed.
Print Assumptions C07_optimize_rounds_iterate.

Theorem C07_optimize_rounds_sound : forall (P : list op -> list op -> Prop) f,
  (forall x, P x x) -> (forall x y z, P x y -> P y z -> P x z) -> (forall x, P x (f x)) ->
  forall n ops, P ops (opt_rounds f n ops).
Proof. exact opt_rounds_sound. Qed.
Print Assumptions C07_optimize_rounds_sound.

(* Refutation of the unconditional statement for remove_redundant_ops in the model: a NOOP
   (which clears $of) is removed although $of is read two instructions later. *)
Definition rx_ops : list op :=
  [ mkOp [] [1000] [R_OF] false (KOther 40 []);       (* sets r1000 and $of *)
    NOOP_OP;                                           (* clears $of/$err *)
    mkOp [] [1001] [] false (KOther 41 []);            (* no def-const registers, does not read $of *)
    mkOp [R_OF] [1002] [R_OF; R_ERR] false (KMove 1002 R_OF) ].
Definition rx_sem (opc : N) (_ : list N) (_ : list val) (m : unit) : option (list val * unit) :=
  Some ([1; 9], m).
Definition rx_call (_ : label) (_ : list val) (m : unit) : option (list val * unit) := None.
Definition rx_final (ops : list op) (n : nat) : N :=
  match run unit rx_sem rx_call ops n (mkSt 0 (fun _ => 0) tt) with
  | Running s => rf s 1002 | Stopped s => rf s 1002 end.
Theorem C07_remove_redundant_ops_refuted :
  length (remove_redundant_ops rx_ops) = 3%nat /\
  rx_final rx_ops 4 = 0 /\ rx_final (remove_redundant_ops rx_ops) 3 = 9.
Proof. vm_compute. repeat split; reflexivity. Qed.
Print Assumptions C07_remove_redundant_ops_refuted.

(* Non-vacuity: a dead ALU op and an unreachable block are deleted and the side conditions hold. *)
Definition ex7 : list op :=
  [ mkOp [] [1000] [2;8] false (KOther 6 [OReg 1000; OImm 1]);
    mkOp [1000;1] [1001] [2;8] false (KOther 7 [OReg 1001; OReg 1000; OReg 1]);   (* dead *)
    mkOp [] [] [] true (KJump 0);
    mkOp [] [] [] true (KLabel 1);                                              (* unreachable *)
    mkOp [] [1000] [2;8] false (KOther 6 [OReg 1000; OImm 2]);
    mkOp [] [] [] true (KLabel 0);
    mkOp [1000] [] [] true (KOther 1 [OReg 1000]) ].
Example C07_example_dce :
  dce ex7 = POk (select [true;false;true;true;true;true;true] ex7) /\ side_ok 4 ex7 = true.
Proof. vm_compute. split; reflexivity. Qed.
Example C07_example_cfg :
  simplify_cfg ex7 = POk (select [true;true;true;false;false;true;true] ex7) /\ side_ok 5 ex7 = true.
Proof. vm_compute. split; reflexivity. Qed.
Example C07_example_seqjump :
  remove_sequential_jumps (select [false;false;true;false;false;true;true] ex7) =
  [NOOP_OP; mkOp [] [] [] true (KLabel 0); mkOp [1000] [] [] true (KOther 1 [OReg 1000])].
Proof. vm_compute. reflexivity. Qed.
