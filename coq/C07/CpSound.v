(* C07 — constant_propagate validator, end to end: the known-value map the walk threads through
   the program holds at every position an execution reaches; hence an accepted (enter, exit) pair
   runs identically on the interpreted-ALU machine. *)
From Coq Require Import NArith Bool Lia FunctionalExtensionality.
From SwayV Require Import Base.Util Asm.Model Asm.Erase Vm.Alu Vm.AluProofs C08.Spec C08.Model C08.Check
  C07.Model C07.Spec C07.Proofs C07.ProofsInplace C07.CpModel C07.CpProofs C07.CpStep.
Local Open Scope N_scope.

(* ---- kill / kset ---- *)
Lemma kill_in kv r p : In p (kill kv r) -> In p kv /\ fst p <> r /\ (forall s, snd p = KE s -> s <> r).
Proof.
  unfold kill. intros H. apply filter_In in H. destruct H as [Hin Hc]. destruct p as [k v]. cbn [fst snd] in *.
  apply andb_true_iff in Hc. destruct Hc as [H1 H2]. apply negb_true_iff in H1, H2. apply N.eqb_neq in H1.
  split; [exact Hin|]. split; [exact H1|]. intros s Hs. subst v. cbn in H2. apply N.eqb_neq in H2. exact H2.
Qed.

Lemma kill_all_in : forall rs kv p, In p (kill_all kv rs) ->
  In p kv /\ ~ In (fst p) rs /\ (forall s, snd p = KE s -> ~ In s rs).
Proof.
  unfold kill_all. induction rs as [|r rs IH]; intros kv p H; cbn in H.
  - split; [exact H|]. split; [intros []|intros s _ []].
  - destruct (IH _ _ H) as (Hin & Hk & Hv). destruct (kill_in _ _ _ Hin) as (Hin' & Hk' & Hv').
    split; [exact Hin'|]. split.
    + intros [E|E]; [apply Hk'; symmetry; exact E | exact (Hk E)].
    + intros s Hs [E|E]; [exact (Hv' s Hs (eq_sym E)) | exact (Hv s Hs E)].
Qed.

Lemma holds_after_write kv rf rf' W : holds kv rf -> (forall x, ~ In x W -> rf' x = rf x) ->
  ~ In R_ZERO W -> ~ In R_ONE W -> holds (kill_all kv W) rf'.
Proof.
  intros (Hz & Ho & Hk) Hfr H0 H1. split; [rewrite Hfr by exact H0; exact Hz|]. split; [rewrite Hfr by exact H1; exact Ho|].
  intros r v Hin. destruct (kill_all_in _ _ _ Hin) as (Hin' & Hkr & Hvs). cbn in Hkr, Hvs.
  pose proof (Hk r v Hin') as F. destruct v as [n|s].
  - rewrite Hfr by exact Hkr. exact F.
  - rewrite Hfr by exact Hkr. rewrite (Hfr s) by (apply Hvs; reflexivity). exact F.
Qed.

Definition fact_true (rf : regfile) (p : reg * kval) : Prop :=
  match snd p with KC n => rf (fst p) = n | KE s => rf (fst p) = rf s end.

Lemma kset_holds m rf r v : holds m rf -> fact_true rf (r, v) -> holds (kset m r v) rf.
Proof.
  intros (Hz & Ho & Hk) Hf. unfold kset.
  destruct (orb (N.eqb r R_ZERO) (N.eqb r R_ONE)); [repeat split; assumption|].
  destruct (kval_mentions v r); [repeat split; assumption|].
  split; [exact Hz|]. split; [exact Ho|]. intros r' v' [E|Hin]; [injection E as <- <-; exact Hf | exact (Hk r' v' Hin)].
Qed.

Lemma add_facts_holds rf : forall fs m, holds m rf -> (forall p, In p fs -> fact_true rf p) -> holds (add_facts m fs) rf.
Proof.
  unfold add_facts. induction fs as [|p fs IH]; intros m Hm Hf; cbn; [exact Hm|].
  apply IH; [|intros q Hq; apply Hf; right; exact Hq].
  destruct p as [r v]. apply kset_holds; [exact Hm|]. apply (Hf (r, v)). left. reflexivity.
Qed.

Lemma memr_false r l : memr r l = false -> ~ In r l.
Proof.
  unfold memr. intros H Hin. assert (X : existsb (N.eqb r) l = true) by (apply existsb_exists; exists r; split; [exact Hin|apply N.eqb_refl]).
  congruence.
Qed.

Lemma holds_sub kv kv' rf : holds kv rf -> (forall p, In p kv' -> In p kv) -> holds kv' rf.
Proof. intros (Hz & Ho & Hk) Hs. split; [exact Hz|]. split; [exact Ho|]. intros r v Hin. apply Hk. apply Hs. exact Hin. Qed.

Lemma write_alu_frame d r rf x : x <> d -> x <> R_OF -> x <> R_ERR -> write_alu d r rf x = rf x.
Proof.
  intros H1 H2 H3. unfold write_alu, upd.
  destruct (N.eqb_spec x d); [contradiction|]. destruct (N.eqb_spec x R_ERR); [contradiction|].
  destruct (N.eqb_spec x R_OF); [contradiction|]. reflexivity.
Qed.
Lemma write_alu_d d r rf : write_alu d r rf d = res r.
Proof. unfold write_alu, upd. rewrite N.eqb_refl. reflexivity. Qed.
Lemma write_alu_of d r rf : d <> R_OF -> write_alu d r rf R_OF = of r.
Proof. intros H. unfold write_alu, upd. destruct (N.eqb_spec R_OF d); [congruence|]. reflexivity. Qed.
Lemma write_alu_err d r rf : d <> R_ERR -> write_alu d r rf R_ERR = err r.
Proof. intros H. unfold write_alu, upd. destruct (N.eqb_spec R_ERR d); [congruence|]. reflexivity. Qed.

Lemma flags_facts_true d r rf : d <> R_OF -> d <> R_ERR -> of r = 0 -> err r = 0 ->
  forall p, In p flags_zero_facts -> fact_true (write_alu d r rf) p.
Proof.
  intros H1 H2 Ho He p [<-|[<-|[]]]; unfold fact_true; cbn [fst snd].
  - rewrite write_alu_of by exact H1. exact Ho.
  - rewrite write_alu_err by exact H2. exact He.
Qed.

Lemma alu_flags_zero op fl b c r : alu_sets_flags_zero op = true -> exec64 fl op b c = Val r -> of r = 0 /\ err r = 0.
Proof. destruct op; cbn; try discriminate; intros _ H; injection H as <-; split; reflexivity. Qed.

Section Transfer.
  Variable M : Type.
  Variable semA : N -> list N -> M -> option (list val * M).
  Variable call_sem : label -> list val -> M -> option (list val * M).
  Variable lab : label -> option nat.

  Lemma dest_ok o d : no_zero_one_defs o = true ->
    ((exists s, kind o = KMove d s) \/
     (exists op x y, decode (kind o) = Some (IAlu op d x y)) \/ (exists a, decode (kind o) = Some (INot d a)) \/
     (exists n, decode (kind o) = Some (IMovi d n))) ->
    d <> R_ZERO /\ d <> R_ONE /\ d <> R_OF /\ d <> R_ERR.
  Proof.
    intros Hok Hd. unfold no_zero_one_defs in Hok. apply andb_true_iff in Hok. destruct Hok as [H1 H2].
    rewrite forallb_forall in H1.
    assert (Hin : In d (defs o ++ cdefs o ++ match kind o with
                                | KMove d _ => [d]
                                | k => match decode k with
                                       | Some (IAlu _ d _ _) => [d] | Some (INot d _) => [d] | Some (IMovi d _) => [d]
                                       | None => [] end end) /\
                  negb (orb (N.eqb d R_OF) (N.eqb d R_ERR)) = true).
    { destruct Hd as [(s0 & Hk)|[(op & x & y & Hk)|[(a & Hk)|(n & Hk)]]].
      - rewrite Hk in *.
        split; [apply in_or_app; right; apply in_or_app; right; left; reflexivity | exact H2].
      - destruct (kind o) eqn:E; try (cbn in Hk; discriminate). rewrite Hk in *.
        apply andb_true_iff in H2. destruct H2 as [H2 _].
        split; [apply in_or_app; right; apply in_or_app; right; left; reflexivity | exact H2].
      - destruct (kind o) eqn:E; try (cbn in Hk; discriminate). rewrite Hk in *.
        split; [apply in_or_app; right; apply in_or_app; right; left; reflexivity | exact H2].
      - destruct (kind o) eqn:E; try (cbn in Hk; discriminate). rewrite Hk in *.
        apply andb_true_iff in H2. destruct H2 as [H2 _].
        split; [apply in_or_app; right; apply in_or_app; right; left; reflexivity | exact H2]. }
    destruct Hin as [Hin Hf]. specialize (H1 d Hin). apply negb_true_iff, orb_false_iff in H1. destruct H1 as [A B].
    apply negb_true_iff, orb_false_iff in Hf. destruct Hf as [C D].
    apply N.eqb_neq in A, B, C, D. tauto.
  Qed.

  (* one fall-through step keeps the transferred map true *)
  Theorem transfer_general_sound kv o (st st' : state M) :
    holds kv (rf st) -> bounded (rf st) -> no_zero_one_defs o = true ->
    (forall r, In r (defs o ++ cdefs o) -> r <> R_ZERO /\ r <> R_ONE) ->
    opstep M semA call_sem lab o st = Some st' ->
    (match kind o with KMove _ _ | KNoop | KOther _ _ => True | _ => False end) ->
    holds (transfer_general kv o) (rf st').
  Proof.
    intros H Hb Hok Hdefs Hstep Hkind. unfold transfer_general.
    assert (Hgoal : forall rf', rf st' = rf' ->
              (forall x, ~ In x (written o) -> rf' x = rf st x) -> ~ In R_ZERO (written o) -> ~ In R_ONE (written o) ->
              (forall p, In p (filter (fact_ok (written o)) (new_facts kv o)) -> fact_true rf' p) ->
              holds (add_facts (kill_all kv (written o)) (filter (fact_ok (written o)) (new_facts kv o))) (rf st')).
    { intros rf' -> Hfr H0 H1 Hf. apply add_facts_holds; [|exact Hf]. eapply holds_after_write; eassumption. }
    unfold opstep in Hstep.
    destruct (kind o) as [d s| |l|l|l c|l| |r|opc args] eqn:Hk; try contradiction.
    - (* move *)
      destruct (dest_ok o d Hok) as (D0 & D1 & D2 & D3); [left; exists s; exact Hk|].
      unfold nxt in Hstep. injection Hstep as <-. cbn [rf].
      eapply Hgoal; [reflexivity| | | |]; cbn [rf]; unfold written, new_facts; rewrite ?Hk; cbn beta iota.
      + intros x Hx. apply write_alu_frame; intros ->; apply Hx; cbn; auto.
      + intros [E|[E|[E|[]]]]; [congruence|discriminate|discriminate].
      + intros [E|[E|[E|[]]]]; [congruence|discriminate|discriminate].
      + intros p Hp. apply filter_In in Hp. destruct Hp as [Hp Hokp]. apply in_app_or in Hp. destruct Hp as [Hp|Hp].
        * pose proof (resolve_reg_sound kv (rf st) s H) as Hs.
          destruct (resolve_reg kv s) as [n|t|t]; cbn in Hp; try (destruct Hp as [<-|[]]); try destruct Hp.
          -- unfold fact_true. cbn [fst snd]. rewrite write_alu_d. cbn. symmetry. exact Hs.
          -- unfold fact_true. cbn [fst snd]. rewrite write_alu_d. cbn [alu_set res].
             unfold fact_ok in Hokp. cbn [snd] in Hokp. apply negb_true_iff in Hokp. apply memr_false in Hokp.
             rewrite write_alu_frame; [symmetry; exact Hs| | |]; intros ->; apply Hokp; cbn; auto.
        * apply flags_facts_true; auto.
    - (* noop *)
      unfold nxt in Hstep. injection Hstep as <-. cbn [rf].
      eapply Hgoal; [reflexivity| | | |]; cbn [rf]; unfold written, new_facts; rewrite ?Hk; cbn beta iota.
      + intros x Hx. unfold clear_flags, upd. destruct (N.eqb_spec x R_ERR) as [->|]; [exfalso; apply Hx; cbn; auto|].
        destruct (N.eqb_spec x R_OF) as [->|]; [exfalso; apply Hx; cbn; auto|]. reflexivity.
      + intros [E|[E|[]]]; discriminate.
      + intros [E|[E|[]]]; discriminate.
      + intros p Hp. apply filter_In in Hp. destruct Hp as [[<-|[<-|[]]] _]; unfold fact_true, clear_flags, upd; cbn; reflexivity.
    - (* other *)
      destruct (decode (KOther opc args)) as [[op d x y|d a|d n]|] eqn:Hd.
      + destruct (dest_ok o d Hok) as (D0 & D1 & D2 & D3); [right; left; rewrite Hk; eauto|].
        destruct (exec64 (flags_of (rf st)) op (argval (rf st) x) (argval (rf st) y)) as [r|] eqn:He; [|discriminate].
        unfold nxt in Hstep. injection Hstep as <-. cbn [rf].
        eapply Hgoal; [reflexivity| | | |]; cbn [rf]; unfold written, new_facts; rewrite ?Hk, ?Hd; cbn beta iota.
        * intros z Hz. apply write_alu_frame; intros ->; apply Hz; cbn; auto.
        * intros [E|[E|[E|[]]]]; [congruence|discriminate|discriminate].
        * intros [E|[E|[E|[]]]]; [congruence|discriminate|discriminate].
        * destruct (decode_alu_shape _ _ _ _ _ Hd) as [[rx ->] Hyt].
          assert (Hx : sden (rf st) (resolve kv (OReg rx)) < 2 ^ 64) by (rewrite resolve_sound by exact H; cbn; apply Hb).
          assert (Hy : sden (rf st) (resolve kv y) < 2 ^ 64).
          { rewrite resolve_sound by exact H. destruct y as [ry|ny|ty]; cbn; [apply Hb| |exfalso; exact (Hyt ty eq_refl)].
            unfold no_zero_one_defs in Hok. apply andb_true_iff in Hok. destruct Hok as [_ Hok]. rewrite Hk, Hd in Hok.
            apply andb_true_iff in Hok. destruct Hok as [_ Hok]. apply N.ltb_lt. exact Hok. }
          rewrite <- !(resolve_sound kv (rf st)) in He by exact H.
          intros p Hp. apply filter_In in Hp. destruct Hp as [Hp Hokp].
          unfold alu_value in Hp.
          assert (Hval : forall k, (match resolve kv (OReg rx), resolve kv y with
                            | SC l, SC r0 => match fold_const op l r0 with Some c => Some (KC c) | None => None end
                            | sx, sy => match identity op sx sy with Some s0 => kval_of s0 | None => None end
                            end) = Some k ->
                     r = alu_set (res r) /\ match k with KC n => res r = n | KE s0 => res r = rf st s0 end).
          { intros k Hkk.
            destruct (resolve kv (OReg rx)) as [l|sx|tx] eqn:Ex; destruct (resolve kv y) as [r0|sy|ty] eqn:Ey;
              cbn beta iota zeta in Hkk.
            1:{ destruct (fold_const op l r0) as [c|] eqn:Ef; [|discriminate]. injection Hkk as <-.
                pose proof (fold_const_sound _ _ _ _ Ef (flags_of (rf st))) as Hf. cbn [sden] in He. rewrite He in Hf.
                injection Hf as ->. split; reflexivity. }
            all: lazymatch type of Hkk with context [identity ?o ?a ?b] =>
                   destruct (identity o a b) as [s0|] eqn:Ei; [|discriminate];
                   pose proof (identity_sound _ _ _ _ Ei (rf st) (flags_of (rf st)) Hb Hx Hy) as Hi;
                   rewrite He in Hi; injection Hi as Hi; subst r; split; [reflexivity|];
                   destruct s0 as [n0|r1|t1]; cbn in Hkk; try discriminate; injection Hkk as <-; reflexivity
                 end. }
          destruct (match resolve kv (OReg rx), resolve kv y with
                    | SC l, SC r0 => match fold_const op l r0 with Some c => Some (KC c) | None => None end
                    | sx, sy => match identity op sx sy with Some s0 => kval_of s0 | None => None end
                    end) as [k|] eqn:Ek.
          -- destruct (Hval k eq_refl) as [Hr Hkv]. destruct Hp as [<-|Hp].
             ++ unfold fact_true. cbn [fst snd]. rewrite write_alu_d. destruct k as [n|s0]; [exact Hkv|].
                unfold fact_ok in Hokp. cbn [snd] in Hokp. apply negb_true_iff in Hokp. apply memr_false in Hokp.
                rewrite write_alu_frame; [exact Hkv| | |]; intros ->; apply Hokp; cbn; auto.
             ++ apply flags_facts_true; auto; rewrite Hr; reflexivity.
          -- destruct (alu_sets_flags_zero op) eqn:Ez; [|destruct Hp].
             destruct (alu_flags_zero _ _ _ _ _ Ez He) as [Zo Ze]. apply flags_facts_true; auto.
      + destruct (dest_ok o d Hok) as (D0 & D1 & D2 & D3); [right; right; left; rewrite Hk; eauto|].
        unfold nxt in Hstep. injection Hstep as <-. cbn [rf].
        eapply Hgoal; [reflexivity| | | |]; cbn [rf]; unfold written, new_facts; rewrite ?Hk, ?Hd; cbn beta iota.
        * intros z Hz. apply write_alu_frame; intros ->; apply Hz; cbn; auto.
        * intros [E|[E|[E|[]]]]; [congruence|discriminate|discriminate].
        * intros [E|[E|[E|[]]]]; [congruence|discriminate|discriminate].
        * intros p Hp. apply filter_In in Hp. destruct Hp as [Hp _]. apply in_app_or in Hp. destruct Hp as [Hp|Hp].
          -- pose proof (resolve_reg_sound kv (rf st) a H) as Ha.
             destruct (resolve_reg kv a) as [n|t|t]; cbn in Hp; try destruct Hp as [<-|[]]; try destruct Hp.
             unfold fact_true. cbn [fst snd]. rewrite write_alu_d. cbn in Ha. rewrite <- Ha. reflexivity.
          -- apply flags_facts_true; auto.
      + destruct (dest_ok o d Hok) as (D0 & D1 & D2 & D3); [right; right; right; rewrite Hk; eauto|].
        unfold nxt in Hstep. injection Hstep as <-. cbn [rf].
        eapply Hgoal; [reflexivity| | | |]; cbn [rf]; unfold written, new_facts; rewrite ?Hk, ?Hd; cbn beta iota.
        * intros z Hz. apply write_alu_frame; intros ->; apply Hz; cbn; auto.
        * intros [E|[E|[E|[]]]]; [congruence|discriminate|discriminate].
        * intros [E|[E|[E|[]]]]; [congruence|discriminate|discriminate].
        * intros p Hp. apply filter_In in Hp. destruct Hp as [[<-|Hp] _].
          -- unfold fact_true. cbn [fst snd]. rewrite write_alu_d. reflexivity.
          -- apply flags_facts_true; auto.
      + destruct (semA opc (map (argval (rf st)) args) (mem st)) as [[vs m']|]; [|discriminate].
        unfold nxt in Hstep. injection Hstep as <-. cbn [rf].
        eapply Hgoal; [reflexivity| | | |]; cbn [rf]; unfold written, new_facts; rewrite ?Hk, ?Hd; cbn beta iota.
        * intros z Hz. apply write_list_other. exact Hz.
        * intros E. destruct (Hdefs _ E) as [X _]. congruence.
        * intros E. destruct (Hdefs _ E) as [_ X]. congruence.
        * intros p [].
  Qed.
End Transfer.

(* ---- the maps the walk computes, position by position ---- *)
Definition reset_at (targets : list label) (a : op) (kv : kmap) : kmap :=
  match kind a with KLabel l => if existsb (N.eqb l) targets then [] else kv | _ => kv end.

Fixpoint walk_kvs (targets : list label) (kv : kmap) (as_ : list op) : list kmap :=
  match as_ with
  | [] => []
  | a :: t => let kv0 := reset_at targets a kv in kv0 :: walk_kvs targets (transfer_kv targets kv0 a) t
  end.

Lemma cp_walk_spec targets : forall bs as_ kv i, cp_walk targets kv bs as_ i = [] ->
  length bs = length as_ /\
  forall k b a, nth_error bs k = Some b -> nth_error as_ k = Some a ->
    exists kvk, nth_error (walk_kvs targets kv as_) k = Some kvk /\
      form_eqb kvk (nf kvk b) (nf kvk a) = true /\ no_zero_one_defs a = true /\ no_zero_one_defs b = true.
Proof.
  induction bs as [|b bt IH]; intros as_ kv i H; destruct as_ as [|a at_]; cbn [cp_walk] in H; try discriminate.
  - split; [reflexivity|]. intros k b a Hb. destruct k; discriminate.
  - fold (reset_at targets a kv) in H. set (kv0 := reset_at targets a kv) in *.
    destruct (andb (form_eqb kv0 (nf kv0 b) (nf kv0 a)) (andb (no_zero_one_defs a) (no_zero_one_defs b))) eqn:E; [|discriminate].
    destruct (IH _ _ _ H) as [Hl Hk]. split; [cbn; rewrite Hl; reflexivity|].
    intros k b' a' Hb Ha. destruct k as [|k]; cbn in Hb, Ha.
    + injection Hb as <-. injection Ha as <-. exists kv0. split; [reflexivity|].
      apply andb_true_iff in E. destruct E as [E1 E2]. apply andb_true_iff in E2. tauto.
    + cbn [walk_kvs nth_error]. fold kv0. exact (Hk k b' a' Hb Ha).
Qed.

Lemma walk_kvs_next targets : forall as_ kv k kvk a a', nth_error (walk_kvs targets kv as_) k = Some kvk ->
  nth_error as_ k = Some a -> nth_error as_ (S k) = Some a' ->
  nth_error (walk_kvs targets kv as_) (S k) = Some (reset_at targets a' (transfer_kv targets kvk a)).
Proof.
  induction as_ as [|x t IH]; intros kv k kvk a a' Hk Ha Ha'; [destruct k; discriminate|].
  destruct k as [|k]; cbn in Ha, Ha'.
  - injection Ha as <-. cbn in Hk. injection Hk as <-. destruct t as [|y t']; [discriminate|]. cbn in Ha'. injection Ha' as <-.
    reflexivity.
  - cbn [walk_kvs nth_error] in *. eapply IH; eassumption.
Qed.

Lemma walk_kvs_target targets : forall as_ kv k a l, nth_error as_ k = Some a -> kind a = KLabel l ->
  existsb (N.eqb l) targets = true -> nth_error (walk_kvs targets kv as_) k = Some [].
Proof.
  induction as_ as [|x t IH]; intros kv k a l Ha Hk Ht; [destruct k; discriminate|].
  destruct k as [|k]; cbn in Ha.
  - injection Ha as <-. cbn. unfold reset_at. rewrite Hk, Ht. reflexivity.
  - cbn [walk_kvs nth_error]. eapply IH; eassumption.
Qed.

(* ---- labels are the same in both programs ---- *)
Lemma nf_set_not_same kv d v k : nf_set kv d v <> FSame k.
Proof. unfold nf_set. destruct (sval_eqb _ _); discriminate. Qed.

Lemma nf_fsame kv o k : nf kv o = FSame k -> kind o = k /\
  match k with KLabel _ | KCall _ | KRet | KJmpAddr _ => True | _ => False end.
Proof.
  unfold nf. destruct (kind o) as [d s| |l|l|l c|l| |r|opc args] eqn:Hk; intros H;
    try (injection H as <-; split; [reflexivity|exact I]); try discriminate.
  - exfalso. eapply nf_set_not_same. exact H.
  - destruct (resolve_reg kv c) as [[|p]|?|?]; discriminate.
  - exfalso. destruct (decode (KOther opc args)) as [[op d x y|d a|d n]|]; try discriminate.
    + unfold nf_alu in H.
      destruct (resolve kv x) as [lx|rx|tx]; destruct (resolve kv y) as [ly|ry|ty];
        try destruct (fold_const op _ _); try destruct (identity op _ _); try discriminate;
        eapply nf_set_not_same; exact H.
    + destruct (resolve_reg kv a); try discriminate. eapply nf_set_not_same. exact H.
    + eapply nf_set_not_same. exact H.
Qed.

Lemma form_eqb_same_l kv k f : form_eqb kv (FSame k) f = true -> f = FSame k.
Proof. destruct f; cbn; try discriminate. intros H. apply kind_eqb_eq in H. subst. reflexivity. Qed.
Lemma form_eqb_same_r kv k f : form_eqb kv f (FSame k) = true -> f = FSame k.
Proof. destruct f; cbn; try discriminate. intros H. apply kind_eqb_eq in H. subst. reflexivity. Qed.

Lemma accepted_same_label kv b a l : form_eqb kv (nf kv b) (nf kv a) = true -> is_label l b = is_label l a.
Proof.
  intros H. unfold is_label.
  destruct (kind b) as [| |lb| | | | | |] eqn:Hb.
  3:{ assert (Hnb : nf kv b = FSame (KLabel lb)) by (unfold nf; rewrite Hb; reflexivity).
      rewrite Hnb in H. apply form_eqb_same_l in H. destruct (nf_fsame _ _ _ H) as [Ha _]. rewrite Ha. reflexivity. }
  all: destruct (kind a) as [| |la| | | | | |] eqn:Ha; try reflexivity;
    assert (Hna : nf kv a = FSame (KLabel la)) by (unfold nf; rewrite Ha; reflexivity);
    rewrite Hna in H; apply form_eqb_same_r in H; destruct (nf_fsame _ _ _ H) as [Hb' _]; congruence.
Qed.

Lemma label_index_spec ops l j : label_index ops l = Some j ->
  exists o, nth_error ops j = Some o /\ kind o = KLabel l.
Proof.
  unfold label_index. revert j. induction ops as [|x t IH]; intros j H; [discriminate|]. cbn [find_index] in H.
  destruct (is_label l x) eqn:E.
  - injection H as <-. exists x. split; [reflexivity|]. unfold is_label in E. destruct (kind x); try discriminate.
    apply N.eqb_eq in E. subst. reflexivity.
  - destruct (find_index (is_label l) t) as [j'|] eqn:Ej; [|discriminate]. cbn in H. injection H as <-.
    destruct (IH j' eq_refl) as (o & Ho & Hk). exists o. split; assumption.
Qed.

Lemma jump_target_in ops i o l : nth_error ops i = Some o -> (kind o = KJump l \/ exists c, kind o = KJnz l c) ->
  existsb (N.eqb l) (jump_targets ops) = true.
Proof.
  intros Hn Hk. apply existsb_exists. exists l. split; [|apply N.eqb_refl].
  unfold jump_targets. apply in_flat_map. exists o. split; [eapply nth_error_In; exact Hn|].
  destruct Hk as [->|[c ->]]; left; reflexivity.
Qed.

Section EndToEnd.
  Variable M : Type.
  Variable semA : N -> list N -> M -> option (list val * M).
  Variable call_sem : label -> list val -> M -> option (list val * M).
  Variable before after : list op.
  Hypothesis Hacc : cp_walk (jump_targets after) [] before after 0 = [].

  Let targets := jump_targets after.
  Let kvs := walk_kvs targets [] after.

  Definition Inv (st : state M) : Prop :=
    forall kvk, nth_error kvs (pc st) = Some kvk -> holds kvk (rf st).

  Lemma same_labels l : label_index before l = label_index after l.
  Proof.
    destruct (cp_walk_spec _ _ _ _ _ Hacc) as [Hl Hk].
    unfold label_index. apply find_index_pointwise. intros i.
    destruct (nth_error before i) as [b|] eqn:Hb; destruct (nth_error after i) as [a|] eqn:Ha; cbn.
    - destruct (Hk i b a Hb Ha) as (kvk & _ & Hf & _). f_equal. eapply accepted_same_label. exact Hf.
    - exfalso. apply nth_error_None in Ha. assert (i < length before)%nat by (apply nth_error_Some; rewrite Hb; discriminate). lia.
    - exfalso. apply nth_error_None in Hb. assert (i < length after)%nat by (apply nth_error_Some; rewrite Ha; discriminate). lia.
    - reflexivity.
  Qed.

  (* both programs take the same step *)
  Lemma same_step st : Inv st -> bounded (rf st) ->
    stepA M semA call_sem before st = stepA M semA call_sem after st.
  Proof.
    intros HI Hb. destruct (cp_walk_spec _ _ _ _ _ Hacc) as [Hl Hk].
    destruct (nth_error before (pc st)) as [b|] eqn:Hnb; destruct (nth_error after (pc st)) as [a|] eqn:Hna.
    - destruct (Hk _ b a Hnb Hna) as (kvk & Hkv & Hf & Hoa & Hob).
      rewrite (stepA_opstep _ _ _ _ _ _ Hnb), (stepA_opstep _ _ _ _ _ _ Hna).
      assert (E : opstep M semA call_sem (label_index before) b st = opstep M semA call_sem (label_index after) b st).
      { unfold opstep, jmp. destruct (kind b); try reflexivity; rewrite same_labels; reflexivity. }
      rewrite E. exact (cp_position_sound M semA call_sem (label_index after) kvk b a st (HI kvk Hkv) Hb Hoa Hob Hf).
    - exfalso. apply nth_error_None in Hna. assert (pc st < length before)%nat by (apply nth_error_Some; rewrite Hnb; discriminate). lia.
    - exfalso. apply nth_error_None in Hnb. assert (pc st < length after)%nat by (apply nth_error_Some; rewrite Hna; discriminate). lia.
    - unfold stepA. rewrite Hnb, Hna. reflexivity.
  Qed.

  Lemma call_frame vs rf x : ~ In x call_out_regs -> write_list call_out_regs vs rf x = rf x.
  Proof. apply write_list_other. Qed.

  Lemma zero_one_not_out : ~ In R_ZERO call_out_regs /\ ~ In R_ONE call_out_regs.
  Proof.
    assert (H : forallb (fun r => negb (orb (N.eqb r R_ZERO) (N.eqb r R_ONE))) call_out_regs = true) by (vm_compute; reflexivity).
    rewrite forallb_forall in H. split; intros Hin; specialize (H _ Hin); discriminate.
  Qed.

  Local Opaque call_out_regs call_in_regs const_regs.

  (* the map at the next position holds after the step *)
  Lemma inv_step st st' : Inv st -> bounded (rf st) ->
    stepA M semA call_sem after st = Some st' -> Inv st'.
  Proof.
    intros HI Hb Hs. destruct (cp_walk_spec _ _ _ _ _ Hacc) as [Hl Hk]. unfold Inv in *. unfold kvs in *.
    destruct (nth_error after (pc st)) as [a|] eqn:Hna; [|unfold stepA in Hs; rewrite Hna in Hs; discriminate].
    assert (Hlt : (pc st < length before)%nat) by (rewrite Hl; apply nth_error_Some; rewrite Hna; discriminate).
    destruct (nth_error before (pc st)) as [b|] eqn:Hnb; [|apply nth_error_None in Hnb; lia].
    destruct (Hk _ b a Hnb Hna) as (kvk & Hkv & Hf & Hoa & Hob).
    pose proof (HI kvk Hkv) as Hh.
    rewrite (stepA_opstep _ _ _ _ _ _ Hna) in Hs.
    assert (Hdefs : forall r, In r (defs a ++ cdefs a) -> r <> R_ZERO /\ r <> R_ONE).
    { intros r Hr. unfold no_zero_one_defs in Hoa. apply andb_true_iff in Hoa. destruct Hoa as [Hoa _].
      rewrite forallb_forall in Hoa. rewrite app_assoc in Hoa. specialize (Hoa r (in_or_app _ _ _ (or_introl Hr))).
      apply negb_true_iff, orb_false_iff in Hoa. destruct Hoa as [A B]. apply N.eqb_neq in A, B. tauto. }
    (* jumps to a label: the map there is empty *)
    assert (Hjump : forall l, (kind a = KJump l \/ exists c, kind a = KJnz l c) ->
              forall j, label_index after l = Some j -> rf st' = rf st -> pc st' = j -> Inv st').
    { intros l Hkj j Hj Hrf Hpc kv' Hkv'. unfold kvs in Hkv'. rewrite Hpc in Hkv'.
      destruct (label_index_spec _ _ _ Hj) as (o & Ho & Hko).
      rewrite (walk_kvs_target targets after [] j o l Ho Hko (jump_target_in _ _ _ _ Hna Hkj)) in Hkv'.
      injection Hkv' as <-. rewrite Hrf. eapply holds_sub; [exact Hh|]. intros p []. }
    (* fall-through: transfer, then possibly reset *)
    assert (Hfall : pc st' = S (pc st) -> holds (transfer_kv targets kvk a) (rf st') -> Inv st').
    { intros Hpc Ht kv' Hkv'. unfold kvs in Hkv'. rewrite Hpc in Hkv'.
      destruct (nth_error after (S (pc st))) as [a'|] eqn:Hna'.
      - rewrite (walk_kvs_next targets after [] _ kvk a a' Hkv Hna Hna') in Hkv'. injection Hkv' as <-.
        unfold reset_at. destruct (kind a'); try exact Ht. destruct (existsb _ _); [|exact Ht].
        eapply holds_sub; [exact Ht|]. intros p [].
      - exfalso. assert (Hlen : forall l kv, length (walk_kvs targets kv l) = length l).
        { induction l as [|x t IH]; intros kv; cbn; [reflexivity|]. rewrite IH. reflexivity. }
        apply nth_error_None in Hna'.
        assert (S (pc st) < length (walk_kvs targets [] after))%nat by (apply nth_error_Some; rewrite Hkv'; discriminate).
        rewrite Hlen in H. lia. }
    assert (Hgen : (match kind a with KMove _ _ | KNoop | KOther _ _ => True | _ => False end) ->
              holds (transfer_general kvk a) (rf st')).
    { intros Hkd. exact (transfer_general_sound M semA call_sem (label_index after) kvk a st st' Hh Hb Hoa Hdefs Hs Hkd). }
    assert (Htk : forall X, X = transfer_kv targets kvk a -> holds X (rf st') -> holds (transfer_kv targets kvk a) (rf st'))
      by (intros X ->; exact (fun h => h)).
    pose proof Hs as Hs0. unfold opstep in Hs.
    destruct (kind a) as [d s| |l|l|l c|l| |r|opc args] eqn:Hka.
    - apply Hfall; [unfold nxt in Hs; injection Hs as <-; reflexivity|].
      apply (Htk (transfer_general kvk a)); [unfold transfer_kv; rewrite Hka; reflexivity | apply Hgen; exact I].
    - apply Hfall; [unfold nxt in Hs; injection Hs as <-; reflexivity|].
      apply (Htk (transfer_general kvk a)); [unfold transfer_kv; rewrite Hka; reflexivity | apply Hgen; exact I].
    - unfold nxt in Hs. injection Hs as <-. apply Hfall; [reflexivity|]. cbn [rf].
      unfold transfer_kv. rewrite Hka.
      destruct (existsb (N.eqb l) targets); [eapply holds_sub; [exact Hh|]; intros p [] | exact Hh].
    - unfold jmp in Hs. destruct (label_index after l) as [j|] eqn:Hj; [|discriminate]. injection Hs as <-.
      eapply (Hjump l); [left; reflexivity | exact Hj | reflexivity | reflexivity].
    - destruct (N.eqb (rf st c) 0).
      + unfold nxt in Hs. injection Hs as <-. apply Hfall; [reflexivity|]. unfold transfer_kv. rewrite Hka. exact Hh.
      + unfold jmp in Hs. destruct (label_index after l) as [j|] eqn:Hj; [|discriminate]. injection Hs as <-.
        eapply (Hjump l); [right; eexists; reflexivity | exact Hj | reflexivity | reflexivity].
    - destruct (call_sem l (map (rf st) call_in_regs) (mem st)) as [[vs m']|]; [|discriminate].
      unfold nxt in Hs. injection Hs as Hst.
      apply Hfall; [rewrite <- Hst; reflexivity|]. rewrite <- Hst. cbn [rf]. unfold transfer_kv. rewrite Hka.
      destruct Hh as (Hz & Ho & _). destruct zero_one_not_out as [Z O].
      split; [etransitivity; [exact (write_list_other _ _ _ _ Z) | exact Hz]|].
      split; [etransitivity; [exact (write_list_other _ _ _ _ O) | exact Ho]|]. intros r0 v [].
    - discriminate.
    - discriminate.
    - destruct (decode (KOther opc args)) as [i|] eqn:Hd.
      + assert (Hpc : pc st' = S (pc st)).
        { destruct i as [op d x y|d a0|d n]; [destruct (exec64 _ _ _ _); [|discriminate]| |];
            unfold nxt in Hs; injection Hs as <-; reflexivity. }
        apply Hfall; [exact Hpc|].
        apply (Htk (transfer_general kvk a)); [unfold transfer_kv; rewrite Hka, Hd; reflexivity | apply Hgen; exact I].
      + destruct (semA opc (map (argval (rf st)) args) (mem st)) as [[vs m']|] eqn:Hsem; [|discriminate].
        unfold nxt in Hs. injection Hs as <-. apply Hfall; [reflexivity|]. cbn [rf].
        assert (Hw : holds (kill_all kvk (written a)) (write_list (defs a ++ cdefs a) vs (rf st))).
        { eapply holds_after_write; [exact Hh| | |].
          - intros x Hx. apply write_list_other. unfold written in Hx. rewrite Hka, Hd in Hx. exact Hx.
          - unfold written. rewrite Hka, Hd. intros E. destruct (Hdefs _ E) as [X _]. congruence.
          - unfold written. rewrite Hka, Hd. intros E. destruct (Hdefs _ E) as [_ X]. congruence. }
        unfold transfer_kv. rewrite Hka, Hd.
        destruct (N.eqb opc 12).
        * eapply holds_sub; [exact Hw|]. intros p Hp. apply filter_In in Hp. destruct Hp as [Hp _]. exact Hp.
        * destruct (is_org_stop opc).
          -- eapply holds_sub; [exact Hw|]. intros p [].
          -- assert (Hkd : match kind a with KMove _ _ | KNoop | KOther _ _ => True | _ => False end) by (rewrite Hka; exact I).
             exact (transfer_general_sound M semA call_sem (label_index after) kvk a st _ Hh Hb Hoa Hdefs Hs0 Hkd).
  Qed.
End EndToEnd.

Lemma op_eqb_eq a b : op_eqb a b = true -> a = b.
Proof.
  unfold op_eqb. intros H. repeat (apply andb_true_iff in H; destruct H as [? H]).
  destruct a as [u d c s k], b as [u' d' c' s' k']. cbn in *.
  repeat match goal with X : list_eqb N.eqb _ _ = true |- _ => apply list_eqb_N in X end.
  apply kind_eqb_eq in H. match goal with X : Bool.eqb _ _ = true |- _ => apply Bool.eqb_prop in X end.
  subst. reflexivity.
Qed.

Definition res_bounded {M} (r : result M) : Prop :=
  match r with Running s => bounded (rf s) | Stopped s => bounded (rf s) end.

(* constant_propagate validator, end to end: an accepted (enter, exit) pair runs identically on the
   machine with the interpreted ALU fragment, from every entry state in which $zero = 0 and
   $one = 1, as long as register values stay below 2^64 along the run (as they do on the VM). *)
Theorem cp_validator_sound M semA call_sem before after : cp_check before after = [] ->
  forall n (st : state M), pc st = 0%nat -> rf st R_ZERO = 0 -> rf st R_ONE = 1 ->
  (forall k, (k <= n)%nat -> res_bounded (runA M semA call_sem after k st)) ->
  runA M semA call_sem before n st = runA M semA call_sem after n st.
Proof.
  unfold cp_check. destruct (has_jmpaddr_b before).
  { destruct (list_eqb op_eqb before after) eqn:E; [|discriminate]. intros _ n st _ _ _ _.
    rewrite (list_eqb_eq op_eqb op_eqb_eq _ _ E). reflexivity. }
  intros Hacc.
  assert (Hgen : forall n st, Inv M after st ->
            (forall k, (k <= n)%nat -> res_bounded (runA M semA call_sem after k st)) ->
            runA M semA call_sem before n st = runA M semA call_sem after n st).
  { induction n as [|n IH]; intros st HI Hbd; [reflexivity|].
    assert (Hb : bounded (rf st)) by (exact (Hbd 0%nat ltac:(lia))).
    cbn [runA]. rewrite (same_step M semA call_sem before after Hacc st HI Hb).
    destruct (stepA M semA call_sem after st) as [st'|] eqn:Hs; [|reflexivity].
    apply IH.
    - eapply inv_step; eassumption.
    - intros k Hk. specialize (Hbd (S k) ltac:(lia)). cbn [runA] in Hbd. rewrite Hs in Hbd. exact Hbd. }
  intros n st Hpc Hz Ho Hbd. apply Hgen; [|exact Hbd].
  intros kvk Hk. rewrite Hpc in Hk. destruct after as [|a t]; [discriminate|]. cbn in Hk. injection Hk as <-.
  assert (E : forall p, In p (reset_at (jump_targets (a :: t)) a []) -> False).
  { unfold reset_at. destruct (kind a); try (intros p []). destruct (existsb _ _); intros p []. }
  split; [exact Hz|]. split; [exact Ho|]. intros r v Hin. destruct (E _ Hin).
Qed.
