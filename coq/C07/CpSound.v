(* C07 — constant_propagate validator, end to end: the known-value map the walk threads through
   the program holds at every position an execution reaches; hence an accepted (enter, exit) pair
   runs identically on the interpreted-ALU machine. *)
From Coq Require Import NArith Bool Lia FunctionalExtensionality.
From SwayV Require Import Base.Util Asm.Model Asm.Erase Vm.Alu Vm.AluProofs C08.Spec C08.Model C08.Check
  C07.Model C07.Spec C07.Proofs C07.ProofsInplace C07.CpModel C07.CpProofs C07.CpStep.
Local Open Scope N_scope.

(* ---- kill / kset ---- *)
Lemma kill_in kv r p : In p (kill kv r) -> In p kv /\ fst p <> r /\ (forall s, snd p = KE s -> s <> r).
Proof.
  unfold kill. intros H. apply filter_In in H. destruct H as [Hin Hc]. destruct p as [k v]. cbn [fst snd] in *.
  apply andb_true_iff in Hc. destruct Hc as [H1 H2]. apply negb_true_iff in H1, H2. apply N.eqb_neq in H1.
  split; [exact Hin|]. split; [exact H1|]. intros s Hs. subst v. cbn in H2. apply N.eqb_neq in H2. exact H2.
Qed.

Lemma kill_all_in : forall rs kv p, In p (kill_all kv rs) ->
  In p kv /\ ~ In (fst p) rs /\ (forall s, snd p = KE s -> ~ In s rs).
Proof.
  unfold kill_all. induction rs as [|r rs IH]; intros kv p H; cbn in H.
  - split; [exact H|]. split; [intros []|intros s _ []].
  - destruct (IH _ _ H) as (Hin & Hk & Hv). destruct (kill_in _ _ _ Hin) as (Hin' & Hk' & Hv').
    split; [exact Hin'|]. split.
    + intros [E|E]; [apply Hk'; symmetry; exact E | exact (Hk E)].
    + intros s Hs [E|E]; [exact (Hv' s Hs (eq_sym E)) | exact (Hv s Hs E)].
Qed.

Lemma holds_after_write kv rf rf' W : holds kv rf -> (forall x, ~ In x W -> rf' x = rf x) ->
  ~ In R_ZERO W -> ~ In R_ONE W -> holds (kill_all kv W) rf'.
Proof.
  intros (Hz & Ho & Hk) Hfr H0 H1. split; [rewrite Hfr by exact H0; exact Hz|]. split; [rewrite Hfr by exact H1; exact Ho|].
  intros r v Hin. destruct (kill_all_in _ _ _ Hin) as (Hin' & Hkr & Hvs). cbn in Hkr, Hvs.
  pose proof (Hk r v Hin') as F. destruct v as [n|s].
  - rewrite Hfr by exact Hkr. exact F.
  - rewrite Hfr by exact Hkr. rewrite (Hfr s) by (apply Hvs; reflexivity). exact F.
Qed.

Definition fact_true (rf : regfile) (p : reg * kval) : Prop :=
  match snd p with KC n => rf (fst p) = n | KE s => rf (fst p) = rf s end.

Lemma kset_holds m rf r v : holds m rf -> fact_true rf (r, v) -> holds (kset m r v) rf.
Proof.
  intros (Hz & Ho & Hk) Hf. unfold kset.
  destruct (orb (N.eqb r R_ZERO) (N.eqb r R_ONE)); [repeat split; assumption|].
  destruct (kval_mentions v r); [repeat split; assumption|].
  split; [exact Hz|]. split; [exact Ho|]. intros r' v' [E|Hin]; [injection E as <- <-; exact Hf | exact (Hk r' v' Hin)].
Qed.

Lemma add_facts_holds rf : forall fs m, holds m rf -> (forall p, In p fs -> fact_true rf p) -> holds (add_facts m fs) rf.
Proof.
  unfold add_facts. induction fs as [|p fs IH]; intros m Hm Hf; cbn; [exact Hm|].
  apply IH; [|intros q Hq; apply Hf; right; exact Hq].
  destruct p as [r v]. apply kset_holds; [exact Hm|]. apply (Hf (r, v)). left. reflexivity.
Qed.

Lemma memr_false r l : memr r l = false -> ~ In r l.
Proof.
  unfold memr. intros H Hin. assert (X : existsb (N.eqb r) l = true) by (apply existsb_exists; exists r; split; [exact Hin|apply N.eqb_refl]).
  congruence.
Qed.

Lemma holds_sub kv kv' rf : holds kv rf -> (forall p, In p kv' -> In p kv) -> holds kv' rf.
Proof. intros (Hz & Ho & Hk) Hs. split; [exact Hz|]. split; [exact Ho|]. intros r v Hin. apply Hk. apply Hs. exact Hin. Qed.

Lemma write_alu_frame d r rf x : x <> d -> x <> R_OF -> x <> R_ERR -> write_alu d r rf x = rf x.
Proof.
  intros H1 H2 H3. unfold write_alu, upd.
  destruct (N.eqb_spec x d); [contradiction|]. destruct (N.eqb_spec x R_ERR); [contradiction|].
  destruct (N.eqb_spec x R_OF); [contradiction|]. reflexivity.
Qed.
Lemma write_alu_d d r rf : write_alu d r rf d = res r.
Proof. unfold write_alu, upd. rewrite N.eqb_refl. reflexivity. Qed.
Lemma write_alu_of d r rf : d <> R_OF -> write_alu d r rf R_OF = of r.
Proof. intros H. unfold write_alu, upd. destruct (N.eqb_spec R_OF d); [congruence|]. reflexivity. Qed.
Lemma write_alu_err d r rf : d <> R_ERR -> write_alu d r rf R_ERR = err r.
Proof. intros H. unfold write_alu, upd. destruct (N.eqb_spec R_ERR d); [congruence|]. reflexivity. Qed.

Lemma flags_facts_true d r rf : d <> R_OF -> d <> R_ERR -> of r = 0 -> err r = 0 ->
  forall p, In p flags_zero_facts -> fact_true (write_alu d r rf) p.
Proof.
  intros H1 H2 Ho He p [<-|[<-|[]]]; unfold fact_true; cbn [fst snd].
  - rewrite write_alu_of by exact H1. exact Ho.
  - rewrite write_alu_err by exact H2. exact He.
Qed.

Lemma alu_flags_zero op fl b c r : alu_sets_flags_zero op = true -> exec64 fl op b c = Val r -> of r = 0 /\ err r = 0.
Proof. destruct op; cbn; try discriminate; intros _ H; injection H as <-; split; reflexivity. Qed.

Section Transfer.
  Variable M : Type.
  Variable semA : N -> list N -> M -> option (list val * M).
  Variable call_sem : label -> list val -> M -> option (list val * M).
  Variable lab : label -> option nat.

  Lemma dest_ok o d : no_zero_one_defs o = true ->
    ((exists s, kind o = KMove d s) \/
     (exists op x y, decode (kind o) = Some (IAlu op d x y)) \/ (exists a, decode (kind o) = Some (INot d a)) \/
     (exists n, decode (kind o) = Some (IMovi d n))) ->
    d <> R_ZERO /\ d <> R_ONE /\ d <> R_OF /\ d <> R_ERR.
  Proof.
    intros Hok Hd. unfold no_zero_one_defs in Hok. apply andb_true_iff in Hok. destruct Hok as [H1 H2].
    rewrite forallb_forall in H1.
    assert (Hin : In d (defs o ++ cdefs o ++ match kind o with
                                | KMove d _ => [d]
                                | k => match decode k with
                                       | Some (IAlu _ d _ _) => [d] | Some (INot d _) => [d] | Some (IMovi d _) => [d]
                                       | None => [] end end) /\
                  negb (orb (N.eqb d R_OF) (N.eqb d R_ERR)) = true).
    { destruct Hd as [(s0 & Hk)|[(op & x & y & Hk)|[(a & Hk)|(n & Hk)]]].
      - rewrite Hk in *.
        split; [apply in_or_app; right; apply in_or_app; right; left; reflexivity | exact H2].
      - destruct (kind o) eqn:E; try (cbn in Hk; discriminate). rewrite Hk in *.
        apply andb_true_iff in H2. destruct H2 as [H2 _].
        split; [apply in_or_app; right; apply in_or_app; right; left; reflexivity | exact H2].
      - destruct (kind o) eqn:E; try (cbn in Hk; discriminate). rewrite Hk in *.
        split; [apply in_or_app; right; apply in_or_app; right; left; reflexivity | exact H2].
      - destruct (kind o) eqn:E; try (cbn in Hk; discriminate). rewrite Hk in *.
        apply andb_true_iff in H2. destruct H2 as [H2 _].
        split; [apply in_or_app; right; apply in_or_app; right; left; reflexivity | exact H2]. }
    destruct Hin as [Hin Hf]. specialize (H1 d Hin). apply negb_true_iff, orb_false_iff in H1. destruct H1 as [A B].
    apply negb_true_iff, orb_false_iff in Hf. destruct Hf as [C D].
    apply N.eqb_neq in A, B, C, D. tauto.
  Qed.

  (* one fall-through step keeps the transferred map true *)
  Theorem transfer_general_sound kv o (st st' : state M) :
    holds kv (rf st) -> bounded (rf st) -> no_zero_one_defs o = true ->
    (forall r, In r (defs o ++ cdefs o) -> r <> R_ZERO /\ r <> R_ONE) ->
    opstep M semA call_sem lab o st = Some st' ->
    (match kind o with KMove _ _ | KNoop | KOther _ _ => True | _ => False end) ->
    holds (transfer_general kv o) (rf st').
  Proof.
    intros H Hb Hok Hdefs Hstep Hkind. unfold transfer_general.
    assert (Hgoal : forall rf', rf st' = rf' ->
              (forall x, ~ In x (written o) -> rf' x = rf st x) -> ~ In R_ZERO (written o) -> ~ In R_ONE (written o) ->
              (forall p, In p (filter (fact_ok (written o)) (new_facts kv o)) -> fact_true rf' p) ->
              holds (add_facts (kill_all kv (written o)) (filter (fact_ok (written o)) (new_facts kv o))) (rf st')).
    { intros rf' -> Hfr H0 H1 Hf. apply add_facts_holds; [|exact Hf]. eapply holds_after_write; eassumption. }
    unfold opstep in Hstep.
    destruct (kind o) as [d s| |l|l|l c|l| |r|opc args] eqn:Hk; try contradiction.
    - (* move *)
      destruct (dest_ok o d Hok) as (D0 & D1 & D2 & D3); [left; exists s; exact Hk|].
      unfold nxt in Hstep. injection Hstep as <-. cbn [rf].
      eapply Hgoal; [reflexivity| | | |]; cbn [rf]; unfold written, new_facts; rewrite ?Hk; cbn beta iota.
      + intros x Hx. apply write_alu_frame; intros ->; apply Hx; cbn; auto.
      + intros [E|[E|[E|[]]]]; [congruence|discriminate|discriminate].
      + intros [E|[E|[E|[]]]]; [congruence|discriminate|discriminate].
      + intros p Hp. apply filter_In in Hp. destruct Hp as [Hp Hokp]. apply in_app_or in Hp. destruct Hp as [Hp|Hp].
        * pose proof (resolve_reg_sound kv (rf st) s H) as Hs.
          destruct (resolve_reg kv s) as [n|t|t]; cbn in Hp; try (destruct Hp as [<-|[]]); try destruct Hp.
          -- unfold fact_true. cbn [fst snd]. rewrite write_alu_d. cbn. symmetry. exact Hs.
          -- unfold fact_true. cbn [fst snd]. rewrite write_alu_d. cbn [alu_set res].
             unfold fact_ok in Hokp. cbn [snd] in Hokp. apply negb_true_iff in Hokp. apply memr_false in Hokp.
             rewrite write_alu_frame; [symmetry; exact Hs| | |]; intros ->; apply Hokp; cbn; auto.
        * apply flags_facts_true; auto.
    - (* noop *)
      unfold nxt in Hstep. injection Hstep as <-. cbn [rf].
      eapply Hgoal; [reflexivity| | | |]; cbn [rf]; unfold written, new_facts; rewrite ?Hk; cbn beta iota.
      + intros x Hx. unfold clear_flags, upd. destruct (N.eqb_spec x R_ERR) as [->|]; [exfalso; apply Hx; cbn; auto|].
        destruct (N.eqb_spec x R_OF) as [->|]; [exfalso; apply Hx; cbn; auto|]. reflexivity.
      + intros [E|[E|[]]]; discriminate.
      + intros [E|[E|[]]]; discriminate.
      + intros p Hp. apply filter_In in Hp. destruct Hp as [[<-|[<-|[]]] _]; unfold fact_true, clear_flags, upd; cbn; reflexivity.
    - (* other *)
      destruct (decode (KOther opc args)) as [[op d x y|d a|d n]|] eqn:Hd.
      + destruct (dest_ok o d Hok) as (D0 & D1 & D2 & D3); [right; left; rewrite Hk; eauto|].
        destruct (exec64 (flags_of (rf st)) op (argval (rf st) x) (argval (rf st) y)) as [r|] eqn:He; [|discriminate].
        unfold nxt in Hstep. injection Hstep as <-. cbn [rf].
        eapply Hgoal; [reflexivity| | | |]; cbn [rf]; unfold written, new_facts; rewrite ?Hk, ?Hd; cbn beta iota.
        * intros z Hz. apply write_alu_frame; intros ->; apply Hz; cbn; auto.
        * intros [E|[E|[E|[]]]]; [congruence|discriminate|discriminate].
        * intros [E|[E|[E|[]]]]; [congruence|discriminate|discriminate].
        * destruct (decode_alu_shape _ _ _ _ _ Hd) as [[rx ->] Hyt].
          assert (Hx : sden (rf st) (resolve kv (OReg rx)) < 2 ^ 64) by (rewrite resolve_sound by exact H; cbn; apply Hb).
          assert (Hy : sden (rf st) (resolve kv y) < 2 ^ 64).
          { rewrite resolve_sound by exact H. destruct y as [ry|ny|ty]; cbn; [apply Hb| |exfalso; exact (Hyt ty eq_refl)].
            unfold no_zero_one_defs in Hok. apply andb_true_iff in Hok. destruct Hok as [_ Hok]. rewrite Hk, Hd in Hok.
            apply andb_true_iff in Hok. destruct Hok as [_ Hok]. apply N.ltb_lt. exact Hok. }
          rewrite <- !(resolve_sound kv (rf st)) in He by exact H.
          intros p Hp. apply filter_In in Hp. destruct Hp as [Hp Hokp].
          unfold alu_value in Hp.
          assert (Hval : forall k, (match resolve kv (OReg rx), resolve kv y with
                            | SC l, SC r0 => match fold_const op l r0 with Some c => Some (KC c) | None => None end
                            | sx, sy => match identity op sx sy with Some s0 => kval_of s0 | None => None end
                            end) = Some k ->
                     r = alu_set (res r) /\ match k with KC n => res r = n | KE s0 => res r = rf st s0 end).
          { intros k Hkk.
            destruct (resolve kv (OReg rx)) as [l|sx|tx] eqn:Ex; destruct (resolve kv y) as [r0|sy|ty] eqn:Ey;
              cbn beta iota zeta in Hkk.
            1:{ destruct (fold_const op l r0) as [c|] eqn:Ef; [|discriminate]. injection Hkk as <-.
                pose proof (fold_const_sound _ _ _ _ Ef (flags_of (rf st))) as Hf. cbn [sden] in He. rewrite He in Hf.
                injection Hf as ->. split; reflexivity. }
            all: lazymatch type of Hkk with context [identity ?o ?a ?b] =>
                   destruct (identity o a b) as [s0|] eqn:Ei; [|discriminate];
                   pose proof (identity_sound _ _ _ _ Ei (rf st) (flags_of (rf st)) Hb Hx Hy) as Hi;
                   rewrite He in Hi; injection Hi as Hi; subst r; split; [reflexivity|];
                   destruct s0 as [n0|r1|t1]; cbn in Hkk; try discriminate; injection Hkk as <-; reflexivity
                 end. }
          destruct (match resolve kv (OReg rx), resolve kv y with
                    | SC l, SC r0 => match fold_const op l r0 with Some c => Some (KC c) | None => None end
                    | sx, sy => match identity op sx sy with Some s0 => kval_of s0 | None => None end
                    end) as [k|] eqn:Ek.
          -- destruct (Hval k eq_refl) as [Hr Hkv]. destruct Hp as [<-|Hp].
             ++ unfold fact_true. cbn [fst snd]. rewrite write_alu_d. destruct k as [n|s0]; [exact Hkv|].
                unfold fact_ok in Hokp. cbn [snd] in Hokp. apply negb_true_iff in Hokp. apply memr_false in Hokp.
                rewrite write_alu_frame; [exact Hkv| | |]; intros ->; apply Hokp; cbn; auto.
             ++ apply flags_facts_true; auto; rewrite Hr; reflexivity.
          -- destruct (alu_sets_flags_zero op) eqn:Ez; [|destruct Hp].
             destruct (alu_flags_zero _ _ _ _ _ Ez He) as [Zo Ze]. apply flags_facts_true; auto.
      + destruct (dest_ok o d Hok) as (D0 & D1 & D2 & D3); [right; right; left; rewrite Hk; eauto|].
        unfold nxt in Hstep. injection Hstep as <-. cbn [rf].
        eapply Hgoal; [reflexivity| | | |]; cbn [rf]; unfold written, new_facts; rewrite ?Hk, ?Hd; cbn beta iota.
        * intros z Hz. apply write_alu_frame; intros ->; apply Hz; cbn; auto.
        * intros [E|[E|[E|[]]]]; [congruence|discriminate|discriminate].
        * intros [E|[E|[E|[]]]]; [congruence|discriminate|discriminate].
        * intros p Hp. apply filter_In in Hp. destruct Hp as [Hp _]. apply in_app_or in Hp. destruct Hp as [Hp|Hp].
          -- pose proof (resolve_reg_sound kv (rf st) a H) as Ha.
             destruct (resolve_reg kv a) as [n|t|t]; cbn in Hp; try destruct Hp as [<-|[]]; try destruct Hp.
             unfold fact_true. cbn [fst snd]. rewrite write_alu_d. cbn in Ha. rewrite <- Ha. reflexivity.
          -- apply flags_facts_true; auto.
      + destruct (dest_ok o d Hok) as (D0 & D1 & D2 & D3); [right; right; right; rewrite Hk; eauto|].
        unfold nxt in Hstep. injection Hstep as <-. cbn [rf].
        eapply Hgoal; [reflexivity| | | |]; cbn [rf]; unfold written, new_facts; rewrite ?Hk, ?Hd; cbn beta iota.
        * intros z Hz. apply write_alu_frame; intros ->; apply Hz; cbn; auto.
        * intros [E|[E|[E|[]]]]; [congruence|discriminate|discriminate].
        * intros [E|[E|[E|[]]]]; [congruence|discriminate|discriminate].
        * intros p Hp. apply filter_In in Hp. destruct Hp as [[<-|Hp] _].
          -- unfold fact_true. cbn [fst snd]. rewrite write_alu_d. reflexivity.
          -- apply flags_facts_true; auto.
      + destruct (semA opc (map (argval (rf st)) args) (mem st)) as [[vs m']|]; [|discriminate].
        unfold nxt in Hstep. injection Hstep as <-. cbn [rf].
        eapply Hgoal; [reflexivity| | | |]; cbn [rf]; unfold written, new_facts; rewrite ?Hk, ?Hd; cbn beta iota.
        * intros z Hz. apply write_list_other. exact Hz.
        * intros E. destruct (Hdefs _ E) as [X _]. congruence.
        * intros E. destruct (Hdefs _ E) as [_ X]. congruence.
        * intros p [].
  Qed.
End Transfer.
