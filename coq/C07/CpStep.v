(* C07 — constant_propagate validator: an accepted position executes identically in both programs
   (interpreted-ALU machine, every uninterpreted semantics), given the known-value invariant. *)
From Coq Require Import NArith Bool Lia FunctionalExtensionality.
From SwayV Require Import Base.Util Asm.Model Vm.Alu Vm.AluProofs C08.Spec C08.Model C08.Check C07.CpModel C07.CpProofs.
Local Open Scope N_scope.

(* the invariant a known-value map stands for *)
Definition holds (kv : kmap) (rf : regfile) : Prop :=
  rf R_ZERO = 0 /\ rf R_ONE = 1 /\
  forall r v, In (r, v) kv -> match v with KC n => rf r = n | KE s => rf r = rf s end.

Lemma lookup_sound kv rf r v : holds kv rf -> lookup kv r = Some v ->
  match v with KC n => rf r = n | KE s => rf r = rf s end.
Proof.
  intros (Hz & Ho & Hk). unfold lookup.
  destruct (N.eqb_spec r R_ZERO) as [->|_]; [intros H; injection H as <-; exact Hz|].
  destruct (N.eqb_spec r R_ONE) as [->|_]; [intros H; injection H as <-; exact Ho|].
  destruct (find (fun p => fst p =? r) kv) as [[r' v']|] eqn:E; [|discriminate].
  intros H. injection H as <-. apply find_some in E. destruct E as [Hin He]. cbn in He.
  apply N.eqb_eq in He. subst r'. exact (Hk r v' Hin).
Qed.

Lemma resolve_reg_sound kv rf r : holds kv rf -> sden rf (resolve_reg kv r) = rf r.
Proof.
  intros H. unfold resolve_reg.
  destruct (lookup kv r) as [[n|s]|] eqn:E; [| |reflexivity].
  - symmetry. exact (lookup_sound _ _ _ _ H E).
  - pose proof (lookup_sound _ _ _ _ H E) as Hs. cbn in Hs.
    destruct (lookup kv s) as [[n|t]|] eqn:E2; cbn [sden].
    + pose proof (lookup_sound _ _ _ _ H E2) as X. cbn in X. congruence.
    + pose proof (lookup_sound _ _ _ _ H E2) as X. cbn in X. congruence.
    + congruence.
Qed.

Lemma resolve_sound kv rf a : holds kv rf -> sden rf (resolve kv a) = argval rf a.
Proof. intros H. destruct a; cbn; [apply resolve_reg_sound; exact H | reflexivity | reflexivity]. Qed.

Lemma sval_eqb_eq a b : sval_eqb a b = true -> a = b.
Proof. destruct a, b; cbn; intros H; try discriminate; apply N.eqb_eq in H; subst; reflexivity. Qed.

Lemma decode_alu_shape k op d x y : decode k = Some (IAlu op d x y) ->
  (exists rx, x = OReg rx) /\ (forall t, y <> OTok t).
Proof.
  unfold decode. destruct k as [| | | | | | | |opc args]; try discriminate.
  destruct args as [|a0 args]; [discriminate|]. destruct a0 as [d0|n0|t0]; try discriminate.
  destruct args as [|a1 args]; [discriminate|].
  destruct a1 as [x0|n1|t1].
  - destruct args as [|y0 args].
    + destruct (N.eqb opc OPC_NOT); discriminate.
    + destruct args; [|discriminate].
      destruct (alu_of_opc opc) as [[op0 imm]|]; [|discriminate].
      destruct y0; destruct imm; try discriminate; intros H; injection H as <- <- <- <-;
        (split; [eexists; reflexivity | intros t; discriminate]).
  - destruct args; [|discriminate]. destruct (N.eqb opc OPC_MOVI); discriminate.
  - destruct args; discriminate.
Qed.

Section Step.
  Variable M : Type.
  Variable semA : N -> list N -> M -> option (list val * M).
  Variable call_sem : label -> list val -> M -> option (list val * M).
  Variable lab : label -> option nat.

  Definition nxt (st : state M) (r : regfile) (m : M) : option (state M) := Some (mkSt (S (pc st)) r m).
  Definition jmp (st : state M) (l : label) : option (state M) :=
    match lab l with Some j => Some (mkSt j (rf st) (mem st)) | None => None end.

  (* the semantics of one op (stepA without the program lookup) *)
  Definition opstep (o : op) (st : state M) : option (state M) :=
    let rg := rf st in
    match kind o with
    | KMove d s => nxt st (write_alu d (alu_set (rg s)) rg) (mem st)
    | KNoop => nxt st (clear_flags rg) (mem st)
    | KLabel _ => nxt st rg (mem st)
    | KJump l => jmp st l
    | KJnz l c => if N.eqb (rg c) 0 then nxt st rg (mem st) else jmp st l
    | KCall l =>
        match call_sem l (map rg call_in_regs) (mem st) with
        | Some (vs, m') => nxt st (write_list call_out_regs vs rg) m'
        | None => None
        end
    | KRet | KJmpAddr _ => None
    | KOther opc args =>
        match decode (kind o) with
        | Some (IAlu op d x y) =>
            match exec64 (flags_of rg) op (argval rg x) (argval rg y) with
            | Val r => nxt st (write_alu d r rg) (mem st)
            | VmPanic _ => None
            end
        | Some (INot d a) => nxt st (write_alu d (exec_not (rg a)) rg) (mem st)
        | Some (IMovi d n) => nxt st (write_alu d (alu_set n) rg) (mem st)
        | None =>
            match semA opc (map (argval rg) args) (mem st) with
            | Some (vs, m') => nxt st (write_list (defs o ++ cdefs o) vs rg) (if se o then m' else mem st)
            | None => None
            end
        end
    end.

  Definition fexec (f : form) (st : state M) : option (state M) :=
    let rg := rf st in
    match f with
    | FSet d v => nxt st (write_alu d (alu_set (sden rg v)) rg) (mem st)
    | FAlu op d x y =>
        match exec64 (flags_of rg) op (sden rg x) (sden rg y) with
        | Val r => nxt st (write_alu d r rg) (mem st)
        | VmPanic _ => None
        end
    | FNot d x => nxt st (write_alu d (exec_not (sden rg x)) rg) (mem st)
    | FNop => nxt st (clear_flags rg) (mem st)
    | FSkip => nxt st rg (mem st)
    | FJump l => jmp st l
    | FJnz l c => if N.eqb (sden rg c) 0 then nxt st rg (mem st) else jmp st l
    | FOther opc args ds cs s =>
        match semA opc (map (sden rg) args) (mem st) with
        | Some (vs, m') => nxt st (write_list (ds ++ cs) vs rg) (if s then m' else mem st)
        | None => None
        end
    | FSame k =>
        match k with
        | KLabel _ => nxt st rg (mem st)
        | KCall l => match call_sem l (map rg call_in_regs) (mem st) with
                     | Some (vs, m') => nxt st (write_list call_out_regs vs rg) m'
                     | None => None
                     end
        | _ => None
        end
    end.

  Lemma nf_set_sound kv d v st : holds kv (rf st) -> d <> R_OF -> d <> R_ERR ->
    fexec (nf_set kv d v) st = fexec (FSet d v) st.
  Proof.
    intros H Hof Herr. unfold nf_set. destruct (sval_eqb (resolve_reg kv d) v) eqn:E; [|reflexivity].
    apply sval_eqb_eq in E. cbn [fexec]. unfold nxt. f_equal. f_equal.
    apply functional_extensionality. intros r. unfold write_alu, clear_flags, alu_set, upd. cbn [res of err].
    destruct (N.eqb_spec r d) as [->|Hne]; [|reflexivity].
    destruct (N.eqb_spec d R_ERR); [contradiction|]. destruct (N.eqb_spec d R_OF); [contradiction|].
    rewrite <- E. symmetry. apply resolve_reg_sound. exact H.
  Qed.

  Lemma nf_alu_sound op d x y st : bounded (rf st) -> sden (rf st) x < 2 ^ 64 -> sden (rf st) y < 2 ^ 64 ->
    fexec (nf_alu op d x y) st = fexec (FAlu op d x y) st.
  Proof.
    intros Hb Hx Hy. unfold nf_alu.
    assert (Hid : match identity op x y with Some v => FSet d v | None => FAlu op d x y end = nf_alu op d x y
                  \/ True) by (right; exact I). clear Hid.
    assert (Hident : forall v, identity op x y = Some v -> fexec (FSet d v) st = fexec (FAlu op d x y) st).
    { intros v Hv. cbn [fexec]. rewrite (identity_sound _ _ _ _ Hv (rf st) (flags_of (rf st)) Hb Hx Hy). reflexivity. }
    destruct x as [l|rx|tx]; destruct y as [r|ry|ty]; cbn beta iota.
    1:{ destruct (fold_const op l r) as [c|] eqn:Ef; [|reflexivity].
        cbn [fexec sden]. rewrite (fold_const_sound _ _ _ _ Ef). reflexivity. }
    all: match goal with |- fexec (match identity ?o ?a ?b with _ => _ end) _ = _ =>
           destruct (identity o a b) as [v|] eqn:Ev; [apply Hident; reflexivity | reflexivity] end.
  Qed.

  (* the normal form of an op executes like the op *)
  Theorem nf_sound kv o st : holds kv (rf st) -> bounded (rf st) -> no_zero_one_defs o = true ->
    opstep o st = fexec (nf kv o) st.
  Proof.
    intros H Hb Hok. unfold no_zero_one_defs in Hok. apply andb_true_iff in Hok. destruct Hok as [_ Hok].
    unfold opstep, nf.
    destruct (kind o) as [d s| |l|l|l c|l| |r|opc args] eqn:Hk; try reflexivity.
    - apply negb_true_iff, orb_false_iff in Hok. destruct Hok as [H1 H2]. apply N.eqb_neq in H1, H2.
      rewrite nf_set_sound by assumption. cbn [fexec]. rewrite resolve_reg_sound by exact H. reflexivity.
    - pose proof (resolve_reg_sound kv (rf st) c H) as Hc.
      destruct (resolve_reg kv c) as [[|p]|rc|tc] eqn:E; cbn [sden] in Hc; cbn [fexec sden].
      + rewrite <- Hc. reflexivity.
      + rewrite <- Hc. reflexivity.
      + rewrite Hc. reflexivity.
      + rewrite Hc. reflexivity.
    - destruct (decode (KOther opc args)) as [[op d x y|d a|d n]|] eqn:Hd.
      + apply andb_true_iff in Hok. destruct Hok as [Hd1 Himm].
        apply negb_true_iff, orb_false_iff in Hd1. destruct Hd1 as [H1 H2]. apply N.eqb_neq in H1, H2.
        destruct (decode_alu_shape _ _ _ _ _ Hd) as [[rx ->] Hyt].
        assert (Hx : sden (rf st) (resolve kv (OReg rx)) < 2 ^ 64).
        { rewrite resolve_sound by exact H. cbn. apply Hb. }
        assert (Hy : sden (rf st) (resolve kv y) < 2 ^ 64).
        { rewrite resolve_sound by exact H. destruct y as [ry|ny|ty]; cbn.
          - apply Hb.
          - apply N.ltb_lt. exact Himm.
          - exfalso. exact (Hyt ty eq_refl). }
        assert (E : fexec (match nf_alu op d (resolve kv (OReg rx)) (resolve kv y) with
                           | FSet d' v => nf_set kv d' v | f => f end) st
                    = fexec (nf_alu op d (resolve kv (OReg rx)) (resolve kv y)) st).
        { assert (Hdd : forall d' v, nf_alu op d (resolve kv (OReg rx)) (resolve kv y) = FSet d' v -> d' = d).
          { intros d' v. unfold nf_alu.
            destruct (resolve kv (OReg rx)), (resolve kv y); try destruct (fold_const op _ _);
              try destruct (identity op _ _); intros X; congruence. }
          destruct (nf_alu op d (resolve kv (OReg rx)) (resolve kv y)) as [d' v| | | | | | | |] eqn:En; try reflexivity.
          rewrite (Hdd d' v eq_refl). apply nf_set_sound; assumption. }
        rewrite E. rewrite nf_alu_sound by assumption. cbn [fexec].
        rewrite !resolve_sound by exact H. reflexivity.
      + apply negb_true_iff, orb_false_iff in Hok. destruct Hok as [H1 H2]. apply N.eqb_neq in H1, H2.
        pose proof (resolve_reg_sound kv (rf st) a H) as Ha.
        destruct (resolve_reg kv a) as [n|ra|ta] eqn:E; cbn [sden] in Ha.
        * rewrite nf_set_sound by assumption. cbn [fexec sden]. rewrite <- Ha. reflexivity.
        * cbn [fexec sden]. rewrite Ha. reflexivity.
        * cbn [fexec sden]. rewrite Ha. reflexivity.
      + apply andb_true_iff in Hok. destruct Hok as [Hd1 _].
        apply negb_true_iff, orb_false_iff in Hd1. destruct Hd1 as [H1 H2]. apply N.eqb_neq in H1, H2.
        rewrite nf_set_sound by assumption. reflexivity.
      + cbn [fexec]. rewrite map_map.
        rewrite (map_ext (fun a => sden (rf st) (resolve kv a)) (argval (rf st))); [reflexivity|].
        intros a. apply resolve_sound. exact H.
  Qed.

  Lemma list_sval_eq : forall a b, list_eqb sval_eqb a b = true -> a = b.
  Proof. apply list_eqb_eq. exact sval_eqb_eq. Qed.

  (* equal normal forms execute identically *)
  Theorem form_eqb_sound kv f1 f2 st : holds kv (rf st) -> form_eqb kv f1 f2 = true ->
    fexec f1 st = fexec f2 st.
  Proof.
    intros H E. destruct f1, f2; cbn [form_eqb] in E; try discriminate.
    - apply andb_true_iff in E. destruct E as [E1 E2]. apply N.eqb_eq in E1. apply sval_eqb_eq in E2. subst. reflexivity.
    - apply andb_true_iff in E. destruct E as [E1 E2]. apply N.eqb_eq in E1. subst d0.
      assert (Hsame : op = op0 /\ ((x = x0 /\ y = y0) \/ (is_commutative op = true /\ x = y0 /\ y = x0))).
      { destruct op, op0; try discriminate; (split; [reflexivity|]);
          apply orb_true_iff in E2; destruct E2 as [E2|E2];
          repeat (apply andb_true_iff in E2; destruct E2 as [? E2]);
          repeat match goal with Hs : sval_eqb _ _ = true |- _ => apply sval_eqb_eq in Hs end;
          subst; try (left; split; reflexivity); try discriminate; right; repeat split; auto; apply sval_eqb_eq; assumption. }
      destruct Hsame as [<- [[<- <-]|(Hc & <- & <-)]]; [reflexivity|].
      cbn [fexec]. rewrite (exec64_comm op _ _ _ Hc). reflexivity.
    - apply andb_true_iff in E. destruct E as [E1 E2]. apply N.eqb_eq in E1. apply sval_eqb_eq in E2. subst. reflexivity.
    - reflexivity.
    - (* FSkip ~ FNop when the flags are known to be zero *)
      unfold flags_known_zero in E.
      destruct (lookup kv R_OF) as [[[|]|]|] eqn:E1; try discriminate.
      destruct (lookup kv R_ERR) as [[[|]|]|] eqn:E2; try discriminate.
      pose proof (lookup_sound _ _ _ _ H E1) as X1. pose proof (lookup_sound _ _ _ _ H E2) as X2. cbn in X1, X2.
      cbn [fexec]. unfold nxt. f_equal. f_equal. apply functional_extensionality. intros r.
      unfold clear_flags, upd. destruct (N.eqb_spec r R_ERR) as [->|]; [exact X2|].
      destruct (N.eqb_spec r R_OF) as [->|]; [exact X1|reflexivity].
    - reflexivity.
    - apply N.eqb_eq in E. subst. reflexivity.
    - apply andb_true_iff in E. destruct E as [E1 E2]. apply N.eqb_eq in E1. apply sval_eqb_eq in E2. subst. reflexivity.
    - repeat (apply andb_true_iff in E; destruct E as [? E]).
      repeat match goal with
             | Hn : N.eqb _ _ = true |- _ => apply N.eqb_eq in Hn
             | Hl : list_eqb sval_eqb _ _ = true |- _ => apply list_sval_eq in Hl
             | Hl : list_eqb N.eqb _ _ = true |- _ => apply list_eqb_N in Hl
             end.
      apply Bool.eqb_prop in E. subst. reflexivity.
    - apply kind_eqb_eq in E. subst. reflexivity.
  Qed.

  (* an accepted position: both ops take the same step from the same state *)
  Theorem cp_position_sound kv b a st : holds kv (rf st) -> bounded (rf st) ->
    no_zero_one_defs a = true -> no_zero_one_defs b = true ->
    form_eqb kv (nf kv b) (nf kv a) = true ->
    opstep b st = opstep a st.
  Proof.
    intros H Hb Ha Hbb E. rewrite (nf_sound kv b st H Hb Hbb), (nf_sound kv a st H Hb Ha).
    apply form_eqb_sound with (kv := kv); assumption.
  Qed.
End Step.

Lemma stepA_opstep M semA cs ops (st : state M) o : nth_error ops (pc st) = Some o ->
  stepA M semA cs ops st = opstep M semA cs (label_index ops) o st.
Proof.
  intros Hn. unfold stepA, opstep, nxt, jmp. rewrite Hn.
  destruct (kind o); try reflexivity.
Qed.
