(* C07 — per-run validator for constant_propagate.  NO proofs here.
   * an abstract machine with an INTERPRETED ALU fragment (Vm.Alu: ADD..GT, NOT, their immediate
     forms, MOVI; MOVE and NOOP clear $of/$err) — every other op stays uninterpreted, but its
     semantics now sees its operands in text order;
   * a known-value map (constant / equal-to-register) re-derived by the validator with a transfer
     function that never knows less than constant_propagate.rs (it kills only what an op writes);
   * normal forms: two ops are accepted as equivalent under the map when their normal forms agree. *)
From SwayV Require Import Base.Util Asm.Model Vm.Alu.
Local Open Scope N_scope.

Definition R_ONE : reg := 1.
Definition R_FLAG : reg := 15.
Definition OPC_MOVI : N := 6.
Definition OPC_NOT : N := 44.

(* (operation, immediate form?) *)
Definition alu_of_opc (opc : N) : option (op64 * bool) :=
  match opc with
  | 7 => Some (ADD, false) | 31 => Some (SUB, false) | 32 => Some (MUL, false) | 33 => Some (DIV, false)
  | 34 => Some (MOD, false) | 35 => Some (EXP, false) | 36 => Some (AND, false) | 37 => Some (OR, false)
  | 38 => Some (XOR, false) | 39 => Some (SLL, false) | 40 => Some (SRL, false) | 41 => Some (EQ, false)
  | 42 => Some (LT, false) | 43 => Some (GT, false)
  | 45 => Some (ADD, true) | 46 => Some (SUB, true) | 47 => Some (MUL, true) | 48 => Some (DIV, true)
  | 49 => Some (MOD, true) | 50 => Some (EXP, true) | 51 => Some (AND, true) | 52 => Some (OR, true)
  | 53 => Some (XOR, true) | 8 => Some (SLL, true) | 55 => Some (SRL, true)
  | _ => None
  end.

Inductive iop :=
| IAlu (op : op64) (d : reg) (x y : operand)
| INot (d a : reg)
| IMovi (d : reg) (n : N).

Definition decode (k : opkind) : option iop :=
  match k with
  | KOther opc [OReg d; OReg x; y] =>
      match alu_of_opc opc with
      | Some (op, imm) =>
          match y with
          | OReg _ => if imm then None else Some (IAlu op d (OReg x) y)
          | OImm _ => if imm then Some (IAlu op d (OReg x) y) else None
          | OTok _ => None
          end
      | None => None
      end
  | KOther opc [OReg d; OReg a] => if N.eqb opc OPC_NOT then Some (INot d a) else None
  | KOther opc [OReg d; OImm n] => if N.eqb opc OPC_MOVI then Some (IMovi d n) else None
  | _ => None
  end.

(* ---- machine ---- *)
Definition argval (rf : regfile) (a : operand) : N :=
  match a with OReg r => rf r | OImm n => n | OTok t => t end.

Definition flags_of (rf : regfile) : flags :=
  {| unsafemath := N.testbit (rf R_FLAG) 0; wrapping := N.testbit (rf R_FLAG) 1 |}.

Definition write_alu (d : reg) (r : alu_res) (rf : regfile) : regfile :=
  upd (upd (upd rf R_OF (of r)) R_ERR (err r)) d (res r).
Definition clear_flags (rf : regfile) : regfile := upd (upd rf R_OF 0) R_ERR 0.

(* calls may write every constant register except $zero/$one *)
Definition call_out_regs : list reg :=
  filter (fun r => negb (orb (N.eqb r R_ZERO) (N.eqb r R_ONE))) const_regs.

Section MachineA.
  Variable M : Type.
  (* uninterpreted ops: opcode, operand values in text order, memory *)
  Variable semA : N -> list N -> M -> option (list val * M).
  Variable call_sem : label -> list val -> M -> option (list val * M).

  Definition stepA (ops : list op) (st : state M) : option (state M) :=
    match nth_error ops (pc st) with
    | None => None
    | Some o =>
      let rg := rf st in
      match kind o with
      | KMove d s => Some (mkSt (S (pc st)) (write_alu d (alu_set (rg s)) rg) (mem st))
      | KNoop => Some (mkSt (S (pc st)) (clear_flags rg) (mem st))
      | KLabel _ => Some (mkSt (S (pc st)) rg (mem st))
      | KJump l => match label_index ops l with
                   | Some j => Some (mkSt j rg (mem st)) | None => None end
      | KJnz l c =>
          if N.eqb (rg c) 0 then Some (mkSt (S (pc st)) rg (mem st))
          else match label_index ops l with
               | Some j => Some (mkSt j rg (mem st)) | None => None end
      | KCall l =>
          match call_sem l (map rg call_in_regs) (mem st) with
          | Some (vs, m') => Some (mkSt (S (pc st)) (write_list call_out_regs vs rg) m')
          | None => None
          end
      | KRet | KJmpAddr _ => None
      | KOther opc args =>
          match decode (kind o) with
          | Some (IAlu op d x y) =>
              match exec64 (flags_of rg) op (argval rg x) (argval rg y) with
              | Val r => Some (mkSt (S (pc st)) (write_alu d r rg) (mem st))
              | VmPanic _ => None
              end
          | Some (INot d a) => Some (mkSt (S (pc st)) (write_alu d (exec_not (rg a)) rg) (mem st))
          | Some (IMovi d n) => Some (mkSt (S (pc st)) (write_alu d (alu_set n) rg) (mem st))
          | None =>
              match semA opc (map (argval rg) args) (mem st) with
              | Some (vs, m') =>
                  Some (mkSt (S (pc st)) (write_list (defs o ++ cdefs o) vs rg) (if se o then m' else mem st))
              | None => None
              end
          end
      end
    end.

  Fixpoint runA (ops : list op) (n : nat) (st : state M) : result M :=
    match n with
    | O => Running st
    | S n' => match stepA ops st with Some st' => runA ops n' st' | None => Stopped st end
    end.
End MachineA.

(* ---- known values ---- *)
Inductive kval := KC (n : N) | KE (r : reg).
Definition kmap := list (reg * kval).

Definition lookup (kv : kmap) (r : reg) : option kval :=
  if N.eqb r R_ZERO then Some (KC 0) else if N.eqb r R_ONE then Some (KC 1)
  else match find (fun p => N.eqb (fst p) r) kv with Some p => Some (snd p) | None => None end.

Definition kval_mentions (v : kval) (r : reg) : bool := match v with KE s => N.eqb s r | KC _ => false end.

(* forget r and every entry that says "equal to r" *)
Definition kill (kv : kmap) (r : reg) : kmap :=
  filter (fun p => andb (negb (N.eqb (fst p) r)) (negb (kval_mentions (snd p) r))) kv.
Definition kill_all (kv : kmap) (rs : list reg) : kmap := fold_left kill rs kv.
Definition kset (kv : kmap) (r : reg) (v : kval) : kmap :=
  if orb (N.eqb r R_ZERO) (N.eqb r R_ONE) then kv
  else if kval_mentions v r then kv else (r, v) :: kv.

(* symbolic operand values *)
Inductive sval := SC (n : N) | SR (r : reg) | ST (t : N).
Definition sval_eqb (a b : sval) : bool :=
  match a, b with
  | SC x, SC y => N.eqb x y | SR x, SR y => N.eqb x y | ST x, ST y => N.eqb x y | _, _ => false
  end.

Definition resolve_reg (kv : kmap) (r : reg) : sval :=
  match lookup kv r with
  | Some (KC n) => SC n
  | Some (KE s) => match lookup kv s with
                   | Some (KC n) => SC n
                   | Some (KE t) => SR t
                   | None => SR s
                   end
  | None => SR r
  end.
Definition resolve (kv : kmap) (a : operand) : sval :=
  match a with OReg r => resolve_reg kv r | OImm n => SC n | OTok t => ST t end.

Definition kval_of (v : sval) : option kval :=
  match v with SC n => Some (KC n) | SR r => Some (KE r) | ST _ => None end.

(* ---- normal forms ---- *)
Inductive form :=
| FSet (d : reg) (v : sval)                       (* d := v ; $of, $err := 0 *)
| FAlu (op : op64) (d : reg) (x y : sval)
| FNot (d : reg) (x : sval)
| FNop                                            (* $of, $err := 0 *)
| FSkip                                           (* nothing *)
| FJump (l : label)
| FJnz (l : label) (c : sval)
| FOther (opc : N) (args : list sval) (ds cs : list reg) (s : bool)
| FSame (k : opkind).                             (* label / call / ret / jmpaddr: compared as is *)

Definition is_commutative (op : op64) : bool :=
  match op with ADD | MUL | AND | OR | XOR => true | _ => false end.

(* exec64 under the strictest flags: a value here is the value under every flag setting *)
Definition fold_const (op : op64) (l r : N) : option N :=
  match exec64 default_flags op l r with
  | Val a => if andb (N.eqb (of a) 0) (N.eqb (err a) 0) then Some (res a) else None
  | VmPanic _ => None
  end.

(* the algebraic identities (valid for every value < 2^64 of the unknown operand) *)
Definition identity (op : op64) (x y : sval) : option sval :=
  match op, x, y with
  | ADD, SC 0, _ => Some y | ADD, _, SC 0 => Some x
  | SUB, _, SC 0 => Some x
  | MUL, SC 1, _ => Some y | MUL, _, SC 1 => Some x | MUL, SC 0, _ => Some (SC 0) | MUL, _, SC 0 => Some (SC 0)
  | DIV, _, SC 1 => Some x
  | EXP, _, SC 0 => Some (SC 1) | EXP, _, SC 1 => Some x | EXP, SC 1, _ => Some (SC 1)
  | MOD, _, SC 1 => Some (SC 0)
  | AND, SC 0, _ => Some (SC 0) | AND, _, SC 0 => Some (SC 0)
  | OR, SC 0, _ => Some y | OR, _, SC 0 => Some x
  | XOR, SC 0, _ => Some y | XOR, _, SC 0 => Some x
  | SLL, _, SC 0 => Some x | SRL, _, SC 0 => Some x
  | _, _, _ => None
  end.

Definition nf_alu (op : op64) (d : reg) (x y : sval) : form :=
  match x, y with
  | SC l, SC r => match fold_const op l r with Some c => FSet d (SC c) | None => FAlu op d x y end
  | _, _ => match identity op x y with Some v => FSet d v | None => FAlu op d x y end
  end.

(* d := v where d is already known to hold v: only the flags are cleared *)
Definition nf_set (kv : kmap) (d : reg) (v : sval) : form :=
  if sval_eqb (resolve_reg kv d) v then FNop else FSet d v.

Definition nf (kv : kmap) (o : op) : form :=
  match kind o with
  | KMove d s => nf_set kv d (resolve_reg kv s)
  | KNoop => FNop
  | KJump l => FJump l
  | KJnz l c => match resolve_reg kv c with
                | SC 0 => FSkip
                | SC _ => FJump l
                | v => FJnz l v
                end
  | KOther opc args =>
      match decode (kind o) with
      | Some (IAlu op d x y) =>
          match nf_alu op d (resolve kv x) (resolve kv y) with
          | FSet d' v => nf_set kv d' v
          | f => f
          end
      | Some (INot d a) =>
          match resolve_reg kv a with
          | SC n => nf_set kv d (SC (N.lnot n 64))
          | v => FNot d v
          end
      | Some (IMovi d n) => nf_set kv d (SC n)
      | None => FOther opc (map (resolve kv) args) (defs o) (cdefs o) (se o)
      end
  | k => FSame k
  end.

Definition flags_known_zero (kv : kmap) : bool :=
  match lookup kv R_OF, lookup kv R_ERR with Some (KC 0), Some (KC 0) => true | _, _ => false end.

Definition form_eqb (kv : kmap) (a b : form) : bool :=
  match a, b with
  | FSet d v, FSet d' v' => andb (N.eqb d d') (sval_eqb v v')
  | FAlu op d x y, FAlu op' d' x' y' =>
      andb (N.eqb d d')
      (match op, op' with
       | ADD, ADD | SUB, SUB | MUL, MUL | DIV, DIV | MOD, MOD | EXP, EXP | AND, AND | OR, OR | XOR, XOR
       | SLL, SLL | SRL, SRL | EQ, EQ | LT, LT | GT, GT =>
           orb (andb (sval_eqb x x') (sval_eqb y y'))
               (andb (is_commutative op) (andb (sval_eqb x y') (sval_eqb y x')))
       | _, _ => false
       end)
  | FNot d x, FNot d' x' => andb (N.eqb d d') (sval_eqb x x')
  | FNop, FNop => true
  | FSkip, FSkip => true
  | FSkip, FNop => flags_known_zero kv        (* JNZ on a known zero turned into NOOP *)
  | FJump l, FJump l' => N.eqb l l'
  | FJnz l c, FJnz l' c' => andb (N.eqb l l') (sval_eqb c c')
  | FOther o x ds cs s, FOther o' x' ds' cs' s' =>
      andb (N.eqb o o') (andb (list_eqb sval_eqb x x')
      (andb (list_eqb N.eqb ds ds') (andb (list_eqb N.eqb cs cs') (Bool.eqb s s'))))
  | FSame k, FSame k' => kind_eqb k k'
  | _, _ => false
  end.

(* ---- transfer ---- *)
Definition alu_sets_flags_zero (op : op64) : bool :=
  match op with AND | OR | XOR | SLL | SRL | EQ | LT | GT => true | _ => false end.

(* registers an op writes on this machine *)
Definition written (o : op) : list reg :=
  match kind o with
  | KMove d _ => [d; R_OF; R_ERR]
  | KNoop => [R_OF; R_ERR]
  | KOther _ _ =>
      match decode (kind o) with
      | Some (IAlu _ d _ _) => [d; R_OF; R_ERR]
      | Some (INot d _) => [d; R_OF; R_ERR]
      | Some (IMovi d _) => [d; R_OF; R_ERR]
      | None => defs o ++ cdefs o
      end
  | _ => []
  end.

Definition memr (r : reg) (l : list reg) : bool := existsb (N.eqb r) l.
(* a fact "equal to s" is only kept when s itself is not overwritten *)
Definition fact_ok (W : list reg) (p : reg * kval) : bool :=
  match snd p with KC _ => true | KE s => negb (memr s W) end.

Definition flags_zero_facts : list (reg * kval) := [(R_OF, KC 0); (R_ERR, KC 0)].
Definition opt_fact (d : reg) (v : option kval) : list (reg * kval) :=
  match v with Some k => [(d, k)] | None => [] end.

Definition alu_value (kv : kmap) (op : op64) (x y : operand) : option kval :=
  match resolve kv x, resolve kv y with
  | SC l, SC r => match fold_const op l r with Some c => Some (KC c) | None => None end
  | sx, sy => match identity op sx sy with Some s => kval_of s | None => None end
  end.

(* what is known after the op, computed from the map before it *)
Definition new_facts (kv : kmap) (o : op) : list (reg * kval) :=
  match kind o with
  | KMove d s => opt_fact d (kval_of (resolve_reg kv s)) ++ flags_zero_facts
  | KNoop => flags_zero_facts
  | KOther _ _ =>
      match decode (kind o) with
      | Some (IAlu op d x y) =>
          match alu_value kv op x y with
          | Some k => (d, k) :: flags_zero_facts
          | None => if alu_sets_flags_zero op then flags_zero_facts else []
          end
      | Some (INot d a) =>
          opt_fact d (match resolve_reg kv a with SC n => Some (KC (N.lnot n 64)) | _ => None end) ++ flags_zero_facts
      | Some (IMovi d n) => (d, KC n) :: flags_zero_facts
      | None => []
      end
  | _ => []
  end.

Definition add_facts (m : kmap) (fs : list (reg * kval)) : kmap :=
  fold_left (fun m p => kset m (fst p) (snd p)) fs m.

Definition transfer_general (kv : kmap) (o : op) : kmap :=
  let W := written o in add_facts (kill_all kv W) (filter (fact_ok W) (new_facts kv o)).

Definition transfer_kv (targets : list label) (kv : kmap) (o : op) : kmap :=
  match kind o with
  | KLabel l => if existsb (N.eqb l) targets then [] else kv
  | KJump _ | KJnz _ _ => kv
  | KCall _ | KRet | KJmpAddr _ => []
  | KOther opc _ =>
      match decode (kind o) with
      | Some _ => transfer_general kv o
      | None =>
          if N.eqb opc 12 then   (* pusha: constant_propagate keeps what it knows about virtual registers *)
            filter (fun p => andb (is_virt (fst p)) (match snd p with KC _ => true | KE s => is_virt s end))
                   (kill_all kv (written o))
          else if is_org_stop opc then [] else transfer_general kv o
      end
  | _ => transfer_general kv o
  end.

(* labels some jump of the program goes to *)
Definition jump_targets (ops : list op) : list label :=
  flat_map (fun o => match kind o with KJump l => [l] | KJnz l _ => [l] | _ => [] end) ops.

(* $zero/$one are never written; interpreted ops do not target $of/$err; immediates are words *)
Definition no_zero_one_defs (o : op) : bool :=
  andb
  (forallb (fun r => negb (orb (N.eqb r R_ZERO) (N.eqb r R_ONE)))
          (defs o ++ cdefs o ++ match kind o with
                                | KMove d _ => [d]
                                | k => match decode k with
                                       | Some (IAlu _ d _ _) => [d] | Some (INot d _) => [d] | Some (IMovi d _) => [d]
                                       | None => [] end
                                end))
  (match kind o with
   | KMove d _ => negb (orb (N.eqb d R_OF) (N.eqb d R_ERR))
   | k => match decode k with
          | Some (IAlu _ d _ y) => andb (negb (orb (N.eqb d R_OF) (N.eqb d R_ERR)))
                                        (match y with OImm n => N.ltb n (2 ^ 64) | _ => true end)
          | Some (INot d _) => negb (orb (N.eqb d R_OF) (N.eqb d R_ERR))
          | Some (IMovi d n) => andb (negb (orb (N.eqb d R_OF) (N.eqb d R_ERR))) (N.ltb n (2 ^ 64))
          | None => true end
   end).

(* walk both programs; result: the rejected positions ([] = accepted; a length mismatch rejects
   the first position without a partner) *)
Fixpoint cp_walk (targets : list label) (kv : kmap) (bs as_ : list op) (i : N) : list N :=
  match bs, as_ with
  | [], [] => []
  | b :: bt, a :: at_ =>
      let kv0 := match kind a with KLabel l => if existsb (N.eqb l) targets then [] else kv | _ => kv end in
      let ok := andb (form_eqb kv0 (nf kv0 b) (nf kv0 a)) (andb (no_zero_one_defs a) (no_zero_one_defs b)) in
      let rest := cp_walk targets (transfer_kv targets kv0 a) bt at_ (i + 1) in
      if ok then rest else i :: rest
  | _, _ => [i]
  end.

Definition has_jmpaddr_b (ops : list op) : bool :=
  existsb (fun o => match kind o with KJmpAddr _ => true | _ => false end) ops.

Definition cp_check (before after : list op) : list N :=
  if has_jmpaddr_b before then (if list_eqb op_eqb before after then [] else [0])
  else cp_walk (jump_targets after) [] before after 0.
