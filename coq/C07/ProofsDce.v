(* C07 — dce: the deleted set computed by the scan satisfies the hypotheses of Asm/Delete.v,
   for every program (liveness_sound: the table used at block boundaries is a post-fixpoint). *)
From Coq Require Import MSets.MSetPositive FSets.FMapPositive.
From SwayV Require Import Base.Util Asm.Model Asm.Erase Asm.Delete C08.Spec C08.Model C08.Check
  C07.Model C07.Spec C07.Proofs C07.ProofsInplace.
Local Open Scope N_scope.

(* ---- the liveness model returns post-fixpoints only ---- *)
Lemma iterate_postfix kill : forall fuel items ritems L0 L,
  iterate kill fuel items ritems L0 = Some L -> is_postfix kill items L = true.
Proof.
  induction fuel as [|f IH]; intros items ritems L0 L H; [discriminate|]. cbn in H.
  destruct (is_postfix kill items (sweep kill ritems L0)) eqn:E.
  - injection H as <-. exact E.
  - eapply IH. exact H.
Qed.

Lemma liveness_postfix kill fuel ops L : liveness kill fuel ops = Some L ->
  is_postfix kill (items_of ops) L = true.
Proof. unfold liveness. apply iterate_postfix. Qed.

(* liveness_sound: the computed table contains the least solution, i.e. every register that is
   read before being written on some path from i *)
Theorem liveness_sound kill fuel ops L : liveness kill fuel ops = Some L ->
  forall i r, live_gen kill ops i r -> PS.In (rkey r) (lget L i).
Proof. intros H. apply postfix_sound. eapply liveness_postfix. exact H. Qed.

Lemma postfix_use ops L b o r : is_postfix defs (items_of ops) L = true ->
  nth_error ops b = Some o -> In r (uses o) -> PS.In (rkey r) (lget L b).
Proof.
  intros Hp Hn Hu. unfold is_postfix in Hp. rewrite forallb_forall in Hp.
  pose proof (Hp _ (items_of_in _ _ _ Hn)) as H. cbn in H. apply PS.subset_spec in H.
  apply H. unfold transfer. apply PS.union_spec. left. apply set_of_in. exact Hu.
Qed.

Lemma postfix_thru ops L b o j r : is_postfix defs (items_of ops) L = true ->
  nth_error ops b = Some o -> In j (succs ops b) -> PS.In (rkey r) (lget L j) -> ~ In r (defs o) ->
  PS.In (rkey r) (lget L b).
Proof.
  intros Hp Hn Hj Hl Hd. unfold is_postfix in Hp. rewrite forallb_forall in Hp.
  pose proof (Hp _ (items_of_in _ _ _ Hn)) as H. cbn in H. apply PS.subset_spec in H.
  apply H. unfold transfer. apply PS.union_spec. right. apply PS.diff_spec. split.
  - eapply out_of_in; eassumption.
  - apply set_of_notin. exact Hd.
Qed.

(* ---- set helpers ---- *)
Lemma remove_all_keep rs : forall s r, PS.In (rkey r) s -> ~ In r rs -> PS.In (rkey r) (remove_all rs s).
Proof.
  unfold remove_all. induction rs as [|x rs IH]; intros s r H Hn; cbn; [exact H|].
  apply IH; [|intros Hi; apply Hn; right; exact Hi].
  apply PS.remove_spec. split; [exact H|]. intros E. apply rkey_inj in E. apply Hn. left. symmetry. exact E.
Qed.

Lemma add_all_old rs s k : PS.In k s -> PS.In k (add_all rs s).
Proof. unfold add_all. apply fold_add_mono. Qed.
Lemma add_all_new rs s r : In r rs -> PS.In (rkey r) (add_all rs s).
Proof. unfold add_all. apply fold_add_in. Qed.

Lemma skipn_nth {A} : forall (l : list A) b x, nth_error l b = Some x -> skipn b l = x :: skipn (S b) l.
Proof.
  induction l as [|y l IH]; intros b x H; [destruct b; discriminate|].
  destruct b as [|b]; cbn in H; [injection H as ->; reflexivity|]. cbn [skipn]. apply IH. exact H.
Qed.

Section Dce.
  Variable ops : list op.
  Variable L : ltab.
  Hypothesis HL : is_postfix defs (items_of ops) L = true.
  Hypothesis Htab : dce_table_ok ops = true.

  Definition suffix (b : nat) : list item := items_aux ops b (skipn b ops).
  Definition Cat (b : nat) : PS.t := snd (dce_fold L (suffix b)).
  Definition kbit (b : nat) (o : op) : bool := fst (dce_step L (b, o, succs_of ops b o) (Cat (S b))).
  Let keep := fst (dce_fold L (items_of ops)).
  Let ops' := select keep ops.

  Lemma Cat_unfold b o : nth_error ops b = Some o ->
    Cat b = snd (dce_step L (b, o, succs_of ops b o) (Cat (S b))).
  Proof.
    intros Hn. unfold Cat, suffix. rewrite (skipn_nth _ _ _ Hn). cbn [items_aux dce_fold].
    destruct (dce_fold L (items_aux ops (S b) (skipn (S b) ops))) as [ks cur]. cbn [snd].
    destruct (dce_step L (b, o, succs_of ops b o) cur). reflexivity.
  Qed.

  Lemma keep_nth_gen : forall l b0 k,
    nth_error (fst (dce_fold L (items_aux ops b0 l))) k =
    option_map (fun o => fst (dce_step L ((b0 + k)%nat, o, succs_of ops (b0 + k) o)
                                       (snd (dce_fold L (items_aux ops (S (b0 + k)) (skipn (S k) l))))))
               (nth_error l k).
  Proof.
    induction l as [|x l IH]; intros b0 k; [destruct k; reflexivity|].
    cbn [items_aux dce_fold].
    destruct (dce_fold L (items_aux ops (S b0) l)) as [ks cur] eqn:E.
    destruct (dce_step L (b0, x, succs_of ops b0 x) cur) as [kx cx] eqn:E2. cbn [fst].
    destruct k as [|k]; cbn [nth_error].
    - rewrite Nat.add_0_r. cbn [skipn option_map]. rewrite E. cbn [snd]. rewrite E2. reflexivity.
    - specialize (IH (S b0) k). rewrite E in IH. cbn [fst] in IH. rewrite IH.
      rewrite <- Nat.add_succ_comm. reflexivity.
  Qed.

  Lemma keep_nth b : nth_error keep b = option_map (kbit b) (nth_error ops b).
  Proof. unfold keep, items_of. rewrite (keep_nth_gen ops 0%nat b). reflexivity. Qed.

  Lemma keep_length : length keep = length ops.
  Proof.
    assert (H : forall l b0, length (fst (dce_fold L (items_aux ops b0 l))) = length l).
    { induction l as [|x l IH]; intros b0; [reflexivity|]. cbn [items_aux dce_fold].
      specialize (IH (S b0)). destruct (dce_fold L (items_aux ops (S b0) l)) as [ks cur].
      destruct (dce_step L (b0, x, succs_of ops b0 x) cur). cbn in *. rewrite IH. reflexivity. }
    apply H.
  Qed.

  (* table facts *)
  Lemma tab_wf : wf_c ops.
  Proof.
    unfold dce_table_ok in Htab. apply andb_true_iff in Htab. destruct Htab as [Hw _].
    rewrite forallb_forall in Hw. intros i o Hn. apply wf_c_opb_sound. apply Hw. eapply nth_error_In; eassumption.
  Qed.

  Lemma tab_nose b o : nth_error ops b = Some o -> se o = false ->
    pure_kind o = true /\ is_block_jump o = false /\ In (S b) (succs ops b) /\
    (forall l, is_label l o = false) /\ forall r, In r (defs_c o) -> ~ In r call_in_regs.
  Proof.
    intros Hn Hse. unfold dce_table_ok in Htab. apply andb_true_iff in Htab. destruct Htab as [_ Ht].
    rewrite forallb_forall in Ht. specialize (Ht o (nth_error_In _ _ Hn)). rewrite Hse in Ht. cbn [orb] in Ht.
    apply andb_true_iff in Ht. destruct Ht as [Hk Hc]. rewrite forallb_forall in Hc.
    assert (Hci : forall r, In r (defs_c o) -> ~ In r call_in_regs).
    { intros r Hr Hin. specialize (Hc r Hr). apply negb_true_iff in Hc. rewrite (In_memb _ _ Hin) in Hc. discriminate. }
    unfold pure_kind, is_block_jump, is_label, succs. rewrite Hn. unfold succs_of.
    destruct (kind o) as [d s| |l|l|l c|l| |r|opc args]; try discriminate.
    - repeat split; auto. left. reflexivity.
    - repeat split; auto. left. reflexivity.
    - rewrite Hse. apply negb_true_iff in Hk. rewrite Hk. repeat split; auto. left. reflexivity.
  Qed.

  (* a dropped position: the op has no side effect and none of its defs is in cur_live *)
  Lemma dropped_spec b o : nth_error ops b = Some o -> kbit b o = false ->
    se o = false /\ is_block_jump o = false /\
    (forall d, In d (defs_c o) -> ~ PS.In (rkey d) (Cat (S b))) /\ Cat b = remove_all (defs_c o) (Cat (S b)).
  Proof.
    intros Hn Hk. rewrite (Cat_unfold b o Hn). unfold kbit, dce_step in *.
    destruct (is_block_jump o); [discriminate|]. cbn [fst snd] in *.
    fold (defs_c o) in *.
    destruct (forallb (fun d => negb (PS.mem (rkey d) (Cat (S b)))) (defs_c o)) eqn:Hf; cbn [andb negb] in Hk; [|discriminate].
    destruct (se o); cbn [negb andb] in *; [discriminate|].
    split; [reflexivity|]. split; [reflexivity|]. split; [|reflexivity].
    rewrite forallb_forall in Hf. intros d Hd Hin. specialize (Hf d Hd). apply negb_true_iff in Hf.
    apply PS.mem_spec in Hin. congruence.
  Qed.

  (* a kept position: uses are in cur_live; what flows through *)
  Lemma kept_spec b o : nth_error ops b = Some o -> kbit b o = true ->
    (forall u, In u (uses o) -> PS.In (rkey u) (Cat b)) /\
    (is_block_jump o = true -> forall k, PS.In k (out_of L (succs_of ops b o)) -> PS.In k (Cat b)) /\
    (is_block_jump o = false -> forall r, PS.In (rkey r) (Cat (S b)) -> ~ In r (defs_c o) -> PS.In (rkey r) (Cat b)).
  Proof.
    intros Hn Hk. rewrite (Cat_unfold b o Hn). unfold kbit, dce_step in *.
    destruct (is_block_jump o); cbn [fst snd] in *.
    - split; [intros u Hu; apply add_all_new; exact Hu|]. split; [intros _ k Hin; apply add_all_old; exact Hin|discriminate].
    - fold (defs_c o) in *.
      destruct (andb (forallb (fun d => negb (PS.mem (rkey d) (Cat (S b)))) (defs_c o)) (negb (se o))); [discriminate|].
      split; [intros u Hu; apply add_all_new; exact Hu|]. split; [discriminate|].
      intros _ r Hr Hd. apply add_all_old. apply remove_all_keep; assumption.
  Qed.

  Lemma dropped_not_label : forall i x, nth_error keep i = Some false -> nth_error ops i = Some x ->
    forall l, is_label l x = false.
  Proof.
    intros i x Hk Hx l. rewrite keep_nth, Hx in Hk. cbn in Hk. injection Hk as Hk.
    destruct (dropped_spec i x Hx Hk) as (Hse & _). destruct (tab_nose i x Hx Hse) as (_ & _ & _ & Hl & _). apply Hl.
  Qed.

  Lemma label_sel l : label_index ops' l = option_map (pos keep) (label_index ops l).
  Proof.
    unfold label_index, ops'. apply find_index_select; [exact keep_length|].
    intros i x Hk Hx. eapply dropped_not_label; eassumption.
  Qed.

  (* registers of cur_live/L at the next kept position flow back over a run of dropped ones *)
  Lemma run_back : forall n a r, (forall x, (a <= x < a + n)%nat -> nth_error keep x = Some false) ->
    PS.In (rkey r) (Cat (a + n)) -> PS.In (rkey r) (lget L (a + n)) ->
    PS.In (rkey r) (Cat a) /\ PS.In (rkey r) (lget L a).
  Proof.
    induction n as [|n IH]; intros a r Hd HC HLn; [rewrite Nat.add_0_r in *; split; assumption|].
    assert (Hka : nth_error keep a = Some false) by (apply Hd; lia).
    rewrite keep_nth in Hka. destruct (nth_error ops a) as [o|] eqn:Hn; [|discriminate]. cbn in Hka. injection Hka as Hka.
    destruct (dropped_spec a o Hn Hka) as (Hse & Hbj & Hdead & HCa).
    destruct (tab_nose a o Hn Hse) as (_ & _ & Hsucc & _).
    destruct (IH (S a) r) as [H1 H2].
    { intros x Hx. apply Hd. lia. }
    { replace (S a + n)%nat with (a + S n)%nat by lia. exact HC. }
    { replace (S a + n)%nat with (a + S n)%nat by lia. exact HLn. }
    assert (Hnd : ~ In r (defs_c o)) by (intros Hin; exact (Hdead r Hin H1)).
    split.
    - rewrite HCa. apply remove_all_keep; assumption.
    - eapply postfix_thru; try eassumption. intros Hin. apply Hnd. unfold defs_c. apply in_or_app. left. exact Hin.
  Qed.

  (* the next kept position at or after a, when the reduced program has an instruction there *)
  Lemma next_kept : forall n a, (length ops - a <= n)%nat -> nth_error ops' (pos keep a) <> None ->
    exists k, nth_error keep (a + k) = Some true /\ pos keep (a + k) = pos keep a /\
              forall x, (a <= x < a + k)%nat -> nth_error keep x = Some false.
  Proof.
    induction n as [|n IH]; intros a Hn Hsome.
    - exfalso. apply Hsome. unfold ops'. apply select_nth_end; [exact keep_length|].
      apply nth_error_None. rewrite keep_length. lia.
    - destruct (nth_error keep a) as [[|]|] eqn:Hk.
      + exists 0%nat. rewrite Nat.add_0_r. split; [exact Hk|]. split; [reflexivity|]. intros x Hx. lia.
      + destruct (IH (S a)) as (k & Hk1 & Hk2 & Hk3); [lia | rewrite (pos_drop keep a Hk); exact Hsome |].
        exists (S k). replace (a + S k)%nat with (S a + k)%nat by lia. split; [exact Hk1|].
        split; [rewrite Hk2; apply pos_drop; exact Hk|].
        intros x Hx. destruct (Nat.eq_dec x a) as [->|Hne]; [exact Hk|]. apply Hk3. lia.
      + exfalso. apply Hsome. unfold ops'. apply select_nth_end; [exact keep_length|exact Hk].
  Qed.

  (* main invariant: what is live in the reduced program at a kept position is in cur_live and in L *)
  Lemma live_reduced_in_cur : forall p r, live_in_c ops' p r ->
    forall b, nth_error keep b = Some true -> pos keep b = p ->
    PS.In (rkey r) (Cat b) /\ PS.In (rkey r) (lget L b).
  Proof.
    unfold live_in_c. induction 1 as [p o r Hn' Hu | p o j' r Hn' Hj' Hl IH Hnk]; intros b Hkb Hpb; subst p.
    - assert (Hn : nth_error ops b = Some o).
      { rewrite <- Hn'. symmetry. unfold ops'. apply select_nth; [exact keep_length|exact Hkb]. }
      rewrite keep_nth, Hn in Hkb. cbn in Hkb. injection Hkb as Hkb.
      destruct (kept_spec b o Hn Hkb) as (H1 & _). split; [apply H1; exact Hu|].
      eapply postfix_use; eassumption.
    - assert (Hn : nth_error ops b = Some o).
      { rewrite <- Hn'. symmetry. unfold ops'. apply select_nth; [exact keep_length|exact Hkb]. }
      pose proof Hkb as Hkb0. rewrite keep_nth, Hn in Hkb. cbn in Hkb. injection Hkb as Hkb.
      destruct (kept_spec b o Hn Hkb) as (_ & Hjmp & Hthru).
      assert (Hsome : nth_error ops' j' <> None).
      { inversion Hl; congruence. }
      (* fall-through successor *)
      assert (Hfall : j' = S (pos keep b) -> In (S b) (succs ops b) ->
                PS.In (rkey r) (Cat (S b)) /\ PS.In (rkey r) (lget L (S b))).
      { intros -> Hsb. rewrite <- (pos_keep keep b Hkb0) in Hsome, IH.
        destruct (next_kept (length ops) (S b) ltac:(lia) Hsome) as (k & Hk1 & Hk2 & Hk3).
        destruct (IH (S b + k)%nat Hk1 Hk2) as [A B]. apply (run_back k (S b) r Hk3 A B). }
      assert (Hnd : ~ In r (defs o)) by (intros Hin; apply Hnk; unfold defs_c; apply in_or_app; left; exact Hin).
      (* jump-target successor *)
      assert (Hjump : forall l t, label_index ops l = Some t -> j' = pos keep t -> In t (succs ops b) ->
                is_block_jump o = true -> PS.In (rkey r) (Cat b) /\ PS.In (rkey r) (lget L b)).
      { intros l t Hlt -> Ht Hbj.
        assert (Hkt : nth_error keep t = Some true).
        { destruct (nth_error keep t) as [[|]|] eqn:E; [reflexivity| |].
          - exfalso. assert (t < length ops)%nat by (rewrite <- keep_length; apply nth_error_Some; rewrite E; discriminate).
            destruct (nth_error ops t) as [ot|] eqn:Hnt; [|apply nth_error_None in Hnt; lia].
            pose proof (dropped_not_label t ot E Hnt l) as X.
            unfold label_index in Hlt. clear - Hlt Hnt X. revert t Hlt Hnt.
            induction ops as [|y ys IHy]; intros t Hlt Hnt; [discriminate|]. cbn [find_index] in Hlt.
            destruct (is_label l y) eqn:Ey.
            + injection Hlt as <-. cbn in Hnt. injection Hnt as <-. congruence.
            + destruct (find_index (is_label l) ys) as [t'|] eqn:Et; [|discriminate]. cbn in Hlt. injection Hlt as <-.
              cbn in Hnt. eapply IHy; [reflexivity|exact Hnt].
          - exfalso. apply Hsome. unfold ops'. apply select_nth_end; [exact keep_length|exact E]. }
        destruct (IH t Hkt eq_refl) as [A B]. split.
        - apply (Hjmp Hbj). rewrite <- (succs_nth _ _ _ Hn). eapply out_of_in; eassumption.
        - eapply postfix_thru; eassumption. }
      unfold succs in Hj'. rewrite Hn' in Hj'. unfold succs_of in Hj'.
      assert (Hsucc : succs ops b = succs_of ops b o) by (apply succs_nth; exact Hn). unfold succs_of in Hsucc.
      assert (Hnonjump : is_block_jump o = false -> j' = S (pos keep b) -> In (S b) (succs ops b) ->
                PS.In (rkey r) (Cat b) /\ PS.In (rkey r) (lget L b)).
      { intros Hbj Hj Hsb. destruct (Hfall Hj Hsb) as [A B]. split; [apply (Hthru Hbj); assumption|].
        eapply postfix_thru; eassumption. }
      destruct (kind o) as [d s| |l|l|l c|l| |r0|opc args] eqn:Hkind; unfold is_block_jump in *; rewrite ?Hkind in *.
      + destruct Hj' as [<-|[]]. apply Hnonjump; [reflexivity|reflexivity|rewrite Hsucc; left; reflexivity].
      + destruct Hj' as [<-|[]]. apply Hnonjump; [reflexivity|reflexivity|rewrite Hsucc; left; reflexivity].
      + destruct Hj' as [<-|[]]. apply Hnonjump; [reflexivity|reflexivity|rewrite Hsucc; left; reflexivity].
      + rewrite label_sel in Hj'. destruct (label_index ops l) as [t|] eqn:Hlt; [|destruct Hj'].
        cbn in Hj'. destruct Hj' as [<-|[]]. apply (Hjump l t Hlt eq_refl); [rewrite Hsucc; left; reflexivity|reflexivity].
      + rewrite label_sel in Hj'. apply in_app_or in Hj'. destruct Hj' as [Hj'|[<-|[]]].
        * destruct (label_index ops l) as [t|] eqn:Hlt; [|destruct Hj']. cbn in Hj'. destruct Hj' as [<-|[]].
          apply (Hjump l t Hlt eq_refl); [rewrite Hsucc; apply in_or_app; left; left; reflexivity|reflexivity].
        * assert (Hsb : In (S b) (succs ops b)) by (rewrite Hsucc; apply in_or_app; right; left; reflexivity).
          destruct (Hfall eq_refl Hsb) as [A B]. split.
          -- apply (Hjmp eq_refl). rewrite <- (succs_nth _ _ _ Hn). eapply out_of_in; eassumption.
          -- eapply postfix_thru; eassumption.
      + destruct Hj' as [<-|[]]. apply Hnonjump; [reflexivity|reflexivity|rewrite Hsucc; left; reflexivity].
      + destruct Hj'.
      + destruct Hj'.
      + destruct (N.eqb opc OPC_RVRT); [destruct Hj'|]. destruct Hj' as [<-|[]].
        apply Hnonjump; [reflexivity|reflexivity|rewrite Hsucc; left; reflexivity].
  Qed.

  (* the hypothesis of Asm/Delete.v for every dropped position *)
  Theorem dce_drop_ok : forall i o, nth_error keep i = Some false -> nth_error ops i = Some o ->
    pure_kind o = true /\
    forall r, In r (defs_c o) -> dceK ops keep r /\ ~ live_in_c ops' (pos keep i) r.
  Proof.
    intros i o Hk Hn. pose proof Hk as Hk0. rewrite keep_nth, Hn in Hk. cbn in Hk. injection Hk as Hk.
    destruct (dropped_spec i o Hn Hk) as (Hse & _ & Hdead & _).
    destruct (tab_nose i o Hn Hse) as (Hp & _). split; [exact Hp|].
    intros r Hr. split; [exists i, o; repeat split; assumption|].
    intros Hlive.
    assert (Hsome : nth_error ops' (pos keep i) <> None) by (unfold live_in_c in Hlive; inversion Hlive; congruence).
    rewrite <- (pos_drop keep i Hk0) in Hsome, Hlive.
    destruct (next_kept (length ops) (S i) ltac:(lia) Hsome) as (k & Hk1 & Hk2 & Hk3).
    destruct (live_reduced_in_cur _ _ Hlive (S i + k)%nat Hk1 Hk2) as [A B].
    destruct (run_back k (S i) r Hk3 A B) as [A' _]. exact (Hdead r Hr A').
  Qed.

  Lemma dceK_not_call_in : forall c, In c call_in_regs -> ~ dceK ops keep c.
  Proof.
    intros c Hc (i & o & Hk & Hn & Hr). rewrite keep_nth, Hn in Hk. cbn in Hk. injection Hk as Hk.
    destruct (dropped_spec i o Hn Hk) as (Hse & _). destruct (tab_nose i o Hn Hse) as (_ & _ & _ & _ & Hci).
    exact (Hci c Hr Hc).
  Qed.
End Dce.

Theorem dce_preserves ops out : dce_table_ok ops = true -> dce ops = POk out ->
  out = ops \/ exists keep, out = select keep ops /\ deletion_sim ops keep (dceK ops keep) (fun _ => True).
Proof.
  intros Ht. unfold dce. destruct (has_jmpaddr ops); [intros H; injection H as <-; left; reflexivity|].
  unfold dce_keep. destruct (liveness defs FUEL ops) as [L|] eqn:HLv; [|discriminate].
  intros H. injection H as <-. right. exists (fst (dce_fold L (items_of ops))). split; [reflexivity|].
  pose proof (liveness_postfix _ _ _ _ HLv) as HL.
  intros M sem cs Hrv Hpure st st' HR. split; intros k.
  - eapply delete_fwd; eauto using keep_length, tab_wf, dceK_not_call_in.
    intros i o Hk Hn _. eapply dce_drop_ok; eassumption.
  - eapply delete_bwd; eauto using keep_length, tab_wf, dceK_not_call_in.
    intros i o Hk Hn _. eapply dce_drop_ok; eassumption.
Qed.
