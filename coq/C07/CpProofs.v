(* C07 — constant_propagate validator: the algebraic justifications over Vm.Alu. *)
From Coq Require Import NArith Bool Lia.
From SwayV Require Import Base.Util Asm.Model Vm.Alu Vm.AluProofs C07.CpModel.
Local Open Scope N_scope.

Definition sden (rf : regfile) (v : sval) : N := match v with SC n => n | SR r => rf r | ST t => t end.
Definition bounded (rf : regfile) : Prop := forall r, rf r < 2 ^ 64.

(* a value under the strictest flags is the value under every flag setting *)
Lemma exec64_default_any op b c a : exec64 default_flags op b c = Val a -> forall fl, exec64 fl op b c = Val a.
Proof.
  intros H fl. destruct op; cbn [exec64] in *; try exact H.
  - unfold capture_overflow in *. cbn [wrapping default_flags negb] in H.
    destruct (MAX64 <? b + c); cbn [andb] in *; [discriminate | exact H].
  - unfold capture_overflow in *. cbn [wrapping default_flags negb] in H.
    destruct (MAX64 <? sub_u128 b c); cbn [andb] in *; [discriminate | exact H].
  - unfold capture_overflow in *. cbn [wrapping default_flags negb] in H.
    destruct (MAX64 <? b * c); cbn [andb] in *; [discriminate | exact H].
  - unfold alu_error in *. cbn [unsafemath default_flags negb] in H.
    destruct (c =? 0); cbn [andb] in *; [discriminate | exact H].
  - unfold alu_error in *. cbn [unsafemath default_flags negb] in H.
    destruct (c =? 0); cbn [andb] in *; [discriminate | exact H].
  - destruct (exp_ovf b c) as [r o]. unfold boolean_overflow in *. cbn [wrapping default_flags negb] in H.
    destruct o; cbn [andb] in *; [discriminate | exact H].
Qed.

(* (a) folding: the value the validator computes is what the VM computes, for every flag setting,
   and the op neither traps nor leaves anything in $of/$err *)
Theorem fold_const_sound op l r c : fold_const op l r = Some c ->
  forall fl, exec64 fl op l r = Val (alu_set c).
Proof.
  unfold fold_const. destruct (exec64 default_flags op l r) as [a|] eqn:E; [|discriminate].
  destruct (N.eqb_spec (of a) 0) as [Ho|]; [|discriminate].
  destruct (N.eqb_spec (err a) 0) as [He|]; [|discriminate]. cbn [andb].
  intros H fl. injection H as <-. rewrite (exec64_default_any _ _ _ _ E fl).
  destruct a as [r0 o0 e0]. cbn in *. subst. reflexivity.
Qed.

(* (b) commutative ops *)
Theorem exec64_comm op x y fl : is_commutative op = true -> exec64 fl op x y = exec64 fl op y x.
Proof.
  destruct op; cbn; try discriminate; intros _.
  - rewrite N.add_comm. reflexivity.
  - rewrite N.mul_comm. reflexivity.
  - rewrite N.land_comm. reflexivity.
  - rewrite N.lor_comm. reflexivity.
  - rewrite N.lxor_comm. reflexivity.
Qed.

(* helpers *)
Lemma capture_small fl r : r < 2 ^ 64 -> capture_overflow fl r = Val (alu_set r).
Proof. intros H. rewrite (capture_ok fl r H). reflexivity. Qed.

Lemma pow_chk_one : forall e, pow_chk 1 e = Some 1.
Proof.
  intros [|p]; [reflexivity|]. cbn. induction p as [p IH|p IH|]; cbn; try rewrite IH; reflexivity.
Qed.

(* (c) the algebraic identities, for EVERY value below 2^64 of the unknown operand and every flag
   setting: the op does not trap, yields the stated operand/constant and clears $of/$err *)
Theorem identity_sound op x y v : identity op x y = Some v ->
  forall rf fl, bounded rf -> sden rf x < 2 ^ 64 -> sden rf y < 2 ^ 64 ->
  exec64 fl op (sden rf x) (sden rf y) = Val (alu_set (sden rf v)).
Proof.
  intros H rf fl Hb Hx Hy.
  destruct op; cbn [identity] in H.
  - (* ADD *)
    destruct x as [[|px]|rx|tx]; [injection H as <-; cbn [exec64 sden]; rewrite N.add_0_l; apply capture_small; exact Hy | | |];
      (destruct y as [[|py]|ry|ty]; try discriminate; injection H as <-; cbn [exec64 sden]; rewrite N.add_0_r;
       apply capture_small; exact Hx).
  - (* SUB *)
    destruct y as [[|py]|ry|ty]; try (destruct x as [[|?]|?|?]; discriminate).
    assert (v = x) by (destruct x as [[|?]|?|?]; congruence). subst v.
    cbn [exec64 sden]. unfold sub_u128. destruct (N.leb_spec 0 (sden rf x)) as [_|X]; [|lia].
    rewrite N.sub_0_r. apply capture_small. exact Hx.
  - (* MUL *)
    cbn [exec64].
    destruct x as [[|[px|px|]]|rx|tx]; destruct y as [[|[py|py|]]|ry|ty]; try discriminate;
      injection H as <-; cbn [sden];
      rewrite ?N.mul_0_l, ?N.mul_0_r, ?N.mul_1_l, ?N.mul_1_r; apply capture_small; cbn [sden] in *; try assumption; lia.
  - (* DIV *)
    destruct y as [[|[py|py|]]|ry|ty]; try (destruct x as [[|?]|?|?]; discriminate).
    assert (v = x) by (destruct x as [[|?]|?|?]; congruence). subst v.
    cbn [exec64 sden]. unfold alu_error. change (1 =? 0) with false. cbn [andb]. rewrite N.div_1_r. reflexivity.
  - (* MOD *)
    destruct y as [[|[py|py|]]|ry|ty]; try (destruct x as [[|?]|?|?]; discriminate).
    assert (v = SC 0) by (destruct x as [[|?]|?|?]; congruence). subst v.
    cbn [exec64 sden]. unfold alu_error. change (1 =? 0) with false. cbn [andb]. rewrite N.mod_1_r. reflexivity.
  - (* EXP *)
    cbn [exec64].
    assert (Hcase : (y = SC 0 /\ v = SC 1) \/ (y = SC 1 /\ v = x) \/ (x = SC 1 /\ v = SC 1)).
    { destruct x as [[|[px|px|]]|rx|tx]; destruct y as [[|[py|py|]]|ry|ty]; try discriminate;
        injection H as <-; auto. }
    destruct Hcase as [[-> ->]|[[-> ->]|[-> ->]]]; cbn [sden].
    + unfold exp_ovf. change (0 <? 2 ^ 32) with true. cbn iota. unfold pow_chk. reflexivity.
    + unfold exp_ovf. change (1 <? 2 ^ 32) with true. cbn iota.
      unfold pow_chk, pow_chk_pos. rewrite chk64_spec. destruct (N.ltb_spec (sden rf x) (2 ^ 64)); [|lia].
      reflexivity.
    + unfold exp_ovf. destruct (sden rf y <? 2 ^ 32).
      * rewrite pow_chk_one. reflexivity.
      * reflexivity.
  - (* AND *)
    cbn [exec64].
    destruct x as [[|px]|rx|tx]; [injection H as <-; cbn [sden]; rewrite N.land_0_l; reflexivity | | |];
      (destruct y as [[|py]|ry|ty]; try discriminate; injection H as <-; cbn [sden]; rewrite N.land_0_r; reflexivity).
  - (* OR *)
    cbn [exec64].
    destruct x as [[|px]|rx|tx]; [injection H as <-; cbn [sden]; rewrite N.lor_0_l; reflexivity | | |];
      (destruct y as [[|py]|ry|ty]; try discriminate; injection H as <-; cbn [sden]; rewrite N.lor_0_r; reflexivity).
  - (* XOR *)
    cbn [exec64].
    destruct x as [[|px]|rx|tx]; [injection H as <-; cbn [sden]; rewrite N.lxor_0_l; reflexivity | | |];
      (destruct y as [[|py]|ry|ty]; try discriminate; injection H as <-; cbn [sden]; rewrite N.lxor_0_r; reflexivity).
  - (* SLL *)
    destruct y as [[|py]|ry|ty]; try (destruct x as [[|?]|?|?]; discriminate).
    assert (v = x) by (destruct x as [[|?]|?|?]; congruence). subst v.
    cbn [exec64 sden]. unfold sll64. change ((0 <? 2 ^ 32) && (0 <? 64)) with true. cbn iota.
    rewrite N.shiftl_0_r, land_max64, small_mod by exact Hx. reflexivity.
  - (* SRL *)
    destruct y as [[|py]|ry|ty]; try (destruct x as [[|?]|?|?]; discriminate).
    assert (v = x) by (destruct x as [[|?]|?|?]; congruence). subst v.
    cbn [exec64 sden]. unfold srl64. change ((0 <? 2 ^ 32) && (0 <? 64)) with true. cbn iota.
    rewrite N.shiftr_0_r. reflexivity.
  - destruct x as [[|?]|?|?]; destruct y as [[|?]|?|?]; discriminate.
  - destruct x as [[|?]|?|?]; destruct y as [[|?]|?|?]; discriminate.
  - destruct x as [[|?]|?|?]; destruct y as [[|?]|?|?]; discriminate.
Qed.
