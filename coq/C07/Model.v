(* C07 — line-by-line models of the asm optimiser's passes on the abstract ops.  NO proofs.
   Anchors: sway-core/src/asm_generation/fuel/optimizations/{misc.rs, reachability.rs, mod.rs},
   analyses.rs (liveness_analysis). *)
From Coq Require Import MSets.MSetPositive FSets.FMapPositive.
From SwayV Require Import Base.Util Asm.Model C08.Spec C08.Model.
Local Open Scope N_scope.

(* the NOOP the passes put in place of a removed instruction: VirtualOp::NOOP clears $of/$err *)
Definition NOOP_OP : op := mkOp [] [] [R_OF; R_ERR] false KNoop.

(* ---- remove_sequential_jumps ---- *)
Definition jump_to_next (a b : op) : bool :=
  match kind a, kind b with
  | KJump l, KLabel l' => N.eqb l l'
  | KJnz l _, KLabel l' => N.eqb l l'
  | _, _ => false
  end.

Fixpoint remove_sequential_jumps (ops : list op) : list op :=
  match ops with
  | a :: t => match t with
              | b :: _ => (if jump_to_next a b then NOOP_OP else a) :: remove_sequential_jumps t
              | [] => [a]
              end
  | [] => []
  end.

(* ---- remove_redundant_moves ---- *)
Definition all_uses (ops : list op) : PS.t :=
  fold_left (fun s o => fold_left (fun s r => PS.add (rkey r) s) (uses o) s) ops PS.empty.

Definition dead_move (us : PS.t) (o : op) : bool :=
  match kind o with
  | KMove d _ => andb (is_virt d) (negb (PS.mem (rkey d) us))
  | _ => false
  end.

Definition rm_moves_once (ops : list op) : list op * bool :=
  let us := all_uses ops in
  (map (fun o => if dead_move us o then NOOP_OP else o) ops, existsb (dead_move us) ops).

Fixpoint rm_moves_loop (fuel : nat) (ops : list op) : option (list op) :=
  match fuel with
  | O => None
  | S f => let (ops', changed) := rm_moves_once ops in
           if changed then rm_moves_loop f ops' else Some ops
  end.

(* every round turns at least one MOVE into a NOOP: length + 1 rounds suffice *)
Definition remove_redundant_moves (ops : list op) : option (list op) :=
  rm_moves_loop (S (length ops)) ops.

(* ---- remove_redundant_ops ---- *)
Definition redundant_op (o : op) : bool :=
  match kind o with
  | KNoop => true
  | KMove a b => N.eqb a b
  | KOther opc [_; _; OReg len] => andb (N.eqb opc OPC_MCP) (N.eqb len R_ZERO)
  | KOther opc [_; _; OImm n] => andb (N.eqb opc OPC_MCPI) (N.eqb n 0)
  | _ => false
  end.

Definition disjoint_b (a b : list reg) : bool := forallb (fun x => negb (memb x b)) a.

(* the forward guard: none of the def-const registers of the candidate is read before being set
   again by the code that follows: walk forward from index i, falling through labels and other
   organisational ops, following unconditional jumps; a return or the end of the ops ends the walk
   well, any other control flow (and an exhausted step budget) keeps the op *)
Fixpoint flags_guard (fuel : nat) (ops : list op) (pending : list reg) (i : nat) : bool :=
  match pending with
  | [] => true
  | _ =>
    match fuel with
    | O => false
    | S f =>
      match nth_error ops i with
      | None => true
      | Some n =>
          if negb (disjoint_b pending (uses n)) then false
          else
            let pending' := filter (fun r => negb (memb r (cdefs n ++ defs n))) pending in
            match kind n with
            | KRet => true
            | KJump l => match label_index ops l with
                         | Some j => flags_guard f ops pending' j
                         | None => nil_b pending'
                         end
            | KJnz _ _ | KCall _ | KJmpAddr _ => nil_b pending'
            | _ => flags_guard f ops pending' (S i)
            end
      end
    end
  end.

(* [all] is the whole op list, [i] the index of o in it *)
Definition rro_drop (all : list op) (i : nat) (o : op) : bool :=
  andb (redundant_op o) (flags_guard (length all) all (cdefs o) (S i)).

Fixpoint rro_aux (all : list op) (i : nat) (l : list op) : list op :=
  match l with
  | [] => []
  | o :: t => if rro_drop all i o then rro_aux all (S i) t else o :: rro_aux all (S i) t
  end.
Definition remove_redundant_ops (ops : list op) : list op := rro_aux ops 0 ops.

(* the positions remove_redundant_ops keeps *)
Fixpoint rro_keep_aux (all : list op) (i : nat) (l : list op) : list bool :=
  match l with
  | [] => []
  | o :: t => negb (rro_drop all i o) :: rro_keep_aux all (S i) t
  end.
Definition redundant_keep (ops : list op) : list bool := rro_keep_aux ops 0 ops.

(* ---- dce ---- *)
Definition has_jmpaddr (ops : list op) : bool :=
  existsb (fun o => match kind o with KJmpAddr _ => true | _ => false end) ops.

Definition is_block_jump (o : op) : bool :=
  match kind o with KJump _ | KJnz _ _ => true | _ => false end.

Definition remove_all (rs : list reg) (s : PS.t) : PS.t := fold_left (fun s r => PS.remove (rkey r) s) rs s.
Definition add_all (rs : list reg) (s : PS.t) : PS.t := fold_left (fun s r => PS.add (rkey r) s) rs s.

(* one step of the backward scan (for op in ops.iter().rev()): keep bit and the new cur_live *)
Definition dce_step (L : ltab) (it : item) (cur : PS.t) : bool * PS.t :=
  match it with (i, o, ss) =>
    if is_block_jump o then (true, add_all (uses o) (out_of L ss))
    else
      let dfs := defs o ++ cdefs o in
      let dead := andb (forallb (fun d => negb (PS.mem (rkey d) cur)) dfs) (negb (se o)) in
      let cur' := remove_all dfs cur in
      (negb dead, if dead then cur' else add_all (uses o) cur')
  end.

(* the reverse iteration as a right fold: (keep mask, cur_live before the first item) *)
Fixpoint dce_fold (L : ltab) (items : list item) : list bool * PS.t :=
  match items with
  | [] => ([], PS.empty)
  | it :: t => let (ks, cur) := dce_fold L t in
               let (k, c) := dce_step L it cur in (k :: ks, c)
  end.

Inductive pass_res := POk (ops : list op) | PFuel | PPanic (site : N).

Definition dce_keep (ops : list op) : option (list bool) :=
  match liveness defs FUEL ops with
  | None => None
  | Some L => Some (fst (dce_fold L (items_of ops)))
  end.

Definition dce (ops : list op) : pass_res :=
  if has_jmpaddr ops then POk ops
  else match dce_keep ops with
       | None => PFuel
       | Some keep => POk (select keep ops)
       end.

(* ---- simplify_cfg ---- *)
Definition jump_targets_known (ops : list op) : bool :=
  forallb (fun o => match kind o with
                    | KJump l | KJnz l _ => match label_index ops l with Some _ => true | None => false end
                    | _ => true end) ops.

(* the worklist of simplify_cfg; successors are computed on the fly as in the Rust code *)
Fixpoint reach (fuel : nat) (ops : list op) (n : nat) (work : list nat) (seen : PS.t) : option PS.t :=
  match fuel with
  | O => None
  | S f =>
    match work with
    | [] => Some seen
    | i :: w =>
        if PS.mem (ikey i) seen then reach f ops n w seen
        else reach f ops n (filter (fun s => andb (Nat.ltb s n) (negb (PS.mem (ikey s) seen))) (succs ops i) ++ w)
                   (PS.add (ikey i) seen)
    end
  end.

Definition cfg_seen (ops : list op) : option PS.t :=
  let n := length ops in reach (3 * n + 3) ops n [0%nat] PS.empty.

Definition cfg_keep (ops : list op) : option (list bool) :=
  match cfg_seen ops with
  | None => None
  | Some seen => Some (map (fun i => PS.mem (ikey i) seen) (seq 0 (length ops)))
  end.

Definition simplify_cfg (ops : list op) : pass_res :=
  match ops with
  | [] => POk ops
  | _ =>
    if has_jmpaddr ops then POk ops
    else if negb (jump_targets_known ops) then PPanic 1   (* label_to_index[to] on a missing label *)
    else match cfg_keep ops with
         | None => PFuel
         | Some keep => POk (select keep ops)
         end
  end.

(* ---- the round driver of AbstractInstructionSet::optimize (Opt1) ---- *)
Definition MAX_OPT_ROUNDS : nat := 10.

Fixpoint opt_rounds (f : list op -> list op) (n : nat) (cur : list op) : list op :=
  match n with
  | O => cur
  | S n' =>
      let nxt := f (f cur) in
      match Nat.compare (length nxt) (length cur) with
      | Eq => nxt          (* nothing gained: stop *)
      | Gt => cur          (* never accept worse results *)
      | Lt => opt_rounds f n' nxt
      end
  end.

Definition optimize_opt1 (opt0 : list op -> list op) (ops : list op) : list op :=
  opt_rounds opt0 MAX_OPT_ROUNDS ops.
