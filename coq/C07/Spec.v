(* C07 — the decidable side condition under which deleting instructions is proved to preserve
   behaviour (hypotheses of Asm/Delete.v), and its instances for the modelled passes.
   No proofs here. *)
From Coq Require Import MSets.MSetPositive FSets.FMapPositive.
From SwayV Require Import Base.Util Asm.Model Asm.Delete C08.Spec C08.Model C07.Model.
Local Open Scope N_scope.

(* one walk over keep mask and items; k = position in the reduced program *)
Definition drop_cond (Lc' : ltab) (o : op) (k : nat) : bool :=
  andb (pure_kind o)
       (forallb (fun r => andb (negb (memb r call_in_regs)) (negb (PS.mem (rkey r) (lget Lc' k)))) (defs_c o)).

Fixpoint del_walk (Lc' : ltab) (inv : nat -> bool) (keep : list bool) (items : list item) (k : nat) : bool :=
  match keep, items with
  | [], [] => true
  | kp :: ks, (i, o, ss) :: t =>
      andb (if kp then true else if inv i then drop_cond Lc' o k else true)
           (del_walk Lc' inv ks t (if kp then S k else k))
  | _, _ => false
  end.

Definition inv_closed (inv : nat -> bool) (n : nat) (items : list item) : bool :=
  forallb (fun it => match it with (i, o, ss) =>
             orb (negb (inv i)) (forallb (fun j => orb (Nat.leb n j) (inv j)) ss) end) items.

Definition delete_ok_with (Lc' : ltab) (inv : nat -> bool) (ops : list op) (keep : list bool) : bool :=
  let items := items_of ops in
  andb (is_postfix defs_c (items_of (select keep ops)) Lc')
  (andb (forallb wf_c_opb ops)
  (andb (inv_closed inv (length ops) items)
        (del_walk Lc' inv keep items 0))).

Definition delete_ok (inv : nat -> bool) (ops : list op) (keep : list bool) : bool :=
  match liveness defs_c FUEL (select keep ops) with
  | Some Lc' => delete_ok_with Lc' inv ops keep
  | None => false
  end.

(* registers some reachable deleted instruction writes *)
Definition K_of (inv : nat -> bool) (ops : list op) (keep : list bool) (r : reg) : Prop :=
  exists i o, nth_error keep i = Some false /\ nth_error ops i = Some o /\ inv i = true /\ In r (defs_c o).

Definition Inv_of (inv : nat -> bool) (n : nat) (i : nat) : Prop := inv i = true \/ (n <= i)%nat.

Definition all_inv (i : nat) : bool := true.

(* simplify_cfg: the set the model's worklist computes *)
Definition cfg_inv (ops : list op) : nat -> bool :=
  match cfg_seen ops with
  | Some seen => fun i => PS.mem (ikey i) seen
  | None => fun _ => true
  end.

(* per pass number (C07/Judge.v), the decidable precondition of the pass's preservation theorem,
   evaluated on every real input of the pass: use/def table well-formedness; for
   remove_sequential_jumps also that the flags the new NOOPs clear are dead (not proved in general) *)
(* behaviour preservation of a deletion, for every instruction semantics in which RVRT stops and
   side-effect-free ops do not trap: stuttering simulation in both directions between related
   states (equal memory; registers equal when live in the reduced program or never written by a
   deleted instruction). *)
Definition deletion_sim (ops : list op) (keep : list bool) (K : reg -> Prop) (Inv : nat -> Prop) : Prop :=
  forall (M : Type) sem call_sem, rvrt_stops M sem -> pure_total M sem ops ->
  forall st st', Rd M ops keep K Inv st st' ->
  (forall n, exists m, (m <= n)%nat /\
     Rdres M ops keep K Inv (run M sem call_sem ops n st) (run M sem call_sem (select keep ops) m st')) /\
  (forall m, exists n,
     Rdres M ops keep K Inv (run M sem call_sem ops n st) (run M sem call_sem (select keep ops) m st')).

(* ---- remove_redundant_ops (with the forward guard): table well-formedness and the assumption on
   zero-length memory copies ---- *)
Definition is_flag (c : reg) : bool := orb (N.eqb c R_OF) (N.eqb c R_ERR).

(* use/def lists fit the kinds; the ops the pass may delete set no constant register but $of/$err *)
Definition rro_table_ok (ops : list op) : bool :=
  andb (forallb wf_c_opb ops)
       (forallb (fun o => orb (negb (redundant_op o)) (andb (forallb is_flag (cdefs o))
                   (match kind o with KOther _ _ => nil_b (defs o) | _ => true end))) ops).

(* MCP with length $zero / MCPI with length 0 neither trap nor change memory *)
Definition mcp_zero_skips (M : Type) (sem : N -> list N -> list val -> M -> option (list val * M))
  (ops : list op) : Prop :=
  forall o opc args, In o ops -> kind o = KOther opc args -> redundant_op o = true ->
    forall vs m, exists vs', sem opc (imms_of args) vs m = Some (vs', m).

(* ---- in-place passes: table conditions ---- *)
(* every MOVE clears exactly $of/$err (as NOOP does) and the use/def lists fit the kinds *)
Definition moves_table_ok (ops : list op) : bool :=
  andb (forallb wf_c_opb ops)
       (forallb (fun o => match kind o with
                          | KMove _ _ => list_eqb N.eqb (cdefs o) [R_OF; R_ERR]
                          | _ => true end) ops).

Definition labels_of (ops : list op) : list label :=
  flat_map (fun o => match kind o with KLabel l => [l] | _ => [] end) ops.

Fixpoint nodup_b (l : list N) : bool :=
  match l with [] => true | x :: t => andb (negb (memb x t)) (nodup_b t) end.

(* remove_sequential_jumps puts a NOOP (clearing $of/$err) where the jump left them alone: the
   flags must be dead there in the new program *)
Definition flags_not_in (Lc' : ltab) (i : nat) : bool :=
  andb (negb (PS.mem (rkey R_OF) (lget Lc' i))) (negb (PS.mem (rkey R_ERR) (lget Lc' i))).

Fixpoint seqj_walk (Lc' : ltab) (i : nat) (l : list op) : bool :=
  match l with
  | a :: t => match t with
              | b :: _ => andb (orb (negb (jump_to_next a b)) (flags_not_in Lc' (S i))) (seqj_walk Lc' (S i) t)
              | [] => true
              end
  | [] => true
  end.

Definition seqj_side_with (Lc' : ltab) (ops : list op) : bool :=
  andb (is_postfix defs_c (items_of (remove_sequential_jumps ops)) Lc')
  (andb (forallb wf_c_opb ops)
  (andb (nodup_b (labels_of ops)) (seqj_walk Lc' 0 ops))).

Definition seqj_side_ok (ops : list op) : bool :=
  match liveness defs_c FUEL (remove_sequential_jumps ops) with
  | Some Lc' => seqj_side_with Lc' ops
  | None => false
  end.

(* ---- dce: table condition ---- *)
(* use/def lists fit the kinds; an op without side effect is MOVE/NOOP/plain op (never RVRT, never
   a label/jump/call/ret) and sets no call-input register *)
Definition dce_table_ok (ops : list op) : bool :=
  andb (forallb wf_c_opb ops)
       (forallb (fun o => orb (se o)
                   (andb (match kind o with
                          | KMove _ _ | KNoop => true
                          | KOther opc _ => negb (N.eqb opc OPC_RVRT)
                          | _ => false end)
                         (forallb (fun r => negb (memb r call_in_regs)) (defs_c o)))) ops).

Definition dceK (ops : list op) (keep : list bool) (r : reg) : Prop :=
  exists i o, nth_error keep i = Some false /\ nth_error ops i = Some o /\ In r (defs_c o).

(* the flags a NOOP put in place of a jump clears are dead there in the new program *)
Definition seqj_flags_dead (ops : list op) : Prop :=
  forall i a b, nth_error ops i = Some a -> nth_error ops (S i) = Some b -> jump_to_next a b = true ->
    forall c, In c [R_OF; R_ERR] -> ~ live_in_c (remove_sequential_jumps ops) (S i) c.

Definition side_ok (p : N) (before : list op) : bool :=
  match p with
  | 1 => seqj_side_ok before
  | 2 => moves_table_ok before
  | 3 => rro_table_ok before
  | 4 => dce_table_ok before
  | 5 => forallb wf_c_opb before
  | _ => true
  end.
