(* C16 — the main loop of lex_commented: invariant, termination within the fuel, final theorems. *)
From SwayV Require Import Base.Util C16.Model C16.Spec C16.Join C16.Judge C16.ProofsBase C16.ProofsLex.
Open Scope N_scope.

Lemma open_delim_len c d : open_delim c = Some d -> len_utf8 c = 1.
Proof.
  unfold open_delim. destruct (N.eqb_spec c 40); [subst; reflexivity|].
  destruct (N.eqb_spec c 123); [subst; reflexivity|]. destruct (N.eqb_spec c 91); [subst; reflexivity|]. discriminate.
Qed.

Section Main.
  Variable ucls : N -> N.
  Variable s : list N.
  Notation src := (indices 0 s).
  Notation len := (total_len 0 s).
  Notation bnd := (is_bnd src len).
  Notation ppos := (peek_pos len).
  Notation wf := (wfs s).
  Notation spok := (sp_ok s).
  Notation tok_ok := (tok_ok s).
  Notation err_ok := (err_ok s).
  Notation rpost := (rpost s).
  Ltac bsolve := first [assumption | apply bnd_len | apply bnd_0 | idtac].
  Ltac spn := apply rpost_span; [ try lia | try lia | bsolve | bsolve | ].

  Definition stack_ok (r : list ci) (st : list (N * N)) : Prop :=
    Forall (fun x => bnd (fst x) = true /\ bnd (fst x + 1) = true /\ fst x + 1 <= ppos r) st.

  (* the invariant of the loop state, relative to the stream r *)
  Definition inv_at (r : list ci) (x : st) : Prop :=
    wf r /\ Forall tok_ok (s_toks x) /\ Forall err_ok (s_es x) /\ stack_ok r (s_stack x) /\
    (bnd (s_last x) = true /\ s_last x <= ppos r) /\ s_fso x <= ppos r.
  Definition inv (x : st) : Prop := inv_at (s_r x) x.

  Lemma stack_ok_mono r r' st : wf r -> sfx r' r -> stack_ok r st -> stack_ok r' st.
  Proof.
    intros W S H. pose proof (sfx_ppos_le s r' r W S) as Hm. unfold stack_ok in *.
    eapply Forall_impl; [|exact H]. cbn beta. intros x (A & B & C). repeat split; auto. lia.
  Qed.

  Lemma inv_at_mono r r' x : inv_at r x -> wf r' -> sfx r' r -> inv_at r' x.
  Proof.
    intros (W & T & E & St & [Lb Ll] & F) W' S. pose proof (sfx_ppos_le s r' r W S) as Hm.
    split; [exact W'|]. split; [exact T|]. split; [exact E|]. split; [exact (stack_ok_mono r r' _ W S St)|].
    split; [split; [exact Lb | lia] | lia].
  Qed.

  Lemma inv_push r0 x t r' es' :
    inv_at r0 x -> tok_ok t -> wf r' -> sfx r' r0 -> Forall err_ok es' ->
    tok_end t <= ppos r' -> bnd (tok_end t) = true -> inv (push x t r' es').
  Proof.
    intros H T W' S E' Le Be. destruct (inv_at_mono r0 r' x H W' S) as (_ & Tk & _ & St & _ & F).
    unfold inv, inv_at, push. cbn [s_r s_toks s_es s_stack s_last s_fso].
    split; [exact W'|]. split; [constructor; assumption|]. split; [exact E'|]. split; [exact St|]. split; [split; assumption | exact F].
  Qed.

  Lemma inv_skip r0 x r' es' :
    inv_at r0 x -> wf r' -> sfx r' r0 -> Forall err_ok es' -> inv (skip x r' es').
  Proof.
    intros H W' S E'. destruct (inv_at_mono r0 r' x H W' S) as (_ & Tk & _ & St & L & F).
    unfold inv, inv_at, skip. cbn [s_r s_toks s_es s_stack s_last s_fso].
    split; [exact W'|]. split; [exact Tk|]. split; [exact E'|]. split; [exact St|]. split; assumption.
  Qed.

  Definition spost (r : list ci) (x' : st) : Prop := inv x' /\ sfx (s_r x') r.

  Lemma tpost_push r0 r x :
    inv_at r0 x -> sfx r r0 -> forall a, tpost s r a -> rpost (spost r) (let '(t, r', es') := a in ROk (push x t r' es')).
  Proof.
    intros H S0 [[t r'] es'] (T1 & T2 & T3 & T4 & T5 & T6). cbn [ProofsLex.rpost]. split.
    - apply (inv_push r0 x t r' es' H T1 T2); [eapply sfx_trans; [exact T3 | exact S0] | exact T4 | exact T5 | exact T6].
    - unfold push. cbn [s_r]. exact T3.
  Qed.

  Lemma close_group_ok r index oi od :
    wf r -> bnd oi = true -> bnd (oi + 1) = true -> oi + 1 <= index -> bnd index = true -> index <= ppos r ->
    rpost (fun g => tok_ok g /\ tok_end g = ppos r) (close_group src len r index oi od).
  Proof.
    intros W Bo Bo1 Lo Bi Li. pose proof (wfs_ppos_le s r W) as Hl. pose proof (wfs_ppos_bnd s r W) as Hb.
    unfold close_group, span_until. spn. intros Si. spn. intros Sg. cbn [ProofsLex.rpost tok_end snd].
    split; [constructor; [exact Sg | apply tok_ok_1; exact Si] | reflexivity].
  Qed.

  Lemma lex_other_ok x index c r :
    inv_at ((index, c) :: r) x -> rpost (spost r) (lex_other ucls repaired src len x index c r).
  Proof.
    intros H. pose proof H as (W & Tk & Es & St & [Lb Ll] & F).
    pose proof W as W0. apply wfs_cons in W0. destruct W0 as (W1 & Bi & Hn & Hc).
    pose proof (wfs_ppos_le s r W1) as Hl1. pose proof (wfs_ppos_bnd s r W1) as Hb1.
    cbn [peek_pos] in *. unfold lex_other.
    destruct (open_delim c) as [d|] eqn:Eo.
    { apply open_delim_len in Eo. cbn [ProofsLex.rpost]. split; [|cbn [s_r]; apply sfx_refl].
      unfold inv, inv_at. cbn [s_r s_toks s_es s_stack s_last s_fso].
      split; [exact W1|]. split; [constructor; [constructor | exact Tk]|]. split; [exact Es|]. split.
      - constructor; [cbn [fst]; rewrite Eo in Hn; rewrite <- Hn; repeat split; auto; lia|].
        eapply stack_ok_mono; [exact W | apply sfx_cons | exact St].
      - split; [split; [apply bnd_0 | lia] | lia]. }
    destruct (close_delim c) as [cd|].
    { destruct (s_stack x) as [|[oi od] stack'] eqn:Estack.
      - unfold span_one. rewrite <- Hn. spn. intros S. cbn [ProofsLex.rpost]. split; [|cbn [skip s_r]; apply sfx_refl].
        eapply inv_skip; [exact H | exact W1 | apply sfx_cons | apply err_cons; assumption].
      - pose proof (Forall_inv St) as (Bo & Bo1 & Lo). cbn [fst peek_pos] in Bo, Bo1, Lo.
        eapply rpost_bind with (P := fun es' => Forall err_ok es').
        { destruct (od =? cd); [exact Es|]. unfold span_one. rewrite <- Hn. spn. intros S. cbn [ProofsLex.rpost].
          apply err_cons; assumption. }
        intros es' He'.
        eapply rpost_bind; [apply close_group_ok; auto; lia|]. intros g [Tg Eg].
        cbn [ProofsLex.rpost]. split; [|cbn [s_r]; apply sfx_refl].
        unfold inv, inv_at. cbn [s_r s_toks s_es s_stack s_last s_fso]. rewrite Eg.
        split; [exact W1|]. split; [constructor; [exact Tg | exact Tk]|].
        split; [exact He'|]. split; [eapply stack_ok_mono; [exact W | apply sfx_cons | exact (Forall_inv_tail St)]|].
        split; [split; [exact Hb1 | lia] | lia]. }
    destruct (c =? 34).
    { eapply rpost_bind; [apply string_loop_ok; auto; lia|]. apply (tpost_push _ r x H). apply sfx_cons. }
    destruct (c =? 39).
    { eapply rpost_bind; [apply lex_char_ok; auto; lia|]. apply (tpost_push _ r x H). apply sfx_cons. }
    destruct (is_digit c).
    { eapply rpost_bind; [apply lex_int_lit_ok; auto; lia|]. apply (tpost_push _ r x H). apply sfx_cons. }
    destruct (is_punct c).
    { eapply rpost_bind; [apply lex_punct_ok; auto; lia|]. intros t (T1 & T2 & T3). cbn [ProofsLex.rpost]. split.
      - apply (inv_push _ x t r (s_es x) H T1 W1); [apply sfx_cons | exact Es | exact T2 | exact T3].
      - cbn [push s_r]. apply sfx_refl. }
    unfold span_one. rewrite <- Hn. spn. intros S. cbn [ProofsLex.rpost]. split; [|cbn [skip s_r]; apply sfx_refl].
    eapply inv_skip; [exact H | exact W1 | apply sfx_cons | apply err_cons; assumption].
  Qed.

  Lemma drop_xidc_ok r : wf r -> wf (drop_xidc ucls r) /\ sfx (drop_xidc ucls r) r.
  Proof.
    induction r as [|[i c] r IH]; intros W; cbn [drop_xidc]; [split; [exact W | apply sfx_refl]|].
    pose proof W as W0. apply wfs_cons in W0. destruct W0 as (W1 & _).
    destruct (is_xid_continue ucls c).
    - destruct (IH W1) as [A B]. split; [exact A | eapply sfx_trans; [exact B | apply sfx_cons]].
    - split; [exact W | apply sfx_refl].
  Qed.

  (* identifier branch for the (possibly re-based) first char (index', c') with stream r' *)
  Lemma ident_tail_ok x r0 index' c' r' is_raw :
    inv_at r0 x -> wf ((index', c') :: r') -> sfx ((index', c') :: r') r0 ->
    rpost (spost r')
      (if negb (c' =? 95) || match r' with (_, n) :: _ => is_xid_continue ucls n | [] => false end
       then rbind (span_until src len 111 (drop_xidc ucls r') index')
                  (fun sp => ROk (push x (TIdent is_raw sp) (drop_xidc ucls r') (s_es x)))
       else lex_other ucls repaired src len x index' c' r').
  Proof.
    intros H W S. pose proof W as W0. apply wfs_cons in W0. destruct W0 as (W1 & Bi & Hn & Hc).
    destruct (negb (c' =? 95) || _).
    - destruct (drop_xidc_ok r' W1) as [Wd Sd]. pose proof (sfx_ppos_le s _ r' W1 Sd) as Hm.
      pose proof (wfs_ppos_le s _ Wd) as Hl. pose proof (wfs_ppos_bnd s _ Wd) as Hb.
      unfold span_until. spn. intros Ss. cbn [ProofsLex.rpost]. split; [|cbn [push s_r]; exact Sd].
      destruct H as (W' & Tk & Es & Rest).
      eapply inv_push with (r0 := r0); [repeat split; try eassumption; apply Rest | apply tok_ok_1; exact Ss | exact Wd | | exact Es | cbn [tok_end snd]; lia | exact Hb].
      eapply sfx_trans; [exact Sd|]. eapply sfx_trans; [apply sfx_cons | exact S].
    - apply lex_other_ok. eapply inv_at_mono; eassumption.
  Qed.

  Lemma lex_ident_or_other_ok x index c r :
    inv_at ((index, c) :: r) x -> rpost (spost r) (lex_ident_or_other ucls repaired src len x index c r).
  Proof.
    intros H. pose proof H as (W & Tk & Es & St & [Lb Ll] & F). unfold lex_ident_or_other. cbv zeta.
    destruct (is_xid_start ucls c || (c =? 95)) eqn:Exs; [|apply lex_other_ok; exact H].
    assert (rpost (spost r)
              (if negb (c =? 95) || match r with (_, n) :: _ => is_xid_continue ucls n | [] => false end
               then rbind (span_until src len 111 (drop_xidc ucls r) index)
                          (fun sp => ROk (push x (TIdent false sp) (drop_xidc ucls r) (s_es x)))
               else lex_other ucls repaired src len x index c r)) as NotRaw.
    { apply (ident_tail_ok x _ index c r false H W). apply sfx_refl. }
    destruct (N.eqb_spec c 114) as [Ec|Ec]; cbn [andb]; [|cbv beta iota zeta; exact NotRaw].
    destruct r as [|[p1 n] r2]; [cbv beta iota zeta; exact NotRaw|].
    destruct (n =? 35) eqn:Er; [|cbv beta iota zeta; exact NotRaw].
    cbn [tl]. clear NotRaw.
    pose proof W as W0. apply wfs_cons in W0. destruct W0 as (W1 & Bi & _).
    pose proof W1 as W1'. apply wfs_cons in W1'. destruct W1' as (W2 & _).
    destruct r2 as [|[ni nc] r3]; cbv beta iota zeta.
    - (* `r#` at the end of the input: the first char stays 'r' *)
      rewrite Exs. cbn [negb andb]. subst c. change (negb (114 =? 95)) with true. cbn [orb drop_xidc].
      unfold span_until. cbn [peek_pos].
      assert (index <= len) as Li.
      { pose proof (wfs_ppos_le s _ W) as Hx. cbn [peek_pos] in Hx. exact Hx. }
      spn. intros Ss. cbn [ProofsLex.rpost]. split; [|cbn [push s_r]; apply sfx_nil].
      eapply inv_push; [exact H | apply tok_ok_1; exact Ss | apply sfx_nil | apply sfx_nil | exact Es | cbn [tok_end snd peek_pos]; lia | apply bnd_len].
    - pose proof W2 as W2'. apply wfs_cons in W2'. destruct W2' as (W3 & Bn & Hn & Hc).
      pose proof (wfs_ppos_le s r3 W3) as Hl3. pose proof (wfs_ppos_bnd s r3 W3) as Hb3.
      assert (sfx ((ni, nc) :: r3) ((index, c) :: (p1, n) :: (ni, nc) :: r3)) as S2 by (exists [(index, c); (p1, n)]; reflexivity).
      pose proof (ident_tail_ok x _ ni nc r3 true H W2 S2) as Tail.
      assert (forall A, rpost (spost r3) A -> rpost (spost ((p1, n) :: (ni, nc) :: r3)) A) as Lift.
      { intros A HA. eapply rpost_weaken; [exact HA|]. intros x' [I' S']. split; [exact I'|].
        eapply sfx_trans; [exact S'|]. exists [(p1, n); (ni, nc)]. reflexivity. }
      destruct (is_xid_start ucls nc || (nc =? 95)); cbn [negb andb].
      + apply Lift. exact Tail.
      + apply Lift. unfold span_one. rewrite <- Hn. spn. intros Ss. cbn [ProofsLex.rpost]. split; [|cbn [skip s_r]; apply sfx_refl].
        eapply inv_skip; [exact H | exact W3 | | apply err_cons; assumption].
        eapply sfx_trans; [apply sfx_cons | exact S2].
  Qed.

  Lemma lex_step_ok x index c r :
    inv_at ((index, c) :: r) x -> rpost (spost r) (lex_step ucls repaired src len x index c r).
  Proof.
    intros H. pose proof H as (W & Tk & Es & St & [Lb Ll] & F).
    pose proof W as W0. apply wfs_cons in W0. destruct W0 as (W1 & Bi & Hn & Hc).
    pose proof (wfs_ppos_le s r W1) as Hl1.
    cbn [peek_pos] in *. unfold lex_step. cbv zeta. cbv beta.
    destruct (is_ws ucls c).
    { destruct (N.ltb_spec index (s_fso x)) as [Lt|Ge]; [lia|]. cbn [ProofsLex.rpost]. split; [|cbn [s_r]; apply sfx_refl].
      destruct (inv_at_mono _ r x H W1 (sfx_cons _ _)) as (_ & Tk' & Es' & St' & L' & F').
      unfold inv, inv_at. cbn [s_r s_toks s_es s_stack s_last s_fso].
      split; [exact W1|]. split; [exact Tk'|]. split; [exact Es'|]. split; [exact St'|]. split; [exact L'|].
      destruct (index - s_fso x =? 0); lia. }
    match goal with |- ProofsLex.rpost _ _ (if ?b then _ else _) => destruct b eqn:Eline end.
    { apply andb_true_iff in Eline. destruct Eline as [Ec En]. apply N.eqb_eq in Ec. subst c.
      destruct r as [|[i2 n] r1]; [discriminate|]. apply N.eqb_eq in En. subst n.
      assert (slice_ok src len (s_last x) index = true) as Hs.
      { unfold slice_ok. apply N.leb_le in Ll. rewrite Ll, Lb, Bi. cbn [andb].
        pose proof (wfs_ppos_le s _ W) as Hx. cbn [peek_pos] in Hx. apply N.leb_le in Hx. rewrite Hx. reflexivity. }
      rewrite Hs. cbn [negb].
      eapply rpost_bind; [apply lex_line_comment_ok; exact W|].
      intros [t r'] (T1 & T2 & T3 & T4 & T5). cbn [ProofsLex.rpost]. split.
      - apply (inv_push _ x t r' (s_es x) H T1 T2); [eapply sfx_trans; [exact T3 | apply sfx_cons] | exact Es | exact T4 | exact T5].
      - cbn [push s_r]. exact T3. }
    match goal with |- ProofsLex.rpost _ _ (if ?b then _ else _) => destruct b eqn:Eblock end.
    { apply andb_true_iff in Eblock. destruct Eblock as [Ec En]. apply N.eqb_eq in Ec. subst c.
      destruct r as [|[i2 n] r1]; [discriminate|]. apply N.eqb_eq in En. subst n. cbn [tl].
      pose proof W1 as W1'. apply wfs_cons in W1'. destruct W1' as (W2 & B2 & Hn2 & _).
      change (len_utf8 47) with 1 in *. change (len_utf8 42) with 1 in *. cbn [peek_pos] in *.
      eapply rpost_bind.
      { apply (block_loop_ok s (length r1)); [apply le_n | exact W2 | discriminate | | exact Es].
        constructor; [split; [exact Bi | lia] | constructor]. }
      intros [[ot r'] es'] (B1 & B2' & B3 & B4).
      assert (sfx r' ((i2, 42) :: r1)) as S' by (eapply sfx_trans; [exact B2' | apply sfx_cons]).
      destruct ot as [t|]; cbn [ProofsLex.rpost].
      - destruct B4 as [T0 E0]. split; [|cbn [push s_r]; exact S'].
        apply (inv_push _ x t r' es' H T0 B1); [eapply sfx_trans; [exact S' | apply sfx_cons] | exact B3 | rewrite E0; lia | rewrite E0; apply bnd_0].
      - split; [|cbn [skip s_r]; exact S'].
        apply (inv_skip _ x r' es' H B1); [eapply sfx_trans; [exact S' | apply sfx_cons] | exact B3]. }
    apply lex_ident_or_other_ok. exact H.
  Qed.

  Lemma finish_ok stack toks es :
    stack_ok [] stack -> Forall tok_ok toks -> Forall err_ok es ->
    rpost (fun x => Forall tok_ok (fst x) /\ Forall err_ok (snd x)) (finish src len stack toks es).
  Proof.
    revert toks es. induction stack as [|[oi od] stack IH]; intros toks es St Tk Es; cbn [finish].
    - cbn [ProofsLex.rpost fst snd]. split; assumption.
    - pose proof (Forall_inv St) as (Bo & Bo1 & Lo). cbn [fst peek_pos] in Bo, Bo1, Lo.
      unfold span_one. change (len_utf8 40) with 1. spn. intros S1.
      eapply rpost_bind; [apply close_group_ok; [apply sfx_nil | exact Bo | exact Bo1 | exact Lo | apply bnd_len | cbn [peek_pos]; lia]|].
      intros g [Tg _].
      apply IH; [exact (Forall_inv_tail St) | constructor; [exact Tg | exact Tk] | apply err_cons; assumption].
  Qed.

  Definition fpost (x : list tok * span * list lerr) : Prop :=
    let '(toks, full, es) := x in Forall tok_ok toks /\ spok full /\ Forall err_ok es.

  Lemma lex_loop_ok fuel : forall x,
    inv x -> (length (s_r x) < fuel)%nat -> rpost fpost (lex_loop ucls repaired src len fuel x).
  Proof.
    induction fuel as [|f IH]; intros x H Hf; [lia|]. cbn [lex_loop].
    destruct (s_r x) as [|[index c] r] eqn:Er.
    - unfold inv in H. rewrite Er in H. destruct H as (W & Tk & Es & St & _).
      eapply rpost_bind; [apply finish_ok; eassumption|].
      intros [toks es] [T E]. cbn [fst snd] in T, E. spn. intros Sf. cbn [ProofsLex.rpost fpost].
      split; [apply Forall_rev; exact T|]. split; [exact Sf | apply Forall_rev; exact E].
    - unfold inv in H. rewrite Er in H. pose proof (lex_step_ok x index c r H) as HS.
      destruct (lex_step ucls repaired src len x index c r) as [x'|es|site|]; cbn [ProofsLex.rpost] in HS.
      + destruct HS as [I' S']. apply IH; [exact I'|]. apply sfx_length in S'. cbn [length] in Hf. lia.
      + cbn [ProofsLex.rpost]. apply Forall_rev. exact HS.
      + destruct HS.
      + destruct HS.
  Qed.

  Lemma lex_ok : rpost fpost (lex ucls s).
  Proof.
    unfold lex, lex_cfg. apply lex_loop_ok.
    - unfold inv, inv_at, init. cbn [s_r s_toks s_es s_stack s_last s_fso].
      split; [apply wfs_src|]. split; [constructor|]. split; [constructor|]. split; [constructor|].
      split; [split; [apply bnd_0 | lia] | lia].
    - unfold init. cbn [s_r].
      assert (forall off t, length (indices off t) = length t) as HL.
      { intros off t. revert off. induction t as [|c t IHt]; intros off; cbn [indices length]; [reflexivity | rewrite IHt; reflexivity]. }
      rewrite HL. lia.
  Qed.
End Main.

(* ---------------------------------------------------------------- final statements *)
Lemma lex_no_panic ucls s site : lex ucls s <> RPanic site.
Proof. intros E. pose proof (lex_ok ucls s) as H. rewrite E in H. exact H. Qed.

Lemma lex_fuel_enough ucls s : lex ucls s <> RFuel.
Proof. intros E. pose proof (lex_ok ucls s) as H. rewrite E in H. exact H. Qed.

Lemma Forall_flat_map {A B} (P : B -> Prop) (f : A -> list B) l :
  Forall (fun a => Forall P (f a)) l -> Forall P (flat_map f l).
Proof. induction 1 as [|a l Ha _ IH]; cbn [flat_map]; [constructor | apply Forall_app; split; assumption]. Qed.

Lemma lex_spans_in_bounds ucls s sp : In sp (res_spans (lex ucls s)) -> span_ok s sp.
Proof.
  intros Hin. pose proof (lex_ok ucls s) as H. apply span_okb_iff.
  destruct (lex ucls s) as [[[toks full] es]|es|site|]; cbn [res_spans ProofsLex.rpost fpost] in *.
  - destruct H as (T & F & E). destruct Hin as [<-|Hin]; [exact F|].
    apply in_app_or in Hin. destruct Hin as [Hin|Hin].
    + pose proof (Forall_flat_map (sp_ok s) tok_spans toks T) as HT. rewrite Forall_forall in HT. apply HT. exact Hin.
    + unfold errs_spans in Hin. apply in_map_iff in Hin. destruct Hin as (e & <- & He).
      rewrite Forall_forall in E. apply E. exact He.
  - unfold errs_spans in Hin. apply in_map_iff in Hin. destruct Hin as (e & <- & He).
    rewrite Forall_forall in H. apply H. exact He.
  - destruct Hin.
  - destruct Hin.
Qed.

(* What the judge's lexer codes 0, 1, 9 and parser code 0 certify about the implementation's output. *)
Lemma judge_lex_accepts cf nb s tab wm il ip :
  (let c := fst (judge cf nb s tab wm il ip) in c = 0 \/ c = 1 \/ c = 9) ->
  il <> ILexPanic /\ Forall (span_ok s) (impl_lex_spans il).
Proof.
  cbv zeta. unfold judge. cbn [fst].
  destruct (negb (total_len 0 s =? nb)); [intros [H|[H|H]]; discriminate|].
  destruct il as [toks full errs|errs|]; try (intros [H|[H|H]]; discriminate).
  - destruct (forallb _ _) eqn:EF; cbn [negb]; [|intros [H|[H|H]]; discriminate].
    intros _. split; [discriminate|]. apply Forall_forall. intros sp Hin. rewrite forallb_forall in EF.
    specialize (EF sp Hin). rewrite span_okb_fast_eq in EF. apply span_okb_iff. exact EF.
  - destruct (forallb _ _) eqn:EF; cbn [negb]; [|intros [H|[H|H]]; discriminate].
    intros _. split; [discriminate|]. apply Forall_forall. intros sp Hin. rewrite forallb_forall in EF.
    specialize (EF sp Hin). rewrite span_okb_fast_eq in EF. apply span_okb_iff. exact EF.
Qed.

Lemma judge_parse_accepts cf nb s tab wm il ip :
  snd (judge cf nb s tab wm il ip) = 0 ->
  exists ok spans, ip = IParse ok spans 0 /\ Forall (span_ok s) spans /\
    Forall (derived (gens_cheap il ++ gens_eos (ucls_of tab) (indices 0 s) il)) spans.
Proof.
  unfold judge. cbn [snd]. destruct ip as [ok spans fb|]; [|discriminate].
  destruct (forallb _ spans) eqn:EF; cbn [negb]; [|discriminate].
  destruct (N.eqb_spec fb 0) as [->|]; cbn [negb]; [|discriminate].
  destruct (forallb (diag_derivedb _ _ _) spans) eqn:ED; cbn [negb]; [|discriminate].
  intros _. exists ok, spans. split; [reflexivity|]. split.
  - apply Forall_forall. intros sp Hin. rewrite forallb_forall in EF.
    specialize (EF sp Hin). rewrite span_okb_fast_eq in EF. apply span_okb_iff. exact EF.
  - apply Forall_forall. intros sp Hin. rewrite forallb_forall in ED. specialize (ED sp Hin).
    unfold diag_derivedb in ED. apply orb_true_iff in ED. destruct ED as [ED|ED].
    + eapply derived_mono; [|apply derivedb_sound; exact ED]. apply incl_appl. apply incl_refl.
    + apply derivedb_sound. exact ED.
Qed.
