(* C16 — how parser diagnostics build their spans: Span::join / start_span / end_span over spans the
   lexer produced, and the "just after the last item" span of Parser::emit_error.  Closure of
   in-bounds spans under these operations, and the decidable structural tie evaluated by the judge. *)
From SwayV Require Import Base.Util C16.Model C16.Spec.
Open Scope N_scope.

(* sway_types::Span::join: min of the starts, max of the ends *)
Definition join (a b : span) : span := (N.min (fst a) (fst b), N.max (snd a) (snd b)).
Definition start_span (a : span) : span := (fst a, fst a).
Definition end_span (a : span) : span := (snd a, snd a).

(* spans obtainable from the generators g *)
Inductive derived (g : list span) : span -> Prop :=
| d_gen sp : In sp g -> derived g sp
| d_join a b : derived g a -> derived g b -> derived g (join a b)
| d_start a : derived g a -> derived g (start_span a)
| d_end a : derived g a -> derived g (end_span a).

Definition endpoints (g : list span) : list N := flat_map (fun sp => [fst sp; snd sp]) g.
Definition derivedb (g : list span) (sp : span) : bool :=
  (fst sp <=? snd sp) && existsb (N.eqb (fst sp)) (endpoints g) && existsb (N.eqb (snd sp)) (endpoints g).

(* Parser::emit_error with no token left: one byte "just after the last parsed item"
   (full = full span of the token stream being parsed: the file's or a group's contents) *)
Definition trailing_ws_bytes (ucls : N -> N) (src : list ci) (f : span) : N :=
  (fix go (l : list ci) : N :=
     match l with
     | (_, c) :: l' => if is_ws ucls c then len_utf8 c + go l' else 0
     | [] => 0
     end) (rev (filter (fun x => (fst f <=? fst x) && (fst x <? snd f)) src)).
Definition eos_span (ucls : N -> N) (src : list ci) (f : span) : span :=
  let t := trailing_ws_bytes ucls src f in
  let off := if t =? 0 then 1 else t in
  (snd f - off, snd f + 1 - off).

(* Span::next_char_utf8: the one char right after the span (used for "expected ... after" diagnostics) *)
Definition next_char_span (src : list ci) (a : span) : list span :=
  match find (fun x => fst x =? snd a) src with
  | Some (o, c) => [(o, o + len_utf8 c)]
  | None => []
  end.

(* ---- closure *)
Lemma boundary_min s a b : boundary s a -> boundary s b -> boundary s (N.min a b).
Proof. intros Ha Hb. destruct (N.min_spec a b) as [[_ ->]|[_ ->]]; assumption. Qed.
Lemma boundary_max s a b : boundary s a -> boundary s b -> boundary s (N.max a b).
Proof. intros Ha Hb. destruct (N.max_spec a b) as [[_ ->]|[_ ->]]; assumption. Qed.

Lemma span_ok_join s a b : span_ok s a -> span_ok s b -> span_ok s (join a b).
Proof.
  unfold span_ok, join. cbn [fst snd]. intros (A1 & A2 & A3 & A4) (B1 & B2 & B3 & B4).
  split; [lia|]. split; [lia|]. split; [apply boundary_min | apply boundary_max]; assumption.
Qed.
Lemma span_ok_start s a : span_ok s a -> span_ok s (start_span a).
Proof. unfold span_ok, start_span. cbn [fst snd]. intros (A1 & A2 & A3 & A4). repeat split; auto; lia. Qed.
Lemma span_ok_end s a : span_ok s a -> span_ok s (end_span a).
Proof. unfold span_ok, end_span. cbn [fst snd]. intros (A1 & A2 & A3 & A4). repeat split; auto; lia. Qed.

Lemma derived_ok s g sp : Forall (span_ok s) g -> derived g sp -> span_ok s sp.
Proof.
  intros Hg H. induction H as [sp Hin | a b _ IHa _ IHb | a _ IH | a _ IH].
  - rewrite Forall_forall in Hg. apply Hg. exact Hin.
  - apply span_ok_join; assumption.
  - apply span_ok_start; assumption.
  - apply span_ok_end; assumption.
Qed.

(* ---- the boolean tie is sound: both ends are ends of generators => derived *)
Lemma endpoint_point g p : In p (endpoints g) -> derived g (p, p).
Proof.
  unfold endpoints. intros H. apply in_flat_map in H. destruct H as (sp & Hin & Hp).
  destruct Hp as [<-|[<-|[]]].
  - apply (d_start g sp). apply d_gen. exact Hin.
  - apply (d_end g sp). apply d_gen. exact Hin.
Qed.

Lemma existsb_eqb_In x l : existsb (N.eqb x) l = true -> In x l.
Proof. intros H. apply existsb_exists in H. destruct H as (y & Hy & E). apply N.eqb_eq in E. subst. exact Hy. Qed.

Lemma derivedb_sound g sp : derivedb g sp = true -> derived g sp.
Proof.
  destruct sp as [a b]. unfold derivedb. cbn [fst snd]. intros H.
  apply andb_true_iff in H. destruct H as [H Hb]. apply andb_true_iff in H. destruct H as [Hle Ha].
  apply N.leb_le in Hle. apply existsb_eqb_In in Ha. apply existsb_eqb_In in Hb.
  pose proof (d_join g (a, a) (b, b) (endpoint_point g a Ha) (endpoint_point g b Hb)) as HJ.
  unfold join in HJ. cbn [fst snd] in HJ. rewrite N.min_l, N.max_r in HJ by lia. exact HJ.
Qed.

Lemma derived_mono g g' sp : incl g g' -> derived g sp -> derived g' sp.
Proof.
  intros Hi H. induction H as [sp Hin | a b _ IHa _ IHb | a _ IH | a _ IH].
  - apply d_gen. apply Hi. exact Hin.
  - apply d_join; assumption.
  - apply d_start; assumption.
  - apply d_end; assumption.
Qed.
