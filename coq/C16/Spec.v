(* C16 — what "in-bounds span" means, independently of the lexer model, and the boolean oracles
   that the judge evaluates on the spans reported by the REAL lexer and parser. *)
From SwayV Require Import Base.Util C16.Model.
Open Scope N_scope.

(* byte length of a text given as scalars *)
Definition blen (s : list N) : N := total_len 0 s.

(* p is a UTF-8 char boundary of the text s: the byte length of a prefix (of whole scalars) *)
Definition boundary (s : list N) (p : N) : Prop := exists pre post, s = pre ++ post /\ blen pre = p.

(* The property for one span: start <= end <= |s| and both ends on char boundaries
   (exactly the condition under which `str::get(start..end)` is `Some`). *)
Definition span_ok (s : list N) (sp : span) : Prop :=
  fst sp <= snd sp /\ snd sp <= blen s /\ boundary s (fst sp) /\ boundary s (snd sp).

(* boolean oracle over the char_indices view *)
Definition span_okb (src : list ci) (len : N) (sp : span) : bool :=
  (fst sp <=? snd sp) && (snd sp <=? len) && is_bnd src len (fst sp) && is_bnd src len (snd sp).

Definition tok_spans (t : tok) : list span :=
  match t with
  | TIdent _ sp | TPunct _ _ sp | TStr sp | TChar sp | TBool sp | TComment _ sp => [sp]
  | TOpen _ => []
  | TGroup _ sp inner => [sp; inner]
  | TInt sp None => [sp]
  | TInt sp (Some (_, sp2)) => [sp; sp2]
  | TDoc _ sp c => [sp; c]
  end.

Definition toks_spans (ts : list tok) : list span := flat_map tok_spans ts.
Definition errs_spans (es : list lerr) : list span := map snd es.

(* every span mentioned by a lexer result *)
Definition res_spans (x : res (list tok * span * list lerr)) : list span :=
  match x with
  | ROk (ts, full, es) => full :: toks_spans ts ++ errs_spans es
  | RAbort es => errs_spans es
  | _ => []
  end.

Definition spans_okb (src : list ci) (len : N) (l : list span) : bool := forallb (span_okb src len) l.

(* A valid Rust `char`: any scalar value.  The model's arithmetic only uses len_utf8, which is
   total, so the theorems do not even need this hypothesis. *)
Definition valid_scalars (s : list N) : Prop := Forall (fun c => valid_scalar c = true) s.
