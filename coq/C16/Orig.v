(* C16 — the ORIGINAL span computations of token.rs (before the three `fix:` commits), kept
   executable: `lex_cfg original`.  Each is refuted by a concrete input on which the model panics
   exactly where the real lexer did (replayed on the real code before the repair). *)
From SwayV Require Import Base.Util C16.Model.
Open Scope N_scope.

Definition lex_orig := lex_cfg original.
Definition no_ucls : N -> N := fun _ => 0.

(* "/*é": unclosed block comment; the error span ended at len - 1, inside the 2-byte é *)
Lemma lex_no_panic_refuted : exists s, exists site, lex_orig no_ucls s = RPanic site.
Proof. exists [47; 42; 233]. eexists. vm_compute. reflexivity. Qed.

(* only the comment computation original, the two others repaired *)
Lemma comment_span_refuted :
  exists s site, lex_cfg {| fix_comment := false; fix_quote := true; fix_ubrace := true |} no_ucls s = RPanic site.
Proof. exists [47; 42; 233]. eexists. vm_compute. reflexivity. Qed.

(* "'éa'": ExpectedCloseQuote span = next_index + byte length of the parsed string: past the end *)
Lemma close_quote_span_refuted :
  exists s site, lex_cfg {| fix_comment := true; fix_quote := false; fix_ubrace := true |} no_ucls s = RPanic site.
Proof. exists [39; 233; 97; 39]. eexists. vm_compute. reflexivity. Qed.

(* "\ué" inside a string: UnicodeEscapeMissingBrace span = len_utf8(é) bytes from the 'u' *)
Lemma missing_brace_span_refuted :
  exists s site, lex_cfg {| fix_comment := true; fix_quote := true; fix_ubrace := false |} no_ucls s = RPanic site.
Proof. exists [34; 92; 117; 233; 34]. eexists. vm_compute. reflexivity. Qed.

(* the repaired model on the same inputs: diagnostics, no panic *)
Example repaired_on_witnesses :
  lex no_ucls [47; 42; 233] = ROk ([], (0, 4), [(1, (0, 2))]) /\
  lex no_ucls [39; 233; 97; 39] = ROk ([TStr (0, 4)], (0, 5), [(7, (3, 5))]) /\
  lex no_ucls [34; 92; 117; 233; 34] = RAbort [(14, (2, 3))].
Proof. vm_compute. repeat split. Qed.
