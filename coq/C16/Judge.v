(* C16 — per-case judgement of the real lexer/parser output (evaluated with vm_compute). *)
From Coq Require Import MSets.MSetPositive Uint63.
From SwayV Require Import Base.Util C16.Model C16.Spec C16.Join.
Open Scope N_scope.

(* ---- transport: coqc parses primitive-integer literals an order of magnitude faster than N
   literals, so the harness prints primitive ints (a span as start * 2^31 + end, three scalars
   per int as (c+1) in 21-bit fields, first scalar in the low bits); they are unpacked here. *)
Definition n_of (i : int) : N := Z.to_N (Uint63.to_Z i).
Definition sp_of (i : int) : span :=
  (n_of (Uint63.lsr i 31), n_of (Uint63.land i 2147483647)).
Inductive xtok :=
| XIdent (raw : bool) (sp : int) | XOpen (d : int) | XGroup (d sp inner : int)
| XPunct (c : int) (joint : bool) (sp : int) | XStr (sp : int) | XChar (sp : int) | XBool (sp : int)
| XInt (sp : int) (ty : option (int * int)) | XComment (k sp : int) | XDoc (k sp c : int).
Definition tok_of (x : xtok) : tok :=
  match x with
  | XIdent r s => TIdent r (sp_of s) | XOpen d => TOpen (n_of d) | XGroup d s i => TGroup (n_of d) (sp_of s) (sp_of i)
  | XPunct c j s => TPunct (n_of c) j (sp_of s) | XStr s => TStr (sp_of s) | XChar s => TChar (sp_of s)
  | XBool s => TBool (sp_of s)
  | XInt s None => TInt (sp_of s) None
  | XInt s (Some (t, s2)) => TInt (sp_of s) (Some (n_of t, sp_of s2))
  | XComment k s => TComment (n_of k) (sp_of s) | XDoc k s c => TDoc (n_of k) (sp_of s) (sp_of c)
  end.
Definition err_of (x : int * int) : lerr := (n_of (fst x), sp_of (snd x)).
Fixpoint scalars_of (l : list int) : list N :=
  match l with
  | [] => []
  | i :: t =>
    let a := n_of (Uint63.land i 2097151) in
    let b := n_of (Uint63.land (Uint63.lsr i 21) 2097151) in
    let c := n_of (Uint63.lsr i 42) in
    (if a =? 0 then [] else [a - 1]) ++ (if b =? 0 then [] else [b - 1]) ++ (if c =? 0 then [] else [c - 1])
    ++ scalars_of t
  end.

Inductive ximpl_lex := XLexOk (toks : list xtok) (full : int) (errs : list (int * int)) | XLexErr (errs : list (int * int)) | XLexPanic.
Inductive ximpl_parse := XParse (ok : int) (spans : list int) (foreign_bad : int) | XParsePanic.

Inductive impl_lex := ILexOk (toks : list tok) (full : span) (errs : list lerr) | ILexErr (errs : list lerr) | ILexPanic.
Inductive impl_parse := IParse (ok : N) (spans : list span) (foreign_bad : N) | IParsePanic.
Definition lex_of (x : ximpl_lex) : impl_lex :=
  match x with
  | XLexOk ts f es => ILexOk (map tok_of ts) (sp_of f) (map err_of es)
  | XLexErr es => ILexErr (map err_of es)
  | XLexPanic => ILexPanic
  end.
Definition parse_of (x : ximpl_parse) : impl_parse :=
  match x with
  | XParse ok sps fb => IParse (n_of ok) (map sp_of sps) (n_of fb)
  | XParsePanic => IParsePanic
  end.

Definition span_eqb (a b : span) : bool := (fst a =? fst b) && (snd a =? snd b).
Definition ty_eqb (a b : option (N * span)) : bool :=
  match a, b with
  | None, None => true
  | Some (x, s), Some (y, t) => (x =? y) && span_eqb s t
  | _, _ => false
  end.
Definition tok_eqb (a b : tok) : bool :=
  match a, b with
  | TIdent r s, TIdent r' s' => Bool.eqb r r' && span_eqb s s'
  | TOpen d, TOpen d' => d =? d'
  | TGroup d s i, TGroup d' s' i' => (d =? d') && span_eqb s s' && span_eqb i i'
  | TPunct c j s, TPunct c' j' s' => (c =? c') && Bool.eqb j j' && span_eqb s s'
  | TStr s, TStr s' | TChar s, TChar s' | TBool s, TBool s' => span_eqb s s'
  | TInt s t, TInt s' t' => span_eqb s s' && ty_eqb t t'
  | TComment k s, TComment k' s' => (k =? k') && span_eqb s s'
  | TDoc k s c, TDoc k' s' c' => (k =? k') && span_eqb s s' && span_eqb c c'
  | _, _ => false
  end.
Fixpoint list_eqb {A} (eq : A -> A -> bool) (a b : list A) : bool :=
  match a, b with
  | [], [] => true
  | x :: a', y :: b' => eq x y && list_eqb eq a' b'
  | _, _ => false
  end.
Definition lerr_eqb (a b : lerr) : bool := (fst a =? fst b) && span_eqb (snd a) (snd b).

(* class bits of non-ASCII scalars as reported by the harness for this input *)
Definition ucls_of (tab : list (N * N)) (c : N) : N :=
  match find (fun x => fst x =? c) tab with Some (_, b) => b | None => 0 end.

(* ---- fast boundary oracle for large inputs (proved equal to span_okb in Proofs.v) *)
Definition bset (src : list ci) : PositiveSet.t :=
  fold_left (fun acc x => PositiveSet.add (N.succ_pos (fst x)) acc) src PositiveSet.empty.
Definition is_bnd_fast (bs : PositiveSet.t) (len p : N) : bool :=
  (p =? len) || PositiveSet.mem (N.succ_pos p) bs.
Definition span_okb_fast (bs : PositiveSet.t) (len : N) (sp : span) : bool :=
  (fst sp <=? snd sp) && (snd sp <=? len) && is_bnd_fast bs len (fst sp) && is_bnd_fast bs len (snd sp).

Definition impl_lex_spans (il : impl_lex) : list span :=
  match il with
  | ILexOk ts full es => full :: toks_spans ts ++ errs_spans es
  | ILexErr es => errs_spans es
  | ILexPanic => []
  end.

(* ---- structural tie for parser diagnostics: generators = spans of the (comment-stripped) token
   stream the parser receives, the stream span, the lexer's own diagnostics (same handler), and the
   end-of-stream spans of Parser::emit_error for the file and for every group, and the
   Span::next_char_utf8 span after each of them (second, expensive stage: only when the first fails) *)
Definition tok_gen_spans (ts : list tok) : list span :=
  flat_map (fun t => match t with TComment _ _ => [] | _ => tok_spans t end) ts.
Definition inner_spans (ts : list tok) : list span :=
  flat_map (fun t => match t with TGroup _ _ i => [i] | _ => [] end) ts.
Definition gens_cheap (il : impl_lex) : list span :=
  match il with
  | ILexOk ts full es => full :: tok_gen_spans ts ++ errs_spans es
  | ILexErr es => errs_spans es
  | ILexPanic => []
  end.
Definition gens_eos (ucls : N -> N) (src : list ci) (il : impl_lex) : list span :=
  match il with
  | ILexOk ts full _ =>
    map (eos_span ucls src) (full :: inner_spans ts) ++ flat_map (next_char_span src) (gens_cheap il)
  | _ => []
  end.
Definition diag_derivedb (ucls : N -> N) (src : list ci) (il : impl_lex) (sp : span) : bool :=
  derivedb (gens_cheap il) sp || derivedb (gens_cheap il ++ gens_eos ucls src il) sp.

Definition same (m : res (list tok * span * list lerr)) (il : impl_lex) : bool :=
  match m, il with
  | ROk (ts, full, es), ILexOk ts' full' es' =>
      list_eqb tok_eqb ts ts' && span_eqb full full' && list_eqb lerr_eqb es es'
  | RAbort es, ILexErr es' => list_eqb lerr_eqb es es'
  | _, _ => false
  end.

(* lexer code:
     0 agree with the model, all spans in bounds
     1 implementation's spans all in bounds but its stream differs from the model's (correspondence)
     2 VIOLATION: the lexer panicked
     3 VIOLATION: a token or error span is out of bounds / off a char boundary
     4 the model panics or runs out of fuel on this input although the implementation did not
     5 byte length reported by the harness differs from the model's (encoding problem)
     9 spans in bounds; model comparison skipped (input above the size cap)
   parser code:
     0 no panic, every diagnostic span in bounds
     2 VIOLATION: parse_file panicked
     3 VIOLATION: a diagnostic span is out of bounds / off a char boundary
     4 VIOLATION: a diagnostic span pointing into another source is invalid there
     5 every diagnostic span in bounds, but one is NOT built (join / start / end) from the token spans,
       lexer diagnostics and end-of-stream spans of this input (structural tie broken) *)
Definition judge (cf : cfg) (nbytes : N) (s : list N) (tab : list (N * N)) (with_model : bool)
                 (il : impl_lex) (ip : impl_parse) : N * N :=
  let src := indices 0 s in
  let len := total_len 0 s in
  let bs := bset src in
  let okf := span_okb_fast bs len in
  let lc :=
    if negb (len =? nbytes) then 5
    else match il with
         | ILexPanic => 2
         | _ =>
           if negb (forallb okf (impl_lex_spans il)) then 3
           else if with_model then
             let m := lex_cfg cf (ucls_of tab) s in
             match m with
             | RPanic _ | RFuel => 4
             | _ => if same m il then 0 else 1
             end
           else 9
         end in
  let pc :=
    match ip with
    | IParsePanic => 2
    | IParse _ spans fb =>
      if negb (forallb okf spans) then 3 else if negb (fb =? 0) then 4
      else if negb (forallb (diag_derivedb (ucls_of tab) src il) spans) then 5 else 0
    end in
  (lc, pc).

Definition case := (int * list int * list (int * int) * bool * ximpl_lex * ximpl_parse)%type.
Definition judge_all (cf : cfg) (cs : list case) : list (N * N) :=
  map (fun c => match c with (nb, s, tab, wm, il, ip) =>
         judge cf (n_of nb) (scalars_of s) (map (fun x => (n_of (fst x), n_of (snd x))) tab) wm (lex_of il) (parse_of ip) end) cs.
