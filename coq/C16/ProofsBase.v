(* C16 — facts about char_indices / boundaries, the span oracle, and the postcondition combinators. *)
From Coq Require Import MSets.MSetPositive.
From SwayV Require Import Base.Util C16.Model C16.Spec C16.Judge.
Open Scope N_scope.

Lemma len_utf8_range c : 1 <= len_utf8 c <= 4.
Proof. unfold len_utf8. repeat match goal with |- context [if ?b then _ else _] => destruct b end; lia. Qed.

Lemma total_len_app off a b : total_len off (a ++ b) = total_len (total_len off a) b.
Proof. revert off. induction a as [|c a IH]; intros off; cbn [app total_len]; [reflexivity | apply IH]. Qed.

Lemma indices_app off a b : indices off (a ++ b) = indices off a ++ indices (total_len off a) b.
Proof. revert off. induction a as [|c a IH]; intros off; cbn [app total_len indices]; [reflexivity | rewrite IH; reflexivity]. Qed.

Lemma total_len_ge off s : off <= total_len off s.
Proof. revert off. induction s as [|c s IH]; intros off; cbn [total_len]; [lia|]. specialize (IH (off + len_utf8 c)). pose proof (len_utf8_range c). lia. Qed.

Lemma indices_In off s p c :
  In (p, c) (indices off s) -> exists pre post, s = pre ++ c :: post /\ total_len off pre = p.
Proof.
  revert off. induction s as [|c0 s IH]; intros off H; cbn [indices] in H; [destruct H|].
  destruct H as [H|H].
  - inversion H; subst. exists [], s. split; reflexivity.
  - destruct (IH _ H) as (pre & post & E & T). exists (c0 :: pre), post. subst s. split; [reflexivity | exact T].
Qed.

Lemma indices_In_range off s p c : In (p, c) (indices off s) -> off <= p /\ p + len_utf8 c <= total_len off s.
Proof.
  intros H. destruct (indices_In _ _ _ _ H) as (pre & post & E & T). subst s p.
  rewrite total_len_app. cbn [total_len]. split; [apply total_len_ge|apply total_len_ge].
Qed.

Section Src.
  Variable s : list N.
  Notation src := (indices 0 s).
  Notation len := (total_len 0 s).

  Definition sfx (r' r : list ci) : Prop := exists mid, r = mid ++ r'.
  Definition wfs (r : list ci) : Prop := sfx r src.
  Notation bnd := (is_bnd src len).
  Notation ppos := (peek_pos len).

  Lemma sfx_refl r : sfx r r. Proof. exists []. reflexivity. Qed.
  Lemma sfx_trans a b c : sfx a b -> sfx b c -> sfx a c.
  Proof. intros [m1 E1] [m2 E2]. exists (m2 ++ m1). subst. rewrite app_assoc. reflexivity. Qed.
  Lemma sfx_cons x r : sfx r (x :: r). Proof. exists [x]. reflexivity. Qed.
  Lemma sfx_nil r : sfx [] r. Proof. exists r. rewrite app_nil_r. reflexivity. Qed.
  Lemma sfx_length a b : sfx a b -> (length a <= length b)%nat.
  Proof. intros [m E]. subst. rewrite app_length. lia. Qed.
  Lemma wfs_sfx r' r : wfs r -> sfx r' r -> wfs r'.
  Proof. intros H1 H2. exact (sfx_trans _ _ _ H2 H1). Qed.
  Lemma wfs_src : wfs src. Proof. apply sfx_refl. Qed.

  Lemma bnd_len : bnd len = true.
  Proof. unfold is_bnd. rewrite N.eqb_refl. reflexivity. Qed.

  Lemma bnd_In p c : In (p, c) src -> bnd p = true.
  Proof.
    intros H. unfold is_bnd. apply orb_true_iff. right. apply existsb_exists.
    exists (p, c). split; [exact H | apply N.eqb_refl].
  Qed.

  Lemma bnd_0 : bnd 0 = true.
  Proof.
    unfold is_bnd. destruct s as [|c t]; cbn [indices total_len existsb fst].
    - rewrite (N.eqb_refl 0). reflexivity.
    - rewrite (N.eqb_refl 0). rewrite orb_true_r. reflexivity.
  Qed.

  (* the next position after a char of the stream is the position of the following char *)
  Lemma indices_next (t : list N) off pre p c r' :
    indices off t = pre ++ (p, c) :: r' -> peek_pos (total_len off t) r' = p + len_utf8 c.
  Proof.
    revert off pre. induction t as [|c0 t IH]; intros off pre H; cbn [indices] in H.
    - destruct pre; discriminate.
    - destruct pre as [|x pre]; cbn [app] in H.
      + inversion H; subst. cbn [total_len]. destruct t; cbn [indices peek_pos total_len]; reflexivity.
      + inversion H as [[Hx Hr]]. cbn [total_len]. eapply IH. exact Hr.
  Qed.

  Lemma wfs_cons p c r :
    wfs ((p, c) :: r) ->
    wfs r /\ bnd p = true /\ ppos r = p + len_utf8 c /\ 1 <= len_utf8 c <= 4.
  Proof.
    intros [mid E]. split; [|split; [|split]].
    - exists (mid ++ [(p, c)]). rewrite <- app_assoc. exact E.
    - apply (bnd_In p c). rewrite E. apply in_or_app. right. left. reflexivity.
    - eapply indices_next. exact E.
    - apply len_utf8_range.
  Qed.

  Lemma wfs_ppos_le r : wfs r -> ppos r <= len.
  Proof.
    intros [mid E]. destruct r as [|[p c] r]; cbn [peek_pos]; [lia|].
    assert (In (p, c) src) as H by (rewrite E; apply in_or_app; right; left; reflexivity).
    apply indices_In_range in H. pose proof (len_utf8_range c). lia.
  Qed.

  Lemma wfs_ppos_bnd r : wfs r -> bnd (ppos r) = true.
  Proof.
    intros [mid E]. destruct r as [|[p c] r]; cbn [peek_pos]; [apply bnd_len|].
    apply (bnd_In p c). rewrite E. apply in_or_app. right. left. reflexivity.
  Qed.

  Lemma sfx_ppos_le r' r : wfs r -> sfx r' r -> ppos r <= ppos r'.
  Proof.
    intros W [mid E]. subst r. induction mid as [|[p c] mid IH]; cbn [app] in *; [lia|].
    apply wfs_cons in W. destruct W as (W & _ & Hn & Hc). specialize (IH W). cbn [peek_pos]. lia.
  Qed.

  (* ---- spans *)
  Definition sp_ok (sp : span) : Prop := span_okb src len sp = true.

  Lemma mk_span_ok site a b :
    a <= b -> b <= len -> bnd a = true -> bnd b = true ->
    mk_span src len site a b = ROk (a, b) /\ sp_ok (a, b).
  Proof.
    intros H1 H2 H3 H4. unfold mk_span, sp_ok, span_okb. cbn [fst snd].
    apply N.leb_le in H1. apply N.leb_le in H2. rewrite H1, H2, H3, H4. split; reflexivity.
  Qed.

  Lemma mk_span_inv site a b sp : mk_span src len site a b = ROk sp -> sp = (a, b) /\ sp_ok (a, b).
  Proof.
    unfold mk_span, sp_ok, span_okb. cbn [fst snd].
    destruct ((a <=? b) && (b <=? len) && is_bnd src len a && is_bnd src len b) eqn:E; [|discriminate].
    intros H. inversion H. split; [reflexivity | reflexivity].
  Qed.

  Lemma sp_ok_parts a b : sp_ok (a, b) -> a <= b /\ b <= len /\ bnd a = true /\ bnd b = true.
  Proof.
    unfold sp_ok, span_okb. cbn [fst snd]. intros H.
    apply andb_true_iff in H. destruct H as [H H4]. apply andb_true_iff in H. destruct H as [H H3].
    apply andb_true_iff in H. destruct H as [H1 H2]. apply N.leb_le in H1. apply N.leb_le in H2. auto.
  Qed.

  (* ---- the oracle means what Spec says *)
  Lemma bnd_boundary p : bnd p = true <-> boundary s p.
  Proof.
    unfold is_bnd, boundary, blen. split.
    - intros H. apply orb_true_iff in H. destruct H as [H|H].
      + apply N.eqb_eq in H. subst p. exists s, []. rewrite app_nil_r. split; reflexivity.
      + apply existsb_exists in H. destruct H as ([q c] & Hin & Hq). cbn [fst] in Hq. apply N.eqb_eq in Hq. subst q.
        destruct (indices_In _ _ _ _ Hin) as (pre & post & E & T). exists pre, (c :: post). split; assumption.
    - intros (pre & post & E & T). apply orb_true_iff. destruct post as [|c post].
      + left. apply N.eqb_eq. rewrite app_nil_r in E. subst. reflexivity.
      + right. apply existsb_exists. exists (p, c). split; [|apply N.eqb_refl].
        rewrite E, indices_app. apply in_or_app. right. rewrite T. cbn [indices]. left. reflexivity.
  Qed.

  Lemma span_okb_iff sp : span_okb src len sp = true <-> span_ok s sp.
  Proof.
    destruct sp as [a b]. unfold span_ok. cbn [fst snd]. split.
    - intros H. apply sp_ok_parts in H. destruct H as (H1 & H2 & H3 & H4).
      rewrite <- !bnd_boundary. unfold blen. auto.
    - intros (H1 & H2 & H3 & H4). rewrite <- bnd_boundary in H3, H4. unfold blen in H2.
      apply (mk_span_ok 0 a b H1 H2 H3 H4).
  Qed.
End Src.

(* ---- the PositiveSet-based oracle used by the judge equals span_okb *)
Lemma bset_fold_mem (l : list ci) acc q :
  PositiveSet.mem q (fold_left (fun a x => PositiveSet.add (N.succ_pos (fst x)) a) l acc) =
  PositiveSet.mem q acc || existsb (fun x => Pos.eqb (N.succ_pos (fst x)) q) l.
Proof.
  revert acc. induction l as [|x l IH]; intros acc; cbn [fold_left existsb].
  - rewrite orb_false_r. reflexivity.
  - rewrite IH.
    assert (PositiveSet.mem q (PositiveSet.add (N.succ_pos (fst x)) acc) = PositiveSet.mem q acc || Pos.eqb (N.succ_pos (fst x)) q) as ->.
    { destruct (Pos.eqb_spec (N.succ_pos (fst x)) q) as [E|E].
      - rewrite orb_true_r. apply PositiveSet.mem_spec. apply PositiveSet.add_spec. left. symmetry. exact E.
      - rewrite orb_false_r. apply eq_true_iff_eq. rewrite !PositiveSet.mem_spec, PositiveSet.add_spec.
        split; [intros [H|H]; [congruence|exact H] | intros H; right; exact H]. }
    rewrite orb_assoc. reflexivity.
Qed.

Lemma succ_pos_eqb a b : Pos.eqb (N.succ_pos a) (N.succ_pos b) = (a =? b).
Proof.
  destruct (N.eqb_spec a b) as [E|E].
  - subst. apply Pos.eqb_refl.
  - apply Pos.eqb_neq. intros H. apply E. destruct a as [|p], b as [|q]; cbn [N.succ_pos] in H.
    + reflexivity.
    + symmetry in H. apply Pos.succ_not_1 in H. destruct H.
    + apply Pos.succ_not_1 in H. destruct H.
    + apply Pos.succ_inj in H. subst. reflexivity.
Qed.

Lemma is_bnd_fast_eq src len p : is_bnd_fast (bset src) len p = is_bnd src len p.
Proof.
  unfold is_bnd_fast, is_bnd, bset. rewrite bset_fold_mem. f_equal.
  assert (PositiveSet.mem (N.succ_pos p) PositiveSet.empty = false) as -> by reflexivity.
  cbn [orb]. induction src as [|x l IH]; cbn [existsb]; [reflexivity|]. rewrite IH, succ_pos_eqb. reflexivity.
Qed.

Lemma span_okb_fast_eq src len sp : span_okb_fast (bset src) len sp = span_okb src len sp.
Proof. unfold span_okb_fast, span_okb. rewrite !is_bnd_fast_eq. reflexivity. Qed.
