(* C16 — per-function lemmas: every function of the lexer model (repaired code) neither panics nor
   produces a span that is out of bounds, for every input and every Unicode class table. *)
From SwayV Require Import Base.Util C16.Model C16.Spec C16.Judge C16.ProofsBase.
Open Scope N_scope.

Lemma cover (t : list N) off p :
  off <= p < total_len off t -> exists o c, In (o, c) (indices off t) /\ o <= p < o + len_utf8 c.
Proof.
  revert off. induction t as [|c t IH]; intros off H; cbn [total_len indices] in *; [lia|].
  destruct (N.lt_ge_cases p (off + len_utf8 c)) as [L|G].
  - exists off, c. split; [left; reflexivity | lia].
  - destruct (IH (off + len_utf8 c)) as (o & c' & Hin & Ho); [lia|].
    exists o, c'. split; [right; exact Hin | exact Ho].
Qed.

Section Lex.
  Variable ucls : N -> N.
  Variable s : list N.
  Notation src := (indices 0 s).
  Notation len := (total_len 0 s).
  Notation bnd := (is_bnd src len).
  Notation ppos := (peek_pos len).
  Notation wf := (wfs s).
  Notation spok := (sp_ok s).

  Definition tok_ok (t : tok) : Prop := Forall spok (tok_spans t).
  Definition err_ok (e : lerr) : Prop := spok (snd e).
  Definition rpost {A} (P : A -> Prop) (x : res A) : Prop :=
    match x with ROk a => P a | RAbort es => Forall err_ok es | RPanic _ => False | RFuel => False end.

  Lemma rpost_bind {A B} (P : A -> Prop) (Q : B -> Prop) x (f : A -> res B) :
    rpost P x -> (forall a, P a -> rpost Q (f a)) -> rpost Q (rbind x f).
  Proof. destruct x; cbn [rpost rbind]; intros H K; auto. Qed.

  Lemma rpost_weaken {A} (P Q : A -> Prop) x : rpost P x -> (forall a, P a -> Q a) -> rpost Q x.
  Proof. destruct x; cbn [rpost]; auto. Qed.

  (* mk_span with its four side conditions *)
  Lemma rpost_span {B} (Q : B -> Prop) site a b (f : span -> res B) :
    a <= b -> b <= len -> bnd a = true -> bnd b = true ->
    (spok (a, b) -> rpost Q (f (a, b))) -> rpost Q (rbind (mk_span src len site a b) f).
  Proof.
    intros H1 H2 H3 H4 K. destruct (mk_span_ok s site a b H1 H2 H3 H4) as [E S].
    rewrite E. cbn [rbind]. apply K. exact S.
  Qed.

  Ltac bsolve := first [assumption | apply bnd_len | apply bnd_0 | idtac].
  Ltac spn := apply rpost_span; [ try lia | try lia | bsolve | bsolve | ].

  Lemma err_cons k sp es : spok sp -> Forall err_ok es -> Forall err_ok ((k, sp) :: es).
  Proof. intros H1 H2. constructor; [exact H1 | exact H2]. Qed.

  (* ---------------------------------------------------------------- walk_down *)
  Lemma walk_down_spec k e b :
    bnd b = true -> b <= e -> (N.to_nat (e - b) <= k)%nat ->
    exists e', walk_down src len k e = ROk e' /\ bnd e' = true /\ e' <= e /\
               (forall q, bnd q = true -> q <= e -> q <= e').
  Proof.
    revert e. induction k as [|k IH]; intros e Hb Hle Hk; cbn [walk_down].
    - assert (e = b) by lia. subst e. rewrite Hb. exists b. repeat split; auto; lia.
    - destruct (bnd e) eqn:Be.
      + exists e. repeat split; auto; lia.
      + assert (b <> e) as Hne by (intros ->; congruence).
        destruct (N.eqb_spec e 0) as [E0|E0]; [lia|].
        destruct (IH (e - 1)) as (e' & Hw & Hbe & Hl & Hq); [exact Hb | lia | lia |].
        exists e'. split; [exact Hw|]. split; [exact Hbe|]. split; [lia|].
        intros q Bq Lq. assert (q <> e) by (intros ->; congruence). apply Hq; [exact Bq | lia].
  Qed.

  Lemma last_char_start_ok site q :
    bnd q = true -> q < len ->
    exists e, last_char_start src len site = ROk e /\ bnd e = true /\ q <= e /\ e <= len.
  Proof.
    intros Bq Lq. unfold last_char_start.
    destruct (N.eqb_spec len 0) as [E0|E0]; [lia|].
    destruct (cover s 0 (len - 1)) as (o & c & Hin & Ho); [lia|].
    pose proof (len_utf8_range c) as Hc.
    destruct (walk_down_spec 4 (len - 1) o) as (e & Hw & Be & Le & Hq).
    - apply (bnd_In s o c Hin).
    - lia.
    - lia.
    - exists e. split; [exact Hw|]. split; [exact Be|]. split; [apply Hq; [exact Bq | lia] | lia].
  Qed.

  (* ---------------------------------------------------------------- parse_escape_code *)
  Lemma u_digits_ok r start v :
    wf r ->
    match start with Some p => bnd p = true /\ p <= ppos r | None => True end ->
    match u_digits r start v with
    | UEof => True
    | UDone endp st v' r' =>
      wf r' /\ sfx r' r /\ (length r' < length r)%nat /\ bnd endp = true /\ endp < ppos r' /\ ppos r <= endp /\
      match st with Some p => bnd p = true /\ p <= endp | None => True end
    | UBad pos d => bnd pos = true /\ bnd (pos + len_utf8 d) = true /\ pos + len_utf8 d <= len
    end.
  Proof.
    revert start v. induction r as [|[pos d] r IH]; intros start v W St; cbn [u_digits]; [exact I|].
    pose proof W as W0. apply wfs_cons in W. destruct W as (W & Bp & Hn & Hc).
    pose proof (wfs_ppos_le s r W) as Hl. pose proof (wfs_ppos_bnd s r W) as Hb.
    destruct (d =? 125) eqn:Ed.
    - split; [exact W|]. split; [apply sfx_cons|]. split; [cbn [length]; lia|]. split; [exact Bp|].
      split; [lia|]. split; [cbn [peek_pos]; lia|].
      destruct start as [p|]; [|exact I]. cbn [peek_pos] in St. exact St.
    - destruct (to_digit 16 d) as [dv|] eqn:Td.
      + specialize (IH (match start with None => Some pos | Some _ => start end) (v * 16 + dv) W).
        match type of IH with ?A -> _ => assert A as HA end.
        { destruct start as [p|]; cbn [peek_pos] in St; [split; [tauto | lia] | split; [exact Bp | lia]]. }
        specialize (IH HA).
        destruct (u_digits r _ _) as [|endp st v' r'|]; [exact I| |exact IH].
        destruct IH as (W' & S' & L' & Be & Le & Lp & Hst).
        split; [exact W'|]. split; [eapply sfx_trans; [exact S' | apply sfx_cons]|].
        split; [cbn [length]; lia|]. split; [exact Be|]. split; [exact Le|]. split; [cbn [peek_pos]; lia|].
        exact Hst.
      + rewrite <- Hn. split; [exact Bp|]. split; [exact Hb | exact Hl].
  Qed.

  Lemma esc_err_ok kind es site a b :
    a <= b -> b <= len -> bnd a = true -> bnd b = true -> Forall err_ok es ->
    exists es', esc_err kind es (mk_span src len site a b) = EErr es' /\ Forall err_ok es'.
  Proof.
    intros H1 H2 H3 H4 He. destruct (mk_span_ok s site a b H1 H2 H3 H4) as [E S]. rewrite E.
    cbn [esc_err]. eexists. split; [reflexivity|]. apply err_cons; assumption.
  Qed.

  Definition esc_post (r : list ci) (x : escres) : Prop :=
    match x with
    | EChar _ r' => wf r' /\ sfx r' r /\ (length r' < length r)%nat
    | EEof => True
    | EErr es' => Forall err_ok es'
    | EPanic _ => False
    end.

  Lemma esc_post_err r kind es site a b :
    a <= b -> b <= len -> bnd a = true -> bnd b = true -> Forall err_ok es ->
    esc_post r (esc_err kind es (mk_span src len site a b)).
  Proof.
    intros H1 H2 H3 H4 He. destruct (esc_err_ok kind es site a b H1 H2 H3 H4 He) as (es' & E & F).
    rewrite E. exact F.
  Qed.

  Lemma parse_escape_ok r es : wf r -> Forall err_ok es -> esc_post r (parse_escape repaired src len r es).
  Proof.
    intros W He. destruct r as [|[index c] r1]; cbn [parse_escape]; [exact I|].
    pose proof W as W0. apply wfs_cons in W. destruct W as (W1 & Bi & Hn & Hc).
    pose proof (wfs_ppos_le s r1 W1) as Hl1. pose proof (wfs_ppos_bnd s r1 W1) as Hb1.
    assert (esc_post ((index, c) :: r1) (EChar 0 r1)) as Simple.
    { cbn [esc_post]. split; [exact W1|]. split; [apply sfx_cons | cbn [length]; lia]. }
    repeat (match goal with |- esc_post _ (if ?b then EChar _ r1 else _) => destruct b; [exact Simple|] end).
    destruct (c =? 120) eqn:Ex.
    { destruct r1 as [|[p1 h] [|[p2 l] r3]]; [exact I | exact I|].
      pose proof W1 as W1'. apply wfs_cons in W1'. destruct W1' as (W2 & B1 & Hn1 & Hc1).
      pose proof W2 as W2'. apply wfs_cons in W2'. destruct W2' as (W3 & B2 & Hn2 & Hc2).
      pose proof (wfs_ppos_le s r3 W3) as Hl3. pose proof (wfs_ppos_bnd s r3 W3) as Hb3.
      cbn [peek_pos] in *.
      assert (esc_post ((index, c) :: (p1, h) :: (p2, l) :: r3) (esc_err 13 es (span_until src len 20 r3 index))) as Bad.
      { unfold span_until. apply esc_post_err; auto; lia. }
      destruct (to_digit 16 h); [|exact Bad]. destruct (to_digit 16 l); [|exact Bad].
      cbn [esc_post]. split; [exact W3|]. split; [exists [(index, c); (p1, h); (p2, l)]; reflexivity | cbn [length]; lia]. }
    destruct (c =? 117) eqn:Eu.
    { apply N.eqb_eq in Eu. subst c. change (len_utf8 117) with 1 in *.
      destruct r1 as [|[p1 c2] r2]; [exact I|].
      pose proof W1 as W1'. apply wfs_cons in W1'. destruct W1' as (W2 & B1 & Hn1 & Hc1).
      pose proof (wfs_ppos_le s r2 W2) as Hl2.
      cbn [peek_pos] in *.
      destruct (c2 =? 123) eqn:Eb.
      - pose proof (u_digits_ok r2 None 0 W2 I) as HU.
        destruct (u_digits r2 None 0) as [|endp st v r3|pos d]; [exact I| |].
        + destruct HU as (W3 & S3 & L3 & Be & Le & Lp & Hst).
          pose proof (wfs_ppos_le s r3 W3) as Hl3. pose proof (wfs_ppos_bnd s r3 W3) as Hb3.
          set (ds := match st with Some p => p | None => endp end).
          assert (bnd ds = true /\ ds <= endp) as [Bds Lds].
          { unfold ds. destruct st as [p|]; [exact Hst | split; [exact Be | lia]]. }
          destruct (4294967296 <=? v).
          * apply esc_post_err; auto; lia.
          * destruct (valid_scalar v).
            -- cbn [esc_post]. split; [exact W3|]. split.
               ++ eapply sfx_trans; [exact S3|]. exists [(index, 117); (p1, c2)]. reflexivity.
               ++ cbn [length]. lia.
            -- unfold span_until.
               destruct (mk_span_ok s 24 index (ppos r3)) as [E _]; [lia | exact Hl3 | exact Bi | exact Hb3 |].
               rewrite E. apply esc_post_err; auto; lia.
        + destruct HU as (Bp & Bq & Lq). unfold span_one. apply esc_post_err; auto.
          pose proof (len_utf8_range d). lia.
      - cbn [fix_ubrace repaired]. unfold span_one. change (len_utf8 117) with 1.
        apply esc_post_err; auto; try lia. rewrite <- Hn. exact Hb1. }
    unfold span_one. apply esc_post_err; auto; try lia. rewrite <- Hn. exact Hb1.
  Qed.

  (* ---------------------------------------------------------------- token-producing sub-lexers *)
  Definition tpost (r : list ci) (x : tok * list ci * list lerr) : Prop :=
    let '(t, r', es') := x in
    tok_ok t /\ wf r' /\ sfx r' r /\ Forall err_ok es' /\ tok_end t <= ppos r' /\ bnd (tok_end t) = true.

  Lemma tok_ok_1 sp : spok sp -> Forall spok [sp].
  Proof. intros H. constructor; [exact H | constructor]. Qed.

  Lemma string_loop_ok fuel index r es :
    wf r -> bnd index = true -> index < ppos r -> Forall err_ok es -> (length r < fuel)%nat ->
    rpost (tpost r) (string_loop repaired src len fuel index r es).
  Proof.
    revert r es. induction fuel as [|f IH]; intros r es W Bi Li He Hf; [lia|]. cbn [string_loop].
    destruct r as [|[ni nc] r1].
    - cbn [peek_pos] in Li.
      destruct (last_char_start_ok 30 index Bi Li) as (e & El & Be & Le & Le2). rewrite El. cbn [rbind].
      spn. intros S. cbn [rpost]. apply err_cons; assumption.
    - pose proof W as W0. apply wfs_cons in W. destruct W as (W1 & Bn & Hn & Hc).
      pose proof (wfs_ppos_le s r1 W1) as Hl1. pose proof (wfs_ppos_bnd s r1 W1) as Hb1.
      cbn [peek_pos length] in *.
      assert (forall r2 es2, wf r2 -> sfx r2 r1 -> Forall err_ok es2 -> (length r2 <= length r1)%nat ->
                rpost (tpost ((ni, nc) :: r1)) (string_loop repaired src len f index r2 es2)) as Rec.
      { intros r2 es2 W2 S2 He2 L2. pose proof (sfx_ppos_le s r2 r1 W1 S2) as Hm.
        eapply rpost_weaken; [apply IH; auto; lia|].
        intros [[t r'] es']. cbn [tpost]. intros (T1 & T2 & T3 & T4 & T5 & T6).
        repeat split; auto. eapply sfx_trans; [exact T3|]. eapply sfx_trans; [exact S2 | apply sfx_cons]. }
      destruct (nc =? 92).
      + pose proof (parse_escape_ok r1 es W1 He) as HE.
        destruct (parse_escape repaired src len r1 es) as [c r2| |es'|site]; cbn [esc_post] in HE.
        * destruct HE as (W2 & S2 & L2). apply Rec; [exact W2 | exact S2 | exact He | lia].
        * spn. intros S. cbn [rpost]. apply err_cons; assumption.
        * exact HE.
        * exact HE.
      + destruct (nc =? 34).
        * unfold span_until. spn. intros S. cbn [rpost tpost tok_end snd].
          split; [apply tok_ok_1; exact S|]. split; [exact W1|]. split; [apply sfx_cons|]. split; [exact He|].
          split; [lia | exact Hb1].
        * destruct (is_bidi nc).
          -- unfold span_one. rewrite <- Hn. spn. intros S.
             apply Rec; [exact W1 | apply sfx_refl | apply err_cons; assumption | lia].
          -- apply Rec; [exact W1 | apply sfx_refl | exact He | lia].
  Qed.

  Lemma char_escape_ok index nc r es :
    wf r -> bnd index = true -> index <= len -> Forall err_ok es ->
    rpost (fun x => wf (snd x) /\ sfx (snd x) r) (char_escape repaired src len index nc r es).
  Proof.
    intros W Bi Li He. unfold char_escape. destruct (nc =? 92).
    - pose proof (parse_escape_ok r es W He) as HE.
      destruct (parse_escape repaired src len r es) as [c r2| |es'|site]; cbn [esc_post] in HE.
      + destruct HE as (W2 & S2 & L2). cbn [rpost snd]. auto.
      + spn. intros S. cbn [rpost]. apply err_cons; assumption.
      + exact HE.
      + exact HE.
    - cbn [rpost snd]. split; [exact W | apply sfx_refl].
  Qed.

  Lemma char_rest_ok r acc :
    wf r -> match char_rest r acc with None => True | Some (n, r') => wf r' /\ sfx r' r end.
  Proof.
    revert acc. induction r as [|[p c] r IH]; intros acc W; cbn [char_rest]; [exact I|].
    pose proof W as W0. apply wfs_cons in W. destruct W as (W1 & _).
    destruct (c =? 39).
    - split; [exact W1 | apply sfx_cons].
    - specialize (IH (acc + len_utf8 c) W1). destruct (char_rest r _) as [[n r']|]; [|exact I].
      destruct IH as [A B]. split; [exact A | eapply sfx_trans; [exact B | apply sfx_cons]].
  Qed.

  Lemma lex_char_ok index r es :
    wf r -> bnd index = true -> index < ppos r -> Forall err_ok es ->
    rpost (tpost r) (lex_char repaired src len index r es).
  Proof.
    intros W Bi Li He. pose proof (wfs_ppos_le s r W) as Hl.
    assert (forall es', Forall err_ok es' ->
              rpost (tpost r) (rbind (mk_span src len 40 index len) (fun sp => RAbort ((6, sp) :: es')))) as Unclosed.
    { intros es' He'. spn. intros S. cbn [rpost]. apply err_cons; assumption. }
    unfold lex_char. destruct r as [|[ni nc] r1]; [apply Unclosed; exact He|].
    pose proof W as W0. apply wfs_cons in W. destruct W as (W1 & Bn & Hn & Hc).
    pose proof (wfs_ppos_le s r1 W1) as Hl1. pose proof (wfs_ppos_bnd s r1 W1) as Hb1.
    cbn [peek_pos] in *.
    eapply rpost_bind with (P := fun es1 => Forall err_ok es1).
    { destruct (is_bidi nc); [|exact He]. unfold span_one. rewrite <- Hn. spn.
      intros S. cbn [rpost]. apply err_cons; assumption. }
    intros es1 He1.
    eapply rpost_bind; [apply char_escape_ok; auto; lia|].
    intros [parsed r2]. cbn [snd]. intros [W2 S2].
    pose proof (sfx_ppos_le s r2 r1 W1 S2) as Hm2.
    destruct r2 as [|[ni2 nc2] r3]; [apply Unclosed; exact He1|].
    pose proof W2 as W2'. apply wfs_cons in W2'. destruct W2' as (W3 & Bn2 & Hn2 & Hc2).
    pose proof (wfs_ppos_le s r3 W3) as Hl3. pose proof (wfs_ppos_bnd s r3 W3) as Hb3.
    cbn [peek_pos] in *.
    assert (sfx r3 ((ni, nc) :: r1)) as S3.
    { eapply sfx_trans; [apply sfx_cons|]. eapply sfx_trans; [exact S2 | apply sfx_cons]. }
    unfold span_until at 1. spn. intros Ssp.
    destruct (nc2 =? 39).
    - cbn [rpost tpost tok_end snd]. split; [apply tok_ok_1; exact Ssp|]. repeat split; auto. lia.
    - eapply rpost_bind; [apply char_escape_ok; auto; lia|].
      intros [p2 r4]. cbn [snd]. intros [W4 S4].
      pose proof (char_rest_ok r4 (len_utf8 parsed + len_utf8 p2) W4) as HR.
      destruct (char_rest r4 _) as [[slen r5]|]; [|apply Unclosed; exact He1].
      destruct HR as [W5 S5].
      pose proof (sfx_ppos_le s r4 r3 W3 S4) as Hm4. pose proof (sfx_ppos_le s r5 r4 W4 S5) as Hm5.
      pose proof (wfs_ppos_le s r5 W5) as Hl5. pose proof (wfs_ppos_bnd s r5 W5) as Hb5.
      cbn [fix_quote repaired]. unfold span_until. spn. intros Se.
      cbn [rpost tpost tok_end snd]. split; [apply tok_ok_1; exact Ssp|]. split; [exact W5|].
      split; [eapply sfx_trans; [exact S5|]; eapply sfx_trans; [exact S4 | exact S3]|].
      split; [apply err_cons; assumption|]. split; [lia | exact Hb3].
  Qed.

  (* ---------------------------------------------------------------- lex_int_lit *)
  Definition end_of (eo : option N) : N := match eo with Some e => e | None => len end.

  Lemma parse_digits_ok radix r :
    wf r -> let '(eo, r') := parse_digits radix r in wf r' /\ sfx r' r /\ end_of eo = ppos r'.
  Proof.
    induction r as [|[i c] r IH]; intros W; cbn [parse_digits].
    - split; [exact W|]. split; [apply sfx_refl | reflexivity].
    - pose proof W as W0. apply wfs_cons in W. destruct W as (W1 & _).
      specialize (IH W1). destruct (parse_digits radix r) as [eo r'] eqn:E.
      destruct IH as (A & B & C).
      assert (wf r' /\ sfx r' ((i, c) :: r) /\ end_of eo = ppos r') as Rec.
      { split; [exact A|]. split; [eapply sfx_trans; [exact B | apply sfx_cons] | exact C]. }
      destruct (c =? 95); [exact Rec|].
      destruct (to_digit radix c); [exact Rec|].
      split; [exact W0|]. split; [apply sfx_refl | reflexivity].
  Qed.

  Lemma take_xidc_ok r : wf r -> let '(a, r') := take_xidc ucls r in wf r' /\ sfx r' r.
  Proof.
    induction r as [|[i c] r IH]; intros W; cbn [take_xidc].
    - split; [exact W | apply sfx_refl].
    - pose proof W as W0. apply wfs_cons in W. destruct W as (W1 & _).
      destruct (is_xid_continue ucls c).
      + specialize (IH W1). destruct (take_xidc ucls r) as [a r']. destruct IH as [A B].
        split; [exact A | eapply sfx_trans; [exact B | apply sfx_cons]].
      + split; [exact W0 | apply sfx_refl].
  Qed.

  Lemma lex_int_ty_opt_ok r es :
    wf r -> Forall err_ok es ->
    rpost (fun x => let '(ty, r', es') := x in
                    wf r' /\ sfx r' r /\ Forall err_ok es' /\
                    match ty with Some (_, sp) => spok sp | None => True end)
          (lex_int_ty_opt ucls src len r es).
  Proof.
    intros W He. unfold lex_int_ty_opt. destruct r as [|[ssp c] r1].
    - cbn [rpost]. split; [exact W|]. split; [apply sfx_refl | auto].
    - pose proof W as W0. apply wfs_cons in W. destruct W as (W1 & Bs & Hn & Hc).
      destruct (is_xid_continue ucls c).
      + pose proof (take_xidc_ok r1 W1) as HT. destruct (take_xidc ucls r1) as [suffix r2]. destruct HT as [W2 S2].
        pose proof (sfx_ppos_le s r2 r1 W1 S2) as Hm. pose proof (wfs_ppos_le s r2 W2) as Hl2.
        pose proof (wfs_ppos_bnd s r2 W2) as Hb2.
        assert (sfx r2 ((ssp, c) :: r1)) as S2' by (eapply sfx_trans; [exact S2 | apply sfx_cons]).
        destruct (int_suffix (c :: suffix)).
        * unfold span_until. spn. intros S. cbn [rpost]. auto.
        * spn. intros S. cbn [rpost]. split; [exact W2|]. split; [exact S2'|].
          split; [apply err_cons; assumption | exact I].
      + cbn [rpost]. split; [exact W0|]. split; [apply sfx_refl | auto].
  Qed.

  Lemma prefixed_int_ok index radix kind r es :
    wf r -> bnd index = true -> index < ppos r -> Forall err_ok es ->
    rpost (fun x => wf (snd x) /\ sfx (snd x) r /\ end_of (fst x) = ppos (snd x))
          (prefixed_int src len index radix kind r es).
  Proof.
    intros W Bi Li He. unfold prefixed_int. destruct r as [|[p0 c0] r1].
    - cbn [rpost fst snd end_of peek_pos]. split; [exact W|]. split; [apply sfx_refl | reflexivity].
    - pose proof W as W0. apply wfs_cons in W. destruct W as (W1 & B0 & Hn & Hc).
      pose proof (wfs_ppos_le s r1 W1) as Hl1. pose proof (wfs_ppos_bnd s r1 W1) as Hb1. cbn [peek_pos] in *.
      destruct r1 as [|[dp dc] r2].
      + spn. intros S. cbn [rpost]. apply err_cons; assumption.
      + cbn [peek_pos] in *. destruct (to_digit radix dc).
        * pose proof W1 as W1'. apply wfs_cons in W1'. destruct W1' as (W2 & _).
          pose proof (parse_digits_ok radix r2 W2) as HP. destruct (parse_digits radix r2) as [eo r3].
          destruct HP as (A & B & C). cbn [rpost fst snd]. split; [exact A|]. split; [|exact C].
          eapply sfx_trans; [exact B|]. exists [(p0, c0); (dp, dc)]. reflexivity.
        * spn. intros S. cbn [rpost]. apply err_cons; assumption.
  Qed.

  Lemma lex_int_lit_ok index c r es :
    wf r -> bnd index = true -> index < ppos r -> Forall err_ok es ->
    rpost (tpost r) (lex_int_lit ucls src len index c r es).
  Proof.
    intros W Bi Li He. unfold lex_int_lit.
    eapply rpost_bind with (P := fun x => wf (snd x) /\ sfx (snd x) r /\ end_of (fst x) = ppos (snd x)).
    { assert (rpost (fun x => wf (snd x) /\ sfx (snd x) r /\ end_of (fst x) = ppos (snd x)) (ROk (parse_digits 10 r))) as Dec.
      { pose proof (parse_digits_ok 10 r W) as HP. destruct (parse_digits 10 r) as [eo r']. exact HP. }
      destruct (c =? 48); [|exact Dec].
      destruct r as [|[ni c2] r0].
      - cbn [rpost fst snd end_of peek_pos]. split; [exact W|]. split; [apply sfx_refl | reflexivity].
      - destruct (c2 =? 120); [apply prefixed_int_ok; assumption|].
        destruct (c2 =? 111); [apply prefixed_int_ok; assumption|].
        destruct (c2 =? 98); [apply prefixed_int_ok; assumption|].
        destruct ((c2 =? 95) || is_digit c2); [exact Dec|].
        cbn [rpost fst snd end_of peek_pos]. split; [exact W|]. split; [apply sfx_refl | reflexivity]. }
    intros [eo r1]. cbn [fst snd]. intros (W1 & S1 & E1).
    eapply rpost_bind; [apply lex_int_ty_opt_ok; [exact W1 | exact He]|].
    intros [[ty r2] es2] (W2 & S2 & He2 & Hty).
    pose proof (sfx_ppos_le s r1 r W S1) as Hm1. pose proof (sfx_ppos_le s r2 r1 W1 S2) as Hm2.
    pose proof (wfs_ppos_le s r1 W1) as Hl1. pose proof (wfs_ppos_bnd s r1 W1) as Hb1.
    fold (end_of eo). rewrite E1. spn. intros S.
    cbn [rpost tpost tok_end snd]. split.
    { unfold tok_ok. destruct ty as [[k sp2]|]; cbn [tok_spans]; [constructor; [exact S | apply tok_ok_1; exact Hty] | apply tok_ok_1; exact S]. }
    split; [exact W2|]. split; [eapply sfx_trans; [exact S2 | exact S1]|]. split; [exact He2|]. split; [lia | exact Hb1].
  Qed.

  (* ---------------------------------------------------------------- lex_punctuation *)
  Lemma lex_punct_ok index c r :
    wf r -> bnd index = true -> index < ppos r ->
    rpost (fun t => tok_ok t /\ tok_end t <= ppos r /\ bnd (tok_end t) = true) (lex_punct src len index c r).
  Proof.
    intros W Bi Li. unfold lex_punct, span_until.
    pose proof (wfs_ppos_le s r W) as Hl. pose proof (wfs_ppos_bnd s r W) as Hb.
    spn. intros S. cbn [rpost tok_end snd].
    split; [apply tok_ok_1; exact S|]. split; [lia | exact Hb].
  Qed.

  (* ---------------------------------------------------------------- comments *)
  Lemma find_nl_ok r :
    wf r -> let '(e, r') := find_nl len r in
            wf r' /\ sfx r' r /\ bnd e = true /\ e <= len /\ ppos r <= e /\ e <= ppos r'.
  Proof.
    induction r as [|[p c] r IH]; intros W; cbn [find_nl].
    - split; [exact W|]. split; [apply sfx_refl|]. split; [apply bnd_len|]. cbn [peek_pos]. lia.
    - pose proof W as W0. apply wfs_cons in W. destruct W as (W1 & Bp & Hn & Hc).
      pose proof (wfs_ppos_le s r W1) as Hl1. cbn [peek_pos].
      destruct (c =? 10).
      + split; [exact W1|]. split; [apply sfx_cons|]. split; [exact Bp|]. lia.
      + specialize (IH W1). destruct (find_nl len r) as [e r']. destruct IH as (A & B & C & D & E & F).
        split; [exact A|]. split; [eapply sfx_trans; [exact B | apply sfx_cons]|]. split; [exact C|]. lia.
  Qed.

  Definition isb (k : N) (o : option N) : bool := match o with Some x => x =? k | None => false end.

  Definition cpost (r : list ci) (x : tok * list ci) : Prop :=
    let '(t, r') := x in tok_ok t /\ wf r' /\ sfx r' r /\ tok_end t <= ppos r' /\ bnd (tok_end t) = true.

  (* r = the stream after the first '/', whose head is the second '/' *)
  Lemma lex_line_comment_ok index kind i2 r1 :
    wf ((index, 47) :: (i2, 47) :: r1) ->
    rpost (cpost ((i2, 47) :: r1)) (lex_line_comment src len index kind ((i2, 47) :: r1)).
  Proof.
    intros W. unfold lex_line_comment. cbn [tl].
    pose proof W as W0. apply wfs_cons in W0. destruct W0 as (Wa & Bi & Hn & _).
    pose proof Wa as Wa0. apply wfs_cons in Wa0. destruct Wa0 as (W1 & B2 & Hn2 & _).
    change (len_utf8 47) with 1 in *. cbn [peek_pos] in *.
    pose proof (find_nl_ok r1 W1) as HF. destruct (find_nl len r1) as [e r2] eqn:EF.
    destruct HF as (W2 & S2 & Be & Le & Lpe & Lep).
    assert (sfx r2 ((i2, 47) :: r1)) as S2' by (eapply sfx_trans; [exact S2 | apply sfx_cons]).
    pose proof (wfs_ppos_bnd s r2 W2) as Hb2.
    spn. intros S.
    assert (rpost (cpost ((i2, 47) :: r1)) (ROk (TComment kind (index, e), r2))) as Plain.
    { cbn [rpost cpost tok_end]. split; [apply tok_ok_1; exact S|]. split; [exact W2|]. split; [exact S2'|].
      split; [lia | apply bnd_0]. }
    destruct r1 as [|[p c] r1']; [cbv beta iota zeta; exact Plain|].
    destruct (p <? e) eqn:Lp; [|cbv beta iota zeta; exact Plain]. apply N.ltb_lt in Lp.
    assert ((c = 33 \/ c = 47) -> forall style,
            rpost (cpost ((i2, 47) :: (p, c) :: r1'))
              (rbind (mk_span src len 71 (index + 3) e) (fun csp => ROk (TDoc style (index, e) csp, r2)))) as Doc.
    { intros Hc style.
      assert (len_utf8 c = 1 /\ c <> 10) as [L1 Nn].
      { destruct Hc as [Hc|Hc]; subst c; split; [reflexivity | discriminate | reflexivity | discriminate]. }
      pose proof W1 as W1'. apply wfs_cons in W1'. destruct W1' as (W1t & Bp & Hnp & _).
      cbn [peek_pos] in *. cbn [find_nl] in EF. destruct (N.eqb_spec c 10) as [|_]; [contradiction|].
      pose proof (find_nl_ok r1' W1t) as HF'. rewrite EF in HF'. destruct HF' as (_ & _ & _ & _ & Lpe' & _).
      pose proof (wfs_ppos_bnd s r1' W1t) as Hb1t.
      spn.
      { replace (index + 3) with (ppos r1') by lia. exact Hb1t. }
      intros Sc. cbn [rpost cpost tok_end snd]. split; [constructor; [exact S | apply tok_ok_1; exact Sc]|].
      split; [exact W2|]. split; [exact S2'|]. split; [lia | exact Be]. }
    cbv beta iota zeta.
    destruct (N.eqb_spec c 33) as [E33|E33]; [apply Doc; left; exact E33|].
    destruct (N.eqb_spec c 47) as [E47|E47]; [|exact Plain].
    match goal with |- context [if ?b then None else Some 0] => destruct b end; [exact Plain | apply Doc; right; exact E47].
  Qed.

  Definition bpost (r : list ci) (x : option tok * list ci * list lerr) : Prop :=
    let '(ot, r', es') := x in
    wf r' /\ sfx r' r /\ Forall err_ok es' /\
    match ot with Some t => tok_ok t /\ tok_end t = 0 | None => True end.

  Lemma unclosed_comment_ok r unclosed es :
    wf r -> unclosed <> [] -> Forall (fun u => bnd u = true /\ u + 2 <= ppos r) unclosed -> Forall err_ok es ->
    rpost (bpost r) (unclosed_comment repaired src len unclosed es).
  Proof.
    intros W Hne Hu He. unfold unclosed_comment. destruct unclosed as [|start rest]; [congruence|].
    pose proof (Forall_inv Hu) as [Bs Ls]. cbn [fix_comment repaired].
    pose proof (wfs_ppos_le s r W) as Hl.
    destruct (last_char_start_ok 81 start Bs) as (e & El & Be & Le & Le2); [lia|]. rewrite El. cbn [rbind].
    spn. intros S. cbn [rpost bpost]. split; [apply sfx_nil|]. split; [apply sfx_nil|].
    split; [apply err_cons; assumption | exact I].
  Qed.

  Lemma block_loop_ok n : forall r unclosed multi es,
    (length r <= n)%nat ->
    wf r -> unclosed <> [] -> Forall (fun u => bnd u = true /\ u + 2 <= ppos r) unclosed -> Forall err_ok es ->
    rpost (bpost r) (block_loop repaired src len r unclosed multi es).
  Proof.
    induction n as [|n IH]; intros r unclosed multi es Hn W Hne Hu He.
    - destruct r; [|cbn [length] in Hn; lia]. cbn [block_loop]. apply unclosed_comment_ok; assumption.
    - destruct r as [|[i c] r1]; cbn [block_loop]; [apply unclosed_comment_ok; assumption|].
      pose proof W as W0. apply wfs_cons in W0. destruct W0 as (W1 & Bi & Hn1 & Hc1).
      cbn [length peek_pos] in *.
      assert (forall r' unclosed' multi',
                wf r' -> sfx r' r1 -> unclosed' <> [] -> (length r' <= n)%nat ->
                Forall (fun u => bnd u = true /\ u + 2 <= ppos r') unclosed' ->
                rpost (bpost ((i, c) :: r1)) (block_loop repaired src len r' unclosed' multi' es)) as Rec.
      { intros r' u' m' W' S' Hne' Hn' Hu'. eapply rpost_weaken; [apply IH; assumption|].
        intros [[ot r''] es'']. cbn [bpost]. intros (A & B & C & D). split; [exact A|]. split; [|split; assumption].
        eapply sfx_trans; [exact B|]. eapply sfx_trans; [exact S' | apply sfx_cons]. }
      assert (forall r', wf r' -> sfx r' r1 -> Forall (fun u => bnd u = true /\ u + 2 <= ppos r') unclosed) as Mono.
      { intros r' W' S'. pose proof (sfx_ppos_le s r' r1 W1 S') as Hm.
        eapply Forall_impl; [|exact Hu]. cbn beta. intros u [A B]. split; [exact A | lia]. }
      assert (forall u, rpost (bpost ((i, c) :: r1)) (unclosed_comment repaired src len u es) \/ True) as _ by (intros; right; exact I).
      destruct (c =? 42) eqn:E42.
      + destruct r1 as [|[six c2] r2]; [apply unclosed_comment_ok; assumption|].
        pose proof W1 as W1'. apply wfs_cons in W1'. destruct W1' as (W2 & Bs & Hn2 & Hc2).
        pose proof (wfs_ppos_le s r2 W2) as Hl2. pose proof (wfs_ppos_bnd s r2 W2) as Hb2.
        cbn [length peek_pos] in *.
        destruct (c2 =? 47) eqn:E47.
        * apply N.eqb_eq in E47. subst c2. change (len_utf8 47) with 1 in *.
          destruct unclosed as [|start rest]; [congruence|].
          destruct rest as [|u2 rest].
          -- pose proof (Forall_inv Hu) as [Bst Lst]. cbn [peek_pos] in Lst.
             spn. { rewrite <- Hn2. exact Hb2. }
             intros S. cbn [rpost bpost tok_end]. split; [exact W2|].
             split; [exists [(i, c); (six, 47)]; reflexivity|]. split; [exact He|].
             split; [apply tok_ok_1; exact S | reflexivity].
          -- apply Rec; [exact W2 | apply sfx_cons | discriminate | lia|].
             specialize (Mono r2 W2 (sfx_cons _ _)). exact (Forall_inv_tail Mono).
        * apply Rec; [exact W2 | apply sfx_cons | exact Hne | lia | apply Mono; [exact W2 | apply sfx_cons]].
      + destruct (c =? 47) eqn:E47.
        * apply N.eqb_eq in E47. subst c. change (len_utf8 47) with 1 in *.
          destruct r1 as [|[p2 c2] r2]; [apply unclosed_comment_ok; assumption|].
          pose proof W1 as W1'. apply wfs_cons in W1'. destruct W1' as (W2 & Bs & Hn2 & Hc2).
          cbn [length peek_pos] in *.
          destruct (c2 =? 42) eqn:E2.
          -- apply N.eqb_eq in E2. subst c2. change (len_utf8 42) with 1 in *.
             apply Rec; [exact W2 | apply sfx_cons | discriminate | lia|].
             constructor; [split; [exact Bi | lia] | apply Mono; [exact W2 | apply sfx_cons]].
          -- apply Rec; [exact W2 | apply sfx_cons | exact Hne | lia | apply Mono; [exact W2 | apply sfx_cons]].
        * destruct (c =? 10); (apply Rec; [exact W1 | apply sfx_refl | exact Hne | lia | apply Mono; [exact W1 | apply sfx_refl]]).
  Qed.
End Lex.
