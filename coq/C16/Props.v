(* C16 — property theorems only.  `lex` is the model of the REPAIRED sway-parse/src/token.rs
   (`lex_commented(handler, text, 0, text.len())`); `ucls` is the Unicode class table (whitespace /
   XID_Start / XID_Continue of non-ASCII scalars): the theorems hold for every table. *)
From SwayV Require Import Base.Util C16.Model C16.Spec C16.Join C16.Judge C16.ProofsBase C16.ProofsLex C16.ProofsMain C16.Orig.
Open Scope N_scope.

(* For every input text the lexer never panics: no span()/slice/subtraction goes wrong. *)
Theorem C16_lex_no_panic : forall (ucls : N -> N) (s : list N) (site : N), lex ucls s <> RPanic site.
Proof. exact lex_no_panic. Qed.
Print Assumptions C16_lex_no_panic.

(* Termination: the fuel |s| + 1 always suffices (each iteration consumes at least one scalar). *)
Theorem C16_lex_fuel_enough : forall (ucls : N -> N) (s : list N), lex ucls s <> RFuel.
Proof. exact lex_fuel_enough. Qed.
Print Assumptions C16_lex_fuel_enough.

(* Every span of every token, of the whole stream and of every diagnostic (also when lexing is
   aborted with diagnostics only) satisfies start <= end <= |s| with both ends on char boundaries. *)
Theorem C16_lex_spans_in_bounds : forall (ucls : N -> N) (s : list N) (sp : span),
  In sp (res_spans (lex ucls s)) -> span_ok s sp.
Proof. exact lex_spans_in_bounds. Qed.
Print Assumptions C16_lex_spans_in_bounds.

(* The ORIGINAL span computations are refuted: the model with the original code panics on "/*é". *)
Theorem C16_lex_no_panic_refuted : exists s site, lex_orig no_ucls s = RPanic site.
Proof. exact lex_no_panic_refuted. Qed.
Print Assumptions C16_lex_no_panic_refuted.

(* The boolean oracle applied to the spans the REAL lexer and parser report decides span_ok. *)
Theorem C16_span_oracle_sound : forall (s : list N) (sp : span),
  span_okb (indices 0 s) (blen s) sp = true <-> span_ok s sp.
Proof. exact span_okb_iff. Qed.
Print Assumptions C16_span_oracle_sound.

(* ... and the set-based version the judge evaluates on large inputs is the same function. *)
Theorem C16_fast_oracle_eq : forall (src : list ci) (len : N) (sp : span),
  span_okb_fast (bset src) len sp = span_okb src len sp.
Proof. exact span_okb_fast_eq. Qed.
Print Assumptions C16_fast_oracle_eq.

(* A lexer judgement 0/1/9 certifies: no panic and every reported lexer span in bounds;
   a parser judgement 0: no panic and every diagnostic span in bounds. *)
Theorem C16_judge_lex_accepts : forall cf nb s tab wm il ip,
  (let c := fst (judge cf nb s tab wm il ip) in c = 0 \/ c = 1 \/ c = 9) ->
  il <> ILexPanic /\ Forall (span_ok s) (impl_lex_spans il).
Proof. exact judge_lex_accepts. Qed.
Print Assumptions C16_judge_lex_accepts.

Theorem C16_judge_parse_accepts : forall cf nb s tab wm il ip,
  snd (judge cf nb s tab wm il ip) = 0 ->
  exists ok spans, ip = IParse ok spans 0 /\ Forall (span_ok s) spans /\
    Forall (derived (gens_cheap il ++ gens_eos (ucls_of tab) (indices 0 s) il)) spans.
Proof. exact judge_parse_accepts. Qed.
Print Assumptions C16_judge_parse_accepts.

(* The parser is not modelled, but the way it builds diagnostic spans is: Span::join (min start,
   max end), start_span, end_span over spans it received.  In-bounds spans are closed under these
   operations, so a parser whose diagnostics are derived from the lexer's spans (proved in bounds
   above) can only report in-bounds spans; the judge checks `derived` on every real diagnostic. *)
Theorem C16_join_closed : forall s a b, span_ok s a -> span_ok s b -> span_ok s (join a b).
Proof. exact span_ok_join. Qed.
Print Assumptions C16_join_closed.

Theorem C16_derived_in_bounds : forall s g sp, Forall (span_ok s) g -> derived g sp -> span_ok s sp.
Proof. exact derived_ok. Qed.
Print Assumptions C16_derived_in_bounds.

Theorem C16_derived_decision_sound : forall g sp, derivedb g sp = true -> derived g sp.
Proof. exact derivedb_sound. Qed.
Print Assumptions C16_derived_decision_sound.

(* Non-vacuity: `fn f(){ "é" /*c*/ 0x1Fu8 }` lexes to a non-trivial stream ... *)
Example C16_example_stream :
  lex no_ucls [102;110;32;102;40;41;123;32;34;233;34;32;47;42;99;42;47;32;48;120;49;70;117;56;32;125] =
  ROk ([TIdent false (0,2); TIdent false (3,4); TOpen 0; TGroup 0 (4,6) (5,5); TOpen 1; TStr (8,12);
        TComment 2 (13,18); TInt (19,23) (Some (0, (23,25))); TGroup 1 (6,27) (7,26)], (0,27), []).
Proof. vm_compute. reflexivity. Qed.
(* ... and `(]` + unclosed comment ending in a 4-byte char gives diagnostics with in-bounds spans. *)
Example C16_example_errors :
  lex no_ucls [40;93;32;47;42;128512] = ROk ([TOpen 0; TGroup 0 (0,2) (1,1)], (0,9), [(3,(1,2)); (1,(3,5))]).
Proof. vm_compute. reflexivity. Qed.
Example C16_example_span_ok : span_ok [40;93;32;47;42;128512] (3,5) /\ ~ span_ok [40;93;32;47;42;128512] (3,8).
Proof.
  split.
  - apply C16_span_oracle_sound. vm_compute. reflexivity.
  - intros H. apply C16_span_oracle_sound in H. vm_compute in H. discriminate.
Qed.
