(* C16 — executable model of the Sway lexer, sway-parse/src/token.rs (`lex_commented`), function by
   function.  The input is a list of Unicode scalar values; `indices` pairs each scalar with its
   byte offset exactly like `char_indices`.  Token *values* (parsed strings, big integers) are not
   modelled; every span and every error kind is.  Every `span(..)` (= `Span::new(..).unwrap()`,
   i.e. `str::get(a..b)`), every slice and every `usize` subtraction is an explicit check that
   yields `RPanic site` when Rust would panic.
   NO proofs in this file. *)
From SwayV Require Import Base.Util.
Open Scope N_scope.
Arguments N.add : simpl never.
Arguments N.sub : simpl never.
Arguments N.mul : simpl never.
Arguments N.eqb : simpl never.
Arguments N.ltb : simpl never.
Arguments N.leb : simpl never.

Definition ci := (N * N)%type.      (* (byte offset, scalar) as yielded by char_indices *)
Definition span := (N * N)%type.    (* (start, end) byte offsets *)
Definition lerr := (N * span)%type. (* (LexErrorKind code, span); codes: see harness/src/bin/c16.rs *)

Definition len_utf8 (c : N) : N :=
  if c <? 128 then 1 else if c <? 2048 then 2 else if c <? 65536 then 3 else 4.

Fixpoint indices (off : N) (s : list N) : list ci :=
  match s with [] => [] | c :: t => (off, c) :: indices (off + len_utf8 c) t end.

Fixpoint total_len (off : N) (s : list N) : N :=
  match s with [] => off | c :: t => total_len (off + len_utf8 c) t end.

(* Which of the three span computations follow the repaired code (true) or the original (false). *)
Record cfg := { fix_comment : bool; fix_quote : bool; fix_ubrace : bool }.
Definition repaired := {| fix_comment := true; fix_quote := true; fix_ubrace := true |}.
Definition original := {| fix_comment := false; fix_quote := false; fix_ubrace := false |}.

Inductive tok :=
| TIdent (raw : bool) (sp : span)
| TOpen (d : N)                         (* marker: a group opens here (0 paren, 1 brace, 2 bracket) *)
| TGroup (d : N) (sp inner : span)      (* the group closes: its span and the span of its contents *)
| TPunct (c : N) (joint : bool) (sp : span)
| TStr (sp : span)
| TChar (sp : span)
| TBool (sp : span)                     (* never produced by the lexer *)
| TInt (sp : span) (ty : option (N * span))
| TComment (kind : N) (sp : span)       (* 0 newlined, 1 trailing, 2 inlined, 3 multilined *)
| TDoc (style : N) (sp content : span). (* 0 outer, 1 inner *)

Inductive res (A : Type) : Type :=
| ROk (a : A)
| RAbort (es : list lerr)   (* `?` on Err(ErrorEmitted): lexing stops, diagnostics so far *)
| RPanic (site : N)
| RFuel.
Arguments ROk {A} a.
Arguments RAbort {A} es.
Arguments RPanic {A} site.
Arguments RFuel {A}.

Definition rbind {A B} (x : res A) (f : A -> res B) : res B :=
  match x with ROk a => f a | RAbort es => RAbort es | RPanic s => RPanic s | RFuel => RFuel end.
Notation "'do' x <- e ;; k" := (rbind e (fun x => k))
  (at level 200, x name, e at level 100, k at level 200).
Notation "'do' ' p <- e ;; k" := (rbind e (fun x => match x with p => k end))
  (at level 200, p pattern, e at level 100, k at level 200).

(* ---- ASCII character classes (checked against the real functions by the harness at start-up) *)
Definition ascii_ws (c : N) : bool := ((9 <=? c) && (c <=? 13)) || (c =? 32).
Definition is_alpha (c : N) : bool := ((65 <=? c) && (c <=? 90)) || ((97 <=? c) && (c <=? 122)).
Definition is_digit (c : N) : bool := (48 <=? c) && (c <=? 57).

(* char::to_digit(radix) for radix 2, 8, 10, 16 *)
Definition to_digit (radix c : N) : option N :=
  let v := if is_digit c then Some (c - 48)
           else if (97 <=? c) && (c <=? 102) then Some (c - 87)
           else if (65 <=? c) && (c <=? 70) then Some (c - 55)
           else None in
  match v with Some d => if d <? radix then Some d else None | None => None end.

(* unicode_bidi::format_chars: ALM FSI LRE LRI LRM LRO PDF PDI RLE RLI RLM RLO *)
Definition is_bidi (c : N) : bool :=
  (c =? 1564) || ((8206 <=? c) && (c <=? 8207)) || ((8234 <=? c) && (c <=? 8238))
  || ((8294 <=? c) && (c <=? 8297)).

Definition open_delim (c : N) : option N :=
  if c =? 40 then Some 0 else if c =? 123 then Some 1 else if c =? 91 then Some 2 else None.
Definition close_delim (c : N) : option N :=
  if c =? 41 then Some 0 else if c =? 125 then Some 1 else if c =? 93 then Some 2 else None.

(*  ; : / , * + - < > = . ! % & ^ | _ #  *)
Definition is_punct (c : N) : bool :=
  existsb (N.eqb c) [59; 58; 47; 44; 42; 43; 45; 60; 62; 61; 46; 33; 37; 38; 94; 124; 95; 35].

Fixpoint list_eqb (a b : list N) : bool :=
  match a, b with
  | [], [] => true
  | x :: a', y :: b' => (x =? y) && list_eqb a' b'
  | _, _ => false
  end.

(* parse_int_suffix: u8 u16 u32 u64 u256 i8 i16 i32 i64 *)
Definition int_suffix (s : list N) : option N :=
  if list_eqb s [117; 56] then Some 0
  else if list_eqb s [117; 49; 54] then Some 1
  else if list_eqb s [117; 51; 50] then Some 2
  else if list_eqb s [117; 54; 52] then Some 3
  else if list_eqb s [117; 50; 53; 54] then Some 4
  else if list_eqb s [105; 56] then Some 5
  else if list_eqb s [105; 49; 54] then Some 6
  else if list_eqb s [105; 51; 50] then Some 7
  else if list_eqb s [105; 54; 52] then Some 8
  else None.

Section Lexer.
  (* Class bits of a non-ASCII scalar: bit 0 char::is_whitespace, bit 1 XID_Start, bit 2
     XID_Continue (unicode-xid tables).  The theorems hold for every such function. *)
  Variable ucls : N -> N.
  Variable cf : cfg.
  Variable src : list ci.   (* char_indices of the whole text *)
  Variable len : N.         (* src.text.len() *)

  Definition is_ws (c : N) : bool := if c <? 128 then ascii_ws c else N.testbit (ucls c) 0.
  Definition is_xid_start (c : N) : bool := if c <? 128 then is_alpha c else N.testbit (ucls c) 1.
  Definition is_xid_continue (c : N) : bool :=
    if c <? 128 then is_alpha c || is_digit c || (c =? 95) else N.testbit (ucls c) 2.

  (* str::is_char_boundary *)
  Definition is_bnd (p : N) : bool := (p =? len) || existsb (fun x => fst x =? p) src.

  (* span() = Span::new(src, a, b).unwrap(); Span::new is `src.text.get(a..b)?` *)
  Definition mk_span (site a b : N) : res span :=
    if (a <=? b) && (b <=? len) && is_bnd a && is_bnd b then ROk (a, b) else RPanic site.

  (* position of the next char of the stream, or the text length (span_until's end) *)
  Definition peek_pos (r : list ci) : N := match r with [] => len | (p, _) :: _ => p end.
  Definition span_until (site : N) (r : list ci) (start : N) : res span := mk_span site start (peek_pos r).
  Definition span_one (site start c : N) : res span := mk_span site start (start + len_utf8 c).

  (* `let mut end = len - 1; while !is_char_boundary(end) { end -= 1 }` (k = remaining steps) *)
  Fixpoint walk_down (k : nat) (e : N) : res N :=
    if is_bnd e then ROk e
    else match k with
         | O => RFuel
         | S k' => if e =? 0 then RPanic 90 else walk_down k' (e - 1)
         end.
  Definition last_char_start (site : N) : res N :=
    if len =? 0 then RPanic site else walk_down 4 (len - 1).

  (* ---------------------------------------------------------------- parse_escape_code *)
  Inductive escres :=
  | EChar (c : N) (r : list ci)     (* Ok(char), stream after the escape *)
  | EEof                            (* Err(None) *)
  | EErr (es : list lerr)           (* Err(Some(_)): error emitted *)
  | EPanic (site : N).

  Definition esc_err (kind : N) (es : list lerr) (sp : res span) : escres :=
    match sp with
    | ROk s => EErr ((kind, s) :: es)
    | RPanic site => EPanic site
    | _ => EPanic 99
    end.

  Inductive ures := UEof | UDone (endp : N) (start : option N) (v : N) (r : list ci) | UBad (pos d : N).

  Fixpoint u_digits (r : list ci) (start : option N) (v : N) : ures :=
    match r with
    | [] => UEof
    | (pos, d) :: r' =>
      if d =? 125 then UDone pos start v r'
      else match to_digit 16 d with
           | None => UBad pos d
           | Some dv => u_digits r' (match start with None => Some pos | Some _ => start end) (v * 16 + dv)
           end
    end.

  Definition valid_scalar (v : N) : bool := (v <? 55296) || ((57344 <=? v) && (v <? 1114112)).

  Definition parse_escape (r : list ci) (es : list lerr) : escres :=
    match r with
    | [] => EEof
    | (index, c) :: r1 =>
      if c =? 34 then EChar 34 r1
      else if c =? 39 then EChar 39 r1
      else if c =? 110 then EChar 10 r1
      else if c =? 114 then EChar 13 r1
      else if c =? 116 then EChar 9 r1
      else if c =? 92 then EChar 92 r1
      else if c =? 48 then EChar 0 r1
      else if c =? 120 then                         (* \xHL *)
        match r1 with
        | (_, h) :: (_, l) :: r3 =>
          match to_digit 16 h, to_digit 16 l with
          | Some hv, Some lv => EChar (hv * 16 + lv) r3
          | _, _ => esc_err 13 es (span_until 20 r3 index)
          end
        | _ => EEof
        end
      else if c =? 117 then                         (* \u{...} *)
        match r1 with
        | [] => EEof
        | (_, c2) :: r2 =>
          if c2 =? 123 then
            match u_digits r2 None 0 with
            | UEof => EEof
            | UBad pos d => esc_err 15 es (span_one 22 pos d)
            | UDone endp start v r3 =>
              let ds := match start with Some p => p | None => endp end in
              if 4294967296 <=? v then esc_err 16 es (mk_span 23 ds endp)
              else if valid_scalar v then EChar v r3
              else match span_until 24 r3 index with      (* span_all, carried in the error kind *)
                   | ROk _ => esc_err 17 es (mk_span 25 ds endp)
                   | RPanic site => EPanic site
                   | _ => EPanic 99
                   end
            end
          else esc_err 14 es (span_one 21 index (if fix_ubrace cf then 117 else c2))
        end
      else esc_err 19 es (span_one 26 index c)
    end.

  (* ---------------------------------------------------------------- lex_string (after the opening double quote) *)
  Fixpoint string_loop (fuel : nat) (index : N) (r : list ci) (es : list lerr)
    : res (tok * list ci * list lerr) :=
    match fuel with
    | O => RFuel
    | S f =>
      match r with
      | [] =>
        do e <- last_char_start 30 ;;
        do sp <- mk_span 31 index e ;;
        RAbort ((5, sp) :: es)
      | (ni, nc) :: r1 =>
        if nc =? 92 then
          match parse_escape r1 es with
          | EChar _ r2 => string_loop f index r2 es
          | EEof => do sp <- mk_span 32 index len ;; RAbort ((5, sp) :: es)
          | EErr es' => RAbort es'
          | EPanic site => RPanic site
          end
        else if nc =? 34 then
          do sp <- span_until 33 r1 index ;; ROk (TStr sp, r1, es)
        else if is_bidi nc then
          do sp <- span_one 34 ni nc ;; string_loop f index r1 ((18, sp) :: es)
        else string_loop f index r1 es
      end
    end.

  (* ---------------------------------------------------------------- lex_char (after the opening quote) *)
  (* `escape`: the char itself, or the escape it starts *)
  Definition char_escape (index : N) (nc : N) (r : list ci) (es : list lerr) : res (N * list ci) :=
    if nc =? 92 then
      match parse_escape r es with
      | EChar c r' => ROk (c, r')
      | EEof => do sp <- mk_span 40 index len ;; RAbort ((6, sp) :: es)
      | EErr es' => RAbort es'
      | EPanic site => RPanic site
      end
    else ROk (nc, r).

  (* the recovery loop: chars up to the closing quote; returns their total UTF-8 length *)
  Fixpoint char_rest (r : list ci) (acc : N) : option (N * list ci) :=
    match r with
    | [] => None
    | (_, c) :: r' => if c =? 39 then Some (acc, r') else char_rest r' (acc + len_utf8 c)
    end.

  Definition lex_char (index : N) (r : list ci) (es : list lerr) : res (tok * list ci * list lerr) :=
    match r with
    | [] => do sp <- mk_span 40 index len ;; RAbort ((6, sp) :: es)
    | (ni, nc) :: r1 =>
      do es1 <- (if is_bidi nc then do sp <- span_one 41 ni nc ;; ROk ((18, sp) :: es) else ROk es) ;;
      do ' (parsed, r2) <- char_escape index nc r1 es1 ;;
      match r2 with
      | [] => do sp <- mk_span 40 index len ;; RAbort ((6, sp) :: es1)
      | (ni2, nc2) :: r3 =>
        do sp <- span_until 42 r3 index ;;
        if nc2 =? 39 then ROk (TChar sp, r3, es1)
        else
          do ' (p2, r4) <- char_escape index nc2 r3 es1 ;;
          match char_rest r4 (len_utf8 parsed + len_utf8 p2) with
          | None => do sp' <- mk_span 40 index len ;; RAbort ((6, sp') :: es1)
          | Some (slen, r5) =>
            do esp <- (if fix_quote cf then span_until 43 r5 ni2 else mk_span 43 ni2 (ni2 + slen)) ;;
            ROk (TStr sp, r5, (7, esp) :: es1)
          end
      end
    end.

  (* ---------------------------------------------------------------- lex_int_lit *)
  Fixpoint parse_digits (radix : N) (r : list ci) : option N * list ci :=
    match r with
    | [] => (None, [])
    | (i, c) :: r' =>
      if c =? 95 then parse_digits radix r'
      else match to_digit radix c with
           | None => (Some i, r)
           | Some _ => parse_digits radix r'
           end
    end.

  (* `while next_if(is_xid_continue)`: the chars taken and the rest *)
  Fixpoint take_xidc (r : list ci) : list N * list ci :=
    match r with
    | [] => ([], [])
    | (_, c) :: r' => if is_xid_continue c then let '(a, b) := take_xidc r' in (c :: a, b) else ([], r)
    end.

  Definition lex_int_ty_opt (r : list ci) (es : list lerr) : res (option (N * span) * list ci * list lerr) :=
    match r with
    | [] => ROk (None, r, es)
    | (ssp, c) :: r1 =>
      if is_xid_continue c then
        let '(suffix, r2) := take_xidc r1 in
        match int_suffix (c :: suffix) with
        | Some ty => do sp <- span_until 51 r2 ssp ;; ROk (Some (ty, sp), r2, es)
        | None => do sp <- mk_span 50 ssp (peek_pos r2) ;; ROk (None, r2, (11, sp) :: es)
        end
      else ROk (None, r, es)
    end.

  Definition prefixed_int (index radix kind : N) (r : list ci) (es : list lerr) : res (option N * list ci) :=
    match r with
    | [] => ROk (None, r) (* not reached: called only when a prefix char is peeked *)
    | _ :: r1 =>
      match r1 with
      | [] => do sp <- mk_span 52 index len ;; RAbort ((kind, sp) :: es)
      | (dp, dc) :: r2 =>
        match to_digit radix dc with
        | None => do sp <- mk_span 52 index dp ;; RAbort ((kind, sp) :: es)
        | Some _ => ROk (parse_digits radix r2)
        end
      end
    end.

  (* called when `character` is a decimal digit *)
  Definition lex_int_lit (index c : N) (r : list ci) (es : list lerr) : res (tok * list ci * list lerr) :=
    do ' (end_opt, r1) <-
      (if c =? 48 then
         match r with
         | [] => ROk (None, r)
         | (ni, c2) :: _ =>
           if c2 =? 120 then prefixed_int index 16 8 r es
           else if c2 =? 111 then prefixed_int index 8 10 r es
           else if c2 =? 98 then prefixed_int index 2 9 r es
           else if (c2 =? 95) || is_digit c2 then ROk (parse_digits 10 r)
           else ROk (Some ni, r)
         end
       else ROk (parse_digits 10 r)) ;;
    do ' (ty, r2, es2) <- lex_int_ty_opt r1 es ;;
    do sp <- mk_span 53 index (match end_opt with Some e => e | None => len end) ;;
    ROk (TInt sp ty, r2, es2).

  (* ---------------------------------------------------------------- lex_punctuation *)
  Definition lex_punct (index c : N) (r : list ci) : res tok :=
    let joint := match r with (_, c2) :: _ => is_punct c2 | [] => false end in
    do sp <- span_until 60 r index ;; ROk (TPunct c joint sp).

  (* ---------------------------------------------------------------- comments *)
  (* `stream.find(|c| c == '\n')`: position of the newline (or len) and the stream after it *)
  Fixpoint find_nl (r : list ci) : N * list ci :=
    match r with
    | [] => (len, [])
    | (p, c) :: r' => if c =? 10 then (p, r') else find_nl r'
    end.

  (* r = stream after the first '/', whose head is the second '/' *)
  Definition lex_line_comment (index kind : N) (r : list ci) : res (tok * list ci) :=
    let r1 := tl r in
    let '(e, r2) := find_nl r1 in
    do sp <- mk_span 70 index e ;;
    (* sp.as_str().chars().nth(2) / nth(3): the chars after `//`, if before the newline *)
    let c2 := match r1 with (p, c) :: _ => if p <? e then Some c else None | [] => None end in
    let c3 := match r1 with _ :: (p, c) :: _ => if p <? e then Some c else None | _ => None end in
    let is k o := match o with Some x => x =? k | None => false end in
    (* `//!` inner doc; `////` not a doc comment; `///` outer doc *)
    let doc := if is 33 c2 then Some 1
               else if is 47 c2 then (if is 47 c3 then None else Some 0)
               else None in
    match doc with
    | Some style => do csp <- mk_span 71 (index + 3) e ;; ROk (TDoc style sp csp, r2)
    | None => ROk (TComment kind sp, r2)
    end.

  Definition unclosed_comment (unclosed : list N) (es : list lerr) : res (option tok * list ci * list lerr) :=
    match unclosed with
    | [] => RPanic 80
    | start :: _ =>
      do e <- (if fix_comment cf then last_char_start 81
               else if len =? 0 then RPanic 81 else ROk (len - 1)) ;;
      do sp <- mk_span 82 start e ;;
      ROk (None, [], (1, sp) :: es)
    end.

  (* r = stream after the `/*`; `unclosed` = indices of the open `/*`, innermost first *)
  Fixpoint block_loop (r : list ci) (unclosed : list N) (multi : bool) (es : list lerr)
    : res (option tok * list ci * list lerr) :=
    match r with
    | [] => unclosed_comment unclosed es
    | (i, c) :: r1 =>
      if c =? 42 then
        match r1 with
        | [] => unclosed_comment unclosed es
        | (six, c2) :: r2 =>
          if c2 =? 47 then
            match unclosed with
            | [] => RPanic 83
            | start :: [] =>
              do sp <- mk_span 84 start (six + 1) ;;
              ROk (Some (TComment (if multi then 3 else 2) sp), r2, es)
            | _ :: rest => block_loop r2 rest multi es
            end
          else block_loop r2 unclosed multi es
        end
      else if c =? 47 then
        match r1 with
        | [] => unclosed_comment unclosed es
        | (_, c2) :: r2 =>
          if c2 =? 42 then block_loop r2 (i :: unclosed) multi es else block_loop r2 unclosed multi es
        end
      else if c =? 10 then block_loop r1 unclosed true es
      else block_loop r1 unclosed multi es
    end.

  (* `src.text[a..b].chars().rev().take_while(is_whitespace).filter(== '\n').count() > 0` *)
  Fixpoint nl_before (l : list ci) : bool :=   (* l = chars of the slice, reversed *)
    match l with
    | [] => false
    | (_, c) :: l' => if is_ws c then (c =? 10) || nl_before l' else false
    end.
  Definition has_newline (a b : N) : bool :=
    nl_before (rev (filter (fun x => (a <=? fst x) && (fst x <? b)) src)).
  Definition slice_ok (a b : N) : bool := (a <=? b) && (b <=? len) && is_bnd a && is_bnd b.

  (* ---------------------------------------------------------------- lex_commented: one iteration *)
  Record st := { s_r : list ci; s_toks : list tok; s_es : list lerr; s_stack : list (N * N);
                 s_last : N; s_fso : N }.
  (* s_toks, s_es: reversed.  s_stack: (open_index, delimiter), innermost first.
     s_last: `token_trees.last()` is a Tree => its span end, else 0.  s_fso: file_start_offset. *)

  Definition tok_end (t : tok) : N :=
    match t with
    | TIdent _ sp | TGroup _ sp _ | TPunct _ _ sp | TStr sp | TChar sp | TBool sp | TInt sp _ | TDoc _ sp _ => snd sp
    | TComment _ _ | TOpen _ => 0
    end.

  Definition push (s : st) (t : tok) (r : list ci) (es : list lerr) : st :=
    {| s_r := r; s_toks := t :: s_toks s; s_es := es; s_stack := s_stack s; s_last := tok_end t; s_fso := s_fso s |}.
  Definition skip (s : st) (r : list ci) (es : list lerr) : st :=
    {| s_r := r; s_toks := s_toks s; s_es := es; s_stack := s_stack s; s_last := s_last s; s_fso := s_fso s |}.

  (* lex_close_delimiter: r = stream after the closing char (or [] at end of input) *)
  Definition close_group (r : list ci) (index open_index d : N) : res tok :=
    do inner <- mk_span 100 (open_index + 1) index ;;
    do sp <- span_until 101 r open_index ;;
    ROk (TGroup d sp inner).

  (* everything after the identifier branch, for (index, c) with stream r *)
  Definition lex_other (s : st) (index c : N) (r : list ci) : res st :=
    let es := s_es s in
    match open_delim c with
    | Some d =>
      ROk {| s_r := r; s_toks := TOpen d :: s_toks s; s_es := es; s_stack := (index, d) :: s_stack s;
             s_last := 0; s_fso := s_fso s |}
    | None =>
    match close_delim c with
    | Some cd =>
      match s_stack s with
      | [] => do sp <- span_one 102 index c ;; ROk (skip s r ((2, sp) :: es))
      | (oi, od) :: stack' =>
        do es' <- (if od =? cd then ROk es else do sp <- span_one 103 index c ;; ROk ((3, sp) :: es)) ;;
        do g <- close_group r index oi od ;;
        ROk {| s_r := r; s_toks := g :: s_toks s; s_es := es'; s_stack := stack';
               s_last := tok_end g; s_fso := s_fso s |}
      end
    | None =>
      if c =? 34 then
        do ' (t, r', es') <- string_loop (S (length r)) index r es ;; ROk (push s t r' es')
      else if c =? 39 then
        do ' (t, r', es') <- lex_char index r es ;; ROk (push s t r' es')
      else if is_digit c then
        do ' (t, r', es') <- lex_int_lit index c r es ;; ROk (push s t r' es')
      else if is_punct c then
        do t <- lex_punct index c r ;; ROk (push s t r es)
      else
        do sp <- span_one 104 index c ;; ROk (skip s r ((12, sp) :: es))
    end end.

  Fixpoint drop_xidc (r : list ci) : list ci :=
    match r with
    | [] => []
    | (_, c) :: r' => if is_xid_continue c then drop_xidc r' else r
    end.

  Definition lex_ident_or_other (s : st) (index c : N) (r : list ci) : res st :=
    if is_xid_start c || (c =? 95) then
      let is_raw := (c =? 114) && match r with (_, n) :: _ => n =? 35 | [] => false end in
      (* raw identifier: skip the '#', take the next char (if any) as the first one *)
      let '(index', c', r') :=
        if is_raw then
          match tl r with
          | (ni, nc) :: r3 => (ni, nc, r3)
          | [] => (index, c, [])
          end
        else (index, c, r) in
      if is_raw && negb (is_xid_start c' || (c' =? 95)) then
        do sp <- span_one 110 index' c' ;; ROk (skip s r' ((12, sp) :: s_es s))
      else
        let not_single_underscore :=
          negb (c' =? 95) || match r' with (_, n) :: _ => is_xid_continue n | [] => false end in
        if not_single_underscore then
          let r'' := drop_xidc r' in
          do sp <- span_until 111 r'' index' ;; ROk (push s (TIdent is_raw sp) r'' (s_es s))
        else lex_other s index' c' r'
    else lex_other s index c r.

  Definition lex_step (s : st) (index c : N) (r : list ci) : res st :=
    if is_ws c then
      (* `index - file_start_offset`: usize subtraction *)
      if index <? s_fso s then RPanic 120
      else ROk {| s_r := r; s_toks := s_toks s; s_es := s_es s; s_stack := s_stack s; s_last := s_last s;
                  s_fso := if index - s_fso s =? 0 then s_fso s + len_utf8 c else s_fso s |}
    else
      let nxt_is k := match r with (_, n) :: _ => n =? k | [] => false end in
      if (c =? 47) && nxt_is 47 then
        let search_end := s_last s in
        if negb (slice_ok search_end index) then RPanic 121
        else
          let kind := if has_newline search_end index || ((search_end =? 0) && (index =? 0)) then 0 else 1 in
          do ' (t, r') <- lex_line_comment index kind r ;; ROk (push s t r' (s_es s))
      else if (c =? 47) && nxt_is 42 then
        do ' (ot, r', es') <- block_loop (tl r) [index] false (s_es s) ;;
        match ot with
        | Some t => ROk (push s t r' es')
        | None => ROk (skip s r' es')
        end
      else lex_ident_or_other s index c r.

  (* "Recover all unclosed delimiters" *)
  Fixpoint finish (stack : list (N * N)) (toks : list tok) (es : list lerr) : res (list tok * list lerr) :=
    match stack with
    | [] => ROk (toks, es)
    | (oi, od) :: stack' =>
      do sp <- span_one 130 oi 40 ;;      (* as_open_char(): one byte *)
      do g <- close_group [] len oi od ;;
      finish stack' (g :: toks) ((4, sp) :: es)
    end.

  Fixpoint lex_loop (fuel : nat) (s : st) : res (list tok * span * list lerr) :=
    match fuel with
    | O => RFuel
    | S f =>
      match s_r s with
      | [] =>
        do ' (toks, es) <- finish (s_stack s) (s_toks s) (s_es s) ;;
        do full <- mk_span 131 0 len ;;
        ROk (rev toks, full, rev es)
      | (index, c) :: r =>
        match lex_step s index c r with
        | ROk s' => lex_loop f s'
        | RAbort es => RAbort (rev es)
        | RPanic site => RPanic site
        | RFuel => RFuel
        end
      end
    end.

  Definition init : st := {| s_r := src; s_toks := []; s_es := []; s_stack := []; s_last := 0; s_fso := 0 |}.
End Lexer.

(* lex_commented(handler, text, 0, text.len()) on the text with scalars `s`.
   ROk (tokens, full span, errors) | RAbort errors | RPanic site | RFuel *)
Definition lex_cfg (cf : cfg) (ucls : N -> N) (s : list N) : res (list tok * span * list lerr) :=
  let src := indices 0 s in
  let len := total_len 0 s in
  lex_loop ucls cf src len (S (length s)) (init src).

Definition lex := lex_cfg repaired.
