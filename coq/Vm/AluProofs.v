(* Vm.AluProofs — sanity laws tying every Vm.Alu operation to plain N arithmetic.
   Naming: <op>_ok (no panic, exact value), <op>_overflow / <op>_zero (the panic case),
   <op>_wrapping / <op>_unsafe (behaviour with F_WRAPPING / F_UNSAFEMATH set: $of/$err). *)
From Coq Require Import NArith ZArith Lia Bool.
From SwayV Require Import Vm.Alu.
Local Open Scope N_scope.

Lemma W64_val : 2 ^ 64 = 18446744073709551616. Proof. reflexivity. Qed.
Lemma MAX64_val : MAX64 = 18446744073709551615. Proof. reflexivity. Qed.
Lemma P128_val : 2 ^ 128 = 340282366920938463463374607431768211456. Proof. reflexivity. Qed.

Lemma land_max64 r : N.land r MAX64 = r mod 2 ^ 64.
Proof. unfold MAX64. apply N.land_ones. Qed.

Lemma pow2_pos n : 0 < 2 ^ n.
Proof. apply N.neq_0_lt_0. apply N.pow_nonzero. discriminate. Qed.

Lemma ones_val n : N.ones n = 2 ^ n - 1.
Proof. rewrite N.ones_equiv. apply N.pred_sub. Qed.

Lemma ones_lt n x : (N.ones n <? x) = (2 ^ n <=? x).
Proof.
  rewrite ones_val. pose proof (pow2_pos n) as Hp.
  destruct (N.ltb_spec (2 ^ n - 1) x), (N.leb_spec (2 ^ n) x); try reflexivity; lia.
Qed.

Lemma small_mod a m : a < m -> a mod m = a.
Proof. apply N.mod_small. Qed.

(* ------------------------------------------------------------------ capture_overflow *)
Lemma capture_ok fl r : r < 2 ^ 64 ->
  capture_overflow fl r = Val {| res := r; of := 0; err := 0 |}.
Proof.
  intros H. unfold capture_overflow.
  replace (MAX64 <? r) with false.
  2:{ symmetry. apply N.ltb_ge. rewrite MAX64_val. rewrite W64_val in H. lia. }
  cbn [andb]. rewrite land_max64, small_mod by exact H.
  rewrite N.shiftr_div_pow2, N.div_small by exact H. reflexivity.
Qed.

Lemma capture_panic r : 2 ^ 64 <= r ->
  capture_overflow default_flags r = VmPanic ArithmeticOverflow.
Proof.
  intros H. unfold capture_overflow.
  replace (MAX64 <? r) with true. reflexivity.
  symmetry. apply N.ltb_lt. rewrite MAX64_val. rewrite W64_val in H. lia.
Qed.

Lemma capture_wrapping um r :
  capture_overflow {| unsafemath := um; wrapping := true |} r =
  Val {| res := r mod 2 ^ 64; of := r / 2 ^ 64; err := 0 |}.
Proof.
  unfold capture_overflow. cbn [wrapping negb]. rewrite andb_false_r.
  rewrite land_max64, N.shiftr_div_pow2. reflexivity.
Qed.

(* ------------------------------------------------------------------ ADD SUB MUL *)
Lemma add_ok a b : a + b < 2 ^ 64 -> vm_add a b = Val (a + b).
Proof. intros H. unfold vm_add, vm_bin, exec64. rewrite capture_ok by exact H. reflexivity. Qed.

Lemma add_overflow a b : 2 ^ 64 <= a + b -> vm_add a b = VmPanic ArithmeticOverflow.
Proof. intros H. unfold vm_add, vm_bin, exec64. rewrite capture_panic by exact H. reflexivity. Qed.

Lemma add_wrapping um a b :
  exec64 {| unsafemath := um; wrapping := true |} ADD a b =
  Val {| res := (a + b) mod 2 ^ 64; of := (a + b) / 2 ^ 64; err := 0 |}.
Proof. apply capture_wrapping. Qed.

Lemma sub_ok a b : b <= a -> a < 2 ^ 64 -> vm_sub a b = Val (a - b).
Proof.
  intros Hle Ha. unfold vm_sub, vm_bin, exec64, sub_u128.
  replace (b <=? a) with true by (symmetry; apply N.leb_le; exact Hle).
  rewrite capture_ok by lia. reflexivity.
Qed.

Lemma sub_overflow a b : a < b -> b < 2 ^ 64 -> vm_sub a b = VmPanic ArithmeticOverflow.
Proof.
  intros Hlt Hb. unfold vm_sub, vm_bin, exec64, sub_u128.
  replace (b <=? a) with false by (symmetry; apply N.leb_gt; exact Hlt).
  rewrite capture_panic. reflexivity.
  rewrite P128_val. rewrite W64_val in *. lia.
Qed.

(* with F_WRAPPING a borrow leaves the two's complement difference and $of = 2^64-1 *)
Lemma sub_wrapping um a b : a < b -> b < 2 ^ 64 ->
  exec64 {| unsafemath := um; wrapping := true |} SUB a b =
  Val {| res := 2 ^ 64 + a - b; of := 2 ^ 64 - 1; err := 0 |}.
Proof.
  intros Hlt Hb. unfold exec64, sub_u128.
  replace (b <=? a) with false by (symmetry; apply N.leb_gt; exact Hlt).
  rewrite capture_wrapping. f_equal. f_equal.
  - rewrite P128_val, W64_val in *.
    replace (340282366920938463463374607431768211456 + a - b)
      with ((18446744073709551616 + a - b) + 18446744073709551615 * 18446744073709551616) by lia.
    rewrite N.mod_add by discriminate. apply N.mod_small. lia.
  - rewrite P128_val, W64_val in *.
    replace (340282366920938463463374607431768211456 + a - b)
      with ((18446744073709551616 + a - b) + 18446744073709551615 * 18446744073709551616) by lia.
    rewrite N.div_add by discriminate. rewrite N.div_small by lia. reflexivity.
Qed.

Lemma mul_ok a b : a * b < 2 ^ 64 -> vm_mul a b = Val (a * b).
Proof. intros H. unfold vm_mul, vm_bin, exec64. rewrite capture_ok by exact H. reflexivity. Qed.

Lemma mul_overflow a b : 2 ^ 64 <= a * b -> vm_mul a b = VmPanic ArithmeticOverflow.
Proof. intros H. unfold vm_mul, vm_bin, exec64. rewrite capture_panic by exact H. reflexivity. Qed.

Lemma mul_wrapping um a b :
  exec64 {| unsafemath := um; wrapping := true |} MUL a b =
  Val {| res := (a * b) mod 2 ^ 64; of := (a * b) / 2 ^ 64; err := 0 |}.
Proof. apply capture_wrapping. Qed.

(* ------------------------------------------------------------------ DIV MOD *)
Lemma div_ok a b : b <> 0 -> vm_div a b = Val (a / b).
Proof.
  intros H. unfold vm_div, vm_bin, exec64, alu_error.
  apply N.eqb_neq in H. rewrite H. reflexivity.
Qed.
Lemma div_zero a : vm_div a 0 = VmPanic ArithmeticError.
Proof. reflexivity. Qed.
Lemma div_unsafe w a :
  exec64 {| unsafemath := true; wrapping := w |} DIV a 0 = Val {| res := 0; of := 0; err := 1 |}.
Proof. reflexivity. Qed.

Lemma mod_ok a b : b <> 0 -> vm_mod a b = Val (a mod b).
Proof.
  intros H. unfold vm_mod, vm_bin, exec64, alu_error.
  apply N.eqb_neq in H. rewrite H. reflexivity.
Qed.
Lemma mod_zero a : vm_mod a 0 = VmPanic ArithmeticError.
Proof. reflexivity. Qed.
Lemma mod_unsafe w a :
  exec64 {| unsafemath := true; wrapping := w |} MOD a 0 = Val {| res := 0; of := 0; err := 1 |}.
Proof. reflexivity. Qed.

(* ------------------------------------------------------------------ EXP *)
Lemma chk64_spec x : chk64 x = if x <? 2 ^ 64 then Some x else None.
Proof. reflexivity. Qed.

Lemma pow_pos_xO b p : b ^ N.pos p~0 = b ^ N.pos p * b ^ N.pos p.
Proof. rewrite <- N.pow_add_r. f_equal. lia. Qed.
Lemma pow_pos_xI b p : b ^ N.pos p~1 = b ^ N.pos p * b ^ N.pos p * b.
Proof.
  replace (N.pos p~1) with (N.succ (N.pos p~0)) by lia.
  rewrite N.pow_succ_r', pow_pos_xO. lia.
Qed.

Lemma pow_chk_pos_spec b p : pow_chk_pos b p = chk64 (b ^ N.pos p).
Proof.
  induction p as [p IH | p IH |]; cbn [pow_chk_pos].
  - rewrite IH, pow_pos_xI. unfold chk64, W64.
    destruct (N.ltb_spec (b ^ N.pos p) (2 ^ 64)) as [H1 | H1].
    + destruct (N.ltb_spec (b ^ N.pos p * b ^ N.pos p) (2 ^ 64)) as [H2 | H2].
      * reflexivity.
      * destruct (N.ltb_spec (b ^ N.pos p * b ^ N.pos p * b) (2 ^ 64)) as [H3 | H3]; [|reflexivity].
        exfalso. destruct (N.eq_dec b 0) as [-> | Hb].
        -- rewrite N.pow_0_l in H2 by discriminate. rewrite W64_val in H2. lia.
        -- assert (b ^ N.pos p * b ^ N.pos p <= b ^ N.pos p * b ^ N.pos p * b) by nia. lia.
    + destruct (N.ltb_spec (b ^ N.pos p * b ^ N.pos p * b) (2 ^ 64)) as [H3 | H3]; [|reflexivity].
      exfalso. destruct (N.eq_dec b 0) as [-> | Hb].
      * rewrite N.pow_0_l in H1 by discriminate. rewrite W64_val in H1. lia.
      * assert (1 <= b ^ N.pos p) by (rewrite W64_val in H1; lia).
        assert (b ^ N.pos p <= b ^ N.pos p * b ^ N.pos p * b) by nia. lia.
  - rewrite IH, pow_pos_xO. unfold chk64, W64.
    destruct (N.ltb_spec (b ^ N.pos p) (2 ^ 64)) as [H1 | H1]; [reflexivity|].
    destruct (N.ltb_spec (b ^ N.pos p * b ^ N.pos p) (2 ^ 64)) as [H3 | H3]; [|reflexivity].
    exfalso. assert (1 <= b ^ N.pos p) by (rewrite W64_val in H1; lia).
    assert (b ^ N.pos p <= b ^ N.pos p * b ^ N.pos p) by nia. lia.
  - rewrite N.pow_1_r. reflexivity.
Qed.

Lemma pow_chk_spec b e : b < 2 ^ 64 -> pow_chk b e = if b ^ e <? 2 ^ 64 then Some (b ^ e) else None.
Proof.
  intros Hb. destruct e as [|p]; cbn [pow_chk].
  - rewrite N.pow_0_r. reflexivity.
  - rewrite pow_chk_pos_spec. reflexivity.
Qed.

Lemma pow_big_exp b c : 2 <= b -> 2 ^ 32 <= c -> 2 ^ 64 <= b ^ c.
Proof.
  intros Hb Hc.
  apply N.le_trans with (2 ^ c).
  - apply N.pow_le_mono_r; [discriminate|]. apply N.le_trans with (2 ^ 32); [|exact Hc].
    vm_compute. discriminate.
  - apply N.pow_le_mono_l. exact Hb.
Qed.

Lemma pow_small_base b c : b < 2 -> c <> 0 -> b ^ c = b.
Proof.
  intros Hb Hc. assert (b = 0 \/ b = 1) as [-> | ->] by lia.
  - apply N.pow_0_l. exact Hc.
  - apply N.pow_1_l.
Qed.

Lemma exp_ovf_spec b c : b < 2 ^ 64 ->
  exp_ovf b c = if b ^ c <? 2 ^ 64 then (b ^ c, false) else (0, true).
Proof.
  intros Hb. unfold exp_ovf.
  destruct (N.ltb_spec c (2 ^ 32)) as [Hc | Hc].
  - rewrite pow_chk_spec by exact Hb. destruct (b ^ c <? 2 ^ 64); reflexivity.
  - destruct (N.ltb_spec b 2) as [Hb2 | Hb2].
    + rewrite pow_small_base; [| exact Hb2 |].
      * replace (b <? 2 ^ 64) with true; [reflexivity|]. symmetry. apply N.ltb_lt. exact Hb.
      * intros ->. vm_compute in Hc. apply Hc. reflexivity.
    + pose proof (pow_big_exp b c Hb2 Hc) as H.
      replace (b ^ c <? 2 ^ 64) with false; [reflexivity|]. symmetry. apply N.ltb_ge. exact H.
Qed.

Lemma exp_ok b c : b < 2 ^ 64 -> b ^ c < 2 ^ 64 -> vm_exp b c = Val (b ^ c).
Proof.
  intros Hb H. unfold vm_exp, vm_bin, exec64. rewrite exp_ovf_spec by exact Hb.
  apply N.ltb_lt in H. rewrite H. reflexivity.
Qed.

Lemma exp_overflow b c : b < 2 ^ 64 -> 2 ^ 64 <= b ^ c -> vm_exp b c = VmPanic ArithmeticOverflow.
Proof.
  intros Hb H. unfold vm_exp, vm_bin, exec64. rewrite exp_ovf_spec by exact Hb.
  apply N.ltb_ge in H. rewrite H. reflexivity.
Qed.

(* with F_WRAPPING an overflowing EXP writes 0 (not the wrapped power) and $of = 1 *)
Lemma exp_wrapping um b c : b < 2 ^ 64 -> 2 ^ 64 <= b ^ c ->
  exec64 {| unsafemath := um; wrapping := true |} EXP b c = Val {| res := 0; of := 1; err := 0 |}.
Proof.
  intros Hb H. unfold exec64. rewrite exp_ovf_spec by exact Hb.
  apply N.ltb_ge in H. rewrite H. reflexivity.
Qed.

(* ------------------------------------------------------------------ bitwise, NOT, shifts, compares *)
Lemma and_ok a b : vm_and a b = Val (N.land a b). Proof. reflexivity. Qed.
Lemma or_ok a b : vm_or a b = Val (N.lor a b). Proof. reflexivity. Qed.
Lemma xor_ok a b : vm_xor a b = Val (N.lxor a b). Proof. reflexivity. Qed.

Lemma lnot_low a n : a < 2 ^ n -> N.lnot a n = 2 ^ n - 1 - a.
Proof.
  intros H. destruct (N.eq_dec a 0) as [-> | Ha].
  - rewrite N.lnot_0_l, ones_val. lia.
  - assert (Hl : N.log2 a < n) by (apply N.log2_lt_pow2; [lia | exact H]).
    pose proof (N.add_lnot_diag_low a n Hl) as Hd. rewrite ones_val in Hd. lia.
Qed.

Lemma not_ok a : a < 2 ^ 64 -> vm_not a = 2 ^ 64 - 1 - a.
Proof. intros H. unfold vm_not, exec_not, alu_set. cbn [res]. apply lnot_low. exact H. Qed.

Lemma lnot_bound a n : a < 2 ^ n -> N.lnot a n < 2 ^ n.
Proof. intros H. rewrite lnot_low by exact H. pose proof (pow2_pos n). lia. Qed.

Lemma sll_ok a c : c < 64 -> vm_sll a c = Val ((a * 2 ^ c) mod 2 ^ 64).
Proof.
  intros H. unfold vm_sll, vm_bin, exec64, sll64, alu_set, omap. cbn [res].
  replace (c <? 2 ^ 32) with true by (symmetry; apply N.ltb_lt; change (2 ^ 32) with 4294967296; lia).
  replace (c <? 64) with true by (symmetry; apply N.ltb_lt; exact H).
  cbn [andb]. rewrite land_max64, N.shiftl_mul_pow2. reflexivity.
Qed.

Lemma sll_big a c : 64 <= c -> vm_sll a c = Val 0.
Proof.
  intros H. unfold vm_sll, vm_bin, exec64, sll64, alu_set, omap. cbn [res].
  replace (c <? 64) with false by (symmetry; apply N.ltb_ge; exact H).
  rewrite andb_false_r. reflexivity.
Qed.

Lemma srl_ok a c : c < 64 -> vm_srl a c = Val (a / 2 ^ c).
Proof.
  intros H. unfold vm_srl, vm_bin, exec64, srl64, alu_set, omap. cbn [res].
  replace (c <? 2 ^ 32) with true by (symmetry; apply N.ltb_lt; change (2 ^ 32) with 4294967296; lia).
  replace (c <? 64) with true by (symmetry; apply N.ltb_lt; exact H).
  cbn [andb]. rewrite N.shiftr_div_pow2. reflexivity.
Qed.

Lemma srl_big a c : 64 <= c -> vm_srl a c = Val 0.
Proof.
  intros H. unfold vm_srl, vm_bin, exec64, srl64, alu_set, omap. cbn [res].
  replace (c <? 64) with false by (symmetry; apply N.ltb_ge; exact H).
  rewrite andb_false_r. reflexivity.
Qed.

Lemma div_pow2_big a n c : a < 2 ^ n -> n <= c -> a / 2 ^ c = 0.
Proof.
  intros Ha Hc. apply N.div_small. apply N.lt_le_trans with (2 ^ n); [exact Ha|].
  apply N.pow_le_mono_r; [discriminate | exact Hc].
Qed.

(* for a register value the logical right shift is the mathematical one for EVERY amount *)
Lemma srl_any a c : a < 2 ^ 64 -> vm_srl a c = Val (a / 2 ^ c).
Proof.
  intros Ha. destruct (N.lt_ge_cases c 64) as [H | H].
  - apply srl_ok. exact H.
  - rewrite srl_big by exact H. rewrite (div_pow2_big a 64 c) by assumption. reflexivity.
Qed.

Lemma eq_ok a b : vm_eq a b = Val (if a =? b then 1 else 0).
Proof. unfold vm_eq, vm_bin, exec64, alu_set, omap. cbn [res]. destruct (a =? b); reflexivity. Qed.
Lemma lt_ok a b : vm_lt a b = Val (if a <? b then 1 else 0).
Proof. unfold vm_lt, vm_bin, exec64, alu_set, omap. cbn [res]. destruct (a <? b); reflexivity. Qed.
Lemma gt_ok a b : vm_gt a b = Val (if b <? a then 1 else 0).
Proof. unfold vm_gt, vm_bin, exec64, alu_set, omap. cbn [res]. destruct (b <? a); reflexivity. Qed.

(* MLDV *)
Lemma mldv_ok fl a b d : d <> 0 -> a * b / d < 2 ^ 64 ->
  exec_mldv fl a b d = Val {| res := a * b / d; of := 0; err := 0 |}.
Proof.
  intros Hd H. unfold exec_mldv. apply N.eqb_neq in Hd. rewrite Hd.
  rewrite land_max64, N.mod_small, N.shiftr_div_pow2, N.div_small by exact H. reflexivity.
Qed.
Lemma mldv_zero fl a b : exec_mldv fl a b 0 = Val {| res := a * b / 2 ^ 64; of := 0; err := 0 |}.
Proof. unfold exec_mldv. cbn [N.eqb negb andb]. rewrite N.shiftr_div_pow2. reflexivity. Qed.

(* which panics are possible at all (default flags) *)
Lemma vm_bin_panic_cases op b c r : b < 2 ^ 64 -> c < 2 ^ 64 -> vm_bin op b c = VmPanic r ->
  (op = ADD /\ 2 ^ 64 <= b + c /\ r = ArithmeticOverflow) \/
  (op = SUB /\ b < c /\ r = ArithmeticOverflow) \/
  (op = MUL /\ 2 ^ 64 <= b * c /\ r = ArithmeticOverflow) \/
  (op = EXP /\ 2 ^ 64 <= b ^ c /\ r = ArithmeticOverflow) \/
  ((op = DIV \/ op = MOD) /\ c = 0 /\ r = ArithmeticError).
Proof.
  intros Hb Hc H. destruct op; try discriminate H.
  - left. destruct (N.lt_ge_cases (b + c) (2 ^ 64)) as [Hs | Hs].
    + change (vm_bin ADD b c) with (vm_add b c) in H. rewrite add_ok in H by exact Hs. discriminate.
    + change (vm_bin ADD b c) with (vm_add b c) in H. rewrite add_overflow in H by exact Hs.
      inversion H. auto.
  - right; left. destruct (N.lt_ge_cases b c) as [Hs | Hs].
    + change (vm_bin SUB b c) with (vm_sub b c) in H. rewrite sub_overflow in H by assumption.
      inversion H. auto.
    + change (vm_bin SUB b c) with (vm_sub b c) in H. rewrite sub_ok in H by assumption. discriminate.
  - right; right; left. destruct (N.lt_ge_cases (b * c) (2 ^ 64)) as [Hs | Hs].
    + change (vm_bin MUL b c) with (vm_mul b c) in H. rewrite mul_ok in H by exact Hs. discriminate.
    + change (vm_bin MUL b c) with (vm_mul b c) in H. rewrite mul_overflow in H by exact Hs.
      inversion H. auto.
  - right; right; right; right. destruct (N.eq_dec c 0) as [-> | Hz].
    + inversion H. auto.
    + change (vm_bin DIV b c) with (vm_div b c) in H. rewrite div_ok in H by exact Hz. discriminate.
  - right; right; right; right. destruct (N.eq_dec c 0) as [-> | Hz].
    + inversion H. auto.
    + change (vm_bin MOD b c) with (vm_mod b c) in H. rewrite mod_ok in H by exact Hz. discriminate.
  - right; right; right; left. destruct (N.lt_ge_cases (b ^ c) (2 ^ 64)) as [Hs | Hs].
    + change (vm_bin EXP b c) with (vm_exp b c) in H. rewrite exp_ok in H by assumption. discriminate.
    + change (vm_bin EXP b c) with (vm_exp b c) in H. rewrite exp_overflow in H by assumption.
      inversion H. auto.
Qed.

(* ------------------------------------------------------------------ wide ops *)
Section WideLaws.
  Variable bits : N.

  Lemma land_wmax x : N.land x (WMAX bits) = x mod 2 ^ bits.
  Proof. unfold WMAX. apply N.land_ones. Qed.

  Lemma wmax_ltb x : (WMAX bits <? x) = (2 ^ bits <=? x).
  Proof. unfold WMAX. apply ones_lt. Qed.

  Lemma wide_add_ok fl l r : l + r < 2 ^ bits ->
    wide_op bits fl MADD l r = Val {| res := l + r; of := 0; err := 0 |}.
  Proof.
    intros H. unfold wide_op, wide_overflowing, wide_finish.
    rewrite wmax_ltb, land_wmax. replace (2 ^ bits <=? l + r) with false by (symmetry; apply N.leb_gt; exact H).
    cbn [andb N.b2n]. rewrite N.mod_small by exact H. reflexivity.
  Qed.

  Lemma wide_add_overflow l r : 2 ^ bits <= l + r ->
    wide_op bits default_flags MADD l r = VmPanic ArithmeticOverflow.
  Proof.
    intros H. unfold wide_op, wide_overflowing, wide_finish.
    rewrite wmax_ltb. replace (2 ^ bits <=? l + r) with true by (symmetry; apply N.leb_le; exact H).
    reflexivity.
  Qed.

  Lemma wide_add_wrapping um l r : 2 ^ bits <= l + r ->
    wide_op bits {| unsafemath := um; wrapping := true |} MADD l r =
    Val {| res := (l + r) mod 2 ^ bits; of := 1; err := 0 |}.
  Proof.
    intros H. unfold wide_op, wide_overflowing, wide_finish.
    rewrite wmax_ltb, land_wmax. replace (2 ^ bits <=? l + r) with true by (symmetry; apply N.leb_le; exact H).
    reflexivity.
  Qed.

  Lemma wide_sub_ok fl l r : r <= l ->
    wide_op bits fl MSUB l r = Val {| res := l - r; of := 0; err := 0 |}.
  Proof.
    intros H. unfold wide_op, wide_overflowing, wide_finish.
    replace (r <=? l) with true by (symmetry; apply N.leb_le; exact H).
    replace (l <? r) with false by (symmetry; apply N.ltb_ge; exact H). reflexivity.
  Qed.

  Lemma wide_sub_overflow l r : l < r ->
    wide_op bits default_flags MSUB l r = VmPanic ArithmeticOverflow.
  Proof.
    intros H. unfold wide_op, wide_overflowing, wide_finish.
    replace (l <? r) with true by (symmetry; apply N.ltb_lt; exact H). reflexivity.
  Qed.

  Lemma wide_sub_wrapping um l r : l < r ->
    wide_op bits {| unsafemath := um; wrapping := true |} MSUB l r =
    Val {| res := 2 ^ bits + l - r; of := 1; err := 0 |}.
  Proof.
    intros H. unfold wide_op, wide_overflowing, wide_finish, WMOD.
    replace (r <=? l) with false by (symmetry; apply N.leb_gt; exact H).
    replace (l <? r) with true by (symmetry; apply N.ltb_lt; exact H). reflexivity.
  Qed.

  Lemma wide_and_ok fl l r : wide_op bits fl MAND l r = Val {| res := N.land l r; of := 0; err := 0 |}.
  Proof. reflexivity. Qed.
  Lemma wide_or_ok fl l r : wide_op bits fl MOR l r = Val {| res := N.lor l r; of := 0; err := 0 |}.
  Proof. reflexivity. Qed.
  Lemma wide_xor_ok fl l r : wide_op bits fl MXOR l r = Val {| res := N.lxor l r; of := 0; err := 0 |}.
  Proof. reflexivity. Qed.

  Lemma wide_not_ok fl l r : l < 2 ^ bits ->
    wide_op bits fl MNOT l r = Val {| res := 2 ^ bits - 1 - l; of := 0; err := 0 |}.
  Proof.
    intros H. unfold wide_op, wide_overflowing, wide_finish. cbn [andb N.b2n].
    rewrite lnot_low by exact H. reflexivity.
  Qed.

  Lemma wide_shl_ok fl l r : r < bits -> r < 2 ^ 32 ->
    wide_op bits fl MSHL l r = Val {| res := (l * 2 ^ r) mod 2 ^ bits; of := 0; err := 0 |}.
  Proof.
    intros H H32. unfold wide_op, wide_overflowing, wide_finish. cbn [andb N.b2n].
    replace (r <? 2 ^ 32) with true by (symmetry; apply N.ltb_lt; exact H32).
    replace (r <? bits) with true by (symmetry; apply N.ltb_lt; exact H).
    cbn [andb]. rewrite land_wmax, N.shiftl_mul_pow2. reflexivity.
  Qed.

  Lemma wide_shl_big fl l r : bits <= r ->
    wide_op bits fl MSHL l r = Val {| res := 0; of := 0; err := 0 |}.
  Proof.
    intros H. unfold wide_op, wide_overflowing, wide_finish. cbn [andb N.b2n].
    replace (r <? bits) with false by (symmetry; apply N.ltb_ge; exact H).
    rewrite andb_false_r. reflexivity.
  Qed.

  Lemma wide_shr_any fl l r : l < 2 ^ bits -> bits <= 2 ^ 32 ->
    wide_op bits fl MSHR l r = Val {| res := l / 2 ^ r; of := 0; err := 0 |}.
  Proof.
    intros Hl Hb. unfold wide_op, wide_overflowing, wide_finish. cbn [andb N.b2n].
    destruct (N.ltb_spec r bits) as [H | H].
    - replace (r <? 2 ^ 32) with true by (symmetry; apply N.ltb_lt; lia).
      cbn [andb]. rewrite N.shiftr_div_pow2. reflexivity.
    - rewrite andb_false_r. rewrite (div_pow2_big l bits r) by assumption. reflexivity.
  Qed.

  Lemma wide_mul_ok fl l r : l * r < 2 ^ bits ->
    wide_mul bits fl l r = Val {| res := l * r; of := 0; err := 0 |}.
  Proof.
    intros H. unfold wide_mul, wide_finish. rewrite wmax_ltb, land_wmax.
    replace (2 ^ bits <=? l * r) with false by (symmetry; apply N.leb_gt; exact H).
    cbn [andb N.b2n]. rewrite N.mod_small by exact H. reflexivity.
  Qed.

  Lemma wide_mul_overflow l r : 2 ^ bits <= l * r ->
    wide_mul bits default_flags l r = VmPanic ArithmeticOverflow.
  Proof.
    intros H. unfold wide_mul, wide_finish. rewrite wmax_ltb.
    replace (2 ^ bits <=? l * r) with true by (symmetry; apply N.leb_le; exact H). reflexivity.
  Qed.

  Lemma wide_mul_wrapping um l r : 2 ^ bits <= l * r ->
    wide_mul bits {| unsafemath := um; wrapping := true |} l r =
    Val {| res := (l * r) mod 2 ^ bits; of := 1; err := 0 |}.
  Proof.
    intros H. unfold wide_mul, wide_finish. rewrite wmax_ltb, land_wmax.
    replace (2 ^ bits <=? l * r) with true by (symmetry; apply N.leb_le; exact H). reflexivity.
  Qed.

  Lemma wide_div_ok fl l r : r <> 0 ->
    wide_div bits fl l r = Val {| res := l / r; of := 0; err := 0 |}.
  Proof. intros H. unfold wide_div, wide_err. apply N.eqb_neq in H. rewrite H. reflexivity. Qed.
  Lemma wide_div_zero l : wide_div bits default_flags l 0 = VmPanic ArithmeticError.
  Proof. reflexivity. Qed.
  Lemma wide_div_unsafe w l :
    wide_div bits {| unsafemath := true; wrapping := w |} l 0 = Val {| res := 0; of := 0; err := 1 |}.
  Proof. reflexivity. Qed.

  Lemma wide_addmod_ok fl l r m : m <> 0 ->
    wide_addmod bits fl l r m = Val {| res := (l + r) mod m; of := 0; err := 0 |}.
  Proof. intros H. unfold wide_addmod, wide_err. apply N.eqb_neq in H. rewrite H. reflexivity. Qed.
  Lemma wide_addmod_zero l r : wide_addmod bits default_flags l r 0 = VmPanic ArithmeticError.
  Proof. reflexivity. Qed.

  Lemma wide_mulmod_ok fl l r m : m <> 0 ->
    wide_mulmod bits fl l r m = Val {| res := (l * r) mod m; of := 0; err := 0 |}.
  Proof. intros H. unfold wide_mulmod, wide_err. apply N.eqb_neq in H. rewrite H. reflexivity. Qed.
  Lemma wide_mulmod_zero l r : wide_mulmod bits default_flags l r 0 = VmPanic ArithmeticError.
  Proof. reflexivity. Qed.

  Lemma wide_muldiv_ok fl l r d : d <> 0 -> l * r / d < 2 ^ bits ->
    wide_muldiv bits fl l r d = Val {| res := l * r / d; of := 0; err := 0 |}.
  Proof.
    intros Hd H. unfold wide_muldiv, wide_finish. apply N.eqb_neq in Hd. rewrite Hd.
    rewrite wmax_ltb, land_wmax.
    replace (2 ^ bits <=? l * r / d) with false by (symmetry; apply N.leb_gt; exact H).
    cbn [andb N.b2n]. rewrite N.mod_small by exact H. reflexivity.
  Qed.

  Lemma wide_cmp_eq l r : wide_cmp bits CEQ l r = if l =? r then 1 else 0.
  Proof. unfold wide_cmp. destruct (l =? r); reflexivity. Qed.
  Lemma wide_cmp_lt l r : wide_cmp bits CLT l r = if l <? r then 1 else 0.
  Proof. unfold wide_cmp. destruct (l <? r); reflexivity. Qed.
  Lemma wide_cmp_gt l r : wide_cmp bits CGT l r = if r <? l then 1 else 0.
  Proof. unfold wide_cmp. destruct (r <? l); reflexivity. Qed.

  (* every value a wide op writes fits the width *)
  Lemma wide_op_bounded fl mop l r a : l < 2 ^ bits -> r < 2 ^ bits ->
    wide_op bits fl mop l r = Val a -> res a < 2 ^ bits.
  Proof.
    intros Hl Hr. unfold wide_op, wide_overflowing, wide_finish.
    pose proof (pow2_pos bits) as Hp.
    assert (Hmod : forall x, x mod 2 ^ bits < 2 ^ bits) by (intros x; apply N.mod_lt; lia).
    destruct mop.
    - rewrite land_wmax. destruct (_ && _); intros H; inversion H; subst; cbn [res]; apply Hmod.
    - destruct (N.leb_spec r l) as [Hle | Hgt];
        (destruct (_ && _); intros H; inversion H; subst; cbn [res]; unfold WMOD; lia).
    - cbn [andb]. intros H; inversion H; subst; cbn [res]. apply lnot_bound. exact Hl.
    - cbn [andb]. intros H; inversion H; subst; cbn [res].
      destruct (N.eq_dec (N.lor l r) 0) as [-> | Hz]; [lia|].
      apply N.log2_lt_pow2; [lia|]. rewrite N.log2_lor.
      destruct (N.eq_dec l 0) as [-> | Hl0]; destruct (N.eq_dec r 0) as [-> | Hr0];
        try (apply N.max_lub_lt; apply N.log2_lt_pow2; lia).
      + cbn in Hz. congruence.
      + rewrite N.max_r by (cbn; lia). apply N.log2_lt_pow2; lia.
      + rewrite N.max_l by (cbn; lia). apply N.log2_lt_pow2; lia.
    - cbn [andb]. intros H; inversion H; subst; cbn [res].
      destruct (N.eq_dec (N.lxor l r) 0) as [-> | Hz]; [lia|].
      apply N.log2_lt_pow2; [lia|].
      apply N.le_lt_trans with (N.max (N.log2 l) (N.log2 r)); [apply N.log2_lxor|].
      destruct (N.eq_dec l 0) as [-> | Hl0]; destruct (N.eq_dec r 0) as [-> | Hr0].
      + cbn in Hz. congruence.
      + rewrite N.max_r by (cbn; lia). apply N.log2_lt_pow2; lia.
      + rewrite N.max_l by (cbn; lia). apply N.log2_lt_pow2; lia.
      + apply N.max_lub_lt; apply N.log2_lt_pow2; lia.
    - cbn [andb]. intros H; inversion H; subst; cbn [res].
      destruct (N.eq_dec (N.land l r) 0) as [-> | Hz]; [lia|].
      apply N.log2_lt_pow2; [lia|].
      apply N.le_lt_trans with (N.min (N.log2 l) (N.log2 r)); [apply N.log2_land|].
      destruct (N.eq_dec l 0) as [-> | Hl0]; [cbn in Hz; congruence|].
      apply N.le_lt_trans with (N.log2 l); [apply N.le_min_l | apply N.log2_lt_pow2; lia].
    - cbn [andb]. intros H; inversion H; subst; cbn [res].
      destruct (_ && _); [rewrite land_wmax; apply Hmod | lia].
    - cbn [andb]. intros H; inversion H; subst; cbn [res].
      destruct (_ && _); [|lia]. rewrite N.shiftr_div_pow2.
      apply N.le_lt_trans with l; [|exact Hl]. apply N.div_le_upper_bound.
      + apply N.pow_nonzero. discriminate.
      + pose proof (pow2_pos r). nia.
  Qed.
End WideLaws.

(* Non-vacuity / regression examples (values also observed on the real VM by C06's harness). *)
Example ex_add_max : vm_add (2 ^ 64 - 1) 1 = VmPanic ArithmeticOverflow. Proof. vm_compute. reflexivity. Qed.
Example ex_sll : vm_sll 9223372036854775809 1 = Val 2. Proof. vm_compute. reflexivity. Qed.
Example ex_sll64 : vm_sll 1 64 = Val 0. Proof. vm_compute. reflexivity. Qed.
Example ex_not : vm_not 5 = 18446744073709551610. Proof. vm_compute. reflexivity. Qed.
Example ex_exp : vm_exp 2 63 = Val 9223372036854775808. Proof. vm_compute. reflexivity. Qed.
Example ex_exp_ovf : vm_exp 2 64 = VmPanic ArithmeticOverflow. Proof. vm_compute. reflexivity. Qed.
Example ex_exp_huge : vm_exp 1 (2 ^ 63) = Val 1. Proof. vm_compute. reflexivity. Qed.
Example ex_wq_shl : wval (wq_op default_flags MSHL (2 ^ 255 + 1) 1) = Val 2. Proof. vm_compute. reflexivity. Qed.
Example ex_wq_addmod0 : wval (wq_addmod default_flags 1 0 0) = VmPanic ArithmeticError. Proof. vm_compute. reflexivity. Qed.
