(* Vm.Alu — the FuelVM (fuel-vm 0.66.4) arithmetic/logic fragment as executable Gallina over N.

   Source followed: fuel-vm-0.66.4/src/interpreter/alu.rs (alu_capture_overflow,
   alu_boolean_overflow, alu_error, alu_set, exp), alu/muldiv.rs, alu/wideint.rs and
   executors/opcodes_impl.rs (which helper each opcode uses).  NO proofs here
   (see Vm/AluProofs.v).

   INTERFACE (stable; other properties import this file)
   -----------------------------------------------------
     outcome A            := Val a | VmPanic reason          (reason: ArithmeticOverflow | ArithmeticError)
     flags                := {| unsafemath; wrapping |}      ($flag bits F_UNSAFEMATH=1, F_WRAPPING=2)
     default_flags        both off (what sway-generated code runs under unless it sets $flag)
     alu_res              := {| res; of; err |}              (destination value, $of, $err after the op)
     op64                 := ADD SUB MUL DIV MOD EXP AND OR XOR SLL SRL EQ LT GT
     exec64 fl op b c    : outcome alu_res                  one 64-bit binary instruction (register or
                                                             immediate form: the immediate is just `c`)
     exec_not b           : alu_res                          NOT (never panics)
     exec_mldv fl b c d   : outcome alu_res                  MLDV
     vm_bin op b c        : outcome N                        = res of exec64 default_flags
     vm_add .. vm_gt, vm_not                                 abbreviations of vm_bin / exec_not
     wide ops take the bit width `bits` first (128 for WDxx, 256 for WQxx):
       wide_op bits fl mop l r, wide_mul bits fl l r, wide_div bits fl l r, wide_addmod bits fl l r m,
       wide_mulmod bits fl l r m, wide_muldiv bits fl l r d : outcome alu_res  (res = value written
       to memory), wide_cmp bits mode l r : N (value of the destination register)
     wq_* := wide_* 256, wd_* := wide_* 128;  wval o := the value only (omap res).

   Operands are plain N.  The VM only ever supplies operands below 2^64 (registers, immediates) resp.
   below 2^bits (memory words); the functions are total anyway and AluProofs states every law with
   the bound it needs.  For the wide ops the caller resolves "indirect" operands: `r` is the VALUE
   (loaded from memory, or the zero-extended register when the instruction's indirect bit is off).
   Memory faults of the wide ops (MemoryOverflow/MemoryOwnership on the operand and destination
   addresses), gas, and $pc are not part of this fragment. *)
From Coq Require Import NArith Bool.
Local Open Scope N_scope.

Inductive panic_reason := ArithmeticOverflow | ArithmeticError.

Inductive outcome (A : Type) : Type :=
| Val (a : A)
| VmPanic (r : panic_reason).
Arguments Val {A} a.
Arguments VmPanic {A} r.

Definition omap {A B} (f : A -> B) (o : outcome A) : outcome B :=
  match o with Val a => Val (f a) | VmPanic r => VmPanic r end.

Record flags := { unsafemath : bool; wrapping : bool }.
Definition default_flags := {| unsafemath := false; wrapping := false |}.

Record alu_res := { res : N; of : N; err : N }.

Definition W64 : N := 2 ^ 64.
Definition MAX64 : N := N.ones 64.

(* ---- the four helpers of alu.rs ------------------------------------------------ *)

(* alu_capture_overflow: `r` is the u128 result of the operation. *)
Definition capture_overflow (fl : flags) (r : N) : outcome alu_res :=
  if (MAX64 <? r) && negb (wrapping fl) then VmPanic ArithmeticOverflow
  else Val {| res := N.land r MAX64; of := N.shiftr r 64; err := 0 |}.

(* alu_boolean_overflow *)
Definition boolean_overflow (fl : flags) (r : N) (overflow : bool) : outcome alu_res :=
  if overflow && negb (wrapping fl) then VmPanic ArithmeticOverflow
  else Val {| res := if overflow then 0 else r; of := N.b2n overflow; err := 0 |}.

(* alu_error: `v` is only used when err_bool is false. *)
Definition alu_error (fl : flags) (v : N) (err_bool : bool) : outcome alu_res :=
  if err_bool && negb (unsafemath fl) then VmPanic ArithmeticError
  else Val {| res := if err_bool then 0 else v; of := 0; err := N.b2n err_bool |}.

Definition alu_set (v : N) : alu_res := {| res := v; of := 0; err := 0 |}.

(* ---- Rust integer primitives used by the executors ------------------------------ *)

(* u128::overflowing_sub on zero-extended u64 operands: the wrapped u128 value. *)
Definition sub_u128 (b c : N) : N := if c <=? b then b - c else 2 ^ 128 + b - c.

(* b^p saturating: None as soon as the value reaches 2^64 (u64::overflowing_pow's flag). *)
Definition chk64 (x : N) : option N := if x <? W64 then Some x else None.
Fixpoint pow_chk_pos (b : N) (p : positive) : option N :=
  match p with
  | xH => chk64 b
  | xO p' => match pow_chk_pos b p' with
             | Some r => chk64 (r * r)
             | None => None
             end
  | xI p' => match pow_chk_pos b p' with
             | Some r => match chk64 (r * r) with
                         | Some s => chk64 (s * b)
                         | None => None
                         end
             | None => None
             end
  end.
Definition pow_chk (b e : N) : option N :=
  match e with N0 => Some 1 | Npos p => pow_chk_pos b p end.

(* alu::exp : (value, overflow).  The wrapped value on overflow is never observable
   (alu_boolean_overflow writes 0), so it is reported as 0 here. *)
Definition exp_ovf (b c : N) : N * bool :=
  if c <? 2 ^ 32 then
    match pow_chk b c with Some r => (r, false) | None => (0, true) end
  else if b <? 2 then (b, false) else (0, true).

(* u64::checked_shl/shr(b, c).unwrap_or_default() guarded by `c.try_into::<u32>()` *)
Definition sll64 (b c : N) : N :=
  if (c <? 2 ^ 32) && (c <? 64) then N.land (N.shiftl b c) MAX64 else 0.
Definition srl64 (b c : N) : N :=
  if (c <? 2 ^ 32) && (c <? 64) then N.shiftr b c else 0.

(* ---- 64-bit instructions ---------------------------------------------------------- *)

Inductive op64 := ADD | SUB | MUL | DIV | MOD | EXP | AND | OR | XOR | SLL | SRL | EQ | LT | GT.

Definition exec64 (fl : flags) (op : op64) (b c : N) : outcome alu_res :=
  match op with
  | ADD => capture_overflow fl (b + c)
  | SUB => capture_overflow fl (sub_u128 b c)
  | MUL => capture_overflow fl (b * c)
  | DIV => alu_error fl (b / c) (c =? 0)
  | MOD => alu_error fl (b mod c) (c =? 0)
  | EXP => let '(r, o) := exp_ovf b c in boolean_overflow fl r o
  | AND => Val (alu_set (N.land b c))
  | OR => Val (alu_set (N.lor b c))
  | XOR => Val (alu_set (N.lxor b c))
  | SLL => Val (alu_set (sll64 b c))
  | SRL => Val (alu_set (srl64 b c))
  | EQ => Val (alu_set (N.b2n (b =? c)))
  | LT => Val (alu_set (N.b2n (b <? c)))
  | GT => Val (alu_set (N.b2n (c <? b)))
  end.

Definition exec_not (b : N) : alu_res := alu_set (N.lnot b 64).

(* MLDV: divider 0 means 2^64; $of receives the high word of the quotient. *)
Definition exec_mldv (fl : flags) (b c d : N) : outcome alu_res :=
  let p := b * c in
  let '(r, o) := if d =? 0 then (N.shiftr p 64, 0) else (N.land (p / d) MAX64, N.shiftr (p / d) 64) in
  if negb (o =? 0) && negb (wrapping fl) then VmPanic ArithmeticOverflow
  else Val {| res := r; of := o; err := 0 |}.

(* Default-flag, value-only views. *)
Definition vm_bin (op : op64) (b c : N) : outcome N := omap res (exec64 default_flags op b c).
Definition vm_add := vm_bin ADD.
Definition vm_sub := vm_bin SUB.
Definition vm_mul := vm_bin MUL.
Definition vm_div := vm_bin DIV.
Definition vm_mod := vm_bin MOD.
Definition vm_exp := vm_bin EXP.
Definition vm_and := vm_bin AND.
Definition vm_or := vm_bin OR.
Definition vm_xor := vm_bin XOR.
Definition vm_sll := vm_bin SLL.
Definition vm_srl := vm_bin SRL.
Definition vm_eq := vm_bin EQ.
Definition vm_lt := vm_bin LT.
Definition vm_gt := vm_bin GT.
Definition vm_not (b : N) : N := res (exec_not b).

(* ---- wide (128/256-bit) instructions ---------------------------------------------- *)

Inductive math_op := MADD | MSUB | MNOT | MOR | MXOR | MAND | MSHL | MSHR.
Inductive cmp_mode := CEQ | CNE | CLT | CGT | CLTE | CGTE | CLZC.

(* Every wide function takes the bit width first (uniform interface), also where the
   result does not depend on it. *)
Definition WMOD (bits : N) : N := 2 ^ bits.
Definition WMAX (bits : N) : N := N.ones bits.

(* op_overflowing_*: (wrapped, overflow) *)
Definition wide_overflowing (bits : N) (mop : math_op) (l r : N) : N * bool :=
  match mop with
  | MADD => (N.land (l + r) (WMAX bits), WMAX bits <? l + r)
  | MSUB => (if r <=? l then l - r else WMOD bits + l - r, l <? r)
  | MOR => (N.lor l r, false)
  | MXOR => (N.lxor l r, false)
  | MAND => (N.land l r, false)
  | MNOT => (N.lnot l bits, false)
  | MSHL => (if (r <? 2 ^ 32) && (r <? bits) then N.land (N.shiftl l r) (WMAX bits) else 0, false)
  | MSHR => (if (r <? 2 ^ 32) && (r <? bits) then N.shiftr l r else 0, false)
  end.

Definition wide_finish (fl : flags) (wrapped : N) (overflow : bool) : outcome alu_res :=
  if overflow && negb (wrapping fl) then VmPanic ArithmeticOverflow
  else Val {| res := wrapped; of := N.b2n overflow; err := 0 |}.

Definition wide_op (bits : N) (fl : flags) (mop : math_op) (l r : N) : outcome alu_res :=
  let '(w, o) := wide_overflowing bits mop l r in wide_finish fl w o.

Definition wide_mul (bits : N) (fl : flags) (l r : N) : outcome alu_res :=
  wide_finish fl (N.land (l * r) (WMAX bits)) (WMAX bits <? l * r).

(* division family: the checked op is None exactly when the divisor is 0 *)
Definition wide_err (fl : flags) (v : N) (zero_div : bool) : outcome alu_res :=
  if zero_div then
    if unsafemath fl then Val {| res := 0; of := 0; err := 1 |} else VmPanic ArithmeticError
  else Val {| res := v; of := 0; err := 0 |}.

Definition wide_div (bits : N) (fl : flags) (l r : N) : outcome alu_res :=
  wide_err fl (l / r) (r =? 0).
Definition wide_addmod (bits : N) (fl : flags) (l r m : N) : outcome alu_res :=
  wide_err fl ((l + r) mod m) (m =? 0).
Definition wide_mulmod (bits : N) (fl : flags) (l r m : N) : outcome alu_res :=
  wide_err fl ((l * r) mod m) (m =? 0).

(* muldiv: divider 0 means 2^bits; overflow when the quotient needs the high half *)
Definition wide_muldiv (bits : N) (fl : flags) (l r d : N) : outcome alu_res :=
  let q := if d =? 0 then N.shiftr (l * r) bits else (l * r) / d in
  wide_finish fl (N.land q (WMAX bits)) (WMAX bits <? q).

Definition wide_cmp (bits : N) (mode : cmp_mode) (l r : N) : N :=
  match mode with
  | CEQ => N.b2n (l =? r)
  | CNE => N.b2n (negb (l =? r))
  | CGT => N.b2n (r <? l)
  | CLT => N.b2n (l <? r)
  | CGTE => N.b2n (r <=? l)
  | CLTE => N.b2n (l <=? r)
  | CLZC => bits - N.size l
  end.

Definition wq_op := wide_op 256.
Definition wq_mul := wide_mul 256.
Definition wq_div := wide_div 256.
Definition wq_addmod := wide_addmod 256.
Definition wq_mulmod := wide_mulmod 256.
Definition wq_muldiv := wide_muldiv 256.
Definition wq_cmp := wide_cmp 256.
Definition wd_op := wide_op 128.
Definition wd_mul := wide_mul 128.
Definition wd_div := wide_div 128.
Definition wd_addmod := wide_addmod 128.
Definition wd_mulmod := wide_mulmod 128.
Definition wd_muldiv := wide_muldiv 128.
Definition wd_cmp := wide_cmp 128.

(* value-only view under default flags *)
Definition wval (o : outcome alu_res) : outcome N := omap res o.
