(* C30 — proofs. *)
From SwayV Require Import Base.Util C30.Model C30.Spec.

Lemma exec_app a : forall b x,
  exec (a ++ b) x = let '(y, ok) := exec a x in if ok then exec b y else (y, false).
Proof.
  induction a as [|s a IH]; intros b x; cbn; [destruct (exec b x); reflexivity|].
  destruct (apply s x) as [y|]; [apply IH | reflexivity].
Qed.

Lemma exec_sfiles j : forall f a i,
  exec (repeat SFile j) {| final := f; staging := Dir a i |} =
  ({| final := f; staging := Dir (a + j) i |}, true).
Proof.
  induction j as [|j IH]; intros f a i; cbn.
  - rewrite Nat.add_0_r. reflexivity.
  - rewrite IH. replace (S a + j) with (a + S j) by lia. reflexivity.
Qed.

Lemma exec_ofiles j : forall s a i,
  exec (repeat OFile j) {| final := Dir a i; staging := s |} =
  ({| final := Dir (a + j) i; staging := s |}, true).
Proof.
  induction j as [|j IH]; intros s a i; cbn.
  - rewrite Nat.add_0_r. reflexivity.
  - rewrite IH. replace (S a + j) with (a + S j) by lia. reflexivity.
Qed.

Lemma firstn_repeat_min A (x : A) n : forall j, firstn j (repeat x n) = repeat x (Nat.min j n).
Proof.
  induction n as [|n IH]; intros [|j]; cbn; auto. rewrite IH. reflexivity.
Qed.

(* the state after the first k steps of the repaired fetch, started with the final path absent *)
Lemma prefix_state n k s0 :
  exists y, exec (firstn k (fetch_steps n)) {| final := Absent; staging := s0 |} = (y, true) /\
    ((k < n + 5 /\ final y = Absent) \/
     (n + 5 <= k /\ final y = Dir n true /\ staging y = Absent)).
Proof.
  unfold fetch_steps. destruct k as [|[|k]].
  - cbn. eexists; split; [reflexivity|]. left. cbn. split; [lia|reflexivity].
  - cbn. eexists; split; [reflexivity|]. left. cbn. split; [lia|reflexivity].
  - cbn [app firstn exec apply final staging mkdir].
    rewrite firstn_app, repeat_length, firstn_repeat_min, exec_app, exec_sfiles. cbn [Nat.add].
    remember (k - n) as m eqn:Hm.
    destruct m as [|[|[|m]]]; cbn.
    + eexists; split; [reflexivity|]. left. cbn. split; [lia|reflexivity].
    + eexists; split; [reflexivity|]. left. cbn. split; [lia|reflexivity].
    + eexists; split; [reflexivity|]. left. cbn. split; [lia|reflexivity].
    + replace (Nat.min k n) with n by lia. rewrite firstn_nil. cbn.
      eexists; split; [reflexivity|]. right. cbn. repeat split. lia.
Qed.

Lemma run_fetch_good n f s0 :
  good n (run_fetch (fetch_steps n) true f {| final := Absent; staging := s0 |}).
Proof.
  unfold run_fetch, good. destruct f as [|k|k].
  - rewrite <- (firstn_all (fetch_steps n)).
    destruct (prefix_state n (length (fetch_steps n)) s0) as (y & -> & [[_ H]|[_ [H _]]]); auto.
  - destruct (prefix_state n k s0) as (y & -> & [[_ H]|[_ [H _]]]); auto.
  - destruct (prefix_state n k s0) as (y & -> & [[_ H]|[_ [H _]]]); cbn; auto.
Qed.

Lemma run_fetch_nofault n s0 :
  final (run_fetch (fetch_steps n) true NoFault {| final := Absent; staging := s0 |}) = Dir n true.
Proof.
  unfold run_fetch. rewrite <- (firstn_all (fetch_steps n)).
  destruct (prefix_state n (length (fetch_steps n)) s0) as (y & -> & [[H _]|[_ [H _]]]); auto.
  exfalso. unfold fetch_steps in H. rewrite !app_length, repeat_length in H. cbn in H. lia.
Qed.

Lemma build_good n f x : good n x -> good n (repaired_build n f x).
Proof.
  intros G. unfold repaired_build, build, decide. destruct x as [fi s0]. cbn in *.
  destruct G as [G|G]; cbn in G; subst fi; cbn.
  - apply run_fetch_good.
  - right. reflexivity.
Qed.

Lemma builds_good n : forall fs x, good n x -> good n (repaired_builds n fs x).
Proof.
  unfold repaired_builds, builds.
  induction fs as [|[f t] fs IH]; intros x G; cbn; auto. apply IH. apply build_good. exact G.
Qed.

Lemma good_safe n x : good n x -> safe_decision n x.
Proof.
  unfold good, safe_decision, decide. intros [H|H]; rewrite H; [left; reflexivity|].
  right. split; [reflexivity | cbn; reflexivity].
Qed.

Lemma fetch_crash_safe n fs x :
  good n x ->
  let y := repaired_builds n fs x in
  safe_decision n y /\ final (repaired_build n NoFault y) = Dir n true.
Proof.
  intros G y. assert (Gy : good n y) by (apply builds_good; exact G).
  split; [apply good_safe; exact Gy|].
  unfold repaired_build, build, decide. destruct y as [fi s0]. destruct Gy as [H|H]; cbn in H; subst fi; cbn.
  - apply (run_fetch_nofault n s0).
  - reflexivity.
Qed.

(* ---------- the original protocol *)
Lemma orig_prefix n k s0 :
  2 <= k -> k <= n + 2 ->
  exec (firstn k (orig_steps n)) {| final := Absent; staging := s0 |} =
  ({| final := Dir (k - 2) false; staging := s0 |}, true).
Proof.
  intros H1 H2. unfold orig_steps. destruct k as [|[|k]]; try lia.
  cbn [app firstn exec apply final staging mkdir].
  rewrite firstn_app, repeat_length, firstn_repeat_min, exec_app, exec_ofiles.
  replace (k - n) with 0 by lia. cbn. replace (Nat.min k n) with (k - 0) by lia. reflexivity.
Qed.

Lemma orig_partial n k s0 :
  2 <= k -> k < n + 2 ->
  let y := orig_build n (CrashAt k) {| final := Absent; staging := s0 |} in
  decide y = Use /\ ~ complete n (final y) /\
  orig_build n NoFault y = y.          (* the next build does not repair it either *)
Proof.
  intros H1 H2. unfold orig_build, build. cbn [decide final]. unfold run_fetch.
  rewrite orig_prefix by lia. cbn. repeat split. lia.
Qed.

Lemma orig_partial_error n k s0 :
  2 <= k -> k < n + 2 ->
  let y := orig_build n (ErrorAt k) {| final := Absent; staging := s0 |} in
  decide y = Use /\ ~ complete n (final y).
Proof.
  intros H1 H2. unfold orig_build, build. cbn [decide final]. unfold run_fetch.
  rewrite orig_prefix by lia. cbn. split; [reflexivity | lia].
Qed.
