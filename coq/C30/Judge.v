(* C30 — judgement of one fault-injection case (vm_compute).
   tree code: 0 absent, 1 + 2*files + idx present.  fault: kind 0 none / 1 crash / 2 error, at k.
   decision code: 0 fetch, 1 use. *)
From SwayV Require Import Base.Util C30.Model C30.Spec.

Definition tree_code (t : tree) : N :=
  match t with Absent => 0 | Dir k i => 1 + 2 * N.of_nat k + (if i then 1 else 0) end%N.
Definition tree_of (c : N) : tree :=
  match c with
  | 0%N => Absent
  | _ => Dir (N.to_nat (N.div (c - 1) 2)) (N.eqb (N.modulo (c - 1) 2) 1)
  end.
Definition fault_of (kind k : N) : fault :=
  match kind with 0%N => NoFault | 1%N => CrashAt (N.to_nat k) | _ => ErrorAt (N.to_nat k) end.

(* case: n files, faults (kind,k) of the successive builds, and per build the observation
   (decision taken, final tree after, staging tree after).
   result: (index of first build that differs from the model or 0,
            1 if an OBSERVED decision was Use on an observed incomplete final tree) *)
Fixpoint judge_go (n : nat) (x : st) (i : N) (bs : list (N * N * N * N * N)) (prev_final : N) : N * N :=
  match bs with
  | [] => (0%N, 0%N)
  | (kind, k, dec, fin, stg) :: r =>
    let viol := (N.eqb dec 1 && negb (completeb n (tree_of prev_final)))%bool in
    let y := repaired_build n (fault_of kind k) {| final := final x; staging := Absent |} in
    let mdec := match decide x with Fetch => 0%N | Use => 1%N end in
    let same := (N.eqb mdec dec && N.eqb (tree_code (final y)) fin && N.eqb (tree_code (staging y)) stg)%bool in
    let '(d, v) := judge_go n y (i + 1)%N r fin in
    ((if same then d else if N.eqb d 0 then i else N.min i d), (if viol then 1%N else v))
  end.

Definition judge (n : N) (bs : list (N * N * N * N * N)) : N * N :=
  judge_go (N.to_nat n) {| final := Absent; staging := Absent |} 1%N bs 0%N.

Definition judge_all (cs : list (N * list (N * N * N * N * N))) : list (N * N) :=
  map (fun c => judge (fst c) (snd c)) cs.
