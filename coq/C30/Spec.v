(* C30 — the property. *)
From SwayV Require Import Base.Util C30.Model.

(* the complete file set of the pinned commit (n files) *)
Definition complete (n : nat) (t : tree) : Prop :=
  match t with Dir k _ => k = n | Absent => False end.
Definition completeb (n : nat) (t : tree) : bool :=
  match t with Dir k _ => Nat.eqb k n | Absent => false end.

(* S: the later build either fetches or uses a complete checkout *)
Definition safe_decision (n : nat) (x : st) : Prop :=
  decide x = Fetch \/ (decide x = Use /\ complete n (final x)).
Definition safe_decisionb (n : nat) (x : st) : bool :=
  match decide x with Fetch => true | Use => completeb n (final x) end.

(* the invariant of the repaired protocol: the final path is absent or complete with its index *)
Definition good (n : nat) (x : st) : Prop := final x = Absent \/ final x = Dir n true.
