(* C30 — step model of forc-pkg/src/source/git/mod.rs `fetch` and of the later build's decision
   (`impl Fetch for Pinned`: `if !repo_path.exists() { fetch }`).  NO proofs here.

   A directory tree is abstracted to: absent, or present with the first `files` files of the pinned
   commit (libgit2 writes them in index order) and possibly the `.forc_index` file.
   `final`   = $HOME/.forc/git/checkouts/<name>-<hash>/<commit>   (the only path later builds look at)
   `staging` = $HOME/.forc/git/checkouts/tmp/<fetch_id>-<name>-<hash>.checkout   (repaired code only)
   The object download into the temporary repo does not touch either path and is not a step.
   A step may fail by itself (None); an injected I/O failure or a crash stops the sequence after k
   completed steps.  On an error return the scope guard removes the staging directory; on a crash
   nothing runs.  Not modelled: a partially written file, non-atomic remove_dir_all, power loss. *)
From SwayV Require Import Base.Util.

Inductive tree := Absent | Dir (files : nat) (idx : bool).
Record st := { final : tree; staging : tree }.

Inductive step :=
| SClearStaging      (* if staging.exists() { remove_dir_all(staging) } *)
| SMkStaging         (* create_dir_all(staging) *)
| SFile              (* checkout_head: next file *)
| SIndex             (* fs::write(staging/.forc_index) *)
| SRemoveFinal       (* if path.exists() { remove_dir_all(path) }  (+ create_dir_all(parent)) *)
| SRename            (* fs::rename(staging, path) *)
(* the ORIGINAL code worked on the final path directly *)
| ORemoveFinal | OMkFinal | OFile | OIndex.

Definition mkdir (t : tree) : tree := match t with Absent => Dir 0 false | _ => t end.
Definition add_file (t : tree) : tree :=
  match t with Absent => Dir 1 false | Dir k i => Dir (S k) i end.   (* libgit2 creates the dir *)
Definition add_index (t : tree) : option tree :=
  match t with Absent => None | Dir k _ => Some (Dir k true) end.     (* ENOENT *)

Definition apply (s : step) (x : st) : option st :=
  match s with
  | SClearStaging => Some {| final := final x; staging := Absent |}
  | SMkStaging => Some {| final := final x; staging := mkdir (staging x) |}
  | SFile => Some {| final := final x; staging := add_file (staging x) |}
  | SIndex => match add_index (staging x) with
              | Some t => Some {| final := final x; staging := t |} | None => None end
  | SRemoveFinal => Some {| final := Absent; staging := staging x |}
  | SRename =>
      match staging x, final x with
      | Absent, _ => None                                   (* ENOENT *)
      | t, Absent | t, Dir 0 false => Some {| final := t; staging := Absent |}
      | _, _ => None                                        (* ENOTEMPTY *)
      end
  | ORemoveFinal => Some {| final := Absent; staging := staging x |}
  | OMkFinal => Some {| final := mkdir (final x); staging := staging x |}
  | OFile => Some {| final := add_file (final x); staging := staging x |}
  | OIndex => match add_index (final x) with
              | Some t => Some {| final := t; staging := staging x |} | None => None end
  end.

(* run steps until one fails; the flag says whether all succeeded *)
Fixpoint exec (l : list step) (x : st) : st * bool :=
  match l with
  | [] => (x, true)
  | s :: r => match apply s x with Some y => exec r y | None => (x, false) end
  end.

Definition fetch_steps (n : nat) : list step :=
  [SClearStaging; SMkStaging] ++ repeat SFile n ++ [SIndex; SRemoveFinal; SRename].
Definition orig_steps (n : nat) : list step :=
  [ORemoveFinal; OMkFinal] ++ repeat OFile n ++ [OIndex].

Inductive fault := NoFault | CrashAt (k : nat) | ErrorAt (k : nat).

(* the scope guard of the repaired code (the original had nothing to clean on the final path) *)
Definition cleanup (x : st) : st := {| final := final x; staging := Absent |}.

Definition run_fetch (steps : list step) (guard : bool) (f : fault) (x : st) : st :=
  let on_error y := if guard then cleanup y else y in
  match f with
  | NoFault => let '(y, ok) := exec steps x in if ok then y else on_error y
  | CrashAt k => let '(y, ok) := exec (firstn k steps) x in if ok then y else on_error y
  | ErrorAt k => let '(y, _) := exec (firstn k steps) x in on_error y
  end.

(* the later build: only looks at whether the final path exists *)
Inductive decision := Fetch | Use.
Definition decide (x : st) : decision := match final x with Absent => Fetch | _ => Use end.

Definition build (steps : list step) (guard : bool) (f : fault) (x : st) : st :=
  match decide x with Fetch => run_fetch steps guard f x | Use => x end.

(* Successive builds (separate processes).  The staging path contains the fetch id (a hash of the
   project path and a time stamp), so every fetch starts with its own staging path: each element of the
   sequence carries, besides the fault, the tree that fetch finds at ITS staging path (Absent unless two
   fetch ids collide; leftovers of crashed fetches stay behind under other names and are never read). *)
Definition builds (steps : list step) (guard : bool) (fs : list (fault * tree)) (x : st) : st :=
  fold_left (fun y ft => build steps guard (fst ft) {| final := final y; staging := snd ft |}) fs x.

Definition repaired_build (n : nat) := build (fetch_steps n) true.
Definition repaired_builds (n : nat) := builds (fetch_steps n) true.
Definition orig_build (n : nat) := build (orig_steps n) false.
