(* C30 — property theorems only. *)
From SwayV Require Import Base.Util C30.Model C30.Spec C30.Proofs.

(* The repaired protocol (checkout into a staging directory, then rename): for every commit size n,
   every sequence of builds each hit by a crash or an I/O failure after any number of completed
   file-system steps (or by none), each finding anything at its staging path, started from a cache
   whose final path is absent or complete:
   the next build either fetches or uses the complete checkout, and a fault-free build ends with the
   complete checkout at the final path. *)
Theorem C30_fetch_crash_safe : forall n fs x,
  good n x ->
  let y := repaired_builds n fs x in
  safe_decision n y /\ final (repaired_build n NoFault y) = Dir n true.
Proof. exact fetch_crash_safe. Qed.
Print Assumptions C30_fetch_crash_safe.

(* The original protocol (create_dir_all, checkout_head and .forc_index written directly into the
   final path): for EVERY commit with n files and every crash point k after create_dir_all and before
   the last file, the later build uses the partial checkout (and never repairs it).  Same for an
   I/O failure. *)
Theorem C30_partial_checkout_refuted :
  (forall n k s0, 2 <= k -> k < n + 2 ->
     let y := orig_build n (CrashAt k) {| final := Absent; staging := s0 |} in
     decide y = Use /\ ~ complete n (final y) /\ orig_build n NoFault y = y) /\
  (forall n k s0, 2 <= k -> k < n + 2 ->
     let y := orig_build n (ErrorAt k) {| final := Absent; staging := s0 |} in
     decide y = Use /\ ~ complete n (final y)) /\
  (exists n f, ~ safe_decision n (orig_build n f {| final := Absent; staging := Absent |})).
Proof.
  split; [exact orig_partial|]. split; [exact orig_partial_error|].
  exists 5, (CrashAt 4). vm_compute. intros [H|[_ H]]; discriminate.
Qed.
Print Assumptions C30_partial_checkout_refuted.

(* Non-vacuity *)
Example C30_example_crash_then_build :
  let x := {| final := Absent; staging := Absent |} in
  repaired_builds 5 [(CrashAt 4, Absent); (ErrorAt 9, Absent); (CrashAt 9, Dir 3 false); (NoFault, Absent)] x = {| final := Dir 5 true; staging := Absent |} /\
  repaired_build 5 (CrashAt 9) x = {| final := Absent; staging := Dir 5 true |} /\
  orig_build 5 (CrashAt 4) x = {| final := Dir 2 false; staging := Absent |}.
Proof. vm_compute. repeat split. Qed.
