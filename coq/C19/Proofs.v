From SwayV Require Import Base.Util C16.Model C19.Model C19.Spec.
Open Scope N_scope.

Lemma tok_equiv_refl a : tok_equiv a a. Proof. reflexivity. Qed.
Lemma tok_equiv_sym a b : tok_equiv a b -> tok_equiv b a. Proof. unfold tok_equiv. intros H. symmetry. exact H. Qed.
Lemma tok_equiv_trans a b c : tok_equiv a b -> tok_equiv b c -> tok_equiv a c.
Proof. unfold tok_equiv. intros H1 H2. rewrite H1. exact H2. Qed.

Lemma subseq_refl {A} (l : list A) : subseq l l.
Proof. induction l as [|x l IH]; [apply sub_nil | apply sub_take; exact IH]. Qed.

Lemma subseq_trans {A} (a b c : list A) : subseq a b -> subseq b c -> subseq a c.
Proof.
  intros H1 H2. revert a H1. induction H2 as [l | x b c H IH | x b c H IH]; intros a H1.
  - inversion H1; subst. apply sub_nil.
  - inversion H1; subst.
    + apply sub_nil.
    + apply sub_take. apply IH. assumption.
    + apply sub_skip. apply IH. assumption.
  - apply sub_skip. apply IH. exact H1.
Qed.

(* order preservation: a subsequence keeps the relative order of any two of its elements *)
Lemma subseq_order {A} (a b : list A) x y l1 l2 l3 :
  subseq a b -> a = l1 ++ x :: l2 ++ y :: l3 -> exists m1 m2 m3, b = m1 ++ x :: m2 ++ y :: m3.
Proof.
  intros H. revert l1 l2 l3. induction H as [l | z a b H IH | z a b H IH]; intros l1 l2 l3 E.
  - destruct l1; discriminate.
  - destruct l1 as [|w l1]; cbn [app] in E; inversion E; subst.
    + clear E. (* x is the head: find y later *)
      assert (forall (a b : list A), subseq a b -> forall l2 l3, a = l2 ++ y :: l3 -> exists m2 m3, b = m2 ++ y :: m3) as K.
      { clear. intros a b H. induction H as [l | z a b H IH | z a b H IH]; intros l2 l3 E.
        - destruct l2; discriminate.
        - destruct l2 as [|w l2]; cbn [app] in E; inversion E; subst.
          + exists [], b. reflexivity.
          + destruct (IH _ _ eq_refl) as (m2 & m3 & ->). exists (w :: m2), m3. reflexivity.
        - destruct (IH _ _ E) as (m2 & m3 & ->). exists (z :: m2), m3. reflexivity. }
      destruct (K _ _ H _ _ eq_refl) as (m2 & m3 & ->). exists [], m2, m3. reflexivity.
    + destruct (IH _ _ _ eq_refl) as (m1 & m2 & m3 & ->). exists (w :: m1), m2, m3. reflexivity.
  - destruct (IH _ _ _ E) as (m1 & m2 & m3 & ->). exists (z :: m1), m2, m3. reflexivity.
Qed.

Lemma list_eqb_eq a b : list_eqb a b = true -> a = b.
Proof.
  revert b. induction a as [|x a IH]; intros [|y b] H; cbn [list_eqb] in H; try discriminate; [reflexivity|].
  apply andb_true_iff in H. destruct H as [H1 H2]. apply N.eqb_eq in H1. subst. f_equal. apply IH. exact H2.
Qed.

Lemma subseqb_sound a b : subseqb a b = true -> subseq a b.
Proof.
  revert b. induction a as [|x a IH]; intros b H; [apply sub_nil|].
  cbn [subseqb] in H. induction b as [|y b IHb]; [discriminate|].
  destruct (list_eqb x y) eqn:E.
  - apply list_eqb_eq in E. subst y. apply sub_take. apply IH. exact H.
  - apply sub_skip. apply IHb. exact H.
Qed.

Lemma app_sentinel_inj (x y : list N) : x ++ [0] = y ++ [0] -> x = y.
Proof. apply app_inv_tail. Qed.

Lemma enc_inj x y : enc x = enc y -> x = y.
Proof.
  destruct x, y; cbn [enc]; intros H; inversion H; subst; try reflexivity.
  - apply app_sentinel_inj in H2. subst. destruct raw, raw0; try reflexivity; discriminate.
  - apply app_sentinel_inj in H2. subst. reflexivity.
  - apply app_sentinel_inj in H1. subst. reflexivity.
Qed.

Lemma stok_list_eqb_eq a b : stok_list_eqb a b = true -> a = b.
Proof.
  revert b. induction a as [|x a IH]; intros [|y b] H; cbn [stok_list_eqb] in H; try discriminate; [reflexivity|].
  apply andb_true_iff in H. destruct H as [H1 H2]. apply list_eqb_eq in H1. apply enc_inj in H1. subst. f_equal. apply IH. exact H2.
Qed.

Lemma prefix_rest_sound x t r : prefix_rest x t = Some r -> t = x ++ r.
Proof.
  revert t. induction x as [|a x IH]; intros t H; cbn [prefix_rest] in H.
  - inversion H. reflexivity.
  - destruct t as [|b t]; [discriminate|]. destruct (N.eqb_spec a b) as [->|]; [|discriminate].
    cbn [app]. f_equal. apply IH. exact H.
Qed.

Lemma find_sub_sound x t r : find_sub x t = Some r -> exists g, t = g ++ x ++ r.
Proof.
  induction t as [|b t IH]; cbn [find_sub]; destruct (prefix_rest x _) as [r0|] eqn:E.
  - intros H. inversion H; subst. exists []. exact (prefix_rest_sound _ _ _ E).
  - discriminate.
  - intros H. inversion H; subst. exists []. exact (prefix_rest_sound _ _ _ E).
  - intros H. destruct (IH H) as [g ->]. exists (b :: g). reflexivity.
Qed.

Lemma embedsb_sound xs t : embedsb xs t = true -> embeds xs t.
Proof.
  revert t. induction xs as [|x xs IH]; intros t H; [apply emb_nil|].
  cbn [embedsb] in H. destruct (find_sub x t) as [r|] eqn:E; [|discriminate].
  destruct (find_sub_sound _ _ _ E) as [g ->]. apply emb_cons. apply IH. exact H.
Qed.

Lemma embeds_prefix xs p t : embeds xs t -> embeds xs (p ++ t).
Proof.
  intros H. destruct H as [t | x xs g r Hr]; [apply emb_nil|].
  replace (p ++ g ++ x ++ r) with ((p ++ g) ++ x ++ r) by (rewrite <- app_assoc; reflexivity).
  apply emb_cons. exact Hr.
Qed.

(* a subsequence of the comment list is embedded: the strict relation implies the one decided *)
Lemma subseq_embedded (a b : list (list N)) : subseq a b -> comments_embedded a b.
Proof.
  unfold comments_embedded. induction 1 as [l | x a b H IH | x a b H IH]; cbn [join_comments flat_map].
  - apply emb_nil.
  - fold (join_comments b).
    replace ((x ++ [10]) ++ join_comments b) with ([] ++ x ++ ([10] ++ join_comments b))
      by (cbn [app]; rewrite <- app_assoc; reflexivity).
    apply emb_cons. apply embeds_prefix. exact IH.
  - fold (join_comments b). apply embeds_prefix. exact IH.
Qed.

Lemma preservedb_sound sin tin sout tout :
  preservedb sin tin sout tout = (true, true) -> preserved sin tin sout tout.
Proof.
  unfold preservedb, preserved. destruct (sig_of (indices 0 sin) tin) as [a ca]. destruct (sig_of (indices 0 sout) tout) as [b cb].
  intros H. assert (stok_list_eqb (normalize a) (normalize b) = true) as H1 by (exact (f_equal fst H)).
  assert (embedsb ca (join_comments cb) = true) as H2 by (exact (f_equal snd H)). split.
  - unfold tok_equiv. apply stok_list_eqb_eq. exact H1.
  - apply embedsb_sound. exact H2.
Qed.
