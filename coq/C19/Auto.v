(* C19 — the lexer model as a position-free, one-scalar-at-a-time automaton that outputs the
   significant token sequence directly.  Every lookahead of token.rs becomes a *pending* mode that the
   next scalar either extends or flushes.  `auto_sig ucls s` is meant to equal
   `fst (sig_of (indices 0 s) toks)` when `lex ucls s = ROk (toks, _, _)` and `None` when lexing aborts;
   this equality is CHECKED by the judge (vm_compute, exact) on every input of the C19 check and on
   lexer mutants, not proved.  NO proofs in this file. *)
From SwayV Require Import Base.Util C16.Model C19.Model.
Open Scope N_scope.

Inductive ectx := CtxS | CtxC1 | CtxC2 (text : list N).

Inductive mode :=
| Ground
(* pending (token-boundary) modes *)
| MSlash                                   (* seen `/` *)
| MIdent (raw : bool) (acc : list N)       (* acc reversed *)
| MR                                       (* seen `r` at identifier start *)
| MUnder (raw : bool)                      (* seen `_` at identifier start *)
| MZero                                    (* seen `0` *)
| MDigits (radix : N) (acc : list N)
| MSuffix (acc suf : list N)
(* inner modes *)
| MRHash                                   (* seen `r#` *)
| MLine (acc : list N)                     (* after `//` *)
| MBlock (n : nat) | MBStar (n : nat) | MBSlash (n : nat)
| MPrefix (radix : N) (acc : list N)       (* after 0x / 0o / 0b: a digit must follow *)
| MStr (acc : list N)
| MChar0 (acc : list N) | MChar1 (acc : list N) | MCharRest (text : list N)
| MEsc (c : ectx) (acc : list N) | MX1 (c : ectx) (acc : list N) | MX2 (c : ectx) (acc : list N) (h : N)
| MU0 (c : ectx) (acc : list N) | MUD (c : ectx) (acc : list N) (v : N).

Record ast := { a_mode : mode; a_stack : list N; a_out : list stok }.   (* a_out reversed *)
Definition astate := option ast.                                         (* None: lexing aborted *)

Definition emit (s : ast) (t : stok) : ast := {| a_mode := Ground; a_stack := a_stack s; a_out := t :: a_out s |}.
Definition goto (s : ast) (m : mode) : ast := {| a_mode := m; a_stack := a_stack s; a_out := a_out s |}.

Section Auto.
  Variable ucls : N -> N.
  Notation xidc := (is_xid_continue ucls).
  Notation xids := (is_xid_start ucls).

  Definition doc_text (acc : list N) : option (list N) :=
    let body := rev acc in
    let isd := match body with
               | c2 :: rest => (c2 =? 33) || ((c2 =? 47) && negb (match rest with c3 :: _ => c3 =? 47 | [] => false end))
               | [] => false
               end in
    if isd then Some (rstrip (47 :: 47 :: body)) else None.

  (* is this a pending mode, and does scalar c extend its token *)
  Definition pending (m : mode) : bool :=
    match m with MSlash | MIdent _ _ | MR | MUnder _ | MZero | MDigits _ _ | MSuffix _ _ | Ground => true | _ => false end.
  Definition extends (m : mode) (c : N) : bool :=
    match m with
    | MSlash => (c =? 47) || (c =? 42)
    | MIdent _ _ | MUnder _ | MZero | MDigits _ _ | MSuffix _ _ => xidc c
    | MR => (c =? 35) || xidc c
    | _ => false
    end.

  (* the pending token is complete: emit it and return to Ground *)
  Definition flush (s : ast) : ast :=
    match a_mode s with
    | MSlash => emit s (SPu 47)
    | MIdent raw acc => emit s (SId raw (rev acc))
    | MR => emit s (SId false [114])
    | MUnder _ => emit s (SPu 95)
    | MZero => emit s (SLit 2 [48])
    | MDigits _ acc => emit s (SLit 2 (rev acc))
    | MSuffix acc suf =>
      match int_suffix (rev suf) with
      | Some _ => emit s (SLit 2 (rev acc ++ rev suf))
      | None => emit s (SLit 2 (rev acc))
      end
    | _ => goto s Ground
    end.

  (* one scalar in Ground mode: the dispatch of lex_commented's loop body *)
  Definition ground (s : ast) (c : N) : astate :=
    if is_ws ucls c then Some s
    else if c =? 47 then Some (goto s MSlash)
    else if xids c || (c =? 95) then
      Some (goto s (if c =? 114 then MR else if c =? 95 then MUnder false else MIdent false [c]))
    else match open_delim c with
    | Some d => Some {| a_mode := Ground; a_stack := d :: a_stack s; a_out := SOp d :: a_out s |}
    | None =>
    match close_delim c with
    | Some _ =>
      match a_stack s with
      | [] => Some s
      | od :: st => Some {| a_mode := Ground; a_stack := st; a_out := SCl od :: a_out s |}
      end
    | None =>
      if c =? 34 then Some (goto s (MStr [34]))
      else if c =? 39 then Some (goto s (MChar0 [39]))
      else if is_digit c then Some (goto s (if c =? 48 then MZero else MDigits 10 [c]))
      else if is_punct c then Some (emit s (SPu c))
      else Some s
    end end.

  (* an escape is complete: back to the literal *)
  Definition esc_done (s : ast) (cx : ectx) (acc : list N) : astate :=
    match cx with
    | CtxS => Some (goto s (MStr acc))
    | CtxC1 => Some (goto s (MChar1 acc))
    | CtxC2 text => Some (goto s (MCharRest text))
    end.

  Definition extend (s : ast) (c : N) : astate :=   (* pending mode, extends = true *)
    match a_mode s with
    | MSlash => Some (goto s (if c =? 47 then MLine [] else MBlock 1))
    | MIdent raw acc => Some (goto s (MIdent raw (c :: acc)))
    | MR => Some (goto s (if c =? 35 then MRHash else MIdent false [c; 114]))
    | MUnder raw => Some (goto s (MIdent raw [c; 95]))
    | MZero =>
      Some (goto s (if c =? 120 then MPrefix 16 [c; 48] else if c =? 111 then MPrefix 8 [c; 48]
                    else if c =? 98 then MPrefix 2 [c; 48]
                    else if (c =? 95) || is_digit c then MDigits 10 [c; 48] else MSuffix [48] [c]))
    | MDigits radix acc =>
      Some (goto s (if c =? 95 then MDigits radix (c :: acc)
                    else match to_digit radix c with Some _ => MDigits radix (c :: acc) | None => MSuffix acc [c] end))
    | MSuffix acc suf => Some (goto s (MSuffix acc (c :: suf)))
    | _ => Some s
    end.

  Definition step (s : ast) (c : N) : astate :=
    let m := a_mode s in
    if pending m then (if extends m c then extend s c else ground (flush s) c)
    else match m with
    | MRHash =>
      if xids c || (c =? 95) then Some (goto s (if c =? 95 then MUnder true else MIdent true [c]))
      else Some (goto s Ground)
    | MLine acc =>
      if c =? 10 then
        match doc_text acc with Some t => Some (emit s (SDoc t)) | None => Some (goto s Ground) end
      else Some (goto s (MLine (c :: acc)))
    | MBlock n => Some (goto s (if c =? 42 then MBStar n else if c =? 47 then MBSlash n else MBlock n))
    | MBStar n => Some (goto s (if c =? 47 then match n with S (S k) => MBlock (S k) | _ => Ground end else MBlock n))
    | MBSlash n => Some (goto s (if c =? 42 then MBlock (S n) else MBlock n))
    | MPrefix radix acc =>
      match to_digit radix c with Some _ => Some (goto s (MDigits radix (c :: acc))) | None => None end
    | MStr acc =>
      if c =? 92 then Some (goto s (MEsc CtxS (c :: acc)))
      else if c =? 34 then Some (emit s (SLit 0 (lit_value (rev (c :: acc)))))
      else Some (goto s (MStr (c :: acc)))
    | MChar0 acc =>
      if c =? 92 then Some (goto s (MEsc CtxC1 (c :: acc))) else Some (goto s (MChar1 (c :: acc)))
    | MChar1 acc =>
      if c =? 39 then Some (emit s (SLit 1 (lit_value (rev (c :: acc)))))
      else if c =? 92 then Some (goto s (MEsc (CtxC2 (rev (c :: acc))) []))
      else Some (goto s (MCharRest (rev (c :: acc))))
    | MCharRest text =>
      if c =? 39 then Some (emit s (SLit 0 (lit_value text))) else Some s
    | MEsc cx acc =>
      if (c =? 34) || (c =? 39) || (c =? 110) || (c =? 114) || (c =? 116) || (c =? 92) || (c =? 48)
      then esc_done s cx (c :: acc)
      else if c =? 120 then Some (goto s (MX1 cx (c :: acc)))
      else if c =? 117 then Some (goto s (MU0 cx (c :: acc)))
      else None
    | MX1 cx acc => Some (goto s (MX2 cx (c :: acc) c))
    | MX2 cx acc h =>
      match to_digit 16 h, to_digit 16 c with
      | Some _, Some _ => esc_done s cx (c :: acc)
      | _, _ => None
      end
    | MU0 cx acc => if c =? 123 then Some (goto s (MUD cx (c :: acc) 0)) else None
    | MUD cx acc v =>
      if c =? 125 then
        (if 4294967296 <=? v then None else if valid_scalar v then esc_done s cx (c :: acc) else None)
      else match to_digit 16 c with Some d => Some (goto s (MUD cx (c :: acc) (v * 16 + d))) | None => None end
    | _ => Some s
    end.

  Definition astep (st : astate) (c : N) : astate := match st with Some s => step s c | None => None end.
  Definition run (st : astate) (l : list N) : astate := fold_left astep l st.
  Definition init : astate := Some {| a_mode := Ground; a_stack := []; a_out := [] |}.

  (* end of input: flush / recover, then close the unclosed delimiters *)
  Definition finalize (st : astate) : option (list stok) :=
    match st with
    | None => None
    | Some s =>
      let m := a_mode s in
      let s' := if pending m then Some (flush s)
                else match m with
                     | MRHash => Some (emit s (SId true [114; 35]))
                     | MLine acc => match doc_text acc with Some t => Some (emit s (SDoc t)) | None => Some s end
                     | MBlock _ | MBStar _ | MBSlash _ => Some s
                     | _ => None
                     end in
      match s' with
      | Some s'' => Some (rev (rev_append (map SCl (a_stack s'')) (a_out s'')))
      | None => None
      end
    end.

  Definition auto_sig (s : list N) : option (list stok) := finalize (run init s).

  (* The non-fusing side condition of whitespace irrelevance, decidable: after `pre` the lexer is at a
     token boundary (not inside a literal, comment, escape, `r#`, `0x`), and the scalar `c` that
     follows does not extend the token that is pending there. *)
  Definition nonfusing (pre : list N) (c : N) : bool :=
    match run init pre with
    | Some s => pending (a_mode s) && negb (extends (a_mode s) c)
    | None => false
    end.
End Auto.
