(* C19 — executable definitions on top of the C16 lexer model's token streams: the significant
   token sequence of a lexed text, the cosmetic normalisation of the formatter, comment texts.
   NO proofs in this file. *)
From SwayV Require Import Base.Util C16.Model.
Open Scope N_scope.

(* significant token: what the parser sees, by text / value, without positions and spacing *)
Inductive stok :=
| SId (raw : bool) (t : list N)      (* identifier text *)
| SPu (c : N)                        (* punctuation char; Joint/Alone spacing is NOT compared *)
| SLit (k : N) (v : list N)          (* 0 string / 1 char: unescaped VALUE incl. quotes; 2 int: source text *)
| SOp (d : N) | SCl (d : N)          (* delimiters *)
| SDoc (t : list N).                 (* doc comment text, trailing whitespace trimmed *)

(* ---- text of a span, reading the source left to right (token streams are in source order) *)
Fixpoint skip_to (r : list ci) (a : N) : list ci :=
  match r with [] => [] | (o, c) :: r' => if o <? a then skip_to r' a else r end.
Fixpoint take_to (r : list ci) (b : N) : list N * list ci :=
  match r with
  | [] => ([], [])
  | (o, c) :: r' => if o <? b then let '(t, r'') := take_to r' b in (c :: t, r'') else ([], r)
  end.
Definition text_at (r : list ci) (sp : span) : list N * list ci := take_to (skip_to r (fst sp)) (snd sp).

Definition rstrip (t : list N) : list N :=
  rev ((fix go (l : list N) := match l with c :: l' => if ascii_ws c then go l' else l | [] => [] end) (rev t)).

(* ---- literal values: the escapes of parse_escape_code *)
Definition hexv (c : N) : N := match to_digit 16 c with Some d => d | None => 0 end.
Fixpoint udigits (l : list N) (v : N) : N * list N :=
  match l with
  | [] => (v, [])
  | c :: l' => if c =? 125 then (v, l') else udigits l' (v * 16 + hexv c)
  end.
Fixpoint unescape (fuel : nat) (l : list N) : list N :=
  match fuel with
  | O => l
  | S f =>
    match l with
    | [] => []
    | c :: l' =>
      if c =? 92 then
        match l' with
        | [] => [c]
        | e :: l'' =>
          if e =? 110 then 10 :: unescape f l''
          else if e =? 114 then 13 :: unescape f l''
          else if e =? 116 then 9 :: unescape f l''
          else if e =? 48 then 0 :: unescape f l''
          else if e =? 120 then
            match l'' with h :: lo :: l3 => (hexv h * 16 + hexv lo) :: unescape f l3 | _ => l end
          else if e =? 117 then
            match l'' with
            | b :: l3 => if b =? 123 then let '(v, l4) := udigits l3 0 in v :: unescape f l4 else l
            | [] => l
            end
          else e :: unescape f l''     (* backslash, double quote, quote *)
        end
      else c :: unescape f l'
    end
  end.
Definition lit_value (t : list N) : list N := unescape (S (length t)) t.

(* significant tokens and comment texts of a lexed text (tokens in source order) *)
Fixpoint sig_of (r : list ci) (ts : list tok) : list stok * list (list N) :=
  match ts with
  | [] => ([], [])
  | t :: ts' =>
    match t with
    | TIdent raw sp => let '(x, r') := text_at r sp in let '(a, b) := sig_of r' ts' in (SId raw x :: a, b)
    | TOpen d => let '(a, b) := sig_of r ts' in (SOp d :: a, b)
    | TGroup d _ _ => let '(a, b) := sig_of r ts' in (SCl d :: a, b)
    | TPunct c _ _ => let '(a, b) := sig_of r ts' in (SPu c :: a, b)
    | TStr sp => let '(x, r') := text_at r sp in let '(a, b) := sig_of r' ts' in (SLit 0 (lit_value x) :: a, b)
    | TChar sp => let '(x, r') := text_at r sp in let '(a, b) := sig_of r' ts' in (SLit 1 (lit_value x) :: a, b)
    | TBool sp => let '(x, r') := text_at r sp in let '(a, b) := sig_of r' ts' in (SId false x :: a, b)
    | TInt sp ty =>
      let e := match ty with Some (_, sp2) => snd sp2 | None => snd sp end in
      let '(x, r') := text_at r (fst sp, e) in let '(a, b) := sig_of r' ts' in (SLit 2 x :: a, b)
    | TComment _ sp => let '(x, r') := text_at r sp in let '(a, b) := sig_of r' ts' in (a, rstrip x :: b)
    | TDoc _ sp _ => let '(x, r') := text_at r sp in let '(a, b) := sig_of r' ts' in (SDoc (rstrip x) :: a, rstrip x :: b)
    end
  end.

(* ---- the cosmetic normalisation *)
Definition is_pu (c : N) (t : stok) : bool := match t with SPu x => x =? c | _ => false end.
Definition is_cl (t : stok) : bool := match t with SCl _ => true | _ => false end.
Definition is_op (d : N) (t : stok) : bool := match t with SOp x => x =? d | _ => false end.

(* inner tokens up to the matching close, the close's delimiter, the rest *)
Fixpoint split_group (l : list stok) (depth : nat) (acc : list stok) : option (list stok * N * list stok) :=
  match l with
  | [] => None
  | SCl d :: r => match depth with O => Some (rev acc, d, r) | S k => split_group r k (SCl d :: acc) end
  | SOp d :: r => split_group r (S depth) (SOp d :: acc)
  | x :: r => split_group r depth (x :: acc)
  end.

(* split at top-level commas *)
Fixpoint split_commas (l : list stok) (depth : nat) (cur : list stok) : list (list stok) :=
  match l with
  | [] => [rev cur]
  | SOp d :: r => split_commas r (S depth) (SOp d :: cur)
  | SCl d :: r => split_commas r (pred depth) (SCl d :: cur)
  | x :: r => if is_pu 44 x && Nat.eqb depth 0 then rev cur :: split_commas r depth [] else split_commas r depth (x :: cur)
  end.

Definition enc (t : stok) : list N :=
  match t with
  | SId r x => 1 :: (if r then 1 else 0) :: x ++ [0]
  | SPu c => [2; c]
  | SLit k v => 3 :: k :: v ++ [0]
  | SOp d => [4; d]
  | SCl d => [5; d]
  | SDoc x => 6 :: x ++ [0]
  end.
Fixpoint lex_leb (a b : list N) : bool :=
  match a, b with
  | [], _ => true
  | _ :: _, [] => false
  | x :: a', y :: b' => if x <? y then true else if y <? x then false else lex_leb a' b'
  end.
Definition item_leb (a b : list stok) : bool := lex_leb (flat_map enc a) (flat_map enc b).
Fixpoint insert_item (x : list stok) (l : list (list stok)) : list (list stok) :=
  match l with [] => [x] | y :: l' => if item_leb x y then x :: l else y :: insert_item x l' end.
Definition sort_items (l : list (list stok)) : list (list stok) := fold_right insert_item [] l.
Fixpoint join_commas (l : list (list stok)) : list stok :=
  match l with [] => [] | [x] => x | x :: l' => x ++ SPu 44 :: join_commas l' end.
Definition is_self (it : list stok) : bool :=
  match it with [SId _ t] => list_eqb t [115; 101; 108; 102] | _ => false end.
Definition nonempty {A} (l : list A) : bool := match l with [] => false | _ => true end.

(* a comma at delimiter depth 0 and angle-bracket depth 0 (`<`/`>` nest in type position; the `>`
   of `->` does not close) *)
Fixpoint has_type_comma (l : list stok) (depth angle : nat) (prev_minus : bool) : bool :=
  match l with
  | [] => false
  | SOp _ :: r => has_type_comma r (S depth) angle false
  | SCl _ :: r => has_type_comma r (pred depth) angle false
  | x :: r =>
    if is_pu 44 x && Nat.eqb depth 0 && Nat.eqb angle 0 then true
    else if is_pu 60 x && Nat.eqb depth 0 then has_type_comma r depth (S angle) false
    else if is_pu 62 x && Nat.eqb depth 0 && negb prev_minus then has_type_comma r depth (pred angle) false
    else has_type_comma r depth angle (is_pu 45 x)
  end.

(* `acc` is the output so far, reversed.  Rules:
   N1 a comma directly before a closing delimiter, before `{` or before `;` is dropped
      (trailing commas of lists, match arms, where clauses);
   N2 `::{ items }` (use trees): items sorted; braces of a single non-`self` item dropped;
   N3 (in sig_of) string and char literals are compared by value;
   N4 a parenthesised single type `(T)` after `:`, `->`/`>` or `<` is `T` (the parser itself drops it). *)
Fixpoint norm (fuel : nat) (l : list stok) (acc : list stok) : list stok :=
  match fuel with
  | O => rev_append l acc
  | S f =>
    match l with
    | [] => acc
    | SOp d :: r =>
      match split_group r 0 [] with
      | None => norm f r (SOp d :: acc)
      | Some (inner, d', rest) =>
        let inner' := rev (norm f inner []) in
        let inner' := match rev inner' with x :: t => if is_pu 44 x then rev t else inner' | [] => inner' end in
        let after_colons := match acc with x :: y :: _ => is_pu 58 x && is_pu 58 y | _ => false end in
        let type_pos := match acc with x :: _ => is_pu 58 x || is_pu 62 x || is_pu 60 x | [] => false end in
        let items := split_commas inner' 0 [] in
        if (d =? 1) && after_colons then
          match sort_items (filter nonempty items) with
          | [it] => if is_self it then norm f rest (SCl d' :: rev_append it (SOp d :: acc))
                    else norm f rest (rev_append it acc)
          | its => norm f rest (SCl d' :: rev_append (join_commas its) (SOp d :: acc))
          end
        else if (d =? 0) && type_pos && nonempty inner' && negb (has_type_comma inner' 0 0 false) then
          norm f rest (rev_append inner' acc)
        else norm f rest (SCl d' :: rev_append inner' (SOp d :: acc))
      end
    | x :: r =>
      if is_pu 44 x && match r with y :: _ => is_cl y || is_op 1 y || is_pu 59 y | [] => false end
      then norm f r acc
      else norm f r (x :: acc)
    end
  end.
Definition normalize (l : list stok) : list stok := rev (norm (S (length l)) l []).

Fixpoint stok_list_eqb (a b : list stok) : bool :=
  match a, b with
  | [], [] => true
  | x :: a', y :: b' => list_eqb (enc x) (enc y) && stok_list_eqb a' b'
  | _, _ => false
  end.

(* greedy subsequence test on comment texts *)
Fixpoint subseqb (a b : list (list N)) : bool :=
  match a with
  | [] => true
  | x :: a' =>
    (fix find (b : list (list N)) : bool :=
       match b with
       | [] => false
       | y :: b' => if list_eqb x y then subseqb a' b' else find b'
       end) b
  end.

(* ---- comments by text: the input's comments occur, in order, as substrings of the output's
   comment text (a formatter may merge `{ // a` and `/* b */` into `// a /* b */`). *)
Fixpoint prefix_rest (x t : list N) : option (list N) :=   (* t = x ++ rest *)
  match x, t with
  | [], _ => Some t
  | a :: x', b :: t' => if a =? b then prefix_rest x' t' else None
  | _ :: _, [] => None
  end.
Fixpoint find_sub (x t : list N) : option (list N) :=      (* text after the first occurrence of x in t *)
  match prefix_rest x t with
  | Some r => Some r
  | None => match t with [] => None | _ :: t' => find_sub x t' end
  end.
Fixpoint embedsb (xs : list (list N)) (t : list N) : bool :=
  match xs with
  | [] => true
  | x :: xs' => match find_sub x t with Some r => embedsb xs' r | None => false end
  end.
Definition join_comments (cs : list (list N)) : list N := flat_map (fun c => c ++ [10]) cs.
