(* C19 — property theorems only (level: other/partial: the formatter itself is not modelled; the
   property is decided per input on the real formatter with these relations). *)
From SwayV Require Import Base.Util C16.Model C16.Judge C19.Model C19.Spec C19.Proofs C19.Comments C19.CommentsProofs C19.Auto C19.AutoProofs C19.Judge.
Open Scope N_scope.

Theorem C19_tok_equiv_equivalence :
  (forall a, tok_equiv a a) /\ (forall a b, tok_equiv a b -> tok_equiv b a) /\
  (forall a b c, tok_equiv a b -> tok_equiv b c -> tok_equiv a c).
Proof. split; [exact tok_equiv_refl | split; [exact tok_equiv_sym | exact tok_equiv_trans]]. Qed.
Print Assumptions C19_tok_equiv_equivalence.

Theorem C19_comments_subseq_preorder :
  (forall c, comments_subseq c c) /\ (forall a b c, comments_subseq a b -> comments_subseq b c -> comments_subseq a c).
Proof. split; [exact subseq_refl | exact subseq_trans]. Qed.
Print Assumptions C19_comments_subseq_preorder.

(* order preservation: two comments in this order in the input are in this order in the output *)
Theorem C19_comments_order_preserved : forall (cin cout : list (list N)) x y l1 l2 l3,
  comments_subseq cin cout -> cin = l1 ++ x :: l2 ++ y :: l3 -> exists m1 m2 m3, cout = m1 ++ x :: m2 ++ y :: m3.
Proof. intros cin cout x y l1 l2 l3. apply subseq_order. Qed.
Print Assumptions C19_comments_order_preserved.

(* the relation that is decided (comment texts embedded in order) is implied by the strict one *)
Theorem C19_subseq_implies_embedded : forall a b, comments_subseq a b -> comments_embedded a b.
Proof. exact subseq_embedded. Qed.
Print Assumptions C19_subseq_implies_embedded.

(* the boolean decision the judge evaluates is sound for the property *)
Theorem C19_decision_sound : forall sin tin sout tout,
  preservedb sin tin sout tout = (true, true) -> preserved sin tin sout tout.
Proof. exact preservedb_sound. Qed.
Print Assumptions C19_decision_sound.

(* CommentMap::from_src + comments_between as used by write_comments: if the printers query the
   consecutive ranges (a0,a1), (a1,a2), ..., (a_{n-1},a_n) with a0 <= a1 <= ... <= a_n, the map is
   well-formed (non-empty, disjoint, ordered spans), every comment lies in [a0, a_n] and no range
   point falls strictly inside a comment, then the concatenated query results are exactly the map:
   every comment is emitted exactly once, in order. *)
Theorem C19_comments_partition : forall rest a0 a1 cm,
  cm_wf cm -> sorted_pts (a0 :: a1 :: rest) -> covered cm a0 (last_pt a1 rest) ->
  no_straddle cm (a0 :: a1 :: rest) -> emitted cm (a0 :: a1 :: rest) = cm.
Proof. exact comments_partition_gen. Qed.
Print Assumptions C19_comments_partition.

(* what the comment-map judgement 0 certifies about the REAL CommentMap of an input *)
Theorem C19_cmap_judge_sound : forall tin real,
  cmap_code tin real = 0 -> real = comment_map tin /\ cm_wf (comment_map tin).
Proof.
  intros tin real. unfold cmap_code.
  destruct (cm_eqb _ _) eqn:E; cbn [negb]; [|discriminate].
  destruct (cm_wfb _) eqn:W; [|discriminate]. intros _.
  apply cm_eqb_eq in E. split; [symmetry; exact E|]. rewrite E. apply cm_wfb_sound. exact W.
Qed.
Print Assumptions C19_cmap_judge_sound.

Example C19_example_partition :
  emitted [((3,8),0); ((10,12),2); ((20,30),1)] [0; 9; 9; 15; 40] = [((3,8),0); ((10,12),2); ((20,30),1)] /\
  emitted [((3,8),0); ((10,12),2); ((20,30),1)] [0; 11; 40] = [((3,8),0); ((20,30),1)].   (* 11 straddles: lost *)
Proof. vm_compute. split; reflexivity. Qed.

(* Whitespace irrelevance.  `auto_sig ucls s` is the significant-token sequence of the lexer model
   computed by its position-free automaton form (C19/Auto.v; equality with `sig_of` of the model's and
   of the real lexer's stream is checked exactly, per input, by the judge - not proved).
   Side condition (decidable, `nonfusing ucls pre c`): after `pre` the lexer is at a token boundary
   (mode Ground or a pending `/`, identifier, `r`, `_`, `0`, digits, suffix - not inside a literal,
   comment, escape, `r#` or `0x`) and the next scalar `c` does not extend the pending token
   (`/`: not `/` or `*`; identifier, `_`, numbers: not XID_Continue; `r`: neither `#` nor XID_Continue).
   Then inserting - or, read right to left, removing - any run of ASCII whitespace there leaves the
   significant tokens, hence the tok_equiv class, unchanged; abort behaviour included (both None). *)
Theorem C19_sig_whitespace_irrelevant : forall ucls pre ws c post,
  nonfusing ucls pre c = true -> Forall (fun w => ascii_ws w = true) ws ->
  auto_sig ucls (pre ++ ws ++ c :: post) = auto_sig ucls (pre ++ c :: post).
Proof. exact ws_irrelevant. Qed.
Print Assumptions C19_sig_whitespace_irrelevant.

Theorem C19_tok_equiv_whitespace_irrelevant : forall ucls pre ws c post a b,
  nonfusing ucls pre c = true -> Forall (fun w => ascii_ws w = true) ws ->
  auto_sig ucls (pre ++ ws ++ c :: post) = Some a -> auto_sig ucls (pre ++ c :: post) = Some b -> tok_equiv a b.
Proof.
  intros ucls pre ws c post a b Hn Hw Ha Hb. rewrite (ws_irrelevant ucls pre ws c post Hn Hw) in Ha.
  rewrite Ha in Hb. inversion Hb. apply tok_equiv_refl.
Qed.
Print Assumptions C19_tok_equiv_whitespace_irrelevant.

(* whitespace after the last token *)
Theorem C19_whitespace_trailing : forall ucls s ws,
  (match run ucls (init) s with Some st => pending (a_mode st) | None => false end) = true ->
  Forall (fun w => ascii_ws w = true) ws -> auto_sig ucls (s ++ ws) = auto_sig ucls s.
Proof. exact ws_trailing. Qed.
Print Assumptions C19_whitespace_trailing.

(* the side condition really discriminates: `a|b` fuses, `a|+`, `1|+`, `/|a` do not, `"a|b"` is inside a literal,
   and without it the statement is false (`a b` vs `ab`) *)
Example C19_example_nonfusing :
  nonfusing (fun _ => 0) [97] 98 = false /\ nonfusing (fun _ => 0) [97] 43 = true /\
  nonfusing (fun _ => 0) [49] 43 = true /\ nonfusing (fun _ => 0) [47] 97 = true /\
  nonfusing (fun _ => 0) [47] 47 = false /\ nonfusing (fun _ => 0) [34; 97] 98 = false /\
  auto_sig (fun _ => 0) [97; 32; 98] <> auto_sig (fun _ => 0) [97; 98].
Proof. vm_compute. repeat split; try reflexivity. discriminate. Qed.
(* the automaton agrees with the lexer model on a text with every token class *)
Example C19_example_auto_is_model :
  let s := [102;110;32;114;35;120;40;41;123;32;34;97;92;116;34;32;47;42;99;42;47;32;48;120;49;70;117;56;32;39;98;39;32;47;47;47;100;10;95;32;125;32;40] in
  match lex (fun _ => 0) s with
  | ROk (toks, _, _) => auto_sig (fun _ => 0) s = Some (fst (sig_of (indices 0 s) toks))
  | _ => False
  end.
Proof. vm_compute. reflexivity. Qed.

(* Non-vacuity: trailing comma, sorted single-brace import, escaped literal by value. *)
Example C19_example_equiv :
  tok_equiv [SId false [117]; SId false [97]; SPu 58; SPu 58; SOp 1; SId false [98]; SCl 1; SPu 59; SOp 0; SId false [120]; SPu 44; SCl 0]
            [SId false [117]; SId false [97]; SPu 58; SPu 58; SId false [98]; SPu 59; SOp 0; SId false [120]; SCl 0].
Proof. vm_compute. reflexivity. Qed.
Example C19_example_not_equiv : ~ tok_equiv [SId false [97]; SPu 43; SId false [98]] [SId false [98]; SPu 43; SId false [97]].
Proof. vm_compute. discriminate. Qed.
Example C19_example_value : lit_value [34; 97; 92; 116; 98; 34] = [34; 97; 9; 98; 34].
Proof. vm_compute. reflexivity. Qed.
