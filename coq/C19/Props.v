(* C19 — property theorems only (level: other/partial: the formatter itself is not modelled; the
   property is decided per input on the real formatter with these relations). *)
From SwayV Require Import Base.Util C16.Model C16.Judge C19.Model C19.Spec C19.Proofs C19.Comments C19.CommentsProofs C19.Judge.
Open Scope N_scope.

Theorem C19_tok_equiv_equivalence :
  (forall a, tok_equiv a a) /\ (forall a b, tok_equiv a b -> tok_equiv b a) /\
  (forall a b c, tok_equiv a b -> tok_equiv b c -> tok_equiv a c).
Proof. split; [exact tok_equiv_refl | split; [exact tok_equiv_sym | exact tok_equiv_trans]]. Qed.
Print Assumptions C19_tok_equiv_equivalence.

Theorem C19_comments_subseq_preorder :
  (forall c, comments_subseq c c) /\ (forall a b c, comments_subseq a b -> comments_subseq b c -> comments_subseq a c).
Proof. split; [exact subseq_refl | exact subseq_trans]. Qed.
Print Assumptions C19_comments_subseq_preorder.

(* order preservation: two comments in this order in the input are in this order in the output *)
Theorem C19_comments_order_preserved : forall (cin cout : list (list N)) x y l1 l2 l3,
  comments_subseq cin cout -> cin = l1 ++ x :: l2 ++ y :: l3 -> exists m1 m2 m3, cout = m1 ++ x :: m2 ++ y :: m3.
Proof. intros cin cout x y l1 l2 l3. apply subseq_order. Qed.
Print Assumptions C19_comments_order_preserved.

(* the relation that is decided (comment texts embedded in order) is implied by the strict one *)
Theorem C19_subseq_implies_embedded : forall a b, comments_subseq a b -> comments_embedded a b.
Proof. exact subseq_embedded. Qed.
Print Assumptions C19_subseq_implies_embedded.

(* the boolean decision the judge evaluates is sound for the property *)
Theorem C19_decision_sound : forall sin tin sout tout,
  preservedb sin tin sout tout = (true, true) -> preserved sin tin sout tout.
Proof. exact preservedb_sound. Qed.
Print Assumptions C19_decision_sound.

(* CommentMap::from_src + comments_between as used by write_comments: if the printers query the
   consecutive ranges (a0,a1), (a1,a2), ..., (a_{n-1},a_n) with a0 <= a1 <= ... <= a_n, the map is
   well-formed (non-empty, disjoint, ordered spans), every comment lies in [a0, a_n] and no range
   point falls strictly inside a comment, then the concatenated query results are exactly the map:
   every comment is emitted exactly once, in order. *)
Theorem C19_comments_partition : forall rest a0 a1 cm,
  cm_wf cm -> sorted_pts (a0 :: a1 :: rest) -> covered cm a0 (last_pt a1 rest) ->
  no_straddle cm (a0 :: a1 :: rest) -> emitted cm (a0 :: a1 :: rest) = cm.
Proof. exact comments_partition_gen. Qed.
Print Assumptions C19_comments_partition.

(* what the comment-map judgement 0 certifies about the REAL CommentMap of an input *)
Theorem C19_cmap_judge_sound : forall tin real,
  cmap_code tin real = 0 -> real = comment_map tin /\ cm_wf (comment_map tin).
Proof.
  intros tin real. unfold cmap_code.
  destruct (cm_eqb _ _) eqn:E; cbn [negb]; [|discriminate].
  destruct (cm_wfb _) eqn:W; [|discriminate]. intros _.
  apply cm_eqb_eq in E. split; [symmetry; exact E|]. rewrite E. apply cm_wfb_sound. exact W.
Qed.
Print Assumptions C19_cmap_judge_sound.

Example C19_example_partition :
  emitted [((3,8),0); ((10,12),2); ((20,30),1)] [0; 9; 9; 15; 40] = [((3,8),0); ((10,12),2); ((20,30),1)] /\
  emitted [((3,8),0); ((10,12),2); ((20,30),1)] [0; 11; 40] = [((3,8),0); ((20,30),1)].   (* 11 straddles: lost *)
Proof. vm_compute. split; reflexivity. Qed.

(* Non-vacuity: trailing comma, sorted single-brace import, escaped literal by value. *)
Example C19_example_equiv :
  tok_equiv [SId false [117]; SId false [97]; SPu 58; SPu 58; SOp 1; SId false [98]; SCl 1; SPu 59; SOp 0; SId false [120]; SPu 44; SCl 0]
            [SId false [117]; SId false [97]; SPu 58; SPu 58; SId false [98]; SPu 59; SOp 0; SId false [120]; SCl 0].
Proof. vm_compute. reflexivity. Qed.
Example C19_example_not_equiv : ~ tok_equiv [SId false [97]; SPu 43; SId false [98]] [SId false [98]; SPu 43; SId false [97]].
Proof. vm_compute. discriminate. Qed.
Example C19_example_value : lit_value [34; 97; 92; 116; 98; 34] = [34; 97; 9; 98; 34].
Proof. vm_compute. reflexivity. Qed.
