(* C19 — per-case judgement of (input, formatted output) pairs (evaluated with vm_compute). *)
From Coq Require Import Uint63.
From SwayV Require Import Base.Util C16.Model C16.Judge C19.Model C19.Spec C19.Comments C19.Auto.
Open Scope N_scope.

Fixpoint first_diff (a b : list stok) (i : N) : N :=
  match a, b with
  | x :: a', y :: b' => if C16.Model.list_eqb (enc x) (enc y) then first_diff a' b' (i + 1) else i
  | _, _ => i
  end.

(* codes: 0 preserved | 1 not applicable (input does not format: parse error) |
          2 VIOLATION formatted text does not lex/parse | 3 VIOLATION token sequences differ after normalisation |
          4 VIOLATION a comment was lost or reordered | 5 the formatter panicked (no output) |
          6 the input itself does not lex although it formatted (harness problem) |
          7 preserved, but comments were merged or re-split (every comment text still present in order)
   second component: index of the first differing normalised token (code 3) *)
Definition judge (status : N) (sin : list N) (lin : impl_lex) (sout : list N) (lout : impl_lex) (pout : N) : N * N :=
  if status =? 1 then (1, 0)
  else if status =? 2 then (5, 0)
  else match lin with
       | ILexOk tin _ _ =>
         match lout with
         | ILexOk tout _ errs =>
           if negb (pout =? 1) || nonempty errs then (2, 0)
           else
             let '(a, ca) := sig_of (indices 0 sin) tin in
             let '(b, cb) := sig_of (indices 0 sout) tout in
             let na := normalize a in let nb := normalize b in
             if negb (stok_list_eqb na nb) then (3, first_diff na nb 0)
             else if negb (embedsb ca (join_comments cb)) then (4, 0)
             else if negb (subseqb ca cb) then (7, 0)
             else (0, 0)
         | _ => (2, 0)
         end
       | _ => (6, 0)
       end.

(* ---- CommentMap correspondence: the real map's entries (BTreeMap order) against the model
   (comments of the lexed stream in source order), and well-formedness (premise of the partition theorem)
   codes: 0 equal and well-formed | 1 differ | 2 equal but not well-formed | 3 no real map (lexing failed) *)
Inductive xcmap := XCmap (l : list (int * int)) | XCmapNone.
Definition cmap_code (tin : list tok) (real : list centry) : N :=
  if negb (cm_eqb (comment_map tin) real) then 1 else if cm_wfb real then 0 else 2.
Definition judge_cmap (lin : impl_lex) (x : xcmap) : N :=
  match x, lin with
  | XCmap l, ILexOk tin _ _ => cmap_code tin (map (fun e => (sp_of (fst e), n_of (snd e))) l)
  | _, _ => 3
  end.

(* ---- automaton correspondence: auto_sig = significant tokens of the real lexer's stream
   codes: 0 equal (both abort, or same sequence) | 1 differ | 3 the real lexer panicked *)
Definition auto_code (tab : list (N * N)) (s : list N) (il : impl_lex) : N :=
  let a := auto_sig (ucls_of tab) s in
  match il with
  | ILexPanic => 3
  | ILexErr _ => match a with None => 0 | Some _ => 1 end
  | ILexOk ts _ _ =>
    match a with
    | Some x => if stok_list_eqb x (fst (sig_of (indices 0 s) ts)) then 0 else 1
    | None => 1
    end
  end.
Definition acase := (list int * list (int * int) * ximpl_lex)%type.
Definition auto_judge_all (cs : list acase) : list N :=
  map (fun c => match c with (si, tab, li) =>
         auto_code (map (fun x => (n_of (fst x), n_of (snd x))) tab) (scalars_of si) (lex_of li) end) cs.

Definition case := (int * list int * ximpl_lex * list int * ximpl_lex * int * xcmap * list (int * int))%type.
Definition judge_all (cs : list case) : list (N * N * N * N) :=
  map (fun c => match c with (st, si, li, so, lo, po, cm, tab) =>
         (judge (n_of st) (scalars_of si) (lex_of li) (scalars_of so) (lex_of lo) (n_of po), judge_cmap (lex_of li) cm,
          auto_code (map (fun x => (n_of (fst x), n_of (snd x))) tab) (scalars_of si) (lex_of li)) end) cs.
