(* C19 — per-case judgement of (input, formatted output) pairs (evaluated with vm_compute). *)
From Coq Require Import Uint63.
From SwayV Require Import Base.Util C16.Model C16.Judge C19.Model C19.Spec.
Open Scope N_scope.

Fixpoint first_diff (a b : list stok) (i : N) : N :=
  match a, b with
  | x :: a', y :: b' => if C16.Model.list_eqb (enc x) (enc y) then first_diff a' b' (i + 1) else i
  | _, _ => i
  end.

(* codes: 0 preserved | 1 not applicable (input does not format: parse error) |
          2 VIOLATION formatted text does not lex/parse | 3 VIOLATION token sequences differ after normalisation |
          4 VIOLATION a comment was lost or reordered | 5 the formatter panicked (no output) |
          6 the input itself does not lex although it formatted (harness problem) |
          7 preserved, but comments were merged or re-split (every comment text still present in order)
   second component: index of the first differing normalised token (code 3) *)
Definition judge (status : N) (sin : list N) (lin : impl_lex) (sout : list N) (lout : impl_lex) (pout : N) : N * N :=
  if status =? 1 then (1, 0)
  else if status =? 2 then (5, 0)
  else match lin with
       | ILexOk tin _ _ =>
         match lout with
         | ILexOk tout _ errs =>
           if negb (pout =? 1) || nonempty errs then (2, 0)
           else
             let '(a, ca) := sig_of (indices 0 sin) tin in
             let '(b, cb) := sig_of (indices 0 sout) tout in
             let na := normalize a in let nb := normalize b in
             if negb (stok_list_eqb na nb) then (3, first_diff na nb 0)
             else if negb (embedsb ca (join_comments cb)) then (4, 0)
             else if negb (subseqb ca cb) then (7, 0)
             else (0, 0)
         | _ => (2, 0)
         end
       | _ => (6, 0)
       end.

Definition case := (int * list int * ximpl_lex * list int * ximpl_lex * int)%type.
Definition judge_all (cs : list case) : list (N * N) :=
  map (fun c => match c with (st, si, li, so, lo, po) =>
         judge (n_of st) (scalars_of si) (lex_of li) (scalars_of so) (lex_of lo) (n_of po) end) cs.
