From SwayV Require Import Base.Util C16.Model C19.Comments.
Open Scope N_scope.

Lemma between_app l1 l2 a b : between (l1 ++ l2) a b = between l1 a b ++ between l2 a b.
Proof. unfold between. apply filter_app. Qed.

Lemma between_all l a b : covered l a b -> between l a b = l.
Proof.
  unfold between, covered. induction 1 as [|c l [H1 H2] _ IH]; cbn [filter]; [reflexivity|].
  assert (within a b c = true) as -> by (unfold within; apply andb_true_iff; split; apply N.leb_le; assumption).
  rewrite IH. reflexivity.
Qed.

Lemma between_none l a b :
  Forall (fun c => cs c < ce c /\ (b <= cs c \/ ce c <= a)) l -> a <= b -> between l a b = [].
Proof.
  unfold between. induction 1 as [|c l [Hne Hc] _ IH]; intros Hab; cbn [filter]; [reflexivity|].
  assert (within a b c = false) as ->.
  { unfold within. destruct (N.leb_spec a (cs c)); destruct (N.leb_spec (ce c) b); cbn [andb]; try reflexivity. exfalso. lia. }
  apply IH. exact Hab.
Qed.

Lemma cm_wf_nonempty l : cm_wf l -> Forall (fun c => cs c < ce c) l.
Proof. induction 1; constructor; assumption. Qed.

Lemma cm_wfb_sound l : cm_wfb l = true -> cm_wf l.
Proof.
  induction l as [|c l IH]; intros H; [constructor|]. cbn [cm_wfb] in H.
  apply andb_true_iff in H. destruct H as [H H3]. apply andb_true_iff in H. destruct H as [H1 H2].
  apply N.ltb_lt in H1. specialize (IH H3). constructor; [exact H1| |exact IH].
  destruct l as [|d l']; [constructor|]. apply N.leb_le in H2.
  inversion IH as [|? ? Hd Hall _]; subst. constructor; [exact H2|].
  eapply Forall_impl; [|exact Hall]. cbn beta. intros e He. lia.
Qed.

(* split at a point no comment straddles *)
Lemma split_at cm p :
  cm_wf cm -> (forall c, In c cm -> ~ (cs c < p < ce c)) ->
  exists l1 l2, cm = l1 ++ l2 /\ Forall (fun c => ce c <= p) l1 /\ Forall (fun c => p <= cs c) l2.
Proof.
  induction 1 as [|c l Hne Hall Hwf IH]; intros Hs.
  - exists [], []. repeat split; constructor.
  - destruct (N.le_gt_cases (ce c) p) as [Hle|Hgt].
    + destruct IH as (l1 & l2 & E & F1 & F2); [intros d Hd; apply Hs; right; exact Hd|].
      exists (c :: l1), l2. subst l. repeat split; [constructor; assumption | exact F2].
    + exists [], (c :: l). split; [reflexivity|]. split; [constructor|].
      assert (p <= cs c) as Hp.
      { specialize (Hs c (or_introl eq_refl)). lia. }
      constructor; [exact Hp|]. eapply Forall_impl; [|exact Hall]. cbn beta. intros d Hd. lia.
Qed.

Lemma cm_wf_app_r l1 l2 : cm_wf (l1 ++ l2) -> cm_wf l2.
Proof. induction l1 as [|c l1 IH]; cbn [app]; intros H; [exact H|]. inversion H; subst. apply IH. assumption. Qed.

Fixpoint last_pt (a : N) (pts : list N) : N := match pts with [] => a | b :: t => last_pt b t end.

Lemma sorted_ge a pts p : sorted_pts (a :: pts) -> In p (a :: pts) -> a <= p.
Proof.
  revert a. induction pts as [|b t IH]; intros a Hs Hin.
  - destruct Hin as [<-|[]]. lia.
  - destruct Hs as [Hab Hs]. destruct Hin as [<-|Hin]; [lia|]. specialize (IH b Hs Hin). lia.
Qed.

Lemma emitted_cons cm a b t : emitted cm (a :: b :: t) = between cm a b ++ emitted cm (b :: t).
Proof. reflexivity. Qed.

(* ranges strictly after a1 never return a comment that ends by a1 *)
Lemma emitted_drop l1 l2 a1 rest :
  Forall (fun c => cs c < ce c) l1 -> Forall (fun c => ce c <= a1) l1 ->
  sorted_pts (a1 :: rest) -> emitted (l1 ++ l2) (a1 :: rest) = emitted l2 (a1 :: rest).
Proof.
  intros Hne Hle. revert a1 Hle. induction rest as [|b t IH]; intros a1 Hle Hs; [reflexivity|].
  rewrite !emitted_cons.
  destruct Hs as [Hab Hs].
  rewrite between_app, (between_none l1 a1 b); [|rewrite Forall_forall in *; intros c Hc; split; [apply Hne; exact Hc | right; apply Hle; exact Hc] | exact Hab].
  cbn [app]. f_equal. apply IH; [|exact Hs].
  eapply Forall_impl; [|exact Hle]. cbn beta. intros c Hc. lia.
Qed.

Theorem comments_partition_gen rest : forall a0 a1 cm,
  cm_wf cm -> sorted_pts (a0 :: a1 :: rest) -> covered cm a0 (last_pt a1 rest) ->
  no_straddle cm (a0 :: a1 :: rest) -> emitted cm (a0 :: a1 :: rest) = cm.
Proof.
  induction rest as [|a2 t IH]; intros a0 a1 cm Hwf Hs Hcov Hns.
  - unfold emitted. cbn [ranges flat_map fst snd last_pt] in *. rewrite app_nil_r. apply between_all. exact Hcov.
  - destruct Hs as [H01 Hs].
    destruct (split_at cm a1 Hwf) as (l1 & l2 & E & F1 & F2).
    { intros c Hc. apply Hns; [exact Hc | right; left; reflexivity]. }
    subst cm. rewrite emitted_cons.
    pose proof (cm_wf_nonempty _ Hwf) as Hne. apply Forall_app in Hne. destruct Hne as [Hne1 Hne2].
    apply Forall_app in Hcov. destruct Hcov as [Hc1 Hc2].
    rewrite between_app, (between_all l1 a0 a1), (between_none l2 a0 a1); [| |exact H01|].
    + rewrite app_nil_r. f_equal. rewrite emitted_drop; [|exact Hne1|exact F1|exact Hs].
      apply IH; [eapply cm_wf_app_r; exact Hwf | exact Hs | |].
      * unfold covered in *. rewrite Forall_forall in *. intros c Hc. split; [apply F2; exact Hc | apply Hc2; exact Hc].
      * intros c p Hc Hp. apply Hns; [apply in_or_app; right; exact Hc | right; exact Hp].
    + rewrite Forall_forall in *. intros c Hc. split; [apply Hne2; exact Hc | left; apply F2; exact Hc].
    + unfold covered in *. rewrite Forall_forall in *. intros c Hc. split; [apply Hc1; exact Hc | apply F1; exact Hc].
Qed.

Lemma centry_eqb_eq a b : centry_eqb a b = true -> a = b.
Proof.
  destruct a as [[a1 a2] a3], b as [[b1 b2] b3]. unfold centry_eqb, cs, ce. cbn [fst snd]. intros H.
  apply andb_true_iff in H. destruct H as [H H3]. apply andb_true_iff in H. destruct H as [H1 H2].
  apply N.eqb_eq in H1, H2, H3. subst. reflexivity.
Qed.
Lemma cm_eqb_eq a b : cm_eqb a b = true -> a = b.
Proof.
  revert b. induction a as [|x a IH]; intros [|y b] H; cbn [cm_eqb] in H; try discriminate; [reflexivity|].
  apply andb_true_iff in H. destruct H as [H1 H2]. apply centry_eqb_eq in H1. subst. f_equal. apply IH. exact H2.
Qed.
