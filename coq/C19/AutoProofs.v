From SwayV Require Import Base.Util C16.Model C19.Model C19.Spec C19.Auto.
Open Scope N_scope.

Lemma ascii_ws_cases w : ascii_ws w = true -> (9 <= w <= 13) \/ w = 32.
Proof.
  unfold ascii_ws. intros H. apply orb_true_iff in H. destruct H as [H|H].
  - apply andb_true_iff in H. destruct H as [H1 H2]. apply N.leb_le in H1. apply N.leb_le in H2. left. lia.
  - apply N.eqb_eq in H. right. exact H.
Qed.

Section P.
  Variable ucls : N -> N.

  Lemma ws_is_ws w : ascii_ws w = true -> is_ws ucls w = true.
  Proof.
    intros H. unfold is_ws. pose proof (ascii_ws_cases w H) as Hc.
    destruct (N.ltb_spec w 128); [exact H | lia].
  Qed.

  Lemma ws_not_xidc w : ascii_ws w = true -> is_xid_continue ucls w = false.
  Proof.
    intros H. pose proof (ascii_ws_cases w H) as Hc. unfold is_xid_continue, is_alpha, is_digit.
    destruct (N.ltb_spec w 128); [|lia].
    repeat match goal with |- context [N.leb ?a ?b] => destruct (N.leb_spec a b) end;
    repeat match goal with |- context [N.eqb ?a ?b] => destruct (N.eqb_spec a b) end; cbn; try reflexivity; lia.
  Qed.

  Lemma ws_not_extends m w : ascii_ws w = true -> extends ucls m w = false.
  Proof.
    intros H. pose proof (ws_not_xidc w H) as Hx. pose proof (ascii_ws_cases w H) as Hc.
    destruct m; cbn [extends]; try exact Hx; try reflexivity.
    - destruct (N.eqb_spec w 47); [lia|]. destruct (N.eqb_spec w 42); [lia|]. reflexivity.
    - destruct (N.eqb_spec w 35); [lia|]. cbn [orb]. exact Hx.
  Qed.

  Lemma ground_ws s w : ascii_ws w = true -> ground ucls s w = Some s.
  Proof. intros H. unfold ground. rewrite (ws_is_ws w H). reflexivity. Qed.

  Lemma flush_mode s : a_mode (flush s) = Ground.
  Proof. unfold flush. destruct (a_mode s); try reflexivity. destruct (int_suffix _); reflexivity. Qed.

  Lemma flush_ground s : a_mode s = Ground -> flush s = s.
  Proof. destruct s as [m st o]. cbn [a_mode]. intros ->. reflexivity. Qed.

  Lemma step_pending s c :
    pending (a_mode s) = true -> extends ucls (a_mode s) c = false -> step ucls s c = ground ucls (flush s) c.
  Proof. intros Hp He. unfold step. rewrite Hp, He. reflexivity. Qed.

  Lemma step_ws s w :
    pending (a_mode s) = true -> ascii_ws w = true -> step ucls s w = Some (flush s).
  Proof. intros Hp Hw. rewrite step_pending; [apply ground_ws; exact Hw | exact Hp | apply ws_not_extends; exact Hw]. Qed.

  Lemma run_app st a b : run ucls st (a ++ b) = run ucls (run ucls st a) b.
  Proof. unfold run. apply fold_left_app. Qed.

  (* whitespace between a pending token and a scalar that does not extend it is invisible *)
  Lemma run_ws s ws c :
    pending (a_mode s) = true -> extends ucls (a_mode s) c = false ->
    Forall (fun w => ascii_ws w = true) ws ->
    run ucls (Some s) (ws ++ [c]) = step ucls s c.
  Proof.
    intros Hp He Hws. revert s Hp He. induction Hws as [|w ws Hw _ IH]; intros s Hp He; [reflexivity|].
    cbn [app]. unfold run. cbn [fold_left astep]. rewrite (step_ws s w Hp Hw). fold (run ucls (Some (flush s)) (ws ++ [c])).
    rewrite IH.
    - rewrite !step_pending; try assumption; try (rewrite flush_mode; reflexivity).
      rewrite (flush_ground (flush s)); [reflexivity | apply flush_mode].
    - rewrite flush_mode. reflexivity.
    - rewrite flush_mode. reflexivity.
  Qed.

  Theorem ws_irrelevant pre ws c post :
    nonfusing ucls pre c = true -> Forall (fun w => ascii_ws w = true) ws ->
    auto_sig ucls (pre ++ ws ++ c :: post) = auto_sig ucls (pre ++ c :: post).
  Proof.
    unfold nonfusing, auto_sig. intros Hn Hws.
    destruct (run ucls (init) pre) as [s|] eqn:E; [|discriminate].
    apply andb_true_iff in Hn. destruct Hn as [Hp He]. apply negb_true_iff in He.
    replace (pre ++ ws ++ c :: post) with (pre ++ (ws ++ [c]) ++ post) by (rewrite <- !app_assoc; reflexivity).
    replace (pre ++ c :: post) with (pre ++ [c] ++ post) by reflexivity.
    rewrite (run_app init pre ((ws ++ [c]) ++ post)), (run_app init pre ([c] ++ post)), E.
    rewrite (run_app (Some s) (ws ++ [c]) post), (run_app (Some s) [c] post).
    rewrite (run_ws s ws c Hp He Hws). reflexivity.
  Qed.

  (* trailing whitespace after a complete token *)
  Theorem ws_trailing s ws :
    (match run ucls init s with Some st => pending (a_mode st) | None => false end) = true ->
    Forall (fun w => ascii_ws w = true) ws -> auto_sig ucls (s ++ ws) = auto_sig ucls s.
  Proof.
    unfold auto_sig. intros Hp Hws. rewrite run_app. destruct (run ucls init s) as [st|]; [|discriminate].
    revert st Hp. induction Hws as [|w ws Hw _ IH]; intros st Hp; [reflexivity|].
    unfold run. cbn [fold_left astep]. rewrite (step_ws st w Hp Hw). fold (run ucls (Some (flush st)) ws).
    rewrite IH; [|rewrite flush_mode; reflexivity].
    unfold finalize. rewrite Hp, flush_mode. cbn [pending]. rewrite (flush_ground (flush st)); [reflexivity | apply flush_mode].
  Qed.
End P.
