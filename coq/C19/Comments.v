(* C19 — model of swayfmt's CommentMap::from_src (utils/map/comments.rs) and of the range query
   `comments_between` that `write_comments` (comments.rs) uses, with the partition theorem. *)
From SwayV Require Import Base.Util C16.Model.
Open Scope N_scope.

Definition centry := (span * N)%type.            (* ByteSpan of the comment, CommentKind code *)
Definition cs (c : centry) : N := fst (fst c).   (* start *)
Definition ce (c : centry) : N := snd (fst c).   (* end *)

(* from_src: lex_commented, then collect every Comment, descending into groups.  The flattened
   stream lists group contents in place, so this is a filter.  The BTreeMap iterates by
   (start ascending, end descending); for the disjoint spans of comments that is source order. *)
Definition comment_map (ts : list tok) : list centry :=
  flat_map (fun t => match t with TComment k sp => [(sp, k)] | _ => [] end) ts.

(* ByteSpan::contained_within(range): range.start <= start && end <= range.end (inclusive) *)
Definition within (a b : N) (c : centry) : bool := (a <=? cs c) && (ce c <=? b).
(* comments_between(range): the map's entries, in map order, that are contained in the range *)
Definition between (cm : list centry) (a b : N) : list centry := filter (within a b) cm.

(* write_comments is called by the node printers with ranges (a0,a1), (a1,a2), ... *)
Fixpoint ranges (pts : list N) : list (N * N) :=
  match pts with
  | a :: (b :: _) as t => (a, b) :: ranges t
  | _ => []
  end.
Definition emitted (cm : list centry) (pts : list N) : list centry :=
  flat_map (fun r => between cm (fst r) (snd r)) (ranges pts).

(* well-formed comment map: every comment non-empty, and ends before every later one starts *)
Inductive cm_wf : list centry -> Prop :=
| wf_nil : cm_wf []
| wf_cons c l : cs c < ce c -> Forall (fun d => ce c <= cs d) l -> cm_wf l -> cm_wf (c :: l).

Fixpoint cm_wfb (l : list centry) : bool :=
  match l with
  | [] => true
  | c :: l' => (cs c <? ce c) &&
               match l' with d :: _ => ce c <=? cs d | [] => true end && cm_wfb l'
  end.

Fixpoint sorted_pts (pts : list N) : Prop :=
  match pts with a :: (b :: _) as t => a <= b /\ sorted_pts t | _ => True end.
Definition no_straddle (cm : list centry) (pts : list N) : Prop :=
  forall c p, In c cm -> In p pts -> ~ (cs c < p < ce c).
Definition covered (cm : list centry) (a z : N) : Prop :=
  Forall (fun c => a <= cs c /\ ce c <= z) cm.

Definition centry_eqb (a b : centry) : bool :=
  (cs a =? cs b) && (ce a =? ce b) && (snd a =? snd b).
Fixpoint cm_eqb (a b : list centry) : bool :=
  match a, b with
  | [], [] => true
  | x :: a', y :: b' => centry_eqb x y && cm_eqb a' b'
  | _, _ => false
  end.
