(* C19 — the relations of the property. *)
From SwayV Require Import Base.Util C16.Model C19.Model.
Open Scope N_scope.

(* same program text for the parser, up to the formatter's cosmetic normalisation *)
Definition tok_equiv (a b : list stok) : Prop := normalize a = normalize b.

(* a is a subsequence of b: every element of a occurs in b, in the same order *)
Inductive subseq {A : Type} : list A -> list A -> Prop :=
| sub_nil l : subseq [] l
| sub_take x a b : subseq a b -> subseq (x :: a) (x :: b)
| sub_skip x a b : subseq a b -> subseq a (x :: b).

(* every comment of the input is in the output, in order *)
Definition comments_subseq (cin cout : list (list N)) : Prop := subseq cin cout.

(* the comments xs occur in order, without overlap, in the text t *)
Inductive embeds : list (list N) -> list N -> Prop :=
| emb_nil t : embeds [] t
| emb_cons x xs g r : embeds xs r -> embeds (x :: xs) (g ++ x ++ r).

(* every comment text of the input occurs, in order, inside the comments of the output *)
Definition comments_embedded (cin cout : list (list N)) : Prop := embeds cin (join_comments cout).

(* the property for one (input, formatted output) pair, on their lexed forms *)
Definition preserved (sin : list N) (tin : list tok) (sout : list N) (tout : list tok) : Prop :=
  let '(a, ca) := sig_of (indices 0 sin) tin in
  let '(b, cb) := sig_of (indices 0 sout) tout in
  tok_equiv a b /\ comments_embedded ca cb.

Definition preservedb (sin : list N) (tin : list tok) (sout : list N) (tout : list tok) : bool * bool :=
  let '(a, ca) := sig_of (indices 0 sin) tin in
  let '(b, cb) := sig_of (indices 0 sout) tout in
  (stok_list_eqb (normalize a) (normalize b), embedsb ca (join_comments cb)).
