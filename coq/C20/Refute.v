(* C20/Refute.v — outside Spec.wf_graph the round trip fails: one concrete witness per excluded
   character / condition, in the model instantiated with Display = identity and parsers that
   accept every string (so the failure is forc's own splitting, not an external parser).
   props/c20.py replays a graph of each class on the real code (classes in its CLASSES table). *)
From SwayV Require Import Base.Util C21.Str C21.Model C20.Model C20.Spec.

Definition idf (s : str) : str := s.
Definition acc (s : str) : option str := Some s.
Notation showp := (show_pinned str str str idf idf idf).
Notation parsep := (parse_pinned str str str acc acc acc).
Notation depline := (pkg_dep_line str str str idf idf idf).

Definition url_a : str := [104;116;116;112;58;47;47;97;46;99;111;109]%N.   (* "http://a.com" *)
Definition commit_a : str := repeat 97%N 40.
Definition cid_v0 : str := ([81;109] ++ repeat 49 44)%N.                    (* "Qm" ++ 44 x '1' *)

(* '#' in a branch name: "git+http://a.com?branch=a#b#aaaa..." reads "b" as the commit hash *)
Lemma refuted_branch_hash :
  let p := PGit url_a (RBranch [97;35;98]%N) commit_a in parsep (showp p) = Err 9.
Proof. vm_compute. reflexivity. Qed.

(* '?' in the url: everything after it is read as the reference *)
Lemma refuted_url_qm :
  let p := PGit (url_a ++ [63;120])%N RDefault commit_a in parsep (showp p) = Err 9.
Proof. vm_compute. reflexivity. Qed.

(* a rev that is not the pinned commit hash (short rev, refs/...) comes back as the commit hash *)
Lemma refuted_rev_not_commit :
  let p := PGit url_a (RRev [97;98;99]%N) commit_a in
  parsep (showp p) = Ok (PGit url_a (RRev commit_a) commit_a).
Proof. vm_compute. reflexivity. Qed.

(* a registry cid that is not a 46-character "Qm..." (any CIDv1) fails validate_cid *)
Lemma refuted_reg_cid_v1 :
  let p := PReg [115]%N [49]%N [98;97;102;121]%N NsFlat in parsep (showp p) = Err 9.
Proof. vm_compute. reflexivity. Qed.

(* '!' in a registry namespace: truncated *)
Lemma refuted_ns_bang :
  let p := PReg [115]%N [49]%N cid_v0 (NsDomain [97;33;98]%N) in
  parsep (showp p) = Ok (PReg [115]%N [49]%N cid_v0 (NsDomain [97]%N)).
Proof. vm_compute. reflexivity. Qed.

(* '(' in a branch name of a disambiguated package: the dependency line is cut at it and the
   remainder is taken for a salt *)
Lemma refuted_branch_lpar :
  let p := PGit url_a (RBranch [102;40;120;41]%N) commit_a in
  parse_dep_line (depline None [115]%N p Lib true) = Err 1.
Proof. vm_compute. reflexivity. Qed.

(* ')' in a dependency name: "(a)b) std" reads the dependency name "a" and the package "b) std" *)
Lemma refuted_depname_rpar :
  parse_dep_line (depline (Some [97;41;98]%N) [115;116;100]%N PMember Lib false)
  = Ok (Some [97]%N, [98;41;32;115;116;100]%N, None).
Proof. vm_compute. reflexivity. Qed.

(* space / parenthesis in a package name *)
Lemma refuted_name_space :
  parse_dep_line (depline None [97;32]%N PMember Lib false) = Ok (None, [97]%N, None).
Proof. vm_compute. reflexivity. Qed.
Lemma refuted_name_lpar :
  parse_dep_line (depline None [97;40;98]%N PMember Lib false) = Err 1.
Proof. vm_compute. reflexivity. Qed.
