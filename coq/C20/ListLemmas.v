(* C20/ListLemmas.v — list / permutation facts used by the graph-level round trip. *)
From SwayV Require Import Base.Util C21.Str C21.Model C20.Model C20.Spec C20.StrLemmas.
From Coq Require Import Permutation.

Definition str_dec : forall a b : str, {a = b} + {a <> b} := list_eq_dec N.eq_dec.

Lemma mem_str_In x l : mem_str x l = true <-> In x l.
Proof.
  unfold mem_str. rewrite existsb_exists. split.
  - intros [y [Hy E]]. apply str_eqb_eq in E. subst. exact Hy.
  - intros H. exists x. split; [exact H|apply str_eqb_refl].
Qed.

Lemma count_pos_In (l : list str) x : In x l <-> 1 <= count_occ str_dec l x.
Proof. rewrite (count_occ_In str_dec). lia. Qed.

(* names_requiring_disambiguation = the names that occur at least twice *)
Lemma dis_aux_spec : forall names vis x,
  mem_str x (dis_aux vis names) = true <->
  (In x vis /\ In x names) \/ 2 <= count_occ str_dec names x.
Proof.
  induction names as [|y r IH]; intros vis x.
  - cbn. split; [discriminate|]. intros [[_ []]|H]; lia.
  - cbn [dis_aux]. destruct (mem_str y vis) eqn:Ey.
    + apply mem_str_In in Ey. cbn [mem_str existsb]. fold (mem_str x (dis_aux vis r)).
      rewrite orb_true_iff, IH, str_eqb_eq. cbn [In].
      destruct (str_dec y x) as [->|Hne].
      * rewrite count_occ_cons_eq by reflexivity. split; intros _; left; auto.
      * rewrite count_occ_cons_neq by exact Hne. split.
        -- intros [E|[[H1 H2]|H]]; [congruence|left; auto|right; exact H].
        -- intros [[H1 [E|H2]]|H]; [congruence|right; left; auto|right; right; exact H].
    + assert (Hy : ~ In y vis) by (intros H; apply mem_str_In in H; congruence).
      rewrite IH. cbn [In].
      destruct (str_dec y x) as [->|Hne].
      * rewrite count_occ_cons_eq by reflexivity. rewrite (count_pos_In r x). split.
        -- intros [[_ H]|H]; right; lia.
        -- intros [[H _]|H]; [contradiction|]. left. split; [left; reflexivity|lia].
      * rewrite count_occ_cons_neq by exact Hne. split.
        -- intros [[[E|H1] H2]|H]; [congruence|left; auto|right; exact H].
        -- intros [[H1 [E|H2]]|H]; [congruence|left; auto|right; exact H].
Qed.

Lemma dis_spec names x :
  mem_str x (names_requiring_disambiguation names) = true <-> 2 <= count_occ str_dec names x.
Proof.
  unfold names_requiring_disambiguation. rewrite dis_aux_spec. split; [intros [[[] _]|H]; exact H|auto].
Qed.

Lemma dis_perm a b x : Permutation a b ->
  mem_str x (names_requiring_disambiguation a) = mem_str x (names_requiring_disambiguation b).
Proof.
  intros P. pose proof (proj1 (Permutation_count_occ str_dec a b) P x) as E.
  pose proof (dis_spec a x) as Ha. pose proof (dis_spec b x) as Hb. rewrite E in Ha.
  destruct (mem_str x (names_requiring_disambiguation a)), (mem_str x (names_requiring_disambiguation b));
    try reflexivity.
  - pose proof (proj2 Hb (proj1 Ha eq_refl)). discriminate.
  - pose proof (proj2 Ha (proj1 Hb eq_refl)). discriminate.
Qed.

Lemma count_le1_nth (l : list str) x d : count_occ str_dec l x <= 1 ->
  forall i j, i < length l -> j < length l -> nth i l d = x -> nth j l d = x -> i = j.
Proof.
  induction l as [|y r IH]; intros Hc i j Hi Hj Ei Ej; [cbn in Hi; lia|].
  destruct (str_dec y x) as [->|Hne].
  - rewrite count_occ_cons_eq in Hc by reflexivity.
    assert (Hn : ~ In x r) by (rewrite (count_occ_not_In str_dec); lia).
    destruct i as [|i], j as [|j]; try reflexivity; exfalso; apply Hn; cbn in *.
    + rewrite <- Ej. apply nth_In. lia.
    + rewrite <- Ei. apply nth_In. lia.
    + rewrite <- Ei. apply nth_In. lia.
  - rewrite count_occ_cons_neq in Hc by exact Hne.
    destruct i as [|i]; [cbn in Ei; congruence|]. destruct j as [|j]; [cbn in Ej; congruence|].
    f_equal. cbn in *. apply IH; auto; lia.
Qed.

Lemma NoDup_map_inj_in {A B} (f : A -> B) l :
  (forall x y, In x l -> In y l -> f x = f y -> x = y) -> NoDup l -> NoDup (map f l).
Proof.
  intros Hinj H. induction H as [|a l Hn Hd IH]; [constructor|].
  cbn. constructor.
  - intros Hin. apply in_map_iff in Hin. destruct Hin as [y [E Hy]].
    assert (y = a) by (apply Hinj; [right; exact Hy|left; reflexivity|exact E]). subst. contradiction.
  - apply IH. intros x y Hx Hy. apply Hinj; right; assumption.
Qed.

(* insertion sort is a permutation *)
Lemma insert_str_perm x l : Permutation (x :: l) (insert_str x l).
Proof.
  induction l as [|y r IH]; [reflexivity|]. cbn. destruct (str_leb x y); [reflexivity|].
  rewrite perm_swap. constructor. exact IH.
Qed.
Lemma sort_str_perm l : Permutation l (sort_str l).
Proof.
  induction l as [|x r IH]; [reflexivity|]. cbn. rewrite <- insert_str_perm. constructor. exact IH.
Qed.

Lemma filter_partition_perm {A} (p : A -> bool) l :
  Permutation (filter p l ++ filter (fun x => negb (p x)) l) l.
Proof.
  induction l as [|a l IH]; [reflexivity|]. cbn. destruct (p a); cbn.
  - constructor. exact IH.
  - rewrite <- Permutation_middle. constructor. exact IH.
Qed.

Lemma filter_or_perm {A} (p q : A -> bool) l : (forall x, p x = true -> q x = true -> False) ->
  Permutation (filter p l ++ filter q l) (filter (fun x => p x || q x) l).
Proof.
  intros Hd. induction l as [|a l IH]; [reflexivity|]. cbn.
  destruct (p a) eqn:Ep, (q a) eqn:Eq; cbn.
  - exfalso. eauto.
  - constructor. exact IH.
  - rewrite <- Permutation_middle. constructor. exact IH.
  - exact IH.
Qed.

Lemma filter_all {A} (p : A -> bool) l : (forall x, In x l -> p x = true) -> filter p l = l.
Proof.
  induction l as [|a l IH]; intros H; [reflexivity|]. cbn. rewrite (H a (or_introl eq_refl)).
  f_equal. apply IH. intros x Hx. apply H. right; exact Hx.
Qed.

(* position of an element *)
Fixpoint index_of (i : nat) (l : list nat) : nat :=
  match l with [] => 0 | x :: r => if Nat.eqb x i then 0 else S (index_of i r) end.

Lemma index_of_spec i l : In i l -> index_of i l < length l /\ nth (index_of i l) l 0 = i.
Proof.
  induction l as [|x r IH]; intros H; [destruct H|]. cbn [index_of].
  destruct (Nat.eqb x i) eqn:E.
  - apply Nat.eqb_eq in E. subst. cbn. split; [lia|reflexivity].
  - destruct H as [->|H]; [rewrite Nat.eqb_refl in E; discriminate|].
    destruct (IH H) as [H1 H2]. cbn. split; [lia|exact H2].
Qed.

Lemma index_of_inj i j l : In i l -> In j l -> index_of i l = index_of j l -> i = j.
Proof.
  intros Hi Hj E. destruct (index_of_spec i l Hi) as [_ <-]. destruct (index_of_spec j l Hj) as [_ <-].
  rewrite E. reflexivity.
Qed.

Lemma map_nth_seq {A} (l : list A) d : map (fun i => nth i l d) (seq 0 (length l)) = l.
Proof.
  induction l as [|a l IH]; [reflexivity|]. cbn [length seq map nth]. f_equal.
  rewrite <- seq_shift, map_map. exact IH.
Qed.

Lemma lookup_unique m : NoDup (map fst m) -> forall k v, In (k, v) m -> lookup k m = Some v.
Proof.
  induction m as [|[k' v'] r IH]; intros Hd k v Hin; [destruct Hin|].
  cbn [map fst] in Hd. inversion Hd as [|? ? Hn Hd']; subst. cbn [lookup].
  destruct Hin as [E|Hin].
  - injection E as -> ->. rewrite str_eqb_refl. reflexivity.
  - destruct (str_eqb k k') eqn:E.
    + apply str_eqb_eq in E. subst. exfalso. apply Hn. apply in_map_iff. exists (k', v). auto.
    + apply IH; assumption.
Qed.

(* update_edge appends when the (from, to) pair is new *)
Definition ft (e : gedge) : nat * nat := (ge_from e, ge_to e).

Lemma update_edge_new es e : ~ In (ft e) (map ft es) -> update_edge es e = es ++ [e].
Proof.
  induction es as [|x r IH]; intros H; [reflexivity|]. cbn [update_edge].
  destruct (Nat.eqb (ge_from x) (ge_from e) && Nat.eqb (ge_to x) (ge_to e)) eqn:E.
  - exfalso. apply H. left. apply andb_prop in E. destruct E as [E1 E2].
    apply Nat.eqb_eq in E1. apply Nat.eqb_eq in E2. unfold ft. congruence.
  - cbn. f_equal. apply IH. intros Hin. apply H. right. exact Hin.
Qed.

Lemma update_all_new : forall new es, NoDup (map ft (es ++ new)) -> fold_left update_edge new es = es ++ new.
Proof.
  induction new as [|e r IH]; intros es H; [cbn; rewrite app_nil_r; reflexivity|].
  cbn [fold_left]. rewrite update_edge_new.
  - rewrite IH; rewrite <- app_assoc; [reflexivity|exact H].
  - rewrite map_app in H. cbn [map] in H. apply NoDup_remove_2 in H. intros Hin. apply H.
    apply in_or_app. left. exact Hin.
Qed.
