(* C20/LineProofs.v — parse_pkg_dep_line inverts pkg_dep_line. *)
From SwayV Require Import Base.Util C21.Str C21.Model C20.Model C20.Spec C20.StrLemmas C20.SrcProofs.
Require Import ZifyBool ZifyN.

Arguments N.add : simpl never. Arguments N.sub : simpl never. Arguments N.mul : simpl never.
Arguments N.div : simpl never. Arguments N.modulo : simpl never. Arguments N.pow : simpl never.
Arguments N.eqb : simpl never. Arguments N.ltb : simpl never. Arguments N.leb : simpl never.

Lemma name_byte_graphic b : name_byte b = true -> graphic b = true.
Proof. unfold name_byte, is_ascii_alnum, graphic. lia. Qed.
Lemma name_byte_not_lpar b : name_byte b = true -> negb (b =? c_lpar)%N = true.
Proof. unfold name_byte, is_ascii_alnum, c_lpar. lia. Qed.

Lemma wf_name_props n : wf_nameb n = true ->
  hd_graphic n = true /\ last_graphic n = true /\ lacks c_lpar n = true /\ n <> [].
Proof.
  unfold wf_nameb. intros H. apply andb_prop in H. destruct H as [Hne Hb].
  destruct n as [|x n']; [discriminate|].
  repeat split.
  - cbn in Hb. apply andb_prop in Hb. apply name_byte_graphic. tauto.
  - apply last_graphic_forall; [discriminate|]. eapply forallb_impl; [|exact Hb]. apply name_byte_graphic.
  - eapply forallb_impl; [|exact Hb]. apply name_byte_not_lpar.
  - discriminate.
Qed.

Lemma hd_graphic_app a b : hd_graphic a = true -> hd_graphic (a ++ b) = true.
Proof. destruct a; [discriminate|]. cbn. auto. Qed.

Lemma strip_suffix_snoc c s : strip_suffix_c c (s ++ [c]) = Some s.
Proof. unfold strip_suffix_c. rewrite rev_app_distr. cbn. rewrite N.eqb_refl, rev_involutive. reflexivity. Qed.

Lemma parse_salt_show v : (v < 2 ^ 256)%N -> parse_salt (show_salt v) = Some v.
Proof.
  intros Hv. unfold parse_salt, show_salt.
  assert (E : strip_prefix_or s_0x (show_hex hex_lower 64 v) = show_hex hex_lower 64 v).
  { pose proof (show_hex_lower_bytes 64 v) as H. change 64 with (S (S 62)) in *.
    remember 62 as k. cbn [show_hex] in *. cbn [forallb] in H.
    apply andb_prop in H. destruct H as [_ H]. apply andb_prop in H. destruct H as [Hb _].
    unfold strip_prefix_or, s_0x. cbn [starts_with].
    match goal with |- context [N.eqb 120 ?b] => replace (N.eqb 120 b) with false end.
    - rewrite andb_false_r. reflexivity.
    - unfold lower_hex_byte in Hb. lia. }
  rewrite E, show_hex_length. cbn [Nat.eqb].
  rewrite (hex_digits_show hex_lower hex_val_lower). f_equal.
  rewrite N.mul_0_l, N.add_0_l. apply N.mod_small.
  change (16 ^ N.of_nat 64)%N with (2 ^ 256)%N. exact Hv.
Qed.

Section Line.
  Variables url cid ver : Type.
  Variable show_url : url -> str.
  Variable show_cid : cid -> str.
  Variable show_ver : ver -> str.
  Variable parse_url : str -> option url.
  Variable parse_cid : str -> option cid.
  Variable parse_ver : str -> option ver.
  Notation pinned := (pinned url cid ver).
  Notation show_pinned := (show_pinned url cid ver show_url show_cid show_ver).
  Notation wf_src := (wf_src url cid ver show_url show_cid show_ver parse_url parse_cid parse_ver).
  Notation pkg_dep_line := (pkg_dep_line url cid ver show_url show_cid show_ver).

  Definition pkg_string (name : str) (src : pinned) (dflag : bool) : str :=
    if dflag then name ++ [c_space] ++ show_pinned src else name.

  Definition salt_of (k : depkind) : option N :=
    match k with Lib => None | Contract s => if (s =? 0)%N then None else Some s end.

  Lemma pkg_string_props name src dflag : wf_nameb name = true -> wf_src src ->
    hd_graphic (pkg_string name src dflag) = true /\ last_graphic (pkg_string name src dflag) = true /\
    lacks c_lpar (pkg_string name src dflag) = true.
  Proof.
    intros Hn [Hp [Hlp Hlg]]. destruct (wf_name_props name Hn) as [N1 [N2 [N3 N4]]].
    unfold pkg_string. destruct dflag; [|auto].
    repeat split.
    - apply hd_graphic_app. exact N1.
    - rewrite app_assoc. rewrite last_graphic_app; [exact Hlg|].
      intros E. rewrite E in Hlg. discriminate.
    - rewrite !lacks_app, N3, Hlp. reflexivity.
  Qed.

  Lemma rt_dep_line dn name src kind dflag :
    wf_nameb name = true -> wf_src src ->
    (match dn with Some d => lacks c_rpar d = true /\ hd_ok d = true | None => True end) ->
    (match kind with Contract s => (s < 2 ^ 256)%N | Lib => True end) ->
    parse_dep_line (pkg_dep_line dn name src kind dflag)
    = Ok (dn, pkg_string name src dflag, salt_of kind).
  Proof.
    intros Hn Hs Hdn Hk.
    destruct (pkg_string_props name src dflag Hn Hs) as [Ph [Pl Plp]].
    set (P := pkg_string name src dflag) in *.
    (* the three segments of the line *)
    set (pre := match dn with None => [] | Some d => [c_lpar] ++ d ++ [c_rpar; c_space] end).
    set (post := match salt_of kind with None => [] | Some s => [c_space; c_lpar] ++ show_salt s ++ [c_rpar] end).
    assert (Hline : pkg_dep_line dn name src kind dflag = pre ++ P ++ post).
    { unfold Model.pkg_dep_line, pre, post, salt_of. cbv zeta.
      change (if dflag then name ++ [c_space] ++ show_pinned src else name) with P.
      destruct dn as [d|]; destruct kind as [|s].
      1,3: cbn [app]; rewrite <- ?app_assoc; cbn [app]; rewrite ?app_nil_r; rewrite <- ?app_assoc; reflexivity.
      all: destruct (s =? 0)%N; cbn [app]; rewrite <- ?app_assoc; cbn [app]; rewrite ?app_nil_r;
        rewrite <- ?app_assoc; reflexivity. }
    assert (Hpost : post = [] /\ salt_of kind = None \/
                    exists s, salt_of kind = Some s /\ (s < 2 ^ 256)%N /\
                              post = [c_space] ++ c_lpar :: (show_salt s ++ [c_rpar])).
    { unfold post. destruct (salt_of kind) as [s|] eqn:E; [right|left; auto].
      exists s. split; [reflexivity|]. split; [|reflexivity].
      unfold salt_of in E. destruct kind as [|s']; [discriminate|].
      destruct (s' =? 0)%N; [discriminate|]. injection E as <-. exact Hk. }
    (* the line is its own trim *)
    assert (Hpl : last_graphic (P ++ post) = true).
    { destruct Hpost as [[-> _]|[s [_ [_ ->]]]].
      - rewrite app_nil_r. exact Pl.
      - rewrite last_graphic_app by discriminate.
        change ([c_space] ++ c_lpar :: show_salt s ++ [c_rpar]) with (([c_space] ++ c_lpar :: show_salt s) ++ [c_rpar]).
        rewrite last_graphic_app by discriminate. reflexivity. }
    assert (Ht : trim (pre ++ P ++ post) = pre ++ P ++ post).
    { apply trim_id.
      - unfold pre. destruct dn; [reflexivity|]. cbn [app]. apply hd_graphic_app. exact Ph.
      - rewrite last_graphic_app; [exact Hpl|]. destruct P; [discriminate|discriminate]. }
    unfold parse_dep_line. cbv zeta. rewrite Hline, Ht.
    (* dependency-name prefix *)
    assert (Hhd : exists a, (a = [] \/ a = [c_space]) /\
      (if starts_with [c_lpar] (pre ++ P ++ post)
       then s1 <- slice_from 9 (pre ++ P ++ post) 1 ;;
            match split_once c_rpar s1 with
            | None => Err 1
            | Some (d, rest) => Ok (Some d, rest)
            end
       else Ok (None, pre ++ P ++ post)) = Ok (dn, a ++ P ++ post)).
    { unfold pre. destruct dn as [d|].
      - exists [c_space]. split; [right; reflexivity|]. destruct Hdn as [D1 D2].
        replace (starts_with [c_lpar] (([c_lpar] ++ d ++ [c_rpar; c_space]) ++ P ++ post)) with true by reflexivity.
        replace (([c_lpar] ++ d ++ [c_rpar; c_space]) ++ P ++ post)
          with ([c_lpar] ++ (d ++ c_rpar :: ([c_space] ++ P ++ post)))
          by (rewrite <- ?app_assoc; cbn [app]; rewrite <- ?app_assoc; reflexivity).
        change 1 with (length [c_lpar]).
        rewrite slice_from_app; [|discriminate|apply hd_ok_app; [exact D2|reflexivity]].
        cbn [obind]. rewrite split_once_app by exact D1. reflexivity.
      - exists []. split; [left; reflexivity|]. cbn [app].
        destruct P as [|x P']; [discriminate|]. cbn [app starts_with].
        replace (N.eqb c_lpar x) with false; [reflexivity|].
        cbn [lacks forallb] in Plp. apply andb_prop in Plp. destruct Plp as [Hx _]. lia. }
    destruct Hhd as [a [Ha E]].
    match goal with |- obind ?x _ = _ =>
      replace x with (@Ok (option str * str) (dn, a ++ P ++ post)) by (symmetry; exact E) end.
    clear E. cbn [obind].
    assert (Hla : lacks c_lpar a = true) by (destruct Ha as [->| ->]; reflexivity).
    destruct Hpost as [[-> Hsalt]|[s [Hsalt [Hs256 ->]]]].
    - rewrite app_nil_r. rewrite split_c_lacks by (rewrite lacks_app, Hla, Plp; reflexivity).
      rewrite Hsalt. f_equal. f_equal. f_equal.
      pose proof (trim_pad a P [] Ph Pl Ha (or_introl eq_refl)) as E. rewrite app_nil_r in E. exact E.
    - replace (a ++ P ++ [c_space] ++ c_lpar :: show_salt s ++ [c_rpar])
        with ((a ++ P ++ [c_space]) ++ c_lpar :: (show_salt s ++ [c_rpar]))
        by (rewrite <- ?app_assoc; reflexivity).
      assert (Hhex : forallb lower_hex_byte (show_salt s) = true) by apply show_hex_lower_bytes.
      assert (Hhl : length (show_salt s) = 64) by apply show_hex_length.
      rewrite split_c_app by (rewrite !lacks_app, Hla, Plp; reflexivity).
      rewrite (split_c_lacks c_lpar (show_salt s ++ [c_rpar])).
      2:{ rewrite lacks_app. replace (lacks c_lpar [c_rpar]) with true by reflexivity. rewrite andb_true_r.
          eapply forallb_impl; [|exact Hhex]. intros b Hb. unfold lower_hex_byte in Hb. unfold c_lpar. lia. }
      cbn [fst snd].
      rewrite (trim_pad a P [c_space] Ph Pl Ha (or_intror eq_refl)).
      rewrite (trim_id (show_salt s ++ [c_rpar])).
      2:{ destruct (show_salt s) as [|h0 hr] eqn:Eh; [discriminate|]. cbn [app hd_graphic].
          cbn [forallb] in Hhex. apply andb_prop in Hhex. apply lower_hex_graphic. tauto. }
      2:{ rewrite last_graphic_app by discriminate. reflexivity. }
      rewrite strip_suffix_snoc, parse_salt_show by exact Hs256. rewrite Hsalt. reflexivity.
  Qed.
End Line.
